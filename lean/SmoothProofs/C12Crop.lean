/-
  C12Crop.lean — the crop law for `SplineSM.crop` (list form of the code after the fixes ea1d6c4 /
  b6aa840): ANY crop interval (later segments, knots), localised or not; and the constant-velocity law.
-/
import SmoothProofs.C12Concat
import Mathlib.Tactic.Group

set_option linter.unusedSectionVars false

open SplineSM SplineSM.TimeOps

namespace C12

variable {τ : Type} [Field τ] [LinearOrder τ] [IsStrictOrderedRing τ]
attribute [local instance] fieldTime
variable {G W : Type} [Group G] {C : Ker τ G W}

/-- the value formula of a segment: `g ∘ c(T0)⁻¹ ∘ c(u(t))` -/
def segVal (C : Ker τ G W) (g : G) (tp : τ) (sg : Seg τ G W) (t : τ) : G :=
  g * (C.c sg.V sg.T0)⁻¹ * C.c sg.V (sg.T0 + sg.Del * (t - tp) / (sg.tEnd - tp))

theorem base_eq (hK : GroupKer C) (g : G) (V : List W) {T0 : τ} (h0 : 0 ≤ T0) :
    (if 0 < T0 then C.mul g (C.inv (C.c V T0)) else g) = g * (C.c V T0)⁻¹ := by
  by_cases hz : 0 < T0
  · simp [hz, hK.mul_eq, hK.inv_eq]
  · have : T0 = 0 := le_antisymm (not_lt.1 hz) h0
    have hc : C.c V 0 = 1 := hK.c_zero V
    simp [this, hc]

/-- two (segment, time) pairs with the same control velocities, the same curve parameter, the same
    time scaling and left-related base points evaluate to left-related results -/
theorem evalSeg_reparam (hK : GroupKer C) {g1 g2 h : G} {tp1 tp2 t1 t2 : τ} {s1 s2 : Seg τ G W}
    (hV : s1.V = s2.V) (h01 : 0 ≤ s1.T0) (h02 : 0 ≤ s2.T0)
    (hbase : g1 * (C.c s1.V s1.T0)⁻¹ = h * (g2 * (C.c s2.V s2.T0)⁻¹))
    (hu : s1.T0 + s1.Del * (t1 - tp1) / (s1.tEnd - tp1) = s2.T0 + s2.Del * (t2 - tp2) / (s2.tEnd - tp2))
    (hs : s1.Del / (s1.tEnd - tp1) = s2.Del / (s2.tEnd - tp2)) :
    evalSeg C g1 tp1 s1 t1 = liftL h (evalSeg C g2 tp2 s2 t2) := by
  have hs2 : s1.Del * s1.Del / ((s1.tEnd - tp1) * (s1.tEnd - tp1)) = s2.Del * s2.Del / ((s2.tEnd - tp2) * (s2.tEnd - tp2)) := by
    rw [mul_div_mul_comm, mul_div_mul_comm, hs]
  unfold evalSeg liftL
  simp only [tzero]
  rw [base_eq hK g1 s1.V h01, base_eq hK g2 s2.V h02, hu, hs, hs2, hbase, hV]
  simp [hK.mul_eq, mul_assoc]

/-- the value at t computed on the segment that contains t in `(start, end]` (left-closed lookup) -/
def leftVal (C : Ker τ G W) : G → τ → List (Seg τ G W) → τ → G
  | g, _, [], _ => g
  | g, tp, sg :: rest, t =>
    if t ≤ sg.tEnd ∨ rest = [] then segVal C g tp sg t else leftVal C sg.gEnd sg.tEnd rest t

theorem segVal_at_end (hT : tp < sg.tEnd) (hok : SegOK C g sg) : segVal C g tp sg sg.tEnd = sg.gEnd := by
  obtain ⟨_, _, _, hg⟩ := hok
  unfold segVal
  rw [mul_div_cancel_right₀ _ (ne_of_gt (sub_pos.2 hT)), hg]

/-- by continuity at the knots, the code's (right-closed) lookup returns the same value -/
theorem leftVal_eq (hK : GroupKer C) : ∀ (l : List (Seg τ G W)) (g : G) (tp : τ), InvFrom C g tp l → l ≠ [] →
    ∀ t, tp < t → t ≤ lastT tp l → (evalFrom C g tp l t).1 = leftVal C g tp l t := by
  intro l
  induction l with
  | nil => intro g tp _ hne; exact absurd rfl hne
  | cons sg rest ih =>
    intro g tp hI _ t ht1 ht2
    obtain ⟨hT, hok, hrest⟩ := hI
    obtain ⟨h0, hD, h1, hg⟩ := hok
    by_cases hlast : t ≤ sg.tEnd ∨ rest = []
    · have hte : t ≤ sg.tEnd := by
        rcases hlast with h | h
        · exact h
        · subst h; exact ht2
      simp only [leftVal, if_pos hlast]
      by_cases hlt : t < sg.tEnd ∨ rest = []
      · have : evalFrom C g tp (sg :: rest) t = evalSeg C g tp sg t := by
          rcases hlt with h | h
          · exact evalFrom_cons_lt h
          · subst h; rfl
        rw [this, evalSeg_val hK h0 hD h1 hT (le_of_lt ht1) hte]; rfl
      · push Not at hlt
        have hteq : t = sg.tEnd := le_antisymm hte hlt.1
        obtain ⟨b, r, hbr⟩ : ∃ b r, rest = b :: r := by
          cases hr : rest with
          | nil => exact absurd hr hlt.2
          | cons b r => exact ⟨b, r, rfl⟩
        subst hbr
        obtain ⟨hTb, hokb, _⟩ := hrest
        rw [hteq, evalFrom_cons_ge (lt_irrefl _) (by simp), evalFrom_cons_lt hTb, evalSeg_at_start hK hTb hokb,
          segVal_at_end hT ⟨h0, hD, h1, hg⟩]
    · push Not at hlast
      simp only [leftVal, if_neg (not_or.2 ⟨not_le.2 hlast.1, hlast.2⟩)]
      rw [evalFrom_cons_ge (not_lt.2 (le_of_lt hlast.1)) hlast.2]
      exact ih sg.gEnd sg.tEnd hrest hlast.2 t hlast.1 ht2

section CropLists
variable (adj : G → G) (h : G) (ta tb : τ) (gb : G)

theorem cropTail_ne_nil (tp : τ) (l : List (Seg τ G W)) (hne : l ≠ []) : cropTail adj ta tb gb tp l ≠ [] := by
  cases l with
  | nil => exact absurd rfl hne
  | cons sg rest => unfold cropTail; split <;> simp

/-- evaluation of the segments after the first one -/
theorem cropTail_eval (hK : GroupKer C) (hadj : ∀ g, adj g = h * g) :
    ∀ (l : List (Seg τ G W)) (g : G) (tp : τ), InvFrom C g tp l → l ≠ [] → tp < tb → tb ≤ lastT tp l →
      ∀ t', tp ≤ t' → t' < tb →
        evalFrom C (h * g) (tp - ta) (cropTail adj ta tb gb tp l) (t' - ta) = liftL h (evalFrom C g tp l t') := by
  intro l
  induction l with
  | nil => intro g tp _ hne; exact absurd rfl hne
  | cons sg rest ih =>
    intro g tp hI _ htb1 htb2 t' ht1 ht2
    obtain ⟨hT, ⟨h0, hD, h1, hg⟩, hrest⟩ := hI
    have hTp : sg.tEnd - tp ≠ 0 := ne_of_gt (sub_pos.2 hT)
    by_cases hlast : tb ≤ sg.tEnd ∨ rest = []
    · have hbe : tb ≤ sg.tEnd := by
        rcases hlast with h' | h'
        · exact h'
        · subst h'; exact htb2
      have hbt : tb - tp ≠ 0 := ne_of_gt (sub_pos.2 htb1)
      simp only [cropTail, if_pos hlast]
      rw [evalFrom_single, evalFrom_cons_lt (lt_of_lt_of_le ht2 hbe)]
      apply evalSeg_reparam hK
      · rfl
      · simp; exact h0
      · exact h0
      · simp [mul_assoc]
      · simp only [sub_self, mul_zero, zero_div, add_zero, sub_sub_sub_cancel_right]
        field_simp
      · simp only [sub_sub_sub_cancel_right]
        field_simp
    · push Not at hlast
      have hne' : cropTail adj ta tb gb sg.tEnd rest ≠ [] := cropTail_ne_nil adj ta tb gb _ _ hlast.2
      simp only [cropTail, if_neg (not_or.2 ⟨not_le.2 hlast.1, hlast.2⟩)]
      by_cases hlt : t' < sg.tEnd
      · rw [evalFrom_cons_lt (by simpa using hlt), evalFrom_cons_lt hlt]
        apply evalSeg_reparam hK
        · rfl
        · exact h0
        · exact h0
        · simp [mul_assoc]
        · simp only [sub_sub_sub_cancel_right]
        · simp only [sub_sub_sub_cancel_right]
      · rw [evalFrom_cons_ge (by simpa using hlt) hne', evalFrom_cons_ge hlt hlast.2]
        have := ih sg.gEnd sg.tEnd hrest hlast.2 hlast.1 htb2 t' (not_lt.1 hlt) ht2
        simpa [hadj] using this

/-- invariant, duration and end point of the segments after the first one -/
theorem cropTail_inv (_hK : GroupKer C) (hadj : ∀ g, adj g = h * g) :
    ∀ (l : List (Seg τ G W)) (g : G) (tp : τ), InvFrom C g tp l → l ≠ [] → tp < tb → tb ≤ lastT tp l →
      gb = leftVal C g tp l tb →
      InvFrom C (h * g) (tp - ta) (cropTail adj ta tb gb tp l) ∧
      lastT (tp - ta) (cropTail adj ta tb gb tp l) = tb - ta ∧
      lastG (h * g) (cropTail adj ta tb gb tp l) = h * gb := by
  intro l
  induction l with
  | nil => intro g tp _ hne; exact absurd rfl hne
  | cons sg rest ih =>
    intro g tp hI _ htb1 htb2 hgb
    obtain ⟨hT, ⟨h0, hD, h1, hg⟩, hrest⟩ := hI
    have hTp : 0 < sg.tEnd - tp := sub_pos.2 hT
    by_cases hlast : tb ≤ sg.tEnd ∨ rest = []
    · have hbe : tb ≤ sg.tEnd := by
        rcases hlast with h' | h'
        · exact h'
        · subst h'; exact htb2
      have hgb' : gb = segVal C g tp sg tb := by simpa [leftVal, if_pos hlast] using hgb
      have hfrac : (tb - tp) / (sg.tEnd - tp) ≤ 1 := by
        rw [div_le_one hTp]; linarith
      have hfrac0 : 0 < (tb - tp) / (sg.tEnd - tp) := div_pos (sub_pos.2 htb1) hTp
      simp only [cropTail, if_pos hlast]
      refine ⟨⟨by simpa using htb1, ⟨?_, ?_, ?_, ?_⟩, trivial⟩, rfl, by simp [lastG, hadj]⟩
      · simp; exact h0
      · exact mul_pos hD hfrac0
      · simp only [sub_self, mul_zero, zero_div, add_zero]
        have : sg.Del * ((tb - tp) / (sg.tEnd - tp)) ≤ sg.Del := by
          have := mul_le_mul_of_nonneg_left hfrac (le_of_lt hD)
          simpa using this
        linarith
      · simp only [hadj, hgb', segVal, sub_self, mul_zero, zero_div, add_zero]
        have : sg.Del * (tb - tp) / (sg.tEnd - tp) = sg.Del * ((tb - tp) / (sg.tEnd - tp)) := by ring
        rw [this]
        simp [mul_assoc]
    · push Not at hlast
      have hgb' : gb = leftVal C sg.gEnd sg.tEnd rest tb := by
        simpa [leftVal, if_neg (not_or.2 ⟨not_le.2 hlast.1, hlast.2⟩)] using hgb
      simp only [cropTail, if_neg (not_or.2 ⟨not_le.2 hlast.1, hlast.2⟩)]
      obtain ⟨i1, i2, i3⟩ := ih sg.gEnd sg.tEnd hrest hlast.2 hlast.1 htb2 hgb'
      refine ⟨⟨by simpa using hT, ⟨h0, hD, h1, ?_⟩, by simpa [hadj] using i1⟩, by simpa [lastT] using i2, by simpa [lastG, hadj] using i3⟩
      simp only [hadj, hg, mul_assoc]

theorem cropFrom_ne_nil (tp : τ) (l : List (Seg τ G W)) (hne : l ≠ []) : cropFrom adj ta tb gb tp l ≠ [] := by
  induction l generalizing tp with
  | nil => exact absurd rfl hne
  | cons sg rest ih =>
    unfold cropFrom
    split
    · split <;> simp
    · rename_i hc
      push Not at hc
      exact ih _ hc.2

/-- everything about the segment list of a crop: evaluation, invariant, duration, end point -/
theorem cropFrom_spec (hK : GroupKer C) (hadj : ∀ g, adj g = h * g) :
    ∀ (l : List (Seg τ G W)) (g : G) (tp : τ), InvFrom C g tp l → l ≠ [] → tp ≤ ta → ta < tb → tb ≤ lastT tp l →
      gb = leftVal C g tp l tb →
      (∀ t', ta ≤ t' → t' < tb →
        evalFrom C (h * (evalFrom C g tp l ta).1) 0 (cropFrom adj ta tb gb tp l) (t' - ta) = liftL h (evalFrom C g tp l t')) ∧
      InvFrom C (h * (evalFrom C g tp l ta).1) 0 (cropFrom adj ta tb gb tp l) ∧
      lastT 0 (cropFrom adj ta tb gb tp l) = tb - ta ∧
      lastG (h * (evalFrom C g tp l ta).1) (cropFrom adj ta tb gb tp l) = h * gb := by
  intro l
  induction l with
  | nil => intro g tp _ hne; exact absurd rfl hne
  | cons sg rest ih =>
    intro g tp hI _ hta hab htb2 hgb
    obtain ⟨hT, ⟨h0, hD, h1, hg⟩, hrest⟩ := hI
    have hTp : 0 < sg.tEnd - tp := sub_pos.2 hT
    by_cases hhit : ta < sg.tEnd ∨ rest = []
    · have hae : ta < sg.tEnd := by
        rcases hhit with h' | h'
        · exact h'
        · subst h'; exact lt_of_lt_of_le hab htb2
      have hea : 0 < sg.tEnd - ta := sub_pos.2 hae
      have hva : (evalFrom C g tp (sg :: rest) ta).1 = segVal C g tp sg ta := by
        rw [evalFrom_cons_lt hae, evalSeg_val hK h0 hD h1 hT hta (le_of_lt hae)]; rfl
      have hq0 : 0 ≤ sg.Del * (ta - tp) / (sg.tEnd - tp) :=
        div_nonneg (mul_nonneg (le_of_lt hD) (sub_nonneg.2 hta)) (le_of_lt hTp)
      have hT0' : 0 ≤ sg.T0 + sg.Del * (ta - tp) / (sg.tEnd - tp) := by linarith
      have hfr : 0 < (sg.tEnd - ta) / (sg.tEnd - tp) := div_pos hea hTp
      have hsum : sg.T0 + sg.Del * (ta - tp) / (sg.tEnd - tp) + sg.Del * ((sg.tEnd - ta) / (sg.tEnd - tp)) = sg.T0 + sg.Del := by
        field_simp; ring
      by_cases hlast : tb ≤ sg.tEnd ∨ rest = []
      · -- one segment
        have hbe : tb ≤ sg.tEnd := by
          rcases hlast with h' | h'
          · exact h'
          · subst h'; exact htb2
        have hgb' : gb = segVal C g tp sg tb := by simpa [leftVal, if_pos hlast] using hgb
        have hba : 0 < tb - ta := sub_pos.2 hab
        have hfr2 : 0 < (tb - ta) / (sg.tEnd - ta) := div_pos hba hea
        simp only [cropFrom, if_pos hhit, if_pos hlast, hva]
        refine ⟨?_, ⟨by simpa using hba, ⟨?_, ?_, ?_, ?_⟩, trivial⟩, by simp [lastT], by simp [lastG, hadj]⟩
        · intro t' ht1 ht2
          rw [evalFrom_single, evalFrom_cons_lt (lt_of_lt_of_le ht2 hbe)]
          apply evalSeg_reparam hK
          · rfl
          · simp only [sub_self, mul_zero, zero_div, add_zero]; exact hT0'
          · exact h0
          · simp only [segVal, sub_self, mul_zero, zero_div, add_zero]; group
          · simp only [sub_self, mul_zero, zero_div, add_zero, sub_zero]
            have hne1 : tb - ta ≠ 0 := ne_of_gt hba
            have hne2 : sg.tEnd - ta ≠ 0 := ne_of_gt hea
            have hne3 : sg.tEnd - tp ≠ 0 := ne_of_gt hTp
            field_simp
            ring
          · simp only [sub_zero]
            have hne1 : tb - ta ≠ 0 := ne_of_gt hba
            have hne2 : sg.tEnd - ta ≠ 0 := ne_of_gt hea
            have hne3 : sg.tEnd - tp ≠ 0 := ne_of_gt hTp
            field_simp
        · simp only [sub_self, mul_zero, zero_div, add_zero]; exact hT0'
        · exact mul_pos (mul_pos hD hfr) hfr2
        · simp only [sub_self, mul_zero, zero_div, add_zero]
          have hle : sg.Del * ((sg.tEnd - ta) / (sg.tEnd - tp)) * ((tb - ta) / (sg.tEnd - ta)) ≤
              sg.Del * ((sg.tEnd - ta) / (sg.tEnd - tp)) := by
            have h1' : (tb - ta) / (sg.tEnd - ta) ≤ 1 := by rw [div_le_one hea]; linarith
            have := mul_le_mul_of_nonneg_left h1' (le_of_lt (mul_pos hD hfr))
            simpa using this
          linarith
        · have hne2 : sg.tEnd - ta ≠ 0 := ne_of_gt hea
          have hne3 : sg.tEnd - tp ≠ 0 := ne_of_gt hTp
          have hu : sg.T0 + sg.Del * (ta - tp) / (sg.tEnd - tp) +
              sg.Del * ((sg.tEnd - ta) / (sg.tEnd - tp)) * ((tb - ta) / (sg.tEnd - ta)) =
              sg.T0 + sg.Del * (tb - tp) / (sg.tEnd - tp) := by
            field_simp; ring
          simp only [hadj, hgb', segVal, sub_self, mul_zero, zero_div, add_zero, hu]
          group
      · -- several segments
        push Not at hlast
        have hgb' : gb = leftVal C sg.gEnd sg.tEnd rest tb := by
          simpa [leftVal, if_neg (not_or.2 ⟨not_le.2 hlast.1, hlast.2⟩)] using hgb
        have hne' : cropTail adj ta tb gb sg.tEnd rest ≠ [] := cropTail_ne_nil adj ta tb gb _ _ hlast.2
        obtain ⟨i1, i2, i3⟩ := cropTail_inv adj h ta tb gb hK hadj rest sg.gEnd sg.tEnd hrest hlast.2 hlast.1 htb2 hgb'
        simp only [cropFrom, if_pos hhit, if_neg (not_or.2 ⟨not_le.2 hlast.1, hlast.2⟩), hva]
        refine ⟨?_, ⟨by simpa using hea, ⟨hT0', mul_pos hD hfr, le_trans (le_of_eq hsum) h1, ?_⟩, by simpa [hadj] using i1⟩,
          by simpa [lastT] using i2, by simpa [lastG, hadj] using i3⟩
        · intro t' ht1 ht2
          by_cases hlt : t' < sg.tEnd
          · rw [evalFrom_cons_lt (by simpa using hlt), evalFrom_cons_lt hlt]
            apply evalSeg_reparam hK
            · rfl
            · exact hT0'
            · exact h0
            · simp only [segVal]; group
            · have hne2 : sg.tEnd - ta ≠ 0 := ne_of_gt hea
              have hne3 : sg.tEnd - tp ≠ 0 := ne_of_gt hTp
              simp only [sub_zero]
              field_simp
              ring
            · have hne2 : sg.tEnd - ta ≠ 0 := ne_of_gt hea
              have hne3 : sg.tEnd - tp ≠ 0 := ne_of_gt hTp
              simp only [sub_zero]
              field_simp
          · rw [evalFrom_cons_ge (by simpa using hlt) hne', evalFrom_cons_ge hlt hlast.2]
            have := cropTail_eval adj h ta tb gb hK hadj rest sg.gEnd sg.tEnd hrest hlast.2 hlast.1 htb2 t' (not_lt.1 hlt) ht2
            simpa [hadj] using this
        · simp only [hadj, hg, segVal, hsum, mul_assoc]
          group
    · -- this segment ends before ta: skipped
      push Not at hhit
      have hskip : ¬ ta < sg.tEnd := not_lt.2 hhit.1
      have hgb' : gb = leftVal C sg.gEnd sg.tEnd rest tb := by
        have : ¬ (tb ≤ sg.tEnd ∨ rest = []) := not_or.2 ⟨not_le.2 (lt_of_le_of_lt hhit.1 hab), hhit.2⟩
        simpa [leftVal, if_neg this] using hgb
      have hcf : cropFrom adj ta tb gb tp (sg :: rest) = cropFrom adj ta tb gb sg.tEnd rest := by
        simp only [cropFrom, if_neg (not_or.2 ⟨hskip, hhit.2⟩)]
      have hea : evalFrom C g tp (sg :: rest) ta = evalFrom C sg.gEnd sg.tEnd rest ta := evalFrom_cons_ge hskip hhit.2
      obtain ⟨j1, j2, j3, j4⟩ := ih sg.gEnd sg.tEnd hrest hhit.2 hhit.1 hab htb2 hgb'
      rw [hcf, hea]
      refine ⟨?_, j2, j3, j4⟩
      intro t' ht1 ht2
      rw [evalFrom_cons_ge (not_lt.2 (le_trans hhit.1 ht1)) hhit.2]
      exact j1 t' ht1 ht2

end CropLists

/-- the left factor of a crop: `x(ta)⁻¹` when localised, `1` otherwise -/
def cropH (C : Ker τ G W) (x : Spline τ G W) (ta : τ) (loc : Bool) : G := if loc then (val C x ta)⁻¹ else 1

/-- **crop law**, all cases (any segments, knots, localised or not) for `0 ≤ ta < tb ≤ t_max`:
    the result satisfies the invariant, lasts `tb − ta`, starts at `h·x(ta)`, ends at `h·x(tb)`, and
    `y(t) = h·x(ta+t)` with the velocity and acceleration of `x` on `[0, tb−ta)`, `h = x(ta)⁻¹` or `1`. -/
theorem crop_spec (hK : GroupKer C) (x : Spline τ G W) (hI : Inv C x) {ta tb : τ} (loc : Bool)
    (h0 : 0 ≤ ta) (hab : ta < tb) (hb : tb ≤ tMax x) :
    Inv C (crop C x ta tb loc) ∧ tMax (crop C x ta tb loc) = tb - ta ∧
    start (crop C x ta tb loc) = cropH C x ta loc * val C x ta ∧
    endG (crop C x ta tb loc) = cropH C x ta loc * val C x tb ∧
    (crop C x ta tb loc).segs ≠ [] ∧
    (∀ t, 0 ≤ t → t < tb - ta → eval C (crop C x ta tb loc) t = liftL (cropH C x ta loc) (eval C x (ta + t))) := by
  have hne : x.segs ≠ [] := by
    intro hnil
    rw [tMax_eq, hnil] at hb
    exact absurd (lt_of_lt_of_le hab hb) (not_lt.2 h0)
  have hbl : tb ≤ lastT 0 x.segs := by rwa [tMax_eq] at hb
  have hta : tmax ta (TimeOps.zero : τ) = ta := tmax_zero h0
  have htb : tmin tb (tMax x) = tb := tmin_left hb
  have hxa : eval C x ta = evalFrom C x.g0 0 x.segs ta := eval_inside x hne h0 (le_trans (le_of_lt hab) hb)
  have hxb : eval C x tb = evalFrom C x.g0 0 x.segs tb := eval_inside x hne (le_trans h0 (le_of_lt hab)) hb
  have hgb : val C x tb = leftVal C x.g0 0 x.segs tb := by
    unfold val; rw [hxb]; exact leftVal_eq hK x.segs x.g0 0 hI hne tb (lt_of_le_of_lt h0 hab) hbl
  let adj : G → G := fun g => if loc then C.mul (C.inv (val C x ta)) g else g
  have hadj : ∀ g, adj g = cropH C x ta loc * g := by
    intro g; cases loc <;> simp [adj, cropH, hK.mul_eq, hK.inv_eq]
  have hcrop : crop C x ta tb loc =
      ⟨if loc then C.one else val C x ta, cropFrom adj ta tb (val C x tb) 0 x.segs⟩ := by
    have hta' : tmax ta (0 : τ) = ta := tmax_zero h0
    unfold crop
    simp only [tzero, hta', htb, if_neg (not_le.2 hab)]
    rfl
  have hg0 : (if loc then C.one else val C x ta) = cropH C x ta loc * (evalFrom C x.g0 0 x.segs ta).1 := by
    have : (evalFrom C x.g0 0 x.segs ta).1 = val C x ta := by unfold val; rw [hxa]
    rw [this]
    cases loc <;> simp [cropH, hK.one_eq]
  obtain ⟨s1, s2, s3, s4⟩ := cropFrom_spec adj (cropH C x ta loc) ta tb (val C x tb) hK hadj x.segs x.g0 0 hI hne h0 hab hbl hgb
  have hva : (evalFrom C x.g0 0 x.segs ta).1 = val C x ta := by unfold val; rw [hxa]
  have hyne : (crop C x ta tb loc).segs ≠ [] := by rw [hcrop]; exact cropFrom_ne_nil adj ta tb _ _ _ hne
  have hTy : tMax (crop C x ta tb loc) = tb - ta := by rw [tMax_eq, hcrop]; exact s3
  refine ⟨?_, hTy, ?_, ?_, hyne, ?_⟩
  · rw [hcrop]; unfold Inv; simp only; rw [hg0]; exact s2
  · rw [hcrop]; unfold start; simp only; rw [hg0, hva]
  · rw [endG_eq, hcrop]; simp only; rw [hg0]; exact s4
  · intro t ht0 ht
    have h1 := s1 (ta + t) (by linarith) (by linarith)
    rw [add_sub_cancel_left] at h1
    rw [eval_inside _ hyne ht0 (by rw [hTy]; exact le_of_lt ht),
      eval_inside x hne (by linarith) (by linarith)]
    rw [hcrop]; simp only; rw [hg0]; exact h1

/-- the value law also at the right end point `t = tb − ta` (by the invariant of the result) -/
theorem crop_val (hK : GroupKer C) (x : Spline τ G W) (hI : Inv C x) {ta tb : τ} (loc : Bool)
    (h0 : 0 ≤ ta) (hab : ta < tb) (hb : tb ≤ tMax x) {t : τ} (ht0 : 0 ≤ t) (ht : t ≤ tb - ta) :
    val C (crop C x ta tb loc) t = cropH C x ta loc * val C x (ta + t) := by
  obtain ⟨i1, i2, _, i4, i5, i6⟩ := crop_spec hK x hI loc h0 hab hb
  rcases lt_or_eq_of_le ht with hlt | heq
  · unfold val; rw [i6 t ht0 hlt]; rfl
  · have : ta + t = tb := by rw [heq]; ring
    rw [this, heq, ← i2]
    -- value at t_max of the result = its end point
    obtain ⟨pre, sg, hs⟩ : ∃ pre sg, (crop C x ta tb loc).segs = pre ++ [sg] := by
      rcases List.eq_nil_or_concat (crop C x ta tb loc).segs with h | ⟨l, a, h⟩
      · exact absurd h i5
      · exact ⟨l, a, by simpa using h⟩
    have hInv : InvFrom C (crop C x ta tb loc).g0 0 (pre ++ [sg]) := by simpa [Inv, hs] using i1
    rw [InvFrom_append] at hInv
    obtain ⟨_, hT, hok, _⟩ := hInv
    have htm : tMax (crop C x ta tb loc) = sg.tEnd := by rw [tMax_eq, hs, lastT_append]; rfl
    have hen : endG (crop C x ta tb loc) = sg.gEnd := by rw [endG_eq, hs, lastG_append]; rfl
    have he := eval_on_segment' _ i1 pre [] sg hs (t := sg.tEnd) (le_of_lt hT) (Or.inr ⟨rfl, le_refl _⟩)
    unfold val
    rw [htm, he, evalSeg_at_end hK hT hok, ← hen, i4]
    rfl

/-- crop preserves the invariant for ALL arguments (the clamped interval may be empty) -/
theorem crop_inv (hK : GroupKer C) (x : Spline τ G W) (hI : Inv C x) (ta tb : τ) (loc : Bool) :
    Inv C (crop C x ta tb loc) := by
  by_cases hemp : tmin tb (tMax x) ≤ tmax ta (TimeOps.zero : τ)
  · have : crop C x ta tb loc = SplineSM.empty C.one := by unfold crop; simp only [if_pos hemp]
    rw [this]; exact inv_empty _
  · have h0 : (0 : τ) ≤ tmax ta (TimeOps.zero : τ) := by
      unfold tmax; split <;> simp_all
    have hb : tmin tb (tMax x) ≤ tMax x := by unfold tmin; split <;> simp_all
    have hsame : crop C x ta tb loc = crop C x (tmax ta TimeOps.zero) (tmin tb (tMax x)) loc := by
      unfold crop
      rw [tmax_zero h0, tmin_left hb]
    rw [hsame]
    exact (crop_spec hK x hI loc h0 (not_le.1 hemp) hb).1

/-! ### ConstantVelocity -/

/-- With control velocities `(T/K)·v` the curve is `ga ∘ exp(t·v)`; `expo s v` stands for `exp(s·v)` and
    `hcv` is the basis identity `Σⱼ B̃ⱼ(u) = K·u` (C20.sum_cumulative) applied to K equal velocities. -/
theorem constant_velocity_general (hK : GroupKer C) (expo : τ → W → G) (hKpos : 0 < C.K)
    (hcv : ∀ (s : τ) (v : W) (u : τ), C.c (List.replicate C.K (C.wsmul s v)) u = expo ((C.K : τ) * u * s) v)
    (v : W) {T : τ} (hT : 0 < T) (ga : G) {t : τ} (ht0 : 0 ≤ t) (ht : t ≤ T) :
    val C (constantVelocity C v T ga) t = ga * expo t v := by
  have hne : T ≠ 0 := ne_of_gt hT
  have hKne : (C.K : τ) ≠ 0 := Nat.cast_ne_zero.2 (Nat.pos_iff_ne_zero.1 hKpos)
  unfold constantVelocity val
  rw [if_neg (by simpa using not_le.2 hT)]
  have hin := eval_inside (C := C) (ctor C T (List.replicate C.K (C.wsmul (T / TimeOps.ofNat C.K) v)) ga) (t := t)
    (by simp [ctor]) ht0 (by simpa [tMax, ctor] using ht)
  rw [hin]
  simp only [ctor, evalFrom]
  rw [evalSeg_val hK (by simp) (by simp) (by simp) (by simpa using hT) ht0 (by simpa using ht)]
  simp only [tzero, tone, tofNat, sub_zero, zero_add, one_mul]
  rw [hK.c_zero, hcv, inv_one, mul_one]
  congr 2
  field_simp

end C12
