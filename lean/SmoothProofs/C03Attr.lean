/-
  C03Attr.lean — simp set `c03e` ("entries"): explicit entry lemmas of the literal constructors and
  of the structured group matrices, used with `simp only [c03e, …]` (3–4× faster than plain `simp`
  with unfolding on the 5×5 / 10×10 Galilei objects).
-/
import Mathlib.Tactic.Attr.Register

/-- entry lemmas used by the C03 proofs -/
register_simp_attr c03e
