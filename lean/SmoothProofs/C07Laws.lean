/-
  C07Laws.lean — the Manifold laws for Lie groups (from group + exp/log laws), for
  `std::variant`, for `AnyManifold` (value level and ownership level), and the SubManifold cast.
-/
import SmoothProofs.C07Sub
import SmoothProofs.Real
import Mathlib.Algebra.Group.Basic
import Mathlib.Tactic.Ring

open Scalar Lin Manif

set_option linter.unusedSectionVars false
set_option linter.unusedSimpArgs false

namespace C07
variable {α : Type} [Scalar α]

/-! ### abstract groups -/

section abstract
variable {G T : Type} [Group G] (exp : T → G) (log : G → T)

theorem abstract_rminus_rplus (D : Set T) (hle : ∀ a ∈ D, log (exp a) = a) (m : G) (a : T)
    (ha : a ∈ D) : log (m⁻¹ * (m * exp a)) = a := by
  rw [inv_mul_cancel_left]; exact hle a ha

theorem abstract_rplus_rminus (hel : ∀ g, exp (log g) = g) (m m2 : G) :
    m * exp (log (m⁻¹ * m2)) = m2 := by
  rw [hel, mul_inv_cancel_left]

theorem abstract_rminus_self [Zero T] (D : Set T) (hle : ∀ a ∈ D, log (exp a) = a) (h0 : (0 : T) ∈ D)
    (he0 : exp 0 = 1) (m : G) : log (m⁻¹ * m) = 0 := by
  rw [inv_mul_cancel, ← he0]; exact hle 0 h0

end abstract

/-! ### the model's Lie groups -/

theorem vecOfList_listOfVec {n : Nat} (v : Vec α n) : vecOfList (listOfVec v) = v := by
  ext i
  simp [vecOfList, listOfVec, Vec.of, List.getD_eq_getElem?_getD]

theorem listOfVec_vecOfList {n : Nat} (a : List α) (h : a.length = n) :
    listOfVec (vecOfList a : Vec α n) = a := by
  apply List.ext_getElem
  · simp [listOfVec, h]
  · intro i h1 h2
    simp [listOfVec, vecOfList, Vec.of, List.getD_eq_getElem?_getD, h2]

theorem listOfVec_length {n : Nat} (v : Vec α n) : (listOfVec v).length = n := by
  simp [listOfVec]

theorem listOfVec_vzero (n : Nat) : listOfVec (vzero n : Vec α n) = zeros α n := by
  apply List.ext_getElem
  · simp [listOfVec, zeros]
  · intro i h1 h2
    simp [listOfVec, vzero, Vec.of, zeros]

/-- what C01 (group axioms on valid representations) and C02 (exp/log inverse on the injectivity
    domain `D`) provide for a group model -/
structure LieLaws (G : LieModel α) (Valid : Vec α G.rep → Prop) (D : Vec α G.dof → Prop) : Prop where
  valid_comp : ∀ a b, Valid a → Valid b → Valid (G.composition a b)
  valid_inv : ∀ a, Valid a → Valid (G.inverse a)
  valid_exp : ∀ a, Valid (G.exp a)
  assoc : ∀ a b c, Valid a → Valid b → Valid c →
    G.composition (G.composition a b) c = G.composition a (G.composition b c)
  inv_comp : ∀ g, Valid g → G.composition (G.inverse g) g = G.identity
  comp_inv : ∀ g, Valid g → G.composition g (G.inverse g) = G.identity
  id_comp : ∀ g, Valid g → G.composition G.identity g = g
  log_exp : ∀ a, D a → G.log (G.exp a) = a
  exp_log : ∀ g, Valid g → G.exp (G.log g) = g
  log_id : G.log G.identity = vzero G.dof

section lie
variable {G : LieModel α} {Valid : Vec α G.rep → Prop} {D : Vec α G.dof → Prop}

theorem lie_rminus_rplus (h : LieLaws G Valid D) (g : Vec α G.rep) (a : Vec α G.dof) (hg : Valid g)
    (ha : D a) : G.rminus (G.rplus g a) g = a := by
  simp only [LieModel.rminus, LieModel.rplus]
  rw [← h.assoc _ _ _ (h.valid_inv g hg) hg (h.valid_exp a), h.inv_comp g hg,
    h.id_comp _ (h.valid_exp a), h.log_exp a ha]

theorem lie_rplus_rminus (h : LieLaws G Valid D) (g g2 : Vec α G.rep) (hg : Valid g) (hg2 : Valid g2) :
    G.rplus g (G.rminus g2 g) = g2 := by
  simp only [LieModel.rminus, LieModel.rplus]
  rw [h.exp_log _ (h.valid_comp _ _ (h.valid_inv g hg) hg2),
    ← h.assoc _ _ _ hg (h.valid_inv g hg) hg2, h.comp_inv g hg, h.id_comp _ hg2]

theorem lie_rminus_self (h : LieLaws G Valid D) (g : Vec α G.rep) (hg : Valid g) :
    G.rminus g g = vzero G.dof := by
  simp only [LieModel.rminus]
  rw [h.inv_comp g hg, h.log_id]

/-- `traits::man<G>` satisfies the Manifold laws; the injectivity guard is `D` -/
theorem lie_laws (h : LieLaws G Valid D) :
    ManLaws (ofLie G) Valid (fun _ a => D (vecOfList a)) (fun _ _ => True) where
  valid_rplus := by
    intro g a hg _ _
    exact h.valid_comp _ _ hg (h.valid_exp _)
  dof_rplus := by intros; rfl
  compat_rplus := by intros; trivial
  compat_dof := by intros; rfl
  rminus_length := by
    intro g1 g2 _ _ _
    exact ⟨_, rfl, listOfVec_length _⟩
  rminus_rplus := by
    intro g a hg hl hd
    change lieRminus G (lieRplus G g a) g = _
    have hl' : a.length = G.dof := hl
    simp only [lieRminus, lieRplus, memoV_eq]
    rw [lie_rminus_rplus h g _ hg hd, listOfVec_vecOfList a hl']
  rplus_rminus := by
    intro g g2 d hg hg2 _ hd
    change lieRminus G g2 g = _ at hd
    simp only [lieRminus, Except.ok.injEq] at hd
    change lieRplus G g d = g2
    simp only [lieRplus, memoV_eq, ← hd, vecOfList_listOfVec]
    exact lie_rplus_rminus h g g2 hg hg2
  rminus_self := by
    intro g hg
    change lieRminus G g g = _
    simp only [lieRminus]
    rw [lie_rminus_self h g hg, listOfVec_vzero]
    rfl

end lie

/-- non-vacuity: the translation groups (`Eigen::Vector<N>`) over ℝ satisfy `LieLaws` everywhere -/
theorem tn_lieLaws (n : Nat) : LieLaws (Tn.model n : LieModel ℝ) (fun _ => True) (fun _ => True) where
  valid_comp := by intros; trivial
  valid_inv := by intros; trivial
  valid_exp := by intros; trivial
  assoc := by
    intro a b c _ _ _
    ext i; simp [Tn.model, Tn.composition, vadd, Vec.of]; ring
  inv_comp := by
    intro g _
    ext i; simp [Tn.model, Tn.composition, Tn.inverse, Tn.identity, vadd, vneg, vzero, Vec.of]
  comp_inv := by
    intro g _
    ext i; simp [Tn.model, Tn.composition, Tn.inverse, Tn.identity, vadd, vneg, vzero, Vec.of]
  id_comp := by
    intro g _
    ext i; simp [Tn.model, Tn.composition, Tn.identity, vadd, vzero, Vec.of]
  log_exp := by intros; rfl
  exp_log := by intros; rfl
  log_id := rfl

/-! ### `std::variant` and `AnyManifold` (value level) -/

section variant
variable {ι : Type} [DecidableEq ι] {Ms : ι → Type} {A : ∀ i, Man α (Ms i)}
  {Valid : ∀ i, Ms i → Prop} {Dom : ∀ i, Ms i → List α → Prop} {Compat : ∀ i, Ms i → Ms i → Prop}

/-- both hold the same alternative, and the held values are compatible -/
def SigmaCompat (Compat : ∀ i, Ms i → Ms i → Prop) (v w : Σ i, Ms i) : Prop :=
  ∃ h : w.1 = v.1, Compat v.1 v.2 (h ▸ w.2)

theorem variantRminus_same (i : ι) (x y : Ms i) :
    variantRminus A ⟨i, x⟩ ⟨i, y⟩ = (A i).rminus x y := by
  simp [variantRminus]

theorem anyRminus_same (i : ι) (x y : Ms i) : anyRminus A ⟨i, x⟩ ⟨i, y⟩ = (A i).rminus x y := by
  simp [anyRminus]

/-- `rminus` across different alternatives throws -/
theorem variant_rminus_mismatch (first : ι) (v w : Σ i, Ms i) (h : w.1 ≠ v.1) :
    (variant A first).rminus v w = .error "bad_variant_access" := by
  change variantRminus A v w = _
  simp [variantRminus, h]

theorem variant_laws (hA : ∀ i, ManLaws (A i) (Valid i) (Dom i) (Compat i)) (first : ι) :
    ManLaws (variant A first) (fun v => Valid v.1 v.2) (fun v a => Dom v.1 v.2 a)
      (SigmaCompat Compat) where
  valid_rplus := by
    rintro ⟨i, x⟩ a hv hl hd
    exact (hA i).valid_rplus x a hv hl hd
  dof_rplus := by
    rintro ⟨i, x⟩ a hv hl hd
    exact (hA i).dof_rplus x a hv hl hd
  compat_rplus := by
    rintro ⟨i, x⟩ a hv hl hd
    exact ⟨rfl, (hA i).compat_rplus x a hv hl hd⟩
  compat_dof := by
    rintro ⟨i, x⟩ ⟨j, y⟩ ⟨h, hc⟩
    simp only at h; subst h
    exact (hA j).compat_dof x y hc
  rminus_length := by
    rintro ⟨i, x⟩ ⟨j, y⟩ h1 h2 ⟨h, hc⟩
    simp only at h; subst h
    obtain ⟨d, hd, hl⟩ := (hA j).rminus_length x y h1 h2 hc
    exact ⟨d, by change variantRminus A _ _ = _; rw [variantRminus_same, hd], hl⟩
  rminus_rplus := by
    rintro ⟨i, x⟩ a hv hl hd
    change variantRminus A ⟨i, _⟩ ⟨i, x⟩ = _
    rw [variantRminus_same]
    exact (hA i).rminus_rplus x a hv hl hd
  rplus_rminus := by
    rintro ⟨i, x⟩ ⟨j, y⟩ d h1 h2 ⟨h, hc⟩ hd
    simp only at h; subst h
    change variantRminus A ⟨i, y⟩ ⟨i, x⟩ = _ at hd
    rw [variantRminus_same] at hd
    change (⟨i, (A i).rplus x d⟩ : Σ i, Ms i) = ⟨i, y⟩
    rw [(hA i).rplus_rminus x y d h1 h2 hc hd]
  rminus_self := by
    rintro ⟨i, x⟩ hv
    change variantRminus A ⟨i, x⟩ ⟨i, x⟩ = _
    rw [variantRminus_same]
    exact (hA i).rminus_self x hv

/-- `AnyManifold`: the laws are inherited from the wrapped type (same wrapped type on both sides) -/
theorem any_laws (hA : ∀ i, ManLaws (A i) (Valid i) (Dom i) (Compat i)) :
    ManLaws (any A) (fun v => Valid v.1 v.2) (fun v a => Dom v.1 v.2 a) (SigmaCompat Compat) where
  valid_rplus := by
    rintro ⟨i, x⟩ a hv hl hd
    exact (hA i).valid_rplus x a hv hl hd
  dof_rplus := by
    rintro ⟨i, x⟩ a hv hl hd
    exact (hA i).dof_rplus x a hv hl hd
  compat_rplus := by
    rintro ⟨i, x⟩ a hv hl hd
    exact ⟨rfl, (hA i).compat_rplus x a hv hl hd⟩
  compat_dof := by
    rintro ⟨i, x⟩ ⟨j, y⟩ ⟨h, hc⟩
    simp only at h; subst h
    exact (hA j).compat_dof x y hc
  rminus_length := by
    rintro ⟨i, x⟩ ⟨j, y⟩ h1 h2 ⟨h, hc⟩
    simp only at h; subst h
    obtain ⟨d, hd, hl⟩ := (hA j).rminus_length x y h1 h2 hc
    exact ⟨d, by change anyRminus A _ _ = _; rw [anyRminus_same, hd], hl⟩
  rminus_rplus := by
    rintro ⟨i, x⟩ a hv hl hd
    change anyRminus A ⟨i, _⟩ ⟨i, x⟩ = _
    rw [anyRminus_same]
    exact (hA i).rminus_rplus x a hv hl hd
  rplus_rminus := by
    rintro ⟨i, x⟩ ⟨j, y⟩ d h1 h2 ⟨h, hc⟩ hd
    simp only at h; subst h
    change anyRminus A ⟨i, y⟩ ⟨i, x⟩ = _ at hd
    rw [anyRminus_same] at hd
    change (⟨i, (A i).rplus x d⟩ : Σ i, Ms i) = ⟨i, y⟩
    rw [(hA i).rplus_rminus x y d h1 h2 hc hd]
  rminus_self := by
    rintro ⟨i, x⟩ hv
    change anyRminus A ⟨i, x⟩ ⟨i, x⟩ = _
    rw [anyRminus_same]
    exact (hA i).rminus_self x hv

end variant

/-! ### ownership of `AnyManifold` objects -/

namespace Heap
open Manif.AnyHeap
variable {V : Type}

theorem read_alloc_new (h : Heap V) (v : V) : read (alloc h v).1 (alloc h v).2 = some v := by
  simp [AnyHeap.read, AnyHeap.alloc]

theorem read_alloc_old (h : Heap V) (v : V) (a : Handle) (x : V) (hx : read h a = some x) :
    read (alloc h v).1 a = some x := by
  cases a with
  | mk p =>
    cases p with
    | none => simp [AnyHeap.read] at hx
    | some p =>
      simp only [AnyHeap.read, Option.bind_some, AnyHeap.alloc] at hx ⊢
      have hp : p < h.cells.length := by
        by_contra hc
        rw [List.getElem?_eq_none (by omega)] at hx
        cases hx
      rw [List.getElem?_append_left hp]
      exact hx

/-- **copy_independent**: after `c := copy a`, `c` holds the same value as `a`, lives in its own
    cell, and any mutation through `c` leaves `a` unchanged (and vice versa) -/
theorem copy_independent (h h' : Heap V) (a c : Handle) (hc : copy h a = some (h', c)) :
    read h' c = read h a ∧ c ≠ a ∧
    (∀ v, read (write h' c v) a = read h a) ∧ (∀ v, read (write h' a v) c = read h a) := by
  cases a with
  | mk p =>
    cases p with
    | none => simp [AnyHeap.copy, AnyHeap.read] at hc
    | some p =>
      simp only [AnyHeap.copy, AnyHeap.read, Option.bind_some, Option.map_eq_some_iff] at hc
      obtain ⟨x, hx, hal⟩ := hc
      have hp : p < h.cells.length := by
        by_contra hcon
        rw [List.getElem?_eq_none (by omega)] at hx
        cases hx
      simp only [AnyHeap.alloc, Prod.mk.injEq] at hal
      obtain ⟨rfl, rfl⟩ := hal
      refine ⟨?_, ?_, ?_, ?_⟩
      · simp [AnyHeap.read, hx]
      · intro hcon
        simp only [Handle.mk.injEq, Option.some.injEq] at hcon
        omega
      · intro v
        simp only [AnyHeap.write, AnyHeap.read, Option.bind_some]
        rw [List.getElem?_set_ne (by omega), List.getElem?_append_left hp]
      · intro v
        simp only [AnyHeap.write, AnyHeap.read, Option.bind_some]
        rw [List.getElem?_set_ne (by omega)]
        simp [hx]

/-- a pointer-sharing copy would NOT be independent (so `copy_independent` says something) -/
theorem shallowCopy_not_independent :
    ∃ (h : Heap Nat) (a : Handle) (v : Nat),
      read (write (shallowCopy h a).1 (shallowCopy h a).2 v) a ≠ read h a :=
  ⟨⟨[0]⟩, ⟨some 0⟩, 1, by decide⟩

/-- the move constructor hands the cell over and leaves the source null -/
theorem move_spec (h : Heap V) (a : Handle) :
    read h (move a).1 = read h a ∧ read h (move a).2 = none := by
  simp [AnyHeap.move, AnyHeap.read]

end Heap

/-! ### cast to the same scalar type -/

/-- the cast to the same scalar type succeeds and returns the same value -/
def CastOk {M : Type} (A : Man α M) (Valid : M → Prop) : Prop := ∀ s, Valid s → A.cast s = .ok s

section cast
variable {M : Type} (A : Man α M)

theorem castOk_lie (G : LieModel α) : CastOk (ofLie G) (fun _ => True) := fun _ _ => rfl
theorem castOk_scalar : CastOk (scalar : Man α α) (fun _ => True) := fun _ _ => rfl
theorem castOk_vecX : CastOk (vecX : Man α (List α)) (fun _ => True) := fun _ _ => rfl

theorem castOk_vector {Valid : M → Prop} (hA : CastOk A Valid) (u : Nat → α) :
    CastOk (vector A u) (fun ms => ∀ m ∈ ms, Valid m) := by
  intro ms
  induction ms with
  | nil => intro _; rfl
  | cons m ms ih =>
    intro hv
    change vectorCast A (m :: ms) = _
    have h1 := hA m (hv m (by simp))
    have h2 : vectorCast A ms = .ok ms := ih (fun x hx => hv x (by simp [hx]))
    simp [vectorCast, h1, h2, bind, Except.bind, pure, Except.pure]

theorem castOk_sub {Valid : M → Prop} (hA : CastOk A Valid) :
    CastOk (sub A) (SubValid A Valid) := by
  intro s hs
  change subCast A s = _
  simp [subCast, hA _ hs.1, hA _ hs.2.1, SubMan.ctor, isort_of_sorted _ hs.2.2.2.1, bind,
    Except.bind, pure, Except.pure]

/-- the argument order of the tree before the repair: origin and value come back exchanged -/
theorem subCastSwapped_swaps (s : SubMan M) (cm cm0 : M) (h1 : A.cast s.m = .ok cm)
    (h0 : A.cast s.m0 = .ok cm0) :
    ∃ c, subCastSwapped A s = .ok c ∧ c.m0 = cm ∧ c.m = cm0 ∧ c.fixed = isort s.fixed := by
  refine ⟨SubMan.ctor cm cm0 s.fixed, ?_, rfl, rfl, rfl⟩
  simp [subCastSwapped, h1, h0, bind, Except.bind, pure, Except.pure]

end cast

section castvariant
variable {ι : Type} [DecidableEq ι] {Ms : ι → Type} {A : ∀ i, Man α (Ms i)}
  {Valid : ∀ i, Ms i → Prop}

theorem castOk_variant (hA : ∀ i, CastOk (A i) (Valid i)) (first : ι) :
    CastOk (variant A first) (fun v => Valid v.1 v.2) := by
  rintro ⟨i, x⟩ hv
  change variantCast A ⟨i, x⟩ = _
  simp [variantCast, hA i x hv, bind, Except.bind, pure, Except.pure]

end castvariant

end C07
