/-
  C20Tables.lean — decidable checkers over exact rationals for the basis / quadrature tables of C20.

  Two kinds of tables are checked with these (all by kernel evaluation, `decide +kernel`):
  * `Poly.basis b K` at `α := Rat` — the MODEL tables (exact values of what the code's construction
    computes when carried out in exact arithmetic);
  * `Gen.Poly.*` — the tables DUMPED from the running implementation (SmoothProofs/Gen/PolyTables.lean,
    regenerated on every run; a double is a dyadic rational).
  No Mathlib here: only core `Rat`.
-/
import SmoothModel.Poly

namespace C20T
open Poly

abbrev Q := Rat

/-- the tolerance of the property: 1e-9 -/
def tol : Q := 1 / 1000000000

def absQ (x : Q) : Q := if x < 0 then -x else x

def maxQ (a b : Q) : Q := if a < b then b else a

/-- largest absolute entry of a table -/
def maxAbs (M : Tab Q) : Q := M.foldl (fun m r => r.foldl (fun m x => maxQ m (absQ x)) m) 0

/-- same shape and `|code − exact| ≤ tol · max|exact|` entrywise -/
def closeTab (code exact : Tab Q) (tol : Q) : Bool :=
  let bound := tol * maxAbs exact
  code.length == exact.length &&
  (List.zip code exact).all fun ce =>
    ce.1.length == ce.2.length && (List.zip ce.1 ce.2).all fun xy => decide (absQ (xy.1 - xy.2) ≤ bound)

def closeList (code exact : List Q) (bound : Q) : Bool :=
  code.length == exact.length && (List.zip code exact).all fun xy => decide (absQ (xy.1 - xy.2) ≤ bound)

/-- `∀ i < n, p i` as a Bool -/
def allBelow (n : Nat) (p : Nat → Bool) : Bool := (List.range n).all p

/-! ### polynomials as ascending coefficient lists -/

/-- column `j` of a table with `rows` rows: coefficients (ascending powers) of basis polynomial `j` -/
def col (M : Tab Q) (rows j : Nat) : List Q := rowFn rows fun i => M.get i j

def pget (p : List Q) (i : Nat) : Q := p.getD i 0

/-- coefficientwise equality up to degree `< n` -/
def peq (n : Nat) (p q : Nat → Q) : Bool := allBelow n fun i => decide (p i = q i)

/-- value at 1 -/
def pval1 (p : List Q) : Q := p.foldl (· + ·) 0

/-- value at `x` (Horner) -/
def peval (p : List Q) (x : Q) : Q := p.foldr (fun c acc => c + x * acc) 0

def sumQ (n : Nat) (f : Nat → Q) : Q := (List.range n).foldl (fun s i => s + f i) 0

/-- moment functional: `⟨p, q⟩ = Σ_i Σ_j p_i q_j m(i+j)` -/
def ip (mom : Nat → Q) (n : Nat) (p q : List Q) : Q :=
  sumQ n fun i => pget p i * sumQ n fun j => pget q j * mom (i + j)

def dfact : Nat → Nat
  | 0 => 1
  | 1 => 1
  | n+2 => (n+2) * dfact n

def fact : Nat → Nat
  | 0 => 1
  | n+1 => (n+1) * fact n

def choose : Nat → Nat → Nat
  | _, 0 => 1
  | 0, _+1 => 0
  | n+1, k+1 => choose n k + choose n (k+1)

def powQ (x : Q) : Nat → Q
  | 0 => 1
  | n+1 => powQ x n * x

def sgn (n : Nat) : Q := if n % 2 = 0 then 1 else -1

/-! ### Bernstein -/

/-- closed form `B_K[i][j] = (−1)^{i−j} C(K,j) C(K−j,i−j)` (0 for i < j) -/
def bernClosed (K i j : Nat) : Q := if j ≤ i then sgn (i - j) * (choose K j * choose (K - j) (i - j) : Nat) else 0

/-- first column of the cumulative table is the constant polynomial 1:  Σ_j B[i][j] = δ_{i0} -/
def cumFirstColOK (C : Tab Q) (K : Nat) : Bool :=
  allBelow (K+1) fun i => decide (C.get i 0 = if i = 0 then 1 else 0)

/-- the same up to `eps` (for tables computed in double) -/
def cumFirstColClose (C : Tab Q) (K : Nat) (eps : Q) : Bool :=
  allBelow (K+1) fun i => decide (absQ (C.get i 0 - (if i = 0 then 1 else 0)) ≤ eps)

/-- cumulative basis functions j ≥ 1 are 0 at u = 0 and 1 at u = 1; function 0 is 1 at both -/
def cumEndpointsOK (C : Tab Q) (K : Nat) : Bool :=
  allBelow (K+1) fun j =>
    decide (C.get 0 j = if j = 0 then 1 else 0) && decide (pval1 (col C (K+1) j) = 1)

/-- Σ_j (cumulative basis j) = 1 + K u  (Σ_{j≥1} B̃_j(u) = K u): coefficientwise row sums -/
def cumRowSumsOK (C : Tab Q) (K : Nat) : Bool :=
  allBelow (K+1) fun i =>
    decide (sumQ (K+1) (fun j => C.get i j) = if i = 0 then 1 else if i = 1 then (K : Q) else 0)

/-! ### non-negativity on [0,1] through the Bernstein form -/

/-- Bernstein-form coefficients of the polynomial with monomial coefficients `a` (degree ≤ K):
    `c_j = Σ_{i ≤ j} C(j,i)/C(K,i) a_i` -/
def bernCoeffs (K : Nat) (a : List Q) : List Q :=
  rowFn (K+1) fun j => sumQ (j+1) fun i => ((choose j i : Nat) : Q) / ((choose K i : Nat) : Q) * pget a i

/-- certificate: `a = Bn · c` (coefficientwise; `Bn` is the degree-K Bernstein table) and every `c_j ≥ lo`.  Since the Bernstein
    polynomials are ≥ 0 on [0,1] and sum to 1, this gives `p(u) ≥ lo` on [0,1]
    (theorem `C20.nonneg_of_bernstein_certificate`). -/
def bernCertOK (Bn : Tab Q) (K : Nat) (a c : List Q) (lo : Q) : Bool :=
  (allBelow (K+1) fun i => decide (pget a i = sumQ (K+1) fun j => Bn.get i j * pget c j)) &&
  (allBelow (K+1) fun j => decide (lo ≤ pget c j))

/-- every basis polynomial of `M` has a Bernstein certificate with lower bound `lo` -/
def allColsBernCert (Bn M : Tab Q) (K : Nat) (lo : Q) : Bool :=
  allBelow (K+1) fun j => bernCertOK Bn K (col M (K+1) j) (bernCoeffs K (col M (K+1) j)) lo

/-! ### B-spline: closed form of the uniform B-spline segment matrix -/

/-- `M[i][j] = 1/K! · C(K,i) · Σ_{s=j}^{K} (−1)^{s−j} C(K+1,s−j) (K−s)^{K−i}` -/
def bsplineClosed (K i j : Nat) : Q :=
  ((choose K i : Nat) : Q) / ((fact K : Nat) : Q) *
    sumQ (K + 1 - j) fun d => sgn d * ((choose (K+1) d : Nat) : Q) * powQ ((K - (j + d) : Nat) : Q) (K - i)

/-! ### orthogonal families: recurrences, normalisations, closed forms, orthogonality -/

/-- three-term recurrence `a(k) p_{k+1} = (b(k) x + c(k)) p_k − d(k) p_{k−1}` for 1 ≤ k < K, coefficientwise -/
def recurrenceOK (M : Tab Q) (K : Nat) (a b c d : Nat → Q) : Bool :=
  allBelow K fun k =>
    k == 0 ||
    peq (K+2)
      (fun i => a k * M.get i (k+1))
      (fun i => (if i = 0 then 0 else b k * M.get (i-1) k) + c k * M.get i k - d k * M.get i (k-1))

/-- `p_0 = 1`, `p_1 = c0 + c1 x` -/
def startOK (M : Tab Q) (K : Nat) (c0 c1 : Q) : Bool :=
  decide (M.get 0 0 = 1) && allBelow K (fun i => decide (M.get (i+1) 0 = 0)) &&
  (K == 0 || (decide (M.get 0 1 = c0) && decide (M.get 1 1 = c1) && allBelow (K-1) fun i => decide (M.get (i+2) 1 = 0)))

/-- table `M` (size K+1) is the top-left block of table `M10` -/
def blockOf (M M10 : Tab Q) (K : Nat) : Bool := M == ofFn (K+1) (K+1) fun i j => M10.get i j

/-- upper triangular: basis polynomial k has degree ≤ k -/
def degreesOK (M : Tab Q) (K : Nat) : Bool :=
  allBelow (K+1) fun k => allBelow (K+1) fun i => decide (i ≤ k) || decide (M.get i k = 0)

def valuesAt (M : Tab Q) (K : Nat) (x : Q) (v : Nat → Q) : Bool :=
  allBelow (K+1) fun k => decide (peval (col M (K+1) k) x = v k)

def leadingOK (M : Tab Q) (K : Nat) (v : Nat → Q) : Bool :=
  allBelow (K+1) fun k => decide (M.get k k = v k)

/-- `⟨p_m, p_n⟩ = nrm n · δ_{mn}` for all m ≤ n ≤ K (the functional is symmetric) -/
def orthoOK (M : Tab Q) (K : Nat) (mom : Nat → Q) (nrm : Nat → Q) : Bool :=
  allBelow (K+1) fun n => allBelow (n+1) fun m =>
    decide (ip mom (K+1) (col M (K+1) m) (col M (K+1) n) = if m = n then nrm n else 0)

/-- `∫_{-1}^{1} x^n dx` -/
def momLegendre (n : Nat) : Q := if n % 2 = 0 then 2 / ((n : Q) + 1) else 0
/-- `(1/π) ∫_{-1}^{1} x^n / √(1−x²) dx = (n−1)!!/n!!` (n even) -/
def momCheb1 (n : Nat) : Q := if n % 2 = 0 then (if n = 0 then 1 else ((dfact (n-1) : Nat) : Q) / ((dfact n : Nat) : Q)) else 0
/-- `(1/π) ∫_{-1}^{1} x^n √(1−x²) dx = (n−1)!!/(n+2)!!` (n even) -/
def momCheb2 (n : Nat) : Q := if n % 2 = 0 then (if n = 0 then 1/2 else ((dfact (n-1) : Nat) : Q) / ((dfact (n+2) : Nat) : Q)) else 0
/-- `(1/√π) ∫ x^n e^{−x²} dx = (n−1)!!/2^{n/2}` (n even) -/
def momHermite (n : Nat) : Q := if n % 2 = 0 then (if n = 0 then 1 else ((dfact (n-1) : Nat) : Q) / powQ 2 (n/2)) else 0
/-- `∫_0^∞ x^n e^{−x} dx = n!` -/
def momLaguerre (n : Nat) : Q := ((fact n : Nat) : Q)

/-- `P_k = 2^{-k} Σ_m (−1)^m C(k,m) C(2k−2m,k) x^{k−2m}` -/
def legendreClosed (i k : Nat) : Q :=
  if i ≤ k ∧ (k - i) % 2 = 0 then
    let m := (k - i) / 2
    sgn m * ((choose k m * choose (2*k - 2*m) k : Nat) : Q) / powQ 2 k
  else 0

/-- `H_k = k! Σ_m (−1)^m 2^{k−2m} / (m! (k−2m)!) x^{k−2m}` -/
def hermiteClosed (i k : Nat) : Q :=
  if i ≤ k ∧ (k - i) % 2 = 0 then
    let m := (k - i) / 2
    sgn m * ((fact k : Nat) : Q) * powQ 2 i / (((fact m * fact i : Nat)) : Q)
  else 0

/-- `L_k = Σ_i C(k,i) (−1)^i / i! x^i` -/
def laguerreClosed (i k : Nat) : Q := if i ≤ k then sgn i * ((choose k i : Nat) : Q) / ((fact i : Nat) : Q) else 0

/-- `T_k = (k/2) Σ_m (−1)^m (k−m−1)!/(m!(k−2m)!) (2x)^{k−2m}` for k ≥ 1, `T_0 = 1` -/
def cheb1Closed (i k : Nat) : Q :=
  if k = 0 then (if i = 0 then 1 else 0)
  else if i ≤ k ∧ (k - i) % 2 = 0 then
    let m := (k - i) / 2
    (k : Q) / 2 * sgn m * ((fact (k - m - 1) : Nat) : Q) / ((fact m * fact i : Nat) : Q) * powQ 2 i
  else 0

/-- `U_k = Σ_m (−1)^m C(k−m,m) (2x)^{k−2m}` -/
def cheb2Closed (i k : Nat) : Q :=
  if i ≤ k ∧ (k - i) % 2 = 0 then
    let m := (k - i) / 2
    sgn m * ((choose (k - m) m : Nat) : Q) * powQ 2 i
  else 0

def closedOK (M : Tab Q) (K : Nat) (f : Nat → Nat → Q) : Bool := M == ofFn (K+1) (K+1) f

/-! ### monomial_integral -/

/-- `∫_0^1 (d^P/du^P u^i)(d^P/du^P u^j) du = i!/(i−P)! · j!/(j−P)! / (i+j−2P+1)` -/
def monintSpec (P i j : Nat) : Q :=
  if P ≤ i ∧ P ≤ j then ((fact i / fact (i - P) * (fact j / fact (j - P)) : Nat) : Q) / ((i + j - 2*P + 1 : Nat) : Q) else 0

/-! ### LGR quadrature: a-posteriori exactness of the dumped nodes and weights -/

/-- `∫_{-1}^{1} x^m dx` -/
def momentExact (m : Nat) : Q := if m % 2 = 0 then 2 / ((m : Q) + 1) else 0

def quadMoment (xs ws : List Q) (m : Nat) : Q :=
  (List.zip xs ws).foldl (fun s xw => s + xw.2 * powQ xw.1 m) 0

def increasing : List Q → Bool
  | [] => true
  | [_] => true
  | x :: y :: r => decide (x < y) && increasing (y :: r)

/-- K nodes, first node −1, nodes increasing and < 1, weights positive, and every monomial of degree
    ≤ 2K−2 integrated to within `eps` -/
def lgrOK (K : Nat) (xs ws : List Q) (eps : Q) : Bool :=
  xs.length == K && ws.length == K &&
  decide (xs.head? = some (-1)) && increasing xs && xs.all (fun x => decide (x < 1)) &&
  ws.all (fun w => decide (0 < w)) &&
  allBelow (2*K - 1) fun m => decide (absQ (quadMoment xs ws m - momentExact m) ≤ eps)

end C20T
