/-
  C19Leaves.lean — support of the dense members of the leaf groups (over ℝ, all tangents) and the
  induction over descriptors: `inAd / inD / inD2` contain the support of `ad`, `dr_exp`, `dr_expinv`,
  `d2r_exp`, `d2r_expinv` of `GDesc.model d` for EVERY descriptor `d` (all Bundle lists, all nestings).
-/
import SmoothProofs.C19Support
import SmoothProofs.C06Prod
import SmoothProofs.C19GalA
import SmoothProofs.C19GalB
import SmoothProofs.C19GalC

open Lin Scalar Mem

namespace Sparse

/-! ### leaf lemmas (Fin-indexed) -/

theorem ident_offdiag (n : Nat) (i j : Fin n) (h : i.val ≠ j.val) : (ident (α := ℝ) n) i j = 0 := by
  have : i ≠ j := fun e => h (congrArg Fin.val e)
  simp [ident, Mat.of, this]

theorem so3_hat_diag (x : Vec ℝ 3) (i j : Fin 3) (h : i.val = j.val) : SO3.hat x i j = 0 := by
  fin_cases i <;> fin_cases j <;> simp at h <;> simp [SO3.hat, mat3, Mat.of]

theorem se2_ad_support (a : Vec ℝ 3) (i j : Fin 3) (h : inAd .se2 i.val j.val = false) : SE2.ad a i j = 0 := by
  fin_cases i <;> fin_cases j <;> simp [inAd] at h <;> simp [SE2.ad, mat3, Mat.of]

theorem se3_ad_support (a : Vec ℝ 6) (i j : Fin 6) (h : inAd .se3 i.val j.val = false) : SE3.ad a i j = 0 := by
  fin_cases i <;> fin_cases j <;> simp [inAd] at h <;>
    simp [SE3.ad, SE3.blk22, SO3.hat, mat3, Mat.of, mzero]

theorem se2_d_support (a : Vec ℝ 3) (i j : Fin 3) (h : inD .se2 i.val j.val = false) :
    SE2.dr_exp a i j = 0 ∧ SE2.dr_expinv a i j = 0 := by
  fin_cases i <;> fin_cases j <;> simp [inD] at h <;>
    simp [SE2.dr_exp, SE2.dr_expinv, SE2.ad, mmul, msmul, vsum, mat3, ident, memoM_eq, Mat.of]

theorem se3_d_support (a : Vec ℝ 6) (i j : Fin 6) (h : inD .se3 i.val j.val = false) :
    SE3.dr_exp a i j = 0 ∧ SE3.dr_expinv a i j = 0 := by
  simp [inD] at h
  have h1 : ¬ (i.val < 3) := by omega
  have h2 : j.val < 3 := by omega
  simp [SE3.dr_exp, SE3.dr_expinv, SE3.blk22, memoM_eq, Mat.of, h1, h2, mzero]

theorem se2_d2_support (a : Vec ℝ 3) (i : Fin 3) (j : Fin 9) (h : inD2 .se2 i.val j.val = false) :
    SE2.d2r_exp a i j = 0 ∧ SE2.d2r_expinv a i j = 0 := by
  fin_cases i <;> fin_cases j <;> simp [inD2] at h <;>
    simp [SE2.d2r_exp, SE2.d2r_expinv, SE2.ad, SE2.tab39, SE2.mk9, mmul, vsum, mat3, memoM_eq, Mat.of, Vec.of]

theorem se3_d2_support (a : Vec ℝ 6) (i : Fin 6) (j : Fin 36) (h : inD2 .se3 i.val j.val = false) :
    SE3.d2r_exp a i j = 0 ∧ SE3.d2r_expinv a i j = 0 := by
  simp [inD2] at h
  simp only [SE3.d2r_exp, SE3.d2r_expinv, SE3.placeSO3, Mat.of, memoM_eq]
  constructor <;> (split_ifs <;> first | (exfalso; omega) | simp)

/-- SE_K_3: `ad` is `W` on the diagonal blocks, `hat v_i` in the last block column, 0 elsewhere -/
theorem sek3_ad_support (k : Nat) (a : Vec ℝ (3 + 3 * k)) (i j : Fin (3 + 3 * k))
    (h : inAd (.sek3 k) i.val j.val = false) : SEK3.ad k a i j = 0 := by
  simp only [inAd, Bool.and_eq_false_iff, Bool.or_eq_false_iff, beq_eq_false_iff_ne, ne_eq,
    bne_eq_false_iff_eq] at h
  simp only [SEK3.ad, SEK3.ofBlocks, Mat.of]
  rcases h with ⟨h1, h2⟩ | h3
  · have e1 : ¬ (i.val / 3 = j.val / 3) := h1
    simp [e1, h2, mzero, Mat.of]
  · split_ifs
    · exact so3_hat_diag _ _ _ h3
    · exact so3_hat_diag _ _ _ h3
    · simp [mzero, Mat.of]

/-! ### the induction over descriptors -/

abbrev selAd : (M : LieModel ℝ) → Vec ℝ M.dof → Mat ℝ M.dof M.dof := fun M a => M.ad a
abbrev selD : (M : LieModel ℝ) → Vec ℝ M.dof → Mat ℝ M.dof M.dof := fun M a => M.dr_exp a
abbrev selDinv : (M : LieModel ℝ) → Vec ℝ M.dof → Mat ℝ M.dof M.dof := fun M a => M.dr_expinv a
abbrev selD2 : (M : LieModel ℝ) → Vec ℝ M.dof → Mat ℝ M.dof (M.dof * M.dof) := fun M a => M.d2r_exp a
abbrev selD2inv : (M : LieModel ℝ) → Vec ℝ M.dof → Mat ℝ M.dof (M.dof * M.dof) := fun M a => M.d2r_expinv a

theorem inDL_cons (q : GDesc) (ps : List GDesc) (r c : Nat) :
    inDL (q :: ps) r c = (if r < dofSize q then (decide (c < dofSize q) && inD q r c)
      else (decide (dofSize q ≤ c) && inDL ps (r - dofSize q) (c - dofSize q))) := by
  simp [inDL]

theorem inAdL_cons (q : GDesc) (ps : List GDesc) (r c : Nat) :
    inAdL (q :: ps) r c = (if r < dofSize q then (decide (c < dofSize q) && inAd q r c)
      else (decide (dofSize q ≤ c) && inAdL ps (r - dofSize q) (c - dofSize q))) := by
  simp [inAdL]

/-- a leaf whose member is the identity matrix and whose pattern is the diagonal -/
theorem cov_ident (sel : (M : LieModel ℝ) → Vec ℝ M.dof → Mat ℝ M.dof M.dof) (M : LieModel ℝ)
    (h : ∀ a, sel M a = ident M.dof) : Cov sel M (fun r c => r == c) := by
  intro a r c hr hc hp
  rw [h, getN_eq _ _ _ hr hc]
  exact ident_offdiag _ _ _ (by simpa using hp)

/-- a leaf whose member is the zero matrix -/
theorem cov_zero (sel : (M : LieModel ℝ) → Vec ℝ M.dof → Mat ℝ M.dof M.dof) (M : LieModel ℝ)
    (h : ∀ a, sel M a = mzero M.dof M.dof) (q : Nat → Nat → Bool) : Cov sel M q := by
  intro a r c hr hc _
  rw [h, getN_eq _ _ _ hr hc]
  simp [mzero, Mat.of]

theorem cov2_zero (sel : (M : LieModel ℝ) → Vec ℝ M.dof → Mat ℝ M.dof (M.dof * M.dof)) (M : LieModel ℝ)
    (h : ∀ a, sel M a = mzero M.dof (M.dof * M.dof)) (q : Nat → Nat → Bool) : Cov2 sel M q := by
  intro a r c hr hc _
  rw [h, getN_eq _ _ _ hr hc]
  simp [mzero, Mat.of]

/-- a leaf that publishes the dense pattern: nothing to show -/
theorem cov_dense (sel : (M : LieModel ℝ) → Vec ℝ M.dof → Mat ℝ M.dof M.dof) (M : LieModel ℝ) :
    Cov sel M (fun _ _ => true) := by
  intro a r c _ _ hp; cases hp

theorem cov2_dense (sel : (M : LieModel ℝ) → Vec ℝ M.dof → Mat ℝ M.dof (M.dof * M.dof)) (M : LieModel ℝ) :
    Cov2 sel M (fun _ _ => true) := by
  intro a r c _ _ hp; cases hp

/-- from a Fin-indexed leaf lemma -/
theorem cov_of_fin (sel : (M : LieModel ℝ) → Vec ℝ M.dof → Mat ℝ M.dof M.dof) (M : LieModel ℝ)
    (q : Nat → Nat → Bool)
    (h : ∀ (a : Vec ℝ M.dof) (i j : Fin M.dof), q i.val j.val = false → sel M a i j = 0) : Cov sel M q := by
  intro a r c hr hc hp
  rw [getN_eq _ _ _ hr hc]
  exact h a ⟨r, hr⟩ ⟨c, hc⟩ hp

theorem cov2_of_fin (sel : (M : LieModel ℝ) → Vec ℝ M.dof → Mat ℝ M.dof (M.dof * M.dof)) (M : LieModel ℝ)
    (q : Nat → Nat → Bool)
    (h : ∀ (a : Vec ℝ M.dof) (i : Fin M.dof) (j : Fin (M.dof * M.dof)), q i.val j.val = false → sel M a i j = 0) :
    Cov2 sel M q := by
  intro a r c hr hc hp
  rw [getN_eq _ _ _ hr hc]
  exact h a ⟨r, hr⟩ ⟨c, hc⟩ hp

mutual
  theorem dr_exp_cov : (d : GDesc) → Cov selD (GDesc.model d) (inD d)
    | .so2 => cov_ident selD SO2.model (fun _ => rfl)
    | .c1 => cov_ident selD C1.model (fun _ => rfl)
    | .tn n => cov_ident selD (Tn.model n) (fun _ => rfl)
    | .so3 => cov_dense selD SO3.model
    | .gal => cov_dense selD Galilei.model
    | .sek3 k => cov_dense selD (SEK3.model k)
    | .se2 => cov_of_fin selD SE2.model (inD .se2) (fun a i j h => (se2_d_support a i j h).1)
    | .se3 => cov_of_fin selD SE3.model (inD .se3) (fun a i j h => (se3_d_support a i j h).1)
    | .bundle ps => dr_exp_covL ps
  theorem dr_exp_covL : (ps : List GDesc) → Cov selD (Bundle.bundle (GDesc.models ps)) (inDL ps)
    | [] => fun _ r _ hr _ _ => absurd hr (Nat.not_lt_zero r)
    | q :: ps => cov_cons selD (fun _ _ _ => rfl) inD inDL inDL_cons q ps (dr_exp_cov q) (dr_exp_covL ps)
end

mutual
  theorem dr_expinv_cov : (d : GDesc) → Cov selDinv (GDesc.model d) (inD d)
    | .so2 => cov_ident selDinv SO2.model (fun _ => rfl)
    | .c1 => cov_ident selDinv C1.model (fun _ => rfl)
    | .tn n => cov_ident selDinv (Tn.model n) (fun _ => rfl)
    | .so3 => cov_dense selDinv SO3.model
    | .gal => cov_dense selDinv Galilei.model
    | .sek3 k => cov_dense selDinv (SEK3.model k)
    | .se2 => cov_of_fin selDinv SE2.model (inD .se2) (fun a i j h => (se2_d_support a i j h).2)
    | .se3 => cov_of_fin selDinv SE3.model (inD .se3) (fun a i j h => (se3_d_support a i j h).2)
    | .bundle ps => dr_expinv_covL ps
  theorem dr_expinv_covL : (ps : List GDesc) → Cov selDinv (Bundle.bundle (GDesc.models ps)) (inDL ps)
    | [] => fun _ r _ hr _ _ => absurd hr (Nat.not_lt_zero r)
    | q :: ps => cov_cons selDinv (fun _ _ _ => rfl) inD inDL inDL_cons q ps (dr_expinv_cov q) (dr_expinv_covL ps)
end

mutual
  theorem d2r_exp_cov : (d : GDesc) → Cov2 selD2 (GDesc.model d) (inD2 d)
    | .so2 => cov2_zero selD2 SO2.model (fun _ => rfl) _
    | .c1 => cov2_zero selD2 C1.model (fun _ => rfl) _
    | .tn n => cov2_zero selD2 (Tn.model n) (fun _ => rfl) _
    | .so3 => cov2_dense selD2 SO3.model
    | .gal => cov2_dense selD2 Galilei.model
    | .sek3 k => cov2_dense selD2 (SEK3.model k)
    | .se2 => cov2_of_fin selD2 SE2.model (inD2 .se2) (fun a i j h => (se2_d2_support a i j h).1)
    | .se3 => cov2_of_fin selD2 SE3.model (inD2 .se3) (fun a i j h => (se3_d2_support a i j h).1)
    | .bundle ps => d2r_exp_covL ps
  theorem d2r_exp_covL : (ps : List GDesc) → Cov2 selD2 (Bundle.bundle (GDesc.models ps)) (inD2L ps)
    | [] => fun _ r _ hr _ _ => absurd hr (Nat.not_lt_zero r)
    | q :: ps => cov2_cons selD2 (fun A B a R C => C06.prod_d2r_exp_apply A B a R C) q ps (d2r_exp_cov q) (d2r_exp_covL ps)
end

mutual
  theorem d2r_expinv_cov : (d : GDesc) → Cov2 selD2inv (GDesc.model d) (inD2 d)
    | .so2 => cov2_zero selD2inv SO2.model (fun _ => rfl) _
    | .c1 => cov2_zero selD2inv C1.model (fun _ => rfl) _
    | .tn n => cov2_zero selD2inv (Tn.model n) (fun _ => rfl) _
    | .so3 => cov2_dense selD2inv SO3.model
    | .gal => cov2_dense selD2inv Galilei.model
    | .sek3 k => cov2_dense selD2inv (SEK3.model k)
    | .se2 => cov2_of_fin selD2inv SE2.model (inD2 .se2) (fun a i j h => (se2_d2_support a i j h).2)
    | .se3 => cov2_of_fin selD2inv SE3.model (inD2 .se3) (fun a i j h => (se3_d2_support a i j h).2)
    | .bundle ps => d2r_expinv_covL ps
  theorem d2r_expinv_covL : (ps : List GDesc) → Cov2 selD2inv (Bundle.bundle (GDesc.models ps)) (inD2L ps)
    | [] => fun _ r _ hr _ _ => absurd hr (Nat.not_lt_zero r)
    | q :: ps => cov2_cons selD2inv (fun A B a R C => C06.prod_d2r_expinv_apply A B a R C) q ps (d2r_expinv_cov q) (d2r_expinv_covL ps)
end

/-! ### `ad` -/

/-- Galilei: every entry of `ad a` outside the published pattern is zero, for all `a` (rows proved in
    C19GalA/B/C) -/
theorem gal_ad_support (a : Vec ℝ 10) (i j : Fin 10) (h : inAd .gal i.val j.val = false) : Galilei.ad a i j = 0 := by
  fin_cases i
  · exact gal_ad_row0 a j h
  · exact gal_ad_row1 a j h
  · exact gal_ad_row2 a j h
  · exact gal_ad_row3 a j h
  · exact gal_ad_row4 a j h
  · exact gal_ad_row5 a j h
  · exact gal_ad_row6 a j h
  · exact gal_ad_row7 a j h
  · exact gal_ad_row8 a j h
  · exact gal_ad_row9 a j h

mutual
  theorem ad_cov : (d : GDesc) → Cov selAd (GDesc.model d) (inAd d)
    | .so2 => cov_zero selAd SO2.model (fun _ => rfl) _
    | .c1 => cov_zero selAd C1.model (fun _ => rfl) _
    | .tn n => cov_zero selAd (Tn.model n) (fun _ => rfl) _
    | .so3 => cov_of_fin selAd SO3.model (inAd .so3) (fun a i j h =>
        so3_hat_diag a i j (by simpa [inAd] using h))
    | .se2 => cov_of_fin selAd SE2.model (inAd .se2) (fun a i j h => se2_ad_support a i j h)
    | .se3 => cov_of_fin selAd SE3.model (inAd .se3) (fun a i j h => se3_ad_support a i j h)
    | .sek3 k => cov_of_fin selAd (SEK3.model k) (inAd (.sek3 k)) (fun a i j h => sek3_ad_support k a i j h)
    | .gal => cov_of_fin selAd Galilei.model (inAd .gal) (fun a i j h => gal_ad_support a i j h)
    | .bundle ps => ad_covL ps
  theorem ad_covL : (ps : List GDesc) → Cov selAd (Bundle.bundle (GDesc.models ps)) (inAdL ps)
    | [] => fun _ r _ hr _ _ => absurd hr (Nat.not_lt_zero r)
    | q :: ps => cov_cons selAd (fun _ _ _ => rfl) inAd inAdL inAdL_cons q ps (ad_cov q) (ad_covL ps)
end

end Sparse
