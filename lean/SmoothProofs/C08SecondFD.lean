/-
  C08SecondFD.lean — bridge from the Fréchet form (`ContDiff ℝ 3`, `‖iteratedFDeriv ℝ 3 F p‖ ≤ L₃`)
  to the explicit mixed partials of C08Second.lean.  Directional derivatives
  `dirD v G p = fderiv ℝ G p v`; for `G` of class `C^{n+1}`:
  `iteratedFDeriv (n+1) G p m = iteratedFDeriv n (dirD (m last) G) p (init m)`, hence
  `D_a D_b D_c F p = iteratedFDeriv 3 F p ![a, b, c]` and `|D_a D_b D_c F p| ≤ ‖iteratedFDeriv 3 F p‖`
  for unit vectors (sup norm on ℝ × ℝ).
-/
import SmoothProofs.C08Second
import Mathlib.Analysis.Calculus.ContDiff.Comp
import Mathlib.Analysis.Calculus.ContDiff.Basic
import Mathlib.Analysis.Calculus.ContDiff.Operations
import Mathlib.Analysis.Calculus.Deriv.Prod

open Set

namespace C08

/-- directional derivative of a scalar function on the plane -/
noncomputable def dirD (v : ℝ × ℝ) (G : ℝ × ℝ → ℝ) : ℝ × ℝ → ℝ := fun p => fderiv ℝ G p v

theorem dirD_contDiff (v : ℝ × ℝ) (G : ℝ × ℝ → ℝ) (n : ℕ) (h : ContDiff ℝ ((n + 1 : ℕ) : WithTop ℕ∞) G) :
    ContDiff ℝ (n : WithTop ℕ∞) (dirD v G) := by
  have h1 : ContDiff ℝ (n : WithTop ℕ∞) (fderiv ℝ G) := h.fderiv_right (by norm_cast)
  exact h1.clm_apply contDiff_const

theorem dirD_eq_comp (v : ℝ × ℝ) (G : ℝ × ℝ → ℝ) :
    dirD v G = (ContinuousLinearMap.apply ℝ ℝ v) ∘ (fderiv ℝ G) := rfl

/-- peeling the last argument off an iterated derivative -/
theorem iteratedFDeriv_succ_dirD (G : ℝ × ℝ → ℝ) (n : ℕ) (h : ContDiff ℝ ((n + 1 : ℕ) : WithTop ℕ∞) G)
    (p : ℝ × ℝ) (m : Fin (n + 1) → ℝ × ℝ) :
    iteratedFDeriv ℝ (n + 1) G p m = iteratedFDeriv ℝ n (dirD (m (Fin.last n)) G) p (Fin.init m) := by
  have h1 : ContDiff ℝ (n : WithTop ℕ∞) (fderiv ℝ G) := h.fderiv_right (by norm_cast)
  rw [iteratedFDeriv_succ_apply_right, dirD_eq_comp,
    ContinuousLinearMap.iteratedFDeriv_comp_left _ h1.contDiffAt le_rfl]
  rfl

theorem init3 (a b c : ℝ × ℝ) : Fin.init ![a, b, c] = ![a, b] := by
  funext i; fin_cases i <;> rfl

theorem init2 (a b : ℝ × ℝ) : Fin.init ![a, b] = ![a] := by
  funext i; fin_cases i; rfl

/-- the third-order directional derivative is the value of the third Fréchet derivative -/
theorem dirD3_eq (F : ℝ × ℝ → ℝ) (h : ContDiff ℝ 3 F) (a b c p : ℝ × ℝ) :
    dirD a (dirD b (dirD c F)) p = iteratedFDeriv ℝ 3 F p ![a, b, c] := by
  have h3 : ContDiff ℝ ((2 + 1 : ℕ) : WithTop ℕ∞) F := by exact_mod_cast h
  have h2 : ContDiff ℝ ((1 + 1 : ℕ) : WithTop ℕ∞) (dirD c F) := dirD_contDiff c F 2 h3
  have h1 : ContDiff ℝ ((0 + 1 : ℕ) : WithTop ℕ∞) (dirD b (dirD c F)) := dirD_contDiff b _ 1 h2
  rw [iteratedFDeriv_succ_dirD F 2 h3, init3]
  show _ = iteratedFDeriv ℝ (1 + 1) (dirD c F) p ![a, b]
  rw [iteratedFDeriv_succ_dirD _ 1 h2, init2]
  show _ = iteratedFDeriv ℝ (0 + 1) (dirD b (dirD c F)) p ![a]
  rw [iteratedFDeriv_succ_dirD _ 0 h1]
  rfl

theorem dirD3_le (F : ℝ × ℝ → ℝ) (h : ContDiff ℝ 3 F) (a b c p : ℝ × ℝ)
    (ha : ‖a‖ = 1) (hb : ‖b‖ = 1) (hc : ‖c‖ = 1) :
    |dirD a (dirD b (dirD c F)) p| ≤ ‖iteratedFDeriv ℝ 3 F p‖ := by
  rw [dirD3_eq F h, ← Real.norm_eq_abs]
  refine ((iteratedFDeriv ℝ 3 F p).le_opNorm _).trans ?_
  simp [Fin.prod_univ_succ, ha, hb, hc]

/-- partial derivative in `t` along a vertical line -/
theorem hasDerivAt_t (G : ℝ × ℝ → ℝ) (hG : Differentiable ℝ G) (s t : ℝ) :
    HasDerivAt (fun t => G (s, t)) (dirD (0, 1) G (s, t)) t := by
  have hl : HasDerivAt (fun t : ℝ => (s, t)) ((0 : ℝ), (1 : ℝ)) t :=
    (hasDerivAt_const t s).prodMk (hasDerivAt_id t)
  exact (hG (s, t)).hasFDerivAt.comp_hasDerivAt t hl

/-- partial derivative in `s` along a horizontal line -/
theorem hasDerivAt_s (G : ℝ × ℝ → ℝ) (hG : Differentiable ℝ G) (s t : ℝ) :
    HasDerivAt (fun s => G (s, t)) (dirD (1, 0) G (s, t)) s := by
  have hl : HasDerivAt (fun s : ℝ => (s, t)) ((1 : ℝ), (0 : ℝ)) s :=
    (hasDerivAt_id s).prodMk (hasDerivAt_const s t)
  exact (hG (s, t)).hasFDerivAt.comp_hasDerivAt s hl

theorem norm_es : ‖((1 : ℝ), (0 : ℝ))‖ = 1 := by simp [Prod.norm_def]
theorem norm_et : ‖((0 : ℝ), (1 : ℝ))‖ = 1 := by simp [Prod.norm_def]

/-- **second difference, Fréchet form** (the statement of the property as originally posed) -/
theorem second_difference_fd (φ : ℝ → ℝ → ℝ) (L3 e0 e1 : ℝ) (h0 : 0 < e0) (h1 : 0 < e1)
    (hC : ContDiff ℝ 3 (Function.uncurry φ))
    (hL : ∀ p ∈ Icc (0 : ℝ) e1 ×ˢ Icc (0 : ℝ) e0, ‖iteratedFDeriv ℝ 3 (Function.uncurry φ) p‖ ≤ L3)
    (hz : ∀ s, φ s 0 = 0) :
    |(φ e1 e0 - φ 0 e0) / e0 / e1 - deriv (fun s => deriv (fun t => φ s t) 0) 0| ≤ L3 * (e0 + e1) / 2 := by
  set F := Function.uncurry φ with hF
  have c3 : ContDiff ℝ ((2 + 1 : ℕ) : WithTop ℕ∞) F := by exact_mod_cast hC
  have c2 : ContDiff ℝ ((1 + 1 : ℕ) : WithTop ℕ∞) (dirD (0, 1) F) := dirD_contDiff _ F 2 c3
  have c1tt : ContDiff ℝ ((0 + 1 : ℕ) : WithTop ℕ∞) (dirD (0, 1) (dirD (0, 1) F)) := dirD_contDiff _ _ 1 c2
  have c1st : ContDiff ℝ ((0 + 1 : ℕ) : WithTop ℕ∞) (dirD (1, 0) (dirD (0, 1) F)) := dirD_contDiff _ _ 1 c2
  have d3 : Differentiable ℝ F := c3.differentiable (by norm_cast)
  have d2 : Differentiable ℝ (dirD (0, 1) F) := c2.differentiable (by norm_cast)
  have d1tt : Differentiable ℝ (dirD (0, 1) (dirD (0, 1) F)) := c1tt.differentiable (by norm_cast)
  have d1st : Differentiable ℝ (dirD (1, 0) (dirD (0, 1) F)) := c1st.differentiable (by norm_cast)
  have key := second_quotient_bound' φ
    (fun s t => dirD (0, 1) F (s, t))
    (fun s t => dirD (0, 1) (dirD (0, 1) F) (s, t))
    (fun s t => dirD (1, 0) (dirD (0, 1) (dirD (0, 1) F)) (s, t))
    (fun s => dirD (1, 0) (dirD (0, 1) F) (s, 0))
    (fun s => dirD (1, 0) (dirD (1, 0) (dirD (0, 1) F)) (s, 0))
    e0 e1 L3 h0 h1
    (fun s _ t _ => hasDerivAt_t F d3 s t)
    (fun s _ t _ => hasDerivAt_t _ d2 s t)
    (fun s _ t _ => hasDerivAt_s _ d1tt s t)
    (fun s hs t ht => (dirD3_le F hC _ _ _ (s, t) norm_es norm_et norm_et).trans (hL (s, t) ⟨hs, ht⟩))
    (fun s _ => hasDerivAt_s _ d2 s 0)
    (fun s _ => hasDerivAt_s _ d1st s 0)
    (fun s hs => (dirD3_le F hC _ _ _ (s, 0) norm_es norm_es norm_et).trans
      (hL (s, 0) ⟨hs, left_mem_Icc.2 h0.le⟩))
    hz
  have e1' : (fun s => deriv (fun t => φ s t) 0) = fun s => dirD (0, 1) F (s, 0) := by
    funext s
    exact (hasDerivAt_t F d3 s 0).deriv
  rw [e1', (hasDerivAt_s _ d2 0 0).deriv]
  exact key

end C08
