/-
  C14KktFit.lean — `Fit.kktEntries` (the `H.insert` calls of `fit_spline_1d` for the optimising
  specifications) instantiates C14KktAsm: it is `qPart ++ aPart nC 0 (pruned rows)`, the cost part
  `qPart` consists of one `(K+1) × (K+1)` block `1e-6·I + dt^{1−2D}·BᵀMB` per segment on the
  diagonal, its dense matrix is symmetric, and positive definite when all `dt > 0`.  Hence every
  solution of the assembled system is THE minimiser of `½ xᵀQx` subject to the constraint rows.
-/
import SmoothProofs.C14KktAsm
import SmoothProofs.C14Gram
import SmoothProofs.C01Base
import Mathlib.Algebra.Order.BigOperators.Group.List

open Matrix Scalar Lin

namespace Fit
namespace Kkt

-- ---------------------------------------------------------------- the list is `qPart ++ aPart`

/-- the cost block of one segment -/
noncomputable def blk (s : Spec) (O : ℕ) (dti : ℝ) : Matrix (Fin (s.K + 1)) (Fin (s.K + 1)) ℝ :=
  Matrix.of fun ki kj =>
    (if ki = kj then (regEps : ℝ) else nat 0) + costFac s dti * (costP (α := ℝ) s.K O) ki kj

/-- the `insert` calls of a dense block placed at `(off, off)` -/
def blockEnts {m : ℕ} (off : ℕ) (Bm : Matrix (Fin m) (Fin m) ℝ) : List (ℕ × ℕ × ℝ) :=
  (List.finRange m).flatMap (fun ki => (List.finRange m).map (fun kj => (off + ki.val, off + kj.val, Bm ki kj)))

/-- the cost part of `kktEntries` -/
noncomputable def qPart (s : Spec) (O : ℕ) (dt dx : List ℝ) : List (ℕ × ℕ × ℝ) :=
  ((List.range (nSeg dt dx)).zip dt).flatMap (fun p => blockEnts (p.1 * (s.K + 1)) (blk s O p.2))

theorem zip_range'_flatMap (nC : ℕ) (rs : List (Row ℝ)) : ∀ (k n : ℕ), rs.length ≤ n →
    ((List.range' k n).zip rs).flatMap
        (fun p => p.2.ent.flatMap (fun e => [(nC + p.1, e.1, e.2), (e.1, nC + p.1, e.2)]))
      = aPart nC k rs := by
  induction rs with
  | nil => intro k n _; simp [aPart]
  | cons r t ih =>
    intro k n hn
    obtain ⟨n', rfl⟩ : ∃ n', n = n' + 1 := ⟨n - 1, by simp at hn; omega⟩
    rw [List.range'_succ, List.zip_cons_cons, List.flatMap_cons, ih (k + 1) n' (by simpa using hn)]
    rfl

theorem kktEntries_eq (s : Spec) (O : ℕ) (τ : ℝ) (dt dx lv rv : List ℝ)
    (hlen : (rows s dt dx lv rv).length ≤ s.nEq (nSeg dt dx)) :
    kktEntries s O τ dt dx lv rv
      = qPart s O dt dx ++ aPart (s.nCoef (nSeg dt dx)) 0 ((rows s dt dx lv rv).map (pruneRow τ)) := by
  have h := zip_range'_flatMap (s.nCoef (nSeg dt dx)) ((rows s dt dx lv rv).map (pruneRow τ)) 0
    (s.nEq (nSeg dt dx)) (by simpa using hlen)
  rw [← List.range_eq_range'] at h
  rw [← h]
  rfl

theorem kktRhs_eq (s : Spec) (τ : ℝ) (dt dx lv rv : List ℝ) :
    kktRhs s dt dx lv rv
      = List.replicate (s.nCoef (nSeg dt dx)) (0 : ℝ) ++ ((rows s dt dx lv rv).map (pruneRow τ)).map (·.rhs) := by
  unfold kktRhs
  simp [pruneRow, Function.comp_def]

-- ---------------------------------------------------------------- index bounds

theorem segEnt_col (K i N : ℕ) (f : ℕ → ℝ) (hi : i < N) (e : ℕ × ℝ) (he : e ∈ segEnt K i f) :
    e.1 < (K + 1) * N := by
  unfold segEnt at he
  obtain ⟨j, hj, rfl⟩ := List.mem_map.1 he
  have hj' : j < K + 1 := List.mem_range.1 hj
  calc i * (K + 1) + j < (i + 1) * (K + 1) := by rw [Nat.add_mul, Nat.one_mul]; omega
    _ ≤ N * (K + 1) := Nat.mul_le_mul_right _ hi
    _ = (K + 1) * N := Nat.mul_comm _ _

/-- every column index of every constraint row is a coefficient index -/
theorem rows_cols (s : Spec) (dt dx lv rv : List ℝ) (hN : 1 ≤ nSeg dt dx) :
    ∀ row ∈ rows s dt dx lv rv, ∀ e ∈ row.ent, e.1 < s.nCoef (nSeg dt dx) := by
  intro row hrow e he
  unfold Spec.nCoef
  unfold rows at hrow
  simp only [List.mem_append] at hrow
  rcases hrow with ((h | h) | h) | h
  · obtain ⟨p, _, rfl⟩ := List.mem_map.1 h
    exact segEnt_col _ 0 _ _ (by omega) e he
  · obtain ⟨i, hi, h⟩ := List.mem_flatMap.1 h
    have hi' : i < nSeg dt dx := List.mem_range.1 hi
    rcases List.mem_cons.1 h with rfl | h
    · exact segEnt_col _ i _ _ hi' e he
    · split at h
      · simp only [List.mem_singleton] at h
        subst h
        exact segEnt_col _ i _ _ hi' e he
      · simp at h
  · obtain ⟨k, hk, h⟩ := List.mem_flatMap.1 h
    have hk' : k < nSeg dt dx - 1 := List.mem_range.1 hk
    obtain ⟨d', _, rfl⟩ := List.mem_map.1 h
    simp only [contRow, List.mem_append] at he
    rcases he with he | he
    · exact segEnt_col _ k _ _ (by omega) e he
    · exact segEnt_col _ (k + 1) _ _ (by omega) e he
  · obtain ⟨p, _, rfl⟩ := List.mem_map.1 h
    exact segEnt_col _ (nSeg dt dx - 1) _ _ (by omega) e he

theorem pruned_cols (s : Spec) (τ : ℝ) (dt dx lv rv : List ℝ) (hN : 1 ≤ nSeg dt dx) :
    ∀ row ∈ (rows s dt dx lv rv).map (pruneRow τ), ∀ e ∈ row.ent, e.1 < s.nCoef (nSeg dt dx) := by
  intro row hrow e he
  obtain ⟨r0, hr0, rfl⟩ := List.mem_map.1 hrow
  exact rows_cols s dt dx lv rv hN r0 hr0 e (List.mem_filter.1 he).1

theorem mem_blockEnts {m : ℕ} (off : ℕ) (Bm : Matrix (Fin m) (Fin m) ℝ) (e : ℕ × ℕ × ℝ)
    (he : e ∈ blockEnts off Bm) : e.1 < off + m ∧ e.2.1 < off + m := by
  unfold blockEnts at he
  obtain ⟨ki, _, h⟩ := List.mem_flatMap.1 he
  obtain ⟨kj, _, rfl⟩ := List.mem_map.1 h
  exact ⟨by simp only; omega, by simp only; omega⟩

theorem qPart_bounds (s : Spec) (O : ℕ) (dt dx : List ℝ) :
    ∀ e ∈ qPart s O dt dx, e.1 < s.nCoef (nSeg dt dx) ∧ e.2.1 < s.nCoef (nSeg dt dx) := by
  intro e he
  unfold qPart at he
  obtain ⟨p, hp, h⟩ := List.mem_flatMap.1 he
  have hp1 : p.1 < nSeg dt dx := List.mem_range.1 (List.of_mem_zip (a := p.1) (b := p.2) hp).1
  obtain ⟨h1, h2⟩ := mem_blockEnts _ _ e h
  have hb : p.1 * (s.K + 1) + (s.K + 1) ≤ s.nCoef (nSeg dt dx) := by
    unfold Spec.nCoef
    calc p.1 * (s.K + 1) + (s.K + 1) = (p.1 + 1) * (s.K + 1) := by rw [Nat.add_mul, Nat.one_mul]
      _ ≤ nSeg dt dx * (s.K + 1) := Nat.mul_le_mul_right _ hp1
      _ = (s.K + 1) * nSeg dt dx := Nat.mul_comm _ _
  exact ⟨by omega, by omega⟩

/-- **the assembled system of `fit_spline_1d` is the KKT system** of `Q = tripMat qPart` (block
    diagonal), `A = rowMat (pruned rows)`, `b` their right-hand sides -/
theorem kktEntries_iff_isKKT (s : Spec) (O : ℕ) (τ : ℝ) (dt dx lv rv : List ℝ) (hN : 1 ≤ nSeg dt dx)
    (hlen : (rows s dt dx lv rv).length = s.nEq (nSeg dt dx)) (z : ℕ → ℝ) :
    (∀ r < s.nCoef (nSeg dt dx) + s.nEq (nSeg dt dx),
        tripMul (kktEntries s O τ dt dx lv rv) z r = (kktRhs s dt dx lv rv).getD r 0) ↔
      IsKKT (tripMat (s.nCoef (nSeg dt dx)) (qPart s O dt dx))
        (rowMat (s.nCoef (nSeg dt dx)) ((rows s dt dx lv rv).map (pruneRow τ)))
        (fun k => ((rows s dt dx lv rv).map (pruneRow τ))[k].rhs)
        (fun c => z c.val) (fun k => z (s.nCoef (nSeg dt dx) + k.val)) := by
  rw [kktEntries_eq s O τ dt dx lv rv (le_of_eq hlen), kktRhs_eq s τ]
  have hl : ((rows s dt dx lv rv).map (pruneRow τ)).length = s.nEq (nSeg dt dx) := by simpa using hlen
  rw [← hl]
  exact assembled_iff_isKKT _ _ _ (fun e he => (qPart_bounds s O dt dx e he).1)
    (fun e he => (qPart_bounds s O dt dx e he).2) (pruned_cols s τ dt dx lv rv hN) z

-- ---------------------------------------------------------------- quadratic form of a triplet list

/-- `zᵀ H z` summed over the `insert` calls -/
def listQuad (ents : List (ℕ × ℕ × ℝ)) (z : ℕ → ℝ) : ℝ := (ents.map (fun e => z e.1 * (e.2.2 * z e.2.1))).sum

theorem sum_mul_tripMul (n : ℕ) (ents : List (ℕ × ℕ × ℝ)) (hr : ∀ e ∈ ents, e.1 < n) (z : ℕ → ℝ) :
    ∑ r ∈ Finset.range n, z r * tripMul ents z r = listQuad ents z := by
  induction ents with
  | nil => simp [listQuad]
  | cons e t ih =>
    have he : e.1 < n := hr e (List.mem_cons_self ..)
    simp only [tripMul_cons, mul_add, Finset.sum_add_distrib, listQuad, List.map_cons, List.sum_cons]
    rw [ih (fun e he => hr e (List.mem_cons_of_mem _ he))]
    simp [listQuad, mul_ite, Finset.sum_ite_eq, he]

theorem quad_tripMat (n : ℕ) (ents : List (ℕ × ℕ × ℝ)) (hr : ∀ e ∈ ents, e.1 < n) (hc : ∀ e ∈ ents, e.2.1 < n)
    (z : ℕ → ℝ) : quad (tripMat n ents) (fun c : Fin n => z c.val) = listQuad ents z := by
  rw [← sum_mul_tripMul n ents hr z, quad, dotProduct,
    ← Fin.sum_univ_eq_sum_range (fun r => z r * tripMul ents z r) n]
  apply Finset.sum_congr rfl
  intro r _
  rw [tripMul_eq_mulVec n ents hc z r]

theorem sum_map_flatMap {ι κ : Type} (l : List ι) (f : ι → List κ) (g : κ → ℝ) :
    ((l.flatMap f).map g).sum = (l.map (fun a => ((f a).map g).sum)).sum := by
  induction l with
  | nil => rfl
  | cons a t ih => simp [List.flatMap_cons, ih]

theorem listQuad_blockEnts {m : ℕ} (off : ℕ) (Bm : Matrix (Fin m) (Fin m) ℝ) (z : ℕ → ℝ) :
    listQuad (blockEnts off Bm) z = quad Bm (fun a : Fin m => z (off + a.val)) := by
  unfold listQuad blockEnts
  rw [sum_map_flatMap, quad, dotProduct, Fin.sum_univ_def]
  congr 1
  apply List.map_congr_left
  intro ki _
  rw [List.map_map]
  simp only [Function.comp_def]
  rw [← Fin.sum_univ_def, Matrix.mulVec, dotProduct, Finset.mul_sum]

theorem listQuad_qPart (s : Spec) (O : ℕ) (dt dx : List ℝ) (z : ℕ → ℝ) :
    listQuad (qPart s O dt dx) z
      = (((List.range (nSeg dt dx)).zip dt).map
          (fun p => quad (blk s O p.2) (fun a : Fin (s.K + 1) => z (p.1 * (s.K + 1) + a.val)))).sum := by
  unfold listQuad qPart
  rw [sum_map_flatMap]
  congr 1
  apply List.map_congr_left
  intro p _
  exact listQuad_blockEnts _ _ z

-- ---------------------------------------------------------------- the blocks

theorem toM_transpose {n m : ℕ} (A : Mat ℝ n m) : toM (Lin.transpose A) = (toM A)ᵀ := rfl

theorem costP_toM (K O : ℕ) :
    toM (costP (α := ℝ) K O) = (toM (bern K))ᵀ * toM (monoIntegral (α := ℝ) K O) * toM (bern K) := by
  unfold costP
  rw [memoM_eq, toM_mmul, memoM_eq, toM_mmul, toM_transpose]

theorem regEps_pos : (0 : ℝ) < regEps := by
  unfold regEps; simp only [Scalar.nat_real]; norm_num

theorem costFac_nonneg (s : Spec) (dti : ℝ) (h : 0 < dti) : 0 ≤ costFac s dti := by
  unfold costFac
  rw [ipow_real]
  simp only [Nat.cast_one]
  positivity

/-- the block is `fac · BᵀMB + ε · 1` -/
theorem blk_eq (s : Spec) (O : ℕ) (dti : ℝ) :
    blk s O dti = costFac s dti • ((toM (bern s.K))ᵀ * toM (monoIntegral (α := ℝ) s.K O) * toM (bern s.K))
      + (regEps : ℝ) • (1 : Matrix (Fin (s.K + 1)) (Fin (s.K + 1)) ℝ) := by
  rw [← costP_toM]
  ext ki kj
  simp only [blk, Matrix.of_apply, Matrix.add_apply, Matrix.smul_apply, Matrix.one_apply, toM_apply,
    smul_eq_mul, Nat.cast_zero]
  split_ifs <;> ring

theorem toM_monoIntegral_psd (K O : ℕ) (d : Fin (K + 1) → ℝ) : 0 ≤ quad (toM (monoIntegral (α := ℝ) K O)) d :=
  monoIntegral_psd K O d

theorem toM_monoIntegral_symm (K O : ℕ) : (toM (monoIntegral (α := ℝ) K O))ᵀ = toM (monoIntegral (α := ℝ) K O) := by
  ext i j
  exact monoIntegral_symm K O j i

theorem blk_symm (s : Spec) (O : ℕ) (dti : ℝ) : (blk s O dti)ᵀ = blk s O dti := by
  rw [blk_eq]
  apply reg_symm
  rw [Matrix.transpose_mul, Matrix.transpose_mul, Matrix.transpose_transpose, toM_monoIntegral_symm,
    Matrix.mul_assoc]

theorem blk_pos (s : Spec) (O : ℕ) (dti : ℝ) (h : 0 < dti) (d : Fin (s.K + 1) → ℝ) (hd : d ≠ 0) :
    0 < quad (blk s O dti) d := by
  rw [blk_eq]
  exact quad_reg_pos _ (congr_psd _ _ (toM_monoIntegral_psd s.K O)) _ _ (costFac_nonneg s dti h) regEps_pos d hd

theorem blk_nonneg (s : Spec) (O : ℕ) (dti : ℝ) (h : 0 < dti) (d : Fin (s.K + 1) → ℝ) :
    0 ≤ quad (blk s O dti) d := by
  by_cases hd : d = 0
  · subst hd; simp [quad]
  · exact (blk_pos s O dti h d hd).le

-- ---------------------------------------------------------------- symmetry of the assembled cost part

theorem tripEntry_eq_map (ents : List (ℕ × ℕ × ℝ)) (r c : ℕ) :
    tripEntry ents r c = (ents.map (fun e => if e.1 = r ∧ e.2.1 = c then e.2.2 else 0)).sum := by
  induction ents with
  | nil => rfl
  | cons e t ih => rw [tripEntry_cons, ih]; simp

theorem tripEntry_flatMap {ι : Type} (l : List ι) (f : ι → List (ℕ × ℕ × ℝ)) (r c : ℕ) :
    tripEntry (l.flatMap f) r c = (l.map (fun a => tripEntry (f a) r c)).sum := by
  rw [tripEntry_eq_map, sum_map_flatMap]
  congr 1
  apply List.map_congr_left
  intro a _
  rw [tripEntry_eq_map]

theorem tripEntry_blockEnts {m : ℕ} (off : ℕ) (Bm : Matrix (Fin m) (Fin m) ℝ) (r c : ℕ) :
    tripEntry (blockEnts off Bm) r c
      = ∑ ki : Fin m, ∑ kj : Fin m, if off + ki.val = r ∧ off + kj.val = c then Bm ki kj else 0 := by
  rw [tripEntry_eq_map]
  unfold blockEnts
  rw [sum_map_flatMap, Fin.sum_univ_def]
  congr 1
  apply List.map_congr_left
  intro ki _
  rw [List.map_map, Fin.sum_univ_def]
  rfl

theorem tripEntry_blockEnts_symm {m : ℕ} (off : ℕ) (Bm : Matrix (Fin m) (Fin m) ℝ) (hB : Bmᵀ = Bm) (r c : ℕ) :
    tripEntry (blockEnts off Bm) r c = tripEntry (blockEnts off Bm) c r := by
  rw [tripEntry_blockEnts, tripEntry_blockEnts, Finset.sum_comm]
  apply Finset.sum_congr rfl; intro kj _
  apply Finset.sum_congr rfl; intro ki _
  have hs : Bm ki kj = Bm kj ki := by
    have := congrFun (congrFun hB kj) ki
    simpa [Matrix.transpose_apply] using this
  by_cases h : off + kj.val = c ∧ off + ki.val = r
  · rw [if_pos h, if_pos ⟨h.2, h.1⟩, hs]
  · rw [if_neg h, if_neg (fun h' => h ⟨h'.2, h'.1⟩)]

theorem qPart_symm (s : Spec) (O : ℕ) (dt dx : List ℝ) (n : ℕ) :
    (tripMat n (qPart s O dt dx))ᵀ = tripMat n (qPart s O dt dx) := by
  ext r c
  simp only [tripMat, Matrix.transpose_apply, Matrix.of_apply]
  unfold qPart
  rw [tripEntry_flatMap, tripEntry_flatMap]
  congr 1
  apply List.map_congr_left
  intro p _
  exact tripEntry_blockEnts_symm _ _ (blk_symm s O p.2) _ _

-- ---------------------------------------------------------------- positive definiteness

theorem mem_zip_range (N : ℕ) (dt : List ℝ) (p : ℕ × ℝ) (hp : p ∈ (List.range N).zip dt) :
    p.1 < N ∧ dt[p.1]? = some p.2 := by
  obtain ⟨i, hi, rfl⟩ := List.getElem_of_mem hp
  simp only [List.length_zip, List.length_range] at hi
  simp only [List.getElem_zip, List.getElem_range]
  exact ⟨by omega, by rw [List.getElem?_eq_getElem]⟩

/-- the assembled cost matrix is symmetric positive definite when every `dt` is positive -/
theorem qPart_posdef (s : Spec) (O : ℕ) (dt dx : List ℝ) (hdt : ∀ i < nSeg dt dx, 0 < dt.getD i 0)
    (d : Fin (s.nCoef (nSeg dt dx)) → ℝ) (hd : d ≠ 0) :
    0 < quad (tripMat (s.nCoef (nSeg dt dx)) (qPart s O dt dx)) d := by
  -- extend `d` to ℕ
  let z : ℕ → ℝ := fun i => if h : i < (s.nCoef (nSeg dt dx)) then d ⟨i, h⟩ else 0
  have hz : (fun c : Fin (s.nCoef (nSeg dt dx)) => z c.val) = d := by
    funext c; simp [z, c.isLt]
  rw [← hz, quad_tripMat (s.nCoef (nSeg dt dx)) _ (fun e he => (qPart_bounds s O dt dx e he).1)
    (fun e he => (qPart_bounds s O dt dx e he).2) z, listQuad_qPart]
  -- a non-zero coordinate
  obtain ⟨r, hr⟩ : ∃ r : Fin (s.nCoef (nSeg dt dx)), d r ≠ 0 := by
    by_contra hcon
    exact hd (funext fun r => by
      by_contra hr
      exact hcon ⟨r, hr⟩)
  have hK : 0 < s.K + 1 := Nat.succ_pos _
  have hrlt : r.val < (s.K + 1) * nSeg dt dx := r.isLt
  have hi : r.val / (s.K + 1) < nSeg dt dx := Nat.div_lt_of_lt_mul hrlt
  have hidt : r.val / (s.K + 1) < dt.length := lt_of_lt_of_le hi (by unfold nSeg; exact Nat.min_le_left _ _)
  have hpos : ∀ p ∈ (List.range (nSeg dt dx)).zip dt, 0 < p.2 := by
    intro p hp
    obtain ⟨h1, h2⟩ := mem_zip_range _ _ p hp
    have := hdt p.1 h1
    rw [List.getD_eq_getElem?_getD, h2] at this
    simpa using this
  have hnn : ∀ x ∈ ((List.range (nSeg dt dx)).zip dt).map
      (fun p => quad (blk s O p.2) (fun a : Fin (s.K + 1) => z (p.1 * (s.K + 1) + a.val))), 0 ≤ x := by
    intro x hx
    obtain ⟨p, hp, rfl⟩ := List.mem_map.1 hx
    exact blk_nonneg s O p.2 (hpos p hp) _
  -- the block containing `r`
  have hmem : (r.val / (s.K + 1), dt[r.val / (s.K + 1)]) ∈ (List.range (nSeg dt dx)).zip dt := by
    have hlen : r.val / (s.K + 1) < ((List.range (nSeg dt dx)).zip dt).length := by
      simp only [List.length_zip, List.length_range]; omega
    have := List.getElem_mem hlen
    simpa [List.getElem_zip, List.getElem_range] using this
  have hterm : 0 < quad (blk s O dt[r.val / (s.K + 1)])
      (fun a : Fin (s.K + 1) => z (r.val / (s.K + 1) * (s.K + 1) + a.val)) := by
    apply blk_pos s O _ (hpos _ hmem)
    intro h0
    have := congrFun h0 ⟨r.val % (s.K + 1), Nat.mod_lt _ hK⟩
    simp only [Pi.zero_apply] at this
    rw [Nat.div_add_mod' r.val (s.K + 1)] at this
    simp only [z, r.isLt, dif_pos] at this
    exact hr this
  refine lt_of_lt_of_le hterm (List.single_le_sum hnn _ ?_)
  exact List.mem_map.2 ⟨_, hmem, rfl⟩

end Kkt
end Fit
