/-
  Real.lean — the model at `α := ℝ`: the object of the theorems.
  `atan2 y x` is `Complex.arg (x + y i)` (principal value in (−π, π]); `sqrt`, `sin`, … are Mathlib's.
-/
import Mathlib.Analysis.SpecialFunctions.Trigonometric.Basic
import Mathlib.Analysis.SpecialFunctions.Complex.Arg
import Mathlib.Analysis.SpecialFunctions.Log.Basic
import Mathlib.Analysis.SpecialFunctions.Sqrt
import SmoothModel

noncomputable section

open Classical in
instance : Scalar ℝ where
  natCast := fun n => (n : ℝ)
  sin := Real.sin
  cos := Real.cos
  tan := Real.tan
  sqrt := Real.sqrt
  atan2 := fun y x => Complex.arg ⟨x, y⟩
  exp := Real.exp
  log := Real.log
  eps2 := 1 / 100000000
  macheps := 0
  pi := Real.pi
  decLt := fun a b => Classical.dec (a < b)
  decLe := fun a b => Classical.dec (a ≤ b)

end

namespace Lin

@[simp] theorem Vec.of_get {α : Type} {n : Nat} (f : Fin n → α) (i : Fin n) : (Vec.of f).get i = f i := rfl
@[simp] theorem Mat.of_get {α : Type} {n m : Nat} (f : Fin n → Fin m → α) (i : Fin n) (j : Fin m) :
    (Mat.of f).get i j = f i j := rfl

/-- a common factor moves out of the left-to-right sum (ℝ) -/
theorem vsum_mul_left (s : ℝ) : ∀ (n : Nat) (g : Fin n → ℝ), vsum n (fun l => s * g l) = s * vsum n g
  | 0, _ => by simp [vsum]
  | n + 1, g => by
      simp only [vsum]
      rw [vsum_mul_left s n]
      ring

/-- the C++ evaluates `s * A * B` as `(s·A)·B` (so does the model); over ℝ that is `s·(A·B)` -/
theorem mmul_msmul_get {n k m : Nat} (s : ℝ) (A : Mat ℝ n k) (B : Mat ℝ k m) (i : Fin n) (j : Fin m) :
    (mmul (msmul s A) B).get i j = s * (mmul A B).get i j := by
  simp only [mmul, msmul, Mat.of_get, mul_assoc]
  exact vsum_mul_left s k _

end Lin

@[simp] theorem Scalar.nat_real (n : Nat) : (Scalar.nat n : ℝ) = (n : ℝ) := rfl
