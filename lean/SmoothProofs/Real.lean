/-
  Real.lean — the model at `α := ℝ`: the object of the theorems.
  `atan2 y x` is `Complex.arg (x + y i)` (principal value in (−π, π]); `sqrt`, `sin`, … are Mathlib's.
-/
import Mathlib.Analysis.SpecialFunctions.Trigonometric.Basic
import Mathlib.Analysis.SpecialFunctions.Complex.Arg
import Mathlib.Analysis.SpecialFunctions.Log.Basic
import Mathlib.Analysis.SpecialFunctions.Sqrt
import SmoothModel

noncomputable section

open Classical in
instance : Scalar ℝ where
  natCast := fun n => (n : ℝ)
  sin := Real.sin
  cos := Real.cos
  tan := Real.tan
  sqrt := Real.sqrt
  atan2 := fun y x => Complex.arg ⟨x, y⟩
  exp := Real.exp
  log := Real.log
  eps2 := 1 / 100000000
  macheps := 0
  pi := Real.pi
  decLt := fun a b => Classical.dec (a < b)
  decLe := fun a b => Classical.dec (a ≤ b)

end

namespace Lin

@[simp] theorem Vec.of_get {α : Type} {n : Nat} (f : Fin n → α) (i : Fin n) : (Vec.of f).get i = f i := rfl
@[simp] theorem Mat.of_get {α : Type} {n m : Nat} (f : Fin n → Fin m → α) (i : Fin n) (j : Fin m) :
    (Mat.of f).get i j = f i j := rfl

end Lin

@[simp] theorem Scalar.nat_real (n : Nat) : (Scalar.nat n : ℝ) = (n : ℝ) := rfl
