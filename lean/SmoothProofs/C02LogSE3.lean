/-
  C02LogSE3.lean — SE3: `log ∘ exp = id` (rotation norm below π) and `exp ∘ log = id`
  (canonical unit rotation part, `w > 0`), closed-form branches.  The translation part reduces to
  `S₁⁻¹(ω) · S₁(ω) = 1` for the polynomials `1 − K/2 + A K²` and `1 + βK + γK²` in `K = hat ω`.
-/
import SmoothProofs.C02SEK3
import SmoothProofs.C02LogSO3
import SmoothProofs.C02Galilei

open Lin Scalar

namespace C02

/-- `calc_S1inv b = 1 − K/2 + A·K²` as Mathlib matrices -/
theorem so3_calc_S1inv_toM (b : Vec ℝ 3) :
    toM (SO3.calc_S1inv b)
      = rodrigues (-(1/2)) (SO3.S1invA (sqNorm b)) (b 0) (b 1) (b 2) := by
  ext i j
  simp only [rodrigues]
  rw [Matrix.add_apply, Matrix.add_apply, Matrix.smul_apply, Matrix.smul_apply, Matrix.mul_apply,
    Fin.sum_univ_three]
  simp only [toM, SO3.calc_S1inv, memoM_eq, Mat.of_get]
  generalize SO3.S1invA (sqNorm b) = A
  fin_cases i <;> fin_cases j <;>
    simp [mmul, msmul, vsum, SO3.hat, ident, mat3, K3] <;> ring

/-- the matrix `−ad w + dr_expinv w` used by `SE3.log` is `calc_S1inv w` -/
theorem se3_log_T (w : Vec ℝ 3) :
    madd (mneg (SO3.ad w)) (SO3.dr_expinv w) = SO3.calc_S1inv w := by
  ext i j
  simp [madd, mneg, SO3.dr_expinv]

theorem S1invA_closed (th2 : ℝ) (h : ¬ th2 < Scalar.eps2) :
    SO3.S1invA th2 = 1 / th2 - (1 + Real.cos (Real.sqrt th2))
      / (2 * Real.sqrt th2 * Real.sin (Real.sqrt th2)) := by
  simp [SO3.S1invA, h]

theorem rodrigues_comm (f g f' g' x y z : ℝ) :
    rodrigues f g x y z * rodrigues f' g' x y z = rodrigues f' g' x y z * rodrigues f g x y z := by
  rw [rodrigues_mul, rodrigues_mul]
  congr 1 <;> ring

/-- `(1 − K/2 + A K²)(1 + βK + γK²) = 1`, `θ ∈ (0, π)` (so `sin θ ≠ 0`) -/
theorem S1inv_mul_S1 (x y z θ : ℝ) (hθ : θ ≠ 0) (hs : Real.sin θ ≠ 0)
    (hn : θ * θ = x*x + y*y + z*z) :
    rodrigues (-(1/2)) (1 / (θ*θ) - (1 + Real.cos θ) / (2 * θ * Real.sin θ)) x y z
      * rodrigues ((1 - Real.cos θ) / (θ * θ)) ((θ - Real.sin θ) / (θ * θ * θ)) x y z = 1 := by
  rw [rodrigues_mul, ← hn]
  have hsc := Real.sin_sq_add_cos_sq θ
  have c1 : -(1/2) + (1 - Real.cos θ) / (θ * θ) - θ * θ * (-(1/2) * ((θ - Real.sin θ) / (θ * θ * θ))
      + (1 / (θ*θ) - (1 + Real.cos θ) / (2 * θ * Real.sin θ)) * ((1 - Real.cos θ) / (θ * θ))) = 0 := by
    field_simp
    linear_combination (-θ) * hsc
  have c2 : (1 / (θ*θ) - (1 + Real.cos θ) / (2 * θ * Real.sin θ)) + (θ - Real.sin θ) / (θ * θ * θ)
      + -(1/2) * ((1 - Real.cos θ) / (θ * θ))
      - θ * θ * ((1 / (θ*θ) - (1 + Real.cos θ) / (2 * θ * Real.sin θ))
        * ((θ - Real.sin θ) / (θ * θ * θ))) = 0 := by
    field_simp
    ring
  rw [c1, c2]
  simp [rodrigues]


/-- the same at `θ = π` (where `sin θ = 0` and the model's `A` evaluates to `1/π²`, the limit) -/
theorem S1inv_mul_S1_pi (x y z : ℝ) (hn : Real.pi * Real.pi = x*x + y*y + z*z) :
    rodrigues (-(1/2)) (1 / (Real.pi*Real.pi) - (1 + Real.cos Real.pi)
        / (2 * Real.pi * Real.sin Real.pi)) x y z
      * rodrigues ((1 - Real.cos Real.pi) / (Real.pi * Real.pi))
          ((Real.pi - Real.sin Real.pi) / (Real.pi * Real.pi * Real.pi)) x y z = 1 := by
  rw [rodrigues_mul, ← hn, Real.cos_pi, Real.sin_pi]
  have hp : Real.pi ≠ 0 := Real.pi_ne_zero
  have c1 : -(1/2) + (1 - (-1 : ℝ)) / (Real.pi * Real.pi) - Real.pi * Real.pi *
      (-(1/2) * ((Real.pi - 0) / (Real.pi * Real.pi * Real.pi))
      + (1 / (Real.pi*Real.pi) - (1 + (-1 : ℝ)) / (2 * Real.pi * 0))
        * ((1 - (-1 : ℝ)) / (Real.pi * Real.pi))) = 0 := by
    simp only [mul_zero, div_zero, sub_zero]
    field_simp; ring
  have c2 : (1 / (Real.pi*Real.pi) - (1 + (-1 : ℝ)) / (2 * Real.pi * 0))
      + (Real.pi - 0) / (Real.pi * Real.pi * Real.pi)
      + -(1/2) * ((1 - (-1 : ℝ)) / (Real.pi * Real.pi))
      - Real.pi * Real.pi * ((1 / (Real.pi*Real.pi) - (1 + (-1 : ℝ)) / (2 * Real.pi * 0))
        * ((Real.pi - 0) / (Real.pi * Real.pi * Real.pi))) = 0 := by
    simp only [mul_zero, div_zero, sub_zero]
    field_simp; ring
  rw [c1, c2]
  simp [rodrigues]

/-- both cases: `0 < θ ≤ π` -/
theorem S1inv_mul_S1_le_pi (x y z θ : ℝ) (h0 : 0 < θ) (hπ : θ ≤ Real.pi)
    (hn : θ * θ = x*x + y*y + z*z) :
    rodrigues (-(1/2)) (1 / (θ*θ) - (1 + Real.cos θ) / (2 * θ * Real.sin θ)) x y z
      * rodrigues ((1 - Real.cos θ) / (θ * θ)) ((θ - Real.sin θ) / (θ * θ * θ)) x y z = 1 := by
  rcases hπ.lt_or_eq with h | h
  · exact S1inv_mul_S1 x y z θ h0.ne' (Real.sin_pos_of_pos_of_lt_pi h0 h).ne' hn
  · subst h; exact S1inv_mul_S1_pi x y z hn

theorem se3_so3_mk7 (t : Vec ℝ 3) (q : Vec ℝ 4) : SE3.so3 (SE3.mk7 t q) = q := by
  ext i; fin_cases i <;> simp [SE3.so3, SE3.mk7, mk4]

theorem se3_r3_mk7 (t : Vec ℝ 3) (q : Vec ℝ 4) : SE3.r3 (SE3.mk7 t q) = t := by
  ext i; fin_cases i <;> simp [SE3.r3, SE3.mk7, mk3]

theorem se3_mk6_tv_tw (a : Vec ℝ 6) : SE3.mk6 (SE3.tv a) (SE3.tw a) = a := by
  ext i; fin_cases i <;> simp [SE3.mk6, SE3.tv, SE3.tw, mk3]

theorem se3_mk7_r3_so3 (g : Vec ℝ 7) : SE3.mk7 (SE3.r3 g) (SE3.so3 g) = g := by
  ext i; fin_cases i <;> simp [SE3.mk7, SE3.r3, SE3.so3, mk3, mk4]

theorem se3_log_unfold (g : Vec ℝ 7) :
    SE3.log g = SE3.mk6 (mulVec (SO3.calc_S1inv (SO3.log (SE3.so3 g))) (SE3.r3 g))
      (SO3.log (SE3.so3 g)) := by
  simp only [SE3.log, memoM_eq, memoV_eq, se3_log_T]

theorem se3_exp_unfold (a : Vec ℝ 6) :
    SE3.exp a = SE3.mk7 (mulVec (mmul (SO3.matrix (SO3.exp (SE3.tw a)))
      (SO3.calc_S1 (vneg (SE3.tw a)))) (SE3.tv a)) (SO3.exp (SE3.tw a)) := by
  simp only [SE3.exp, memoM_eq, memoV_eq, SO3.Ad, SO3.dr_exp]

theorem vec3_ext_get {u v : Vec ℝ 3} (h : u.get = v.get) : u = v := by
  ext i; exact congrFun h i

/-- `S₁⁻¹` is the two-sided inverse of `S₁(ω)` and of the code's `R·S₁(−ω)`, closed-form branches,
`eps2 < ‖ω‖²`, `‖ω‖ ≤ π`. -/
theorem so3_S1inv_pack (w : Vec ℝ 3) (h : Scalar.eps2 < sqNorm w)
    (hπ : Real.sqrt (sqNorm w) ≤ Real.pi) :
    toM (SO3.calc_S1inv w) * (toM (SO3.matrix (SO3.exp w)) * toM (SO3.calc_S1 (vneg w))) = 1 ∧
    (toM (SO3.matrix (SO3.exp w)) * toM (SO3.calc_S1 (vneg w))) * toM (SO3.calc_S1inv w) = 1 ∧
    toM (SO3.calc_S1inv w) * toM (SO3.calc_S1 w) = 1 ∧
    toM (SO3.calc_S1 w) * toM (SO3.calc_S1inv w) = 1 := by
  have hnb : ¬ sqNorm w < Scalar.eps2 := not_lt.2 h.le
  obtain ⟨hθ, hn, _, hRJ, hS1⟩ := so3_closed_pack w h
  have hpos : 0 < sqNorm w := lt_trans eps2_pos h
  set θ := Real.sqrt (sqNorm w) with hθdef
  have hθθ : θ * θ = sqNorm w := Real.mul_self_sqrt hpos.le
  have hθpos : 0 < θ := Real.sqrt_pos.2 hpos
  have hA : SO3.S1invA (sqNorm w) = 1 / (θ * θ) - (1 + Real.cos θ) / (2 * θ * Real.sin θ) := by
    rw [S1invA_closed _ hnb, ← hθdef, hθθ]
  have key := S1inv_mul_S1_le_pi (w 0) (w 1) (w 2) θ hθpos hπ hn
  simp only [one_mul] at hRJ hS1
  rw [hRJ, hS1, so3_calc_S1inv_toM, hA]
  exact ⟨key, by rw [rodrigues_comm]; exact key, key, by rw [rodrigues_comm]; exact key⟩

/-- **SE3 log (exp a) = a**: `eps2 < ‖ω‖²`, `‖ω‖ < π`, both SO3 functions in their closed branch. -/
theorem se3_log_exp (a : Vec ℝ 6) (h1 : Scalar.eps2 < sqNorm (SE3.tw a))
    (h2 : ¬ xyz2 (SO3.exp (SE3.tw a)) < Scalar.eps2)
    (hπ : Real.sqrt (sqNorm (SE3.tw a)) < Real.pi) : SE3.log (SE3.exp a) = a := by
  have hnb : ¬ sqNorm (SE3.tw a) < Scalar.eps2 := not_lt.2 h1.le
  have hlog : SO3.log (SO3.exp (SE3.tw a)) = SE3.tw a := so3_log_exp _ hnb h2 hπ
  obtain ⟨hI, _, _, _⟩ := so3_S1inv_pack (SE3.tw a) h1 hπ.le
  rw [se3_exp_unfold, se3_log_unfold, se3_so3_mk7, se3_r3_mk7, hlog]
  have ht : mulVec (SO3.calc_S1inv (SE3.tw a)) (mulVec (mmul (SO3.matrix (SO3.exp (SE3.tw a)))
      (SO3.calc_S1 (vneg (SE3.tw a)))) (SE3.tv a)) = SE3.tv a := by
    apply vec3_ext_get
    rw [mulVec3_get, mulVec3_get, toM_mmul3, Matrix.mulVec_mulVec, hI, Matrix.one_mulVec]
  rw [ht, se3_mk6_tv_tw]

theorem se3_tw_mk6 (t w : Vec ℝ 3) : SE3.tw (SE3.mk6 t w) = w := by
  ext i; fin_cases i <;> simp [SE3.tw, SE3.mk6, mk3]

theorem se3_tv_mk6 (t w : Vec ℝ 3) : SE3.tv (SE3.mk6 t w) = t := by
  ext i; fin_cases i <;> simp [SE3.tv, SE3.mk6, mk3]

/-- closed-form `log` of a canonical unit quaternion (`w ≥ 0`): `eps2 < ‖log q‖²` and
`‖log q‖ ≤ π` (`< π` when `w > 0`). -/
theorem so3_log_range (q : Vec ℝ 4) (hU : UnitQ q) (hw : 0 ≤ q 3) (hb : ¬ xyz2 q < Scalar.eps2) :
    Scalar.eps2 < sqNorm (SO3.log q) ∧ Real.sqrt (sqNorm (SO3.log q)) ≤ Real.pi ∧
    (0 < q 3 → Real.sqrt (sqNorm (SO3.log q)) < Real.pi) := by
  rw [so3_log_eq_closed q hb]
  have hpos : 0 < xyz2 q := lt_of_lt_of_le eps2_pos (not_lt.1 hb)
  rw [sqNorm_so3LogClosed q hpos.ne']
  have hnn : Real.sqrt (xyz2 q) * Real.sqrt (xyz2 q) = xyz2 q := Real.mul_self_sqrt (xyz2_nonneg q)
  have hunit : q 3 * q 3 + Real.sqrt (xyz2 q) * Real.sqrt (xyz2 q) = 1 := by
    rw [hnn]; unfold UnitQ at hU; unfold xyz2; linarith
  have hsin := sin_arg_mk_unit _ _ hunit
  obtain ⟨hα0, hα1⟩ := half_angle_range (q 3) (Real.sqrt (xyz2 q)) (Real.sqrt_nonneg _) hw
  have hle := Real.sin_le hα0
  rw [hsin] at hle
  have hs0 := Real.sqrt_nonneg (xyz2 q)
  have he := eps2_pos
  rw [Real.sqrt_mul_self (by linarith)]
  refine ⟨by nlinarith [not_lt.1 hb], by linarith, fun hw' => ?_⟩
  have := (Complex.abs_arg_lt_pi_div_two_iff (z := ⟨q 3, Real.sqrt (xyz2 q)⟩)).2 (Or.inl hw')
  linarith [(abs_lt.1 this).2]

/-- **SE3 exp (log g) = g**: unit rotation part with canonical sign `w ≥ 0` — INCLUDING the half
turn `w = 0` (`θ = π`, where the model's `S1invA` evaluates `0/0 = 0`, which is the limit value) —
closed-form branch. -/
theorem se3_exp_log (g : Vec ℝ 7) (hU : UnitQ (SE3.so3 g)) (hw : 0 ≤ (SE3.so3 g) 3)
    (hb : ¬ xyz2 (SE3.so3 g) < Scalar.eps2) : SE3.exp (SE3.log g) = g := by
  obtain ⟨h1, hπ, _⟩ := so3_log_range (SE3.so3 g) hU hw hb
  have hexp : SO3.exp (SO3.log (SE3.so3 g)) = SE3.so3 g := so3_exp_log _ hU hw hb
  obtain ⟨_, hI, _, _⟩ := so3_S1inv_pack (SO3.log (SE3.so3 g)) h1 hπ
  rw [hexp] at hI
  rw [se3_log_unfold, se3_exp_unfold, se3_tw_mk6, se3_tv_mk6, hexp]
  have ht : mulVec (mmul (SO3.matrix (SE3.so3 g)) (SO3.calc_S1 (vneg (SO3.log (SE3.so3 g)))))
      (mulVec (SO3.calc_S1inv (SO3.log (SE3.so3 g))) (SE3.r3 g)) = SE3.r3 g := by
    apply vec3_ext_get
    rw [mulVec3_get, mulVec3_get, toM_mmul3, Matrix.mulVec_mulVec, hI, Matrix.one_mulVec]
  rw [ht, se3_mk7_r3_so3]

/-! ### the rotation part of `log` is `SO3.log` of the rotation part (SE3, Galilei, SE_K_3) -/

theorem se3_log_rotation (g : Vec ℝ 7) : SE3.tw (SE3.log g) = SO3.log (SE3.so3 g) := by
  rw [se3_log_unfold, se3_tw_mk6]

theorem galilei_log_rotation (g : Vec ℝ 11) :
    Galilei.tw (Galilei.log g) = SO3.log (Galilei.gq g) := by
  ext i
  fin_cases i <;> simp [Galilei.log, Galilei.tw, Galilei.mkT, memoV_eq, mk3]

theorem sek3_log_rotation (k : Nat) (g : Vec ℝ (4 + 3 * k)) :
    SEK3.tw k (SEK3.log k g) = SO3.log (SEK3.gq k g) := by
  ext i
  simp only [SEK3.log, SEK3.tw, SEK3.mkT, memoV_eq, Vec.of_get]
  rw [dif_neg (by omega)]
  congr 1; ext; simp

end C02
