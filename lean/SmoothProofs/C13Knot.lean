/-
  C13Knot.lean — the knot identities of the cumulative B-spline basis that make a degree-K BSpline
  C^(K−1): for every derivative order `d ≤ K−1`
      B̃₁^{(d)}(1) = δ_{d0},   B̃ⱼ^{(d)}(1) = B̃ⱼ₋₁^{(d)}(0)  (j = 2..K),   B̃_K^{(d)}(0) = 0.
  * exact, over ℚ, for the model's tables `Poly.cumulativeBasis .Bspline K`, K = 1..6 (kernel);
  * up to 2⁻⁴⁸ for the tables DUMPED from the running implementation (doubles, generated file
    SmoothProofs/Gen/PolyTables.lean — tie T2: if the code's table changes this breaks).
-/
import SmoothModel.Poly
import SmoothProofs.Gen.PolyTables

namespace C13
open Poly

/-- falling factorial `r (r−1) ⋯ (r−d+1)` -/
def descFact (r d : Nat) : Nat := (List.range d).foldl (fun a t => a * (r - t)) 1

/-- `|x| ≤ tol` -/
def within (x tol : Rat) : Bool := decide (x ≤ tol) && decide (-tol ≤ x)

/-- `d`-th derivative at `u = 0` of the polynomial in column `j`: `d!·T[d][j]` -/
def colDeriv0 (T : Tab Rat) (d j : Nat) : Rat := (descFact d d : Rat) * T.get d j

/-- `d`-th derivative at `u = 1` of the polynomial in column `j`: `Σ_r r(r−1)⋯(r−d+1)·T[r][j]` -/
def colDeriv1 (T : Tab Rat) (K d j : Nat) : Rat :=
  ((List.range (K + 1)).map (fun r => (descFact r d : Rat) * T.get r j)).sum

/-- all knot identities of orders `d < K`, within tolerance `tol` (0 = exact) -/
def knotIdent (T : Tab Rat) (K : Nat) (tol : Rat) : Bool :=
  (List.range K).all fun d =>
    within (colDeriv1 T K d 1 - (if d = 0 then 1 else 0)) tol &&
    ((List.range (K - 1)).all fun j' => within (colDeriv1 T K d (j' + 2) - colDeriv0 T d (j' + 1)) tol) &&
    within (colDeriv0 T d K) tol

/-- the identities FAIL at order `d = K` (the K-th derivative jumps): used as a sanity check that
    `knotIdent` is not vacuous -/
def knotIdentAt (T : Tab Rat) (K d : Nat) : Bool :=
  decide (colDeriv1 T K d 1 = (if d = 0 then 1 else 0)) &&
  ((List.range (K - 1)).all fun j' => decide (colDeriv1 T K d (j' + 2) = colDeriv0 T d (j' + 1))) &&
  decide (colDeriv0 T d K = 0)

theorem bspline_knot_identities_1 : knotIdent (cumulativeBasis (α := Rat) .Bspline 1) 1 0 = true := by decide +kernel
theorem bspline_knot_identities_2 : knotIdent (cumulativeBasis (α := Rat) .Bspline 2) 2 0 = true := by decide +kernel
theorem bspline_knot_identities_3 : knotIdent (cumulativeBasis (α := Rat) .Bspline 3) 3 0 = true := by decide +kernel
theorem bspline_knot_identities_4 : knotIdent (cumulativeBasis (α := Rat) .Bspline 4) 4 0 = true := by decide +kernel
theorem bspline_knot_identities_5 : knotIdent (cumulativeBasis (α := Rat) .Bspline 5) 5 0 = true := by decide +kernel
theorem bspline_knot_identities_6 : knotIdent (cumulativeBasis (α := Rat) .Bspline 6) 6 0 = true := by decide +kernel

/-- order `K` is NOT continuous (K = 1..6): the statement above is sharp -/
theorem bspline_order_K_jumps :
    ∀ K ∈ [1, 2, 3, 4, 5, 6], knotIdentAt (cumulativeBasis (α := Rat) .Bspline K) K K = false := by decide +kernel

/-- the tables the implementation uses (dumped doubles) satisfy the identities up to 2⁻⁴⁸ -/
theorem dumped_bspline_knot_identities :
    ∀ K ∈ [1, 2, 3, 4, 5, 6], knotIdent (Gen.Poly.cumBasis .Bspline K) K (1 / 2 ^ 48) = true := by decide +kernel

/-- the dumped tables are within 2⁻⁵⁰ of the exact rational tables, entry by entry -/
def tabClose (A B : Tab Rat) (n : Nat) (tol : Rat) : Bool :=
  (List.range n).all fun i => (List.range n).all fun j => within (A.get i j - B.get i j) tol

theorem dumped_bspline_close_to_exact :
    ∀ K ∈ [1, 2, 3, 4, 5, 6],
      tabClose (Gen.Poly.cumBasis .Bspline K) (cumulativeBasis (α := Rat) .Bspline K) (K + 1) (1 / 2 ^ 50) = true := by
  decide +kernel

end C13
