/-
  C17Sek2Series.lean — `ι ∘ exp_{SE_2(3)} = exp_{Galilei} ∘ ι_*` on the SERIES side of the switch
  (`‖ω‖² ≤ eps2`), quantitatively.

  SE_K_3 computes the translation parts with `P = Ad(q)·dr_exp(ω)` (`q` the — there truncated —
  quaternion of `SO3.exp`), Galilei with `S1(ω)`.  All three matrices are `I + α·ŵ + β·ŵ²`:
      Ad(q) = I + 2AB·ŵ + 2A²·ŵ²,   dr_exp ω = I + c₂·ŵ − s₃·ŵ²,   S1 ω = I − c₂·ŵ − s₃·ŵ²
  so `P − S1 = E₁·ŵ + E₂·ŵ²` with `E₁ = a + 2c − n(ad + bc)`, `E₂ = b + ac − n·bd`
  (`a = 2AB, b = 2A², c = c₂, d = −s₃, n = ‖ω‖²`).  For the exact coefficient functions
  `E₁ = E₂ = 0` (`C04SO3.coef_p_ad/coef_q_ad`); the truncation bounds of C02
  (`so3_expA_real`, `so3_expB_real`, `trig_cos_2_series`, `trig_sin_3_series`) give
  `|E₁|, |E₂| ≤ n²/100`, hence `|P − S1|ᵢⱼ ≤ ‖ω‖⁵/50` — also at `‖ω‖² = eps2` exactly, where
  `SO3.exp` already uses its closed form while `cos_2`/`sin_3` still use the series.
-/
import SmoothProofs.C17Sek2
import SmoothProofs.C02Taylor
import SmoothProofs.C02Series

open Lin Scalar

namespace C17P
open C04Alg C04SO3

/-! ### the three matrices as `poly2 ŵ α β`, every branch -/

theorem quat_poly_entries (w : Vec ℝ 3) (A B : ℝ) (i j : Fin 3) :
    (SO3.matrix (mk4 (A * w 0) (A * w 1) (A * w 2) B)) i j
      = (poly2 (SO3.hat w) (2 * A * B) (2 * A * A)) i j := by
  fin_cases i <;> fin_cases j <;>
    simp [SO3.matrix, mat3, mk4, poly2, mmul, vsum, SO3.hat, ident] <;> ring

theorem ad_exp_poly (w : Vec ℝ 3) (i j : Fin 3) :
    (SO3.Ad (SO3.exp w)) i j
      = (poly2 (SO3.hat w) (2 * (SO3.expAB (sqNorm w)).1 * (SO3.expAB (sqNorm w)).2)
          (2 * (SO3.expAB (sqNorm w)).1 * (SO3.expAB (sqNorm w)).1)) i j := by
  simp only [SO3.Ad, SO3.exp, matrix_canon]
  exact quat_poly_entries w _ _ i j

theorem dr_exp_poly (w : Vec ℝ 3) :
    SO3.dr_exp w = poly2 (SO3.hat w) (Trig.cos_2 (sqNorm w)) (-(Trig.sin_3 (sqNorm w))) := by
  ext i j
  simp only [SO3.dr_exp, SO3.calc_S1, msmul, memoM_eq, sqNorm3_neg, Mat.of_get, poly2, mmul3, hat_neg]
  ring

theorem calc_S1_poly (w : Vec ℝ 3) :
    SO3.calc_S1 w = poly2 (SO3.hat w) (-(Trig.cos_2 (sqNorm w))) (-(Trig.sin_3 (sqNorm w))) := by
  ext i j
  simp only [SO3.calc_S1, msmul, memoM_eq, Mat.of_get, poly2, mmul3]
  ring

/-- the two error coefficients -/
def E1 (n a b c d : ℝ) : ℝ := a + 2 * c - n * (a * d + b * c)
def E2 (n a b c d : ℝ) : ℝ := b + a * c - n * (b * d)

/-- **`Ad(exp ω)·dr_exp ω − S1 ω = E₁·ŵ + E₂·ŵ²`**, every `ω`, every branch -/
theorem P_sub_S1 (w : Vec ℝ 3) (i j : Fin 3) :
    (mmul (SO3.Ad (SO3.exp w)) (SO3.dr_exp w)) i j - (SO3.calc_S1 w) i j
      = E1 (sqNorm w) (2 * (SO3.expAB (sqNorm w)).1 * (SO3.expAB (sqNorm w)).2)
            (2 * (SO3.expAB (sqNorm w)).1 * (SO3.expAB (sqNorm w)).1)
            (Trig.cos_2 (sqNorm w)) (-(Trig.sin_3 (sqNorm w))) * (SO3.hat w) i j
        + E2 (sqNorm w) (2 * (SO3.expAB (sqNorm w)).1 * (SO3.expAB (sqNorm w)).2)
            (2 * (SO3.expAB (sqNorm w)).1 * (SO3.expAB (sqNorm w)).1)
            (Trig.cos_2 (sqNorm w)) (-(Trig.sin_3 (sqNorm w))) * (mmul (SO3.hat w) (SO3.hat w)) i j := by
  have hR : SO3.Ad (SO3.exp w) = poly2 (SO3.hat w) (2 * (SO3.expAB (sqNorm w)).1 * (SO3.expAB (sqNorm w)).2)
      (2 * (SO3.expAB (sqNorm w)).1 * (SO3.expAB (sqNorm w)).1) := by
    ext i j; exact ad_exp_poly w i j
  rw [hR, dr_exp_poly, calc_S1_poly, so3_poly_mul]
  simp only [poly2, Mat.of_get, E1, E2]
  ring

/-! ### scalar perturbation lemmas -/

theorem mul_pert {x y x' y' ex ey X Y : ℝ} (hx : |x - x'| ≤ ex) (hy : |y - y'| ≤ ey)
    (hY : |y| ≤ Y) (hX : |x'| ≤ X) : |x * y - x' * y'| ≤ ex * Y + X * ey := by
  have e : x * y - x' * y' = (x - x') * y + x' * (y - y') := by ring
  rw [e]
  refine le_trans (abs_add_le _ _) ?_
  rw [abs_mul, abs_mul]
  have h1 : |x - x'| * |y| ≤ ex * Y := mul_le_mul hx hY (abs_nonneg _) (le_trans (abs_nonneg _) hx)
  have h2 : |x'| * |y - y'| ≤ X * ey := mul_le_mul hX hy (abs_nonneg _) (le_trans (abs_nonneg _) hX)
  linarith

/-- `|E₁ − E₁'|`, `|E₂ − E₂'|` from coefficient perturbations -/
theorem E_pert {n a b c d a' b' c' d' εa εb εc εd : ℝ} (hn0 : 0 ≤ n) (hn1 : n ≤ 1 / 100)
    (ha : |a - a'| ≤ εa) (hb : |b - b'| ≤ εb) (hc : |c - c'| ≤ εc) (hd : |d - d'| ≤ εd)
    (hC : |c| ≤ 1) (hD : |d| ≤ 1) (hA' : |a'| ≤ 2) (hB' : |b'| ≤ 2) :
    |E1 n a b c d - E1 n a' b' c' d'| ≤ εa + 2 * εc + (εa + 2 * εd + εb + 2 * εc) / 100 ∧
    |E2 n a b c d - E2 n a' b' c' d'| ≤ εb + εa + 2 * εc + (εb + 2 * εd) / 100 := by
  have hεa : 0 ≤ εa := le_trans (abs_nonneg _) ha
  have hεb : 0 ≤ εb := le_trans (abs_nonneg _) hb
  have hεc : 0 ≤ εc := le_trans (abs_nonneg _) hc
  have hεd : 0 ≤ εd := le_trans (abs_nonneg _) hd
  have had := mul_pert ha hd hD hA'
  have hbc := mul_pert hb hc hC hB'
  have hac := mul_pert ha hc hC hA'
  have hbd := mul_pert hb hd hD hB'
  have scale : ∀ {u U : ℝ}, |u| ≤ U → |n * u| ≤ U / 100 := by
    intro u U hu
    rw [abs_mul, abs_of_nonneg hn0]
    have : n * |u| ≤ 1 / 100 * U := mul_le_mul hn1 hu (abs_nonneg _) (by norm_num)
    linarith
  constructor
  · have e : E1 n a b c d - E1 n a' b' c' d'
        = (a - a') + 2 * (c - c') - n * ((a * d - a' * d') + (b * c - b' * c')) := by
      simp only [E1]; ring
    rw [e]
    have hs : |(a * d - a' * d') + (b * c - b' * c')| ≤ (εa * 1 + 2 * εd) + (εb * 1 + 2 * εc) :=
      le_trans (abs_add_le _ _) (add_le_add had hbc)
    have h3 := scale hs
    have h1 := abs_le.mp ha
    have h2 := abs_le.mp hc
    have h4 := abs_le.mp h3
    rw [abs_le]
    constructor <;> linarith
  · have e : E2 n a b c d - E2 n a' b' c' d'
        = (b - b') + (a * c - a' * c') - n * (b * d - b' * d') := by
      simp only [E2]; ring
    rw [e]
    have h3 := scale hbd
    have h1 := abs_le.mp hb
    have h2 := abs_le.mp hac
    have h4 := abs_le.mp h3
    rw [abs_le]
    constructor <;> linarith

/-! ### the coefficients on the series side -/

theorem E_exact {n : ℝ} (h0 : 0 < n) :
    E1 n (ρr n) (σr n) (αr n) (βr n) = 0 ∧ E2 n (ρr n) (σr n) (αr n) (βr n) = 0 := by
  have hθ : Real.sqrt n ≠ 0 := (Real.sqrt_pos.2 h0).ne'
  have hsq : Real.sqrt n ^ 2 = n := Real.sq_sqrt h0.le
  have h1 := Real.sin_sq_add_cos_sq (Real.sqrt n)
  have p := coef_p_ad hθ h1
  have q := coef_q_ad (s := Real.sin (Real.sqrt n)) (c := Real.cos (Real.sqrt n)) hθ
  rw [hsq] at p q
  simp only [E1, E2, ρr, σr, αr, βr]
  constructor
  · linear_combination p
  · linear_combination q

/-- half-angle: the exact quaternion coefficients give `ρ = sin θ/θ`, `σ = (1 − cos θ)/θ²` -/
theorem half_angle {n : ℝ} (h0 : 0 < n) :
    2 * (Real.sin (Real.sqrt n / 2) / Real.sqrt n) * Real.cos (Real.sqrt n / 2) = ρr n ∧
    2 * (Real.sin (Real.sqrt n / 2) / Real.sqrt n) * (Real.sin (Real.sqrt n / 2) / Real.sqrt n) = σr n := by
  have hθ : Real.sqrt n ≠ 0 := (Real.sqrt_pos.2 h0).ne'
  have hsq : Real.sqrt n ^ 2 = n := Real.sq_sqrt h0.le
  have e1 : 2 * Real.sin (Real.sqrt n / 2) * Real.cos (Real.sqrt n / 2) = Real.sin (Real.sqrt n) := by
    rw [← Real.sin_two_mul]; congr 1; ring
  have e2 : 2 * Real.sin (Real.sqrt n / 2) ^ 2 = 1 - Real.cos (Real.sqrt n) := by
    have := Real.cos_two_mul (Real.sqrt n / 2)
    have h1 := Real.sin_sq_add_cos_sq (Real.sqrt n / 2)
    rw [show 2 * (Real.sqrt n / 2) = Real.sqrt n by ring] at this
    linear_combination this + 2 * h1
  constructor
  · rw [ρr, ← e1]; field_simp
  · have e3 : (1 - Real.cos (Real.sqrt n)) / n = 2 * Real.sin (Real.sqrt n / 2) ^ 2 / Real.sqrt n ^ 2 := by
      rw [hsq, e2]
    rw [σr, e3]; field_simp

/-- model quaternion coefficients `(A, B)` against the exact ones, BOTH sides of `SO3.exp`'s own
    switch (`n < eps2`: truncation error; `n = eps2`: equal) -/
theorem expAB_close {n : ℝ} (h0 : 0 < n) (h1 : n ≤ Scalar.eps2) :
    |(SO3.expAB n).1 - Real.sin (Real.sqrt n / 2) / Real.sqrt n| ≤ n ^ 2 * (1 / 3200) ∧
    |(SO3.expAB n).2 - Real.cos (Real.sqrt n / 2)| ≤ n ^ 2 * (5 / 1536) ∧
    |(SO3.expAB n).1| ≤ 1 ∧ |(SO3.expAB n).2| ≤ 1 ∧
    |Real.sin (Real.sqrt n / 2) / Real.sqrt n| ≤ 1 ∧ |Real.cos (Real.sqrt n / 2)| ≤ 1 := by
  obtain ⟨hs0, hs1, hs2⟩ := C02.sqrt_small h0 h1
  have hA := C02.so3_expA_real (Real.sqrt n) hs0 hs1
  have hB := C02.so3_expB_real (Real.sqrt n) hs0 hs1
  rw [hs2] at hA hB
  have he : n ≤ 1 / 100000000 := by rw [← C02.scalar_eps2]; exact h1
  have hn2 : n ^ 2 ≤ 1 := by nlinarith
  have hn2' : 0 ≤ n ^ 2 := by positivity
  have hAc : |Real.sin (Real.sqrt n / 2) / Real.sqrt n| ≤ 1 := by
    have h := abs_le.mp hA
    rw [abs_le]; constructor <;> linarith
  have hBc : |Real.cos (Real.sqrt n / 2)| ≤ 1 := Real.abs_cos_le_one _
  by_cases hb : n < Scalar.eps2
  · have eA : (SO3.expAB n).1 = 1 / 2 - n / 48 := by simp [SO3.expAB, hb]
    have eB : (SO3.expAB n).2 = 1 - n / 8 := by simp [SO3.expAB, hb]
    rw [eA, eB]
    refine ⟨hA, hB, ?_, ?_, hAc, hBc⟩
    · rw [abs_le]; constructor <;> linarith
    · rw [abs_le]; constructor <;> linarith
  · rw [C02.so3_expAB_closed n hb]
    simp only [sub_self, abs_zero]
    exact ⟨by positivity, by positivity, hAc, hBc, hAc, hBc⟩

/-- **`|E₁|, |E₂| ≤ n²/100`** for the model's coefficients, `0 < n ≤ eps2` -/
theorem E_small {n : ℝ} (h0 : 0 < n) (h1 : n ≤ Scalar.eps2) :
    |E1 n (2 * (SO3.expAB n).1 * (SO3.expAB n).2) (2 * (SO3.expAB n).1 * (SO3.expAB n).1)
        (Trig.cos_2 n) (-(Trig.sin_3 n))| ≤ n ^ 2 / 100 ∧
    |E2 n (2 * (SO3.expAB n).1 * (SO3.expAB n).2) (2 * (SO3.expAB n).1 * (SO3.expAB n).1)
        (Trig.cos_2 n) (-(Trig.sin_3 n))| ≤ n ^ 2 / 100 := by
  obtain ⟨hδA, hδB, hA1, hB1, hAc1, hBc1⟩ := expAB_close h0 h1
  obtain ⟨hρ, hσ⟩ := half_angle h0
  obtain ⟨hE1, hE2⟩ := E_exact h0
  have he : n ≤ 1 / 100000000 := by rw [← C02.scalar_eps2]; exact h1
  generalize (SO3.expAB n).1 = A at *
  generalize (SO3.expAB n).2 = B at *
  generalize Real.sin (Real.sqrt n / 2) / Real.sqrt n = Ac at *
  generalize Real.cos (Real.sqrt n / 2) = Bc at *
  -- a = 2AB, b = 2A²
  have ha : |2 * A * B - ρr n| ≤ 2 * (n ^ 2 * (1 / 3200) + n ^ 2 * (5 / 1536)) := by
    rw [← hρ]
    have := mul_pert hδA hδB hB1 hAc1
    have e : 2 * A * B - 2 * Ac * Bc = 2 * (A * B - Ac * Bc) := by ring
    rw [e, abs_mul, abs_of_pos (by norm_num : (0 : ℝ) < 2)]
    linarith
  have hb : |2 * A * A - σr n| ≤ 2 * (n ^ 2 * (1 / 3200) + n ^ 2 * (1 / 3200)) := by
    rw [← hσ]
    have := mul_pert hδA hδA hA1 hAc1
    have e : 2 * A * A - 2 * Ac * Ac = 2 * (A * A - Ac * Ac) := by ring
    rw [e, abs_mul, abs_of_pos (by norm_num : (0 : ℝ) < 2)]
    linarith
  -- c = cos_2 (series), d = −sin_3 (series)
  have hc : |Trig.cos_2 n - αr n| ≤ n ^ 3 * (9 / 322560) := C02.trig_cos_2_series n h0 h1
  have hd : |-(Trig.sin_3 n) - βr n| ≤ n ^ 3 * (10 / 3265920) := by
    have := C02.trig_sin_3_series n h0 h1
    rw [βr, ← abs_neg]
    have e : -(-(Trig.sin_3 n) - -((Real.sin (Real.sqrt n) - Real.sqrt n) / (n * Real.sqrt n)))
        = Trig.sin_3 n - (Real.sin (Real.sqrt n) - Real.sqrt n) / (n * Real.sqrt n) := by ring
    rw [e]; exact this
  have hcv : Trig.cos_2 n = -1 / 2 + n / 24 - n * n / 720 := by
    simp [Trig.cos_2, not_lt.2 h1]
  have hdv : Trig.sin_3 n = -1 / 6 + n / 120 - n * n / 5040 := by
    simp [Trig.sin_3, not_lt.2 h1]
  have hC : |Trig.cos_2 n| ≤ 1 := by
    rw [hcv, abs_le]; constructor <;> nlinarith
  have hD : |-(Trig.sin_3 n)| ≤ 1 := by
    rw [hdv, abs_le]; constructor <;> nlinarith
  have hA' : |ρr n| ≤ 2 := by
    rw [← hρ, abs_mul, abs_mul, abs_of_pos (by norm_num : (0 : ℝ) < 2)]
    have := mul_le_mul hAc1 hBc1 (abs_nonneg _) (by norm_num)
    linarith
  have hB' : |σr n| ≤ 2 := by
    rw [← hσ, abs_mul, abs_mul, abs_of_pos (by norm_num : (0 : ℝ) < 2)]
    have := mul_le_mul hAc1 hAc1 (abs_nonneg _) (by norm_num)
    linarith
  have hp := E_pert h0.le (by linarith : n ≤ 1 / 100) ha hb hc hd hC hD hA' hB'
  rw [hE1, hE2, sub_zero, sub_zero] at hp
  have hn2 : 0 ≤ n ^ 2 := by positivity
  have hn3 : n ^ 3 ≤ n ^ 2 * (1 / 100000000) := by
    have : n ^ 3 = n ^ 2 * n := by ring
    rw [this]
    exact mul_le_mul_of_nonneg_left he hn2
  have hn3' : 0 ≤ n ^ 3 := by positivity
  constructor
  · refine le_trans hp.1 ?_
    linarith
  · refine le_trans hp.2 ?_
    linarith

/-! ### entries of `ŵ`, `ŵ²` -/

theorem sqNorm3_nonneg (w : Vec ℝ 3) : 0 ≤ sqNorm w := by
  rw [sqNorm3]; nlinarith [mul_self_nonneg (w 0), mul_self_nonneg (w 1), mul_self_nonneg (w 2)]

theorem hat_entry_le (w : Vec ℝ 3) (i j : Fin 3) : |(SO3.hat w) i j| ≤ Real.sqrt (sqNorm w) := by
  have hθ : 0 ≤ Real.sqrt (sqNorm w) := Real.sqrt_nonneg _
  have hn : Real.sqrt (sqNorm w) * Real.sqrt (sqNorm w) = w 0 * w 0 + w 1 * w 1 + w 2 * w 2 := by
    rw [Real.mul_self_sqrt (sqNorm3_nonneg w), sqNorm3]
  have := C02.K3_entry_le (w 0) (w 1) (w 2) _ hθ hn i j
  have e : (SO3.hat w) i j = C02.K3 (w 0) (w 1) (w 2) i j := by
    fin_cases i <;> fin_cases j <;> simp [SO3.hat, mat3, C02.K3]
  rw [e]; exact this

theorem hat_sq_entry_le (w : Vec ℝ 3) (i j : Fin 3) : |(mmul (SO3.hat w) (SO3.hat w)) i j| ≤ sqNorm w := by
  have := C02.K3sq_entry_le (w 0) (w 1) (w 2) (sqNorm w) (sqNorm3 w) i j
  have e : (mmul (SO3.hat w) (SO3.hat w)) i j = (C02.K3 (w 0) (w 1) (w 2) * C02.K3 (w 0) (w 1) (w 2)) i j := by
    rw [mmul3, Matrix.mul_apply, Fin.sum_univ_three]
    have e' : ∀ a b : Fin 3, (SO3.hat w) a b = C02.K3 (w 0) (w 1) (w 2) a b := by
      intro a b; fin_cases a <;> fin_cases b <;> simp [SO3.hat, mat3, C02.K3]
    simp only [e']
  rw [e]; exact this

/-- **the two translation matrices differ entrywise by at most `‖ω‖⁵/50`** on the series side
    (`‖ω‖² ≤ eps2`, the point `ω = 0` and the switch point `‖ω‖² = eps2` included) -/
theorem P_close_S1 (w : Vec ℝ 3) (h1 : sqNorm w ≤ Scalar.eps2) (i j : Fin 3) :
    |(mmul (SO3.Ad (SO3.exp w)) (SO3.dr_exp w)) i j - (SO3.calc_S1 w) i j|
      ≤ sqNorm w ^ 2 * Real.sqrt (sqNorm w) / 50 := by
  have hn0 : 0 ≤ sqNorm w := sqNorm3_nonneg w
  rw [P_sub_S1]
  have hM := hat_entry_le w i j
  have hMM := hat_sq_entry_le w i j
  rcases hn0.eq_or_lt with h0 | h0
  · -- ω = 0: ŵ = 0
    rw [← h0] at hM hMM ⊢
    simp only [Real.sqrt_zero, abs_nonpos_iff] at hM hMM
    rw [hM, hMM]; simp
  · obtain ⟨hE1, hE2⟩ := E_small h0 h1
    obtain ⟨hs0, hs1, hs2⟩ := C02.sqrt_small h0 h1
    generalize E1 (sqNorm w) _ _ _ _ = e1 at hE1 ⊢
    generalize E2 (sqNorm w) _ _ _ _ = e2 at hE2 ⊢
    generalize (SO3.hat w) i j = m at hM ⊢
    generalize (mmul (SO3.hat w) (SO3.hat w)) i j = mm at hMM ⊢
    generalize Real.sqrt (sqNorm w) = θ at *
    generalize sqNorm w = n at *
    have hn2 : 0 ≤ n ^ 2 / 100 := by positivity
    refine le_trans (abs_add_le _ _) ?_
    rw [abs_mul, abs_mul]
    have t1 : |e1| * |m| ≤ n ^ 2 / 100 * θ := mul_le_mul hE1 hM (abs_nonneg _) hn2
    have t2 : |e2| * |mm| ≤ n ^ 2 / 100 * n := mul_le_mul hE2 hMM (abs_nonneg _) hn2
    have hnθ : n ≤ θ := by rw [← hs2]; nlinarith
    have t3 : n ^ 2 / 100 * n ≤ n ^ 2 / 100 * θ := mul_le_mul_of_nonneg_left hnθ hn2
    linarith

/-! ### from matrices to the group elements -/

theorem mulVec3_sub_le (P S : Mat ℝ 3 3) (v : Vec ℝ 3) (E V : ℝ) (hE : ∀ i j, |P i j - S i j| ≤ E)
    (hV : ∀ c, |v c| ≤ V) (i : Fin 3) : |mulVec P v i - mulVec S v i| ≤ 3 * (E * V) := by
  have e : mulVec P v i - mulVec S v i
      = (P i 0 - S i 0) * v 0 + (P i 1 - S i 1) * v 1 + (P i 2 - S i 2) * v 2 := by
    simp [mulVec, vsum]; ring
  rw [e]
  have hE0 : 0 ≤ E := le_trans (abs_nonneg _) (hE 0 0)
  have t : ∀ j : Fin 3, |(P i j - S i j) * v j| ≤ E * V := fun j => by
    rw [abs_mul]; exact mul_le_mul (hE i j) (hV j) (abs_nonneg _) hE0
  have := abs_add_three ((P i 0 - S i 0) * v 0) ((P i 1 - S i 1) * v 1) ((P i 2 - S i 2) * v 2)
  linarith [t 0, t 1, t 2]

theorem galMkG_sub_le (v v' p p' : Vec ℝ 3) (t : ℝ) (q : Vec ℝ 4) (E : ℝ) (hE : 0 ≤ E)
    (hv : ∀ c, |v c - v' c| ≤ E) (hp : ∀ c, |p c - p' c| ≤ E) (i : Fin 11) :
    |(Galilei.mkG v p t q) i - (Galilei.mkG v' p' t q) i| ≤ E := by
  fin_cases i <;> simp [Galilei.mkG, Vec.of, hE]
  · exact hv 0
  · exact hv 1
  · exact hv 2
  · exact hp 0
  · exact hp 1
  · exact hp 2

/-- **`ι ∘ exp = exp ∘ ι_*` up to truncation error, series side**: every one of the 11 coefficients
    of the two sides differs by at most `(3/50)·‖ω‖⁵·V`, `V` a bound on the linear components. -/
theorem sek2_exp_series (a : T2) (h1 : sqNorm (SEK3.tw 2 a) ≤ Scalar.eps2) (V : ℝ)
    (hV : ∀ (k : Fin 2) (c : Fin 3), |(SEK3.tv 2 a k) c| ≤ V) (i : Fin 11) :
    |(Conv.sek2_to_gal (SEK3.exp 2 a)) i - (Galilei.exp (Conv.sek2T_to_gal a)) i|
      ≤ 3 * (sqNorm (SEK3.tw 2 a) ^ 2 * Real.sqrt (sqNorm (SEK3.tw 2 a)) / 50 * V) := by
  have hn0 : 0 ≤ sqNorm (SEK3.tw 2 a) := sqNorm3_nonneg _
  have hV0 : 0 ≤ V := le_trans (abs_nonneg _) (hV 0 0)
  have hcl := P_close_S1 (SEK3.tw 2 a) h1
  unfold SEK3.exp Galilei.exp
  simp only [mkG2, tw2, tb2, tq2, ts2, memoM_eq, memoV_eq]
  apply galMkG_sub_le
  · positivity
  · intro c
    exact mulVec3_sub_le _ _ _ _ V hcl (hV 0) c
  · intro c
    have := mulVec3_sub_le _ _ (SEK3.tv 2 a 1) _ V hcl (hV 1) c
    simpa using this

/-- numerically: on the series side the bound is below `6·10⁻²²·V` -/
theorem series_bound_small {n V : ℝ} (h0 : 0 ≤ n) (h1 : n ≤ Scalar.eps2) (hV : 0 ≤ V) :
    3 * (n ^ 2 * Real.sqrt n / 50 * V) ≤ 6 / 10 ^ 22 * V := by
  have he : n ≤ 1 / 100000000 := by rw [← C02.scalar_eps2]; exact h1
  have hs : Real.sqrt n ≤ 1 / 10000 := by
    calc Real.sqrt n ≤ Real.sqrt (1 / 100000000) := Real.sqrt_le_sqrt he
      _ = 1 / 10000 := by
        rw [show (1 / 100000000 : ℝ) = (1 / 10000) ^ 2 by norm_num]
        exact Real.sqrt_sq (by norm_num)
  have hs0 : 0 ≤ Real.sqrt n := Real.sqrt_nonneg _
  have hn2 : n ^ 2 ≤ (1 / 100000000) ^ 2 := pow_le_pow_left₀ h0 he 2
  have hprod : n ^ 2 * Real.sqrt n ≤ (1 / 100000000) ^ 2 * (1 / 10000) :=
    mul_le_mul hn2 hs hs0 (by norm_num)
  have : 3 * (n ^ 2 * Real.sqrt n / 50) ≤ 6 / 10 ^ 22 := by
    have e : (1 / 100000000 : ℝ) ^ 2 * (1 / 10000) = 1 / 10 ^ 20 := by norm_num
    rw [e] at hprod
    have : (3 : ℝ) * (1 / 10 ^ 20 / 50) = 6 / 10 ^ 22 := by norm_num
    linarith
  calc 3 * (n ^ 2 * Real.sqrt n / 50 * V) = 3 * (n ^ 2 * Real.sqrt n / 50) * V := by ring
    _ ≤ 6 / 10 ^ 22 * V := mul_le_mul_of_nonneg_right this hV

/-! ### the exact identity is FALSE on the series side (the two truncations differ) -/

/-- the witness: `ω = (10⁻⁵, 0, 0)`, `v₁ = (0, 1, 0)`, `v₂ = 0` -/
noncomputable def wit : T2 := .of (fun i => if i.val = 1 then 1 else if i.val = 6 then 1 / 100000 else 0)

theorem wit_tw : SEK3.tw 2 wit = mk3 (1 / 100000) 0 0 := by
  ext i; fin_cases i <;> simp [SEK3.tw, wit, mk3, Vec.of]

theorem wit_tv0 : SEK3.tv 2 wit 0 = mk3 0 1 0 := by
  ext i; fin_cases i <;> simp [SEK3.tv, wit, mk3, Vec.of]

theorem wit_n : sqNorm (SEK3.tw 2 wit) = 1 / 10000000000 := by
  rw [wit_tw, sqNorm3]; simp [mk3, Vec.of]; norm_num

theorem sek2_exp_not_exact : Conv.sek2_to_gal (SEK3.exp 2 wit) ≠ Galilei.exp (Conv.sek2T_to_gal wit) := by
  intro h
  have h2 := congrArg (fun v : Vec ℝ 11 => v 2) h
  unfold SEK3.exp Galilei.exp at h2
  simp only [mkG2, tw2, tb2, tq2, ts2, memoM_eq, memoV_eq] at h2
  have e : ∀ (P : Mat ℝ 3 3), mulVec P (SEK3.tv 2 wit 0) 2 = P 2 1 := by
    intro P; rw [wit_tv0]; simp [mulVec, vsum, mk3, Vec.of]
  have h3 : (mmul (SO3.Ad (SO3.exp (SEK3.tw 2 wit))) (SO3.dr_exp (SEK3.tw 2 wit))) 2 1
      = (SO3.calc_S1 (SEK3.tw 2 wit)) 2 1 := by
    simpa [Galilei.mkG, Vec.of, e] using h2
  have h4 := P_sub_S1 (SEK3.tw 2 wit) 2 1
  rw [h3, sub_self, wit_n] at h4
  have hlt : (1 / 10000000000 : ℝ) < Scalar.eps2 := by rw [C02.scalar_eps2]; norm_num
  have gA : ∀ n : ℝ, n < Scalar.eps2 → (SO3.expAB n).1 = 1 / 2 - n / 48 ∧ (SO3.expAB n).2 = 1 - n / 8
      ∧ Trig.cos_2 n = -1 / 2 + n / 24 - n * n / 720 ∧ Trig.sin_3 n = -1 / 6 + n / 120 - n * n / 5040 := by
    intro n hn
    refine ⟨by simp [SO3.expAB, hn], by simp [SO3.expAB, hn], by simp [Trig.cos_2, not_lt.2 hn.le],
      by simp [Trig.sin_3, not_lt.2 hn.le]⟩
  obtain ⟨hA, hB, hc, hs⟩ := gA _ hlt
  have hM : (SO3.hat (SEK3.tw 2 wit)) 2 1 = 1 / 100000 := by rw [wit_tw]; simp [SO3.hat, mat3, mk3, Vec.of]
  have hMM : (mmul (SO3.hat (SEK3.tw 2 wit)) (SO3.hat (SEK3.tw 2 wit))) 2 1 = 0 := by
    rw [wit_tw, mmul3]; simp [SO3.hat, mat3, mk3, Vec.of]
  rw [hA, hB, hc, hs, hM, hMM] at h4
  simp only [E1, E2] at h4
  norm_num at h4

end C17P
