/-
  C02Series3.lean — SE3, SE_K_3, Galilei in the series zone `0 < ‖ω‖² ≤ eps2`: entrywise distance
  of `matrix (exp a)` to the true matrix exponential `≤ ‖ω‖⁴·‖ω‖·(1 + ‖a‖∞)` (Galilei: an extra
  factor `(1 + ‖a‖∞)` for the `τ·S₂` term); uniform statements for every `a`.
-/
import SmoothProofs.C02Series2

open Lin Scalar

namespace C02

theorem rodCurve_one (x y z θ : ℝ) :
    rodCurve x y z θ 1 = rodrigues (Real.sin θ / θ) ((1 - Real.cos θ) / (θ * θ)) x y z := by
  simp [rodCurve]

theorem pCurve_one (x y z θ : ℝ) (v : Fin 3 → ℝ) :
    pCurve x y z θ v 1
      = (rodrigues ((1 - Real.cos θ) / (θ * θ)) ((θ - Real.sin θ) / (θ * θ * θ)) x y z).mulVec v := by
  rw [rodrigues_mulVec]; simp [pCurve]

theorem wCurve_one (x y z θ : ℝ) (b : Fin 3 → ℝ) :
    wCurve x y z θ b 1
      = ((1/2 : ℝ) • (1 : Matrix (Fin 3) (Fin 3) ℝ)
          + ((θ - Real.sin θ) / (θ * θ * θ)) • K3 x y z
          + ((θ * θ / 2 + Real.cos θ - 1) / (θ * θ * (θ * θ))) • (K3 x y z * K3 x y z)).mulVec b := by
  simp [wCurve, Matrix.add_mulVec, Matrix.smul_mulVec, Matrix.mulVec_mulVec]

/-- the common bound: `8·(t²/100)·(θ + t) ≤ t²·θ/6` for `θ² = t`, `θ ≤ 1` -/
theorem series_bound_simplify (t θ : ℝ) (hθ0 : 0 ≤ θ) (hθ1 : θ ≤ 1) (hθθ : θ * θ = t) :
    8 * (t ^ 2 / 100) * (θ + t) ≤ t ^ 2 * θ / 6 := by
  have ht : t ≤ θ := by rw [← hθθ]; nlinarith
  have h2 : 0 ≤ t ^ 2 := by positivity
  nlinarith [mul_le_mul_of_nonneg_left ht h2, mul_nonneg h2 hθ0]

/-- **SE3, series zone**: entrywise distance to the true matrix exponential. -/
theorem se3_exp_series_error (a : Vec ℝ 6) (h0 : 0 < sqNorm (SE3.tw a))
    (h1 : sqNorm (SE3.tw a) ≤ Scalar.eps2) (M : ℝ) (hM : ∀ k, |a k| ≤ M) (i j : Fin 4) :
    |toM (SE3.matrix (SE3.exp a)) i j - (NormedSpace.exp (toM (SE3.hat a))) i j|
      ≤ sqNorm (SE3.tw a) ^ 2 * Real.sqrt (sqNorm (SE3.tw a)) * (1 + M) := by
  obtain ⟨hs0, hs1, hs2⟩ := sqrt_small h0 h1
  obtain ⟨hR, hRJ, _, _⟩ := so3_series_pack (SE3.tw a) h0 h1 _ rfl
  have hx : (SE3.tw a) 0 = a 3 := rfl
  have hy : (SE3.tw a) 1 = a 4 := rfl
  have hz : (SE3.tw a) 2 = a 5 := rfl
  rw [hx, hy, hz] at hR hRJ
  set t := sqNorm (SE3.tw a) with ht
  set θ := Real.sqrt t with hθ
  have hθθ : θ * θ = t := by rw [← sq]; exact hs2
  have hn : θ * θ = a 3 * a 3 + a 4 * a 4 + a 5 * a 5 := by
    rw [hθθ, ht, sqNorm3, hx, hy, hz]
  have hB := series_bound_simplify t θ hs0.le hs1 hθθ
  have hM0 : 0 ≤ M := (abs_nonneg _).trans (hM 0)
  have hpos : 0 ≤ t ^ 2 * θ := by positivity
  rw [se3_exp_unfold, se3_matrix_mk7, se3_hat_toM, ← se3_curve_eq_exp _ _ _ θ _ hs0.ne' hn,
    rodCurve_one, pCurve_one, mulVec3_get, toM_mmul3]
  by_cases hi : i.val < 3
  · by_cases hj : j.val < 3
    · simp only [blk4, hi, hj, dif_pos]
      refine (hR ⟨i.val, hi⟩ ⟨j.val, hj⟩).trans (hB.trans ?_)
      nlinarith
    · simp only [blk4, hi, hj, dif_pos, dif_neg, not_false_eq_true]
      have hv : ∀ k, |(SE3.tv a).get k| ≤ M := by
        intro k; fin_cases k
        · exact hM 0
        · exact hM 1
        · exact hM 2
      refine (mulVec_diff_le _ _ _ M hRJ _ hv ⟨i.val, hi⟩).trans ?_
      have := mul_le_mul_of_nonneg_right hB hM0
      nlinarith
  · by_cases hj : j.val < 3
    · simp only [blk4, hi, hj, dif_neg, not_false_eq_true, if_true, sub_self, abs_zero]
      nlinarith
    · simp only [blk4, hi, hj, dif_neg, not_false_eq_true, if_false, sub_self, abs_zero]
      nlinarith


theorem sqNorm3_eq_zero (w : Vec ℝ 3) (h : sqNorm w = 0) : w 0 = 0 ∧ w 1 = 0 ∧ w 2 = 0 := by
  rw [sqNorm3] at h
  refine ⟨?_, ?_, ?_⟩ <;>
    nlinarith [mul_self_nonneg (w 0), mul_self_nonneg (w 1), mul_self_nonneg (w 2)]

/-- `t²·θ ≤ 1e-20` on the series zone -/
theorem series_zone_small (t : ℝ) (h0 : 0 < t) (h1 : t ≤ Scalar.eps2) :
    t ^ 2 * Real.sqrt t ≤ 1 / 10 ^ 20 := by
  obtain ⟨hs0, _, hs2⟩ := sqrt_small h0 h1
  have he : t ≤ 1 / 100000000 := by rw [← scalar_eps2]; exact h1
  have hθ : Real.sqrt t ≤ 1 / 10000 := by
    have : Real.sqrt t ^ 2 ≤ (1 / 10000 : ℝ) ^ 2 := by rw [hs2]; norm_num; linarith
    exact le_of_sq_le_sq this (by norm_num) |> fun h => h
  have ht2 : t ^ 2 ≤ (1 / 100000000 : ℝ) ^ 2 := pow_le_pow_left₀ h0.le he 2
  calc t ^ 2 * Real.sqrt t ≤ (1 / 100000000 : ℝ) ^ 2 * (1 / 10000) :=
        mul_le_mul ht2 hθ hs0.le (by positivity)
    _ = 1 / 10 ^ 20 := by norm_num

/-- **SE3, every tangent vector**: entrywise `≤ 1e-20·(1 + ‖a‖∞)` (exact arithmetic). -/
theorem se3_exp_is_matrix_exp_uniform (a : Vec ℝ 6) (M : ℝ) (hM : ∀ k, |a k| ≤ M) (i j : Fin 4) :
    |toM (SE3.matrix (SE3.exp a)) i j - (NormedSpace.exp (toM (SE3.hat a))) i j|
      ≤ 1 / 10 ^ 20 * (1 + M) := by
  have hM0 : 0 ≤ M := (abs_nonneg _).trans (hM 0)
  have hnn : (0:ℝ) ≤ 1 / 10 ^ 20 * (1 + M) := by positivity
  by_cases hc : Scalar.eps2 < sqNorm (SE3.tw a)
  · rw [se3_exp_is_matrix_exp_closed a hc, sub_self, abs_zero]; exact hnn
  · rcases (sqNorm3_nonneg (SE3.tw a)).lt_or_eq with h0 | h0
    · refine (se3_exp_series_error a h0 (not_lt.1 hc) M hM i j).trans ?_
      exact mul_le_mul_of_nonneg_right (series_zone_small _ h0 (not_lt.1 hc)) (by linarith)
    · obtain ⟨z0, z1, z2⟩ := sqNorm3_eq_zero _ h0.symm
      rw [se3_exp_is_matrix_exp_zero a z0 z1 z2, sub_self, abs_zero]; exact hnn

/-- **SE_K_3 (every K), series zone**. -/
theorem sek3_exp_series_error (k : Nat) (a : Vec ℝ (3 + 3 * k)) (h0 : 0 < sqNorm (SEK3.tw k a))
    (h1 : sqNorm (SEK3.tw k a) ≤ Scalar.eps2) (M : ℝ) (hM0 : 0 ≤ M) (hM : ∀ idx, |a idx| ≤ M)
    (i j : Fin (3 + k)) :
    |toM (SEK3.matrix k (SEK3.exp k a)) i j - (NormedSpace.exp (toM (SEK3.hat k a))) i j|
      ≤ sqNorm (SEK3.tw k a) ^ 2 * Real.sqrt (sqNorm (SEK3.tw k a)) * (1 + M) := by
  obtain ⟨hs0, hs1, hs2⟩ := sqrt_small h0 h1
  obtain ⟨hR, hRJ, _, _⟩ := so3_series_pack (SEK3.tw k a) h0 h1 _ rfl
  set t := sqNorm (SEK3.tw k a) with ht
  set θ := Real.sqrt t with hθ
  have hθθ : θ * θ = t := by rw [← sq]; exact hs2
  have hn : θ * θ = (SEK3.tw k a) 0 * (SEK3.tw k a) 0 + (SEK3.tw k a) 1 * (SEK3.tw k a) 1
      + (SEK3.tw k a) 2 * (SEK3.tw k a) 2 := by rw [hθθ, ht, sqNorm3]
  have hB := series_bound_simplify t θ hs0.le hs1 hθθ
  have hpos : 0 ≤ t ^ 2 * θ := by positivity
  rw [sek3_exp_unfold, sek3_matrix_mkG, sek3_hat_toM, ← sek3_curve_eq_exp _ _ _ θ _ hs0.ne' hn,
    rodCurve_one]
  by_cases hi : i.val < 3
  · by_cases hj : j.val < 3
    · simp only [blkK, hi, hj, dif_pos]
      refine (hR ⟨i.val, hi⟩ ⟨j.val, hj⟩).trans (hB.trans ?_)
      nlinarith
    · simp only [blkK, hi, hj, dif_pos, dif_neg, not_false_eq_true, vMat, pMat, pCurve_one,
        mulVec3_get, toM_mmul3]
      have hv : ∀ c, |(SEK3.tv k a ⟨j.val - 3, by omega⟩).get c| ≤ M := fun c => hM _
      refine (mulVec_diff_le _ _ _ M hRJ _ hv ⟨i.val, hi⟩).trans ?_
      have := mul_le_mul_of_nonneg_right hB hM0
      nlinarith
  · by_cases hj : j.val < 3
    · simp only [blkK, hi, hj, dif_neg, not_false_eq_true, dif_pos, sub_self, abs_zero]
      nlinarith
    · simp only [blkK, hi, hj, dif_neg, not_false_eq_true, sub_self, abs_zero]
      nlinarith

/-- **SE_K_3, every K, every tangent vector**. -/
theorem sek3_exp_is_matrix_exp_uniform (k : Nat) (a : Vec ℝ (3 + 3 * k)) (M : ℝ) (hM0 : 0 ≤ M)
    (hM : ∀ idx, |a idx| ≤ M) (i j : Fin (3 + k)) :
    |toM (SEK3.matrix k (SEK3.exp k a)) i j - (NormedSpace.exp (toM (SEK3.hat k a))) i j|
      ≤ 1 / 10 ^ 20 * (1 + M) := by
  have hnn : (0:ℝ) ≤ 1 / 10 ^ 20 * (1 + M) := by positivity
  by_cases hc : Scalar.eps2 < sqNorm (SEK3.tw k a)
  · rw [sek3_exp_is_matrix_exp_closed k a hc, sub_self, abs_zero]; exact hnn
  · rcases (sqNorm3_nonneg (SEK3.tw k a)).lt_or_eq with h0 | h0
    · refine (sek3_exp_series_error k a h0 (not_lt.1 hc) M hM0 hM i j).trans ?_
      exact mul_le_mul_of_nonneg_right (series_zone_small _ h0 (not_lt.1 hc)) (by linarith)
    · obtain ⟨z0, z1, z2⟩ := sqNorm3_eq_zero _ h0.symm
      rw [sek3_exp_is_matrix_exp_zero k a z0 z1 z2, sub_self, abs_zero]; exact hnn


/-- **Galilei, series zone**: entrywise distance `≤ ‖ω‖⁴·‖ω‖·(1 + ‖a‖∞)²`. -/
theorem galilei_exp_series_error (a : Vec ℝ 10) (h0 : 0 < sqNorm (Galilei.tw a))
    (h1 : sqNorm (Galilei.tw a) ≤ Scalar.eps2) (M : ℝ) (hM : ∀ k, |a k| ≤ M) (i j : Fin 5) :
    |toM (Galilei.matrix (Galilei.exp a)) i j - (NormedSpace.exp (toM (Galilei.hat a))) i j|
      ≤ sqNorm (Galilei.tw a) ^ 2 * Real.sqrt (sqNorm (Galilei.tw a)) * ((1 + M) * (1 + M)) := by
  obtain ⟨hs0, hs1, hs2⟩ := sqrt_small h0 h1
  obtain ⟨hR, _, hS1, hS2⟩ := so3_series_pack (Galilei.tw a) h0 h1 _ rfl
  have hx : (Galilei.tw a) 0 = a 7 := rfl
  have hy : (Galilei.tw a) 1 = a 8 := rfl
  have hz : (Galilei.tw a) 2 = a 9 := rfl
  rw [hx, hy, hz] at hR hS1 hS2
  set t := sqNorm (Galilei.tw a) with ht
  set θ := Real.sqrt t with hθ
  have hθθ : θ * θ = t := by rw [← sq]; exact hs2
  have hn : θ * θ = a 7 * a 7 + a 8 * a 8 + a 9 * a 9 := by rw [hθθ, ht, sqNorm3, hx, hy, hz]
  have hB := series_bound_simplify t θ hs0.le hs1 hθθ
  have hM0 : 0 ≤ M := (abs_nonneg _).trans (hM 0)
  have hpos : 0 ≤ t ^ 2 * θ := by positivity
  set B := 8 * (t ^ 2 / 100) * (θ + t) with hBdef
  have hB0 : 0 ≤ B := by positivity
  have hts : Galilei.ts a = a 6 := rfl
  have hτ : |a 6| ≤ M := hM 6
  have hb : ∀ k, |(Galilei.tb a).get k| ≤ M := by
    intro k; fin_cases k
    · exact hM 0
    · exact hM 1
    · exact hM 2
  have hq : ∀ k, |(Galilei.tq a).get k| ≤ M := by
    intro k; fin_cases k
    · exact hM 3
    · exact hM 4
    · exact hM 5
  have hBM : 3 * (B * M) ≤ t ^ 2 * θ * M / 2 := by
    have := mul_le_mul_of_nonneg_right hB hM0; nlinarith
  have hfin0 : t ^ 2 * θ * M / 2 ≤ t ^ 2 * θ * ((1 + M) * (1 + M)) := by
    have : 0 ≤ t ^ 2 * θ * M := by positivity
    nlinarith [mul_nonneg hpos (mul_self_nonneg M), mul_nonneg hpos hM0]
  have hnn : 0 ≤ t ^ 2 * θ * ((1 + M) * (1 + M)) := by positivity
  rw [galilei_exp_unfold, galilei_matrix_mkG, galilei_hat_toM, hts,
    ← galilei_curve_eq_exp _ _ _ θ _ _ _ hs0.ne' hn, rodCurve_one]
  by_cases hi : i.val < 3
  · by_cases hj : j.val < 3
    · simp only [blkK, hi, hj, dif_pos]
      refine (hR ⟨i.val, hi⟩ ⟨j.val, hj⟩).trans (hB.trans ?_)
      nlinarith [mul_nonneg hpos (mul_self_nonneg M), mul_nonneg hpos hM0]
    · have hj34 : j.val = 3 ∨ j.val = 4 := by have := j.isLt; omega
      rcases hj34 with h3 | h4
      · have hj' : (⟨j.val - 3, by omega⟩ : Fin 2) = 0 := Fin.ext (by simp [h3])
        simp only [blkK, hi, hj, dif_pos, dif_neg, not_false_eq_true, hj', vMat2, cMat, if_true,
          pCurve_one, mulVec3_get]
        exact ((mulVec_diff_le _ _ _ M hS1 _ hb ⟨i.val, hi⟩).trans hBM).trans hfin0
      · have hj' : (⟨j.val - 3, by omega⟩ : Fin 2) = 1 := Fin.ext (by simp [h4])
        have h10 : ((1 : Fin 2) = 0) = False := by simp
        simp only [blkK, hi, hj, dif_pos, dif_neg, not_false_eq_true, hj', vMat2, cMat, h10,
          if_false, pCurve_one, wCurve_one, Vec.of_get]
        have e1 := congrFun (mulVec3_get (SO3.calc_S1 (Galilei.tw a)) (Galilei.tq a)) ⟨i.val, hi⟩
        have e2 := congrFun (mulVec3_get (SO3.calc_S2 (Galilei.tw a)) (Galilei.tb a)) ⟨i.val, hi⟩
        rw [e1, e2]
        have d1 := mulVec_diff_le _ _ _ M hS1 _ hq ⟨i.val, hi⟩
        have d2 := mulVec_diff_le _ _ _ M hS2 _ hb ⟨i.val, hi⟩
        set P := (toM (SO3.calc_S1 (Galilei.tw a))).mulVec (Galilei.tq a).get ⟨i.val, hi⟩
        set P' := (rodrigues ((1 - Real.cos θ) / (θ * θ)) ((θ - Real.sin θ) / (θ * θ * θ))
          (a 7) (a 8) (a 9)).mulVec (Galilei.tq a).get ⟨i.val, hi⟩
        set Q := (toM (SO3.calc_S2 (Galilei.tw a))).mulVec (Galilei.tb a).get ⟨i.val, hi⟩
        set Q' := ((1 / 2 : ℝ) • (1 : Matrix (Fin 3) (Fin 3) ℝ)
          + ((θ - Real.sin θ) / (θ * θ * θ)) • K3 (a 7) (a 8) (a 9)
          + ((θ * θ / 2 + Real.cos θ - 1) / (θ * θ * (θ * θ)))
              • (K3 (a 7) (a 8) (a 9) * K3 (a 7) (a 8) (a 9))).mulVec (Galilei.tb a).get ⟨i.val, hi⟩
        have : P + Q * a 6 - (P' + a 6 * Q') = (P - P') + (Q - Q') * a 6 := by ring
        rw [this]
        have hQ : |(Q - Q') * a 6| ≤ 3 * (B * M) * M := by
          rw [abs_mul]; exact mul_le_mul d2 hτ (abs_nonneg _) (by positivity)
        have := mul_le_mul_of_nonneg_right hBM hM0
        calc |(P - P') + (Q - Q') * a 6| ≤ |P - P'| + |(Q - Q') * a 6| := abs_add_le _ _
          _ ≤ 3 * (B * M) + 3 * (B * M) * M := add_le_add d1 hQ
          _ ≤ t ^ 2 * θ * M / 2 + t ^ 2 * θ * M / 2 * M := by linarith
          _ ≤ _ := by nlinarith [mul_nonneg hpos (mul_self_nonneg M), mul_nonneg hpos hM0]
  · by_cases hj : j.val < 3
    · simp only [blkK, hi, hj, dif_neg, not_false_eq_true, dif_pos, sub_self, abs_zero]
      exact hnn
    · simp only [blkK, hi, hj, dif_neg, not_false_eq_true, sub_self, abs_zero]
      exact hnn

/-- **Galilei, every tangent vector**: entrywise `≤ 1e-20·(1 + ‖a‖∞)²` (exact arithmetic). -/
theorem galilei_exp_is_matrix_exp_uniform (a : Vec ℝ 10) (M : ℝ) (hM : ∀ k, |a k| ≤ M)
    (i j : Fin 5) :
    |toM (Galilei.matrix (Galilei.exp a)) i j - (NormedSpace.exp (toM (Galilei.hat a))) i j|
      ≤ 1 / 10 ^ 20 * ((1 + M) * (1 + M)) := by
  have hM0 : 0 ≤ M := (abs_nonneg _).trans (hM 0)
  have hnn : (0:ℝ) ≤ 1 / 10 ^ 20 * ((1 + M) * (1 + M)) := by positivity
  by_cases hc : Scalar.eps2 < sqNorm (Galilei.tw a)
  · rw [galilei_exp_is_matrix_exp_closed a hc, sub_self, abs_zero]; exact hnn
  · rcases (sqNorm3_nonneg (Galilei.tw a)).lt_or_eq with h0 | h0
    · refine (galilei_exp_series_error a h0 (not_lt.1 hc) M hM i j).trans ?_
      exact mul_le_mul_of_nonneg_right (series_zone_small _ h0 (not_lt.1 hc)) (by positivity)
    · obtain ⟨z0, z1, z2⟩ := sqNorm3_eq_zero _ h0.symm
      rw [galilei_exp_is_matrix_exp_zero a z0 z1 z2, sub_self, abs_zero]; exact hnn

end C02
