/-
  C04SeriesSE3.lean — SE3, closed branch: `dr_exp a = Σ_k (−1)^k ad(a)^k/(k+1)!` entrywise (HasSum).

  `X = ad a = [[W, V],[0, W]]` satisfies `X²·Y = −n·Y` with `Y = X⁴ + n·X²` (`n = |ω|²`), hence
  `X^(2m+2) = (−n)^m·X² + m(−n)^m·Y'`, `Y' = −Y/n`; the series splits into four scalar series
  (`Σ(−1)^m n^m/(2m+3)!`, `/(2m+4)!` and their `m`-weighted versions), all obtained from the cos / sin
  series; the resulting closed form is compared with the model's blocks `J`, `calculate_q(−v,−ω)`.
-/
import SmoothProofs.C04Series
import SmoothProofs.C04SE3
import SmoothProofs.C01Block
import SmoothProofs.C04SEK3
import SmoothProofs.C05dQBase
import Mathlib.Tactic.Module

open Lin Scalar

namespace C04SeriesSE3
open C04Alg C04SO3 C04Series

/-! ### scalar series -/

/-- `Σ_m (−1)^m θ^{2m}/(2m+4)! = (cos θ − 1 + θ²/2)/θ⁴` -/
theorem hasSum_cos_shift2 {θ : ℝ} (hθ : θ ≠ 0) :
    HasSum (fun m : ℕ => (-1 : ℝ) ^ m * (θ ^ 2) ^ m / ((2 * m + 4).factorial : ℝ))
      ((Real.cos θ - 1 + θ ^ 2 / 2) / (θ ^ 2 * θ ^ 2)) := by
  have h := (hasSum_nat_add_iff' 2).2 (Real.hasSum_cos θ)
  simp only [Finset.sum_range_succ, Finset.sum_range_zero, mul_zero, pow_zero, Nat.factorial_zero,
    Nat.cast_one, div_one, mul_one, zero_add, pow_one] at h
  have h2 := h.mul_left (1 / (θ ^ 2 * θ ^ 2))
  have hf : (fun m : ℕ => (-1 : ℝ) ^ m * (θ ^ 2) ^ m / ((2 * m + 4).factorial : ℝ))
      = (fun i : ℕ => 1 / (θ ^ 2 * θ ^ 2)
          * ((-1) ^ (i + 2) * θ ^ (2 * (i + 2)) / ((2 * (i + 2)).factorial : ℝ))) := by
    funext m
    rw [show 2 * (m + 2) = 2 * m + 4 by ring]
    have hfac : ((2 * m + 4).factorial : ℝ) ≠ 0 := Nat.cast_ne_zero.2 (Nat.factorial_ne_zero _)
    field_simp
    ring
  rw [hf]
  have e : (Real.cos θ - 1 + θ ^ 2 / 2) / (θ ^ 2 * θ ^ 2)
      = 1 / (θ ^ 2 * θ ^ 2) * (Real.cos θ - (1 + -1 * θ ^ 2 / ((Nat.factorial 2 : ℕ) : ℝ))) := by
    simp [Nat.factorial]; ring
  rw [e]
  exact h2

theorem fac3 (m : ℕ) : ((2 * m + 3).factorial : ℝ) = (2 * (m : ℝ) + 3) * ((2 * m + 2).factorial : ℝ) := by
  rw [show 2 * m + 3 = (2 * m + 2) + 1 by ring, Nat.factorial_succ]; push_cast; ring

theorem fac4 (m : ℕ) : ((2 * m + 4).factorial : ℝ) = (2 * (m : ℝ) + 4) * ((2 * m + 3).factorial : ℝ) := by
  rw [show 2 * m + 4 = (2 * m + 3) + 1 by ring, Nat.factorial_succ]; push_cast; ring

/-- `m/(2m+3)! = ½/(2m+2)! − (3/2)/(2m+3)!`, summed: `Σ_m m(−1)^m θ^{2m}/(2m+3)!` -/
theorem hasSum_w3 {θ : ℝ} (hθ : θ ≠ 0) :
    HasSum (fun m : ℕ => (m : ℝ) * ((-1 : ℝ) ^ m * (θ ^ 2) ^ m / ((2 * m + 3).factorial : ℝ)))
      (1 / 2 * ((1 - Real.cos θ) / θ ^ 2) - 3 / 2 * ((θ - Real.sin θ) / (θ ^ 2 * θ))) := by
  have h := ((hasSum_cos_shift hθ).mul_left (1 / 2)).sub ((hasSum_sin_shift hθ).mul_left (3 / 2))
  have hf : (fun m : ℕ => (m : ℝ) * ((-1 : ℝ) ^ m * (θ ^ 2) ^ m / ((2 * m + 3).factorial : ℝ)))
      = (fun m : ℕ => 1 / 2 * ((-1 : ℝ) ^ m * (θ ^ 2) ^ m / ((2 * m + 2).factorial : ℝ))
          - 3 / 2 * ((-1 : ℝ) ^ m * (θ ^ 2) ^ m / ((2 * m + 3).factorial : ℝ))) := by
    funext m
    have h2 : ((2 * m + 2).factorial : ℝ) ≠ 0 := Nat.cast_ne_zero.2 (Nat.factorial_ne_zero _)
    have h3 : (2 * (m : ℝ) + 3) ≠ 0 := by positivity
    rw [fac3]
    field_simp
    ring
  rw [hf]
  exact h

/-- `m/(2m+4)! = ½/(2m+3)! − 2/(2m+4)!`, summed -/
theorem hasSum_w4 {θ : ℝ} (hθ : θ ≠ 0) :
    HasSum (fun m : ℕ => (m : ℝ) * ((-1 : ℝ) ^ m * (θ ^ 2) ^ m / ((2 * m + 4).factorial : ℝ)))
      (1 / 2 * ((θ - Real.sin θ) / (θ ^ 2 * θ))
        - 2 * ((Real.cos θ - 1 + θ ^ 2 / 2) / (θ ^ 2 * θ ^ 2))) := by
  have h := ((hasSum_sin_shift hθ).mul_left (1 / 2)).sub ((hasSum_cos_shift2 hθ).mul_left 2)
  have hf : (fun m : ℕ => (m : ℝ) * ((-1 : ℝ) ^ m * (θ ^ 2) ^ m / ((2 * m + 4).factorial : ℝ)))
      = (fun m : ℕ => 1 / 2 * ((-1 : ℝ) ^ m * (θ ^ 2) ^ m / ((2 * m + 3).factorial : ℝ))
          - 2 * ((-1 : ℝ) ^ m * (θ ^ 2) ^ m / ((2 * m + 4).factorial : ℝ))) := by
    funext m
    have h3 : ((2 * m + 3).factorial : ℝ) ≠ 0 := Nat.cast_ne_zero.2 (Nat.factorial_ne_zero _)
    have h4 : (2 * (m : ℝ) + 4) ≠ 0 := by positivity
    rw [fac4]
    field_simp
    ring
  rw [hf]
  exact h

/-! ### powers of an element with `X²·Y' = −n·Y'`, `X⁴ = −n·(Y' + X²)` -/

section powers
variable {d : Nat} (X Y' : Matrix (Fin d) (Fin d) ℝ) (n : ℝ)

theorem pow_even (h4 : X ^ 2 * X ^ 2 = (-n) • (Y' + X ^ 2)) (hY : X ^ 2 * Y' = (-n) • Y') :
    ∀ m : ℕ, X ^ (2 * m + 2) = (-n) ^ m • X ^ 2 + ((m : ℝ) * (-n) ^ m) • Y'
  | 0 => by simp
  | m + 1 => by
    have ih := pow_even h4 hY m
    calc X ^ (2 * (m + 1) + 2) = X ^ 2 * X ^ (2 * m + 2) := by
          rw [← pow_add]; congr 1; ring
      _ = (-n) ^ m • (X ^ 2 * X ^ 2) + ((m : ℝ) * (-n) ^ m) • (X ^ 2 * Y') := by
          rw [ih, Matrix.mul_add, Matrix.mul_smul, Matrix.mul_smul]
      _ = (-n) ^ (m + 1) • X ^ 2 + (((m + 1 : ℕ) : ℝ) * (-n) ^ (m + 1)) • Y' := by
          rw [h4, hY, pow_succ]
          push_cast
          module

theorem pow_odd (h4 : X ^ 2 * X ^ 2 = (-n) • (Y' + X ^ 2)) (hY : X ^ 2 * Y' = (-n) • Y') (m : ℕ) :
    X ^ (2 * m + 3) = (-n) ^ m • (X * X ^ 2) + ((m : ℝ) * (-n) ^ m) • (X * Y') := by
  rw [show 2 * m + 3 = 1 + (2 * m + 2) by ring, pow_add, pow_one, pow_even X Y' n h4 hY m,
    Matrix.mul_add, Matrix.mul_smul, Matrix.mul_smul]

end powers

/-! ### the series for such an element -/

section series
variable {d : Nat} (X Y' : Matrix (Fin d) (Fin d) ℝ) (n : ℝ)

/-- the `k`-th term of the series, entry `(j, r)` -/
noncomputable def termD (M : Matrix (Fin d) (Fin d) ℝ) (j r : Fin d) (k : ℕ) : ℝ :=
  (-1 : ℝ) ^ k / ((k + 1).factorial : ℝ) * (M ^ k) j r

theorem neg_one_pow_odd3 (m : ℕ) : (-1 : ℝ) ^ (2 * m + 3) = -1 := by
  rw [show 2 * m + 3 = 2 * (m + 1) + 1 by ring]; exact neg_one_pow_odd (m + 1)

theorem term_even (h4 : X ^ 2 * X ^ 2 = (-n) • (Y' + X ^ 2)) (hY : X ^ 2 * Y' = (-n) • Y')
    (j r : Fin d) (m : ℕ) :
    termD X j r (2 * m + 2)
      = ((-1 : ℝ) ^ m * n ^ m / ((2 * m + 3).factorial : ℝ)) * (X ^ 2) j r
        + ((m : ℝ) * ((-1 : ℝ) ^ m * n ^ m / ((2 * m + 3).factorial : ℝ))) * Y' j r := by
  simp only [termD, pow_even X Y' n h4 hY, neg_one_pow_even, Matrix.add_apply, Matrix.smul_apply,
    smul_eq_mul, neg_pow n]
  rw [show 2 * m + 2 + 1 = 2 * m + 3 by ring]
  ring

theorem term_odd (h4 : X ^ 2 * X ^ 2 = (-n) • (Y' + X ^ 2)) (hY : X ^ 2 * Y' = (-n) • Y')
    (j r : Fin d) (m : ℕ) :
    termD X j r (2 * m + 1 + 2)
      = -(((-1 : ℝ) ^ m * n ^ m / ((2 * m + 4).factorial : ℝ)) * (X * X ^ 2) j r)
        - ((m : ℝ) * ((-1 : ℝ) ^ m * n ^ m / ((2 * m + 4).factorial : ℝ))) * (X * Y') j r := by
  rw [show 2 * m + 1 + 2 = 2 * m + 3 by ring]
  simp only [termD, pow_odd X Y' n h4 hY, neg_one_pow_odd3, Matrix.add_apply, Matrix.smul_apply,
    smul_eq_mul, neg_pow n]
  rw [show 2 * m + 3 + 1 = 2 * m + 4 by ring]
  ring

theorem hasSum_of_rel (h4 : X ^ 2 * X ^ 2 = (-n) • (Y' + X ^ 2)) (hY : X ^ 2 * Y' = (-n) • Y')
    {θ : ℝ} (hθ : θ ≠ 0) (hsq : θ ^ 2 = n) (j r : Fin d) :
    HasSum (termD X j r)
      (((θ - Real.sin θ) / (n * θ) * (X ^ 2) j r
          + (1 / 2 * ((1 - Real.cos θ) / n) - 3 / 2 * ((θ - Real.sin θ) / (n * θ))) * Y' j r)
        + (-((Real.cos θ - 1 + n / 2) / (n * n) * (X * X ^ 2) j r)
          - (1 / 2 * ((θ - Real.sin θ) / (n * θ)) - 2 * ((Real.cos θ - 1 + n / 2) / (n * n)))
              * (X * Y') j r)
        + ((1 : Matrix (Fin d) (Fin d) ℝ) j r + -(1 / 2) * X j r)) := by
  have hβ := (hasSum_sin_shift hθ).mul_right ((X ^ 2) j r)
  have hβ1 := (hasSum_w3 hθ).mul_right (Y' j r)
  have hγ := ((hasSum_cos_shift2 hθ).mul_right ((X * X ^ 2) j r)).neg
  have hγ1 := (hasSum_w4 hθ).mul_right ((X * Y') j r)
  rw [hsq] at hβ hβ1 hγ hγ1
  have heven : HasSum (fun m : ℕ => termD X j r (2 * m + 2))
      ((θ - Real.sin θ) / (n * θ) * (X ^ 2) j r
          + (1 / 2 * ((1 - Real.cos θ) / n) - 3 / 2 * ((θ - Real.sin θ) / (n * θ))) * Y' j r) := by
    simp only [term_even X Y' n h4 hY]
    exact hβ.add hβ1
  have hodd : HasSum (fun m : ℕ => termD X j r (2 * m + 1 + 2))
      (-((Real.cos θ - 1 + n / 2) / (n * n) * (X * X ^ 2) j r)
          - (1 / 2 * ((θ - Real.sin θ) / (n * θ)) - 2 * ((Real.cos θ - 1 + n / 2) / (n * n)))
              * (X * Y') j r) := by
    simp only [term_odd X Y' n h4 hY]
    exact hγ.sub hγ1
  have hg := HasSum.even_add_odd (f := fun k => termD X j r (k + 2)) heven hodd
  have hf := (hasSum_nat_add_iff 2).1 hg
  have e0 : ∑ i ∈ Finset.range 2, termD X j r i
      = (1 : Matrix (Fin d) (Fin d) ℝ) j r + -(1 / 2) * X j r := by
    simp [termD, Finset.sum_range_succ]
    ring
  rw [e0] at hf
  exact hf

end series

/-! ### SE3: block computations for `X = ad a = [[W, V],[0, W]]` -/

section se3

theorem toM_msmul {n m : Nat} (s : ℝ) (A : Mat ℝ n m) : toM (msmul s A) = s • toM A := by
  ext i j; simp [toM, msmul]

/-- index embeddings of the two 3-blocks of `Fin 6` -/
def il (c : Fin 3) : Fin 6 := ⟨c.val, by omega⟩
def ir (c : Fin 3) : Fin 6 := ⟨3 + c.val, by omega⟩

theorem idx6 (P : Fin 6 → Prop) (hl : ∀ c, P (il c)) (hr : ∀ c, P (ir c)) : ∀ i, P i := by
  intro i
  fin_cases i
  · exact hl 0
  · exact hl 1
  · exact hl 2
  · exact hr 0
  · exact hr 1
  · exact hr 2

variable (A B C D : Mat ℝ 3 3)

theorem blk_ll : ∀ c c', (SE3.blk22 A B C D) (il c) (il c') = A c c' := by
  intro c c'; fin_cases c <;> fin_cases c' <;> simp [SE3.blk22, il]
theorem blk_lr : ∀ c c', (SE3.blk22 A B C D) (il c) (ir c') = B c c' := by
  intro c c'; fin_cases c <;> fin_cases c' <;> simp [SE3.blk22, il, ir]
theorem blk_rl : ∀ c c', (SE3.blk22 A B C D) (ir c) (il c') = C c c' := by
  intro c c'; fin_cases c <;> fin_cases c' <;> simp [SE3.blk22, il, ir]
theorem blk_rr : ∀ c c', (SE3.blk22 A B C D) (ir c) (ir c') = D c c' := by
  intro c c'; fin_cases c <;> fin_cases c' <;> simp [SE3.blk22, ir]

theorem blk22_ext {M N : Mat ℝ 6 6}
    (hll : ∀ c c', M (il c) (il c') = N (il c) (il c')) (hlr : ∀ c c', M (il c) (ir c') = N (il c) (ir c'))
    (hrl : ∀ c c', M (ir c) (il c') = N (ir c) (il c')) (hrr : ∀ c c', M (ir c) (ir c') = N (ir c) (ir c')) :
    M = N := by
  ext i j
  revert i j
  apply idx6
  · intro c; apply idx6
    · exact hll c
    · exact hlr c
  · intro c; apply idx6
    · exact hrl c
    · exact hrr c

theorem blk22_madd (A' B' C' D' : Mat ℝ 3 3) :
    madd (SE3.blk22 A B C D) (SE3.blk22 A' B' C' D')
      = SE3.blk22 (madd A A') (madd B B') (madd C C') (madd D D') := by
  apply blk22_ext <;> intro c c' <;>
    simp only [madd, Mat.of_get, blk_ll, blk_lr, blk_rl, blk_rr]

theorem blk22_msmul (s : ℝ) :
    msmul s (SE3.blk22 A B C D) = SE3.blk22 (msmul s A) (msmul s B) (msmul s C) (msmul s D) := by
  apply blk22_ext <;> intro c c' <;>
    simp only [msmul, Mat.of_get, blk_ll, blk_lr, blk_rl, blk_rr]

theorem blk22_mzero : SE3.blk22 (mzero 3 3) (mzero 3 3) (mzero 3 3) (mzero 3 3) = (mzero 6 6 : Mat ℝ 6 6) := by
  apply blk22_ext <;> intro c c' <;>
    simp only [blk_ll, blk_lr, blk_rl, blk_rr] <;> simp [mzero]

end se3

/-! ### the relation `(X² + n)·X²·(X² + n) = 0` for `X = ad a` -/

section rel
variable (a : Vec ℝ 6)

/-- 3×3 facts: `N = W² + n` annihilates `W` from both sides -/
theorem N_facts (w : Vec ℝ 3) :
    let Ww := toM (SO3.hat w)
    let N := Ww * Ww + sqNorm w • (1 : Matrix (Fin 3) (Fin 3) ℝ)
    N * Ww = 0 ∧ Ww * N = 0 := by
  intro Ww N
  have hc : Ww * Ww * Ww = (-(sqNorm w)) • Ww := C04Series.Mx_cube w
  constructor
  · show (Ww * Ww + sqNorm w • (1 : Matrix (Fin 3) (Fin 3) ℝ)) * Ww = 0
    rw [Matrix.add_mul, hc, Matrix.smul_mul, Matrix.one_mul]; module
  · show Ww * (Ww * Ww + sqNorm w • (1 : Matrix (Fin 3) (Fin 3) ℝ)) = 0
    rw [Matrix.mul_add, ← Matrix.mul_assoc, hc, Matrix.mul_smul, Matrix.mul_one]; module

/-- the blocks of `X²` and of `Zc = X²·(X² + n)` -/
noncomputable def W2 (w : Vec ℝ 3) : Mat ℝ 3 3 := mmul (SO3.hat w) (SO3.hat w)
noncomputable def T2 (v w : Vec ℝ 3) : Mat ℝ 3 3 :=
  madd (mmul (SO3.hat w) (SO3.hat v)) (mmul (SO3.hat v) (SO3.hat w))
noncomputable def Nm (w : Vec ℝ 3) : Mat ℝ 3 3 := madd (W2 w) (msmul (sqNorm w) (ident 3))
noncomputable def Um (v w : Vec ℝ 3) : Mat ℝ 3 3 := madd (mmul (W2 w) (T2 v w)) (mmul (T2 v w) (Nm w))

theorem ad_blocks : SE3.ad a = SE3.blk22 (SO3.hat (SE3.tw a)) (SO3.hat (SE3.tv a)) (mzero 3 3)
    (SO3.hat (SE3.tw a)) := rfl

theorem ad_sq : mmul (SE3.ad a) (SE3.ad a)
    = SE3.blk22 (W2 (SE3.tw a)) (T2 (SE3.tv a) (SE3.tw a)) (mzero 3 3) (W2 (SE3.tw a)) := by
  rw [ad_blocks, C04SE3.blk22_mul]; rfl

theorem ident6 : (ident 6 : Mat ℝ 6 6) = SE3.blk22 (ident 3) (mzero 3 3) (mzero 3 3) (ident 3) :=
  C04SE3.blk22_ident.symm

theorem mzero_smul : msmul (sqNorm (SE3.tw a)) (mzero 3 3 : Mat ℝ 3 3) = mzero 3 3 := by
  ext i j; simp [msmul, mzero]

theorem mzero_add : madd (mzero 3 3 : Mat ℝ 3 3) (mzero 3 3) = mzero 3 3 := by
  ext i j; simp [madd, mzero]

/-- `P = X² + n·1` -/
theorem P_blocks : madd (mmul (SE3.ad a) (SE3.ad a)) (msmul (sqNorm (SE3.tw a)) (ident 6))
    = SE3.blk22 (Nm (SE3.tw a)) (T2 (SE3.tv a) (SE3.tw a)) (mzero 3 3) (Nm (SE3.tw a)) := by
  rw [ad_sq, ident6, blk22_msmul, blk22_madd, mzero_smul, mzero_add]
  congr 1
  ext i j; simp [madd, mzero]

theorem W2N_zero (w : Vec ℝ 3) : mmul (W2 w) (Nm w) = mzero 3 3 := by
  apply toM_inj
  obtain ⟨_, h2⟩ := N_facts w
  simp only [W2, Nm, toM_mmul, toM_madd, toM_msmul, toM_ident, toM_mzero]
  rw [Matrix.mul_assoc, h2, Matrix.mul_zero]

theorem annih {N Ww Vv : Matrix (Fin 3) (Fin 3) ℝ} (h1 : N * Ww = 0) (h2 : Ww * N = 0) :
    N * (Ww * Ww * (Ww * Vv + Vv * Ww) + (Ww * Vv + Vv * Ww) * N) = 0 := by
  have e1 : N * (Ww * Ww * (Ww * Vv + Vv * Ww)) = 0 := by
    rw [← Matrix.mul_assoc, ← Matrix.mul_assoc, h1, Matrix.zero_mul, Matrix.zero_mul]
  have e2 : N * ((Ww * Vv + Vv * Ww) * N) = 0 := by
    rw [Matrix.add_mul, Matrix.mul_add, Matrix.mul_assoc Ww Vv N, ← Matrix.mul_assoc N Ww,
      h1, Matrix.zero_mul, Matrix.mul_assoc Vv Ww N, h2, Matrix.mul_zero, Matrix.mul_zero, add_zero]
  rw [Matrix.mul_add, e1, e2, add_zero]

theorem NU_zero (v w : Vec ℝ 3) : mmul (Nm w) (Um v w) = mzero 3 3 := by
  apply toM_inj
  obtain ⟨h1, h2⟩ := N_facts w
  simp only [Um, W2, T2, Nm, toM_mmul, toM_madd, toM_msmul, toM_ident, toM_mzero]
  exact annih h1 h2

/-- `Zc = X²·P` has only the upper-right block `U` -/
theorem Zc_blocks : mmul (mmul (SE3.ad a) (SE3.ad a))
      (madd (mmul (SE3.ad a) (SE3.ad a)) (msmul (sqNorm (SE3.tw a)) (ident 6)))
    = SE3.blk22 (mzero 3 3) (Um (SE3.tv a) (SE3.tw a)) (mzero 3 3) (mzero 3 3) := by
  rw [P_blocks, ad_sq, C04SE3.blk22_mul, W2N_zero]
  rfl

theorem PZc_zero : mmul (madd (mmul (SE3.ad a) (SE3.ad a)) (msmul (sqNorm (SE3.tw a)) (ident 6)))
      (mmul (mmul (SE3.ad a) (SE3.ad a))
        (madd (mmul (SE3.ad a) (SE3.ad a)) (msmul (sqNorm (SE3.tw a)) (ident 6))))
    = mzero 6 6 := by
  rw [Zc_blocks, P_blocks, C04SE3.blk22_mul, NU_zero]
  have e1 : mmul (Nm (SE3.tw a)) (mzero 3 3) = mzero 3 3 := C04SEK3.mmul_mzero_right _
  have e2 : mmul (T2 (SE3.tv a) (SE3.tw a)) (mzero 3 3) = mzero 3 3 := C04SEK3.mmul_mzero_right _
  rw [e1, e2, mzero_add, blk22_mzero]

end rel

/-! ### HasSum for `X = ad a` with the block value -/

section main
variable (a : Vec ℝ 6)

/-- the coefficient functions of the summed series (`n = θ²`) -/
noncomputable def cβ (θ n : ℝ) : ℝ := (θ - Real.sin θ) / (n * θ)
noncomputable def cβ1 (θ n : ℝ) : ℝ := 1 / 2 * ((1 - Real.cos θ) / n) - 3 / 2 * ((θ - Real.sin θ) / (n * θ))
noncomputable def cγ (θ n : ℝ) : ℝ := (Real.cos θ - 1 + n / 2) / (n * n)
noncomputable def cγ1 (θ n : ℝ) : ℝ :=
  1 / 2 * ((θ - Real.sin θ) / (n * θ)) - 2 * ((Real.cos θ - 1 + n / 2) / (n * n))

theorem ad_hasSum (h : Scalar.eps2 < sqNorm (SE3.tw a)) (j r : Fin 6) :
    let n := sqNorm (SE3.tw a)
    let θ := Real.sqrt n
    let X := toM (SE3.ad a)
    let A := SE3.ad a
    let A2 := mmul A A
    let Zc := SE3.blk22 (mzero 3 3) (Um (SE3.tv a) (SE3.tw a)) (mzero 3 3) (mzero 3 3)
    HasSum (termD X j r)
      ((cβ θ n * A2 j r + cβ1 θ n * ((-1 / n) * Zc j r))
        + (-(cγ θ n * (mmul A A2) j r) - cγ1 θ n * ((-1 / n) * (mmul A Zc) j r))
        + ((ident 6 : Mat ℝ 6 6) j r + -(1 / 2) * A j r)) := by
  intro n θ X A A2 Zc
  obtain ⟨hθ, hsq⟩ := sqrt_facts h
  have hn0 : n ≠ 0 := (lt_trans eps2_pos h).ne'
  have hX2 : X ^ 2 = toM A2 := by rw [pow_two, ← toM_mmul]
  have hZc : X ^ 2 * (X ^ 2 + n • (1 : Matrix (Fin 6) (Fin 6) ℝ)) = toM Zc := by
    rw [hX2, ← toM_ident, ← toM_msmul, ← toM_madd, ← toM_mmul]
    exact congrArg toM (Zc_blocks a)
  have hPZ : (X ^ 2 + n • (1 : Matrix (Fin 6) (Fin 6) ℝ)) * toM Zc = 0 := by
    rw [← hZc, hX2, ← toM_ident, ← toM_msmul, ← toM_madd, ← toM_mmul, ← toM_mmul, ← toM_mzero]
    exact congrArg toM (PZc_zero a)
  have hXZ : X ^ 2 * toM Zc = (-n) • toM Zc := by
    rw [Matrix.add_mul, Matrix.smul_mul, Matrix.one_mul] at hPZ
    have := eq_neg_of_add_eq_zero_left hPZ
    rw [this]; module
  have hZexp : toM Zc = X ^ 2 * X ^ 2 + n • X ^ 2 := by
    rw [← hZc, Matrix.mul_add, Matrix.mul_smul, Matrix.mul_one]
  have h4 : X ^ 2 * X ^ 2 = (-n) • ((-1 / n) • toM Zc + X ^ 2) := by
    rw [hZexp, smul_add, smul_smul, show -n * (-1 / n) = 1 by field_simp]
    module
  have hY : X ^ 2 * ((-1 / n) • toM Zc) = (-n) • ((-1 / n) • toM Zc) := by
    rw [Matrix.mul_smul, hXZ, smul_comm]
  have hs := hasSum_of_rel X ((-1 / n) • toM Zc) n h4 hY hθ hsq j r
  have e1 : X * X ^ 2 = toM (mmul A A2) := by rw [hX2, ← toM_mmul]
  have e2 : X * ((-1 / n) • toM Zc) = (-1 / n) • toM (mmul A Zc) := by
    rw [Matrix.mul_smul, ← toM_mmul]
  rw [e1, e2, hX2] at hs
  simp only [Matrix.smul_apply, smul_eq_mul, toM_apply, Matrix.one_apply] at hs
  simp only [cβ, cβ1, cγ, cγ1, ident_apply]
  exact hs

end main

/-! ### the summed series is the model's `dr_exp` -/

section value
open C05dQ

theorem cos_4_closed {x : ℝ} (h : Scalar.eps2 < x) :
    Trig.cos_4 x = (Real.cos (Real.sqrt x) - 1 + x / 2) / (x * x) := by
  simp only [Trig.cos_4, if_pos h, Nat.cast_one, Nat.cast_ofNat]; rfl

theorem sin_5_closed {x : ℝ} (h : Scalar.eps2 < x) :
    Trig.sin_5 x = (Real.sin (Real.sqrt x) - Real.sqrt x + x * Real.sqrt x / 6)
      / (x * x * Real.sqrt x) := by
  simp only [Trig.sin_5, if_pos h, Nat.cast_one, Nat.cast_ofNat]; rfl

macro "entry9" : tactic => `(tactic|
  (intro c c'
   fin_cases c <;> fin_cases c' <;>
   simp only [W2, T2, Nm, Um, madd, msmul, mzero, ident, Mat.of_get, C04Alg.mmul3, hat_00, hat_01, hat_02,
     hat_10, hat_11, hat_12, hat_20, hat_21, hat_22, vneg, Vec.of_get, dot3, poly2,
     Fin.isValue, Fin.reduceEq, ↓reduceIte, Fin.zero_eta, Fin.mk_one, Fin.reduceFinMk,
     Scalar.nat_real, Nat.cast_ofNat, Nat.cast_zero, Nat.cast_one] <;>
   field_simp <;> rw [C04Alg.sqNorm3] <;> ring))

/-- diagonal blocks -/
theorem diag_block (w : Vec ℝ 3) (θ s c : ℝ) (hθ : θ ≠ 0)
    (hn : sqNorm w ≠ 0) :
    ∀ i j : Fin 3,
      ((θ - s) / (sqNorm w * θ) * (W2 w) i j + (1 / 2 * ((1 - c) / sqNorm w)
            - 3 / 2 * ((θ - s) / (sqNorm w * θ))) * ((-1 / sqNorm w) * (mzero 3 3 : Mat ℝ 3 3) i j))
        + (-((c - 1 + sqNorm w / 2) / (sqNorm w * sqNorm w) * (mmul (SO3.hat w) (W2 w)) i j)
            - (1 / 2 * ((θ - s) / (sqNorm w * θ)) - 2 * ((c - 1 + sqNorm w / 2) / (sqNorm w * sqNorm w)))
              * ((-1 / sqNorm w) * (mmul (SO3.hat w) (mzero 3 3)) i j))
        + ((ident 3 : Mat ℝ 3 3) i j + -(1 / 2) * (SO3.hat w) i j)
      = (poly2 (SO3.hat w) ((c - 1) / sqNorm w) (-((s - θ) / (sqNorm w * θ)))) i j := by
  entry9

set_option maxHeartbeats 4000000 in
/-- the upper-right block: summed series vs the closed form of `calculate_q(−v, −w)` -/
theorem lr_block (v w : Vec ℝ 3) (θ s c : ℝ) (hθ : θ ≠ 0) (hn : sqNorm w ≠ 0) :
    ∀ i j : Fin 3,
      ((θ - s) / (sqNorm w * θ) * (T2 v w) i j + (1 / 2 * ((1 - c) / sqNorm w)
            - 3 / 2 * ((θ - s) / (sqNorm w * θ))) * ((-1 / sqNorm w) * (Um v w) i j))
        + (-((c - 1 + sqNorm w / 2) / (sqNorm w * sqNorm w)
              * (madd (mmul (SO3.hat w) (T2 v w)) (mmul (SO3.hat v) (W2 w))) i j)
            - (1 / 2 * ((θ - s) / (sqNorm w * θ)) - 2 * ((c - 1 + sqNorm w / 2) / (sqNorm w * sqNorm w)))
              * ((-1 / sqNorm w)
                * (madd (mmul (SO3.hat w) (Um v w)) (mmul (SO3.hat v) (mzero 3 3))) i j))
        + ((mzero 3 3 : Mat ℝ 3 3) i j + -(1 / 2) * (SO3.hat v) i j)
      = (((1 / 2) * (SO3.hat (vneg v)) i j
          + (s - θ) / (sqNorm w * θ)
            * ((-((mmul (SO3.hat (vneg w)) (SO3.hat (vneg v))) i j)
                - (mmul (SO3.hat (vneg v)) (SO3.hat (vneg w))) i j)
              + dot (vneg v) (vneg w) * (SO3.hat (vneg w)) i j))
          + (c - 1 + sqNorm w / 2) / (sqNorm w * sqNorm w)
            * (((mmul (SO3.hat (vneg w)) (mmul (SO3.hat (vneg w)) (SO3.hat (vneg v)))) i j
                + (mmul (mmul (SO3.hat (vneg v)) (SO3.hat (vneg w))) (SO3.hat (vneg w))) i j)
              + dot (vneg v) (vneg w)
                * (3 * (SO3.hat (vneg w)) i j - (mmul (SO3.hat (vneg w)) (SO3.hat (vneg w))) i j)))
        + (((s - θ + sqNorm w * θ / 6) / (sqNorm w * sqNorm w * θ) * 3) * dot (vneg v) (vneg w))
            * (mmul (SO3.hat (vneg w)) (SO3.hat (vneg w))) i j := by
  entry9

/-- SE3, closed branch: `dr_exp a [j,r] = Σ_k (−1)^k/(k+1)! · (ad(a)^k)[j,r]` -/
theorem se3_drExp_hasSum (a : Vec ℝ 6) (h : Scalar.eps2 < sqNorm (SE3.tw a)) (j r : Fin 6) :
    HasSum (termD (toM (SE3.ad a)) j r) ((SE3.dr_exp a) j r) := by
  have hs := ad_hasSum a h j r
  obtain ⟨hθ, hsq⟩ := sqrt_facts h
  have hn0 : sqNorm (SE3.tw a) ≠ 0 := (lt_trans eps2_pos h).ne'
  have hneg : Scalar.eps2 < sqNorm (vneg (SE3.tw a)) := by rw [sqNorm3_neg]; exact h
  have hA3 : mmul (SE3.ad a) (mmul (SE3.ad a) (SE3.ad a))
      = SE3.blk22 (mmul (SO3.hat (SE3.tw a)) (W2 (SE3.tw a)))
          (madd (mmul (SO3.hat (SE3.tw a)) (T2 (SE3.tv a) (SE3.tw a)))
            (mmul (SO3.hat (SE3.tv a)) (W2 (SE3.tw a)))) (mzero 3 3)
          (mmul (SO3.hat (SE3.tw a)) (W2 (SE3.tw a))) := by
    rw [ad_sq, ad_blocks, C04SE3.blk22_mul]
  have hAZ : mmul (SE3.ad a)
        (SE3.blk22 (mzero 3 3) (Um (SE3.tv a) (SE3.tw a)) (mzero 3 3) (mzero 3 3))
      = SE3.blk22 (mmul (SO3.hat (SE3.tw a)) (mzero 3 3))
          (madd (mmul (SO3.hat (SE3.tw a)) (Um (SE3.tv a) (SE3.tw a)))
            (mmul (SO3.hat (SE3.tv a)) (mzero 3 3))) (mzero 3 3)
          (mmul (SO3.hat (SE3.tw a)) (mzero 3 3)) := by
    rw [ad_blocks, C04SE3.blk22_mul]
  simp only [cβ, cβ1, cγ, cγ1] at hs
  rw [hA3, hAZ, ad_sq, ident6] at hs
  rw [C04SE3.se3_dr_exp_blocks]
  convert hs using 1
  clear hs
  rw [ad_blocks]
  revert j r
  apply idx6
  · intro x; apply idx6
    · intro y
      simp only [blk_ll]
      rw [diag_block (SE3.tw a) _ _ _ hθ hn0, dr_exp_closed _ h]
      rfl
    · intro y
      simp only [blk_lr]
      rw [lr_block (SE3.tv a) (SE3.tw a) _ _ _ hθ hn0]
      simp only [SE3.calculate_q, memoM_eq, Mat.of_get, sqNorm3_neg, sin_3_closed h, cos_4_closed h,
        sin_5_closed h, Nat.cast_ofNat, Nat.cast_one]
  · intro x; apply idx6
    · intro y
      simp only [blk_rl]
      simp [mzero]
    · intro y
      simp only [blk_rr]
      rw [diag_block (SE3.tw a) _ _ _ hθ hn0, dr_exp_closed _ h]
      rfl

end value

end C04SeriesSE3

