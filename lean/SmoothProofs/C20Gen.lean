/-
  C20Gen.lean — T2: kernel-checked statements about the tables DUMPED from the running implementation
  (SmoothProofs/Gen/PolyTables.lean, regenerated on every run from `harness/poly dump`).
  The code computes its constexpr tables in `double`, so they are close to — not equal to — the exact
  tables: closeness is `|code − exact| ≤ 1e-9 · max|exact|` entrywise.  Integer-valued families
  (Bernstein, Hermite, monomial) are reproduced exactly.
-/
import SmoothProofs.C20Tables
import SmoothProofs.C20Exact
import SmoothProofs.Gen.PolyTables

namespace C20T
open Poly
set_option maxRecDepth 100000

/-! ### basis tables: code vs exact -/

theorem dump_basis_close : ∀ b : Basis, ∀ K, K ≤ 10 → closeTab (Gen.Poly.basis b K) (Exact.basis b K) tol = true := by
  intro b; cases b <;> decide +kernel

theorem dump_cum_close : ∀ b : Basis, ∀ K, K ≤ 10 → closeTab (Gen.Poly.cumBasis b K) (Exact.cumBasis b K) tol = true := by
  intro b; cases b <;> decide +kernel

theorem dump_bernstein_eq : ∀ K, K ≤ 10 → Gen.Poly.basis .Bernstein K = Exact.basis .Bernstein K := by decide +kernel
theorem dump_bernstein_cum_eq : ∀ K, K ≤ 10 → Gen.Poly.cumBasis .Bernstein K = Exact.cumBasis .Bernstein K := by
  decide +kernel
theorem dump_hermite_eq : ∀ K, K ≤ 10 → Gen.Poly.basis .Hermite K = Exact.basis .Hermite K := by decide +kernel
theorem dump_monomial_eq : ∀ K, K ≤ 10 → Gen.Poly.basis .Monomial K = Exact.basis .Monomial K := by decide +kernel

theorem dump_monint_close : ∀ K, K ≤ 10 → ∀ P, P ≤ 4 → closeTab (Gen.Poly.monint K P) (Exact.monint K P) tol = true := by
  decide +kernel

/-! ### direct statements about the code's B-spline tables -/

/-- partition of unity of the code's B-spline table, coefficientwise: `|Σ_j B[i][j] − δ_{i0}| ≤ 1e-9` -/
theorem dump_bspline_cum_first : ∀ K, K ≤ 10 → cumFirstColClose (Gen.Poly.cumBasis .Bspline K) K tol = true := by
  decide +kernel

/-- every polynomial of the code's B-spline table has Bernstein-form coefficients ≥ −1e-9 (hence is
    ≥ −1e-9 on [0,1], `C20.nonneg_of_bernstein_certificate`) -/
theorem dump_bspline_bernstein_cert :
    ∀ K, K ≤ 10 → allColsBernCert (Exact.basis .Bernstein K) (Gen.Poly.basis .Bspline K) K (-tol) = true := by
  decide +kernel

/-! ### LGR nodes and weights: a-posteriori exactness -/

/-- for K = 1..16 the dumped `lgr_nodes<K>()`: K nodes, x₀ = −1, increasing, < 1, positive weights and
    `|Σ wᵢ xᵢ^m − ∫_{-1}^{1} x^m dx| ≤ 1e-9` for every m ≤ 2K−2 -/
theorem dump_lgr_ok : ∀ K, K ≤ 15 → lgrOK (K+1) (Gen.Poly.lgrX (K+1)) (Gen.Poly.lgrW (K+1)) tol = true := by
  decide +kernel

end C20T
