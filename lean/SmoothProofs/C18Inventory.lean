/-
  SmoothProofs/C18Inventory.lean — data types of the shared-state inventory (C18), the COMMITTED
  expected classified inventory of /repo/include/smooth, and the model of "a const operation" that an
  inventory induces (core Lean only).

  `SmoothProofs/Gen/SharedState.lean` is regenerated from the current source on every run by
  tools/props/c18.py; `C18.Gen.inventory_eq_expected` (SmoothProps/C18.lean) compares it with
  `expectedInventory` by `decide`.  When the library legitimately gains / loses a cell, this list is
  what has to be edited (after classifying the new cell by reading the code).
-/
import SmoothModel.Conc
import SmoothProofs.C18Conc

namespace C18
open Conc

/-- how the cell is declared -/
inductive Kind where
  | mutableMember   -- `mutable` data member
  | classStatic     -- non-constexpr static data member
  | nsVar           -- non-constexpr namespace-scope variable
  | varTemplate     -- non-constexpr namespace-scope variable template
  | localStatic     -- non-constexpr function-local static
  | threadLocal     -- thread_local (any scope)
  | pointerMember   -- pointer-like member whose pointee is mutated through a const handle
  | macroBody       -- mutable / static / thread_local inside a #define body
  deriving DecidableEq, Repr

/-- what non-mutating operations do with the cell -/
inductive Cls where
  | onceInit            -- function-local static: first use initialises (serialised by the language), then read-only
  | readOnlyAfterInit   -- initialised before `main`, never assigned by the library afterwards
  | writtenByConst      -- assigned by a const member function / by a function that does not own it
  | perObject           -- mutated through a const handle, but the owner is a per-call argument object
  deriving DecidableEq, Repr

structure Entry where
  name : String
  kind : Kind
  isConst : Bool            -- declared `const`
  cls : Cls
  writers : List String     -- functions that syntactically assign the cell (outside its own initialiser)
  deriving DecidableEq, Repr

/-- Committed inventory of the tree (sorted by name, as the scanner emits it).  No cell is `writtenByConst`. -/
def expectedInventory : List Entry := [
  ⟨"BSpline::operator()::Bum", .localStatic, true, .onceInit, []⟩,
  ⟨"MinimizeOptions::strat", .pointerMember, false, .perObject, ["minimize"]⟩,
  ⟨"ad_sparse_pattern", .varTemplate, false, .readOnlyAfterInit, []⟩,
  ⟨"d2_exp_sparse_pattern", .varTemplate, false, .readOnlyAfterInit, []⟩,
  ⟨"d_exp_sparse_pattern", .varTemplate, false, .readOnlyAfterInit, []⟩,
  ⟨"detail::fit_bspline_objective::M", .classStatic, true, .readOnlyAfterInit, []⟩,
  ⟨"generators_sparse", .varTemplate, false, .readOnlyAfterInit, []⟩,
  ⟨"kMappedBasisFunction", .varTemplate, true, .readOnlyAfterInit, []⟩,
  ⟨"lp2d::detail::gfun", .nsVar, true, .readOnlyAfterInit, []⟩,
  ⟨"lp2d::detail::hfun", .nsVar, true, .readOnlyAfterInit, []⟩,
  ⟨"traits::lie_sparse<G>[(std::is_base_of_v<BundleBase<G>,G>)]::d2_exp_sparse_pattern", .classStatic, false, .readOnlyAfterInit, []⟩,
  ⟨"traits::lie_sparse<G>[(std::is_base_of_v<BundleBase<G>,G>)]::d_exp_sparse_pattern", .classStatic, false, .readOnlyAfterInit, []⟩,
  ⟨"traits::lie_sparse<G>[(std::is_base_of_v<SE2Base<G>,G>)]::d2_exp_sparse_pattern", .classStatic, false, .readOnlyAfterInit, []⟩,
  ⟨"traits::lie_sparse<G>[(std::is_base_of_v<SE2Base<G>,G>)]::d_exp_sparse_pattern", .classStatic, false, .readOnlyAfterInit, []⟩,
  ⟨"traits::lie_sparse<G>[(std::is_base_of_v<SE3Base<G>,G>)]::d2_exp_sparse_pattern", .classStatic, false, .readOnlyAfterInit, []⟩,
  ⟨"traits::lie_sparse<G>[(std::is_base_of_v<SE3Base<G>,G>)]::d_exp_sparse_pattern", .classStatic, false, .readOnlyAfterInit, []⟩
]

/-- Cells of the inventory that are recorded defects of the tree (reported by the check as findings with key
    `{kind: shared-write, cell: …}`).  EMPTY: `SubManifold::m_calc` (mutable scratch written by the const
    `rplus` / `rminus`) was repaired in /repo by commit 34c8743 and is recorded as `fixed`. -/
def knownFindings : List String := []

/-! ### the const operation induced by an inventory -/

/-- value a once-cell is initialised with (any fixed function of the cell works) -/
def iniOf : Cell → Val := fun c => c + 1

/-- what a non-mutating library operation with argument `arg` does to cell number `c`, given the cell's
    classification.  `perObject` cells live in an argument object that each call owns: thread-private. -/
def Entry.steps (e : Entry) (c : Cell) (arg : Val) : List Step :=
  match e.cls with
  | .onceInit => [.initOnce c (fun _ => iniOf c)]
  | .readOnlyAfterInit => [.read c]
  | .writtenByConst => scratchOp c arg
  | .perObject => [.loc (fun l => arg :: l)]

/-- a const operation that touches every cell of the inventory (cells numbered from `c`) -/
def opSteps : List Entry → Cell → Val → List Step
  | [], _, _ => []
  | e :: r, c, arg => e.steps c arg ++ opSteps r (c + 1) arg

theorem Entry.steps_writeFree (e : Entry) (h : e.cls ≠ .writtenByConst) (c : Cell) (arg : Val) :
    WriteFree iniOf (e.steps c arg) := by
  intro s hs
  cases hc : e.cls with
  | onceInit => simp [Entry.steps, hc] at hs; subst hs; simp [Step.admissible]
  | readOnlyAfterInit => simp [Entry.steps, hc] at hs; subst hs; simp [Step.admissible]
  | writtenByConst => exact absurd hc h
  | perObject => simp [Entry.steps, hc] at hs; subst hs; simp [Step.admissible]

theorem opSteps_writeFree (inv : List Entry) (h : ∀ e ∈ inv, e.cls ≠ .writtenByConst) (c : Cell) (arg : Val) :
    WriteFree iniOf (opSteps inv c arg) := by
  induction inv generalizing c with
  | nil => intro s hs; cases hs
  | cons e r ih =>
    intro s hs
    simp only [opSteps, List.mem_append] at hs
    cases hs with
    | inl hs => exact Entry.steps_writeFree e (h e (List.mem_cons_self ..)) c arg s hs
    | inr hs => exact ih (fun e' he' => h e' (List.mem_cons_of_mem _ he')) (c + 1) s hs

end C18
