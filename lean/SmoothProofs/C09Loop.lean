/-
  C09Loop.lean — structural facts about the `minimize` state machine (SmoothModel/Optim.lean) that
  hold over ANY scalar type (so also for the executable `Float` instance): iteration counter,
  termination status, callback log.
-/
import SmoothModel.Optim
import Mathlib.Tactic.SplitIfs
import Mathlib.Tactic.Cases
import Mathlib.Data.List.Basic
import Mathlib.Tactic.Linarith

open Scalar

namespace C09Loop

open Optim

variable {α : Type} [Scalar α] {X σ : Type}

/-! ### one iteration -/

theorem advance_iter (ops : StrategyOps σ α) (opts : Opts α) (s : State X σ) (o : Obs α) (xp xa : X) :
    (advance ops opts s o xp xa).1.iter = s.iter + 1 := by
  unfold advance
  dsimp only
  split_ifs <;> rfl

theorem advance_strat (ops : StrategyOps σ α) (opts : Opts α) (s : State X σ) (o : Obs α) (xp xa : X) :
    (advance ops opts s o xp xa).1.strat = (ops.update s.strat (rhoOf o)).1 := by
  unfold advance
  dsimp only
  split_ifs <;> rfl

theorem advance_accepted (ops : StrategyOps σ α) (opts : Opts α) (s : State X σ) (o : Obs α) (xp xa : X) :
    (advance ops opts s o xp xa).2.accepted = acceptRule o (ops.update s.strat (rhoOf o)).2 := by
  unfold advance
  dsimp only
  split_ifs with h <;> simp [h]

/-- what an accepted iteration does to the state -/
theorem advance_of_accept (ops : StrategyOps σ α) (opts : Opts α) (s : State X σ) (o : Obs α) (xp xa : X)
    (h : acceptRule o (ops.update s.strat (rhoOf o)).2 = true) :
    (advance ops opts s o xp xa).1.x = xp ∧ (advance ops opts s o xp xa).1.log = xp :: s.log := by
  unfold advance
  dsimp only
  rw [if_pos h]
  exact ⟨rfl, rfl⟩

/-- what a rejected iteration does to the state -/
theorem advance_of_reject (ops : StrategyOps σ α) (opts : Opts α) (s : State X σ) (o : Obs α) (xp xa : X)
    (h : acceptRule o (ops.update s.strat (rhoOf o)).2 = false) :
    (advance ops opts s o xp xa).1.x = xa ∧ (advance ops opts s o xp xa).1.log = s.log
      ∧ (advance ops opts s o xp xa).1.status = s.status := by
  unfold advance
  dsimp only
  rw [if_neg (by simp [h])]
  exact ⟨rfl, rfl, rfl⟩

theorem advance_status (ops : StrategyOps σ α) (opts : Opts α) (s : State X σ) (o : Obs α) (xp xa : X) :
    (advance ops opts s o xp xa).1.status = some .Ftol ∨ (advance ops opts s o xp xa).1.status = some .Ptol
      ∨ (advance ops opts s o xp xa).1.status = s.status := by
  unfold advance
  dsimp only
  split_ifs <;> simp

theorem body_iter (P : Problem X α) (ops : StrategyOps σ α) (opts : Opts α) (s : State X σ) :
    (body P ops opts s).iter = s.iter + 1 := advance_iter _ _ _ _ _ _

/-- did this iteration call the callback? -/
def bodyAccepted (P : Problem X α) (ops : StrategyOps σ α) (opts : Opts α) (s : State X σ) : Bool :=
  let so := P.step s.x (ops.getDelta s.strat)
  (advance ops opts s (obsOf P s.x so) so.xp so.xafter).2.accepted

theorem body_log (P : Problem X α) (ops : StrategyOps σ α) (opts : Opts α) (s : State X σ) :
    (body P ops opts s).log.length = s.log.length + (if bodyAccepted P ops opts s then 1 else 0) := by
  unfold body bodyAccepted
  dsimp only
  rw [advance_accepted]
  cases h : acceptRule (obsOf P s.x (P.step s.x (ops.getDelta s.strat)))
      (ops.update s.strat (rhoOf (obsOf P s.x (P.step s.x (ops.getDelta s.strat))))).2
  · rw [(advance_of_reject ops opts s _ _ _ h).2.1]; simp
  · rw [(advance_of_accept ops opts s _ _ _ h).2]; simp

/-! ### the loop -/

/-- number of iterations of `loop` that called the callback -/
def acceptedCount (P : Problem X α) (ops : StrategyOps σ α) (opts : Opts α) : Nat → State X σ → Nat
  | 0, _ => 0
  | k + 1, s =>
    if loopGuard opts s then
      (if bodyAccepted P ops opts s then 1 else 0) + acceptedCount P ops opts k (body P ops opts s)
    else 0

theorem loop_iter_le (P : Problem X α) (ops : StrategyOps σ α) (opts : Opts α) :
    ∀ (k : Nat) (s : State X σ), s.iter ≤ opts.maxIter → (loop P ops opts k s).iter ≤ opts.maxIter
  | 0, s, h => h
  | k + 1, s, h => by
    unfold loop
    split_ifs with hg
    · apply loop_iter_le P ops opts k
      rw [body_iter]
      unfold loopGuard at hg
      simp only [Bool.and_eq_true, decide_eq_true_eq] at hg
      exact hg.1
    · exact h

/-- with enough fuel the loop only stops because its guard fails -/
theorem loop_exit (P : Problem X α) (ops : StrategyOps σ α) (opts : Opts α) :
    ∀ (k : Nat) (s : State X σ), opts.maxIter ≤ k + s.iter → loopGuard opts (loop P ops opts k s) = false
  | 0, s, h => by
    unfold loop loopGuard
    have : ¬ s.iter < opts.maxIter := by omega
    simp [this]
  | k + 1, s, h => by
    unfold loop
    split_ifs with hg
    · apply loop_exit P ops opts k
      rw [body_iter]; omega
    · simpa using hg

theorem loop_log_length (P : Problem X α) (ops : StrategyOps σ α) (opts : Opts α) :
    ∀ (k : Nat) (s : State X σ),
      (loop P ops opts k s).log.length = s.log.length + acceptedCount P ops opts k s
  | 0, s => by simp [loop, acceptedCount]
  | k + 1, s => by
    unfold loop acceptedCount
    split_ifs with hg hb
    · rw [loop_log_length P ops opts k, body_log, if_pos hb]; omega
    · rw [loop_log_length P ops opts k, body_log, if_neg hb]; omega
    · simp

/-- the internal status is never `MaxIters` -/
theorem loop_status_ne (P : Problem X α) (ops : StrategyOps σ α) (opts : Opts α) :
    ∀ (k : Nat) (s : State X σ), s.status ≠ some .MaxIters → (loop P ops opts k s).status ≠ some .MaxIters
  | 0, s, h => h
  | k + 1, s, h => by
    unfold loop
    split_ifs with hg
    · apply loop_status_ne P ops opts k
      unfold body
      dsimp only
      rcases advance_status ops opts s (obsOf P s.x (P.step s.x (ops.getDelta s.strat)))
        (P.step s.x (ops.getDelta s.strat)).xp (P.step s.x (ops.getDelta s.strat)).xafter with h1 | h1 | h1
      · rw [h1]; simp
      · rw [h1]; simp
      · rw [h1]; exact h
    · exact h

end C09Loop
