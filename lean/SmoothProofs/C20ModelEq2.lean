/-
  C20ModelEq2.lean — the literal tables of C20Exact.lean ARE the model's tables at `Rat`
  (kernel evaluation of the model, once per table).
-/
import SmoothProofs.C20Tables
import SmoothProofs.C20Exact

namespace C20T
open Poly
set_option maxRecDepth 100000

theorem basis_eq_exact_Chebyshev1st : ∀ K, K ≤ 10 → basis (α := Q) .Chebyshev1st K = Exact.basis .Chebyshev1st K := by
  decide +kernel

theorem basis_eq_exact_Chebyshev2nd : ∀ K, K ≤ 10 → basis (α := Q) .Chebyshev2nd K = Exact.basis .Chebyshev2nd K := by
  decide +kernel

end C20T
