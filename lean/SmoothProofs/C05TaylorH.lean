/-
  C05TaylorH.lean — `d2r_taylor_bound`: in the series branch (`0 < θ² < eps2`) every entry of the SO3 /
  SE2 Hessian `d2r_exp` differs from the closed-form expression (the analytic formula of the closed
  branch, evaluated at the same point) by an explicit small bound.
-/
import SmoothProofs.C05Taylor
import SmoothProofs.C05SE2

open Lin Scalar

namespace C05TaylorH
open C04SO3 C05Calc C05Taylor C04Taylor C05SO3

/-! ### SO3 -/

/-- the closed-branch formula of entry `(r, 3j+k)` of `d2r_exp`, as an expression in `a` -/
noncomputable def so3HessClosed (a : Vec ℝ 3) (j r k : Fin 3) : ℝ :=
  ((-((1 - Real.cos (Real.sqrt (sqNorm a))) / sqNorm a)) * (SO3.hat (e k)) j r
      + (Real.sqrt (sqNorm a) - Real.sin (Real.sqrt (sqNorm a))) / (sqNorm a * Real.sqrt (sqNorm a))
        * (C05SO3.EM a k) j r)
    - (dAc (sqNorm a) * a k) * (SO3.hat a) j r
    + (dBc (sqNorm a) * a k) * (mmul (SO3.hat a) (SO3.hat a)) j r

/-- in the closed branch it IS the model's entry -/
theorem so3HessClosed_eq (a : Vec ℝ 3) (h : Scalar.eps2 < sqNorm a) (j r k : Fin 3) :
    (SO3.d2r_exp a) r ⟨3 * j.val + k.val, by have := j.isLt; have := k.isLt; omega⟩
      = so3HessClosed a j r k :=
  d2r_exp_entry a _ _ _ _ (d2rExpCoef_closed (not_lt.2 h.le)) j r k

theorem so3_coef_series {n : ℝ} (h : n < Scalar.eps2) :
    SO3.d2rExpCoef n = (1 / 2 - n / 24, 1 / 6 - n / 120, -1 / 12, -1 / 60) := by
  simp only [SO3.d2rExpCoef, if_pos h, Nat.cast_one, Nat.cast_ofNat]

/-- the four coefficient errors at `n = θ²`, `0 < n < eps2` -/
theorem coef_bounds {n : ℝ} (h0 : 0 < n) (h1 : n < Scalar.eps2) :
    |(1 / 2 - n / 24) - (1 - Real.cos (Real.sqrt n)) / n| ≤ n ^ 2 / 700 ∧
    |(1 / 6 - n / 120) - (Real.sqrt n - Real.sin (Real.sqrt n)) / (n * Real.sqrt n)| ≤ n ^ 2 / 5000 ∧
    |(-1 / 12) - dAc n| ≤ n / 170 ∧ |(-1 / 60) - dBc n| ≤ n / 1000 := by
  have hθ0 : 0 < Real.sqrt n := Real.sqrt_pos.2 h0
  have hsq : Real.sqrt n ^ 2 = n := Real.sq_sqrt h0.le
  have hθ1 : Real.sqrt n ≤ 1 / 10 := by
    have : Real.sqrt n * Real.sqrt n < Scalar.eps2 := by rw [← sq, hsq]; exact h1
    have := abs_small this
    rwa [abs_of_pos hθ0] at this
  have e3 : Real.sqrt n ^ 3 = n * Real.sqrt n := by
    rw [show Real.sqrt n ^ 3 = Real.sqrt n ^ 2 * Real.sqrt n by ring, hsq]
  have e4 : Real.sqrt n ^ 4 = n * n := by
    rw [show Real.sqrt n ^ 4 = Real.sqrt n ^ 2 * Real.sqrt n ^ 2 by ring, hsq]
  have e4' : Real.sqrt n ^ 4 = n ^ 2 := by rw [e4]; ring
  have e5 : Real.sqrt n ^ 5 = n * Real.sqrt n * n := by
    rw [show Real.sqrt n ^ 5 = Real.sqrt n ^ 2 * Real.sqrt n * Real.sqrt n ^ 2 by ring, hsq]
  have hA := A_taylor _ hθ0 hθ1
  have hB := B_taylor _ hθ0 hθ1
  have hdA := dA_taylor _ hθ0 hθ1
  have hdB := dB_taylor _ hθ0 hθ1
  rw [hsq, e4'] at hA
  rw [e3, hsq, e4'] at hB
  rw [e3, e4, hsq] at hdA
  rw [e4, e5, hsq] at hdB
  refine ⟨?_, ?_, ?_, ?_⟩
  · rw [abs_sub_comm]; exact hA
  · rw [abs_sub_comm]; exact hB
  · rw [abs_sub_comm]; exact hdA
  · rw [abs_sub_comm]; exact hdB

/-- SO3 `d2r_exp`, series branch: every entry within an explicit bound of the closed-form formula -/
theorem so3_d2rExp_series_bound (a : Vec ℝ 3) (h0 : 0 < sqNorm a) (h1 : sqNorm a < Scalar.eps2)
    (j r k : Fin 3) :
    |(SO3.d2r_exp a) r ⟨3 * j.val + k.val, by have := j.isLt; have := k.isLt; omega⟩
        - so3HessClosed a j r k|
      ≤ sqNorm a ^ 2 / 700 * |(SO3.hat (e k)) j r| + sqNorm a ^ 2 / 5000 * |(C05SO3.EM a k) j r|
        + sqNorm a / 170 * |a k * (SO3.hat a) j r|
        + sqNorm a / 1000 * |a k * (mmul (SO3.hat a) (SO3.hat a)) j r| := by
  obtain ⟨bA, bB, bdA, bdB⟩ := coef_bounds h0 h1
  rw [d2r_exp_entry a _ _ _ _ (so3_coef_series h1) j r k]
  have e : ((-(1 / 2 - sqNorm a / 24)) * (SO3.hat (e k)) j r + (1 / 6 - sqNorm a / 120) * (C05SO3.EM a k) j r)
        - ((-1 / 12) * a k) * (SO3.hat a) j r + ((-1 / 60) * a k) * (mmul (SO3.hat a) (SO3.hat a)) j r
        - so3HessClosed a j r k
      = -(((1 / 2 - sqNorm a / 24) - (1 - Real.cos (Real.sqrt (sqNorm a))) / sqNorm a) * (SO3.hat (e k)) j r)
        + ((1 / 6 - sqNorm a / 120) - (Real.sqrt (sqNorm a) - Real.sin (Real.sqrt (sqNorm a)))
            / (sqNorm a * Real.sqrt (sqNorm a))) * (C05SO3.EM a k) j r
        + -(((-1 / 12) - dAc (sqNorm a)) * (a k * (SO3.hat a) j r))
        + ((-1 / 60) - dBc (sqNorm a)) * (a k * (mmul (SO3.hat a) (SO3.hat a)) j r) := by
    simp only [so3HessClosed]; ring
  rw [e]
  refine (abs_add_le _ _).trans (add_le_add ((abs_add_le _ _).trans (add_le_add
    ((abs_add_le _ _).trans (add_le_add ?_ ?_)) ?_)) ?_)
  · rw [abs_neg, abs_mul]; exact mul_le_mul_of_nonneg_right bA (abs_nonneg _)
  · rw [abs_mul]; exact mul_le_mul_of_nonneg_right bB (abs_nonneg _)
  · rw [abs_neg, abs_mul]; exact mul_le_mul_of_nonneg_right bdA (abs_nonneg _)
  · rw [abs_mul]; exact mul_le_mul_of_nonneg_right bdB (abs_nonneg _)

/-! ### SE2 -/

open C05SE2 in
/-- the closed-branch formula of entry `(r, 3j+k)` of SE2 `d2r_exp` -/
noncomputable def se2HessClosed (a : Vec ℝ 3) (j r k : Fin 3) : ℝ :=
  ((-((1 - Real.cos (a 2)) / (a 2 * a 2))) * (SE2.ad (e k)) j r
      + (a 2 - Real.sin (a 2)) / (a 2 * a 2 * a 2) * (C05SE2.EM a k) j r)
    - (dAe (a 2) * (e k) 2) * (SE2.ad a) j r
    + (dBe (a 2) * (e k) 2) * (mmul (SE2.ad a) (SE2.ad a)) j r

theorem se2HessClosed_eq (a : Vec ℝ 3) (h : Scalar.eps2 < a 2 * a 2) (j r k : Fin 3) :
    (SE2.d2r_exp a) r ⟨3 * j.val + k.val, by have := j.isLt; have := k.isLt; omega⟩
      = se2HessClosed a j r k :=
  C05SE2.d2r_exp_entry a _ _ _ _ (C05SE2.d2rExpCoef_closed (not_lt.2 h.le)) j r k

theorem se2_coef_series {θ : ℝ} (h : θ * θ < Scalar.eps2) :
    SE2.d2rExpCoef θ = (1 / 2 - θ * θ / 24, 1 / 6 - θ * θ / 120, -θ / 12, -θ / 60) := by
  simp only [SE2.d2rExpCoef, if_pos h, Nat.cast_one, Nat.cast_ofNat]

/-- coefficient errors for `φ > 0` in the `θ`-forms used by SE2 -/
theorem se2_coef_bounds_pos {φ : ℝ} (h0 : 0 < φ) (h1 : φ ≤ 1 / 10) :
    |(1 / 2 - φ * φ / 24) - (1 - Real.cos φ) / (φ * φ)| ≤ φ ^ 4 / 700 ∧
    |(1 / 6 - φ * φ / 120) - (φ - Real.sin φ) / (φ * φ * φ)| ≤ φ ^ 4 / 5000 ∧
    |(-φ / 12) - dAe φ| ≤ φ ^ 3 / 170 ∧ |(-φ / 60) - dBe φ| ≤ φ ^ 3 / 1000 := by
  have hA := A_taylor φ h0 h1
  have hB := B_taylor φ h0 h1
  have hdA := dA_taylor φ h0 h1
  have hdB := dB_taylor φ h0 h1
  have hφ : φ ≠ 0 := h0.ne'
  refine ⟨?_, ?_, ?_, ?_⟩
  · rw [abs_sub_comm]; convert hA using 2; ring
  · rw [abs_sub_comm]; convert hB using 2; ring
  · have e : (-φ / 12) - dAe φ
        = -(φ * ((Real.sin φ / φ ^ 3 + 2 * Real.cos φ / φ ^ 4 - 2 / φ ^ 4) - (-1 / 12))) := by
      simp only [dAe]; field_simp; ring
    rw [e, abs_neg, abs_mul, abs_of_pos h0]
    calc φ * |_| ≤ φ * (φ ^ 2 / 170) := mul_le_mul_of_nonneg_left hdA h0.le
      _ = φ ^ 3 / 170 := by ring
  · have e : (-φ / 60) - dBe φ
        = -(φ * ((-Real.cos φ / φ ^ 4 - 2 / φ ^ 4 + 3 * Real.sin φ / φ ^ 5) - (-1 / 60))) := by
      simp only [dBe]; field_simp; ring
    rw [e, abs_neg, abs_mul, abs_of_pos h0]
    calc φ * |_| ≤ φ * (φ ^ 2 / 1000) := mul_le_mul_of_nonneg_left hdB h0.le
      _ = φ ^ 3 / 1000 := by ring

theorem dAe_neg (θ : ℝ) : dAe (-θ) = -dAe θ := by
  simp only [dAe, Real.sin_neg, Real.cos_neg]
  by_cases h : θ = 0
  · subst h; simp
  · field_simp; ring

theorem dBe_neg (θ : ℝ) : dBe (-θ) = -dBe θ := by
  simp only [dBe, Real.sin_neg, Real.cos_neg]
  by_cases h : θ = 0
  · subst h; simp
  · field_simp; ring

theorem se2_coef_bounds {θ : ℝ} (h0 : θ ≠ 0) (h1 : θ * θ < Scalar.eps2) :
    |(1 / 2 - θ * θ / 24) - (1 - Real.cos θ) / (θ * θ)| ≤ θ ^ 4 / 700 ∧
    |(1 / 6 - θ * θ / 120) - (θ - Real.sin θ) / (θ * θ * θ)| ≤ θ ^ 4 / 5000 ∧
    |(-θ / 12) - dAe θ| ≤ |θ| ^ 3 / 170 ∧ |(-θ / 60) - dBe θ| ≤ |θ| ^ 3 / 1000 := by
  have hsm := abs_small h1
  rcases lt_or_gt_of_ne h0 with hneg | hpos
  · obtain ⟨b1, b2, b3, b4⟩ := se2_coef_bounds_pos (φ := -θ) (by linarith)
      (by rwa [abs_of_neg hneg] at hsm)
    rw [Real.cos_neg] at b1
    rw [Real.sin_neg] at b2
    rw [dAe_neg] at b3
    rw [dBe_neg] at b4
    rw [abs_of_neg hneg]
    refine ⟨?_, ?_, ?_, ?_⟩
    · convert b1 using 2 <;> ring
    · convert b2 using 2
      · have : θ * θ * θ ≠ 0 := by positivity
        field_simp
        ring
      · ring
    · rw [← abs_neg]; convert b3 using 2; ring
    · rw [← abs_neg]; convert b4 using 2; ring
  · have := se2_coef_bounds_pos hpos (by rwa [abs_of_pos hpos] at hsm)
    rwa [abs_of_pos hpos]

/-- SE2 `d2r_exp`, series branch (`θ = a_2 ≠ 0`): every entry within an explicit bound of the
    closed-form formula -/
theorem se2_d2rExp_series_bound (a : Vec ℝ 3) (h0 : a 2 ≠ 0) (h1 : a 2 * a 2 < Scalar.eps2)
    (j r k : Fin 3) :
    |(SE2.d2r_exp a) r ⟨3 * j.val + k.val, by have := j.isLt; have := k.isLt; omega⟩
        - se2HessClosed a j r k|
      ≤ (a 2) ^ 4 / 700 * |(SE2.ad (e k)) j r| + (a 2) ^ 4 / 5000 * |(C05SE2.EM a k) j r|
        + |a 2| ^ 3 / 170 * |(e k) 2 * (SE2.ad a) j r|
        + |a 2| ^ 3 / 1000 * |(e k) 2 * (mmul (SE2.ad a) (SE2.ad a)) j r| := by
  obtain ⟨bA, bB, bdA, bdB⟩ := se2_coef_bounds h0 h1
  rw [C05SE2.d2r_exp_entry a _ _ _ _ (se2_coef_series h1) j r k]
  have e : ((-(1 / 2 - a 2 * a 2 / 24)) * (SE2.ad (e k)) j r + (1 / 6 - a 2 * a 2 / 120) * (C05SE2.EM a k) j r)
        - ((-a 2 / 12) * (e k) 2) * (SE2.ad a) j r + ((-a 2 / 60) * (e k) 2) * (mmul (SE2.ad a) (SE2.ad a)) j r
        - se2HessClosed a j r k
      = -(((1 / 2 - a 2 * a 2 / 24) - (1 - Real.cos (a 2)) / (a 2 * a 2)) * (SE2.ad (e k)) j r)
        + ((1 / 6 - a 2 * a 2 / 120) - (a 2 - Real.sin (a 2)) / (a 2 * a 2 * a 2)) * (C05SE2.EM a k) j r
        + -(((-a 2 / 12) - dAe (a 2)) * ((e k) 2 * (SE2.ad a) j r))
        + ((-a 2 / 60) - dBe (a 2)) * ((e k) 2 * (mmul (SE2.ad a) (SE2.ad a)) j r) := by
    simp only [se2HessClosed]; ring
  rw [e]
  refine (abs_add_le _ _).trans (add_le_add ((abs_add_le _ _).trans (add_le_add
    ((abs_add_le _ _).trans (add_le_add ?_ ?_)) ?_)) ?_)
  · rw [abs_neg, abs_mul]; exact mul_le_mul_of_nonneg_right bA (abs_nonneg _)
  · rw [abs_mul]; exact mul_le_mul_of_nonneg_right bB (abs_nonneg _)
  · rw [abs_neg, abs_mul]; exact mul_le_mul_of_nonneg_right bdA (abs_nonneg _)
  · rw [abs_mul]; exact mul_le_mul_of_nonneg_right bdB (abs_nonneg _)

end C05TaylorH
