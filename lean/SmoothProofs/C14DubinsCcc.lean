/-
  C14DubinsCcc.lean — the closed-form CCC lengths of `dubins_ccc` reach the target: the three arcs
  emitted for `ccc target R c13 c2` (words RLR, LRL), traversed as ideal unit-speed arcs from the
  identity pose, end at the target pose (over ℝ, for `0 < |C1C3| ≤ 4R`, the boundary `|C1C3| = 4R`
  — middle arc exactly `π` — included).  Same conventions as C14Dubins.lean (the plane is ℂ).

  Geometry: with `δ` the unit vector `C1 → C3`, `a = e^{iα}`, `cos α = d/(4R)`, the headings at the
  two junctions are `θ₁ = ±i δ a^{±1}`, `θ₂ = ∓i δ a^{∓1}`, and the end position of the three arcs
  is `C1`-side offset `+ 2iR(θ₂ − θ₁)` (LRL) resp. `2iR(θ₁ − θ₂)` (RLR) `= δ·d = C3 − C1`.
-/
import SmoothProofs.C14Dubins

open Complex Scalar Lin

namespace Dubins

/-! ### unfolding `dubins_ccc` in the feasible case -/

/-- `A_13_12`: the angle between the lines C1–C3 and C1–C2 -/
noncomputable def a1312Of (R d : ℝ) : Vec ℝ 2 :=
  so2norm (Scalar.sqrt (nat 1 - d * d / (nat 16 * R * R))) (d / (nat 4 * R))

/-- `A_12_32 = SO2(π) · A⁻¹ · A⁻¹` -/
noncomputable def a1232Of (R d : ℝ) : Vec ℝ 2 :=
  SO2.composition (SO2.composition (SO2.exp (mk1 Scalar.pi)) (SO2.inverse (a1312Of R d)))
    (SO2.inverse (a1312Of R d))

noncomputable def alpha0Of (c13 : Seg) : Vec ℝ 2 :=
  if c13 = .R then SO2.exp (mk1 (-Scalar.pi / nat 2)) else SO2.exp (mk1 (Scalar.pi / nat 2))

/-- `theta1`: heading at the first junction -/
noncomputable def theta1Of (target : Vec ℝ 4) (R : ℝ) (c13 : Seg) : Vec ℝ 2 :=
  let dv := dvOf target R c13 c13
  if c13 = .R then
    SO2.composition (SO2.composition (alpha0Of c13) (theta0Of dv)) (SO2.inverse (a1312Of R (norm2 dv)))
  else SO2.composition (SO2.composition (alpha0Of c13) (theta0Of dv)) (a1312Of R (norm2 dv))

/-- `theta2`: heading at the second junction -/
noncomputable def theta2Of (target : Vec ℝ 4) (R : ℝ) (c13 : Seg) : Vec ℝ 2 :=
  let dv := dvOf target R c13 c13
  if c13 = .R then SO2.composition (theta1Of target R c13) (SO2.inverse (a1232Of R (norm2 dv)))
  else SO2.composition (theta1Of target R c13) (a1232Of R (norm2 dv))

theorem ccc_feasible (target : Vec ℝ 4) (R : ℝ) (c13 c2 : Seg)
    (hf : norm2 (dvOf target R c13 c13) ≤ 4 * R) :
    ccc target R c13 c2 =
      (angle SO2.identity (theta1Of target R c13) c13,
       angle (theta1Of target R c13) (theta2Of target R c13) c2,
       angle (theta2Of target R c13) (SE2.so2 target) c13) := by
  have h1 : ¬ norm2 (dvOf target R c13 c13) < (Scalar.macheps : ℝ) := not_lt.2 (norm2_nonneg _)
  have h2 : ¬ (nat 4 * R < norm2 (dvOf target R c13 c13)) := by
    simp only [Nat.cast_ofNat]
    exact not_lt.2 hf
  unfold dvOf at h1 h2
  unfold ccc
  simp only [memoV_eq]
  rw [if_neg h1, if_neg h2]
  by_cases hc : c13 = .R
  · subst hc
    simp only [theta1Of, theta2Of, alpha0Of, a1232Of, a1312Of, theta0Of, dvOf, if_true]
  · simp only [theta1Of, theta2Of, alpha0Of, a1232Of, a1312Of, theta0Of, dvOf, hc, if_false]

/-! ### the model's intermediate quantities as complex numbers -/

/-- `cos α = d/(4R)`, `sin α = √(1 − d²/(16R²))` -/
noncomputable def cccSin (R d : ℝ) : ℝ := Real.sqrt (1 - d * d / (16 * R * R))

theorem ccc_sq (R d : ℝ) (hR : 0 < R) (hd0 : 0 ≤ d) (hd : d ≤ 4 * R) :
    (d / (4 * R)) * (d / (4 * R)) + cccSin R d * cccSin R d = 1 := by
  have : 0 ≤ 1 - d * d / (16 * R * R) := by
    rw [sub_nonneg, div_le_one (by positivity)]; nlinarith
  unfold cccSin
  rw [Real.mul_self_sqrt this]; field_simp; ring

theorem uC_a1312Of (R d : ℝ) (hR : 0 < R) (hd0 : 0 ≤ d) (hd : d ≤ 4 * R) :
    uC (a1312Of R d) = ⟨d / (4 * R), cccSin R d⟩ := by
  unfold a1312Of
  simp only [Nat.cast_one, Nat.cast_ofNat]
  exact uC_so2norm _ _ (ccc_sq R d hR hd0 hd)

theorem uC_exp_pi : uC (SO2.exp (mk1 (Scalar.pi : ℝ))) = -1 := by
  apply Complex.ext <;> simp [uC, SO2.exp, mk1, mk2, Vec.of, Scalar.pi, Scalar.sin, Scalar.cos]

theorem uC_alpha0_L : uC (alpha0Of .L) = I := by
  apply Complex.ext <;>
    simp [alpha0Of, uC, SO2.exp, mk1, mk2, Vec.of, Scalar.pi, Scalar.sin, Scalar.cos]

theorem uC_alpha0_R : uC (alpha0Of .R) = -I := by
  have e : (-Real.pi / 2 : ℝ) = -(Real.pi / 2) := by ring
  apply Complex.ext <;>
    simp [alpha0Of, uC, SO2.exp, mk1, mk2, Vec.of, Scalar.pi, Scalar.sin, Scalar.cos, e]

/-- facts about `a = e^{iα}`: unit, and `(a + ā)·2R = d` -/
theorem a_facts (R d : ℝ) (hR : 0 < R) (hd0 : 0 ≤ d) (hd : d ≤ 4 * R) :
    ‖(⟨d / (4 * R), cccSin R d⟩ : ℂ)‖ = 1 ∧
    ((⟨d / (4 * R), cccSin R d⟩ : ℂ) + (starRingEnd ℂ) ⟨d / (4 * R), cccSin R d⟩) * (2 * (R : ℂ)) = (d : ℂ) := by
  refine ⟨norm_mk_of_sq _ _ (ccc_sq R d hR hd0 hd), ?_⟩
  have hR' : R ≠ 0 := ne_of_gt hR
  apply Complex.ext
  · simp
    field_simp
    ring
  · simp

/-! ### the two algebraic keys -/

theorem ccc_key_L (δ a D : ℂ) (d R : ℝ) (ha : a * (starRingEnd ℂ) a = 1)
    (hs : (a + (starRingEnd ℂ) a) * (2 * (R : ℂ)) = (d : ℂ)) (hn : (d : ℂ) * δ = D) :
    2 * I * R * (I * δ * a * (-1 * (starRingEnd ℂ) a * (starRingEnd ℂ) a) - I * δ * a) = D := by
  linear_combination (2 * R * δ * a * (-((starRingEnd ℂ) a * (starRingEnd ℂ) a) - 1)) * Complex.I_mul_I
    + (2 * R * δ * (starRingEnd ℂ) a) * ha + δ * hs + hn

theorem ccc_key_R (δ a D : ℂ) (d R : ℝ) (ha : a * (starRingEnd ℂ) a = 1)
    (hs : (a + (starRingEnd ℂ) a) * (2 * (R : ℂ)) = (d : ℂ)) (hn : (d : ℂ) * δ = D) :
    2 * I * R * (-I * δ * (starRingEnd ℂ) a - -I * δ * (starRingEnd ℂ) a * (-1 * a * a)) = D := by
  linear_combination (-(2 * R * δ * (starRingEnd ℂ) a * (1 + a * a))) * Complex.I_mul_I
    + (2 * R * δ * a) * ha + δ * hs + hn

/-! ### end pose of three arcs, for general non-negative lengths -/

theorem idealEnd_LRL (R a1 a2 a3 len : ℝ) (hR : 0 < R) (h1 : 0 ≤ a1) (h2 : 0 ≤ a2) (h3 : 0 ≤ a3) :
    idealEnd (emit R ⟨(.L, .R, .L), (a1, a2, a3), len⟩) =
      (0 - I * R * 1 * (Complex.exp (a1 * I) - 1)
          + I * R * (1 * Complex.exp (a1 * I)) * (Complex.exp (-(a2 * I)) - 1)
          - I * R * (1 * Complex.exp (a1 * I) * Complex.exp (-(a2 * I))) * (Complex.exp (a3 * I) - 1),
       1 * Complex.exp (a1 * I) * Complex.exp (-(a2 * I)) * Complex.exp (a3 * I)) := by
  simp only [emit, idealEnd, List.foldl, Nat.cast_one, Nat.cast_zero]
  rw [idealStep_left _ _ _ _ _ hR h1, idealStep_right _ _ _ _ _ hR h2, idealStep_left _ _ _ _ _ hR h3]

theorem idealEnd_RLR (R a1 a2 a3 len : ℝ) (hR : 0 < R) (h1 : 0 ≤ a1) (h2 : 0 ≤ a2) (h3 : 0 ≤ a3) :
    idealEnd (emit R ⟨(.R, .L, .R), (a1, a2, a3), len⟩) =
      (0 + I * R * 1 * (Complex.exp (-(a1 * I)) - 1)
          - I * R * (1 * Complex.exp (-(a1 * I))) * (Complex.exp (a2 * I) - 1)
          + I * R * (1 * Complex.exp (-(a1 * I)) * Complex.exp (a2 * I)) * (Complex.exp (-(a3 * I)) - 1),
       1 * Complex.exp (-(a1 * I)) * Complex.exp (a2 * I) * Complex.exp (-(a3 * I))) := by
  simp only [emit, idealEnd, List.foldl, Nat.cast_one, Nat.cast_zero]
  rw [idealStep_right _ _ _ _ _ hR h1, idealStep_left _ _ _ _ _ hR h2, idealStep_right _ _ _ _ _ hR h3]

/-! ### the closing identities in ℂ -/

theorem close_LRL (T E D Θ1 Θ2 X1 X2 X3 : ℂ) (R : ℝ) (hX1 : X1 = Θ1)
    (hX2 : X2 = (starRingEnd ℂ) Θ1 * Θ2) (hX3 : X3 = (starRingEnd ℂ) Θ2 * E)
    (h1 : Θ1 * (starRingEnd ℂ) Θ1 = 1) (h2 : Θ2 * (starRingEnd ℂ) Θ2 = 1)
    (hD : D = T + E * (I * R) - I * R) (hkey : 2 * I * R * (Θ2 - Θ1) = D) :
    ((0 - I * R * 1 * (X1 - 1) + I * R * (1 * X1) * (X2 - 1) - I * R * (1 * X1 * X2) * (X3 - 1),
      1 * X1 * X2 * X3) : ℂ × ℂ) = (T, E) := by
  subst hX1 hX2 hX3
  refine Prod.ext ?_ ?_
  · simp only
    linear_combination (2 * I * R * Θ2 - I * R * E * (Θ2 * (starRingEnd ℂ) Θ2)) * h1 - I * R * E * h2
      + hkey + hD
  · simp only
    linear_combination E * (Θ2 * (starRingEnd ℂ) Θ2) * h1 + E * h2

theorem close_RLR (T E D Θ1 Θ2 X1 X2 X3 : ℂ) (R : ℝ) (hX1 : X1 = Θ1)
    (hX2 : X2 = (starRingEnd ℂ) Θ1 * Θ2) (hX3 : X3 = (starRingEnd ℂ) Θ2 * E)
    (h1 : Θ1 * (starRingEnd ℂ) Θ1 = 1) (h2 : Θ2 * (starRingEnd ℂ) Θ2 = 1)
    (hD : D = T + E * (I * (-R)) - I * (-R)) (hkey : 2 * I * R * (Θ1 - Θ2) = D) :
    ((0 + I * R * 1 * (X1 - 1) - I * R * (1 * X1) * (X2 - 1) + I * R * (1 * X1 * X2) * (X3 - 1),
      1 * X1 * X2 * X3) : ℂ × ℂ) = (T, E) := by
  subst hX1 hX2 hX3
  refine Prod.ext ?_ ?_
  · simp only
    linear_combination (-(2 * I * R * Θ2) + I * R * E * (Θ2 * (starRingEnd ℂ) Θ2)) * h1 + I * R * E * h2
      + hkey + hD
  · simp only
    linear_combination E * (Θ2 * (starRingEnd ℂ) Θ2) * h1 + E * h2

/-! ### the two words -/

theorem theta1Of_L (target : Vec ℝ 4) (R : ℝ) :
    theta1Of target R .L = SO2.composition (SO2.composition (alpha0Of .L) (theta0Of (dvOf target R .L .L)))
      (a1312Of R (norm2 (dvOf target R .L .L))) := by
  unfold theta1Of; simp

theorem theta1Of_R (target : Vec ℝ 4) (R : ℝ) :
    theta1Of target R .R = SO2.composition (SO2.composition (alpha0Of .R) (theta0Of (dvOf target R .R .R)))
      (SO2.inverse (a1312Of R (norm2 (dvOf target R .R .R)))) := by
  unfold theta1Of; simp

theorem theta2Of_L (target : Vec ℝ 4) (R : ℝ) :
    theta2Of target R .L = SO2.composition (theta1Of target R .L) (a1232Of R (norm2 (dvOf target R .L .L))) := by
  unfold theta2Of; simp

theorem theta2Of_R (target : Vec ℝ 4) (R : ℝ) :
    theta2Of target R .R
      = SO2.composition (theta1Of target R .R) (SO2.inverse (a1232Of R (norm2 (dvOf target R .R .R)))) := by
  unfold theta2Of; simp

theorem uC_a1232Of (R d : ℝ) :
    uC (a1232Of R d) = -1 * (starRingEnd ℂ) (uC (a1312Of R d)) * (starRingEnd ℂ) (uC (a1312Of R d)) := by
  unfold a1232Of
  rw [uC_composition, uC_composition, uC_inverse, uC_exp_pi]

theorem ccc_reaches_LRL (target : Vec ℝ 4) (R len : ℝ) (hR : 0 < R)
    (hunit : target 2 ^ 2 + target 3 ^ 2 = 1) (hd : 0 < norm2 (dvOf target R .L .L))
    (hf : norm2 (dvOf target R .L .L) ≤ 4 * R) :
    idealEnd (emit R ⟨(.L, .R, .L), ccc target R .L .R, len⟩) = poseC target := by
  rw [ccc_feasible target R .L .R hf]
  set d := norm2 (dvOf target R .L .L) with hdd
  obtain ⟨han, has⟩ := a_facts R d hR hd.le hf
  have hδn := norm_uC_theta0Of _ hd
  have hE := norm_poseC_heading target hunit
  have hnδ := norm_mul_uC_theta0Of _ hd
  have haa := mul_conj_of_unit _ han
  have hΘ1 : uC (theta1Of target R .L)
      = I * uC (theta0Of (dvOf target R .L .L)) * (⟨d / (4 * R), cccSin R d⟩ : ℂ) := by
    rw [theta1Of_L, uC_composition, uC_composition, uC_alpha0_L, uC_a1312Of R d hR hd.le hf]
  have hΘ2 : uC (theta2Of target R .L)
      = I * uC (theta0Of (dvOf target R .L .L)) * (⟨d / (4 * R), cccSin R d⟩ : ℂ)
          * (-1 * (starRingEnd ℂ) (⟨d / (4 * R), cccSin R d⟩ : ℂ) * (starRingEnd ℂ) (⟨d / (4 * R), cccSin R d⟩ : ℂ)) := by
    rw [theta2Of_L, uC_composition, hΘ1, uC_a1232Of, uC_a1312Of R d hR hd.le hf]
  have hΘ1n : ‖uC (theta1Of target R .L)‖ = 1 := by
    rw [hΘ1, norm_mul, norm_mul, hδn, han, Complex.norm_I]; norm_num
  have hΘ2n : ‖uC (theta2Of target R .L)‖ = 1 := by
    rw [hΘ2, norm_mul, norm_mul, norm_mul, norm_mul, norm_mul, hδn, Complex.norm_conj, han, Complex.norm_I]
    simp
  have h11 := mul_conj_of_unit _ hΘ1n
  have h22 := mul_conj_of_unit _ hΘ2n
  rw [idealEnd_LRL _ _ _ _ _ hR (angle_nonneg _ _ _) (angle_nonneg _ _ _) (angle_nonneg _ _ _)]
  have e1 := exp_angle_L SO2.identity (theta1Of target R .L) (by rw [uC_identity]; simp) hΘ1n
  rw [uC_identity, map_one, one_mul] at e1
  have e2 := exp_angle_R (theta1Of target R .L) (theta2Of target R .L) hΘ1n hΘ2n
  have e3 := exp_angle_L (theta2Of target R .L) (SE2.so2 target) hΘ2n hE
  have hD := ptC_dvOf target R .L .L
  rw [sideR_L] at hD
  have hkey : 2 * I * R * (uC (theta2Of target R .L) - uC (theta1Of target R .L))
      = ptC (dvOf target R .L .L) := by
    rw [hΘ1, hΘ2]
    exact ccc_key_L _ _ _ d R haa has hnδ
  exact close_LRL (poseC target).1 (poseC target).2 _ _ _ _ _ _ R e1 e2 e3 h11 h22 hD hkey

theorem ccc_reaches_RLR (target : Vec ℝ 4) (R len : ℝ) (hR : 0 < R)
    (hunit : target 2 ^ 2 + target 3 ^ 2 = 1) (hd : 0 < norm2 (dvOf target R .R .R))
    (hf : norm2 (dvOf target R .R .R) ≤ 4 * R) :
    idealEnd (emit R ⟨(.R, .L, .R), ccc target R .R .L, len⟩) = poseC target := by
  rw [ccc_feasible target R .R .L hf]
  set d := norm2 (dvOf target R .R .R) with hdd
  obtain ⟨han, has⟩ := a_facts R d hR hd.le hf
  have hδn := norm_uC_theta0Of _ hd
  have hE := norm_poseC_heading target hunit
  have hnδ := norm_mul_uC_theta0Of _ hd
  have haa := mul_conj_of_unit _ han
  have hΘ1 : uC (theta1Of target R .R)
      = -I * uC (theta0Of (dvOf target R .R .R)) * (starRingEnd ℂ) (⟨d / (4 * R), cccSin R d⟩ : ℂ) := by
    rw [theta1Of_R, uC_composition, uC_composition, uC_alpha0_R, uC_inverse, uC_a1312Of R d hR hd.le hf]
  have hΘ2 : uC (theta2Of target R .R)
      = -I * uC (theta0Of (dvOf target R .R .R)) * (starRingEnd ℂ) (⟨d / (4 * R), cccSin R d⟩ : ℂ)
          * (-1 * (⟨d / (4 * R), cccSin R d⟩ : ℂ) * (⟨d / (4 * R), cccSin R d⟩ : ℂ)) := by
    rw [theta2Of_R, uC_composition, hΘ1, uC_inverse, uC_a1232Of, uC_a1312Of R d hR hd.le hf]
    simp only [map_mul, map_neg, map_one, Complex.conj_conj]
  have hΘ1n : ‖uC (theta1Of target R .R)‖ = 1 := by
    rw [hΘ1, norm_mul, norm_mul, hδn, Complex.norm_conj, han, norm_neg, Complex.norm_I]; norm_num
  have hΘ2n : ‖uC (theta2Of target R .R)‖ = 1 := by
    rw [hΘ2, norm_mul, norm_mul, norm_mul, norm_mul, norm_mul, hδn, Complex.norm_conj, han, norm_neg,
      Complex.norm_I]
    simp
  have h11 := mul_conj_of_unit _ hΘ1n
  have h22 := mul_conj_of_unit _ hΘ2n
  rw [idealEnd_RLR _ _ _ _ _ hR (angle_nonneg _ _ _) (angle_nonneg _ _ _) (angle_nonneg _ _ _)]
  have e1 := exp_angle_R SO2.identity (theta1Of target R .R) (by rw [uC_identity]; simp) hΘ1n
  rw [uC_identity, map_one, one_mul] at e1
  have e2 := exp_angle_L (theta1Of target R .R) (theta2Of target R .R) hΘ1n hΘ2n
  have e3 := exp_angle_R (theta2Of target R .R) (SE2.so2 target) hΘ2n hE
  have hD := ptC_dvOf target R .R .R
  rw [sideR_R] at hD
  push_cast at hD
  have hkey : 2 * I * R * (uC (theta1Of target R .R) - uC (theta2Of target R .R))
      = ptC (dvOf target R .R .R) := by
    rw [hΘ1, hΘ2]
    exact ccc_key_R _ _ _ d R haa has hnδ
  exact close_RLR (poseC target).1 (poseC target).2 _ _ _ _ _ _ R e1 e2 e3 h11 h22 hD hkey

/-! ### both CCC words -/

/-- the feasibility condition of `dubins_ccc`: the centres of the first and the last circle are
    distinct and at most `4R` apart (so that a circle of radius `R` touches both) -/
def CccFeasible (target : Vec ℝ 4) (R : ℝ) (c13 : Seg) : Prop :=
  0 < norm2 (vsub (SE2.act target (mk2 (nat 0) (sideR c13 R))) (mk2 (nat 0) (sideR c13 R))) ∧
  norm2 (vsub (SE2.act target (mk2 (nat 0) (sideR c13 R))) (mk2 (nat 0) (sideR c13 R))) ≤ 4 * R

/-- the three arcs emitted for the closed-form lengths `ccc target R c13 c2` (words RLR, LRL),
    traversed as ideal unit-speed arcs from the identity pose, end at the target pose -/
theorem ccc_reaches_target (target : Vec ℝ 4) (R len : ℝ) (hR : 0 < R)
    (hunit : target 2 ^ 2 + target 3 ^ 2 = 1) (c13 c2 : Seg)
    (hw : (c13 = .R ∧ c2 = .L) ∨ (c13 = .L ∧ c2 = .R)) (hfeas : CccFeasible target R c13) :
    idealEnd (emit R ⟨(c13, c2, c13), ccc target R c13 c2, len⟩) = poseC target := by
  obtain ⟨hd, hf⟩ := hfeas
  rcases hw with ⟨rfl, rfl⟩ | ⟨rfl, rfl⟩
  · exact ccc_reaches_RLR target R len hR hunit hd hf
  · exact ccc_reaches_LRL target R len hR hunit hd hf

/-- the middle arc is never shorter than a half turn: `a₂ = π + 2α`, `cos α = d/(4R)` — stated as
    `e^{∓i a₂} = −ā²` (LRL) resp. `−a²` (RLR) in the proofs above; at `d = 4R` it is exactly `π`. -/
theorem ccc_boundary_mid (R : ℝ) (hR : 0 < R) : uC (a1232Of R (4 * R)) = -1 := by
  rw [uC_a1232Of, uC_a1312Of R (4 * R) hR (by positivity) le_rfl]
  have h1 : (4 * R) / (4 * R) = 1 := by field_simp
  have h2 : cccSin R (4 * R) = 0 := by
    unfold cccSin
    have : 1 - 4 * R * (4 * R) / (16 * R * R) = 0 := by field_simp; ring
    rw [this, Real.sqrt_zero]
  rw [h1, h2]
  apply Complex.ext <;> simp

end Dubins
