/-
  C11JacBridge.lean — the model's loop body `CSpline.jstep` (cspline_eval_dg_dvs) IS the ring formula
  `C11.stepJFormula`: apply the block Jacobians to a list of directions (one per block) and read
  the resulting tangent vectors through a linear representation `ρ` that turns `Ad(exp(−Bj vj))`
  into conjugation and `ad` into the commutator.
-/
import SmoothProofs.C11Bridge
import SmoothProofs.C11Jac

open Lin Scalar

namespace C11

theorem mv_add {n m : Nat} (A : Mat ℝ n m) (x y : Fin m → ℝ) : mv A (x + y) = mv A x + mv A y := by
  funext i; simp [mv, mul_add, Finset.sum_add_distrib]

theorem mv_zero {n m : Nat} (A : Mat ℝ n m) : mv A (0 : Fin m → ℝ) = 0 := by
  funext i; simp [mv]

theorem mv_smul {n m : Nat} (A : Mat ℝ n m) (c : ℝ) (x : Fin m → ℝ) : mv A (c • x) = c • mv A x := by
  funext i; simp only [mv, Pi.smul_apply, smul_eq_mul, Finset.mul_sum]
  apply Finset.sum_congr rfl; intro l _; ring

theorem mv_msmul {n m : Nat} (c : ℝ) (A : Mat ℝ n m) (x : Fin m → ℝ) : mv (msmul c A) x = c • mv A x := by
  funext i; simp only [mv, msmul, Mat.of_get, Pi.smul_apply, smul_eq_mul, Finset.mul_sum]
  apply Finset.sum_congr rfl; intro l _; ring

theorem mv_ident {n : Nat} (x : Fin n → ℝ) : mv (ident n : Mat ℝ n n) x = x := by
  funext i; simp [mv, ident]

/-- `Σ_i D_i w_i`: the block Jacobian applied to one direction per block -/
noncomputable def applyL {n : Nat} : List (Mat ℝ n n) → List (Fin n → ℝ) → (Fin n → ℝ)
  | D :: Ds, w :: ws => mv D w + applyL Ds ws
  | [], _ => 0
  | _ :: _, [] => 0

theorem applyL_map_mmul {n : Nat} (A : Mat ℝ n n) : ∀ (Ds : List (Mat ℝ n n)) (ws : List (Fin n → ℝ)),
    applyL (Ds.map (fun D => mmul A D)) ws = mv A (applyL Ds ws)
  | [], ws => by simp [applyL, mv_zero]
  | D :: Ds, [] => by simp [applyL, mv_zero]
  | D :: Ds, w :: ws => by
    simp only [List.map_cons, applyL, mv_add, mv_mmul]
    rw [applyL_map_mmul A Ds ws]

theorem applyL_append {n : Nat} (N : Mat ℝ n n) (w : Fin n → ℝ) :
    ∀ (Ds : List (Mat ℝ n n)) (ws : List (Fin n → ℝ)), Ds.length = ws.length →
      applyL (Ds ++ [N]) (ws ++ [w]) = applyL Ds ws + mv N w
  | [], [], _ => by simp [applyL]
  | [], _ :: _, h => by simp at h
  | _ :: _, [], h => by simp at h
  | D :: Ds, v :: ws, h => by
    simp only [List.cons_append, applyL]
    rw [applyL_append N w Ds ws (by simpa using h)]
    abel

theorem applyL_zipWith_sub {n : Nat} (P : Mat ℝ n n) :
    ∀ (As Vs : List (Mat ℝ n n)) (ws : List (Fin n → ℝ)), As.length = Vs.length →
      applyL (List.zipWith (fun A V => msub A (mmul P V)) As Vs) ws = applyL As ws - mv P (applyL Vs ws)
  | [], [], ws, _ => by simp [applyL, mv_zero]
  | [], _ :: _, _, h => by simp at h
  | _ :: _, [], _, h => by simp at h
  | A :: As, V :: Vs, [], _ => by simp [applyL, mv_zero]
  | A :: As, V :: Vs, w :: ws, h => by
    simp only [List.zipWith_cons_cons, applyL, mv_msub, mv_mmul, mv_add]
    rw [applyL_zipWith_sub P As Vs ws (by simpa using h)]
    abel

section bridge
variable (G : LieModel ℝ) {𝔸 : Type*} [Ring 𝔸] [Algebra ℝ 𝔸] (ρ : (Fin G.dof → ℝ) →ₗ[ℝ] 𝔸)

/-- the ρ-image of a `JSt` applied to directions `ws` -/
noncomputable def imgJ (s : CSpline.JSt ℝ G) (ws : List (Fin G.dof → ℝ)) (g gi : 𝔸) : JState 𝔸 :=
  ⟨g, gi, ρ s.vel.get, ρ s.acc.get, ρ (applyL s.dg ws), ρ (applyL s.dvel ws), ρ (applyL s.dacc ws)⟩

/-- **The loop body of `cspline_eval_dg_dvs` is the ring formula `stepJFormula`.** -/
theorem jstep_is_stepJFormula
    (had : ∀ (a : Vec ℝ G.dof) (y : Fin G.dof → ℝ), ρ (mv (G.ad a) y) = ρ a.get * ρ y - ρ y * ρ a.get)
    (Bj dBj d2Bj : ℝ) (vj : Vec ℝ G.dof) (s : CSpline.JSt ℝ G) (E Ei g gi : 𝔸)
    (hAd : ∀ x : Fin G.dof → ℝ, ρ (mv (G.Ad (G.exp (vsmul (-Bj) vj))) x) = Ei * ρ x * E)
    (ws : List (Fin G.dof → ℝ)) (w : Fin G.dof → ℝ)
    (h1 : s.dg.length = ws.length) (h2 : s.dvel.length = ws.length) (h3 : s.dacc.length = ws.length) :
    let s' := CSpline.jstep G Bj dBj d2Bj vj s
    let R := ρ (mv (msmul Bj (G.dr_exp (vsmul Bj vj))) w)
    let Rm := ρ (mv (msmul Bj (G.dr_exp (vsmul (-Bj) vj))) w)
    let j' := stepJFormula E Ei (ρ vj.get) (algebraMap ℝ 𝔸 dBj) (algebraMap ℝ 𝔸 d2Bj) R Rm (ρ w)
                (imgJ G ρ s ws g gi)
    ρ (applyL s'.dg (ws ++ [w])) = j'.X ∧ ρ (applyL s'.dvel (ws ++ [w])) = j'.Y ∧
    ρ (applyL s'.dacc (ws ++ [w])) = j'.Z ∧ ρ s'.vel.get = j'.vel ∧ ρ s'.acc.get = j'.acc := by
  intro s' R Rm j'
  -- vel', acc'
  have hvel : s'.vel.get = mv (G.Ad (G.exp (vsmul (-Bj) vj))) s.vel.get + dBj • vj.get := by
    funext i
    simp only [s', CSpline.jstep, memoV_eq, memoM_eq, Vec.of_get, Pi.add_apply, Pi.smul_apply, smul_eq_mul,
      ← mv_get_mulVec]
  have hvel' : ρ s'.vel.get = Ei * ρ s.vel.get * E + algebraMap ℝ 𝔸 dBj * ρ vj.get := by
    rw [hvel, map_add, map_smul, hAd, Algebra.smul_def]
  have hacc : s'.acc.get = mv (G.Ad (G.exp (vsmul (-Bj) vj))) s.acc.get + (dBj • mv (G.ad s'.vel) vj.get + d2Bj • vj.get) := by
    have hm := mulVec_msmul_get dBj (G.ad s'.vel) vj
    funext i
    have hmi := congrFun hm i
    simp only [Pi.smul_apply, smul_eq_mul] at hmi
    simp only [s', CSpline.jstep, memoV_eq, memoM_eq, Vec.of_get, Pi.add_apply, Pi.smul_apply, smul_eq_mul,
      ← mv_get_mulVec] at hmi ⊢
    rw [hmi]
  have hacc' : ρ s'.acc.get = Ei * ρ s.acc.get * E
      + algebraMap ℝ 𝔸 dBj * (ρ s'.vel.get * ρ vj.get - ρ vj.get * ρ s'.vel.get)
      + algebraMap ℝ 𝔸 d2Bj * ρ vj.get := by
    rw [hacc, map_add, map_add, map_smul, map_smul, hAd, had, Algebra.smul_def, Algebra.smul_def]
    noncomm_ring
  -- the three Jacobians applied to the directions
  have hdg : applyL s'.dg (ws ++ [w]) = mv (G.Ad (G.exp (vsmul (-Bj) vj))) (applyL s.dg ws) + mv (msmul Bj (G.dr_exp (vsmul Bj vj))) w := by
    simp only [s', CSpline.jstep, memoV_eq, memoM_eq]
    rw [applyL_append _ _ _ _ (by rw [List.length_map]; exact h1), applyL_map_mmul, mv_madd, mv_mzero, zero_add]
  have hdvelNew : ∀ N : Mat ℝ G.dof G.dof,
      N = madd (madd (mzero _ _) (mmul (mmul (msmul Bj (G.Ad (G.exp (vsmul (-Bj) vj)))) (G.ad s.vel)) (G.dr_exp (vsmul (-Bj) vj)))) (msmul dBj (ident _)) →
      mv N w = mv (G.Ad (G.exp (vsmul (-Bj) vj))) (mv (G.ad s.vel) (mv (msmul Bj (G.dr_exp (vsmul (-Bj) vj))) w)) + dBj • w := by
    intro N hN
    rw [hN, mv_madd, mv_madd, mv_mzero, zero_add, mv_mmul, mv_mmul, mv_msmul, mv_msmul, mv_msmul, mv_ident,
      mv_smul, mv_smul]
  have hdvel : applyL s'.dvel (ws ++ [w]) = mv (G.Ad (G.exp (vsmul (-Bj) vj))) (applyL s.dvel ws)
      + (mv (G.Ad (G.exp (vsmul (-Bj) vj))) (mv (G.ad s.vel) (mv (msmul Bj (G.dr_exp (vsmul (-Bj) vj))) w)) + dBj • w) := by
    simp only [s', CSpline.jstep, memoV_eq, memoM_eq]
    rw [applyL_append _ _ _ _ (by rw [List.length_map]; exact h2), applyL_map_mmul, hdvelNew _ rfl]
  have hdacc : applyL s'.dacc (ws ++ [w]) = mv (G.Ad (G.exp (vsmul (-Bj) vj))) (applyL s.dacc ws)
      - mv (msmul dBj (G.ad vj)) (mv (G.Ad (G.exp (vsmul (-Bj) vj))) (applyL s.dvel ws)
          + (mv (G.Ad (G.exp (vsmul (-Bj) vj))) (mv (G.ad s.vel) (mv (msmul Bj (G.dr_exp (vsmul (-Bj) vj))) w)) + dBj • w))
      + mv (G.Ad (G.exp (vsmul (-Bj) vj))) (mv (G.ad s.acc) (mv (msmul Bj (G.dr_exp (vsmul (-Bj) vj))) w)) + dBj • mv (G.ad s'.vel) w + d2Bj • w := by
    simp only [s', CSpline.jstep, memoV_eq, memoM_eq]
    rw [applyL_append _ _ _ _ (by
      rw [List.length_zipWith, List.length_map, List.length_map, h3, h2, Nat.min_self])]
    rw [applyL_zipWith_sub _ _ _ _ (by rw [List.length_map, List.length_map, h3, h2]), applyL_map_mmul,
      applyL_map_mmul]
    simp only [mv_madd, mv_msub, mv_mzero, mv_mmul, mv_msmul, mv_ident, mv_smul, mv_add, mv_zero]
    module
  have hY : ρ (applyL s'.dvel (ws ++ [w])) = Ei * ρ (applyL s.dvel ws) * E
      + Ei * (ρ s.vel.get * Rm - Rm * ρ s.vel.get) * E + algebraMap ℝ 𝔸 dBj * ρ w := by
    rw [hdvel, map_add, map_add, map_smul, hAd, hAd, had, Algebra.smul_def]
    simp only [Rm]
    noncomm_ring
  refine ⟨?_, hY, ?_, hvel', ?_⟩
  · rw [hdg, map_add, hAd]; rfl
  · rw [hdacc, ← hdvel]
    rw [map_add, map_add, map_add, map_sub, map_smul, map_smul, hAd, hAd, had, had, mv_msmul, map_smul,
      had, hY, hvel']
    simp only [Algebra.smul_def]
    show _ = Ei * ρ (applyL s.dacc ws) * E
        - algebraMap ℝ 𝔸 dBj * (ρ vj.get * (Ei * ρ (applyL s.dvel ws) * E
            + Ei * (ρ s.vel.get * Rm - Rm * ρ s.vel.get) * E + algebraMap ℝ 𝔸 dBj * ρ w)
          - (Ei * ρ (applyL s.dvel ws) * E
            + Ei * (ρ s.vel.get * Rm - Rm * ρ s.vel.get) * E + algebraMap ℝ 𝔸 dBj * ρ w) * ρ vj.get)
        + Ei * (ρ s.acc.get * Rm - Rm * ρ s.acc.get) * E
        + algebraMap ℝ 𝔸 dBj * ((Ei * ρ s.vel.get * E + algebraMap ℝ 𝔸 dBj * ρ vj.get) * ρ w
            - ρ w * (Ei * ρ s.vel.get * E + algebraMap ℝ 𝔸 dBj * ρ vj.get))
        + algebraMap ℝ 𝔸 d2Bj * ρ w
    simp only [Rm]
  · rw [hacc', hvel']; rfl

end bridge

end C11
