/-
  SmoothProofs/Gen/SharedState.lean — GENERATED on every run by tools/props/c18.py (c18scan.py) from
  the current /repo/include/smooth.  Do not edit.  Compared with C18.expectedInventory by `decide`.
-/
import SmoothProofs.C18Inventory

namespace C18.Gen
open C18

def inventory : List Entry := [
  ⟨"BSpline::operator()::Bum", .localStatic, true, .onceInit, []⟩,
  ⟨"MinimizeOptions::strat", .pointerMember, false, .perObject, ["minimize"]⟩,
  ⟨"ad_sparse_pattern", .varTemplate, false, .readOnlyAfterInit, []⟩,
  ⟨"d2_exp_sparse_pattern", .varTemplate, false, .readOnlyAfterInit, []⟩,
  ⟨"d_exp_sparse_pattern", .varTemplate, false, .readOnlyAfterInit, []⟩,
  ⟨"detail::fit_bspline_objective::M", .classStatic, true, .readOnlyAfterInit, []⟩,
  ⟨"generators_sparse", .varTemplate, false, .readOnlyAfterInit, []⟩,
  ⟨"kMappedBasisFunction", .varTemplate, true, .readOnlyAfterInit, []⟩,
  ⟨"lp2d::detail::gfun", .nsVar, true, .readOnlyAfterInit, []⟩,
  ⟨"lp2d::detail::hfun", .nsVar, true, .readOnlyAfterInit, []⟩,
  ⟨"traits::lie_sparse<G>[(std::is_base_of_v<BundleBase<G>,G>)]::d2_exp_sparse_pattern", .classStatic, false, .readOnlyAfterInit, []⟩,
  ⟨"traits::lie_sparse<G>[(std::is_base_of_v<BundleBase<G>,G>)]::d_exp_sparse_pattern", .classStatic, false, .readOnlyAfterInit, []⟩,
  ⟨"traits::lie_sparse<G>[(std::is_base_of_v<SE2Base<G>,G>)]::d2_exp_sparse_pattern", .classStatic, false, .readOnlyAfterInit, []⟩,
  ⟨"traits::lie_sparse<G>[(std::is_base_of_v<SE2Base<G>,G>)]::d_exp_sparse_pattern", .classStatic, false, .readOnlyAfterInit, []⟩,
  ⟨"traits::lie_sparse<G>[(std::is_base_of_v<SE3Base<G>,G>)]::d2_exp_sparse_pattern", .classStatic, false, .readOnlyAfterInit, []⟩,
  ⟨"traits::lie_sparse<G>[(std::is_base_of_v<SE3Base<G>,G>)]::d_exp_sparse_pattern", .classStatic, false, .readOnlyAfterInit, []⟩
]

end C18.Gen
