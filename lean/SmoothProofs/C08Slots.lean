/-
  C08Slots.lean — (i) the restore law for Lie-group arguments over ℝ from `exp(δ)·exp(−δ) = 1`,
  and its lifting to an argument inside a tuple; (ii) a non-commutative witness group with a
  polynomial `exp` (Heisenberg) showing that the order `w1+, w0+, w0−, w1−` matters; (iii) the
  forward-difference error bound (Taylor with remainder).
-/
import SmoothProofs.C08Diff
import SmoothProofs.C07Laws
import Mathlib.Analysis.Calculus.MeanValue
import Mathlib.Analysis.Calculus.Deriv.Pow
import Mathlib.Analysis.Calculus.Deriv.Mul
import Mathlib.Analysis.Calculus.Deriv.Add
import Mathlib.Tactic.Linarith
import Mathlib.Tactic.FieldSimp

open Scalar Lin Diff Manif

set_option linter.unusedSectionVars false
set_option linter.unusedSimpArgs false

namespace C08

/-! ### slots from Manifold models and lenses -/

section slots
variable {α : Type} [Scalar α] {X M : Type}

/-- an argument of manifold type `M` as the whole (one-argument) tuple -/
def slotOfMan (A : Man α M) (coord : Option (M → Nat → α) := none) : Slot α M :=
  { dof := A.dof, rplus := A.rplus, coord := coord }

/-- argument `get x` of a tuple `x` (a lens) -/
def liftSlot (s : Slot α M) (get : X → M) (set : X → M → X) : Slot α X :=
  { dof := fun x => s.dof (get x)
    rplus := fun x a => set x (s.rplus (get x) a)
    coord := s.coord.map (fun c x j => c (get x) j) }

theorem restores_liftSlot {s : Slot α M} (hs : Restores s) (get : X → M) (set : X → M → X)
    (hgs : ∀ x m, get (set x m) = m) (hss : ∀ x m m', set (set x m) m' = set x m')
    (hsg : ∀ x, set x (get x) = x) : Restores (liftSlot s get set) := by
  intro y n j e
  simp only [liftSlot, hgs, hss, hs (get y) n j e, hsg]

end slots

/-! ### Lie groups over ℝ -/

theorem vecOfList_unitVec_neg (n j : Nat) (e : ℝ) :
    (vecOfList (unitVec n j (-e)) : Vec ℝ n) = vneg (vecOfList (unitVec n j e)) := by
  ext i
  simp only [vecOfList, unitVec, vneg, Vec.of, List.getD_eq_getElem?_getD, List.getElem?_map,
    List.getElem?_range i.isLt, Option.map_some, Option.getD_some]
  ring

/-- what C01/C02 give: associativity, right identity, and `exp(δ) ∘ exp(−δ) = 1` -/
structure ExpNegLaws (G : LieModel ℝ) (Valid : Vec ℝ G.rep → Prop) : Prop where
  valid_exp : ∀ a, Valid (G.exp a)
  assoc : ∀ a b c, Valid a → Valid b → Valid c →
    G.composition (G.composition a b) c = G.composition a (G.composition b c)
  comp_id : ∀ g, Valid g → G.composition g G.identity = g
  exp_neg : ∀ a, G.composition (G.exp a) (G.exp (vneg a)) = G.identity

/-- restore law for a Lie-group argument, on valid representations -/
theorem lie_restore (G : LieModel ℝ) (Valid : Vec ℝ G.rep → Prop) (h : ExpNegLaws G Valid)
    (g : Vec ℝ G.rep) (hg : Valid g) (j : Nat) (e : ℝ) :
    lieRplus G (lieRplus G g (unitVec G.dof j e)) (unitVec G.dof j (-e)) = g := by
  simp only [lieRplus, memoV_eq, LieModel.rplus, vecOfList_unitVec_neg]
  rw [h.assoc _ _ _ hg (h.valid_exp _) (h.valid_exp _), h.exp_neg, h.comp_id g hg]

theorem tn_expNegLaws (n : Nat) : ExpNegLaws (Tn.model n : LieModel ℝ) (fun _ => True) where
  valid_exp := by intros; trivial
  assoc := by
    intro a b c _ _ _
    ext i; simp [Tn.model, Tn.composition, vadd, Vec.of]; ring
  comp_id := by
    intro g _
    ext i; simp [Tn.model, Tn.composition, Tn.identity, vadd, vzero, Vec.of]
  exp_neg := by
    intro a
    ext i; simp [Tn.model, Tn.composition, Tn.exp, Tn.identity, vadd, vneg, vzero, Vec.of]

/-- a Lie group whose every representation is valid gives a slot with the restore law (the unit
    vectors handed to `rplus` have the group's dof, as in the code) -/
theorem lie_slot_restores (G : LieModel ℝ) (h : ExpNegLaws G (fun _ => True)) :
    ∀ (y : Vec ℝ G.rep) (j : Nat) (e : ℝ),
      (slotOfMan (ofLie G)).rplus ((slotOfMan (ofLie G)).rplus y (unitVec G.dof j e))
        (unitVec G.dof j (-e)) = y :=
  fun y j e => lie_restore G _ h y trivial j e

/-! ### a non-commutative witness with polynomial exp: the Heisenberg group -/

noncomputable section
namespace Heis

/-- `(a, b, c)` stands for the unitriangular matrix `[[1, a, c], [0, 1, b], [0, 0, 1]]` -/
def mul (g h : ℝ × ℝ × ℝ) : ℝ × ℝ × ℝ := (g.1 + h.1, g.2.1 + h.2.1, g.2.2 + h.2.2 + g.1 * h.2.1)

/-- matrix exponential of the strictly upper triangular `[[0, x, z], [0, 0, y], [0, 0, 0]]` -/
def exp (a : List ℝ) : ℝ × ℝ × ℝ := (a.getD 0 0, a.getD 1 0, a.getD 2 0 + a.getD 0 0 * a.getD 1 0 / 2)

def slot : Slot ℝ (ℝ × ℝ × ℝ) :=
  { dof := fun _ => 3, rplus := fun g a => mul g (exp a), coord := none }

theorem unitVec3 (j : Nat) (e : ℝ) :
    unitVec 3 j e = [e * (if 0 = j then 1 else 0), e * (if 1 = j then 1 else 0), e * (if 2 = j then 1 else 0)] := by
  simp [unitVec, List.range_succ]

theorem restores (g : ℝ × ℝ × ℝ) (j : Nat) (e : ℝ) :
    slot.rplus (slot.rplus g (unitVec 3 j e)) (unitVec 3 j (-e)) = g := by
  obtain ⟨a, b, c⟩ := g
  simp only [slot, mul, exp, unitVec3, List.getD_cons_zero, List.getD_cons_succ]
  match j with
  | 0 => refine Prod.ext ?_ (Prod.ext ?_ ?_) <;> simp
  | 1 => refine Prod.ext ?_ (Prod.ext ?_ ?_) <;> simp
  | 2 => refine Prod.ext ?_ (Prod.ext ?_ ?_) <;> simp
  | (j + 3) => refine Prod.ext ?_ (Prod.ext ?_ ?_) <;> simp

/-- the code's order `w1+, w0+, w0−, w1−` returns to the start … -/
theorem nested_order_returns (g : ℝ × ℝ × ℝ) (k0 k1 : Nat) (e0 e1 : ℝ) :
    slot.rplus (slot.rplus (slot.rplus (slot.rplus g (unitVec 3 k1 e1)) (unitVec 3 k0 e0))
      (unitVec 3 k0 (-e0))) (unitVec 3 k1 (-e1)) = g := by
  rw [restores, restores]

/-- … whereas the order `w1+, w0+, w1−, w0−` does not: the group is not commutative -/
theorem crossed_order_does_not_return :
    slot.rplus (slot.rplus (slot.rplus (slot.rplus (0, 0, 0) (unitVec 3 0 1)) (unitVec 3 1 1))
      (unitVec 3 0 (-1))) (unitVec 3 1 (-1)) ≠ (0, 0, 0) := by
  simp only [slot, mul, exp, unitVec3, List.getD_cons_zero, List.getD_cons_succ]
  norm_num

end Heis
end

/-! ### forward difference error -/

open Set in
/-- Taylor with remainder: if `g(0) = 0`, `g' = dg`, `dg' = d2g` on `[0, ε]` and `|d2g| ≤ L`
    there, the forward difference quotient `g(ε)/ε` is within `L ε / 2` of `dg 0` -/
theorem forward_quotient_bound (g dg d2g : ℝ → ℝ) (ε L : ℝ) (hε : 0 < ε)
    (hg : ∀ t ∈ Icc 0 ε, HasDerivAt g (dg t) t)
    (hdg : ∀ t ∈ Icc 0 ε, HasDerivAt dg (d2g t) t)
    (hL : ∀ t ∈ Icc 0 ε, |d2g t| ≤ L) (h0 : g 0 = 0) :
    |g ε / ε - dg 0| ≤ L * ε / 2 := by
  -- |dg t − dg 0| ≤ L t
  have h1 : ∀ t ∈ Icc 0 ε, |dg t - dg 0| ≤ L * t := by
    intro t ht
    have := norm_image_sub_le_of_norm_deriv_le_segment' (f := dg) (f' := d2g) (a := 0) (b := ε) (C := L)
      (fun x hx => (hdg x hx).hasDerivWithinAt)
      (fun x hx => by simpa using hL x (Ico_subset_Icc_self hx)) t ht
    simpa using this
  have hcont : ContinuousOn (fun t => g t - dg 0 * t) (Icc 0 ε) := by
    intro t ht
    exact ((hg t ht).continuousAt.sub (continuousAt_const.mul continuousAt_id)).continuousWithinAt
  have hder : ∀ t ∈ Ico 0 ε, HasDerivWithinAt (fun t => g t - dg 0 * t) (dg t - dg 0) (Ici t) t := by
    intro t ht
    have h := (hg t (Ico_subset_Icc_self ht)).sub ((hasDerivAt_id' t).const_mul (dg 0))
    have h' : HasDerivAt (fun t => g t - dg 0 * t) (dg t - dg 0) t :=
      h.congr_deriv (by ring)
    exact h'.hasDerivWithinAt
  have hB : ContinuousOn (fun t : ℝ => L * t ^ 2 / 2) (Icc 0 ε) := by fun_prop
  have hB' : ∀ t ∈ Ico 0 ε, HasDerivWithinAt (fun t : ℝ => L * t ^ 2 / 2) (L * t) (Ici t) t := by
    intro t _
    have h := (((hasDerivAt_pow 2 t).const_mul L).div_const 2)
    have h' : HasDerivAt (fun t : ℝ => L * t ^ 2 / 2) (L * t) t :=
      h.congr_deriv (by norm_num; ring)
    exact h'.hasDerivWithinAt
  -- upper bound
  have hup := image_le_of_deriv_right_le_deriv_boundary (f := fun t => g t - dg 0 * t)
    (f' := fun t => dg t - dg 0) hcont hder (B := fun t => L * t ^ 2 / 2) (B' := fun t => L * t)
    (by simp [h0]) hB hB'
    (fun t ht => (le_abs_self _).trans (h1 t (Ico_subset_Icc_self ht)))
    (right_mem_Icc.2 hε.le)
  -- lower bound (apply the same to −h)
  have hcont' : ContinuousOn (fun t => -(g t - dg 0 * t)) (Icc 0 ε) := hcont.neg
  have hder' : ∀ t ∈ Ico 0 ε,
      HasDerivWithinAt (fun t => -(g t - dg 0 * t)) (-(dg t - dg 0)) (Ici t) t :=
    fun t ht => (hder t ht).neg
  have hlo := image_le_of_deriv_right_le_deriv_boundary (f := fun t => -(g t - dg 0 * t))
    (f' := fun t => -(dg t - dg 0)) hcont' hder' (B := fun t => L * t ^ 2 / 2) (B' := fun t => L * t)
    (by simp [h0]) hB hB'
    (fun t ht => (neg_le_abs _).trans (h1 t (Ico_subset_Icc_self ht)))
    (right_mem_Icc.2 hε.le)
  have hup' : g ε - dg 0 * ε ≤ L * ε ^ 2 / 2 := hup
  have hlo' : -(g ε - dg 0 * ε) ≤ L * ε ^ 2 / 2 := hlo
  have habs : |g ε - dg 0 * ε| ≤ L * ε ^ 2 / 2 := abs_le.2 ⟨by linarith, hup'⟩
  have : g ε / ε - dg 0 = (g ε - dg 0 * ε) / ε := by field_simp
  rw [this, abs_div, abs_of_pos hε, div_le_iff₀ hε]
  calc |g ε - dg 0 * ε| ≤ L * ε ^ 2 / 2 := habs
    _ = L * ε / 2 * ε := by ring

end C08
