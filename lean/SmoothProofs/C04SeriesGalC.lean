/-
  C04SeriesGalC.lean — the blocks of `X²`, `Z₁ = X²X² + nX²`, `Z₂ = X²Z₁ + nZ₁` for `X = ad a` of
  Galilei, the relation `X²Z₂ + nZ₂ = 0` (i.e. `X²(X²+n)³ = 0`), and the blocks of `X·X²`, `X·Z₁`,
  `X·Z₂`.  All 3×3 block identities are polynomial identities in the coordinates (`ring`).
-/
import SmoothProofs.C04SeriesGalB

open Lin Scalar
set_option linter.unusedSimpArgs false

namespace C04SeriesGal
open C04Alg C04SO3 C04Series C04SeriesSE3 C05dQ

/-- `−s·I` as the model writes it -/
noncomputable def sI (s : ℝ) : Mat ℝ 3 3 := .of (fun i j => (-s) * (ident 3 : Mat ℝ 3 3) i j)
/-- `L_b = 3W²B + 2WBW + BN` -/
noncomputable def Lb (b w : Vec ℝ 3) : Mat ℝ 3 3 :=
  madd (madd (msmul 3 (mmul (W2 w) (SO3.hat b))) (msmul 2 (mmul (mmul (SO3.hat w) (SO3.hat b)) (SO3.hat w))))
    (mmul (SO3.hat b) (Nm w))
/-- `K_b = 2W·U_b + N·L_b` -/
noncomputable def Kb (b w : Vec ℝ 3) : Mat ℝ 3 3 :=
  madd (msmul 2 (mmul (SO3.hat w) (Um b w))) (mmul (Nm w) (Lb b w))

macro "blk9" : tactic => `(tactic|
  (ext c c'
   fin_cases c <;> fin_cases c' <;>
   simp only [W2, T2, Nm, Um, Lb, Kb, sI, madd, msmul, mneg, mzero, ident, Mat.of_get, C04Alg.mmul3, hat_00,
     hat_01, hat_02, hat_10, hat_11, hat_12, hat_20, hat_21, hat_22,
     Fin.isValue, Fin.reduceEq, ↓reduceIte, Fin.zero_eta, Fin.mk_one, Fin.reduceFinMk,
     Scalar.nat_real, Nat.cast_ofNat, Nat.cast_zero, Nat.cast_one, C04Alg.sqNorm3] <;>
   ring))

macro "vec3" : tactic => `(tactic|
  (ext c
   fin_cases c <;>
   simp only [W2, vadd, vsmul, vzero, mulVec_apply, Fin.sum_univ_three, Vec.of_get, Mat.of_get, C04Alg.mmul3, hat_00,
     hat_01, hat_02, hat_10, hat_11, hat_12, hat_20, hat_21, hat_22,
     Fin.isValue, Fin.reduceEq, ↓reduceIte, Fin.zero_eta, Fin.mk_one, Fin.reduceFinMk,
     Scalar.nat_real, Nat.cast_ofNat, Nat.cast_zero, Nat.cast_one, C04Alg.sqNorm3] <;>
   ring))

section blocks
variable (b q w : Vec ℝ 3) (s : ℝ)

/-- `X` -/
noncomputable def Xg : Mat ℝ 10 10 :=
  gsh (SO3.hat w) (SO3.hat b) (sI s) (SO3.hat w) (SO3.hat q) (SO3.hat w) b 0

/-- `X²` -/
noncomputable def X2g : Mat ℝ 10 10 :=
  gsh (W2 w) (T2 b w) (msmul (-2 * s) (SO3.hat w)) (W2 w) (madd (T2 q w) (msmul (-s) (SO3.hat b))) (W2 w)
    (mulVec (SO3.hat w) b) 0

/-- `Z₁ = X²·X² + n·X²` -/
noncomputable def Z1g : Mat ℝ 10 10 :=
  gsh (mzero 3 3) (Um b w) (msmul (2 * s * sqNorm w) (SO3.hat w)) (mzero 3 3)
    (madd (Um q w) (msmul (-s) (Lb b w))) (mzero 3 3) (vzero 3) 0

/-- `Z₂ = X²·Z₁ + n·Z₁` -/
noncomputable def Z2g : Mat ℝ 10 10 :=
  gsh (mzero 3 3) (mzero 3 3) (mzero 3 3) (mzero 3 3) (msmul (-s) (Kb b w)) (mzero 3 3) (vzero 3) 0

theorem sq_pv : madd (mmul (sI s) (SO3.hat w)) (mmul (SO3.hat w) (sI s)) = msmul (-2 * s) (SO3.hat w) := by blk9

theorem sq_pw : madd (madd (mmul (sI s) (SO3.hat b)) (mmul (SO3.hat w) (SO3.hat q))) (mmul (SO3.hat q) (SO3.hat w))
    = madd (T2 q w) (msmul (-s) (SO3.hat b)) := by blk9

theorem sq_c : vadd (mulVec (SO3.hat w) b) (vsmul 0 b) = mulVec (SO3.hat w) b := by
  ext c; simp [vadd, vsmul]

theorem X_sq : mmul (Xg b q w s) (Xg b q w s) = X2g b q w s := by
  unfold Xg X2g
  rw [gsh_mul]
  exact gsh_congr rfl rfl (sq_pv w s) rfl (sq_pw b q w s) rfl (sq_c b w) (by ring)

/-! #### `Z₁` -/

theorem z1_vv : madd (mmul (W2 w) (W2 w)) (msmul (sqNorm w) (W2 w)) = mzero 3 3 := by blk9

theorem z1_vw (v : Vec ℝ 3) : madd (madd (mmul (W2 w) (T2 v w)) (mmul (T2 v w) (W2 w))) (msmul (sqNorm w) (T2 v w))
    = Um v w := by blk9

theorem z1_pv : madd (madd (mmul (msmul (-2 * s) (SO3.hat w)) (W2 w)) (mmul (W2 w) (msmul (-2 * s) (SO3.hat w))))
      (msmul (sqNorm w) (msmul (-2 * s) (SO3.hat w)))
    = msmul (2 * s * sqNorm w) (SO3.hat w) := by blk9

theorem z1_pw : madd (madd (madd (mmul (msmul (-2 * s) (SO3.hat w)) (T2 b w))
        (mmul (W2 w) (madd (T2 q w) (msmul (-s) (SO3.hat b)))))
        (mmul (madd (T2 q w) (msmul (-s) (SO3.hat b))) (W2 w)))
      (msmul (sqNorm w) (madd (T2 q w) (msmul (-s) (SO3.hat b))))
    = madd (Um q w) (msmul (-s) (Lb b w)) := by blk9

theorem z1_c : vadd (vadd (mulVec (W2 w) (mulVec (SO3.hat w) b)) (vsmul 0 (mulVec (SO3.hat w) b)))
      (vsmul (sqNorm w) (mulVec (SO3.hat w) b)) = vzero 3 := by vec3

theorem Z1_eq : madd (mmul (X2g b q w s) (X2g b q w s)) (msmul (sqNorm w) (X2g b q w s)) = Z1g b q w s := by
  unfold X2g Z1g
  rw [gsh_mul, gsh_msmul, gsh_madd]
  exact gsh_congr (z1_vv w) (z1_vw w b) (z1_pv w s) (z1_vv w) (z1_pw b q w s) (z1_vv w) (z1_c b w) (by ring)

/-! #### `Z₂` -/

theorem mmul_zero_r (A : Mat ℝ 3 3) : mmul A (mzero 3 3) = mzero 3 3 := C04SEK3.mmul_mzero_right A

theorem z2_vv : madd (mmul (W2 w) (mzero 3 3)) (msmul (sqNorm w) (mzero 3 3)) = mzero 3 3 := by blk9

theorem z2_vw (v : Vec ℝ 3) : madd (madd (mmul (W2 w) (Um v w)) (mmul (T2 v w) (mzero 3 3))) (msmul (sqNorm w) (Um v w))
    = mzero 3 3 := by blk9

theorem z2_pv : madd (madd (mmul (msmul (-2 * s) (SO3.hat w)) (mzero 3 3))
        (mmul (W2 w) (msmul (2 * s * sqNorm w) (SO3.hat w))))
      (msmul (sqNorm w) (msmul (2 * s * sqNorm w) (SO3.hat w))) = mzero 3 3 := by blk9

/-- the `Q`-part of the `(q, ω)` block of `Z₂` vanishes (as for SE3) -/
theorem z2_pw_q : madd (mmul (W2 w) (Um q w)) (msmul (sqNorm w) (Um q w)) = mzero 3 3 := by blk9

/-- the `b`-part of the `(q, ω)` block of `Z₂`, per unit `−s` -/
theorem z2_pw_b : madd (madd (msmul 2 (mmul (SO3.hat w) (Um b w))) (mmul (W2 w) (Lb b w)))
      (msmul (sqNorm w) (Lb b w)) = Kb b w := by blk9

theorem z2_pw : madd (madd (madd (mmul (msmul (-2 * s) (SO3.hat w)) (Um b w))
        (mmul (W2 w) (madd (Um q w) (msmul (-s) (Lb b w)))))
        (mmul (madd (T2 q w) (msmul (-s) (SO3.hat b))) (mzero 3 3)))
      (msmul (sqNorm w) (madd (Um q w) (msmul (-s) (Lb b w))))
    = msmul (-s) (Kb b w) := by
  ext c c'
  have hq := congrArg (fun M : Mat ℝ 3 3 => M c c') (z2_pw_q q w)
  have hb := congrArg (fun M : Mat ℝ 3 3 => M c c') (z2_pw_b b w)
  simp only [madd, msmul, mzero, Mat.of_get, C04Alg.mmul3, Nat.cast_zero, Scalar.nat_real] at hq hb ⊢
  linear_combination hq + (-s) * hb

theorem z2_c : vadd (vadd (mulVec (W2 w) (vzero 3)) (vsmul 0 (mulVec (SO3.hat w) b)))
      (vsmul (sqNorm w) (vzero 3)) = vzero 3 := by
  ext c; simp [vadd, vsmul, vzero, mulVec_apply]

theorem Z2_eq : madd (mmul (X2g b q w s) (Z1g b q w s)) (msmul (sqNorm w) (Z1g b q w s)) = Z2g b w s := by
  unfold X2g Z1g Z2g
  rw [gsh_mul, gsh_msmul, gsh_madd]
  exact gsh_congr (z2_vv w) (z2_vw w b) (z2_pv w s) (z2_vv w) (z2_pw b q w s) (z2_vv w) (z2_c b w) (by ring)

/-! #### `Z₃ = X²·Z₂ + n·Z₂ = 0`, i.e. `X²(X² + n)³ = 0` -/

theorem z3_vw (v : Vec ℝ 3) : madd (madd (mmul (W2 w) (mzero 3 3)) (mmul (T2 v w) (mzero 3 3)))
    (msmul (sqNorm w) (mzero 3 3)) = mzero 3 3 := by blk9

theorem z3_pv : madd (madd (mmul (msmul (-2 * s) (SO3.hat w)) (mzero 3 3)) (mmul (W2 w) (mzero 3 3)))
    (msmul (sqNorm w) (mzero 3 3)) = mzero 3 3 := by blk9

/-- `N·K_b = 0` (uses `N·W = 0` and `N·B·N = 0`) -/
theorem z3_k : madd (mmul (W2 w) (Kb b w)) (msmul (sqNorm w) (Kb b w)) = mzero 3 3 := by blk9

theorem z3_pw : madd (madd (madd (mmul (msmul (-2 * s) (SO3.hat w)) (mzero 3 3))
        (mmul (W2 w) (msmul (-s) (Kb b w))))
        (mmul (madd (T2 q w) (msmul (-s) (SO3.hat b))) (mzero 3 3)))
      (msmul (sqNorm w) (msmul (-s) (Kb b w)))
    = mzero 3 3 := by
  ext c c'
  have hk := congrArg (fun M : Mat ℝ 3 3 => M c c') (z3_k b w)
  simp only [madd, msmul, mzero, Mat.of_get, C04Alg.mmul3, Nat.cast_zero, Scalar.nat_real] at hk ⊢
  linear_combination (-s) * hk

theorem z3_c : vadd (vadd (mulVec (W2 w) (vzero 3)) (vsmul 0 (mulVec (SO3.hat w) b)))
      (vsmul (sqNorm w) (vzero 3)) = vzero 3 := z2_c b w

theorem Z3_eq : madd (mmul (X2g b q w s) (Z2g b w s)) (msmul (sqNorm w) (Z2g b w s)) = mzero 10 10 := by
  unfold X2g Z2g
  rw [gsh_mul, gsh_msmul, gsh_madd, ← gsh_zero]
  exact gsh_congr (z2_vv w) (z3_vw w b) (z3_pv w s) (z2_vv w) (z3_pw b q w s) (z2_vv w) (z3_c b w) (by ring)

end blocks

end C04SeriesGal
