/-
  C20ExactOrtho.lean — orthogonality of the exact degree-≤10 Legendre / Chebyshev / Hermite / Laguerre
  polynomials with respect to the moment functional of their weight (moments as closed forms in
  C20Tables.lean: `momLegendre` … `momLaguerre`; Chebyshev moments are normalised by π, Hermite by √π).
  Tables for K < 10 are top-left blocks of the K = 10 table (`*_block_exact`), so K = 10 covers all.
-/
import SmoothProofs.C20Tables
import SmoothProofs.C20Exact

namespace C20T
open Poly
set_option maxRecDepth 100000

theorem legendre_ortho_exact :
    orthoOK (Exact.basis .Legendre 10) 10 momLegendre (fun n => 2 / (2 * (n : Q) + 1)) = true := by decide +kernel
theorem cheb1_ortho_exact :
    orthoOK (Exact.basis .Chebyshev1st 10) 10 momCheb1 (fun n => if n = 0 then 1 else 1/2) = true := by decide +kernel
theorem cheb2_ortho_exact :
    orthoOK (Exact.basis .Chebyshev2nd 10) 10 momCheb2 (fun _ => 1/2) = true := by decide +kernel
theorem hermite_ortho_exact :
    orthoOK (Exact.basis .Hermite 10) 10 momHermite (fun n => powQ 2 n * ((fact n : Nat) : Q)) = true := by decide +kernel
theorem laguerre_ortho_exact :
    orthoOK (Exact.basis .Laguerre 10) 10 momLaguerre (fun _ => 1) = true := by decide +kernel

end C20T
