/-
  C13Base.lean — index/clamp arithmetic of `BSpline::operator()` (SmoothModel/BSpline.lean) over ℝ:
  truncation toward zero, the three branches of `select`, window membership.  Namespace `C13`.
-/
import SmoothProofs.Real
import Mathlib.Algebra.Order.Floor.Ring
import Mathlib.Algebra.Order.Field.Basic
import Mathlib.Tactic.Linarith
import Mathlib.Tactic.Ring
import Mathlib.Tactic.FieldSimp
import Mathlib.Tactic.Positivity

open Lin Scalar

/-- `static_cast<int64_t>` over ℝ: truncation toward zero (no overflow in the mathematical model) -/
noncomputable instance : ScalarTrunc ℝ := ⟨fun x => if 0 ≤ x then ⌊x⌋ else ⌈x⌉⟩

namespace C13

theorem trunc_def (x : ℝ) : ScalarTrunc.trunc x = if 0 ≤ x then ⌊x⌋ else ⌈x⌉ := rfl

/-- the quotient is clamped to `[−1, N]` before the cast -/
theorem clampQ_def (N : Nat) (q : ℝ) :
    BSpline.clampQ N q = if q < -1 then -1 else if (N : ℝ) < q then (N : ℝ) else q := by
  unfold BSpline.clampQ BSpline.clamp
  simp only [Scalar.nat_real, Nat.cast_one]

theorem clampQ_eq_self {N : Nat} {q : ℝ} (h0 : -1 ≤ q) (h1 : q ≤ N) : BSpline.clampQ N q = q := by
  rw [clampQ_def, if_neg (not_lt.mpr h0), if_neg (not_lt.mpr h1)]

theorem clampQ_bounds (N : Nat) (q : ℝ) : -1 ≤ BSpline.clampQ N q ∧ BSpline.clampQ N q ≤ N := by
  rw [clampQ_def]
  have hN : (0 : ℝ) ≤ N := Nat.cast_nonneg N
  split_ifs with h1 h2
  · constructor <;> linarith
  · constructor <;> linarith
  · exact ⟨not_lt.mp h1, not_lt.mp h2⟩

theorem clampQ_nonpos {N : Nat} {q : ℝ} (h : q ≤ 0) : BSpline.clampQ N q ≤ 0 := by
  rw [clampQ_def]
  have hN : (0 : ℝ) ≤ N := Nat.cast_nonneg N
  split_ifs with h1 h2 <;> linarith

theorem le_clampQ {N n : Nat} {q : ℝ} (hn : n ≤ N) (h : (n : ℝ) ≤ q) : (n : ℝ) ≤ BSpline.clampQ N q := by
  rw [clampQ_def]
  have h0 : (0 : ℝ) ≤ n := Nat.cast_nonneg n
  have hnN : (n : ℝ) ≤ N := by exact_mod_cast hn
  split_ifs with h1 h2 <;> linarith

theorem clampQ_le_neg_one_iff (N : Nat) (q : ℝ) : BSpline.clampQ N q ≤ -1 ↔ q ≤ -1 := by
  rw [clampQ_def]
  have hN : (0 : ℝ) ≤ N := Nat.cast_nonneg N
  split_ifs with h1 h2
  · constructor <;> intro <;> linarith
  · constructor <;> intro <;> linarith
  · exact Iff.rfl

theorem rawIndex_eq (N : Nat) (t0 dt t : ℝ) :
    BSpline.rawIndex N t0 dt t = ScalarTrunc.trunc (BSpline.clampQ N ((t - t0) / dt)) := rfl

theorem trunc_nonneg {x : ℝ} (h : 0 ≤ x) : ScalarTrunc.trunc x = ⌊x⌋ := by
  rw [trunc_def, if_pos h]

theorem trunc_neg_iff (x : ℝ) : ScalarTrunc.trunc x < 0 ↔ x ≤ -1 := by
  rw [trunc_def]
  split_ifs with h
  · constructor
    · intro h2; have := Int.floor_nonneg.mpr h; omega
    · intro h2; linarith
  · rw [not_le] at h
    constructor
    · intro h2
      have : ⌈x⌉ ≤ -1 := by omega
      have := Int.ceil_le.mp this
      simpa using this
    · intro h2
      have : ⌈x⌉ ≤ -1 := Int.ceil_le.mpr (by simpa using h2)
      omega

theorem trunc_nonpos {x : ℝ} (h : x ≤ 0) : ScalarTrunc.trunc x ≤ 0 := by
  rw [trunc_def]
  split_ifs with h0
  · have : x = 0 := le_antisymm h h0
    subst this; simp
  · exact Int.ceil_le.mpr (by simpa using h)

theorem le_trunc_of_natCast_le {x : ℝ} {n : Nat} (h : (n : ℝ) ≤ x) : (n : Int) ≤ ScalarTrunc.trunc x := by
  have h0 : (0 : ℝ) ≤ x := le_trans (Nat.cast_nonneg n) h
  rw [trunc_nonneg h0]
  exact Int.le_floor.mpr (by simpa using h)

theorem clamp_mem (v : ℝ) : 0 ≤ BSpline.clamp v 0 1 ∧ BSpline.clamp v 0 1 ≤ 1 := by
  unfold BSpline.clamp
  split_ifs with h1 h2
  · exact ⟨le_refl _, zero_le_one⟩
  · exact ⟨zero_le_one, le_refl _⟩
  · exact ⟨not_lt.mp h1, not_lt.mp h2⟩

theorem clamp_of_mem {v : ℝ} (h0 : 0 ≤ v) (h1 : v ≤ 1) : BSpline.clamp v 0 1 = v := by
  unfold BSpline.clamp
  rw [if_neg (not_lt.mpr h0), if_neg (not_lt.mpr h1)]

theorem clamp_of_nonpos {v : ℝ} (h0 : v ≤ 0) : BSpline.clamp v 0 1 = 0 := by
  rcases lt_or_eq_of_le h0 with h | h
  · unfold BSpline.clamp
    rw [if_pos h]
  · subst h; exact clamp_of_mem (le_refl _) zero_le_one

/-- `select` in terms of the raw index -/
theorem select_eq (K N : Nat) (t0 dt t : ℝ) :
    BSpline.select K N t0 dt t =
      if BSpline.rawIndex N t0 dt t < 0 then (0, 0)
      else if BSpline.rawIndex N t0 dt t + ((K : Int) + 1) > (N : Int) then (N - K - 1, 1)
      else ((BSpline.rawIndex N t0 dt t).toNat,
            BSpline.clamp ((t - t0 - ((BSpline.rawIndex N t0 dt t).toNat : ℝ) * dt) / dt) 0 1) := by
  unfold BSpline.select
  simp only [Scalar.nat_real, Nat.cast_zero, Nat.cast_one]

/-- the raw index is the floor of the quotient when the quotient is in `[0, N]` -/
theorem rawIndex_of_mem {N : Nat} {t0 dt t : ℝ} (h0 : 0 ≤ (t - t0) / dt) (h1 : (t - t0) / dt ≤ N) :
    BSpline.rawIndex N t0 dt t = ⌊(t - t0) / dt⌋ := by
  rw [rawIndex_eq, clampQ_eq_self (by linarith) h1, trunc_nonneg h0]

theorem rawIndex_nonpos {N : Nat} {t0 dt t : ℝ} (h : (t - t0) / dt ≤ 0) : BSpline.rawIndex N t0 dt t ≤ 0 := by
  rw [rawIndex_eq]; exact trunc_nonpos (clampQ_nonpos h)

theorem le_rawIndex {N n : Nat} {t0 dt t : ℝ} (hn : n ≤ N) (h : (n : ℝ) ≤ (t - t0) / dt) :
    (n : Int) ≤ BSpline.rawIndex N t0 dt t := by
  rw [rawIndex_eq]; exact le_trunc_of_natCast_le (le_clampQ hn h)

theorem rawIndex_bounds (N : Nat) (t0 dt t : ℝ) :
    -1 ≤ BSpline.rawIndex N t0 dt t ∧ BSpline.rawIndex N t0 dt t ≤ N := by
  rw [rawIndex_eq]
  obtain ⟨h0, h1⟩ := clampQ_bounds N ((t - t0) / dt)
  generalize BSpline.clampQ N ((t - t0) / dt) = y at h0 h1
  rw [trunc_def]
  split_ifs with h
  · constructor
    · have := Int.floor_nonneg.mpr h; omega
    · have : ⌊y⌋ ≤ (N : Int) := by
        have h2 : ((⌊y⌋ : Int) : ℝ) ≤ (N : ℝ) := le_trans (Int.floor_le y) h1
        exact_mod_cast h2
      exact this
  · rw [not_le] at h
    constructor
    · have : ((-1 : Int) : ℝ) ≤ y := by push_cast; exact h0
      have h2 : (-1 : Int) ≤ ⌈y⌉ := by
        have : ((-1 : Int) : ℝ) ≤ ((⌈y⌉ : Int) : ℝ) := le_trans this (Int.le_ceil y)
        exact_mod_cast this
      exact h2
    · have : ⌈y⌉ ≤ 0 := Int.ceil_le.mpr (by push_cast; linarith)
      have hN : (0 : Int) ≤ N := Int.natCast_nonneg N
      omega

end C13
