/-
  C04Galilei.lean — Galilei: `dr_exp a · dr_expinv a = I` (and the other order) in the closed branch.
  Both 10×10 Jacobians have the block shape (rows/cols `b[0:3] q[3:6] s[6] w[7:10]`)
  `[[A00, 0, 0, A03], [A10, A11, c, A13], [0, 0, 1, 0], [0, 0, 0, A33]]`; the product of two such
  matrices is again of this shape (`gshape_mul`), and the block identities follow from
  `S1·S1inv = I` alone (any `S2, Q_b, Q_q, R`).
-/
import SmoothProofs.C04SE3
import SmoothProofs.C01Block
import Mathlib.Tactic.Module
import Mathlib.Tactic.NoncommRing

open Lin Scalar
set_option linter.unusedSimpArgs false

namespace C04Galilei

/-- the block shape of the Galilei Jacobians, built exactly like the model builds them -/
noncomputable def gshape (A00 A03 A10 A11 A13 A33 : Mat ℝ 3 3) (c : Vec ℝ 3) : Mat ℝ 10 10 :=
  let Z : Mat ℝ 10 10 := mzero 10 10
  let M1 := Galilei.blockSet (Galilei.blockSet Z 0 0 A00) 0 7 A03
  let M2 := Galilei.blockSet (Galilei.blockSet (Galilei.blockSet M1 3 0 A10) 3 3 A11) 3 7 A13
  let M3 := Galilei.blockSet M2 7 7 A33
  (.of (fun i j =>
    if hi : 3 ≤ i.val ∧ i.val < 6 ∧ j.val = 6 then c ⟨i.val - 3, by omega⟩
    else if i.val = 6 ∧ j.val = 6 then nat 1
    else M3 i j))

/-- index embeddings of the four tangent blocks -/
def ib (c : Fin 3) : Fin 10 := ⟨c.val, by omega⟩
def iq (c : Fin 3) : Fin 10 := ⟨3 + c.val, by omega⟩
def is : Fin 10 := 6
def iw (c : Fin 3) : Fin 10 := ⟨7 + c.val, by omega⟩

theorem sum10 (F : Fin 10 → ℝ) :
    ∑ l, F l = (∑ c, F (ib c)) + (∑ c, F (iq c)) + F is + ∑ c, F (iw c) := by
  simp only [Fin.sum_univ_succ, Fin.sum_univ_zero, ib, iq, is, iw]
  simp
  ring

theorem idx_cases (P : Fin 10 → Prop) (hb : ∀ c, P (ib c)) (hq : ∀ c, P (iq c)) (hs : P is)
    (hw : ∀ c, P (iw c)) : ∀ i, P i := by
  intro i
  fin_cases i
  · exact hb 0
  · exact hb 1
  · exact hb 2
  · exact hq 0
  · exact hq 1
  · exact hq 2
  · exact hs
  · exact hw 0
  · exact hw 1
  · exact hw 2

section entries
variable (A00 A03 A10 A11 A13 A33 : Mat ℝ 3 3) (v : Vec ℝ 3)

macro "gs_entry" : tactic => `(tactic|
  (intro c c'; fin_cases c <;> fin_cases c' <;>
    simp [gshape, Galilei.blockSet, mzero, ib, iq, is, iw]))
macro "gs_entry1" : tactic => `(tactic|
  (intro c; fin_cases c <;> simp [gshape, Galilei.blockSet, mzero, ib, iq, is, iw]))

theorem g_bb : ∀ c c', (gshape A00 A03 A10 A11 A13 A33 v) (ib c) (ib c') = A00 c c' := by gs_entry
theorem g_bq : ∀ c c', (gshape A00 A03 A10 A11 A13 A33 v) (ib c) (iq c') = 0 := by gs_entry
theorem g_bs : ∀ c, (gshape A00 A03 A10 A11 A13 A33 v) (ib c) is = 0 := by gs_entry1
theorem g_bw : ∀ c c', (gshape A00 A03 A10 A11 A13 A33 v) (ib c) (iw c') = A03 c c' := by gs_entry
theorem g_qb : ∀ c c', (gshape A00 A03 A10 A11 A13 A33 v) (iq c) (ib c') = A10 c c' := by gs_entry
theorem g_qq : ∀ c c', (gshape A00 A03 A10 A11 A13 A33 v) (iq c) (iq c') = A11 c c' := by gs_entry
theorem g_qs : ∀ c, (gshape A00 A03 A10 A11 A13 A33 v) (iq c) is = v c := by gs_entry1
theorem g_qw : ∀ c c', (gshape A00 A03 A10 A11 A13 A33 v) (iq c) (iw c') = A13 c c' := by gs_entry
theorem g_sb : ∀ c, (gshape A00 A03 A10 A11 A13 A33 v) is (ib c) = 0 := by gs_entry1
theorem g_sq : ∀ c, (gshape A00 A03 A10 A11 A13 A33 v) is (iq c) = 0 := by gs_entry1
theorem g_ss : (gshape A00 A03 A10 A11 A13 A33 v) is is = 1 := by
  simp [gshape, Galilei.blockSet, mzero, is]
theorem g_sw : ∀ c, (gshape A00 A03 A10 A11 A13 A33 v) is (iw c) = 0 := by gs_entry1
theorem g_wb : ∀ c c', (gshape A00 A03 A10 A11 A13 A33 v) (iw c) (ib c') = 0 := by gs_entry
theorem g_wq : ∀ c c', (gshape A00 A03 A10 A11 A13 A33 v) (iw c) (iq c') = 0 := by gs_entry
theorem g_ws : ∀ c, (gshape A00 A03 A10 A11 A13 A33 v) (iw c) is = 0 := by gs_entry1
theorem g_ww : ∀ c c', (gshape A00 A03 A10 A11 A13 A33 v) (iw c) (iw c') = A33 c c' := by gs_entry

end entries

macro "gs_prod" : tactic => `(tactic|
  (rw [mmul_apply, sum10]
   simp only [g_bb, g_bq, g_bs, g_bw, g_qb, g_qq, g_qs, g_qw, g_sb, g_sq, g_ss, g_sw, g_wb, g_wq,
     g_ws, g_ww, mul_zero, zero_mul, Finset.sum_const_zero, add_zero, zero_add, mul_one, one_mul,
     madd, vadd, mulVec_apply, mmul_apply, Mat.of_get, Vec.of_get, Finset.sum_add_distrib]
   try ring))

theorem gshape_mul (A00 A03 A10 A11 A13 A33 B00 B03 B10 B11 B13 B33 : Mat ℝ 3 3) (c d : Vec ℝ 3) :
    mmul (gshape A00 A03 A10 A11 A13 A33 c) (gshape B00 B03 B10 B11 B13 B33 d)
      = gshape (mmul A00 B00) (madd (mmul A00 B03) (mmul A03 B33))
          (madd (mmul A10 B00) (mmul A11 B10)) (mmul A11 B11)
          (madd (madd (mmul A10 B03) (mmul A11 B13)) (mmul A13 B33)) (mmul A33 B33)
          (vadd (mulVec A11 d) c) := by
  ext i j
  revert i j
  apply idx_cases
  · intro x; apply idx_cases <;> (try intro y) <;> gs_prod
  · intro x; apply idx_cases <;> (try intro y) <;> gs_prod
  · apply idx_cases <;> (try intro y) <;> gs_prod
  · intro x; apply idx_cases <;> (try intro y) <;> gs_prod

macro "gs_id" : tactic => `(tactic|
  (simp only [g_bb, g_bq, g_bs, g_bw, g_qb, g_qq, g_qs, g_qw, g_sb, g_sq, g_ss, g_sw, g_wb, g_wq,
     g_ws, g_ww]
   simp [ident_apply, ib, iq, is, iw, Fin.ext_iff, mzero, vzero] <;> omega))

theorem gshape_ident : gshape (ident 3) (mzero 3 3) (mzero 3 3) (ident 3) (mzero 3 3) (ident 3) (vzero 3)
    = ident 10 := by
  ext i j
  revert i j
  apply idx_cases
  · intro x; apply idx_cases <;> (try intro y) <;> gs_id
  · intro x; apply idx_cases <;> (try intro y) <;> gs_id
  · apply idx_cases <;> (try intro y) <;> gs_id
  · intro x; apply idx_cases <;> (try intro y) <;> gs_id

theorem gshape_congr {A00 A03 A10 A11 A13 A33 B00 B03 B10 B11 B13 B33 : Mat ℝ 3 3} {c d : Vec ℝ 3}
    (h00 : A00 = B00) (h03 : A03 = B03) (h10 : A10 = B10) (h11 : A11 = B11) (h13 : A13 = B13)
    (h33 : A33 = B33) (hc : c = d) :
    gshape A00 A03 A10 A11 A13 A33 c = gshape B00 B03 B10 B11 B13 B33 d := by
  rw [h00, h03, h10, h11, h13, h33, hc]

/-! ### the Jacobians are of this shape -/

theorem dr_exp_eq_gshape (a : Vec ℝ 10) :
    Galilei.dr_exp a =
      let S1 := SO3.calc_S1 (vneg (Galilei.tw a))
      let S2 := SO3.calc_S2 (vneg (Galilei.tw a))
      let Qb := SE3.calculate_q (vneg (Galilei.tb a)) (vneg (Galilei.tw a))
      let Qq := SE3.calculate_q (vneg (Galilei.tq a)) (vneg (Galilei.tw a))
      let R := Galilei.calculate_r (vneg (Galilei.tb a)) (vneg (Galilei.tw a))
      gshape S1 Qb (.of (fun i j => Galilei.ts a * (S1 i j - S2 i j))) S1
        (.of (fun i j => Galilei.ts a * R i j + Qq i j)) S1 (mulVec (mneg S2) (Galilei.tb a)) := by
  simp only [Galilei.dr_exp, memoM_eq]; rfl

theorem dr_expinv_eq_gshape (a : Vec ℝ 10) :
    Galilei.dr_expinv a =
      let Ji := SO3.calc_S1inv (vneg (Galilei.tw a))
      let S2 := SO3.calc_S2 (vneg (Galilei.tw a))
      let Qb := SE3.calculate_q (vneg (Galilei.tb a)) (vneg (Galilei.tw a))
      let Qq := SE3.calculate_q (vneg (Galilei.tq a)) (vneg (Galilei.tw a))
      let R := Galilei.calculate_r (vneg (Galilei.tb a)) (vneg (Galilei.tw a))
      let s := Galilei.ts a
      let I : Mat ℝ 3 3 := ident 3
      gshape Ji (mmul (mmul (mneg Ji) Qb) Ji)
        (mmul (.of (fun i j => (-s) * (I i j - (mmul Ji S2) i j))) Ji) Ji
        (mmul (mmul Ji (.of (fun i j => ((-s) * R i j - Qq i j)
          + (mmul (.of (fun i j => s * (I i j - (mmul S2 Ji) i j))) Qb) i j))) Ji) Ji
        (mulVec (mmul Ji S2) (Galilei.tb a)) := by
  simp only [Galilei.dr_expinv, memoM_eq]; rfl

/-! ### block identities (Mathlib matrices) -/

section blocks
variable {J Ji S2 Qb Qq R : Matrix (Fin 3) (Fin 3) ℝ} (s : ℝ)

theorem cancel_left (h : J * Ji = 1) (X : Matrix (Fin 3) (Fin 3) ℝ) : J * (Ji * X) = X := by
  rw [← Matrix.mul_assoc, h, Matrix.one_mul]

theorem blk10 (h : J * Ji = 1) :
    (s • (J - S2)) * Ji + J * (((-s) • (1 - Ji * S2)) * Ji) = 0 := by
  simp only [Matrix.smul_mul, Matrix.mul_smul, Matrix.sub_mul, Matrix.mul_sub, Matrix.one_mul,
    Matrix.mul_assoc, cancel_left h, h]
  module

theorem blk13 (h : J * Ji = 1) :
    (s • (J - S2)) * ((-Ji) * Qb * Ji)
      + J * (Ji * ((-s) • R - Qq + (s • (1 - S2 * Ji)) * Qb) * Ji)
      + (s • R + Qq) * Ji = 0 := by
  simp only [Matrix.smul_mul, Matrix.mul_smul, Matrix.sub_mul, Matrix.mul_sub, Matrix.add_mul,
    Matrix.mul_add, Matrix.one_mul, Matrix.neg_mul, Matrix.mul_neg, Matrix.mul_assoc,
    cancel_left h]
  module

theorem blkc (h : J * Ji = 1) (b : Fin 3 → ℝ) :
    Matrix.mulVec J (Matrix.mulVec (Ji * S2) b) + Matrix.mulVec (-S2) b = 0 := by
  rw [Matrix.mulVec_mulVec, ← Matrix.mul_assoc, h, Matrix.one_mul, Matrix.neg_mulVec, add_neg_cancel]

end blocks

theorem toM_scaled (s : ℝ) (A B : Mat ℝ 3 3) :
    toM (.of (fun i j => s * (A i j - B i j)) : Mat ℝ 3 3) = s • (toM A - toM B) := by
  ext i j; simp [toM]

theorem toM_affine (s : ℝ) (A B : Mat ℝ 3 3) :
    toM (.of (fun i j => s * A i j + B i j) : Mat ℝ 3 3) = s • toM A + toM B := by
  ext i j; simp [toM]

theorem toM_mid (s : ℝ) (A B C : Mat ℝ 3 3) :
    toM (.of (fun i j => ((-s) * A i j - B i j) + C i j) : Mat ℝ 3 3)
      = (-s) • toM A - toM B + toM C := by
  ext i j; simp [toM]

/-- product of the two shapes given `J·Ji = I` -/
theorem shapes_inverse (J Ji S2 Qb Qq R : Mat ℝ 3 3) (s : ℝ) (b : Vec ℝ 3) (h : mmul J Ji = ident 3) :
    mmul
      (gshape J Qb (.of (fun i j => s * (J i j - S2 i j))) J
        (.of (fun i j => s * R i j + Qq i j)) J (mulVec (mneg S2) b))
      (gshape Ji (mmul (mmul (mneg Ji) Qb) Ji)
        (mmul (.of (fun i j => (-s) * ((ident 3 : Mat ℝ 3 3) i j - (mmul Ji S2) i j))) Ji) Ji
        (mmul (mmul Ji (.of (fun i j => ((-s) * R i j - Qq i j)
          + (mmul (.of (fun i j => s * ((ident 3 : Mat ℝ 3 3) i j - (mmul S2 Ji) i j))) Qb) i j))) Ji) Ji
        (mulVec (mmul Ji S2) b))
      = ident 10 := by
  have h' : toM J * toM Ji = 1 := by rw [← toM_mmul, h, toM_ident]
  rw [gshape_mul, ← gshape_ident]
  refine gshape_congr h ?_ ?_ h ?_ h ?_
  · exact C04SE3.upper_block_cancel J Ji Qb h
  · apply toM_inj
    simp only [toM_madd, toM_mmul, toM_scaled, toM_ident, toM_mzero]
    exact blk10 s h'
  · apply toM_inj
    simp only [toM_madd, toM_mmul, toM_mneg, toM_scaled, toM_affine, toM_mid, toM_ident, toM_mzero]
    exact blk13 s h'
  · apply toV_inj
    have : toV (vzero 3 : Vec ℝ 3) = 0 := by ext i; simp [toV, vzero]
    have hadd : ∀ u v : Vec ℝ 3, toV (vadd u v) = toV u + toV v := by
      intro u v; ext i; simp [toV, vadd]
    rw [this, hadd, toV_mulVec, toV_mulVec, toV_mulVec, toM_mmul, toM_mneg]
    exact blkc h' _

/-! ### the other order -/

section blocks'
variable {J Ji S2 Qb Qq R : Matrix (Fin 3) (Fin 3) ℝ} (s : ℝ)

theorem blk10' (h : Ji * J = 1) :
    (((-s) • (1 - Ji * S2)) * Ji) * J + Ji * (s • (J - S2)) = 0 := by
  simp only [Matrix.smul_mul, Matrix.mul_smul, Matrix.sub_mul, Matrix.mul_sub, Matrix.one_mul,
    Matrix.mul_one, Matrix.mul_assoc, cancel_left h, h]
  module

theorem blk13' (h : Ji * J = 1) :
    (((-s) • (1 - Ji * S2)) * Ji) * Qb + Ji * (s • R + Qq)
      + (Ji * ((-s) • R - Qq + (s • (1 - S2 * Ji)) * Qb) * Ji) * J = 0 := by
  simp only [Matrix.smul_mul, Matrix.mul_smul, Matrix.sub_mul, Matrix.mul_sub, Matrix.add_mul,
    Matrix.mul_add, Matrix.one_mul, Matrix.mul_one, Matrix.neg_mul, Matrix.mul_neg,
    Matrix.mul_assoc, cancel_left h, h]
  module

theorem blkc' (b : Fin 3 → ℝ) :
    Matrix.mulVec Ji (Matrix.mulVec (-S2) b) + Matrix.mulVec (Ji * S2) b = 0 := by
  rw [Matrix.mulVec_mulVec, Matrix.mul_neg, Matrix.neg_mulVec, neg_add_cancel]

end blocks'

theorem shapes_inverse' (J Ji S2 Qb Qq R : Mat ℝ 3 3) (s : ℝ) (b : Vec ℝ 3) (h : mmul Ji J = ident 3) :
    mmul
      (gshape Ji (mmul (mmul (mneg Ji) Qb) Ji)
        (mmul (.of (fun i j => (-s) * ((ident 3 : Mat ℝ 3 3) i j - (mmul Ji S2) i j))) Ji) Ji
        (mmul (mmul Ji (.of (fun i j => ((-s) * R i j - Qq i j)
          + (mmul (.of (fun i j => s * ((ident 3 : Mat ℝ 3 3) i j - (mmul S2 Ji) i j))) Qb) i j))) Ji) Ji
        (mulVec (mmul Ji S2) b))
      (gshape J Qb (.of (fun i j => s * (J i j - S2 i j))) J
        (.of (fun i j => s * R i j + Qq i j)) J (mulVec (mneg S2) b))
      = ident 10 := by
  have h' : toM Ji * toM J = 1 := by rw [← toM_mmul, h, toM_ident]
  rw [gshape_mul, ← gshape_ident]
  refine gshape_congr h ?_ ?_ h ?_ h ?_
  · exact C04SE3.upper_block_cancel' J Ji Qb h
  · apply toM_inj
    simp only [toM_madd, toM_mmul, toM_scaled, toM_ident, toM_mzero]
    exact blk10' s h'
  · apply toM_inj
    simp only [toM_madd, toM_mmul, toM_mneg, toM_scaled, toM_affine, toM_mid, toM_ident, toM_mzero]
    exact blk13' s h'
  · apply toV_inj
    have : toV (vzero 3 : Vec ℝ 3) = 0 := by ext i; simp [toV, vzero]
    have hadd : ∀ u v : Vec ℝ 3, toV (vadd u v) = toV u + toV v := by
      intro u v; ext i; simp [toV, vadd]
    rw [this, hadd, toV_mulVec, toV_mulVec, toV_mulVec, toM_mmul, toM_mneg]
    exact blkc' _

/-! ### Galilei -/

theorem calc_S1inv_neg (w : Vec ℝ 3) : SO3.calc_S1inv (vneg w) = SO3.dr_expinv w := by
  ext i j
  simp only [SO3.calc_S1inv, SO3.dr_expinv, SO3.ad, madd, msmul, memoM_eq, Mat.of_get, C04Alg.sqNorm3_neg,
    C04Alg.mmul3, C04SO3.hat_neg, Scalar.nat_real, Nat.cast_ofNat]
  ring

theorem drExp_mul_drExpinv (a : Vec ℝ 10) (h : Scalar.eps2 < sqNorm (Galilei.tw a))
    (hs : Real.sin (Real.sqrt (sqNorm (Galilei.tw a))) ≠ 0) :
    mmul (Galilei.dr_exp a) (Galilei.dr_expinv a) = ident 10 := by
  rw [dr_exp_eq_gshape, dr_expinv_eq_gshape]
  simp only [calc_S1inv_neg]
  exact shapes_inverse _ _ _ _ _ _ _ _ (C04SO3.drExp_mul_drExpinv _ h hs)

theorem drExpinv_mul_drExp (a : Vec ℝ 10) (h : Scalar.eps2 < sqNorm (Galilei.tw a))
    (hs : Real.sin (Real.sqrt (sqNorm (Galilei.tw a))) ≠ 0) :
    mmul (Galilei.dr_expinv a) (Galilei.dr_exp a) = ident 10 := by
  rw [dr_exp_eq_gshape, dr_expinv_eq_gshape]
  simp only [calc_S1inv_neg]
  exact shapes_inverse' _ _ _ _ _ _ _ _ (C04SO3.drExpinv_mul_drExp _ h hs)

end C04Galilei


