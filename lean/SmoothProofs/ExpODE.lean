/-
  ExpODE.lean — ODE-uniqueness characterisation of the (matrix) exponential.

  `eq_exp_of_hasDerivAt`: in a complete normed ℝ-algebra, a curve `Φ` with `Φ 0 = 1` and
  `Φ' t = A * Φ t` is `t ↦ exp (t • A)`.
  `Matrix.eq_exp_of_entry_hasDerivAt`: the same for real matrices with the derivative hypothesis
  stated entry by entry (this is the form the closed-form `exp` models are checked against).
-/
import Mathlib.Analysis.Normed.Algebra.Exponential
import Mathlib.Analysis.SpecialFunctions.Exponential
import Mathlib.Analysis.Calculus.Deriv.Prod
import Mathlib.Analysis.Calculus.Deriv.Mul
import Mathlib.Analysis.Calculus.MeanValue
import Mathlib.Analysis.Matrix.Normed

open NormedSpace

section Backbone
variable {𝔸 : Type*} [NormedRing 𝔸] [NormedAlgebra ℝ 𝔸] [CompleteSpace 𝔸]

/-- `d/dt exp (-(t • A)) = -A * exp (-(t • A))`. -/
theorem hasDerivAt_exp_neg_smul (A : 𝔸) (t : ℝ) :
    HasDerivAt (fun u : ℝ => exp (u • (-A))) (exp (t • (-A)) * (-A)) t :=
  hasDerivAt_exp_smul_const (𝕂 := ℝ) (-A) t

/-- ODE uniqueness: `Φ 0 = 1`, `Φ' = A Φ` ⟹ `Φ t = exp (t • A)`. -/
theorem eq_exp_of_hasDerivAt (A : 𝔸) (Φ : ℝ → 𝔸) (h0 : Φ 0 = 1)
    (hd : ∀ t, HasDerivAt Φ (A * Φ t) t) (t : ℝ) : Φ t = exp (t • A) := by
  -- Ψ t = exp (−t A) Φ t has zero derivative
  let Ψ : ℝ → 𝔸 := fun u => exp (u • (-A)) * Φ u
  have hΨ : ∀ u, HasDerivAt Ψ 0 u := by
    intro u
    have h1 := (hasDerivAt_exp_neg_smul A u).mul (hd u)
    have : exp (u • (-A)) * (-A) * Φ u + exp (u • (-A)) * (A * Φ u) = 0 := by
      rw [mul_assoc, ← mul_add, neg_mul, neg_add_cancel, mul_zero]
    exact this ▸ h1
  have hconst : ∀ u, Ψ u = Ψ 0 := by
    intro u
    have hdiff : Differentiable ℝ Ψ := fun x => (hΨ x).differentiableAt
    exact is_const_of_deriv_eq_zero hdiff (fun x => (hΨ x).deriv) u 0
  have hΨ0 : Ψ 0 = 1 := by simp [Ψ, h0]
  have hΨt : exp (t • (-A)) * Φ t = 1 := by
    have := hconst t; rw [hΨ0] at this; exact this
  have hcomm : Commute (t • A) (t • (-A)) := by
    simp [Commute, SemiconjBy]
  have hinv : exp (t • A) * exp (t • (-A)) = 1 := by
    have hmem : ∀ x : 𝔸, x ∈ Metric.eball (0 : 𝔸) (expSeries ℝ 𝔸).radius := fun x =>
      (expSeries_radius_eq_top ℝ 𝔸).symm ▸ edist_lt_top _ _
    rw [← exp_add_of_commute_of_mem_ball (𝕂 := ℝ) hcomm (hmem _) (hmem _)]
    simp
  calc Φ t = (exp (t • A) * exp (t • (-A))) * Φ t := by rw [hinv, one_mul]
    _ = exp (t • A) * (exp (t • (-A)) * Φ t) := by rw [mul_assoc]
    _ = exp (t • A) := by rw [hΨt, mul_one]

end Backbone

section MatrixForm
variable {n : Type*} [Fintype n] [DecidableEq n]

attribute [local instance] Matrix.linftyOpNormedRing Matrix.linftyOpNormedAlgebra in
/-- Entry-wise form for real matrices. -/
theorem Matrix.eq_exp_of_entry_hasDerivAt (A : Matrix n n ℝ) (Φ : ℝ → Matrix n n ℝ)
    (h0 : Φ 0 = 1)
    (hd : ∀ t i j, HasDerivAt (fun u => Φ u i j) ((A * Φ t) i j) t) (t : ℝ) :
    Φ t = NormedSpace.exp (t • A) := by
  refine eq_exp_of_hasDerivAt A Φ h0 (fun s => ?_) t
  have h1 : HasDerivAt (fun u => (Φ u : n → n → ℝ)) ((A * Φ s : Matrix n n ℝ) : n → n → ℝ) s :=
    hasDerivAt_pi.2 fun i => hasDerivAt_pi.2 fun j => hd s i j
  exact h1

/-- The case `t = 1`. -/
theorem Matrix.eq_exp_of_entry_hasDerivAt_one (A : Matrix n n ℝ) (Φ : ℝ → Matrix n n ℝ)
    (h0 : Φ 0 = 1)
    (hd : ∀ t i j, HasDerivAt (fun u => Φ u i j) ((A * Φ t) i j) t) :
    Φ 1 = NormedSpace.exp A := by
  have := Matrix.eq_exp_of_entry_hasDerivAt A Φ h0 hd 1
  simpa using this

end MatrixForm
