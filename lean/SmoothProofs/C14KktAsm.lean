/-
  C14KktAsm.lean — the triplet list that `fit_spline_1d` hands to `SparseLU` IS the block matrix
  `[Q Aᵀ; A 0]` of `Kkt.IsKKT`.  Generic part: for any triplet list `Qents` with indices `< nC` and any
  list of sparse rows `rs` with columns `< nC`, the list `Qents ++ aPart nC 0 rs` (every row entry
  `(k, c, v)` inserted at `(nC + k, c)` and mirrored at `(c, nC + k)`) applied to a vector `z`
  equals `[0; b]` iff `(x, l) = (z|_{<nC}, z|_{≥nC})` is a KKT point of `Q = tripMat Qents`,
  `A = rowMat rs`, `b = rhs`.  Entries at the same place add up (`SparseMatrix::insert` is only
  defined for distinct places, where this is the entry itself).
-/
import SmoothProofs.C14Rows
import SmoothProofs.C14Kkt
import Mathlib.Algebra.BigOperators.Fin

open Matrix Scalar Lin

namespace Fit
namespace Kkt

/-- `(H z)_r` for a triplet list `H` -/
def tripMul (ents : List (ℕ × ℕ × ℝ)) (z : ℕ → ℝ) (r : ℕ) : ℝ :=
  ((ents.filter (fun e => e.1 = r)).map (fun e => e.2.2 * z e.2.1)).sum

/-- entry `(r, c)` of the matrix a triplet list denotes -/
def tripEntry (ents : List (ℕ × ℕ × ℝ)) (r c : ℕ) : ℝ :=
  ((ents.filter (fun e => e.1 = r ∧ e.2.1 = c)).map (fun e => e.2.2)).sum

/-- the dense `n × n` matrix of a triplet list -/
def tripMat (n : ℕ) (ents : List (ℕ × ℕ × ℝ)) : Matrix (Fin n) (Fin n) ℝ :=
  Matrix.of fun r c => tripEntry ents r.val c.val

@[simp] theorem tripMul_nil (z : ℕ → ℝ) (r : ℕ) : tripMul [] z r = 0 := rfl

theorem tripMul_cons (e : ℕ × ℕ × ℝ) (t : List (ℕ × ℕ × ℝ)) (z : ℕ → ℝ) (r : ℕ) :
    tripMul (e :: t) z r = (if e.1 = r then e.2.2 * z e.2.1 else 0) + tripMul t z r := by
  unfold tripMul
  by_cases h : e.1 = r <;> simp [h]

theorem tripMul_append (a b : List (ℕ × ℕ × ℝ)) (z : ℕ → ℝ) (r : ℕ) :
    tripMul (a ++ b) z r = tripMul a z r + tripMul b z r := by
  unfold tripMul
  simp [List.filter_append]

theorem tripEntry_cons (e : ℕ × ℕ × ℝ) (t : List (ℕ × ℕ × ℝ)) (r c : ℕ) :
    tripEntry (e :: t) r c = (if e.1 = r ∧ e.2.1 = c then e.2.2 else 0) + tripEntry t r c := by
  unfold tripEntry
  by_cases h : e.1 = r ∧ e.2.1 = c <;> simp [h]

/-- a triplet list acts as its dense matrix -/
theorem tripMul_eq_sum (n : ℕ) (ents : List (ℕ × ℕ × ℝ)) (hc : ∀ e ∈ ents, e.2.1 < n) (z : ℕ → ℝ) (r : ℕ) :
    tripMul ents z r = ∑ c ∈ Finset.range n, tripEntry ents r c * z c := by
  induction ents with
  | nil => simp [tripEntry]
  | cons e t ih =>
    have ht : ∀ e ∈ t, e.2.1 < n := fun e he => hc e (List.mem_cons_of_mem _ he)
    have he : e.2.1 < n := hc e (List.mem_cons_self ..)
    rw [tripMul_cons, ih ht]
    simp only [tripEntry_cons, add_mul, Finset.sum_add_distrib]
    congr 1
    by_cases h : e.1 = r
    · simp [h, ite_mul, Finset.sum_ite_eq, he]
    · simp [h]

theorem tripMul_eq_mulVec (n : ℕ) (ents : List (ℕ × ℕ × ℝ)) (hc : ∀ e ∈ ents, e.2.1 < n) (z : ℕ → ℝ)
    (r : Fin n) : tripMul ents z r.val = (tripMat n ents *ᵥ fun c : Fin n => z c.val) r := by
  rw [tripMul_eq_sum n ents hc, Matrix.mulVec, dotProduct,
    ← Fin.sum_univ_eq_sum_range (fun c => tripEntry ents r.val c * z c) n]
  rfl

/-- rows of a triplet list beyond its row range are empty -/
theorem tripMul_row_out (ents : List (ℕ × ℕ × ℝ)) (z : ℕ → ℝ) (r : ℕ) (h : ∀ e ∈ ents, e.1 ≠ r) :
    tripMul ents z r = 0 := by
  induction ents with
  | nil => rfl
  | cons e t ih =>
    rw [tripMul_cons, ih (fun e he => h e (List.mem_cons_of_mem _ he)),
      if_neg (h e (List.mem_cons_self ..))]
    simp

-- ---------------------------------------------------------------- the constraint rows, mirrored

/-- coefficient of column `c` in a sparse row -/
def coef (ent : List (ℕ × ℝ)) (c : ℕ) : ℝ := ((ent.filter (fun e => e.1 = c)).map (fun e => e.2)).sum

theorem coef_cons (e : ℕ × ℝ) (t : List (ℕ × ℝ)) (c : ℕ) :
    coef (e :: t) c = (if e.1 = c then e.2 else 0) + coef t c := by
  unfold coef
  by_cases h : e.1 = c <;> simp [h]

/-- the `insert` calls for one row: `(nC + k, c, v)` and the mirror image `(c, nC + k, v)` -/
def mirror (nC k : ℕ) (ent : List (ℕ × ℝ)) : List (ℕ × ℕ × ℝ) :=
  ent.flatMap (fun e => [(nC + k, e.1, e.2), (e.1, nC + k, e.2)])

theorem mirror_cons (nC k : ℕ) (e : ℕ × ℝ) (t : List (ℕ × ℝ)) :
    mirror nC k (e :: t) = (nC + k, e.1, e.2) :: (e.1, nC + k, e.2) :: mirror nC k t := rfl

/-- row `nC + k` of the mirrored block is the constraint row -/
theorem mirror_own (nC k : ℕ) (ent : List (ℕ × ℝ)) (hc : ∀ e ∈ ent, e.1 < nC) (z : ℕ → ℝ) :
    tripMul (mirror nC k ent) z (nC + k) = (ent.map (fun e => e.2 * z e.1)).sum := by
  induction ent with
  | nil => rfl
  | cons e t ih =>
    have he : e.1 < nC := hc e (List.mem_cons_self ..)
    rw [mirror_cons, tripMul_cons, tripMul_cons, ih (fun e he => hc e (List.mem_cons_of_mem _ he))]
    have : ¬ e.1 = nC + k := by omega
    simp [this]

/-- a row `r < nC` of the mirrored block carries `coef · z_{nC+k}` -/
theorem mirror_low (nC k : ℕ) (ent : List (ℕ × ℝ)) (z : ℕ → ℝ) (r : ℕ) (hr : r < nC) :
    tripMul (mirror nC k ent) z r = coef ent r * z (nC + k) := by
  induction ent with
  | nil => simp [mirror, coef]
  | cons e t ih =>
    rw [mirror_cons, tripMul_cons, tripMul_cons, ih, coef_cons]
    have : ¬ nC + k = r := by omega
    by_cases h : e.1 = r <;> simp [this, h, add_mul]

/-- other rows `nC + j`, `j ≠ k`, are untouched -/
theorem mirror_other (nC k j : ℕ) (ent : List (ℕ × ℝ)) (hc : ∀ e ∈ ent, e.1 < nC) (z : ℕ → ℝ) (hj : j ≠ k) :
    tripMul (mirror nC k ent) z (nC + j) = 0 := by
  apply tripMul_row_out
  intro e he
  simp only [mirror, List.mem_flatMap, List.mem_cons, List.not_mem_nil, or_false] at he
  obtain ⟨a, ha, rfl | rfl⟩ := he
  · simp only; omega
  · have := hc a ha; simp only; omega

/-- all rows, numbered from `k` -/
def aPart (nC : ℕ) : ℕ → List (Row ℝ) → List (ℕ × ℕ × ℝ)
  | _, [] => []
  | k, row :: t => mirror nC k row.ent ++ aPart nC (k + 1) t

/-- `(Aᵀ l)_r` summed row by row -/
def atl (nC : ℕ) (z : ℕ → ℝ) (r : ℕ) : ℕ → List (Row ℝ) → ℝ
  | _, [] => 0
  | k, row :: t => coef row.ent r * z (nC + k) + atl nC z r (k + 1) t

theorem aPart_low (nC k : ℕ) (rs : List (Row ℝ)) (z : ℕ → ℝ) (r : ℕ) (hr : r < nC) :
    tripMul (aPart nC k rs) z r = atl nC z r k rs := by
  induction rs generalizing k with
  | nil => rfl
  | cons row t ih => rw [aPart, tripMul_append, mirror_low nC k _ z r hr, ih, atl]

theorem aPart_before (nC k i : ℕ) (rs : List (Row ℝ)) (hc : ∀ row ∈ rs, ∀ e ∈ row.ent, e.1 < nC)
    (z : ℕ → ℝ) (hi : i < k) : tripMul (aPart nC k rs) z (nC + i) = 0 := by
  induction rs generalizing k with
  | nil => rfl
  | cons row t ih =>
    rw [aPart, tripMul_append, mirror_other nC k i _ (hc row (List.mem_cons_self ..)) z (by omega),
      ih (k + 1) (fun row hrow => hc row (List.mem_cons_of_mem _ hrow)) (by omega)]
    simp

theorem aPart_own (nC k j : ℕ) (rs : List (Row ℝ)) (hc : ∀ row ∈ rs, ∀ e ∈ row.ent, e.1 < nC)
    (z : ℕ → ℝ) (row : Row ℝ) (hj : rs[j]? = some row) :
    tripMul (aPart nC k rs) z (nC + (k + j)) = (row.ent.map (fun e => e.2 * z e.1)).sum := by
  induction rs generalizing k j with
  | nil => simp at hj
  | cons r0 t ih =>
    have hct : ∀ row ∈ t, ∀ e ∈ row.ent, e.1 < nC := fun row hrow => hc row (List.mem_cons_of_mem _ hrow)
    rw [aPart, tripMul_append]
    cases j with
    | zero =>
      simp only [List.getElem?_cons_zero, Option.some.injEq] at hj
      subst hj
      rw [Nat.add_zero, mirror_own nC k _ (hc r0 (List.mem_cons_self ..)) z,
        aPart_before nC (k + 1) k t hct z (by omega)]
      simp
    | succ j =>
      simp only [List.getElem?_cons_succ] at hj
      rw [mirror_other nC k (k + (j + 1)) _ (hc r0 (List.mem_cons_self ..)) z (by omega)]
      have := ih (k + 1) j hct hj
      rw [show k + 1 + j = k + (j + 1) by omega] at this
      rw [this]; simp

/-- the dense constraint matrix of a row list -/
def rowMat (nC : ℕ) (rs : List (Row ℝ)) : Matrix (Fin rs.length) (Fin nC) ℝ :=
  Matrix.of fun k c => coef rs[k].ent c.val

theorem coef_sum (nC : ℕ) (ent : List (ℕ × ℝ)) (hc : ∀ e ∈ ent, e.1 < nC) (z : ℕ → ℝ) :
    (ent.map (fun e => e.2 * z e.1)).sum = ∑ c ∈ Finset.range nC, coef ent c * z c := by
  induction ent with
  | nil => simp [coef]
  | cons e t ih =>
    have he : e.1 < nC := hc e (List.mem_cons_self ..)
    simp only [List.map_cons, List.sum_cons, coef_cons, add_mul, Finset.sum_add_distrib]
    rw [ih (fun e he => hc e (List.mem_cons_of_mem _ he))]
    simp [ite_mul, Finset.sum_ite_eq, he]

theorem rowMat_mulVec (nC : ℕ) (rs : List (Row ℝ)) (hc : ∀ row ∈ rs, ∀ e ∈ row.ent, e.1 < nC)
    (z : ℕ → ℝ) (k : Fin rs.length) :
    (rowMat nC rs *ᵥ fun c : Fin nC => z c.val) k = rowDot rs[k] z := by
  have e := coef_sum nC rs[k].ent (hc _ (List.getElem_mem _)) z
  rw [rowDot, lsum_eq_sum, e, Matrix.mulVec, dotProduct,
    ← Fin.sum_univ_eq_sum_range (fun c => coef rs[k].ent c * z c) nC]
  rfl

theorem atl_eq_sum (nC : ℕ) (z : ℕ → ℝ) (r k : ℕ) (rs : List (Row ℝ)) :
    atl nC z r k rs = ∑ j : Fin rs.length, coef rs[j].ent r * z (nC + (k + j.val)) := by
  induction rs generalizing k with
  | nil => simp [atl]
  | cons row t ih =>
    rw [atl, ih]
    simp only [List.length_cons]
    rw [Fin.sum_univ_succ]
    simp only [Fin.val_zero, Nat.add_zero, Fin.val_succ, List.getElem_cons_succ, Fin.getElem_fin,
      List.getElem_cons_zero]
    congr 1
    apply Finset.sum_congr rfl
    intro j _
    rw [show k + 1 + j.val = k + (j.val + 1) by omega]

theorem rowMat_transpose_mulVec (nC : ℕ) (rs : List (Row ℝ)) (z : ℕ → ℝ) (r : Fin nC) :
    ((rowMat nC rs)ᵀ *ᵥ fun k : Fin rs.length => z (nC + k.val)) r = atl nC z r.val 0 rs := by
  rw [atl_eq_sum, Matrix.mulVec, dotProduct]
  apply Finset.sum_congr rfl
  intro j _
  simp [rowMat, Matrix.transpose_apply]

/-- **the assembled system is the KKT system.**  `H = Qents ++ aPart nC 0 rs`, right-hand side
    `[0; b]`: a vector `z` solves `H z = [0; b]` (rows `0 … nC + m − 1`) iff its head `x` and tail
    `l` satisfy `Q x + Aᵀ l = 0`, `A x = b`. -/
theorem assembled_iff_isKKT (nC : ℕ) (Qents : List (ℕ × ℕ × ℝ)) (rs : List (Row ℝ))
    (hQr : ∀ e ∈ Qents, e.1 < nC) (hQc : ∀ e ∈ Qents, e.2.1 < nC)
    (hc : ∀ row ∈ rs, ∀ e ∈ row.ent, e.1 < nC) (z : ℕ → ℝ) :
    (∀ r < nC + rs.length,
        tripMul (Qents ++ aPart nC 0 rs) z r = (List.replicate nC (0 : ℝ) ++ rs.map (·.rhs)).getD r 0) ↔
      IsKKT (tripMat nC Qents) (rowMat nC rs) (fun k : Fin rs.length => rs[k].rhs)
        (fun c : Fin nC => z c.val) (fun k : Fin rs.length => z (nC + k.val)) := by
  have low : ∀ r : Fin nC, tripMul (Qents ++ aPart nC 0 rs) z r.val
      = (tripMat nC Qents *ᵥ (fun c : Fin nC => z c.val)
          + (rowMat nC rs)ᵀ *ᵥ fun k : Fin rs.length => z (nC + k.val)) r := by
    intro r
    rw [tripMul_append, tripMul_eq_mulVec nC Qents hQc z r, aPart_low nC 0 rs z r.val r.isLt,
      Pi.add_apply, rowMat_transpose_mulVec]
  have high : ∀ k : Fin rs.length, tripMul (Qents ++ aPart nC 0 rs) z (nC + k.val)
      = (rowMat nC rs *ᵥ fun c : Fin nC => z c.val) k := by
    intro k
    rw [tripMul_append, tripMul_row_out Qents z _ (fun e he => by have := hQr e he; omega),
      rowMat_mulVec nC rs hc z k, zero_add]
    have := aPart_own nC 0 k.val rs hc z rs[k] (by simp)
    rw [Nat.zero_add] at this
    rw [this, rowDot, lsum_eq_sum]
  have rlow : ∀ r : Fin nC, (List.replicate nC (0 : ℝ) ++ rs.map (·.rhs)).getD r.val 0 = 0 := by
    intro r
    simp [List.getD_eq_getElem?_getD, List.getElem?_append, r.isLt]
  have rhigh : ∀ k : Fin rs.length,
      (List.replicate nC (0 : ℝ) ++ rs.map (·.rhs)).getD (nC + k.val) 0 = rs[k].rhs := by
    intro k
    simp [List.getD_eq_getElem?_getD]
  constructor
  · intro h
    refine ⟨?_, ?_⟩
    · funext r
      rw [← low r, h r.val (by omega), rlow r]; rfl
    · funext k
      rw [← high k, h (nC + k.val) (by omega), rhigh k]
  · rintro ⟨h1, h2⟩ r hr
    by_cases hlt : r < nC
    · have := low ⟨r, hlt⟩
      simp only at this
      rw [this, h1, rlow ⟨r, hlt⟩]; rfl
    · obtain ⟨k, rfl⟩ : ∃ k, r = nC + k := ⟨r - nC, by omega⟩
      have hk : k < rs.length := by omega
      have := high ⟨k, hk⟩
      simp only at this
      rw [this, h2, rhigh ⟨k, hk⟩]

/-- … and `A x = b` says that `x` satisfies every row -/
theorem rowMat_mulVec_eq_iff (nC : ℕ) (rs : List (Row ℝ)) (hc : ∀ row ∈ rs, ∀ e ∈ row.ent, e.1 < nC)
    (z : ℕ → ℝ) :
    (rowMat nC rs *ᵥ fun c : Fin nC => z c.val) = (fun k : Fin rs.length => rs[k].rhs) ↔ RowsSat rs z := by
  constructor
  · intro h row hrow
    obtain ⟨k, hk, rfl⟩ := List.getElem_of_mem hrow
    have := congrFun h ⟨k, hk⟩
    rw [rowMat_mulVec nC rs hc z] at this
    exact this
  · intro h
    funext k
    rw [rowMat_mulVec nC rs hc z]
    exact h _ (List.getElem_mem _)

end Kkt
end Fit
