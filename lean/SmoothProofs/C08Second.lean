/-
  C08Second.lean — truncation error of the second-order forward difference
  `(φ(ε₁, ε₀) − φ(0, ε₀))/ε₀/ε₁` used by `dr_numerical<2>` for Hessians (φ(s, 0) = 0).
  Explicit-derivative form (`HasDerivAt` hypotheses, sup bounds on the two third-order mixed
  partials that matter); the `ContDiff` / `iteratedFDeriv` form is derived from it in
  C08SecondFD.lean.
-/
import SmoothProofs.C08Slots

open Set

namespace C08

/-- mean-value step: if `h' = dh` on `[0, ε]` with `|dh| ≤ A` then `|h ε − h 0| ≤ A ε` -/
theorem mv_bound (h dh : ℝ → ℝ) (ε A : ℝ) (hε : 0 ≤ ε)
    (hh : ∀ s ∈ Icc 0 ε, HasDerivAt h (dh s) s) (hA : ∀ s ∈ Icc 0 ε, |dh s| ≤ A) :
    |h ε - h 0| ≤ A * ε := by
  have := norm_image_sub_le_of_norm_deriv_le_segment' (f := h) (f' := dh) (a := 0) (b := ε) (C := A)
    (fun x hx => (hh x hx).hasDerivWithinAt)
    (fun x hx => by simpa using hA x (Ico_subset_Icc_self hx)) ε (right_mem_Icc.2 hε)
  simpa using this

/-- **second difference, explicit form.**  `φt = ∂ₜφ`, `φtt = ∂ₜ∂ₜφ`, `φstt = ∂ₛ∂ₜ∂ₜφ` on the
    rectangle `[0, ε₁] × [0, ε₀]`; `φst = ∂ₛ∂ₜφ(·, 0)`, `φsst = ∂ₛ∂ₛ∂ₜφ(·, 0)` on the edge `t = 0`.
    With `|φstt| ≤ A` on the rectangle and `|φsst| ≤ B` on the edge, the quotient is within
    `A ε₀/2 + B ε₁/2` of `∂ₛ∂ₜφ(0, 0)`. -/
theorem second_quotient_bound (φ φt φtt φstt : ℝ → ℝ → ℝ) (φst φsst : ℝ → ℝ) (e0 e1 A B : ℝ)
    (h0 : 0 < e0) (h1 : 0 < e1)
    (ht : ∀ s ∈ Icc 0 e1, ∀ t ∈ Icc 0 e0, HasDerivAt (fun t => φ s t) (φt s t) t)
    (htt : ∀ s ∈ Icc 0 e1, ∀ t ∈ Icc 0 e0, HasDerivAt (fun t => φt s t) (φtt s t) t)
    (hstt : ∀ s ∈ Icc 0 e1, ∀ t ∈ Icc 0 e0, HasDerivAt (fun s => φtt s t) (φstt s t) s)
    (hA : ∀ s ∈ Icc 0 e1, ∀ t ∈ Icc 0 e0, |φstt s t| ≤ A)
    (hst : ∀ s ∈ Icc 0 e1, HasDerivAt (fun s => φt s 0) (φst s) s)
    (hsst : ∀ s ∈ Icc 0 e1, HasDerivAt φst (φsst s) s)
    (hB : ∀ s ∈ Icc 0 e1, |φsst s| ≤ B)
    (hz : ∀ s, φ s 0 = 0) :
    |(φ e1 e0 - φ 0 e0) / e0 / e1 - φst 0| ≤ A * e0 / 2 + B * e1 / 2 := by
  have m0 : (0 : ℝ) ∈ Icc 0 e1 := left_mem_Icc.2 h1.le
  have m1 : e1 ∈ Icc 0 e1 := right_mem_Icc.2 h1.le
  have n0 : (0 : ℝ) ∈ Icc 0 e0 := left_mem_Icc.2 h0.le
  -- step 1: the t-quotient of ψ(t) = φ(e1, t) − φ(0, t)
  have hψ := forward_quotient_bound (fun t => φ e1 t - φ 0 t) (fun t => φt e1 t - φt 0 t)
    (fun t => φtt e1 t - φtt 0 t) e0 (A * e1) h0
    (fun t htm => (ht e1 m1 t htm).sub (ht 0 m0 t htm))
    (fun t htm => (htt e1 m1 t htm).sub (htt 0 m0 t htm))
    (fun t htm => mv_bound (fun s => φtt s t) (fun s => φstt s t) e1 A h1.le
      (fun s hs => hstt s hs t htm) (fun s hs => hA s hs t htm))
    (by simp [hz])
  -- step 2: the s-quotient of g(s) = φt(s, 0) − φt(0, 0)
  have hg := forward_quotient_bound (fun s => φt s 0 - φt 0 0) φst φsst e1 B h1
    (fun s hs => by simpa using (hst s hs).sub_const (φt 0 0)) hsst hB (by simp)
  beta_reduce at hψ hg
  -- combine
  have e : (φ e1 e0 - φ 0 e0) / e0 / e1 - φst 0
      = ((φ e1 e0 - φ 0 e0) / e0 - (φt e1 0 - φt 0 0)) / e1 + ((φt e1 0 - φt 0 0) / e1 - φst 0) := by
    field_simp
    ring
  rw [e]
  refine (abs_add_le _ _).trans (add_le_add ?_ hg)
  rw [abs_div, abs_of_pos h1, div_le_iff₀ h1]
  calc |(φ e1 e0 - φ 0 e0) / e0 - (φt e1 0 - φt 0 0)| ≤ A * e1 * e0 / 2 := hψ
    _ = A * e0 / 2 * e1 := by ring

/-- the single-constant form of the property: with `L₃` bounding both mixed partials the error
    is at most `L₃ (ε₀ + ε₁)/2` -/
theorem second_quotient_bound' (φ φt φtt φstt : ℝ → ℝ → ℝ) (φst φsst : ℝ → ℝ) (e0 e1 L3 : ℝ)
    (h0 : 0 < e0) (h1 : 0 < e1)
    (ht : ∀ s ∈ Icc 0 e1, ∀ t ∈ Icc 0 e0, HasDerivAt (fun t => φ s t) (φt s t) t)
    (htt : ∀ s ∈ Icc 0 e1, ∀ t ∈ Icc 0 e0, HasDerivAt (fun t => φt s t) (φtt s t) t)
    (hstt : ∀ s ∈ Icc 0 e1, ∀ t ∈ Icc 0 e0, HasDerivAt (fun s => φtt s t) (φstt s t) s)
    (hA : ∀ s ∈ Icc 0 e1, ∀ t ∈ Icc 0 e0, |φstt s t| ≤ L3)
    (hst : ∀ s ∈ Icc 0 e1, HasDerivAt (fun s => φt s 0) (φst s) s)
    (hsst : ∀ s ∈ Icc 0 e1, HasDerivAt φst (φsst s) s)
    (hB : ∀ s ∈ Icc 0 e1, |φsst s| ≤ L3)
    (hz : ∀ s, φ s 0 = 0) :
    |(φ e1 e0 - φ 0 e0) / e0 / e1 - φst 0| ≤ L3 * (e0 + e1) / 2 := by
  have := second_quotient_bound φ φt φtt φstt φst φsst e0 e1 L3 L3 h0 h1 ht htt hstt hA hst hsst hB hz
  calc _ ≤ L3 * e0 / 2 + L3 * e1 / 2 := this
    _ = L3 * (e0 + e1) / 2 := by ring

end C08
