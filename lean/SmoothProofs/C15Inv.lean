/-
  C15Inv.lean — the graded invariants of the concrete groups (`Hist.Graded` instances).

  SO3: `Near m` (norm² within `D0^{∓m}`, canonical sign) for ALL tangents; `Unit ∧ Canon` exactly
  when the exp arguments avoid the series branch.  SO2, SE2: `Unit` exactly, all tangents, incl.
  the lift∘project round trip.  SE3, Galilei, SE_K(3): pulled back along the quaternion part.
  Bundle: componentwise (`graded_prod`, `graded_unit`).  Any model with ε-accurate ops: `Band`.
-/
import SmoothProofs.C15Hist
import SmoothProofs.C15SO3
import SmoothProofs.C15Drift
import SmoothProofs.C01Small
import SmoothProofs.C01SE3
import SmoothProofs.C01Bundle

open Lin Scalar

namespace C15
open Hist

-- ---------------------------------------------------------------- SO3
theorem so3_graded : Graded (SO3.model : LieModel ℝ) id Near (fun _ => True) where
  comp := fun _ _ _ _ ha hb => near_composition ha hb
  inv := fun _ _ hg => near_inverse hg
  exp := fun a _ => near_exp a
  lp := fun _ _ h => near_mono (Nat.le_succ _) h

/-- tangents for which `SO3.exp` takes the closed-form branch -/
def ClosedBranch (a : Vec ℝ 3) : Prop := ¬ sqNorm a < (Scalar.eps2 : ℝ)

theorem so3_exact : Graded (SO3.model : LieModel ℝ) id (fun _ q => SO3.Unit q ∧ SO3.Canon q) ClosedBranch where
  comp := fun _ _ a b ha hb => ⟨SO3.unit_composition a b ha.1 hb.1, SO3.canon_composition a b⟩
  inv := fun _ g hg => ⟨SO3.unit_inverse g hg.1, canon_inverse g hg.2⟩
  exp := fun a ha => ⟨sqn_exp_closed a ha, canon_exp a⟩
  lp := fun _ _ h => h

-- ---------------------------------------------------------------- SO2, SE2
theorem so2_unit_exp (a : Vec ℝ 1) : SO2.Unit (SO2.exp a) := by
  unfold SO2.Unit SO2.exp
  simp only [mk2, Vec.of]
  show Real.sin (a 0) ^ 2 + Real.cos (a 0) ^ 2 = 1
  exact Real.sin_sq_add_cos_sq (a 0)

theorem so2_unit_liftproj (g : Vec ℝ 2) : SO2.Unit (liftprojSO2 g) := by
  unfold SO2.Unit liftprojSO2
  simp only [mk2, Vec.of]
  exact Real.sin_sq_add_cos_sq _

theorem so2_graded : Graded (SO2.model : LieModel ℝ) liftprojSO2 (fun _ g => SO2.Unit g) (fun _ => True) where
  comp := fun _ _ a b ha hb => SO2.unit_composition a b ha hb
  inv := fun _ g hg => SO2.unit_inverse g hg
  exp := fun a _ => so2_unit_exp a
  lp := fun _ g _ => so2_unit_liftproj g

theorem se2_unit_exp (a : Vec ℝ 3) : SE2.Unit (SE2.exp a) := by
  unfold SE2.Unit SE2.exp
  simp only [mk4, Vec.of, SO2.exp, mk2, mk1]
  show Real.sin (a 2) ^ 2 + Real.cos (a 2) ^ 2 = 1
  exact Real.sin_sq_add_cos_sq (a 2)

theorem se2_unit_liftproj (g : Vec ℝ 4) : SE2.Unit (liftprojSE2 g) := by
  unfold SE2.Unit liftprojSE2
  simp only [mk4, Vec.of, memoV_eq]
  exact so2_unit_liftproj _

theorem se2_graded : Graded (SE2.model : LieModel ℝ) liftprojSE2 (fun _ g => SE2.Unit g) (fun _ => True) where
  comp := fun _ _ a b ha hb => SE2.unit_composition a b ha hb
  inv := fun _ g hg => SE2.unit_inverse g hg
  exp := fun a _ => se2_unit_exp a
  lp := fun _ g _ => se2_unit_liftproj g

-- ---------------------------------------------------------------- groups built on SO3Impl
/-- pull the SO3 invariant back along the quaternion part `π` of a group whose operations act
    on that part by the SO3 operations -/
theorem graded_pullback (G : LieModel ℝ) (π : Vec ℝ G.rep → Vec ℝ 4) (τ : Vec ℝ G.dof → Vec ℝ 3)
    (hc : ∀ a b, π (G.composition a b) = SO3.composition (π a) (π b))
    (hi : ∀ g, π (G.inverse g) = SO3.inverse (π g))
    (he : ∀ a, π (G.exp a) = SO3.exp (τ a)) :
    Graded G id (fun m g => Near m (π g)) (fun _ => True) where
  comp := fun _ _ a b ha hb => by rw [hc]; exact near_composition ha hb
  inv := fun _ g hg => by rw [hi]; exact near_inverse hg
  exp := fun a _ => by rw [he]; exact near_exp _
  lp := fun _ _ h => near_mono (Nat.le_succ _) h

theorem se3_so3_exp (a : Vec ℝ 6) : SE3.so3 (SE3.exp a) = SO3.exp (SE3.tw a) := by
  simp only [SE3.exp, SE3.so3_mk7, memoV_eq]

theorem se3_graded : Graded (SE3.model : LieModel ℝ) id (fun m g => Near m (SE3.so3 g)) (fun _ => True) :=
  graded_pullback SE3.model SE3.so3 SE3.tw SE3.so3_composition SE3.so3_inverse se3_so3_exp

theorem gal_gq_exp (a : Vec ℝ 10) : Galilei.gq (Galilei.exp a) = SO3.exp (Galilei.tw a) := by
  simp only [Galilei.exp, Galilei.gq_mkG]

theorem galilei_graded : Graded (Galilei.model : LieModel ℝ) id (fun m g => Near m (Galilei.gq g)) (fun _ => True) :=
  graded_pullback Galilei.model Galilei.gq Galilei.tw Galilei.gq_composition Galilei.gq_inverse gal_gq_exp

theorem sek3_gq_exp (k : Nat) (a : Vec ℝ (3 + 3 * k)) : SEK3.gq k (SEK3.exp k a) = SO3.exp (SEK3.tw k a) := by
  simp only [SEK3.exp, SEK3.gq_mkG, memoV_eq]

theorem sek3_graded (k : Nat) :
    Graded (SEK3.model k : LieModel ℝ) id (fun m g => Near m (SEK3.gq k g)) (fun _ => True) :=
  graded_pullback (SEK3.model k) (SEK3.gq k) (SEK3.tw k) (SEK3.gq_composition k) (SEK3.gq_inverse k) (sek3_gq_exp k)

-- ---------------------------------------------------------------- Bundle
theorem graded_prod {A B : LieModel ℝ} {IA : Nat → Vec ℝ A.rep → Prop} {IB : Nat → Vec ℝ B.rep → Prop}
    {TA : Vec ℝ A.dof → Prop} {TB : Vec ℝ B.dof → Prop} {lpA : Vec ℝ A.rep → Vec ℝ A.rep}
    {lpB : Vec ℝ B.rep → Vec ℝ B.rep}
    (HA : Graded A lpA IA TA) (HB : Graded B lpB IB TB)
    (mA : ∀ m a, IA m a → IA (m + 1) a) (mB : ∀ m b, IB m b → IB (m + 1) b) :
    Graded (Bundle.prod A B) id (fun m g => IA m (Bundle.fst g) ∧ IB m (Bundle.snd g))
      (fun a => TA (Bundle.fst a) ∧ TB (Bundle.snd a)) where
  comp := fun m n a b ha hb => by
    show IA _ (Bundle.fst (Bundle.prodComposition A B a b)) ∧ IB _ (Bundle.snd (Bundle.prodComposition A B a b))
    unfold Bundle.prodComposition
    rw [Bundle.fst_vcat, Bundle.snd_vcat]
    exact ⟨HA.comp _ _ _ _ ha.1 hb.1, HB.comp _ _ _ _ ha.2 hb.2⟩
  inv := fun m g hg => by
    show IA _ (Bundle.fst (Bundle.prodInverse A B g)) ∧ IB _ (Bundle.snd (Bundle.prodInverse A B g))
    unfold Bundle.prodInverse
    rw [Bundle.fst_vcat, Bundle.snd_vcat]
    exact ⟨HA.inv _ _ hg.1, HB.inv _ _ hg.2⟩
  exp := fun a ha => by
    show IA _ (Bundle.fst (Bundle.prodExp A B a)) ∧ IB _ (Bundle.snd (Bundle.prodExp A B a))
    unfold Bundle.prodExp
    rw [Bundle.fst_vcat, Bundle.snd_vcat]
    exact ⟨HA.exp _ ha.1, HB.exp _ ha.2⟩
  lp := fun m g hg => ⟨mA _ _ hg.1, mB _ _ hg.2⟩

theorem graded_trivial (G : LieModel ℝ) : Graded G id (fun _ _ => True) (fun _ => True) :=
  ⟨fun _ _ _ _ _ _ => trivial, fun _ _ _ => trivial, fun _ _ => trivial, fun _ _ _ => trivial⟩

-- ---------------------------------------------------------------- any ε-accurate implementation
/-- a model (think: the floating-point implementation read as real functions) whose operations
    are accurate to relative error `ε` in a multiplicative functional `nrm` (the squared norm of the
    constrained part) -/
structure EpsAccurate (G : LieModel ℝ) (lp : Vec ℝ G.rep → Vec ℝ G.rep) (nrm : Vec ℝ G.rep → ℝ) (ε : ℝ) : Prop where
  comp : ∀ a b, |nrm (G.composition a b) - nrm a * nrm b| ≤ ε * (nrm a * nrm b)
  inv : ∀ a, |nrm (G.inverse a) - nrm a| ≤ ε * nrm a ∨ |nrm (G.inverse a) * nrm a - 1| ≤ ε
  exp : ∀ a, |nrm (G.exp a) - 1| ≤ ε
  lp : ∀ a, |nrm (lp a) - nrm a| ≤ ε * nrm a

theorem eps_graded {G : LieModel ℝ} {lp : Vec ℝ G.rep → Vec ℝ G.rep} {nrm : Vec ℝ G.rep → ℝ} {ε : ℝ}
    (h0 : 0 ≤ ε) (h1 : ε < 1) (H : EpsAccurate G lp nrm ε) :
    Graded G lp (fun m g => Band ε m (nrm g)) (fun _ => True) where
  comp := fun _ _ a b ha hb => band_mul h0 h1 ha hb (H.comp a b)
  inv := fun _ a ha => by
    rcases H.inv a with h | h
    · exact band_keep h0 h1 ha h
    · exact band_recip h0 h1 ha h
  exp := fun a _ => band_one h0 h1 (H.exp a)
  lp := fun _ a ha => band_keep h0 h1 ha (H.lp a)

end C15
