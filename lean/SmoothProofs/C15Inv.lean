/-
  C15Inv.lean — the graded invariants of the concrete groups (`Hist.Graded` instances).

  SO3: `Near m` (norm² within `D0^{∓m}`, canonical sign) for ALL tangents; `Unit ∧ Canon` exactly
  when the exp arguments avoid the series branch.  SO2, SE2 (two-sorted, with the SO3 / SE3
  companion registers of `lift` / `project`): in SmoothProofs/C15Lift.lean.  SE3, Galilei, SE_K(3): pulled back along the quaternion part.
  Bundle: componentwise (`graded_prod`, `graded_unit`).  Any model with ε-accurate ops: `Band`.
-/
import SmoothProofs.C15Hist
import SmoothProofs.C15SO3
import SmoothProofs.C15Drift
import SmoothProofs.C15Lift
import SmoothProofs.C01Small
import SmoothProofs.C01SE3
import SmoothProofs.C01Bundle

open Lin Scalar

namespace C15
open Hist

-- ---------------------------------------------------------------- SO3
theorem so3_graded : Graded (SO3.model : LieModel ℝ) (Lifting.triv _) Near
    (fun m (q : Vec ℝ (Lifting.triv (SO3.model : LieModel ℝ)).lrep) => Near m q) (fun _ => True) :=
  graded_triv (G := SO3.model) (fun _ _ _ _ ha hb => near_composition ha hb) (fun _ _ hg => near_inverse hg)
    (fun a _ => near_exp a) (fun _ _ h => near_mono (Nat.le_succ _) h)

/-- tangents for which `SO3.exp` takes the closed-form branch -/
def ClosedBranch (a : Vec ℝ 3) : Prop := ¬ sqNorm a < (Scalar.eps2 : ℝ)

theorem so3_exact : Graded (SO3.model : LieModel ℝ) (Lifting.triv _) (fun _ q => SO3.Unit q ∧ SO3.Canon q)
    (fun _ (q : Vec ℝ (Lifting.triv (SO3.model : LieModel ℝ)).lrep) => SO3.Unit q ∧ SO3.Canon q) ClosedBranch :=
  graded_triv (G := SO3.model) (Inv := fun _ q => SO3.Unit q ∧ SO3.Canon q)
    (fun _ _ a b ha hb => ⟨SO3.unit_composition a b ha.1 hb.1, SO3.canon_composition a b⟩)
    (fun _ g hg => ⟨SO3.unit_inverse g hg.1, canon_inverse g hg.2⟩)
    (fun a ha => ⟨sqn_exp_closed a ha, canon_exp a⟩) (fun _ _ h => h)

-- ---------------------------------------------------------------- groups built on SO3Impl
/-- pull the SO3 invariant back along the quaternion part `π` of a group whose operations act
    on that part by the SO3 operations -/
theorem graded_pullback (G : LieModel ℝ) (π : Vec ℝ G.rep → Vec ℝ 4) (τ : Vec ℝ G.dof → Vec ℝ 3)
    (hc : ∀ a b, π (G.composition a b) = SO3.composition (π a) (π b))
    (hi : ∀ g, π (G.inverse g) = SO3.inverse (π g))
    (he : ∀ a, π (G.exp a) = SO3.exp (τ a)) :
    Graded G (Lifting.triv G) (fun m g => Near m (π g))
      (fun m (g : Vec ℝ (Lifting.triv G).lrep) => Near m (π g)) (fun _ => True) :=
  graded_triv (Inv := fun m g => Near m (π g))
    (fun _ _ a b ha hb => by rw [hc]; exact near_composition ha hb)
    (fun _ g hg => by rw [hi]; exact near_inverse hg)
    (fun a _ => by rw [he]; exact near_exp _)
    (fun _ _ h => near_mono (Nat.le_succ _) h)

theorem se3_so3_exp (a : Vec ℝ 6) : SE3.so3 (SE3.exp a) = SO3.exp (SE3.tw a) := by
  simp only [SE3.exp, SE3.so3_mk7, memoV_eq]

theorem se3_graded : Graded (SE3.model : LieModel ℝ) (Lifting.triv _) (fun m g => Near m (SE3.so3 g))
    (fun m (g : Vec ℝ (Lifting.triv (SE3.model : LieModel ℝ)).lrep) => Near m (SE3.so3 g)) (fun _ => True) :=
  graded_pullback SE3.model SE3.so3 SE3.tw SE3.so3_composition SE3.so3_inverse se3_so3_exp

theorem gal_gq_exp (a : Vec ℝ 10) : Galilei.gq (Galilei.exp a) = SO3.exp (Galilei.tw a) := by
  simp only [Galilei.exp, Galilei.gq_mkG]

theorem galilei_graded : Graded (Galilei.model : LieModel ℝ) (Lifting.triv _) (fun m g => Near m (Galilei.gq g))
    (fun m (g : Vec ℝ (Lifting.triv (Galilei.model : LieModel ℝ)).lrep) => Near m (Galilei.gq g)) (fun _ => True) :=
  graded_pullback Galilei.model Galilei.gq Galilei.tw Galilei.gq_composition Galilei.gq_inverse gal_gq_exp

theorem sek3_gq_exp (k : Nat) (a : Vec ℝ (3 + 3 * k)) : SEK3.gq k (SEK3.exp k a) = SO3.exp (SEK3.tw k a) := by
  simp only [SEK3.exp, SEK3.gq_mkG, memoV_eq]

theorem sek3_graded (k : Nat) :
    Graded (SEK3.model k : LieModel ℝ) (Lifting.triv _) (fun m g => Near m (SEK3.gq k g))
      (fun m (g : Vec ℝ (Lifting.triv (SEK3.model k : LieModel ℝ)).lrep) => Near m (SEK3.gq k g)) (fun _ => True) :=
  graded_pullback (SEK3.model k) (SEK3.gq k) (SEK3.tw k) (SEK3.gq_composition k) (SEK3.gq_inverse k) (sek3_gq_exp k)

-- ---------------------------------------------------------------- Bundle
/-- the element-register part of a graded invariant (what a factor of a Bundle contributes:
    Bundles have no lifts) -/
structure GradedOps (G : LieModel ℝ) (Inv : Nat → Vec ℝ G.rep → Prop) (TanOK : Vec ℝ G.dof → Prop) : Prop where
  comp : ∀ m n a b, Inv m a → Inv n b → Inv (m + n + 1) (G.composition a b)
  inv : ∀ m a, Inv m a → Inv (m + 1) (G.inverse a)
  exp : ∀ a, TanOK a → Inv 1 (G.exp a)

theorem graded_ops {G : LieModel ℝ} {C : Lifting ℝ G} {Inv : Nat → Vec ℝ G.rep → Prop}
    {InvL : Nat → Vec ℝ C.lrep → Prop} {TanOK : Vec ℝ G.dof → Prop} (H : Graded G C Inv InvL TanOK) :
    GradedOps G Inv TanOK := ⟨H.comp, H.inv, H.exp⟩

theorem graded_prod {A B : LieModel ℝ} {IA : Nat → Vec ℝ A.rep → Prop} {IB : Nat → Vec ℝ B.rep → Prop}
    {TA : Vec ℝ A.dof → Prop} {TB : Vec ℝ B.dof → Prop}
    (HA : GradedOps A IA TA) (HB : GradedOps B IB TB)
    (mA : ∀ m a, IA m a → IA (m + 1) a) (mB : ∀ m b, IB m b → IB (m + 1) b) :
    Graded (Bundle.prod A B) (Lifting.triv _) (fun m g => IA m (Bundle.fst g) ∧ IB m (Bundle.snd g))
      (fun m (g : Vec ℝ (Lifting.triv (Bundle.prod A B)).lrep) => IA m (Bundle.fst g) ∧ IB m (Bundle.snd g))
      (fun a => TA (Bundle.fst a) ∧ TB (Bundle.snd a)) :=
  graded_triv (G := Bundle.prod A B) (Inv := fun m g => IA m (Bundle.fst g) ∧ IB m (Bundle.snd g))
    (fun m n a b ha hb => by
      show IA _ (Bundle.fst (Bundle.prodComposition A B a b)) ∧ IB _ (Bundle.snd (Bundle.prodComposition A B a b))
      unfold Bundle.prodComposition
      rw [Bundle.fst_vcat, Bundle.snd_vcat]
      exact ⟨HA.comp _ _ _ _ ha.1 hb.1, HB.comp _ _ _ _ ha.2 hb.2⟩)
    (fun m g hg => by
      show IA _ (Bundle.fst (Bundle.prodInverse A B g)) ∧ IB _ (Bundle.snd (Bundle.prodInverse A B g))
      unfold Bundle.prodInverse
      rw [Bundle.fst_vcat, Bundle.snd_vcat]
      exact ⟨HA.inv _ _ hg.1, HB.inv _ _ hg.2⟩)
    (fun a ha => by
      show IA _ (Bundle.fst (Bundle.prodExp A B a)) ∧ IB _ (Bundle.snd (Bundle.prodExp A B a))
      unfold Bundle.prodExp
      rw [Bundle.fst_vcat, Bundle.snd_vcat]
      exact ⟨HA.exp _ ha.1, HB.exp _ ha.2⟩)
    (fun m g hg => ⟨mA _ _ hg.1, mB _ _ hg.2⟩)

theorem graded_trivial (G : LieModel ℝ) : GradedOps G (fun _ _ => True) (fun _ => True) :=
  ⟨fun _ _ _ _ _ _ => trivial, fun _ _ _ => trivial, fun _ _ => trivial⟩

-- ---------------------------------------------------------------- any ε-accurate implementation
/-- a model (think: the floating-point implementation read as real functions) whose operations
    are accurate to relative error `ε` in multiplicative functionals `nrm` / `nrmL` (the squared norm
    of the constrained part of an element / of a lifted element).  `inverse`, `lift` and `project`
    may either carry the operand's norm² on or renormalise. -/
structure EpsAccurate (G : LieModel ℝ) (C : Lifting ℝ G) (nrm : Vec ℝ G.rep → ℝ) (nrmL : Vec ℝ C.lrep → ℝ)
    (ε : ℝ) : Prop where
  comp : ∀ a b, |nrm (G.composition a b) - nrm a * nrm b| ≤ ε * (nrm a * nrm b)
  inv : ∀ a, |nrm (G.inverse a) - nrm a| ≤ ε * nrm a ∨ |nrm (G.inverse a) * nrm a - 1| ≤ ε
  exp : ∀ a, |nrm (G.exp a) - 1| ≤ ε
  lift : ∀ a, |nrmL (C.lift a) - nrm a| ≤ ε * nrm a ∨ |nrmL (C.lift a) - 1| ≤ ε
  project : ∀ a, |nrm (C.project a) - nrmL a| ≤ ε * nrmL a ∨ |nrm (C.project a) - 1| ≤ ε

theorem eps_graded {G : LieModel ℝ} {C : Lifting ℝ G} {nrm : Vec ℝ G.rep → ℝ} {nrmL : Vec ℝ C.lrep → ℝ} {ε : ℝ}
    (h0 : 0 ≤ ε) (h1 : ε < 1) (H : EpsAccurate G C nrm nrmL ε) :
    Graded G C (fun m g => Band ε m (nrm g)) (fun m q => Band ε m (nrmL q)) (fun _ => True) where
  comp := fun _ _ a b ha hb => band_mul h0 h1 ha hb (H.comp a b)
  inv := fun _ a ha => by
    rcases H.inv a with h | h
    · exact band_keep h0 h1 ha h
    · exact band_recip h0 h1 ha h
  exp := fun a _ => band_one h0 h1 (H.exp a)
  lift := fun m a ha => by
    rcases H.lift a with h | h
    · exact band_keep h0 h1 ha h
    · exact band_mono h0 h1 (Nat.le_add_left 1 m) (band_one h0 h1 h)
  project := fun m a ha => by
    rcases H.project a with h | h
    · exact band_keep h0 h1 ha h
    · exact band_mono h0 h1 (Nat.le_add_left 1 m) (band_one h0 h1 h)

end C15
