/-
  C03SEK3.lean — C03 for SE_K(3), every `k` (group (p₁ … p_k, q), tangent (v₁ … v_k, Ω);
  (3+k)×(3+k) matrices `[R P; 0 1]`, adjoint built from 3×3 blocks with `ofBlocks`).

  Route: `matrix` and `hat` are instances of one block shape `blkM R P d = [R P; 0 d·1]` with a
  product rule `blkM_mul`; tangent vectors are handled through their 3-blocks `tv a i`, `tw a`
  (`vec_ext`), and `mulVec (ofBlocks B) a` through `sum_blocks3`.
-/
import SmoothProofs.C03Adjoint
import SmoothProofs.C03SO3
import SmoothProofs.C03Small
import SmoothProofs.C03SE3

open Lin Scalar
set_option linter.unusedSimpArgs false
set_option linter.unusedTactic false
set_option linter.unreachableTactic false
set_option linter.unnecessarySeqFocus false
set_option linter.unusedVariables false

namespace C03
namespace SEK3
variable {k : Nat}

/-! #### the block shape `[R P; 0 d·1]` -/

/-- `[R P; 0 d·1]` with `P` given by its `k` columns -/
noncomputable def blkM (k : Nat) (R : Mat ℝ 3 3) (P : Fin k → Vec ℝ 3) (d : ℝ) : Mat ℝ (3 + k) (3 + k) :=
  (.of (fun i j =>
    if hi : i.val < 3 then
      if hj : j.val < 3 then R ⟨i.val, hi⟩ ⟨j.val, hj⟩
      else P ⟨j.val - 3, by have := j.isLt; omega⟩ ⟨i.val, hi⟩
    else if i.val = j.val then d else 0))

theorem blkM_ll (R : Mat ℝ 3 3) (P : Fin k → Vec ℝ 3) (d : ℝ) (i j : Fin 3) :
    blkM k R P d ⟨i.val, by omega⟩ ⟨j.val, by omega⟩ = R i j := by
  simp [blkM]

theorem blkM_lr (R : Mat ℝ 3 3) (P : Fin k → Vec ℝ 3) (d : ℝ) (i : Fin 3) (j : Fin k) :
    blkM k R P d ⟨i.val, by omega⟩ ⟨3 + j.val, by omega⟩ = P j i := by
  simp [blkM]

theorem blkM_rl (R : Mat ℝ 3 3) (P : Fin k → Vec ℝ 3) (d : ℝ) (i : Fin k) (j : Fin 3) :
    blkM k R P d ⟨3 + i.val, by omega⟩ ⟨j.val, by omega⟩ = 0 := by
  have : ¬ (3 + i.val = j.val) := by omega
  simp [blkM, this]

theorem blkM_rr (R : Mat ℝ 3 3) (P : Fin k → Vec ℝ 3) (d : ℝ) (i j : Fin k) :
    blkM k R P d ⟨3 + i.val, by omega⟩ ⟨3 + j.val, by omega⟩ = if i = j then d else 0 := by
  simp [blkM, Fin.ext_iff]

theorem blkM_congr {R R' : Mat ℝ 3 3} {P P' : Fin k → Vec ℝ 3} {d d' : ℝ}
    (hR : R = R') (hP : ∀ j, P j = P' j) (hd : d = d') : blkM k R P d = blkM k R' P' d' := by
  have : P = P' := funext hP
  subst hR; subst this; subst hd; rfl

/-- `[R P; 0 d][R' P'; 0 d'] = [RR', RP' + d'P; 0 dd']` -/
theorem blkM_mul (R R' : Mat ℝ 3 3) (P P' : Fin k → Vec ℝ 3) (d d' : ℝ) :
    mmul (blkM k R P d) (blkM k R' P' d')
      = blkM k (mmul R R') (fun j => vadd (mulVec R (P' j)) (vsmul d' (P j))) (d * d') := by
  ext i j
  rw [mmul_apply, sum_split]
  revert j; revert i
  refine fin_add_cases ?_ ?_ <;> intro i <;> refine fin_add_cases ?_ ?_ <;> intro j
  · simp only [blkM_ll, blkM_lr, blkM_rl, mmul_apply]; simp
  · simp only [blkM_ll, blkM_lr, blkM_rr]
    simp [mulVec_apply, vadd, vsmul, Finset.sum_ite_eq', mul_comm]
  · simp only [blkM_ll, blkM_lr, blkM_rl, blkM_rr]; simp
  · simp only [blkM_lr, blkM_rl, blkM_rr]
    simp [Finset.sum_ite_eq]

theorem blkM_sub (R R' : Mat ℝ 3 3) (P P' : Fin k → Vec ℝ 3) (d d' : ℝ) :
    msub (blkM k R P d) (blkM k R' P' d') = blkM k (msub R R') (fun j => vsub (P j) (P' j)) (d - d') := by
  ext i j
  revert j; revert i
  refine fin_add_cases ?_ ?_ <;> intro i <;> refine fin_add_cases ?_ ?_ <;> intro j
  · simp only [msub, Mat.of_get, blkM_ll]
  · simp only [msub, Mat.of_get, blkM_lr, vsub, Vec.of_get]
  · simp only [msub, Mat.of_get, blkM_rl]; simp
  · simp only [msub, Mat.of_get, blkM_rr]; split_ifs <;> simp

theorem blkM_add (R R' : Mat ℝ 3 3) (P P' : Fin k → Vec ℝ 3) (d d' : ℝ) :
    madd (blkM k R P d) (blkM k R' P' d') = blkM k (madd R R') (fun j => vadd (P j) (P' j)) (d + d') := by
  ext i j
  revert j; revert i
  refine fin_add_cases ?_ ?_ <;> intro i <;> refine fin_add_cases ?_ ?_ <;> intro j
  · simp only [madd, Mat.of_get, blkM_ll]
  · simp only [madd, Mat.of_get, blkM_lr, vadd, Vec.of_get]
  · simp only [madd, Mat.of_get, blkM_rl]; simp
  · simp only [madd, Mat.of_get, blkM_rr]; split_ifs <;> simp

theorem blkM_smul (s : ℝ) (R : Mat ℝ 3 3) (P : Fin k → Vec ℝ 3) (d : ℝ) :
    msmul s (blkM k R P d) = blkM k (msmul s R) (fun j => vsmul s (P j)) (s * d) := by
  ext i j
  revert j; revert i
  refine fin_add_cases ?_ ?_ <;> intro i <;> refine fin_add_cases ?_ ?_ <;> intro j
  · simp only [msmul, Mat.of_get, blkM_ll]
  · simp only [msmul, Mat.of_get, blkM_lr, vsmul, Vec.of_get]
  · simp only [msmul, Mat.of_get, blkM_rl]; simp
  · simp only [msmul, Mat.of_get, blkM_rr]; split_ifs <;> simp

theorem blkM_ident : blkM k (ident 3) (fun _ => vzero 3) 1 = ident (3 + k) := by
  ext i j
  revert j; revert i
  refine fin_add_cases ?_ ?_ <;> intro i <;> refine fin_add_cases ?_ ?_ <;> intro j
  · simp only [blkM_ll]; simp [ident, Fin.ext_iff]
  · simp only [blkM_lr]
    have : ¬ (i.val = 3 + j.val) := by have := i.isLt; omega
    simp [ident, vzero, Fin.ext_iff, this]
  · simp only [blkM_rl]
    have : ¬ (3 + i.val = j.val) := by have := j.isLt; omega
    simp [ident, Fin.ext_iff, this]
  · simp only [blkM_rr]; simp [ident, Fin.ext_iff]

theorem matrix_eq_blkM (g : Vec ℝ (4 + 3 * k)) :
    SEK3.matrix k g = blkM k (SO3.matrix (SEK3.gq k g)) (SEK3.gp k g) 1 := by
  ext i j
  simp [SEK3.matrix, blkM, SEK3.gp]

theorem hat_eq_blkM (a : Vec ℝ (3 + 3 * k)) :
    SEK3.hat k a = blkM k (SO3.hat (SEK3.tw k a)) (SEK3.tv k a) 0 := by
  ext i j
  simp [SEK3.hat, blkM, SEK3.tv]

/-! #### tangent and group vectors through their 3-blocks -/

/-- block `b` (three consecutive entries) of a `(3+3k)`-vector; `b = k` is the rotation part -/
noncomputable def blk (a : Vec ℝ (3 + 3 * k)) (b : Fin (k + 1)) : Vec ℝ 3 :=
  (.of (fun c => a ⟨3 * b.val + c.val, by have := b.isLt; have := c.isLt; omega⟩))

theorem tv_eq_blk (a : Vec ℝ (3 + 3 * k)) (i : Fin k) : SEK3.tv k a i = blk a i.castSucc := by
  ext c; simp [SEK3.tv, blk]

theorem tw_eq_blk (a : Vec ℝ (3 + 3 * k)) : SEK3.tw k a = blk a (Fin.last k) := by
  ext c; simp [SEK3.tw, blk]

/-- a tangent vector is determined by its blocks -/
theorem vec_ext {a b : Vec ℝ (3 + 3 * k)} (hw : SEK3.tw k a = SEK3.tw k b)
    (hv : ∀ i, SEK3.tv k a i = SEK3.tv k b i) : a = b := by
  ext l
  by_cases h : l.val < 3 * k
  · have e := congrArg (fun v : Vec ℝ 3 => v ⟨l.val % 3, Nat.mod_lt _ (by decide)⟩)
      (hv ⟨l.val / 3, by omega⟩)
    have hl : 3 * (l.val / 3) + l.val % 3 = l.val := Nat.div_add_mod _ _
    simpa [SEK3.tv, hl] using e
  · have e := congrArg (fun v : Vec ℝ 3 => v ⟨l.val - 3 * k, by have := l.isLt; omega⟩) hw
    have hl : 3 * k + (l.val - 3 * k) = l.val := by omega
    simpa [SEK3.tw, hl] using e

theorem tw_mkT (v : Fin k → Vec ℝ 3) (w : Vec ℝ 3) : SEK3.tw k (SEK3.mkT k v w) = w := by
  ext c; simp [SEK3.tw, SEK3.mkT]

theorem tv_mkT (v : Fin k → Vec ℝ 3) (w : Vec ℝ 3) (i : Fin k) : SEK3.tv k (SEK3.mkT k v w) i = v i := by
  ext c
  have h1 : 3 * i.val + c.val < 3 * k := by have := i.isLt; have := c.isLt; omega
  have h2 : (3 * i.val + c.val) / 3 = i.val := by have := c.isLt; omega
  have h3 : (3 * i.val + c.val) % 3 = c.val := by have := c.isLt; omega
  have h4 : c.val % 3 = c.val := Nat.mod_eq_of_lt c.isLt
  simp [SEK3.tv, SEK3.mkT, h1, h2, h3, h4]

theorem gq_mkG (p : Fin k → Vec ℝ 3) (q : Vec ℝ 4) : SEK3.gq k (SEK3.mkG k p q) = q := by
  ext c; simp [SEK3.gq, SEK3.mkG]

theorem gp_mkG (p : Fin k → Vec ℝ 3) (q : Vec ℝ 4) (i : Fin k) : SEK3.gp k (SEK3.mkG k p q) i = p i := by
  ext c
  have h1 : 3 * i.val + c.val < 3 * k := by have := i.isLt; have := c.isLt; omega
  have h2 : (3 * i.val + c.val) / 3 = i.val := by have := c.isLt; omega
  have h3 : (3 * i.val + c.val) % 3 = c.val := by have := c.isLt; omega
  have h4 : c.val % 3 = c.val := Nat.mod_eq_of_lt c.isLt
  simp [SEK3.gp, SEK3.mkG, h1, h2, h3, h4]

/-- a sum over `Fin (3+3k)` by blocks of three -/
theorem sum_blocks3 (k : Nat) (F : Fin (3 + 3 * k) → ℝ) :
    ∑ l, F l = ∑ b : Fin (k + 1), ∑ c : Fin 3,
      F ⟨3 * b.val + c.val, by have := b.isLt; have := c.isLt; omega⟩ := by
  have h : (k + 1) * 3 = 3 + 3 * k := by ring
  rw [← Fintype.sum_prod_type']
  symm
  apply Fintype.sum_equiv (finProdFinEquiv.trans (finCongr h))
  intro x
  congr 1
  apply Fin.ext
  simp [finProdFinEquiv]
  ring

theorem ofBlocks_apply (B : Fin (k + 1) → Fin (k + 1) → Mat ℝ 3 3) (bi bj : Fin (k + 1)) (c c' : Fin 3) :
    SEK3.ofBlocks k B ⟨3 * bi.val + c.val, by have := bi.isLt; have := c.isLt; omega⟩
      ⟨3 * bj.val + c'.val, by have := bj.isLt; have := c'.isLt; omega⟩ = B bi bj c c' := by
  have h2 : (3 * bi.val + c.val) / 3 = bi.val := by have := c.isLt; omega
  have h3 : (3 * bi.val + c.val) % 3 = c.val := by have := c.isLt; omega
  have h2' : (3 * bj.val + c'.val) / 3 = bj.val := by have := c'.isLt; omega
  have h3' : (3 * bj.val + c'.val) % 3 = c'.val := by have := c'.isLt; omega
  simp [SEK3.ofBlocks, h2, h3, h2', h3']

/-- block `bi` of `ofBlocks B · a` is `Σ_bj B bi bj · (block bj of a)` -/
theorem blk_mulVec_ofBlocks (B : Fin (k + 1) → Fin (k + 1) → Mat ℝ 3 3) (a : Vec ℝ (3 + 3 * k))
    (bi : Fin (k + 1)) (c : Fin 3) :
    blk (mulVec (SEK3.ofBlocks k B) a) bi c = ∑ bj, mulVec (B bi bj) (blk a bj) c := by
  simp only [blk, Vec.of_get, mulVec_apply]
  rw [sum_blocks3]
  simp only [ofBlocks_apply]

/-! #### the "arrow" block pattern of `Ad` and `ad`: diagonal `D`, last block column `E i` -/

noncomputable def arrowB (k : Nat) (D : Mat ℝ 3 3) (E : Fin k → Mat ℝ 3 3) :
    Fin (k + 1) → Fin (k + 1) → Mat ℝ 3 3 :=
  fun bi bj =>
    if bi.val = bj.val then D
    else if h : bj.val = k ∧ bi.val < k then E ⟨bi.val, h.2⟩
    else mzero 3 3

theorem Ad_eq_arrow (g : Vec ℝ (4 + 3 * k)) :
    SEK3.Ad k g = SEK3.ofBlocks k (arrowB k (SO3.matrix (SEK3.gq k g))
      (fun i => mmul (SO3.hat (SEK3.gp k g i)) (SO3.matrix (SEK3.gq k g)))) := by
  simp only [SEK3.Ad, memoM_eq']; rfl

theorem ad_eq_arrow (a : Vec ℝ (3 + 3 * k)) :
    SEK3.ad k a = SEK3.ofBlocks k (arrowB k (SO3.hat (SEK3.tw k a)) (fun i => SO3.hat (SEK3.tv k a i))) := by
  simp only [SEK3.ad]; rfl

theorem tw_arrow (D : Mat ℝ 3 3) (E : Fin k → Mat ℝ 3 3) (x : Vec ℝ (3 + 3 * k)) :
    SEK3.tw k (mulVec (SEK3.ofBlocks k (arrowB k D E)) x) = mulVec D (SEK3.tw k x) := by
  ext c
  rw [tw_eq_blk, blk_mulVec_ofBlocks, Fin.sum_univ_castSucc, tw_eq_blk]
  have h0 : ∀ j : Fin k, mulVec (arrowB k D E (Fin.last k) j.castSucc) (blk x j.castSucc) c = 0 := by
    intro j
    have h1 : ¬ ((Fin.last k).val = (j.castSucc : Fin (k + 1)).val) := by
      have := j.isLt; simp; omega
    have h2 : ¬ ((j.castSucc : Fin (k + 1)).val = k ∧ (Fin.last k).val < k) := by simp
    simp only [arrowB, if_neg h1, dif_neg h2, mulVec_mzero]
    simp [vzero]
  simp only [h0, Finset.sum_const_zero, zero_add]
  simp [arrowB]

theorem tv_arrow (D : Mat ℝ 3 3) (E : Fin k → Mat ℝ 3 3) (x : Vec ℝ (3 + 3 * k)) (i : Fin k) :
    SEK3.tv k (mulVec (SEK3.ofBlocks k (arrowB k D E)) x) i
      = vadd (mulVec D (SEK3.tv k x i)) (mulVec (E i) (SEK3.tw k x)) := by
  ext c
  rw [tv_eq_blk, blk_mulVec_ofBlocks, Fin.sum_univ_castSucc, tv_eq_blk, tw_eq_blk]
  have h0 : ∀ j : Fin k, mulVec (arrowB k D E i.castSucc j.castSucc) (blk x j.castSucc) c
      = if i = j then mulVec D (blk x i.castSucc) c else 0 := by
    intro j
    by_cases hij : i = j
    · subst hij; simp [arrowB]
    · have h1 : ¬ ((i.castSucc : Fin (k + 1)).val = (j.castSucc : Fin (k + 1)).val) := by
        simpa [Fin.ext_iff] using hij
      have h2 : ¬ ((j.castSucc : Fin (k + 1)).val = k ∧ (i.castSucc : Fin (k + 1)).val < k) := by
        have := j.isLt; simp; omega
      simp only [arrowB, if_neg h1, dif_neg h2, mulVec_mzero, if_neg hij]
      simp [vzero]
  have h1 : ¬ ((i.castSucc : Fin (k + 1)).val = (Fin.last k).val) := by
    have := i.isLt; simp; omega
  have h2 : (Fin.last k).val = k ∧ (i.castSucc : Fin (k + 1)).val < k := ⟨rfl, i.isLt⟩
  simp only [h0, Finset.sum_ite_eq, Finset.mem_univ, if_true]
  simp only [arrowB, if_neg h1, dif_pos h2, vadd, Vec.of_get]
  rfl

/-! #### C03 for SE_K(3) -/

/-- representation constraint: unit quaternion part -/
def IsUnit (g : Vec ℝ (4 + 3 * k)) : Prop := UnitQ (SEK3.gq k g)

/-- documented algebra se_k(3): skew 3×3 block, `k` free columns, zero rows below -/
def InAlgebra (A : Mat ℝ (3 + k) (3 + k)) : Prop := SkewTL A ∧ ∀ i j, 3 ≤ i.val → A i j = 0

theorem tl_hat (a : Vec ℝ (3 + 3 * k)) :
    (Mat.of (fun i j : Fin 3 => SEK3.hat k a ⟨i.val, by omega⟩ ⟨j.val, by omega⟩)) = SO3.hat (SEK3.tw k a) := by
  ext i j
  simp only [Mat.of_get]
  rw [hat_eq_blkM]; exact blkM_ll _ _ _ i j

theorem vee_hat (a : Vec ℝ (3 + 3 * k)) : SEK3.vee k (SEK3.hat k a) = a := by
  apply vec_ext
  · unfold SEK3.vee
    simp only [tw_mkT]
    rw [tl_hat, C03.SO3.vee_hat]
  · intro i
    unfold SEK3.vee
    simp only [tv_mkT]
    ext c
    simp only [Vec.of_get]
    rw [hat_eq_blkM]; exact blkM_lr _ _ _ c i

theorem hat_inAlgebra (a : Vec ℝ (3 + 3 * k)) : InAlgebra (SEK3.hat k a) := by
  refine ⟨?_, ?_⟩
  · intro i j
    rw [hat_eq_blkM, blkM_ll, blkM_ll]
    exact C03.SO3.hat_inAlgebra _ i j
  · intro i j hi
    have : ¬ i.val < 3 := by omega
    simp [SEK3.hat, this]

theorem hat_vee (A : Mat ℝ (3 + k) (3 + k)) (h : InAlgebra A) : SEK3.hat k (SEK3.vee k A) = A := by
  obtain ⟨hs, hz⟩ := h
  rw [hat_eq_blkM]
  unfold SEK3.vee
  simp only [tw_mkT, tv_mkT]
  have hTL : SO3.hat (SO3.vee (Mat.of (fun i j : Fin 3 => A ⟨i.val, by omega⟩ ⟨j.val, by omega⟩)))
      = Mat.of (fun i j : Fin 3 => A ⟨i.val, by omega⟩ ⟨j.val, by omega⟩) := by
    apply C03.SO3.hat_vee
    intro i j
    simpa using hs i j
  rw [hTL]
  ext i j
  revert j; revert i
  refine fin_add_cases ?_ ?_ <;> intro i <;> refine fin_add_cases ?_ ?_ <;> intro j
  · rw [blkM_ll]; rfl
  · rw [blkM_lr, tv_mkT]; rfl
  · rw [blkM_rl]; exact (hz _ _ (by simp)).symm
  · rw [blkM_rr]; rw [hz _ _ (by simp)]; simp

theorem tw_vadd (a b : Vec ℝ (3 + 3 * k)) : SEK3.tw k (vadd a b) = vadd (SEK3.tw k a) (SEK3.tw k b) := by
  ext c; simp [SEK3.tw, vadd]
theorem tv_vadd (a b : Vec ℝ (3 + 3 * k)) (i : Fin k) :
    SEK3.tv k (vadd a b) i = vadd (SEK3.tv k a i) (SEK3.tv k b i) := by
  ext c; simp [SEK3.tv, vadd]
theorem tw_vsmul (s : ℝ) (a : Vec ℝ (3 + 3 * k)) : SEK3.tw k (vsmul s a) = vsmul s (SEK3.tw k a) := by
  ext c; simp [SEK3.tw, vsmul]
theorem tv_vsmul (s : ℝ) (a : Vec ℝ (3 + 3 * k)) (i : Fin k) :
    SEK3.tv k (vsmul s a) i = vsmul s (SEK3.tv k a i) := by
  ext c; simp [SEK3.tv, vsmul]

theorem hat_add (a b : Vec ℝ (3 + 3 * k)) :
    SEK3.hat k (vadd a b) = madd (SEK3.hat k a) (SEK3.hat k b) := by
  rw [hat_eq_blkM, hat_eq_blkM a, hat_eq_blkM b, blkM_add]
  apply blkM_congr
  · rw [tw_vadd, C03.SO3.hat_add]
  · intro j; rw [tv_vadd]
  · simp

theorem hat_smul (s : ℝ) (a : Vec ℝ (3 + 3 * k)) : SEK3.hat k (vsmul s a) = msmul s (SEK3.hat k a) := by
  rw [hat_eq_blkM, hat_eq_blkM a, blkM_smul]
  apply blkM_congr
  · rw [tw_vsmul, C03.SO3.hat_smul]
  · intro j; rw [tv_vsmul]
  · simp

theorem vec3_ad (Wa : Mat ℝ 3 3) (va vb wb : Vec ℝ 3) :
    vadd (mulVec Wa vb) (mulVec (SO3.hat va) wb)
      = vsub (vadd (mulVec Wa vb) (vsmul 0 va)) (vadd (mulVec (SO3.hat wb) va) (vsmul 0 vb)) := by
  ext c
  fin_cases c <;> simp [vadd, vsub, vsmul, mulVec, vsum, SO3.hat] <;> ring

theorem vec3_Ad (R : Mat ℝ 3 3) (v p w : Vec ℝ 3) :
    vadd (mulVec R v) (vsmul 0 p)
      = vadd (mulVec (SO3.hat (mulVec R w)) p)
          (vsmul 1 (vadd (mulVec R v) (mulVec (mmul (SO3.hat p) R) w))) := by
  ext c
  fin_cases c <;> simp [vadd, vsmul, mulVec, mmul, vsum, SO3.hat] <;> ring

/-- `hat (ad a · b) = [hat a, hat b]`, every `k` -/
theorem ad_def (a b : Vec ℝ (3 + 3 * k)) :
    SEK3.hat k (mulVec (SEK3.ad k a) b)
      = msub (mmul (SEK3.hat k a) (SEK3.hat k b)) (mmul (SEK3.hat k b) (SEK3.hat k a)) := by
  rw [hat_eq_blkM, hat_eq_blkM a, hat_eq_blkM b, blkM_mul, blkM_mul, blkM_sub, ad_eq_arrow, tw_arrow]
  apply blkM_congr
  · exact C03.SO3.ad_def (SEK3.tw k a) (SEK3.tw k b)
  · intro j; rw [tv_arrow]; exact vec3_ad _ _ _ _
  · simp

/-- `matrix g · hat a = hat (Ad g · a) · matrix g`, every `k`, unit quaternion part -/
theorem Ad_def (g : Vec ℝ (4 + 3 * k)) (h : IsUnit g) (a : Vec ℝ (3 + 3 * k)) :
    mmul (SEK3.matrix k g) (SEK3.hat k a)
      = mmul (SEK3.hat k (mulVec (SEK3.Ad k g) a)) (SEK3.matrix k g) := by
  rw [hat_eq_blkM a, hat_eq_blkM, matrix_eq_blkM, blkM_mul, blkM_mul, Ad_eq_arrow, tw_arrow]
  apply blkM_congr
  · exact so3_matrix_hat _ h _
  · intro j; rw [tv_arrow]; exact vec3_Ad _ _ _ _
  · simp

theorem unit_composition (a b : Vec ℝ (4 + 3 * k)) (ha : IsUnit a) (hb : IsUnit b) :
    IsUnit (SEK3.composition k a b) := by
  unfold IsUnit SEK3.composition
  simp only [gq_mkG]; exact so3_unit_composition _ _ ha hb

theorem matrix_composition (a b : Vec ℝ (4 + 3 * k)) (ha : IsUnit a) (hb : IsUnit b) :
    SEK3.matrix k (SEK3.composition k a b) = mmul (SEK3.matrix k a) (SEK3.matrix k b) := by
  rw [matrix_eq_blkM, matrix_eq_blkM a, matrix_eq_blkM b, blkM_mul]
  unfold SEK3.composition
  simp only [gq_mkG, gp_mkG, memoM_eq']
  apply blkM_congr
  · exact so3_matrix_composition _ _ ha hb
  · intro j; rw [gp_mkG]; ext c; simp [vadd, vsmul]
  · simp

theorem matrix_right_inverse (g : Vec ℝ (4 + 3 * k)) (h : IsUnit g) :
    ∃ N, mmul (SEK3.matrix k g) N = ident (3 + k) := by
  have hO := so3_matrix_mul_transpose _ h
  refine ⟨blkM k (transpose (SO3.matrix (SEK3.gq k g)))
    (fun j => mulVec (transpose (SO3.matrix (SEK3.gq k g))) (vneg (SEK3.gp k g j))) 1, ?_⟩
  rw [matrix_eq_blkM, blkM_mul, ← blkM_ident]
  apply blkM_congr
  · exact hO
  · intro j
    rw [mulVec_mulVec, hO, mulVec_ident]
    ext c; simp [vadd, vneg, vsmul, vzero]
  · simp

theorem Ad_composition (g₁ g₂ : Vec ℝ (4 + 3 * k)) (h₁ : IsUnit g₁) (h₂ : IsUnit g₂) :
    SEK3.Ad k (SEK3.composition k g₁ g₂) = mmul (SEK3.Ad k g₁) (SEK3.Ad k g₂) :=
  Ad_comp_of (SEK3.model k : LieModel ℝ) IsUnit vee_hat (fun g a h => Ad_def g h a)
    unit_composition matrix_composition matrix_right_inverse g₁ g₂ h₁ h₂

theorem adjointRep (k : Nat) : AdjointRep (SEK3.model k : LieModel ℝ) IsUnit InAlgebra where
  vee_hat := vee_hat
  hat_inAlg := hat_inAlgebra
  hat_vee := hat_vee
  hat_add := hat_add
  hat_smul := hat_smul
  Ad_def := fun g a h => Ad_def g h a
  ad_def := ad_def
  Ad_comp := Ad_composition

end SEK3
end C03
