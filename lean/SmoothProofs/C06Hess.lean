/-
  C06Hess.lean — Hessians (`d2r_exp`, `d2r_expinv`) of `Bundle.bundle ps` over ℝ: the part
  Hessians are placed at `H[off+r, D·(off+j) + off+k] = Hᵢ[r, d·j + k]` (bundle.hpp:194-223) and
  every entry outside these placements is zero.  Induction over the list on an abstract
  "placement family" (`HessFamily`), instantiated twice.
  (ℝ because the model adds the two placements of a binary product: `x + 0 = x` is needed.)
-/
import SmoothProofs.C06List

open Lin Scalar
set_option linter.unusedSectionVars false
set_option linter.unusedVariables false
set_option linter.unusedSimpArgs false

namespace C06

/-- value of a placement at an entry addressed by block-relative indices -/
theorem hessPlace_eq {d : Nat} (D off : Nat) (Hi : Mat ℝ d (d * d)) (R : Fin D) (C : Fin (D * D))
    (r j k : Nat) (hr : r < d) (hj : j < d) (hk : k < d) (hD : off + d ≤ D)
    (hR : R.val = off + r) (hC : C.val = D * (off + j) + (off + k)) :
    Bundle.hessPlace D off Hi R C = Hi ⟨r, hr⟩ ⟨d * j + k, col_lt hj hk⟩ := by
  have hK : off + k < D := by omega
  have hdiv : C.val / D = off + j := by rw [hC, col_div hK]
  have hmod : C.val % D = off + k := by rw [hC, col_mod hK]
  have hin : InBlock D off d R C := by
    refine ⟨?_, ?_, ?_, ?_, ?_, ?_⟩ <;> omega
  rw [hessPlace_in D off Hi R C hin]
  congr 1
  · apply Fin.ext; simp only []; omega
  · apply Fin.ext
    simp only [hdiv, hmod, Nat.add_sub_cancel_left]
    rw [Nat.mul_comm]


/-! ### the sum of two adjacent placements (the form `prodD2rExp` computes) -/

theorem placeSum_entry_fst {dA dB : Nat} (HA : Mat ℝ dA (dA * dA)) (HB : Mat ℝ dB (dB * dB))
    (R : Fin (dA + dB)) (C : Fin ((dA + dB) * (dA + dB))) (r j k : Fin dA)
    (hR : R.val = r.val) (hC : C.val = (dA + dB) * j.val + k.val) :
    Bundle.hessPlace (dA + dB) 0 HA R C + Bundle.hessPlace (dA + dB) dA HB R C =
      HA r ⟨dA * j.val + k.val, col_lt j.isLt k.isLt⟩ := by
  have hout : ¬ InBlock (dA + dB) dA dB R C := by
    intro hb; have := hb.1; omega
  rw [hessPlace_out _ _ _ R C hout,
    hessPlace_eq (dA + dB) 0 HA R C r.val j.val k.val r.isLt j.isLt k.isLt (by omega) (by omega)
      (by rw [hC]; simp)]
  simp

theorem placeSum_entry_snd {dA dB : Nat} (HA : Mat ℝ dA (dA * dA)) (HB : Mat ℝ dB (dB * dB))
    (R : Fin (dA + dB)) (C : Fin ((dA + dB) * (dA + dB))) (r j k : Fin dB)
    (hR : R.val = dA + r.val) (hC : C.val = (dA + dB) * (dA + j.val) + (dA + k.val)) :
    Bundle.hessPlace (dA + dB) 0 HA R C + Bundle.hessPlace (dA + dB) dA HB R C =
      HB r ⟨dB * j.val + k.val, col_lt j.isLt k.isLt⟩ := by
  have hout : ¬ InBlock (dA + dB) 0 dA R C := by
    intro hb; have := hb.2.1; omega
  rw [hessPlace_out _ _ _ R C hout,
    hessPlace_eq (dA + dB) dA HB R C r.val j.val k.val r.isLt j.isLt k.isLt (by omega) hR hC]
  simp

theorem placeSum_zero {dA dB : Nat} (HA : Mat ℝ dA (dA * dA)) (HB : Mat ℝ dB (dB * dB))
    (R : Fin (dA + dB)) (C : Fin ((dA + dB) * (dA + dB)))
    (hA : ¬ InBlock (dA + dB) 0 dA R C) (hB : ¬ InBlock (dA + dB) dA dB R C) :
    Bundle.hessPlace (dA + dB) 0 HA R C + Bundle.hessPlace (dA + dB) dA HB R C = 0 := by
  rw [hessPlace_out _ _ _ R C hA, hessPlace_out _ _ _ R C hB]
  simp

/-- a placed zero Hessian is zero -/
theorem hessPlace_mzero (D off d : Nat) (R : Fin D) (C : Fin (D * D)) :
    Bundle.hessPlace D off (mzero d (d * d) : Mat ℝ d (d * d)) R C = 0 := by
  by_cases h : InBlock D off d R C
  · rw [hessPlace_in D off _ R C h]; simp [mzero]
  · rw [hessPlace_out D off _ R C h]; simp

/-- a family of Hessians, one per part list, built like `prodD2rExp`: the head part's Hessian
    placed at 0 plus the tail's Hessian placed after it -/
structure HessFamily where
  H : (ps : List (LieModel ℝ)) → Vec ℝ (Bundle.bundle ps).dof →
        Mat ℝ (Bundle.bundle ps).dof ((Bundle.bundle ps).dof * (Bundle.bundle ps).dof)
  Hp : (p : LieModel ℝ) → Vec ℝ p.dof → Mat ℝ p.dof (p.dof * p.dof)
  cons : ∀ (p : LieModel ℝ) (ps : List (LieModel ℝ)) (a : Vec ℝ (Bundle.bundle (p :: ps)).dof)
    (R : Fin (p.dof + (Bundle.bundle ps).dof)) (C : Fin ((p.dof + (Bundle.bundle ps).dof) * (p.dof + (Bundle.bundle ps).dof))),
    H (p :: ps) a R C =
      Bundle.hessPlace (p.dof + (Bundle.bundle ps).dof) 0
        (Hp p (Bundle.fst (n := p.dof) (m := (Bundle.bundle ps).dof) a)) R C +
      Bundle.hessPlace (p.dof + (Bundle.bundle ps).dof) p.dof
        (H ps (Bundle.snd (n := p.dof) (m := (Bundle.bundle ps).dof) a)) R C

noncomputable def d2rExpFamily : HessFamily where
  H := fun ps a => (Bundle.bundle ps).d2r_exp a
  Hp := fun p a => p.d2r_exp a
  cons := fun p ps a R C => prod_d2r_exp_apply p (Bundle.bundle ps) a R C

noncomputable def d2rExpinvFamily : HessFamily where
  H := fun ps a => (Bundle.bundle ps).d2r_expinv a
  Hp := fun p a => p.d2r_expinv a
  cons := fun p ps a R C => prod_d2r_expinv_apply p (Bundle.bundle ps) a R C

/-- placement: the entry addressed by part `i` and block-relative indices `(r, j, k)` is the part's
    Hessian entry `(r, d·j + k)` -/
theorem HessFamily.part (F : HessFamily) (ps : List (LieModel ℝ)) (i : Nat) (h : i < ps.length)
    (a : Vec ℝ (Bundle.bundle ps).dof) (r j k : Nat)
    (hr : r < (ps[i]).dof) (hj : j < (ps[i]).dof) (hk : k < (ps[i]).dof)
    (R : Fin (Bundle.bundle ps).dof) (C : Fin ((Bundle.bundle ps).dof * (Bundle.bundle ps).dof))
    (hR : R.val = offs LieModel.dof ps i + r)
    (hC : C.val = (Bundle.bundle ps).dof * (offs LieModel.dof ps i + j) + (offs LieModel.dof ps i + k)) :
    F.H ps a R C = F.Hp (ps[i]) (dofPart ps i h a) ⟨r, hr⟩ ⟨(ps[i]).dof * j + k, col_lt hj hk⟩ := by
  induction ps generalizing i r j k with
  | nil => simp at h
  | cons p ps ih =>
    revert R C
    intro (R : Fin (p.dof + (Bundle.bundle ps).dof))
      (C : Fin ((p.dof + (Bundle.bundle ps).dof) * (p.dof + (Bundle.bundle ps).dof))) hR hC
    have hcons := F.cons p ps a R C
    cases i with
    | zero =>
      have hR0 : R.val = 0 + r := hR
      have hC0 : C.val = (p.dof + (Bundle.bundle ps).dof) * (0 + j) + (0 + k) := hC
      have hr' : r < p.dof := hr
      have hout : ¬ InBlock (p.dof + (Bundle.bundle ps).dof) p.dof (Bundle.bundle ps).dof R C := by
        intro hb; have := hb.1; omega
      have e1 := hessPlace_eq (p.dof + (Bundle.bundle ps).dof) 0
        (F.Hp p (Bundle.fst (n := p.dof) (m := (Bundle.bundle ps).dof) a)) R C r j k hr hj hk (by omega) hR0 hC0
      have e2 := hessPlace_out (p.dof + (Bundle.bundle ps).dof) p.dof
        (F.H ps (Bundle.snd (n := p.dof) (m := (Bundle.bundle ps).dof) a)) R C hout
      refine hcons.trans ?_
      rw [e1, e2, dofPart_zero]
      simp only [Scalar.nat_real, Nat.cast_zero, add_zero]
      rfl
    | succ i =>
      have hi : i < ps.length := by simpa using h
      have hb := dof_bound ps i hi
      have hr' : r < (ps[i]).dof := hr
      have hj' : j < (ps[i]).dof := hj
      have hk' : k < (ps[i]).dof := hk
      have hR1 : R.val = p.dof + offs LieModel.dof ps i + r := hR
      have hC1 : C.val = (p.dof + (Bundle.bundle ps).dof) * (p.dof + offs LieModel.dof ps i + j)
          + (p.dof + offs LieModel.dof ps i + k) := hC
      have hRs : R.val = p.dof + (offs LieModel.dof ps i + r) := by omega
      have hCs : C.val = (p.dof + (Bundle.bundle ps).dof) * (p.dof + (offs LieModel.dof ps i + j))
          + (p.dof + (offs LieModel.dof ps i + k)) := by
        rw [hC1, Nat.add_assoc p.dof, Nat.add_assoc p.dof]
      have hout : ¬ InBlock (p.dof + (Bundle.bundle ps).dof) 0 p.dof R C := by
        intro hb'; have := hb'.2.1; omega
      have e1 := hessPlace_out (p.dof + (Bundle.bundle ps).dof) 0
        (F.Hp p (Bundle.fst (n := p.dof) (m := (Bundle.bundle ps).dof) a)) R C hout
      have e2 := hessPlace_eq (p.dof + (Bundle.bundle ps).dof) p.dof
        (F.H ps (Bundle.snd (n := p.dof) (m := (Bundle.bundle ps).dof) a)) R C
        (offs LieModel.dof ps i + r) (offs LieModel.dof ps i + j) (offs LieModel.dof ps i + k)
        (by omega) (by omega) (by omega) (by omega) hRs hCs
      refine hcons.trans ?_
      rw [e1, e2, dofPart_succ]
      simp only [Scalar.nat_real, Nat.cast_zero, zero_add]
      exact ih i hi _ r j k hr' hj' hk' _ _ rfl rfl

/-- the index triple lies in the block of SOME part -/
def InSomeBlock (ps : List (LieModel ℝ)) (R : Fin (Bundle.bundle ps).dof)
    (C : Fin ((Bundle.bundle ps).dof * (Bundle.bundle ps).dof)) : Prop :=
  ∃ (i : Nat) (h : i < ps.length), InBlock (Bundle.bundle ps).dof (offs LieModel.dof ps i) (ps[i]).dof R C

/-- zero elsewhere: an entry whose (row, outer column, inner column) are not all in the block of
    one and the same part is zero -/
theorem HessFamily.zero (F : HessFamily) (ps : List (LieModel ℝ)) (a : Vec ℝ (Bundle.bundle ps).dof)
    (R : Fin (Bundle.bundle ps).dof) (C : Fin ((Bundle.bundle ps).dof * (Bundle.bundle ps).dof))
    (h : ¬ InSomeBlock ps R C) : F.H ps a R C = 0 := by
  induction ps with
  | nil => exact R.elim0
  | cons p ps ih =>
    revert R C
    intro (R : Fin (p.dof + (Bundle.bundle ps).dof))
      (C : Fin ((p.dof + (Bundle.bundle ps).dof) * (p.dof + (Bundle.bundle ps).dof))) h
    have hcons := F.cons p ps a R C
    have h0 : ¬ InBlock (p.dof + (Bundle.bundle ps).dof) 0 p.dof R C := by
      intro hb
      exact h ⟨0, by simp, hb⟩
    refine hcons.trans ?_
    rw [hessPlace_out (p.dof + (Bundle.bundle ps).dof) 0 _ R C h0]
    by_cases h1 : InBlock (p.dof + (Bundle.bundle ps).dof) p.dof (Bundle.bundle ps).dof R C
    · rw [hessPlace_in (p.dof + (Bundle.bundle ps).dof) p.dof _ R C h1]
      simp only [Scalar.nat_real, Nat.cast_zero, zero_add]
      apply ih
      rintro ⟨i, hi, hb⟩
      apply h
      refine ⟨i + 1, by simpa using hi, ?_⟩
      obtain ⟨b1, b2, b3, b4, b5, b6⟩ := hb
      obtain ⟨c1, c2, c3, c4, c5, c6⟩ := h1
      simp only [] at b1 b2 b3 b4 b5 b6
      have hK : C.val % (p.dof + (Bundle.bundle ps).dof) - p.dof < (Bundle.bundle ps).dof := by omega
      have hdiv : ((C.val / (p.dof + (Bundle.bundle ps).dof) - p.dof) * (Bundle.bundle ps).dof
          + (C.val % (p.dof + (Bundle.bundle ps).dof) - p.dof)) / (Bundle.bundle ps).dof
          = C.val / (p.dof + (Bundle.bundle ps).dof) - p.dof := by
        rw [Nat.mul_comm]; exact col_div hK
      have hmod : ((C.val / (p.dof + (Bundle.bundle ps).dof) - p.dof) * (Bundle.bundle ps).dof
          + (C.val % (p.dof + (Bundle.bundle ps).dof) - p.dof)) % (Bundle.bundle ps).dof
          = C.val % (p.dof + (Bundle.bundle ps).dof) - p.dof := by
        rw [Nat.mul_comm]; exact col_mod hK
      rw [hdiv] at b3 b4
      rw [hmod] at b5 b6
      show InBlock (p.dof + (Bundle.bundle ps).dof) (p.dof + offs LieModel.dof ps i) (ps[i]).dof R C
      refine ⟨?_, ?_, ?_, ?_, ?_, ?_⟩ <;> omega
    · rw [hessPlace_out (p.dof + (Bundle.bundle ps).dof) p.dof _ R C h1]
      simp

end C06
