/-
  C02SEK3.lean — SE_K_3 (every K) and Galilei: closed-form `exp` is the matrix exponential.
  General block form `[[M, C],[0, D]]` on `Fin (3 + k)`; the rotation block is the Rodrigues curve,
  the columns of `C` are the SE3 translation curves (and, for Galilei, the `S₂` curve).
-/
import SmoothProofs.C02SE3

open Lin Scalar

namespace C02

/-- block matrix `[[M, C],[0, D]]` on `Fin (3 + k)` -/
def blkK {k : Nat} (M : Matrix (Fin 3) (Fin 3) ℝ) (C : Matrix (Fin 3) (Fin k) ℝ)
    (D : Matrix (Fin k) (Fin k) ℝ) : Matrix (Fin (3 + k)) (Fin (3 + k)) ℝ := fun i j =>
  if hi : i.val < 3 then
    if hj : j.val < 3 then M ⟨i.val, hi⟩ ⟨j.val, hj⟩ else C ⟨i.val, hi⟩ ⟨j.val - 3, by omega⟩
  else
    if hj : j.val < 3 then 0 else D ⟨i.val - 3, by omega⟩ ⟨j.val - 3, by omega⟩

theorem blkK_mul {k : Nat} (M M' : Matrix (Fin 3) (Fin 3) ℝ) (C C' : Matrix (Fin 3) (Fin k) ℝ)
    (D D' : Matrix (Fin k) (Fin k) ℝ) :
    blkK M C D * blkK M' C' D' = blkK (M * M') (M * C' + C * D') (D * D') := by
  ext i j
  rw [Matrix.mul_apply, Fin.sum_univ_add]
  by_cases hi : i.val < 3 <;> by_cases hj : j.val < 3 <;>
    simp [blkK, hi, hj, Matrix.mul_apply]

theorem blkK_one {k : Nat} : blkK (1 : Matrix (Fin 3) (Fin 3) ℝ) (0 : Matrix (Fin 3) (Fin k) ℝ) 1 = 1 := by
  ext i j
  by_cases hi : i.val < 3 <;> by_cases hj : j.val < 3 <;>
    simp [blkK, hi, hj, Matrix.one_apply, Fin.ext_iff]
  · have : i.val ≠ j.val := by omega
    simp [this]
  · have : i.val ≠ j.val := by omega
    simp [this]
  · have : (i.val - 3 = j.val - 3) ↔ (i.val = j.val) := by omega
    simp [this]

/-- facts about the closed-form SO3 pieces at a rotation vector `w` with `‖w‖² > eps2` -/
theorem so3_closed_pack (w : Vec ℝ 3) (h : Scalar.eps2 < sqNorm w) :
    let θ := Real.sqrt (sqNorm w)
    θ ≠ 0 ∧ θ * θ = w 0 * w 0 + w 1 * w 1 + w 2 * w 2 ∧
    toM (SO3.matrix (SO3.exp w)) = rodCurve (w 0) (w 1) (w 2) θ 1 ∧
    toM (SO3.matrix (SO3.exp w)) * toM (SO3.calc_S1 (vneg w))
      = rodrigues ((1 - Real.cos (1 * θ)) / (θ * θ)) ((1 * θ - Real.sin (1 * θ)) / (θ * θ * θ))
          (w 0) (w 1) (w 2) ∧
    toM (SO3.calc_S1 w)
      = rodrigues ((1 - Real.cos (1 * θ)) / (θ * θ)) ((1 * θ - Real.sin (1 * θ)) / (θ * θ * θ))
          (w 0) (w 1) (w 2) := by
  intro θ
  have hpos : 0 < sqNorm w := lt_trans eps2_pos h
  have hnb : ¬ sqNorm w < Scalar.eps2 := not_lt.2 h.le
  have hθpos : 0 < θ := Real.sqrt_pos.2 hpos
  have hθθ : θ * θ = sqNorm w := Real.mul_self_sqrt hpos.le
  have hsθ : Real.sqrt (sqNorm w) = θ := rfl
  have hn : θ * θ = w 0 * w 0 + w 1 * w 1 + w 2 * w 2 := by rw [hθθ, sqNorm3]
  have hR : toM (SO3.matrix (SO3.exp w))
      = rodrigues (Real.sin θ / θ) ((1 - Real.cos θ) / (θ * θ)) (w 0) (w 1) (w 2) := by
    rw [so3_exp_eq_closed _ hnb]
    unfold so3ExpClosed
    simp only []
    rw [so3_matrix_canon, so3_quat_matrix_rodrigues]
  have hJ : toM (SO3.calc_S1 (vneg w))
      = rodrigues ((Real.cos θ - 1) / (θ * θ)) (-((Real.sin θ - θ) / (θ * θ * θ))) (w 0) (w 1) (w 2) := by
    rw [so3_calc_S1_toM, sqNorm_vneg, trig_cos_2_closed _ h, trig_sin_3_closed _ h, hsθ, ← hθθ]
    have e0 : (vneg w) 0 = -(w 0) := rfl
    have e1 : (vneg w) 1 = -(w 1) := rfl
    have e2 : (vneg w) 2 = -(w 2) := rfl
    rw [e0, e1, e2, K3_neg]
    simp only [rodrigues, smul_neg, neg_mul_neg, neg_smul, sub_eq_add_neg, neg_neg]
  have hsc := Real.sin_sq_add_cos_sq θ
  refine ⟨hθpos.ne', hn, ?_, ?_, ?_⟩
  · rw [hR]; simp [rodCurve]
  · rw [hR, hJ, rodrigues_mul]
    have c1 : Real.sin θ / θ + (Real.cos θ - 1) / (θ * θ)
        - (w 0 * w 0 + w 1 * w 1 + w 2 * w 2) * (Real.sin θ / θ * -((Real.sin θ - θ) / (θ * θ * θ))
          + (1 - Real.cos θ) / (θ * θ) * ((Real.cos θ - 1) / (θ * θ)))
        = (1 - Real.cos (1 * θ)) / (θ * θ) := by
      rw [← hn, one_mul]
      field_simp
      linear_combination hsc
    have c2 : (1 - Real.cos θ) / (θ * θ) + -((Real.sin θ - θ) / (θ * θ * θ))
        + Real.sin θ / θ * ((Real.cos θ - 1) / (θ * θ))
        - (w 0 * w 0 + w 1 * w 1 + w 2 * w 2) * ((1 - Real.cos θ) / (θ * θ)
          * -((Real.sin θ - θ) / (θ * θ * θ)))
        = (1 * θ - Real.sin (1 * θ)) / (θ * θ * θ) := by
      rw [← hn, one_mul]
      field_simp
      ring
    rw [c1, c2]
  · rw [so3_calc_S1_toM, trig_cos_2_closed _ h, trig_sin_3_closed _ h, hsθ, ← hθθ, one_mul]
    simp only [rodrigues]
    have e1 : -((Real.cos θ - 1) / (θ * θ)) = (1 - Real.cos θ) / (θ * θ) := by ring
    have e2 : -((Real.sin θ - θ) / (θ * θ * θ)) = (θ - Real.sin θ) / (θ * θ * θ) := by ring
    rw [sub_eq_add_neg, sub_eq_add_neg, ← neg_smul, ← neg_smul, e1, e2]


/-- the `k` translation columns as a matrix -/
def vMat {k : Nat} (v : Fin k → Fin 3 → ℝ) : Matrix (Fin 3) (Fin k) ℝ := fun c i => v i c

/-- the `k` translation curves as a matrix -/
noncomputable def pMat {k : Nat} (x y z θ : ℝ) (v : Fin k → Fin 3 → ℝ) (u : ℝ) :
    Matrix (Fin 3) (Fin k) ℝ := fun c i => pCurve x y z θ (v i) u c

theorem pMat_zero {k : Nat} (x y z θ : ℝ) (v : Fin k → Fin 3 → ℝ) : pMat x y z θ v 0 = 0 := by
  ext c i; simp [pMat, pCurve_zero]

/-- the SE_K_3 curve `[[R(u), (p_i(u))_i],[0, 1]]` at `u = 1` is the matrix exponential -/
theorem sek3_curve_eq_exp {k : Nat} (x y z θ : ℝ) (v : Fin k → Fin 3 → ℝ) (hθ : θ ≠ 0)
    (hn : θ * θ = x*x + y*y + z*z) :
    blkK (rodCurve x y z θ 1) (pMat x y z θ v 1) 1
      = NormedSpace.exp (blkK (K3 x y z) (vMat v) 0) := by
  let Φ : ℝ → Matrix (Fin (3 + k)) (Fin (3 + k)) ℝ := fun u =>
    blkK (rodCurve x y z θ u) (pMat x y z θ v u) 1
  have h := Matrix.eq_exp_of_entry_hasDerivAt_one (blkK (K3 x y z) (vMat v) 0) Φ
    (by
      simp only [Φ, rodCurve_zero, pMat_zero]
      exact blkK_one)
    (by
      intro t i j
      simp only [Φ, blkK_mul]
      have key : ∀ c i, (K3 x y z * pMat x y z θ v t + vMat v * (1 : Matrix (Fin k) (Fin k) ℝ)) c i
          = ((K3 x y z).mulVec (pCurve x y z θ (v i) t) + (1:ℝ) • v i) c := by
        intro c i
        simp [Matrix.mul_apply, Matrix.mulVec, dotProduct, pMat, vMat]
      by_cases hi : i.val < 3
      · by_cases hj : j.val < 3
        · simpa [blkK, hi, hj] using rodCurve_hasDerivAt x y z θ hθ hn t ⟨i.val, hi⟩ ⟨j.val, hj⟩
        · have := pCurve_hasDerivAt x y z θ (v ⟨j.val - 3, by omega⟩) hθ hn t ⟨i.val, hi⟩
          rw [← key] at this
          simpa [blkK, hi, hj, pMat] using this
      · by_cases hj : j.val < 3
        · simpa [blkK, hi, hj] using hasDerivAt_const t (0:ℝ)
        · simpa [blkK, hi, hj] using hasDerivAt_const t
            ((1 : Matrix (Fin k) (Fin k) ℝ) ⟨i.val - 3, by omega⟩ ⟨j.val - 3, by omega⟩))
  exact h


/-! ### SE_K_3: connection with the model -/

theorem sek3_gq_mkG (k : Nat) (p : Fin k → Vec ℝ 3) (q : Vec ℝ 4) :
    SEK3.gq k (SEK3.mkG k p q) = q := by
  ext i
  simp only [SEK3.gq, SEK3.mkG, Vec.of_get]
  rw [dif_neg (by omega)]
  congr 1; ext; simp

theorem sek3_hat_toM (k : Nat) (a : Vec ℝ (3 + 3 * k)) :
    toM (SEK3.hat k a) = blkK (K3 ((SEK3.tw k a) 0) ((SEK3.tw k a) 1) ((SEK3.tw k a) 2))
      (vMat (fun i => (SEK3.tv k a i).get)) 0 := by
  ext i j
  by_cases hi : i.val < 3
  · by_cases hj : j.val < 3
    · have := congrFun (congrFun (so3_hat_toM (SEK3.tw k a)) ⟨i.val, hi⟩) ⟨j.val, hj⟩
      simpa [toM, SEK3.hat, blkK, hi, hj] using this
    · simp [toM, SEK3.hat, blkK, hi, hj, vMat, SEK3.tv]
  · by_cases hj : j.val < 3 <;> simp [toM, SEK3.hat, blkK, hi, hj]

theorem sek3_matrix_mkG (k : Nat) (p : Fin k → Vec ℝ 3) (q : Vec ℝ 4) :
    toM (SEK3.matrix k (SEK3.mkG k p q))
      = blkK (toM (SO3.matrix q)) (vMat (fun i => (p i).get)) 1 := by
  ext i j
  by_cases hi : i.val < 3
  · by_cases hj : j.val < 3
    · simp [toM, SEK3.matrix, blkK, hi, hj, sek3_gq_mkG]
    · have hlt : 3 * (j.val - 3) + i.val < 3 * k := by have := j.isLt; omega
      simp only [toM, SEK3.matrix, blkK, hi, hj, vMat, SEK3.mkG, Mat.of_get, Vec.of_get, dif_pos,
        dif_neg, not_false_eq_true, hlt]
      congr 1
      · congr 1; ext; show (3 * (j.val - 3) + i.val) / 3 = j.val - 3; omega
      · ext; show (3 * (j.val - 3) + i.val) % 3 = i.val; omega
  · by_cases hj : j.val < 3
    · have : i.val ≠ j.val := by omega
      simp [toM, SEK3.matrix, blkK, hi, hj, this]
    · have : (i.val - 3 = j.val - 3) ↔ (i.val = j.val) := by omega
      simp [toM, SEK3.matrix, blkK, hi, hj, Matrix.one_apply, Fin.ext_iff, this]

/-- **SE_K_3, every K, closed-form branch**: `matrix (exp a) = exp (hat a)`. -/
theorem sek3_exp_is_matrix_exp_closed (k : Nat) (a : Vec ℝ (3 + 3 * k))
    (h : Scalar.eps2 < sqNorm (SEK3.tw k a)) :
    toM (SEK3.matrix k (SEK3.exp k a)) = NormedSpace.exp (toM (SEK3.hat k a)) := by
  obtain ⟨hθ, hn, hR, hRJ, _⟩ := so3_closed_pack (SEK3.tw k a) h
  have hexp : SEK3.exp k a = SEK3.mkG k (fun i => mulVec (mmul (SO3.matrix (SO3.exp (SEK3.tw k a)))
      (SO3.calc_S1 (vneg (SEK3.tw k a)))) (SEK3.tv k a i)) (SO3.exp (SEK3.tw k a)) := by
    simp only [SEK3.exp, memoM_eq, memoV_eq, SO3.Ad, SO3.dr_exp]
  rw [hexp, sek3_matrix_mkG, sek3_hat_toM, ← sek3_curve_eq_exp _ _ _ _ _ hθ hn, hR]
  congr 1
  ext c i
  simp only [vMat, pMat, mulVec3_get, toM_mmul3, hRJ, rodrigues_mulVec, pCurve]
  simp

end C02
