/-
  C02Series2.lean — series zone (`0 < ‖ω‖² ≤ eps2`) of SE3, SE_K_3, Galilei: entrywise distance of
  `matrix (exp a)` to the true matrix exponential, in terms of `‖a‖∞`.
  Everything is a polynomial `f·K + g·K²` in `K = hat ω`; the errors reduce to scalar coefficient
  errors (C02Taylor) times `|K_ij| ≤ θ`, `|K²_ij| ≤ θ²`.
-/
import SmoothProofs.C02Series
import SmoothProofs.C02Zero
import Mathlib.Analysis.SpecialFunctions.Trigonometric.Bounds

open Lin Scalar

namespace C02

/-! ### scalar layer -/

/-- closed coefficients are bounded: `|sin θ/θ| ≤ 1`, `0 ≤ (1−cos θ)/θ² ≤ 1/2` -/
theorem closed_coef_bounds (θ : ℝ) (hθ : 0 < θ) :
    |Real.sin θ / θ| ≤ 1 ∧ |(1 - Real.cos θ) / (θ * θ)| ≤ 1 := by
  constructor
  · rw [abs_div, abs_of_pos hθ, div_le_one hθ]
    have := Real.abs_sin_le_abs (x := θ); rwa [abs_of_pos hθ] at this
  · have h1 : 0 ≤ 1 - Real.cos θ := by linarith [Real.cos_le_one θ]
    have h2 := Real.one_sub_sq_div_two_le_cos (x := θ)
    rw [abs_div, abs_of_nonneg h1, abs_of_pos (by positivity : 0 < θ * θ),
      div_le_one (by positivity)]
    nlinarith

/-- half-angle identities: the closed-form quaternion coefficients give Rodrigues' coefficients -/
theorem half_angle_coef (θ : ℝ) (hθ : θ ≠ 0) :
    2 * (Real.sin (θ/2) / θ) * Real.cos (θ/2) = Real.sin θ / θ ∧
    2 * (Real.sin (θ/2) / θ) * (Real.sin (θ/2) / θ) = (1 - Real.cos θ) / (θ * θ) := by
  have hs : Real.sin θ = 2 * Real.sin (θ/2) * Real.cos (θ/2) := by
    rw [← Real.sin_two_mul]; congr 1; ring
  have hc : Real.cos θ = 1 - 2 * Real.sin (θ/2) * Real.sin (θ/2) := by
    have : Real.cos θ = Real.cos (2 * (θ/2)) := by congr 1; ring
    rw [this, Real.cos_two_mul, Real.cos_sq']; ring
  rw [hs, hc]
  constructor <;> (field_simp; try ring)

/-- rotation coefficients `(2AB, 2A²)` of the model quaternion vs Rodrigues' `(sin θ/θ, (1−cos θ)/θ²)`,
for every `0 < t ≤ eps2` (series branch for `t < eps2`, exact at `t = eps2`). -/
theorem so3_rot_coef_err (t : ℝ) (h0 : 0 < t) (h1 : t ≤ Scalar.eps2) :
    |2 * (SO3.expAB t).1 * (SO3.expAB t).2 - Real.sin (Real.sqrt t) / Real.sqrt t| ≤ t ^ 2 / 100 ∧
    |2 * (SO3.expAB t).1 * (SO3.expAB t).1
      - (1 - Real.cos (Real.sqrt t)) / (Real.sqrt t * Real.sqrt t)| ≤ t ^ 2 / 100 := by
  obtain ⟨hs0, hs1, hs2⟩ := sqrt_small h0 h1
  set θ := Real.sqrt t with hθ
  obtain ⟨ha, hb⟩ := half_angle_coef θ hs0.ne'
  have ht2 : 0 ≤ t ^ 2 / 100 := by positivity
  rcases h1.lt_or_eq with hlt | heq
  · obtain ⟨hA, hB⟩ := so3_expAB_series t h0 hlt
    rw [← hθ] at hA hB
    set AT := (SO3.expAB t).1 with hAT
    set BT := (SO3.expAB t).2 with hBT
    set AC := Real.sin (θ / 2) / θ with hAC
    set BC := Real.cos (θ / 2) with hBC
    have hATv : AT = 1 / 2 - t / 48 := by simp [hAT, SO3.expAB, hlt]
    have hBTv : BT = 1 - t / 8 := by simp [hBT, SO3.expAB, hlt]
    have he : t < 1 / 100000000 := by rw [← scalar_eps2]; exact hlt
    have ht1 : t ^ 2 ≤ 1 := by nlinarith
    have hBT1 : |BT| ≤ 1 := by rw [hBTv, abs_le]; constructor <;> linarith
    have hAT1 : |AT| ≤ 1 / 2 := by rw [hATv, abs_le]; constructor <;> linarith
    have hAC1 : |AC| ≤ 1 := by
      have : |AC| ≤ |AT| + |AT - AC| := by
        have := abs_sub_abs_le_abs_sub AC AT
        rw [abs_sub_comm AC AT] at this; linarith
      nlinarith
    rw [← ha, ← hb]
    constructor
    · have : 2 * AT * BT - 2 * AC * BC = 2 * ((AT - AC) * BT + AC * (BT - BC)) := by ring
      rw [this, abs_mul, abs_of_pos (by norm_num : (0:ℝ) < 2)]
      have h1' : |(AT - AC) * BT + AC * (BT - BC)| ≤ t ^ 2 * (1 / 3200) * 1 + 1 * (t ^ 2 * (5 / 1536)) := by
        calc _ ≤ |(AT - AC) * BT| + |AC * (BT - BC)| := abs_add_le _ _
          _ = |AT - AC| * |BT| + |AC| * |BT - BC| := by rw [abs_mul, abs_mul]
          _ ≤ _ := add_le_add (mul_le_mul hA hBT1 (abs_nonneg _) (by positivity))
                (mul_le_mul hAC1 hB (abs_nonneg _) (by norm_num))
      nlinarith
    · have : 2 * AT * AT - 2 * AC * AC = 2 * ((AT - AC) * (AT + AC)) := by ring
      rw [this, abs_mul, abs_of_pos (by norm_num : (0:ℝ) < 2), abs_mul]
      have h2 : |AT + AC| ≤ 2 := by
        calc |AT + AC| ≤ |AT| + |AC| := abs_add_le _ _
          _ ≤ 2 := by linarith
      have : |AT - AC| * |AT + AC| ≤ t ^ 2 * (1 / 3200) * 2 :=
        mul_le_mul hA h2 (abs_nonneg _) (by positivity)
      nlinarith
  · have hnb : ¬ t < Scalar.eps2 := by rw [heq]; exact lt_irrefl _
    rw [so3_expAB_closed t hnb, ← hθ]
    simp only []
    rw [ha, hb, sub_self, sub_self, abs_zero]
    exact ⟨ht2, ht2⟩


/-- `Trig.cos_2, sin_3, cos_4` in the series zone vs the closed forms written in `θ = √t`,
with a common (crude) bound `t²/100`, and the magnitudes of the series values. -/
theorem trig_coef_err (t : ℝ) (h0 : 0 < t) (h1 : t ≤ Scalar.eps2) :
    |Trig.cos_2 t - (Real.cos (Real.sqrt t) - 1) / (Real.sqrt t * Real.sqrt t)| ≤ t ^ 2 / 100 ∧
    |Trig.sin_3 t - (Real.sin (Real.sqrt t) - Real.sqrt t)
        / (Real.sqrt t * Real.sqrt t * Real.sqrt t)| ≤ t ^ 2 / 100 ∧
    |Trig.cos_4 t - (Real.cos (Real.sqrt t) - 1 + Real.sqrt t * Real.sqrt t / 2)
        / (Real.sqrt t * Real.sqrt t * (Real.sqrt t * Real.sqrt t))| ≤ t ^ 2 / 100 ∧
    |Trig.cos_2 t| ≤ 1 ∧ |Trig.sin_3 t| ≤ 1 / 2 ∧ |Trig.cos_4 t| ≤ 1 := by
  obtain ⟨hs0, hs1, hs2⟩ := sqrt_small h0 h1
  have hθθ : Real.sqrt t * Real.sqrt t = t := by rw [← sq]; exact hs2
  have he : t ≤ 1 / 100000000 := by rw [← scalar_eps2]; exact h1
  have hbr : ¬ (Scalar.eps2 : ℝ) < t := not_lt.2 h1
  have hc2 := trig_cos_2_series t h0 h1
  have hs3 := trig_sin_3_series t h0 h1
  have hc4 := trig_cos_4_series t h0 h1
  have ht3 : t ^ 3 ≤ t ^ 2 * (1 / 100000000) := by
    have : t ^ 3 = t ^ 2 * t := by ring
    rw [this]; exact mul_le_mul_of_nonneg_left he (by positivity)
  have ht2 : 0 ≤ t ^ 2 := by positivity
  rw [hθθ]
  refine ⟨hc2.trans (by nlinarith), hs3.trans (by nlinarith), hc4.trans (by nlinarith), ?_, ?_, ?_⟩
  · have : Trig.cos_2 t = -1 / 2 + t / 24 - t * t / 720 := by simp [Trig.cos_2, hbr]
    rw [this, abs_le]; constructor <;> nlinarith
  · have : Trig.sin_3 t = -1 / 6 + t / 120 - t * t / 5040 := by simp [Trig.sin_3, hbr]
    rw [this, abs_le]; constructor <;> nlinarith
  · have : Trig.cos_4 t = 1 / 24 - t / 720 + t * t / 40320 := by simp [Trig.cos_4, hbr]
    rw [this, abs_le]; constructor <;> nlinarith

theorem abs_mul_sub_le {x x' y y' ex ey X' Y : ℝ} (hx : |x - x'| ≤ ex) (hy : |y - y'| ≤ ey)
    (hY : |y| ≤ Y) (hX : |x'| ≤ X') : |x * y - x' * y'| ≤ ex * Y + X' * ey := by
  have : x * y - x' * y' = (x - x') * y + x' * (y - y') := by ring
  rw [this]
  calc _ ≤ |(x - x') * y| + |x' * (y - y')| := abs_add_le _ _
    _ = |x - x'| * |y| + |x'| * |y - y'| := by rw [abs_mul, abs_mul]
    _ ≤ ex * Y + X' * ey := add_le_add
        (mul_le_mul hx hY (abs_nonneg _) ((abs_nonneg _).trans hx))
        (mul_le_mul hX hy (abs_nonneg _) ((abs_nonneg _).trans hX))

theorem abs_le_add_of_sub {x x' e X' : ℝ} (hx : |x - x'| ≤ e) (hX : |x'| ≤ X') : |x| ≤ X' + e := by
  have : x = x' + (x - x') := by ring
  rw [this]
  exact (abs_add_le _ _).trans (add_le_add hX hx)

/-- coefficients of the product `(1 + aK + bK²)(1 + cK + dK²)` (with `K³ = −nK`): error
propagation from the four factors' coefficient errors `≤ e`. -/
theorem coef_prod_err {a b c d a' b' c' d' n e : ℝ}
    (ha : |a - a'| ≤ e) (hb : |b - b'| ≤ e) (hc : |c - c'| ≤ e) (hd : |d - d'| ≤ e)
    (ha' : |a'| ≤ 1) (hb' : |b'| ≤ 1) (hc' : |c'| ≤ 1) (hd' : |d'| ≤ 1)
    (he : e ≤ 1) (hn0 : 0 ≤ n) (hn1 : n ≤ 1) :
    |(a + c - n * (a * d + b * c)) - (a' + c' - n * (a' * d' + b' * c'))| ≤ 8 * e ∧
    |(b + d + a * c - n * (b * d)) - (b' + d' + a' * c' - n * (b' * d'))| ≤ 8 * e := by
  have he0 : 0 ≤ e := (abs_nonneg _).trans ha
  have hc2 : |c| ≤ 2 := (abs_le_add_of_sub hc hc').trans (by linarith)
  have hd2 : |d| ≤ 2 := (abs_le_add_of_sub hd hd').trans (by linarith)
  have had := abs_mul_sub_le ha hd hd2 ha'
  have hbc := abs_mul_sub_le hb hc hc2 hb'
  have hac := abs_mul_sub_le ha hc hc2 ha'
  have hbd := abs_mul_sub_le hb hd hd2 hb'
  rw [abs_le] at ha hb hc hd had hbc hac hbd
  constructor
  · rw [abs_le]; constructor <;> nlinarith [ha.1, ha.2, hc.1, hc.2, had.1, had.2, hbc.1, hbc.2]
  · rw [abs_le]; constructor <;> nlinarith [hb.1, hb.2, hd.1, hd.2, hac.1, hac.2, hbd.1, hbd.2]


/-! ### matrix layer -/

theorem polyK_diff_entry (f g f' g' x y z θ : ℝ) (hθ : 0 ≤ θ) (hn : θ * θ = x*x + y*y + z*z)
    (i j : Fin 3) :
    |(f • K3 x y z + g • (K3 x y z * K3 x y z)) i j - (f' • K3 x y z + g' • (K3 x y z * K3 x y z)) i j|
      ≤ |f - f'| * θ + |g - g'| * (θ * θ) := by
  have hK := K3_entry_le x y z θ hθ hn i j
  have hK2 := K3sq_entry_le x y z (θ * θ) hn i j
  have : (f • K3 x y z + g • (K3 x y z * K3 x y z)) i j - (f' • K3 x y z + g' • (K3 x y z * K3 x y z)) i j
      = (f - f') * K3 x y z i j + (g - g') * (K3 x y z * K3 x y z) i j := by
    simp only [Matrix.add_apply, Matrix.smul_apply, smul_eq_mul]; ring
  rw [this]
  calc _ ≤ |(f - f') * K3 x y z i j| + |(g - g') * (K3 x y z * K3 x y z) i j| := abs_add_le _ _
    _ = |f - f'| * |K3 x y z i j| + |g - g'| * |(K3 x y z * K3 x y z) i j| := by
        rw [abs_mul, abs_mul]
    _ ≤ _ := add_le_add (mul_le_mul_of_nonneg_left hK (abs_nonneg _))
        (mul_le_mul_of_nonneg_left hK2 (abs_nonneg _))

theorem rodrigues_diff_entry (f g f' g' x y z θ : ℝ) (hθ : 0 ≤ θ) (hn : θ * θ = x*x + y*y + z*z)
    (i j : Fin 3) :
    |rodrigues f g x y z i j - rodrigues f' g' x y z i j| ≤ |f - f'| * θ + |g - g'| * (θ * θ) := by
  have := polyK_diff_entry f g f' g' x y z θ hθ hn i j
  have e : rodrigues f g x y z i j - rodrigues f' g' x y z i j
      = (f • K3 x y z + g • (K3 x y z * K3 x y z)) i j
        - (f' • K3 x y z + g' • (K3 x y z * K3 x y z)) i j := by
    simp only [rodrigues, Matrix.add_apply]; ring
  rw [e]; exact this

theorem mulVec_diff_le (A A' : Matrix (Fin 3) (Fin 3) ℝ) (E Mx : ℝ)
    (h : ∀ i j, |A i j - A' i j| ≤ E) (v : Fin 3 → ℝ) (hv : ∀ k, |v k| ≤ Mx) (i : Fin 3) :
    |A.mulVec v i - A'.mulVec v i| ≤ 3 * (E * Mx) := by
  have hE : 0 ≤ E := (abs_nonneg _).trans (h 0 0)
  have e : A.mulVec v i - A'.mulVec v i
      = (A i 0 - A' i 0) * v 0 + (A i 1 - A' i 1) * v 1 + (A i 2 - A' i 2) * v 2 := by
    simp [Matrix.mulVec, dotProduct, Fin.sum_univ_three]; ring
  rw [e]
  have t0 : |(A i 0 - A' i 0) * v 0| ≤ E * Mx := by
    rw [abs_mul]; exact mul_le_mul (h i 0) (hv 0) (abs_nonneg _) hE
  have t1 : |(A i 1 - A' i 1) * v 1| ≤ E * Mx := by
    rw [abs_mul]; exact mul_le_mul (h i 1) (hv 1) (abs_nonneg _) hE
  have t2 : |(A i 2 - A' i 2) * v 2| ≤ E * Mx := by
    rw [abs_mul]; exact mul_le_mul (h i 2) (hv 2) (abs_nonneg _) hE
  calc _ ≤ |(A i 0 - A' i 0) * v 0 + (A i 1 - A' i 1) * v 1| + |(A i 2 - A' i 2) * v 2| :=
        abs_add_le _ _
    _ ≤ |(A i 0 - A' i 0) * v 0| + |(A i 1 - A' i 1) * v 1| + |(A i 2 - A' i 2) * v 2| := by
        linarith [abs_add_le ((A i 0 - A' i 0) * v 0) ((A i 1 - A' i 1) * v 1)]
    _ ≤ 3 * (E * Mx) := by linarith

/-- the model's SO3 `exp` matrix as a polynomial in `K`, for EVERY `w` (no branch condition) -/
theorem so3_exp_matrix_AB (w : Vec ℝ 3) :
    toM (SO3.matrix (SO3.exp w))
      = rodrigues (2 * (SO3.expAB (sqNorm w)).1 * (SO3.expAB (sqNorm w)).2)
          (2 * (SO3.expAB (sqNorm w)).1 * (SO3.expAB (sqNorm w)).1) (w 0) (w 1) (w 2) := by
  rw [← so3_quat_matrix_AB]
  show toM (SO3.matrix (SO3.canon _)) = _
  rw [so3_matrix_canon]

/-- `calc_S1 (−w) = 1 + cos_2·K − sin_3·K²` -/
theorem so3_calc_S1_neg_toM (w : Vec ℝ 3) :
    toM (SO3.calc_S1 (vneg w))
      = rodrigues (Trig.cos_2 (sqNorm w)) (-(Trig.sin_3 (sqNorm w))) (w 0) (w 1) (w 2) := by
  rw [so3_calc_S1_toM, sqNorm_vneg]
  have e0 : (vneg w) 0 = -(w 0) := rfl
  have e1 : (vneg w) 1 = -(w 1) := rfl
  have e2 : (vneg w) 2 = -(w 2) := rfl
  rw [e0, e1, e2, K3_neg]
  simp only [rodrigues, smul_neg, neg_mul_neg, neg_smul, sub_eq_add_neg, neg_neg]

/-- closed-form coefficient identities behind `R·S₁(−ω) = S₁(ω)` -/
theorem closed_RJ_coef (θ : ℝ) (hθ : θ ≠ 0) :
    Real.sin θ / θ + (Real.cos θ - 1) / (θ * θ)
        - θ * θ * (Real.sin θ / θ * -((Real.sin θ - θ) / (θ * θ * θ))
          + (1 - Real.cos θ) / (θ * θ) * ((Real.cos θ - 1) / (θ * θ)))
      = (1 - Real.cos θ) / (θ * θ) ∧
    (1 - Real.cos θ) / (θ * θ) + -((Real.sin θ - θ) / (θ * θ * θ))
        + Real.sin θ / θ * ((Real.cos θ - 1) / (θ * θ))
        - θ * θ * ((1 - Real.cos θ) / (θ * θ) * -((Real.sin θ - θ) / (θ * θ * θ)))
      = (θ - Real.sin θ) / (θ * θ * θ) := by
  have hsc := Real.sin_sq_add_cos_sq θ
  constructor
  · field_simp; linear_combination hsc
  · field_simp; ring


/-- series-zone pack (`0 < t = ‖w‖² ≤ eps2`, `θ = √t`): entrywise errors of the model's building
blocks against the closed-form polynomials in `K`, all `≤ 8·(t²/100)·(θ + t)`. -/
theorem so3_series_pack (w : Vec ℝ 3) (h0 : 0 < sqNorm w) (h1 : sqNorm w ≤ Scalar.eps2)
    (θ : ℝ) (hθdef : θ = Real.sqrt (sqNorm w)) :
    (∀ i j, |toM (SO3.matrix (SO3.exp w)) i j
        - rodrigues (Real.sin θ / θ) ((1 - Real.cos θ) / (θ * θ)) (w 0) (w 1) (w 2) i j|
        ≤ 8 * (sqNorm w ^ 2 / 100) * (θ + sqNorm w)) ∧
    (∀ i j, |(toM (SO3.matrix (SO3.exp w)) * toM (SO3.calc_S1 (vneg w))) i j
        - rodrigues ((1 - Real.cos θ) / (θ * θ)) ((θ - Real.sin θ) / (θ * θ * θ)) (w 0) (w 1) (w 2) i j|
        ≤ 8 * (sqNorm w ^ 2 / 100) * (θ + sqNorm w)) ∧
    (∀ i j, |toM (SO3.calc_S1 w) i j
        - rodrigues ((1 - Real.cos θ) / (θ * θ)) ((θ - Real.sin θ) / (θ * θ * θ)) (w 0) (w 1) (w 2) i j|
        ≤ 8 * (sqNorm w ^ 2 / 100) * (θ + sqNorm w)) ∧
    (∀ i j, |toM (SO3.calc_S2 w) i j - ((1/2 : ℝ) • (1 : Matrix (Fin 3) (Fin 3) ℝ)
        + ((θ - Real.sin θ) / (θ * θ * θ)) • K3 (w 0) (w 1) (w 2)
        + ((θ * θ / 2 + Real.cos θ - 1) / (θ * θ * (θ * θ)))
            • (K3 (w 0) (w 1) (w 2) * K3 (w 0) (w 1) (w 2))) i j|
        ≤ 8 * (sqNorm w ^ 2 / 100) * (θ + sqNorm w)) := by
  obtain ⟨hs0, hs1, hs2⟩ := sqrt_small h0 h1
  obtain ⟨hea, heb⟩ := so3_rot_coef_err (sqNorm w) h0 h1
  obtain ⟨hc2, hs3, hc4, mc2, ms3, mc4⟩ := trig_coef_err (sqNorm w) h0 h1
  rw [← hθdef] at hs0 hs1 hs2 hea heb hc2 hs3 hc4
  set t := sqNorm w with htdef
  have hθθ : θ * θ = t := by rw [← sq]; exact hs2
  have hn : θ * θ = w 0 * w 0 + w 1 * w 1 + w 2 * w 2 := by rw [hθθ]; exact sqNorm3 w
  obtain ⟨hα1, hβ1⟩ := closed_coef_bounds θ hs0
  have he : t ≤ 1 / 100000000 := by rw [← scalar_eps2]; exact h1
  set e := t ^ 2 / 100 with hedef
  have he0 : 0 ≤ e := by positivity
  have he1 : e ≤ 1 / 2 := by rw [hedef]; nlinarith
  have hbase : ∀ x y : ℝ, |x| ≤ e → |y| ≤ 8 * e → |x| * θ + |y| * (θ * θ) ≤ 8 * e * (θ + t) := by
    intro x y hx hy
    have h1' : |x| * θ ≤ 8 * e * θ :=
      mul_le_mul_of_nonneg_right (hx.trans (by linarith)) hs0.le
    have h2' : |y| * (θ * θ) ≤ 8 * e * t := by
      rw [hθθ]; exact mul_le_mul_of_nonneg_right hy h0.le
    calc _ ≤ 8 * e * θ + 8 * e * t := add_le_add h1' h2'
      _ = 8 * e * (θ + t) := by ring
  refine ⟨?_, ?_, ?_, ?_⟩
  · intro i j
    rw [so3_exp_matrix_AB]
    refine (rodrigues_diff_entry _ _ _ _ _ _ _ θ hs0.le hn i j).trans ?_
    exact hbase _ _ hea (heb.trans (by linarith))
  · intro i j
    rw [so3_exp_matrix_AB, so3_calc_S1_neg_toM, rodrigues_mul]
    obtain ⟨k1, k2⟩ := closed_RJ_coef θ hs0.ne'
    rw [← k1, ← k2, ← hn]
    have hc' : |(Real.cos θ - 1) / (θ * θ)| ≤ 1 := by
      have : (Real.cos θ - 1) / (θ * θ) = -((1 - Real.cos θ) / (θ * θ)) := by ring
      rw [this, abs_neg]; exact hβ1
    have hd' : |-((Real.sin θ - θ) / (θ * θ * θ))| ≤ 1 := by
      rw [abs_neg]
      have hs3' : |(Real.sin θ - θ) / (θ * θ * θ) - Trig.sin_3 t| ≤ e := by
        rw [abs_sub_comm]; exact hs3
      have := abs_le_add_of_sub hs3' ms3
      linarith
    have hd : |-(Trig.sin_3 t) - -((Real.sin θ - θ) / (θ * θ * θ))| ≤ e := by
      have : -(Trig.sin_3 t) - -((Real.sin θ - θ) / (θ * θ * θ))
          = -(Trig.sin_3 t - (Real.sin θ - θ) / (θ * θ * θ)) := by ring
      rw [this, abs_neg]; exact hs3
    obtain ⟨pf, pg⟩ := coef_prod_err hea heb hc2 hd hα1 hβ1 hc' hd' (by linarith)
      (mul_self_nonneg θ) (by rw [hθθ]; linarith)
    refine (rodrigues_diff_entry _ _ _ _ _ _ _ θ hs0.le hn i j).trans ?_
    have h1' := mul_le_mul_of_nonneg_right pf hs0.le
    have h2' := mul_le_mul_of_nonneg_right pg (mul_self_nonneg θ)
    calc _ ≤ 8 * e * θ + 8 * e * (θ * θ) := add_le_add h1' h2'
      _ = 8 * e * (θ + t) := by rw [hθθ]; ring
  · intro i j
    rw [so3_calc_S1_toM]
    have e1 : (1 : Matrix (Fin 3) (Fin 3) ℝ) - Trig.cos_2 (sqNorm w) • K3 (w 0) (w 1) (w 2)
        - Trig.sin_3 (sqNorm w) • (K3 (w 0) (w 1) (w 2) * K3 (w 0) (w 1) (w 2))
        = rodrigues (-(Trig.cos_2 t)) (-(Trig.sin_3 t)) (w 0) (w 1) (w 2) := by
      simp only [rodrigues, neg_smul, sub_eq_add_neg, htdef]
    rw [e1]
    refine (rodrigues_diff_entry _ _ _ _ _ _ _ θ hs0.le hn i j).trans ?_
    apply hbase
    · have : -(Trig.cos_2 t) - (1 - Real.cos θ) / (θ * θ)
          = -(Trig.cos_2 t - (Real.cos θ - 1) / (θ * θ)) := by ring
      rw [this, abs_neg]; exact hc2
    · have : -(Trig.sin_3 t) - (θ - Real.sin θ) / (θ * θ * θ)
          = -(Trig.sin_3 t - (Real.sin θ - θ) / (θ * θ * θ)) := by ring
      rw [this, abs_neg]; exact hs3.trans (by linarith)
  · intro i j
    rw [so3_calc_S2_toM]
    have e1 : ∀ (f g f' g' : ℝ),
        ((1/2 : ℝ) • (1 : Matrix (Fin 3) (Fin 3) ℝ) - f • K3 (w 0) (w 1) (w 2)
          + g • (K3 (w 0) (w 1) (w 2) * K3 (w 0) (w 1) (w 2))) i j
        - ((1/2 : ℝ) • (1 : Matrix (Fin 3) (Fin 3) ℝ) + f' • K3 (w 0) (w 1) (w 2)
          + g' • (K3 (w 0) (w 1) (w 2) * K3 (w 0) (w 1) (w 2))) i j
        = ((-f) • K3 (w 0) (w 1) (w 2) + g • (K3 (w 0) (w 1) (w 2) * K3 (w 0) (w 1) (w 2))) i j
          - (f' • K3 (w 0) (w 1) (w 2) + g' • (K3 (w 0) (w 1) (w 2) * K3 (w 0) (w 1) (w 2))) i j := by
      intro f g f' g'
      simp only [Matrix.add_apply, Matrix.sub_apply, Matrix.smul_apply, smul_eq_mul]; ring
    rw [e1]
    refine (polyK_diff_entry _ _ _ _ _ _ _ θ hs0.le hn i j).trans ?_
    apply hbase
    · have : -(Trig.sin_3 (sqNorm w)) - (θ - Real.sin θ) / (θ * θ * θ)
          = -(Trig.sin_3 t - (Real.sin θ - θ) / (θ * θ * θ)) := by rw [htdef]; ring
      rw [this, abs_neg]; exact hs3
    · have : Trig.cos_4 (sqNorm w) - (θ * θ / 2 + Real.cos θ - 1) / (θ * θ * (θ * θ))
          = Trig.cos_4 t - (Real.cos θ - 1 + θ * θ / 2) / (θ * θ * (θ * θ)) := by rw [htdef]; ring
      rw [this]; exact hc4.trans (by linarith)

end C02
