/-
  C11Bridge.lean — the model's loop body `CSpline.step` IS the ring formula `C11.stepFormula` when
  tangent vectors are read through any linear representation `ρ` that turns the coordinate
  matrices `Ad`, `ad` into conjugation and commutator (C03 proves this for `ρ = hat` of the
  concrete groups); and the chain-rule bookkeeping of `cspline_eval_dg_dgs` (`CSpline.chain`).
-/
import SmoothProofs.C11Model
import SmoothProofs.C11Alg
import Mathlib.Algebra.Algebra.Basic
import Mathlib.Algebra.Module.LinearMap.Defs
import Mathlib.Data.Matrix.Mul
import Mathlib.Tactic.NoncommRing

open Lin Scalar

namespace C11

theorem mulVec_apply {n m : Nat} (A : Mat ℝ n m) (v : Vec ℝ m) (i : Fin n) :
    mulVec A v i = ∑ l, A i l * v l := by
  simp [mulVec, vsum_eq_sum]

/-- `(s·A)·v = s·(A·v)` -/
theorem mulVec_msmul_get {n m : Nat} (c : ℝ) (A : Mat ℝ n m) (v : Vec ℝ m) :
    (mulVec (msmul c A) v).get = c • (mulVec A v).get := by
  funext i
  show mulVec (msmul c A) v i = c * mulVec A v i
  rw [mulVec_apply, mulVec_apply, Finset.mul_sum]
  apply Finset.sum_congr rfl
  intro l _
  simp [msmul]; ring

section bridge
variable (G : LieModel ℝ) {𝔸 : Type*} [Ring 𝔸] [Algebra ℝ 𝔸] (ρ : (Fin G.dof → ℝ) →ₗ[ℝ] 𝔸)

/-- the ρ-image of the (vel, acc, jer) part of a model state -/
def img (s : CSpline.St ℝ G) (g gi : 𝔸) : AState 𝔸 := ⟨g, gi, ρ s.vel.get, ρ s.acc.get, ρ s.jer.get⟩

/-- **The model's loop body is the ring formula.**  If `ρ` intertwines `ad` with the commutator
    and `Ad(inverse(exp(Bj vj)))` with conjugation by `E`, then the velocity, acceleration and jerk
    computed by `CSpline.step` are those of `stepFormula` with `c_k = b^{(k)}·1`. -/
theorem step_is_stepFormula
    (had : ∀ x y : Vec ℝ G.dof, ρ (mulVec (G.ad x) y).get = ρ x.get * ρ y.get - ρ y.get * ρ x.get)
    (Bj dBj d2Bj d3Bj : ℝ) (vj : Vec ℝ G.dof) (s : CSpline.St ℝ G) (E Ei g gi : 𝔸)
    (hAd : ∀ x : Vec ℝ G.dof,
      ρ (mulVec (G.Ad (G.inverse (G.exp (vsmul Bj vj)))) x).get = Ei * ρ x.get * E) :
    let s' := CSpline.step G Bj dBj d2Bj d3Bj vj s
    let a' := stepFormula E Ei (ρ vj.get) (algebraMap ℝ 𝔸 dBj) (algebraMap ℝ 𝔸 d2Bj) (algebraMap ℝ 𝔸 d3Bj)
                (img G ρ s g gi)
    ρ s'.vel.get = a'.vel ∧ ρ s'.acc.get = a'.acc ∧ ρ s'.jer.get = a'.jer := by
  intro s' a'
  -- the three outputs of the model step, with the memo wrappers removed
  have hvel : s'.vel.get = (mulVec (G.Ad (G.inverse (G.exp (vsmul Bj vj)))) s.vel).get + dBj • vj.get := by
    funext i; simp [s', CSpline.step, memoV_eq, memoM_eq]
  have hvel' : ρ s'.vel.get = Ei * ρ s.vel.get * E + algebraMap ℝ 𝔸 dBj * ρ vj.get := by
    rw [hvel, map_add, map_smul, hAd, Algebra.smul_def]
  have hacc : s'.acc.get = (mulVec (G.Ad (G.inverse (G.exp (vsmul Bj vj)))) s.acc).get
      + dBj • (mulVec (G.ad s'.vel) vj).get + d2Bj • vj.get := by
    funext i; simp [s', CSpline.step, memoV_eq, memoM_eq]
  have hacc' : ρ s'.acc.get = Ei * ρ s.acc.get * E
      + algebraMap ℝ 𝔸 dBj * (ρ s'.vel.get * ρ vj.get - ρ vj.get * ρ s'.vel.get)
      + algebraMap ℝ 𝔸 d2Bj * ρ vj.get := by
    rw [hacc, map_add, map_add, map_smul, map_smul, hAd, had, Algebra.smul_def, Algebra.smul_def]
  have hjer : s'.jer.get = (mulVec (G.Ad (G.inverse (G.exp (vsmul Bj vj)))) s.jer).get
      + (2 * dBj) • (mulVec (G.ad s'.acc) vj).get
      - (dBj * dBj) • (mulVec (G.ad (mulVec (G.ad s'.vel) vj)) vj).get
      + d2Bj • (mulVec (G.ad s'.vel) vj).get + d3Bj • vj.get := by
    have h1 := mulVec_msmul_get (2 * dBj) (G.ad s'.acc) vj
    have h2 := mulVec_msmul_get (dBj * dBj) (G.ad (mulVec (G.ad s'.vel) vj)) vj
    funext i
    have h1i := congrFun h1 i
    have h2i := congrFun h2 i
    simp only [Pi.smul_apply, smul_eq_mul] at h1i h2i
    simp only [s', CSpline.step, memoV_eq, memoM_eq, Vec.of_get, Pi.add_apply, Pi.sub_apply, Pi.smul_apply,
      smul_eq_mul, Nat.cast_ofNat] at h1i h2i ⊢
    rw [h1i, h2i]
  have hjer' : ρ s'.jer.get = Ei * ρ s.jer.get * E
      + 2 * algebraMap ℝ 𝔸 dBj * (ρ s'.acc.get * ρ vj.get - ρ vj.get * ρ s'.acc.get)
      - algebraMap ℝ 𝔸 dBj * algebraMap ℝ 𝔸 dBj *
          ((ρ s'.vel.get * ρ vj.get - ρ vj.get * ρ s'.vel.get) * ρ vj.get
            - ρ vj.get * (ρ s'.vel.get * ρ vj.get - ρ vj.get * ρ s'.vel.get))
      + algebraMap ℝ 𝔸 d2Bj * (ρ s'.vel.get * ρ vj.get - ρ vj.get * ρ s'.vel.get)
      + algebraMap ℝ 𝔸 d3Bj * ρ vj.get := by
    rw [hjer, map_add, map_add, map_sub, map_add, map_smul, map_smul, map_smul, map_smul, hAd, had, had, had]
    simp only [Algebra.smul_def, map_mul, map_ofNat]
  refine ⟨?_, ?_, ?_⟩
  · rw [hvel']; rfl
  · rw [hacc', hvel']; rfl
  · rw [hjer', hacc', hvel']; rfl

end bridge

/-! ### the chain rule bookkeeping of `cspline_eval_dg_dgs` -/
section chain

/-- matrix · vector on plain functions (so that sums/differences of vectors are `Pi` operations) -/
def mv {n m : Nat} (A : Mat ℝ n m) (x : Fin m → ℝ) : Fin n → ℝ := fun i => ∑ l, A i l * x l

theorem mv_sub {n m : Nat} (A : Mat ℝ n m) (x y : Fin m → ℝ) : mv A (x - y) = mv A x - mv A y := by
  funext i; simp [mv, mul_sub, Finset.sum_sub_distrib]

theorem mv_msub {n m : Nat} (A B : Mat ℝ n m) (x : Fin m → ℝ) : mv (msub A B) x = mv A x - mv B x := by
  funext i; simp [mv, msub, sub_mul, Finset.sum_sub_distrib]

theorem mv_madd {n m : Nat} (A B : Mat ℝ n m) (x : Fin m → ℝ) : mv (madd A B) x = mv A x + mv B x := by
  funext i; simp [mv, madd, add_mul, Finset.sum_add_distrib]

theorem mv_mzero {n m : Nat} (x : Fin m → ℝ) : mv (mzero n m : Mat ℝ n m) x = 0 := by
  funext i; simp [mv, mzero]

theorem mv_mmul {n k m : Nat} (A : Mat ℝ n k) (B : Mat ℝ k m) (x : Fin m → ℝ) :
    mv (mmul A B) x = mv A (mv B x) := by
  funext i
  simp only [mv, mmul, Mat.of_get, vsum_eq_sum, Finset.sum_mul, Finset.mul_sum]
  rw [Finset.sum_comm]
  apply Finset.sum_congr rfl; intro l _
  apply Finset.sum_congr rfl; intro q _
  ring

theorem mv_get_mulVec {n m : Nat} (A : Mat ℝ n m) (v : Vec ℝ m) : (mulVec A v).get = mv A v.get := by
  funext i; exact mulVec_apply A v i

variable (G : LieModel ℝ)

/-- `Σ_i block_i · δ_{s+i}`: the differential of the output for control-point perturbations `δ` -/
def applyBlocks {n : Nat} : List (Mat ℝ n n) → (Nat → Fin n → ℝ) → Nat → Fin n → ℝ
  | [], _, _ => 0
  | B :: r, δ, s => mv B (δ s) + applyBlocks r δ (s + 1)

/-- the differential through the differences `v_j = rminus(g_{j+1}, g_j)`:
    `δv_j = dr_expinv(v_j) δ_{j+1} − dl_expinv(v_j) δ_j`, then `Σ_j D_j δv_j` -/
noncomputable def throughDiffs : List (Mat ℝ G.dof G.dof × Vec ℝ G.dof) → (Nat → Fin G.dof → ℝ) → Nat → Fin G.dof → ℝ
  | [], _, _ => 0
  | (D, v) :: r, δ, s =>
    mv D (mv (G.dr_expinv v) (δ (s + 1)) - mv (G.dl_expinv v) (δ s)) + throughDiffs r δ (s + 1)

/-- hypothesis of the "cheaper formula" (C04 `dlExpinv_eq`): `dl_expinv = −ad + dr_expinv` -/
def DlCheap : Prop := ∀ v : Vec ℝ G.dof, G.dl_expinv v = madd (mneg (G.ad v)) (G.dr_expinv v)

theorem chainAux_spec (hdl : DlCheap G) (l : List (Mat ℝ G.dof G.dof × Vec ℝ G.dof))
    (cur : Mat ℝ G.dof G.dof) (δ : Nat → Fin G.dof → ℝ) (s : Nat) :
    applyBlocks (CSpline.chainAux G l cur) δ s = mv cur (δ s) + throughDiffs G l δ s := by
  induction l generalizing cur s with
  | nil => simp [CSpline.chainAux, applyBlocks, throughDiffs]
  | cons a l ih =>
    obtain ⟨D, v⟩ := a
    simp only [CSpline.chainAux, applyBlocks, throughDiffs, memoM_eq]
    rw [ih, mv_msub, mv_madd, mv_mzero, mv_mmul, mv_mmul, mv_sub, ← hdl v]
    abel

theorem addFirst_spec (G' : LieModel ℝ) (A : Mat ℝ G'.dof G'.dof) (bs : List (Mat ℝ G'.dof G'.dof))
    (hne : bs ≠ []) (δ : Nat → Fin G'.dof → ℝ) (s : Nat) :
    applyBlocks (CSpline.addFirst G' A bs) δ s = mv A (δ s) + applyBlocks bs δ s := by
  cases bs with
  | nil => exact absurd rfl hne
  | cons B r => simp only [CSpline.addFirst, applyBlocks, memoM_eq, mv_madd]; abel

theorem chainAux_ne_nil (l : List (Mat ℝ G.dof G.dof × Vec ℝ G.dof)) (cur : Mat ℝ G.dof G.dof) :
    CSpline.chainAux G l cur ≠ [] := by
  cases l with
  | nil => simp [CSpline.chainAux]
  | cons a l => obtain ⟨D, v⟩ := a; simp [CSpline.chainAux]

end chain

end C11
