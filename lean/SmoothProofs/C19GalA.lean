/-
  C19GalA.lean — support of the 10×10 Galilei `ad` (rows 0–3): every entry outside the published
  `ad_sparse_pattern<Galilei>` (model predicate `Sparse.inAd .gal`) vanishes for all tangents over ℝ.
  One lemma per row, entry by entry (the matrix is assembled from 3×3 blocks by `blockSet`; each
  entry is a ~2 s `simp`).  Split over three files so that they build in parallel.
-/
import SmoothProofs.Real
import SmoothModel.Sparse
import Mathlib.Tactic.FinCases

open Lin Scalar Sparse

namespace Sparse

theorem gal_ad_row0 (a : Vec ℝ 10) (j : Fin 10) (h : inAd .gal 0 j.val = false) : Galilei.ad a 0 j = 0 := by
  fin_cases j <;> simp [inAd] at h <;>
    simp [Galilei.ad, Galilei.blockSet, SO3.hat, mat3, Mat.of, mzero, ident, Galilei.tb, Galilei.tq, Galilei.ts,
      Galilei.tw, mk3, Vec.of]

theorem gal_ad_row1 (a : Vec ℝ 10) (j : Fin 10) (h : inAd .gal 1 j.val = false) : Galilei.ad a 1 j = 0 := by
  fin_cases j <;> simp [inAd] at h <;>
    simp [Galilei.ad, Galilei.blockSet, SO3.hat, mat3, Mat.of, mzero, ident, Galilei.tb, Galilei.tq, Galilei.ts,
      Galilei.tw, mk3, Vec.of]

theorem gal_ad_row2 (a : Vec ℝ 10) (j : Fin 10) (h : inAd .gal 2 j.val = false) : Galilei.ad a 2 j = 0 := by
  fin_cases j <;> simp [inAd] at h <;>
    simp [Galilei.ad, Galilei.blockSet, SO3.hat, mat3, Mat.of, mzero, ident, Galilei.tb, Galilei.tq, Galilei.ts,
      Galilei.tw, mk3, Vec.of]

theorem gal_ad_row3 (a : Vec ℝ 10) (j : Fin 10) (h : inAd .gal 3 j.val = false) : Galilei.ad a 3 j = 0 := by
  fin_cases j <;> simp [inAd] at h <;>
    simp [Galilei.ad, Galilei.blockSet, SO3.hat, mat3, Mat.of, mzero, ident, Galilei.tb, Galilei.tq, Galilei.ts,
      Galilei.tw, mk3, Vec.of]

end Sparse
