/-
  C02LogSO3.lean — SO3: `log` has rotation norm ≤ π under the canonical sign, `exp ∘ log = id` on
  canonical unit quaternions and `log ∘ exp = id` for `‖a‖ < π` (closed-form branches);
  bridging lemmas to the actual model functions under the branch conditions.
-/
import SmoothProofs.C02Log
import SmoothProofs.C02SO3
import Mathlib.Analysis.SpecialFunctions.Trigonometric.Bounds

open Lin Scalar

namespace C02

/-- squared norm of the vector part of a quaternion, in the model's operation order -/
def xyz2 (g : Vec ℝ 4) : ℝ := g 0 * g 0 + g 1 * g 1 + g 2 * g 2

/-- unit quaternion -/
def UnitQ (g : Vec ℝ 4) : Prop := g 0 * g 0 + g 1 * g 1 + g 2 * g 2 + g 3 * g 3 = 1

theorem xyz2_nonneg (g : Vec ℝ 4) : 0 ≤ xyz2 g :=
  add_nonneg (add_nonneg (mul_self_nonneg _) (mul_self_nonneg _)) (mul_self_nonneg _)

/-- closed-form branch of `SO3.log` -/
noncomputable def so3LogClosed (g : Vec ℝ 4) : Vec ℝ 3 :=
  let n := Real.sqrt (xyz2 g)
  let phi := 2 * Complex.arg ⟨g 3, n⟩ / n
  mk3 (g 0 * phi) (g 1 * phi) (g 2 * phi)

theorem so3_log_eq_closed (g : Vec ℝ 4) (h : ¬ xyz2 g < Scalar.eps2) :
    SO3.log g = so3LogClosed g := by
  unfold xyz2 at h
  simp [SO3.log, SO3.logPhi, so3LogClosed, xyz2, h]

/-- the half-angle `α = atan2(‖xyz‖, w)` lies in `[0, π/2]` when `w ≥ 0` -/
theorem half_angle_range (w n : ℝ) (hn : 0 ≤ n) (hw : 0 ≤ w) :
    0 ≤ Complex.arg ⟨w, n⟩ ∧ Complex.arg ⟨w, n⟩ ≤ Real.pi / 2 := by
  refine ⟨Complex.arg_nonneg_iff.2 hn, ?_⟩
  have := (Complex.abs_arg_le_pi_div_two_iff (z := ⟨w, n⟩)).2 hw
  exact (abs_le.1 this).2

theorem sqNorm_so3LogClosed (g : Vec ℝ 4) (hn : xyz2 g ≠ 0) :
    sqNorm (so3LogClosed g)
      = (2 * Complex.arg ⟨g 3, Real.sqrt (xyz2 g)⟩) * (2 * Complex.arg ⟨g 3, Real.sqrt (xyz2 g)⟩) := by
  have hs : Real.sqrt (xyz2 g) * Real.sqrt (xyz2 g) = xyz2 g := Real.mul_self_sqrt (xyz2_nonneg g)
  have hs0 : Real.sqrt (xyz2 g) ≠ 0 := fun h0 => hn (by rw [← hs, h0, mul_zero])
  rw [sqNorm3]
  simp only [so3LogClosed, mk3, Vec.of_get]
  set n := Real.sqrt (xyz2 g)
  set α := Complex.arg ⟨g 3, n⟩
  have : g 0 * g 0 + g 1 * g 1 + g 2 * g 2 = n * n := by rw [hs]; rfl
  field_simp
  linear_combination (α ^ 2) * this

/-- **rotation norm ≤ π** (closed-form branch), for every quaternion with `w ≥ 0`. -/
theorem so3_logClosed_norm_le_pi (g : Vec ℝ 4) (hw : 0 ≤ g 3) :
    Real.sqrt (sqNorm (so3LogClosed g)) ≤ Real.pi := by
  by_cases hn : xyz2 g = 0
  · have : sqNorm (so3LogClosed g) = 0 := by
      rw [sqNorm3]; simp [so3LogClosed, mk3, hn]
    rw [this, Real.sqrt_zero]; exact Real.pi_pos.le
  · rw [sqNorm_so3LogClosed g hn]
    obtain ⟨h0, h1⟩ := half_angle_range (g 3) (Real.sqrt (xyz2 g)) (Real.sqrt_nonneg _) hw
    rw [Real.sqrt_mul_self (by linarith)]
    linarith

/-- series branch of `SO3.log`: under the unit constraint and `w ≥ 0` the norm is tiny. -/
theorem so3_logTaylor_sqNorm_le (g : Vec ℝ 4) (hU : UnitQ g) (hw : 0 ≤ g 3)
    (hb : xyz2 g < Scalar.eps2) : sqNorm (SO3.log g) ≤ 1 := by
  have hb' : g 0 * g 0 + g 1 * g 1 + g 2 * g 2 < Scalar.eps2 := hb
  have hn0 := xyz2_nonneg g
  have he : xyz2 g < 1 / 100000000 := by rw [← scalar_eps2]; exact hb
  have hw2 : g 3 * g 3 = 1 - xyz2 g := by unfold UnitQ at hU; unfold xyz2; linarith
  have hwpos : 0 < g 3 := by
    rcases hw.lt_or_eq with h | h
    · exact h
    · rw [← h] at hw2; linarith
  rw [sqNorm3]
  simp only [SO3.log, SO3.logPhi, hb', if_true, mk3, Vec.of_get, nat_real]
  set w := g 3
  set m := xyz2 g with hm
  have hm' : g 0 * g 0 + g 1 * g 1 + g 2 * g 2 = m := rfl
  rw [hm']
  -- φ·w = 2 − 2m/(3w²) ∈ [0, 2]
  set φ := ((2 : ℕ) : ℝ) / w - ((2 : ℕ) : ℝ) * m / (((3 : ℕ) : ℝ) * w * w * w) with hφ
  have hφw : φ * w = 2 - 2 * m / (3 * (w * w)) := by
    rw [hφ]; push_cast; field_simp
  have hq : 0 ≤ 2 * m / (3 * (w * w)) ∧ 2 * m / (3 * (w * w)) ≤ 2 := by
    constructor
    · positivity
    · rw [div_le_iff₀ (by positivity)]; nlinarith
  have hsq : (φ * w) * (φ * w) ≤ 4 := by
    rw [hφw]; nlinarith [hq.1, hq.2]
  have key : g 0 * φ * (g 0 * φ) + g 1 * φ * (g 1 * φ) + g 2 * φ * (g 2 * φ) = m * (φ * φ) := by
    rw [← hm']; ring
  rw [key]
  -- m φ² w² ≤ 4 m, w² ≥ 1/2
  have h1 : m * (φ * φ) * (w * w) ≤ 4 * m := by nlinarith
  have h2 : 0 ≤ m * (φ * φ) := mul_nonneg hn0 (mul_self_nonneg _)
  nlinarith

/-- **rotation norm ≤ π** for the actual model `SO3.log`, both branches, on canonical unit
quaternions. -/
theorem so3_log_norm_le_pi (g : Vec ℝ 4) (hU : UnitQ g) (hw : 0 ≤ g 3) :
    Real.sqrt (sqNorm (SO3.log g)) ≤ Real.pi := by
  by_cases hb : xyz2 g < Scalar.eps2
  · have h1 := so3_logTaylor_sqNorm_le g hU hw hb
    calc Real.sqrt (sqNorm (SO3.log g)) ≤ Real.sqrt 1 := Real.sqrt_le_sqrt h1
      _ = 1 := Real.sqrt_one
      _ ≤ Real.pi := by linarith [Real.two_le_pi]
  · rw [so3_log_eq_closed g hb]; exact so3_logClosed_norm_le_pi g hw


theorem so3_canon_of_nonneg (q : Vec ℝ 4) (h : 0 ≤ q 3) : SO3.canon q = q := by
  simp [SO3.canon, not_lt.2 h]

/-- **exp ∘ log = id** on canonical unit quaternions (closed-form branches). -/
theorem so3_expClosed_logClosed (g : Vec ℝ 4) (hU : UnitQ g) (hw : 0 ≤ g 3) :
    so3ExpClosed (so3LogClosed g) = g := by
  have hnn : Real.sqrt (xyz2 g) * Real.sqrt (xyz2 g) = xyz2 g := Real.mul_self_sqrt (xyz2_nonneg g)
  have hunit : g 3 * g 3 + Real.sqrt (xyz2 g) * Real.sqrt (xyz2 g) = 1 := by
    rw [hnn]; unfold UnitQ at hU; unfold xyz2; linarith
  have hsin := sin_arg_mk_unit _ _ hunit
  have hcos := cos_arg_mk_unit _ _ hunit
  obtain ⟨hα0, hα1⟩ := half_angle_range (g 3) (Real.sqrt (xyz2 g)) (Real.sqrt_nonneg _) hw
  by_cases hn : xyz2 g = 0
  · -- g = (0,0,0,1)
    have hx : g 0 = 0 := by
      unfold xyz2 at hn
      nlinarith [mul_self_nonneg (g 0), mul_self_nonneg (g 1), mul_self_nonneg (g 2)]
    have hy : g 1 = 0 := by
      unfold xyz2 at hn
      nlinarith [mul_self_nonneg (g 0), mul_self_nonneg (g 1), mul_self_nonneg (g 2)]
    have hz : g 2 = 0 := by
      unfold xyz2 at hn
      nlinarith [mul_self_nonneg (g 0), mul_self_nonneg (g 1), mul_self_nonneg (g 2)]
    have hw1 : g 3 = 1 := by
      have : g 3 * g 3 = 1 := by rw [hn, Real.sqrt_zero] at hunit; linarith
      nlinarith
    have hlog : so3LogClosed g = mk3 0 0 0 := by
      ext i; fin_cases i <;> simp [so3LogClosed, mk3, hx, hy, hz]
    have hs0 : sqNorm (mk3 (0:ℝ) 0 0) = 0 := by rw [sqNorm3]; simp [mk3]
    rw [hlog]
    unfold so3ExpClosed
    simp only [hs0, Real.sqrt_zero]
    rw [so3_canon_of_nonneg _ (by simp [mk4, Real.cos_zero])]
    ext i; fin_cases i <;> simp [mk4, mk3, hx, hy, hz, hw1]
  · set n := Real.sqrt (xyz2 g) with hndef
    set α := Complex.arg ⟨g 3, n⟩ with hαdef
    have hn0 : n ≠ 0 := fun h0 => hn (by rw [← hnn, h0, mul_zero])
    have hα : α ≠ 0 := by
      intro h0; rw [h0, Real.sin_zero] at hsin; exact hn0 hsin.symm
    have hth : Real.sqrt (sqNorm (so3LogClosed g)) = 2 * α := by
      rw [sqNorm_so3LogClosed g hn, Real.sqrt_mul_self (by linarith)]
    unfold so3ExpClosed
    simp only [hth]
    have h2 : 2 * α / 2 = α := by ring
    rw [h2, hsin, hcos]
    have hq : mk4 (n / (2 * α) * (so3LogClosed g) 0) (n / (2 * α) * (so3LogClosed g) 1)
        (n / (2 * α) * (so3LogClosed g) 2) (g 3) = g := by
      ext i
      fin_cases i <;> simp [mk4, mk3, so3LogClosed, ← hndef, ← hαdef] <;> field_simp
    rw [hq]
    exact so3_canon_of_nonneg g hw


/-- **log ∘ exp = id** for rotation norm below π (closed-form branches). -/
theorem so3_logClosed_expClosed (a : Vec ℝ 3) (hπ : Real.sqrt (sqNorm a) < Real.pi) :
    so3LogClosed (so3ExpClosed a) = a := by
  have hnn := sqNorm3_nonneg a
  have hsq : Real.sqrt (sqNorm a) * Real.sqrt (sqNorm a) = a 0 * a 0 + a 1 * a 1 + a 2 * a 2 := by
    rw [Real.mul_self_sqrt hnn, sqNorm3]
  by_cases h0 : Real.sqrt (sqNorm a) = 0
  · have hz : a 0 * a 0 + a 1 * a 1 + a 2 * a 2 = 0 := by rw [← hsq, h0, mul_zero]
    have hx : a 0 = 0 := by
      nlinarith [mul_self_nonneg (a 0), mul_self_nonneg (a 1), mul_self_nonneg (a 2)]
    have hy : a 1 = 0 := by
      nlinarith [mul_self_nonneg (a 0), mul_self_nonneg (a 1), mul_self_nonneg (a 2)]
    have hzz : a 2 = 0 := by
      nlinarith [mul_self_nonneg (a 0), mul_self_nonneg (a 1), mul_self_nonneg (a 2)]
    have he : so3ExpClosed a = mk4 0 0 0 1 := by
      unfold so3ExpClosed
      simp only [h0]
      rw [so3_canon_of_nonneg _ (by simp [mk4, Real.cos_zero])]
      ext i; fin_cases i <;> simp [mk4, hx, hy, hzz]
    rw [he]
    ext i; fin_cases i <;> simp [so3LogClosed, xyz2, mk3, mk4, hx, hy, hzz]
  · set θ := Real.sqrt (sqNorm a) with hθ
    have hθpos : 0 < θ := lt_of_le_of_ne (Real.sqrt_nonneg _) (Ne.symm h0)
    have hh1 : 0 < θ / 2 := by linarith
    have hh2 : θ / 2 < Real.pi / 2 := by linarith
    have hs : 0 < Real.sin (θ / 2) := Real.sin_pos_of_pos_of_lt_pi hh1 (by linarith [Real.pi_pos])
    have hc : 0 < Real.cos (θ / 2) := Real.cos_pos_of_mem_Ioo ⟨by linarith [Real.pi_pos], hh2⟩
    set s := Real.sin (θ / 2) with hsdef
    set c := Real.cos (θ / 2) with hcdef
    have he : so3ExpClosed a = mk4 (s / θ * a 0) (s / θ * a 1) (s / θ * a 2) c := by
      unfold so3ExpClosed
      simp only [← hθ, ← hsdef, ← hcdef]
      exact so3_canon_of_nonneg _ (by simp [mk4, hc.le])
    rw [he]
    generalize hq : mk4 (s / θ * a 0) (s / θ * a 1) (s / θ * a 2) c = q
    have q0 : q 0 = s / θ * a 0 := by rw [← hq]; rfl
    have q1 : q 1 = s / θ * a 1 := by rw [← hq]; rfl
    have q2 : q 2 = s / θ * a 2 := by rw [← hq]; rfl
    have q3 : q 3 = c := by rw [← hq]; rfl
    have hx2 : xyz2 q = s * s := by
      have : xyz2 q = (s / θ) * (s / θ) * (θ * θ) := by
        rw [hsq, xyz2, q0, q1, q2]; ring
      rw [this]; field_simp
    have harg : Complex.arg ⟨c, s⟩ = θ / 2 :=
      arg_mk_cos_sin (θ / 2) (by linarith [Real.pi_pos]) (by linarith [Real.pi_pos])
    have hphi : 2 * Complex.arg ⟨q 3, Real.sqrt (xyz2 q)⟩ / Real.sqrt (xyz2 q) = θ / s := by
      rw [hx2, Real.sqrt_mul_self hs.le, q3, harg]; ring
    ext i
    fin_cases i <;>
      simp only [so3LogClosed, hphi, mk3, Vec.of_get, q0, q1, q2] <;> field_simp <;> rfl


/-! ### the actual model functions under their branch conditions -/

/-- in the closed-form branch of `log` the result is large enough for the closed-form branch of
`exp`: `‖log g‖² = 4α² ≥ 4 sin²α = 4‖xyz‖² ≥ eps2`. -/
theorem so3_log_not_small (g : Vec ℝ 4) (hU : UnitQ g) (hw : 0 ≤ g 3)
    (hb : ¬ xyz2 g < Scalar.eps2) : ¬ sqNorm (SO3.log g) < Scalar.eps2 := by
  rw [so3_log_eq_closed g hb]
  have hpos : 0 < xyz2 g := lt_of_lt_of_le eps2_pos (not_lt.1 hb)
  rw [sqNorm_so3LogClosed g hpos.ne']
  have hnn : Real.sqrt (xyz2 g) * Real.sqrt (xyz2 g) = xyz2 g := Real.mul_self_sqrt (xyz2_nonneg g)
  have hunit : g 3 * g 3 + Real.sqrt (xyz2 g) * Real.sqrt (xyz2 g) = 1 := by
    rw [hnn]; unfold UnitQ at hU; unfold xyz2; linarith
  have hsin := sin_arg_mk_unit _ _ hunit
  obtain ⟨hα0, _⟩ := half_angle_range (g 3) (Real.sqrt (xyz2 g)) (Real.sqrt_nonneg _) hw
  have hle := Real.sin_le hα0
  rw [hsin] at hle
  have hs0 := Real.sqrt_nonneg (xyz2 g)
  nlinarith [not_lt.1 hb]

/-- **exp (log g) = g** for the model functions: canonical unit quaternion, closed-form branch. -/
theorem so3_exp_log (g : Vec ℝ 4) (hU : UnitQ g) (hw : 0 ≤ g 3) (hb : ¬ xyz2 g < Scalar.eps2) :
    SO3.exp (SO3.log g) = g := by
  rw [so3_exp_eq_closed _ (so3_log_not_small g hU hw hb), so3_log_eq_closed g hb]
  exact so3_expClosed_logClosed g hU hw

/-- **log (exp a) = a** for the model functions: `‖a‖ < π`, closed-form branches. -/
theorem so3_log_exp (a : Vec ℝ 3) (h1 : ¬ sqNorm a < Scalar.eps2)
    (h2 : ¬ xyz2 (SO3.exp a) < Scalar.eps2) (hπ : Real.sqrt (sqNorm a) < Real.pi) :
    SO3.log (SO3.exp a) = a := by
  rw [so3_log_eq_closed _ h2, so3_exp_eq_closed a h1]
  exact so3_logClosed_expClosed a hπ

end C02
