/-
  C10Lin.lean — linear-algebra lemmas behind C10 (regularised least squares), over ℝ with Mathlib's
  `Matrix`, `dotProduct`, `mulVec`.  No normed-space API: `‖v‖²` is `v ⬝ᵥ v`.
-/
import Mathlib.Data.Matrix.Mul
import Mathlib.LinearAlgebra.Matrix.PosDef
import Mathlib.LinearAlgebra.Matrix.NonsingularInverse
import Mathlib.Analysis.SpecialFunctions.Sqrt
import Mathlib.Tactic.Ring
import Mathlib.Tactic.Linarith
import Mathlib.Tactic.Positivity

open Matrix

namespace C10Lin

set_option linter.unusedSectionVars false

variable {ι κ : Type} [Fintype ι] [Fintype κ] [DecidableEq κ]

/-- squared Euclidean norm -/
def nsq {γ : Type} [Fintype γ] (v : γ → ℝ) : ℝ := v ⬝ᵥ v

theorem nsq_nonneg {γ : Type} [Fintype γ] (v : γ → ℝ) : 0 ≤ nsq v := by
  unfold nsq dotProduct
  exact Finset.sum_nonneg (fun i _ => mul_self_nonneg (v i))

theorem nsq_eq_zero {γ : Type} [Fintype γ] (v : γ → ℝ) : nsq v = 0 ↔ v = 0 := by
  unfold nsq
  exact dotProduct_self_eq_zero

theorem nsq_add {γ : Type} [Fintype γ] (a b : γ → ℝ) : nsq (a + b) = nsq a + 2 * (a ⬝ᵥ b) + nsq b := by
  unfold nsq
  rw [add_dotProduct, dotProduct_add, dotProduct_add, dotProduct_comm b a]
  ring

/-- `D z = d ∘ z` -/
def scale (d z : κ → ℝ) : κ → ℝ := fun j => d j * z j

theorem scale_add (d a b : κ → ℝ) : scale d (a + b) = scale d a + scale d b := by
  funext j; simp [scale, mul_add]

theorem scale_zero (d : κ → ℝ) : scale d 0 = 0 := by
  funext j; simp [scale]

theorem scale_eq_zero {d z : κ → ℝ} (hd : ∀ j, 0 < d j) (h : scale d z = 0) : z = 0 := by
  funext j
  have := congrFun h j
  simp only [scale, Pi.zero_apply, mul_eq_zero] at this
  rcases this with h1 | h1
  · exact absurd h1 (ne_of_gt (hd j))
  · exact h1

/-- `H = JᵀJ + λ diag(d)²` -/
def H (J : Matrix ι κ ℝ) (d : κ → ℝ) (lam : ℝ) : Matrix κ κ ℝ :=
  Jᵀ * J + lam • Matrix.diagonal (fun j => d j * d j)

/-- `φ z = ‖J z + r‖² + λ ‖D z‖²` -/
def phi (J : Matrix ι κ ℝ) (d : κ → ℝ) (r : ι → ℝ) (lam : ℝ) (z : κ → ℝ) : ℝ :=
  nsq (J *ᵥ z + r) + lam * nsq (scale d z)

/-- quadratic form of `H` -/
theorem quad_H (J : Matrix ι κ ℝ) (d : κ → ℝ) (lam : ℝ) (e : κ → ℝ) :
    e ⬝ᵥ (H J d lam *ᵥ e) = nsq (J *ᵥ e) + lam * nsq (scale d e) := by
  unfold H nsq
  rw [add_mulVec, dotProduct_add, ← mulVec_mulVec, dotProduct_mulVec, ← mulVec_transpose,
    transpose_transpose, smul_mulVec, dotProduct_smul, smul_eq_mul]
  congr 2
  unfold dotProduct scale
  apply Finset.sum_congr rfl
  intro j _
  rw [mulVec_diagonal]
  ring

/-- cross term: `e·(H x + Jᵀ r) = (J x + r)·(J e) + λ (D x)·(D e)` -/
theorem cross_H (J : Matrix ι κ ℝ) (d : κ → ℝ) (r : ι → ℝ) (lam : ℝ) (x e : κ → ℝ) :
    (J *ᵥ x + r) ⬝ᵥ (J *ᵥ e) + lam * (scale d x ⬝ᵥ scale d e) = e ⬝ᵥ (H J d lam *ᵥ x + Jᵀ *ᵥ r) := by
  unfold H
  rw [add_mulVec, dotProduct_add, dotProduct_add, ← mulVec_mulVec, smul_mulVec, dotProduct_smul, smul_eq_mul,
    add_dotProduct]
  have h1 : (J *ᵥ x) ⬝ᵥ (J *ᵥ e) = e ⬝ᵥ (Jᵀ *ᵥ (J *ᵥ x)) := by
    rw [dotProduct_mulVec, ← mulVec_transpose, dotProduct_comm]
  have h2 : r ⬝ᵥ (J *ᵥ e) = e ⬝ᵥ (Jᵀ *ᵥ r) := by
    rw [dotProduct_mulVec, ← mulVec_transpose, dotProduct_comm]
  have h3 : scale d x ⬝ᵥ scale d e = e ⬝ᵥ (Matrix.diagonal (fun j => d j * d j) *ᵥ x) := by
    unfold dotProduct scale
    apply Finset.sum_congr rfl
    intro j _
    rw [mulVec_diagonal]
    ring
  rw [h1, h2, h3]
  ring

/-- `φ y − φ x = 2 (y−x)·(H x + Jᵀ r) + ‖J (y−x)‖² + λ ‖D (y−x)‖²` for all `x y` -/
theorem phi_sub (J : Matrix ι κ ℝ) (d : κ → ℝ) (r : ι → ℝ) (lam : ℝ) (x y : κ → ℝ) :
    phi J d r lam y - phi J d r lam x =
      2 * ((y - x) ⬝ᵥ (H J d lam *ᵥ x + Jᵀ *ᵥ r)) + nsq (J *ᵥ (y - x)) + lam * nsq (scale d (y - x)) := by
  have hy : y = x + (y - x) := by abel
  set e := y - x with he
  rw [hy, ← cross_H]
  unfold phi
  have e1 : J *ᵥ (x + e) + r = (J *ᵥ x + r) + J *ᵥ e := by rw [mulVec_add]; abel
  rw [e1, scale_add, nsq_add, nsq_add (scale d x)]
  ring


/-! ### positive definiteness, existence and uniqueness -/

theorem H_isHermitian (J : Matrix ι κ ℝ) (d : κ → ℝ) (lam : ℝ) : (H J d lam).IsHermitian := by
  unfold H
  refine Matrix.IsHermitian.add ?_ ((Matrix.isHermitian_diagonal _).smul (IsSelfAdjoint.all _))
  have := Matrix.isHermitian_conjTranspose_mul_self J
  simpa [conjTranspose_eq_transpose_of_trivial] using this

theorem quad_pos {J : Matrix ι κ ℝ} {d : κ → ℝ} {lam : ℝ} (hd : ∀ j, 0 < d j) (hl : 0 < lam)
    {e : κ → ℝ} (he : e ≠ 0) : 0 < e ⬝ᵥ (H J d lam *ᵥ e) := by
  rw [quad_H]
  have h1 := nsq_nonneg (J *ᵥ e)
  have h2 : 0 < nsq (scale d e) := by
    rcases lt_or_eq_of_le (nsq_nonneg (scale d e)) with h | h
    · exact h
    · exact absurd (scale_eq_zero hd ((nsq_eq_zero _).1 h.symm)) he
  have := mul_pos hl h2
  linarith

theorem H_posDef {J : Matrix ι κ ℝ} {d : κ → ℝ} {lam : ℝ} (hd : ∀ j, 0 < d j) (hl : 0 < lam) :
    (H J d lam).PosDef := by
  refine Matrix.PosDef.of_dotProduct_mulVec_pos (H_isHermitian J d lam) ?_
  intro x hx
  simpa using quad_pos hd hl hx

theorem H_isUnit {J : Matrix ι κ ℝ} {d : κ → ℝ} {lam : ℝ} (hd : ∀ j, 0 < d j) (hl : 0 < lam) :
    IsUnit (H J d lam) := (H_posDef hd hl).isUnit

theorem solution_unique {J : Matrix ι κ ℝ} {d : κ → ℝ} {lam : ℝ} (hd : ∀ j, 0 < d j) (hl : 0 < lam)
    {b x y : κ → ℝ} (hx : H J d lam *ᵥ x = b) (hy : H J d lam *ᵥ y = b) : x = y := by
  by_contra hne
  have he : x - y ≠ 0 := sub_ne_zero.2 hne
  have h0 : H J d lam *ᵥ (x - y) = 0 := by rw [mulVec_sub, hx, hy, sub_self]
  have := quad_pos (J := J) hd hl he
  rw [h0, dotProduct_zero] at this
  exact lt_irrefl _ this

theorem solution_exists {J : Matrix ι κ ℝ} {d : κ → ℝ} {lam : ℝ} (hd : ∀ j, 0 < d j) (hl : 0 < lam)
    (b : κ → ℝ) : H J d lam *ᵥ ((H J d lam)⁻¹ *ᵥ b) = b := by
  have hu : IsUnit (H J d lam).det := (Matrix.isUnit_iff_isUnit_det _).1 (H_isUnit hd hl)
  rw [mulVec_mulVec, Matrix.mul_nonsing_inv _ hu, one_mulVec]

theorem exists_unique_solution {J : Matrix ι κ ℝ} {d : κ → ℝ} {lam : ℝ} (hd : ∀ j, 0 < d j) (hl : 0 < lam)
    (b : κ → ℝ) : ∃! x, H J d lam *ᵥ x = b :=
  ⟨(H J d lam)⁻¹ *ᵥ b, solution_exists hd hl b, fun _ hy => solution_unique hd hl hy (solution_exists hd hl b)⟩

/-! ### the solution of the normal equations is the unique minimiser -/

/-- normal equations `H x = −Jᵀ r` -/
def NormalEq (J : Matrix ι κ ℝ) (d : κ → ℝ) (r : ι → ℝ) (lam : ℝ) (x : κ → ℝ) : Prop :=
  H J d lam *ᵥ x = -(Jᵀ *ᵥ r)

theorem phi_sub_of_normalEq {J : Matrix ι κ ℝ} {d : κ → ℝ} {r : ι → ℝ} {lam : ℝ} {x : κ → ℝ}
    (hx : NormalEq J d r lam x) (y : κ → ℝ) :
    phi J d r lam y - phi J d r lam x = nsq (J *ᵥ (y - x)) + lam * nsq (scale d (y - x)) := by
  rw [phi_sub]
  unfold NormalEq at hx
  rw [hx, neg_add_cancel, dotProduct_zero]
  ring

theorem is_minimiser {J : Matrix ι κ ℝ} {d : κ → ℝ} {r : ι → ℝ} {lam : ℝ} {x : κ → ℝ}
    (hl : 0 < lam) (hx : NormalEq J d r lam x) (y : κ → ℝ) : phi J d r lam x ≤ phi J d r lam y := by
  have h := phi_sub_of_normalEq hx y
  have h1 := nsq_nonneg (J *ᵥ (y - x))
  have h2 := mul_nonneg hl.le (nsq_nonneg (scale d (y - x)))
  linarith

theorem minimiser_unique {J : Matrix ι κ ℝ} {d : κ → ℝ} {r : ι → ℝ} {lam : ℝ} {x : κ → ℝ}
    (hd : ∀ j, 0 < d j) (hl : 0 < lam) (hx : NormalEq J d r lam x) {y : κ → ℝ}
    (hy : phi J d r lam y ≤ phi J d r lam x) : y = x := by
  have h := phi_sub_of_normalEq hx y
  have h1 := nsq_nonneg (J *ᵥ (y - x))
  have h2 := nsq_nonneg (scale d (y - x))
  have h3 : lam * nsq (scale d (y - x)) ≤ 0 := by linarith
  have h4 : nsq (scale d (y - x)) = 0 := by
    rcases lt_or_eq_of_le h2 with h | h
    · have := mul_pos hl h; linarith
    · exact h.symm
  have := scale_eq_zero hd ((nsq_eq_zero _).1 h4)
  exact sub_eq_zero.1 this

theorem phi_zero (J : Matrix ι κ ℝ) (d : κ → ℝ) (r : ι → ℝ) (lam : ℝ) : phi J d r lam 0 = nsq r := by
  unfold phi
  rw [mulVec_zero, zero_add, scale_zero]
  simp [nsq]

/-- `‖J x + r‖² + λ‖D x‖² ≤ ‖r‖²` -/
theorem descent_strong {J : Matrix ι κ ℝ} {d : κ → ℝ} {r : ι → ℝ} {lam : ℝ} {x : κ → ℝ}
    (hl : 0 < lam) (hx : NormalEq J d r lam x) :
    nsq (J *ᵥ x + r) + lam * nsq (scale d x) ≤ nsq r := by
  have := is_minimiser hl hx 0
  rw [phi_zero] at this
  exact this

theorem descent {J : Matrix ι κ ℝ} {d : κ → ℝ} {r : ι → ℝ} {lam : ℝ} {x : κ → ℝ}
    (hl : 0 < lam) (hx : NormalEq J d r lam x) : nsq (J *ᵥ x + r) ≤ nsq r := by
  have h := descent_strong hl hx
  have h2 := mul_nonneg hl.le (nsq_nonneg (scale d x))
  linarith

/-- no predicted reduction ⇒ the step is zero -/
theorem step_zero_of_no_reduction {J : Matrix ι κ ℝ} {d : κ → ℝ} {r : ι → ℝ} {lam : ℝ} {x : κ → ℝ}
    (hd : ∀ j, 0 < d j) (hl : 0 < lam) (hx : NormalEq J d r lam x) (h : nsq r ≤ nsq (J *ᵥ x + r)) : x = 0 := by
  have h1 := descent_strong hl hx
  have h2 := nsq_nonneg (scale d x)
  have h3 : lam * nsq (scale d x) ≤ 0 := by linarith
  have h4 : nsq (scale d x) = 0 := by
    rcases lt_or_eq_of_le h2 with h | h
    · have := mul_pos hl h; linarith
    · exact h.symm
  exact scale_eq_zero hd ((nsq_eq_zero _).1 h4)

theorem normalEq_zero_of_grad_zero {J : Matrix ι κ ℝ} {d : κ → ℝ} {r : ι → ℝ} {lam : ℝ}
    (hg : Jᵀ *ᵥ r = 0) : NormalEq J d r lam 0 := by
  unfold NormalEq
  rw [mulVec_zero, hg, neg_zero]

theorem zero_residual_zero_step {J : Matrix ι κ ℝ} {d : κ → ℝ} {lam : ℝ} {x : κ → ℝ}
    (hd : ∀ j, 0 < d j) (hl : 0 < lam) (hx : NormalEq J d 0 lam x) : x = 0 := by
  have h0 : NormalEq J d (0 : ι → ℝ) lam 0 := normalEq_zero_of_grad_zero (by rw [mulVec_zero])
  exact solution_unique hd hl hx h0

end C10Lin
