/-
  C11InstGroups.lean — the hypothesis record `C11.LieCalculus` is INHABITED for the concrete group
  models, by citing C01 (`IsMatrixGroup`), C03 (`AdjointRep`) and C02 (`matrix (exp a) = exp (hat a)`):
  `so3Calculus`, `se2Calculus`, `tnCalculus n`, `so2Calculus`, `se3Calculus`.

  `Dom` is the set of tangent vectors where the model's `exp` is exact: the closed-form branch
  (`¬ θ² < eps2`), or `θ = 0` (the Taylor branch is exact there).  On the rest of the Taylor branch
  (`0 < θ² < eps2`) the model is a truncated series and the derivative statements of C11 hold only
  up to the truncation error (C02), so they are not claimed there.
-/
import SmoothProofs.C11InstModel
import SmoothProofs.C01SO3
import SmoothProofs.C01Small
import SmoothProofs.C01SE3
import SmoothProofs.C03AdExp
import SmoothProofs.C02Series

open Lin Scalar
open scoped Topology

namespace C11

/-- assemble a `LieCalculus` from the C01 / C03 / C02 facts of one model (`U₁` and `U₃` are the
    spellings of the representation constraint used by C01 and C03) -/
noncomputable def LieCalculus.ofProps (G : LieModel ℝ) (U₁ U₃ : Vec ℝ G.rep → Prop)
    (InAlg : Mat ℝ G.dim G.dim → Prop) (Dom : Vec ℝ G.dof → Prop)
    (hgrp : IsMatrixGroup G U₁) (hadj : C03.AdjointRep G U₃ InAlg) (hU : ∀ g, U₁ g ↔ U₃ g)
    (hv : ∀ a, Dom a → U₃ (G.exp a))
    (hm : ∀ a, Dom a → C02.toM (G.matrix (G.exp a)) = NormedSpace.exp (C02.toM (G.hat a))) :
    LieCalculus G where
  U := U₁
  Dom := Dom
  grp := hgrp
  hat_add := hadj.hat_add
  hat_smul := hadj.hat_smul
  hat_inj := fun _ _ h => hadj.hat_injective h
  Ad_def := fun g a hg => hadj.Ad_def g a ((hU g).1 hg)
  ad_def := hadj.ad_def
  exp_valid := fun a ha => (hU _).2 (hv a ha)
  exp_matrix := fun a ha => hm a ha

/-! ### SO3 -/

theorem so3_unit_iff (g : Vec ℝ 4) : SO3.Unit g ↔ C03.UnitQ g := by
  unfold SO3.Unit C03.UnitQ
  constructor <;> intro h <;> nlinarith [h]

/-- exactness domain of `SO3.exp`: closed-form branch, or `a = 0` -/
def so3Dom (a : Vec ℝ 3) : Prop := ¬ sqNorm a < Scalar.eps2 ∨ sqNorm a = 0

theorem so3_exp_zero (a : Vec ℝ 3) (h0 : sqNorm a = 0) : SO3.exp a = SO3.canon (mk4 0 0 0 1) := by
  have hz := h0
  rw [C02.sqNorm3] at hz
  have hx : a 0 = 0 := by
    nlinarith [mul_self_nonneg (a 0), mul_self_nonneg (a 1), mul_self_nonneg (a 2)]
  have hy : a 1 = 0 := by
    nlinarith [mul_self_nonneg (a 0), mul_self_nonneg (a 1), mul_self_nonneg (a 2)]
  have hzz : a 2 = 0 := by
    nlinarith [mul_self_nonneg (a 0), mul_self_nonneg (a 1), mul_self_nonneg (a 2)]
  have hb : (0 : ℝ) < Scalar.eps2 := C02.eps2_pos
  simp [SO3.exp, SO3.expAB, h0, hb, hx, hy, hzz]

theorem so3_unit_exp (a : Vec ℝ 3) (h : so3Dom a) : C03.UnitQ (SO3.exp a) := by
  rcases h with h | h
  · exact C03.unitQ_so3_exp a h
  · rw [so3_exp_zero a h]
    apply C03.unitQ_canon
    simp [C03.UnitQ, mk4]

theorem so3_exp_matrix (a : Vec ℝ 3) (h : so3Dom a) :
    C02.toM (SO3.matrix (SO3.exp a)) = NormedSpace.exp (C02.toM (SO3.hat a)) := by
  rcases h with h | h
  · exact C02.so3_exp_is_matrix_exp_closed a h
  · exact C02.so3_exp_is_matrix_exp_zero a h

/-- **SO3 satisfies the hypothesis record** (C01 `SO3.isMatrixGroup`, C03 `SO3.adjointRep`,
    C02 `so3_exp_is_matrix_exp_closed/_zero`) -/
noncomputable def so3Calculus : LieCalculus (SO3.model : LieModel ℝ) :=
  LieCalculus.ofProps _ SO3.Unit C03.UnitQ C03.SO3.InAlgebra so3Dom SO3.isMatrixGroup C03.SO3.adjointRep
    so3_unit_iff so3_unit_exp so3_exp_matrix

/-! ### SE2 -/

theorem se2_unit_iff (g : Vec ℝ 4) : SE2.Unit g ↔ C03.SE2.IsUnit g := by
  unfold SE2.Unit C03.SE2.IsUnit
  constructor <;> intro h <;> nlinarith [h]

/-- exactness domain of `SE2.exp`: closed-form branch, or angle `0` -/
def se2Dom (a : Vec ℝ 3) : Prop := ¬ a 2 * a 2 < Scalar.eps2 ∨ a 2 = 0

theorem se2_exp_matrix (a : Vec ℝ 3) (h : se2Dom a) :
    C02.toM (SE2.matrix (SE2.exp a)) = NormedSpace.exp (C02.toM (SE2.hat a)) := by
  rcases h with h | h
  · exact C02.se2_exp_is_matrix_exp_closed a h
  · exact C02.se2_exp_is_matrix_exp_zero a h

/-- **SE2 satisfies the hypothesis record** -/
noncomputable def se2Calculus : LieCalculus (SE2.model : LieModel ℝ) :=
  LieCalculus.ofProps _ SE2.Unit C03.SE2.IsUnit C03.SE2.InAlgebra se2Dom SE2.isMatrixGroup C03.SE2.adjointRep
    se2_unit_iff (fun a _ => C03.se2_unit_exp a) se2_exp_matrix

/-! ### translations, SO2 (commutative; no branch) -/

/-- **Tn satisfies the hypothesis record** (every `n`, `Dom = everything`) -/
noncomputable def tnCalculus (n : Nat) : LieCalculus (Tn.model n : LieModel ℝ) :=
  LieCalculus.ofProps _ (fun _ => True) (fun _ => True) C03.Tn.InAlgebra (fun _ => True) (Tn.isMatrixGroup n)
    (C03.Tn.adjointRep n) (fun _ => Iff.rfl) (fun _ _ => trivial) (fun a _ => C02.tn_exp_is_matrix_exp a)

theorem so2_unit_exp (a : Vec ℝ 1) : SO2.Unit (SO2.exp a) := by
  have := Real.sin_sq_add_cos_sq (a 0)
  show Real.sin (a 0) ^ 2 + Real.cos (a 0) ^ 2 = 1
  exact this

/-- **SO2 satisfies the hypothesis record** -/
noncomputable def so2Calculus : LieCalculus (SO2.model : LieModel ℝ) where
  U := SO2.Unit
  Dom := fun _ => True
  grp := SO2.isMatrixGroup
  hat_add := C03.SO2.adjointRep.hat_add
  hat_smul := C03.SO2.adjointRep.hat_smul
  hat_inj := fun _ _ h => C03.SO2.adjointRep.hat_injective h
  Ad_def := fun g a _ => C03.SO2.adjointRep.Ad_def g a trivial
  ad_def := C03.SO2.adjointRep.ad_def
  exp_valid := fun a _ => so2_unit_exp a
  exp_matrix := fun a _ => C02.so2_exp_is_matrix_exp a

/-! ### SE3 -/

theorem se3_unit_iff (g : Vec ℝ 7) : SE3.Unit g ↔ C03.SE3.IsUnit g := so3_unit_iff _

/-- **SE3 satisfies the hypothesis record** on the closed-form branch `eps2 < ‖ω‖²` -/
noncomputable def se3Calculus : LieCalculus (SE3.model : LieModel ℝ) :=
  LieCalculus.ofProps _ SE3.Unit C03.SE3.IsUnit C03.SE3.InAlgebra (fun a => Scalar.eps2 < sqNorm (SE3.tw a))
    SE3.isMatrixGroup C03.SE3.adjointRep se3_unit_iff
    (fun a h => C03.se3_unit_exp a (not_lt.mpr h.le)) (fun a h => C02.se3_exp_is_matrix_exp_closed a h)

/-! ### the exactness domain holds on a neighbourhood (closed-form branch, strict) -/

/-- SO3: if `eps2 < ‖b(u)·v‖²` at `u` and `b` is continuous at `u`, the factor is exact near `u` -/
theorem so3_eventually_dom (v : Vec ℝ 3) (b : ℝ → ℝ) (u : ℝ) (hb : ContinuousAt b u)
    (h : Scalar.eps2 < sqNorm (vsmul (b u) v)) : ∀ᶠ u' in 𝓝 u, so3Dom (vsmul (b u') v) := by
  have hs : ∀ t : ℝ, sqNorm (vsmul t v) = t * t * sqNorm v := by
    intro t; rw [C02.sqNorm3, C02.sqNorm3]; simp [vsmul]; ring
  have hc : ContinuousAt (fun u' => sqNorm (vsmul (b u') v)) u := by
    have : (fun u' => sqNorm (vsmul (b u') v)) = fun u' => b u' * b u' * sqNorm v := by
      funext u'; exact hs _
    rw [this]
    exact (hb.mul hb).mul continuousAt_const
  have := hc.eventually (lt_mem_nhds h)
  exact this.mono fun u' hu' => Or.inl (not_lt.mpr hu'.le)

/-- SO3: a zero difference is exact for every `u` -/
theorem so3_dom_zero (b : ℝ) (v : Vec ℝ 3) (hv : sqNorm v = 0) : so3Dom (vsmul b v) := by
  right
  have : sqNorm (vsmul b v) = b * b * sqNorm v := by
    rw [C02.sqNorm3, C02.sqNorm3]; simp [vsmul]; ring
  rw [this, hv, mul_zero]

/-- SE2: if `eps2 < (b(u)·θ)²` at `u` and `b` is continuous at `u`, the factor is exact near `u` -/
theorem se2_eventually_dom (v : Vec ℝ 3) (b : ℝ → ℝ) (u : ℝ) (hb : ContinuousAt b u)
    (h : Scalar.eps2 < (vsmul (b u) v) 2 * (vsmul (b u) v) 2) :
    ∀ᶠ u' in 𝓝 u, se2Dom (vsmul (b u') v) := by
  have hc : ContinuousAt (fun u' => (vsmul (b u') v) 2 * (vsmul (b u') v) 2) u := by
    have : (fun u' => (vsmul (b u') v) 2 * (vsmul (b u') v) 2) = fun u' => (b u' * v 2) * (b u' * v 2) := by
      funext u'; simp [vsmul]
    rw [this]
    exact (hb.mul continuousAt_const).mul (hb.mul continuousAt_const)
  have := hc.eventually (lt_mem_nhds h)
  exact this.mono fun u' hu' => Or.inl (not_lt.mpr hu'.le)

end C11
