/-
  C12Inv.lean — `Inv` holds after every constructor and is preserved by concat_local / concat_global.
-/
import SmoothProofs.C12Base

set_option linter.unusedSectionVars false

open SplineSM SplineSM.TimeOps

namespace C12

variable {τ : Type} [Field τ] [LinearOrder τ] [IsStrictOrderedRing τ]
attribute [local instance] fieldTime
variable {G W : Type} [Group G] {C : Ker τ G W}

theorem inv_empty (ga : G) : Inv C (SplineSM.empty ga : Spline τ G W) := trivial

theorem inv_ctor (hK : GroupKer C) {T : τ} (hT : 0 < T) (V : List W) (ga : G) : Inv C (ctor C T V ga) := by
  have hc : C.c V 0 = 1 := hK.c_zero V
  simp [Inv, ctor, InvFrom, SegOK, hK.mul_eq, hc, hT]

theorem inv_ctorVs (hK : GroupKer C) {T : τ} (hT : 0 < T) (V : List W) (ga : G) : Inv C (ctorVs C T V ga) :=
  inv_ctor hK hT V ga

theorem inv_constantVelocity (hK : GroupKer C) (v : W) (T : τ) (ga : G) : Inv C (constantVelocity C v T ga) := by
  unfold constantVelocity
  split
  · exact inv_empty _
  · rename_i h
    exact inv_ctor hK (not_le.1 (by simpa using h)) _ _

theorem inv_constantVelocityGoal (hK : GroupKer C) (gb : G) (T : τ) (ga : G) :
    Inv C (constantVelocityGoal C gb T ga) := inv_constantVelocity hK _ _ _

theorem inv_fixedCubic (hK : GroupKer C) (gb : G) (va vb : W) {T : τ} (hT : 0 < T) (ga : G) :
    Inv C (fixedCubic C gb va vb T ga) := inv_ctor hK hT _ _

/-! ### list lemmas for the concatenations -/

theorem modLast_id {α : Type} (f : α → α) (l : List α) (h : ∀ a ∈ l, f a = a) : modLast f l = l := by
  induction l with
  | nil => rfl
  | cons a r ih =>
    cases r with
    | nil => simp [modLast, h a (by simp)]
    | cons b r' =>
      simp only [modLast]
      rw [ih (fun x hx => h x (List.mem_cons_of_mem _ hx))]

/-- overwriting the last end point with the value it already has changes nothing -/
theorem modLast_setEnd (g : G) (sg : Seg τ G W) (r : List (Seg τ G W)) (x : G) (hx : x = lastG g (sg :: r)) :
    modLast (fun a => { a with gEnd := x }) (sg :: r) = sg :: r := by
  induction r generalizing sg g with
  | nil => subst hx; simp [modLast, lastG]
  | cons b r' ih =>
    simp only [modLast]
    rw [ih sg.gEnd b (by simpa [lastG] using hx)]

theorem InvFrom_shift_local (hK : GroupKer C) (h : G) (d : τ) (g : G) (tp : τ) (l : List (Seg τ G W))
    (hl : InvFrom C g tp l) :
    InvFrom C (h * g) (d + tp) (l.map fun sg => { sg with tEnd := d + sg.tEnd, gEnd := C.mul h sg.gEnd }) := by
  induction l generalizing g tp with
  | nil => trivial
  | cons a r ih =>
    obtain ⟨h1, ⟨h2, h3, h4, h5⟩, h6⟩ := hl
    refine ⟨by simpa using h1, ⟨h2, h3, h4, ?_⟩, ?_⟩
    · simp only [hK.mul_eq, h5, mul_assoc]
    · simpa [hK.mul_eq] using ih a.gEnd a.tEnd h6

theorem InvFrom_shift_global (d : τ) (g : G) (tp : τ) (l : List (Seg τ G W)) (hl : InvFrom C g tp l) :
    InvFrom C g (d + tp) (l.map fun sg => { sg with tEnd := d + sg.tEnd }) := by
  induction l generalizing g tp with
  | nil => trivial
  | cons a r ih =>
    obtain ⟨h1, h2, h6⟩ := hl
    exact ⟨by simpa using h1, h2, ih a.gEnd a.tEnd h6⟩

/-- `concat_local` preserves the invariant when the appended spline starts at the identity (it is
    "a spline in the local frame of end()"), or when the left operand is empty. -/
theorem inv_concatLocal (hK : GroupKer C) {s o : Spline τ G W} (hs : Inv C s) (ho : Inv C o)
    (h : s.segs = [] ∨ o.g0 = 1) : Inv C (concatLocal C s o) := by
  unfold concatLocal Inv
  rw [tMax_eq, endG_eq]
  cases hsegs : s.segs with
  | nil =>
    simp only [List.nil_append, lastT, lastG, hK.mul_eq]
    have := InvFrom_shift_local hK s.g0 0 o.g0 0 o.segs ho
    simpa [hK.mul_eq] using this
  | cons a r =>
    have ho1 : o.g0 = 1 := by
      rcases h with h | h
      · rw [hsegs] at h; cases h
      · exact h
    have hid : modLast (fun sg : Seg τ G W => { sg with gEnd := C.mul sg.gEnd o.g0 }) (a :: r) = a :: r :=
      modLast_id _ _ (fun x _ => by simp [hK.mul_eq, ho1])
    simp only [hid]
    rw [InvFrom_append]
    refine ⟨by simpa [Inv, hsegs] using hs, ?_⟩
    have := InvFrom_shift_local hK (lastG s.g0 (a :: r)) (lastT 0 (a :: r)) o.g0 0 o.segs ho
    simpa [ho1, hK.mul_eq] using this

/-- `concat_global` preserves the invariant when the appended spline starts where the first one ends
    (or the left operand is empty). -/
theorem inv_concatGlobal {s o : Spline τ G W} (hs : Inv C s) (ho : Inv C o)
    (h : s.segs = [] ∨ o.g0 = endG s) : Inv C (concatGlobal s o) := by
  unfold concatGlobal Inv
  rw [tMax_eq]
  cases hsegs : s.segs with
  | nil =>
    simp only [List.nil_append, lastT]
    have := InvFrom_shift_global (C := C) 0 o.g0 0 o.segs ho
    simpa using this
  | cons a r =>
    have ho1 : o.g0 = lastG s.g0 (a :: r) := by
      rcases h with h | h
      · rw [hsegs] at h; cases h
      · rw [h, endG_eq, hsegs]
    have hid := modLast_setEnd s.g0 a r o.g0 ho1
    simp only [hid]
    rw [InvFrom_append]
    refine ⟨by simpa [Inv, hsegs] using hs, ?_⟩
    have := InvFrom_shift_global (C := C) (lastT 0 (a :: r)) o.g0 0 o.segs ho
    simpa [ho1] using this

/-! ### any history of constructors and concatenations -/

/-- splines reachable by the constructors, `+=`/`concat_local` and `concat_global` (appended operand in
    the frame the operation expects) -/
inductive Reachable (C : Ker τ G W) : Spline τ G W → Prop
  | empty (ga : G) : Reachable C (SplineSM.empty ga)
  | ctor (T : τ) (hT : 0 < T) (V : List W) (ga : G) : Reachable C (SplineSM.ctor C T V ga)
  | ctorVs (T : τ) (hT : 0 < T) (V : List W) (ga : G) : Reachable C (SplineSM.ctorVs C T V ga)
  | cv (v : W) (T : τ) (ga : G) : Reachable C (constantVelocity C v T ga)
  | cvGoal (gb : G) (T : τ) (ga : G) : Reachable C (constantVelocityGoal C gb T ga)
  | fixedCubic (gb : G) (va vb : W) (T : τ) (hT : 0 < T) (ga : G) : Reachable C (SplineSM.fixedCubic C gb va vb T ga)
  | concatLocal {s o : Spline τ G W} : Reachable C s → Reachable C o → (s.segs = [] ∨ o.g0 = 1) →
      Reachable C (SplineSM.concatLocal C s o)
  | concatGlobal {s o : Spline τ G W} : Reachable C s → Reachable C o → (s.segs = [] ∨ o.g0 = endG s) →
      Reachable C (SplineSM.concatGlobal s o)

theorem reachable_inv' (hK : GroupKer C) {s : Spline τ G W} (h : Reachable C s) : Inv C s := by
  induction h with
  | empty ga => exact inv_empty ga
  | ctor T hT V ga => exact inv_ctor hK hT V ga
  | ctorVs T hT V ga => exact inv_ctorVs hK hT V ga
  | cv v T ga => exact inv_constantVelocity hK v T ga
  | cvGoal gb T ga => exact inv_constantVelocityGoal hK gb T ga
  | fixedCubic gb va vb T hT ga => exact inv_fixedCubic hK gb va vb hT ga
  | concatLocal _ _ h ih1 ih2 => exact inv_concatLocal hK ih1 ih2 h
  | concatGlobal _ _ h ih1 ih2 => exact inv_concatGlobal ih1 ih2 h

end C12
