/-
  C09Mono.lean — over ℝ: the accepted iterates of `minimize` have non-increasing cost provided the
  step solver satisfies (the consequences of) the C10 specification, for every strategy that only
  takes steps with `rho > 0` and keeps `Δ > 0`; Ceres and Disney are such strategies.
-/
import SmoothProofs.Real
import SmoothProofs.C09Loop
import Mathlib.Tactic.Positivity
import Mathlib.Tactic.NormNum
import Mathlib.Tactic.FieldSimp
import Mathlib.Algebra.Order.Field.Basic

open Scalar

namespace C09Mono

open Optim C09Loop

variable {X σ : Type}

/-! ### hypotheses -/

/-- what the loop needs from a trust-region strategy -/
structure StratOK (ops : StrategyOps σ ℝ) (Inv : σ → Prop) : Prop where
  delta_pos : ∀ s, Inv s → 0 < ops.getDelta s
  preserved : ∀ s rho, Inv s → Inv (ops.update s rho).1
  take_pos : ∀ s rho, (ops.update s rho).2 = true → rho.gt (nat 0) = true

/-- what the loop needs from the residual function and the step solver: the observables are norms and the
    step has the properties C10 proves for the solution of the regularised normal equations
    (`C10.descent`, `C10.pred_zero_iff_dx_zero` with `x ⊕ 0 = x`); differentiation leaves the arguments
    unchanged. -/
structure StepOK (P : Problem X ℝ) : Prop where
  cost_nonneg : ∀ x, 0 ≤ P.cost x
  lin_nonneg : ∀ x Δ, 0 ≤ (P.step x Δ).linn
  descent : ∀ x Δ, 0 < Δ → (P.step x Δ).linn ≤ P.cost x
  no_reduction : ∀ x Δ, 0 < Δ → P.cost x ≤ (P.step x Δ).linn → (P.step x Δ).xp = x
  restore : ∀ x Δ, (P.step x Δ).xafter = x

/-! ### real-number facts about the reductions -/

theorem isZero_iff (a : ℝ) : IsZero a ↔ a = 0 := by
  unfold IsZero
  simp only [Nat.cast_zero]
  constructor
  · intro h; exact le_antisymm h.1 h.2
  · intro h; subst h; exact ⟨le_refl _, le_refl _⟩

theorem sq_real (x : ℝ) : Optim.sq x = x * x := by
  unfold Optim.sq
  simp

/-- `pred_red ≤ 0` with `r_n > 0` means the linearised residual did not decrease -/
theorem lin_ge_of_pred_le {o : Obs ℝ} (hr : 0 < o.rn) (hl : 0 ≤ o.linn) (h : predRed o ≤ 0) : o.rn ≤ o.linn := by
  unfold predRed at h
  rw [sq_real] at h
  simp only [Nat.cast_one] at h
  have h1 : 1 ≤ o.linn / o.rn * (o.linn / o.rn) := by linarith
  have h2 : 0 ≤ o.linn / o.rn := div_nonneg hl hr.le
  have h3 : 1 ≤ o.linn / o.rn := by
    by_contra hc
    have hc' : o.linn / o.rn < 1 := lt_of_not_ge hc
    have : o.linn / o.rn * (o.linn / o.rn) < 1 := by nlinarith
    linarith
  exact (one_le_div hr).1 h3

/-- `actu_red > 0` means the cost decreased -/
theorem cost_lt_of_actu_pos {o : Obs ℝ} (hr : 0 < o.rn) (hf : 0 ≤ o.fxpn) (h : 0 < actuRed o) : o.fxpn < o.rn := by
  unfold actuRed at h
  rw [sq_real] at h
  simp only [Nat.cast_one] at h
  have h2 : 0 ≤ o.fxpn / o.rn := div_nonneg hf hr.le
  have h3 : o.fxpn / o.rn < 1 := by
    by_contra hc
    have hc' : 1 ≤ o.fxpn / o.rn := le_of_not_gt hc
    have : 1 ≤ o.fxpn / o.rn * (o.fxpn / o.rn) := by nlinarith
    linarith
  exact (div_lt_one hr).1 h3

/-- `rho > 0` with `pred_red > 0` and `r_n ≠ 0` gives `actu_red > 0` -/
theorem actu_pos_of_rho_pos {o : Obs ℝ} (hr : o.rn ≠ 0) (hp : 0 < predRed o) (h : (rhoOf o).gt (nat 0) = true) :
    0 < actuRed o := by
  unfold rhoOf at h
  rw [if_neg (by rw [isZero_iff]; exact hr)] at h
  unfold quot at h
  rw [if_neg (by rw [isZero_iff]; exact ne_of_gt hp)] at h
  simp only [Rho.gt, Nat.cast_zero, decide_eq_true_eq] at h
  have := (div_pos_iff_of_pos_right hp).1 h
  exact this

/-! ### one iteration does not increase the cost -/

theorem accepted_step_cost_le {P : Problem X ℝ} {ops : StrategyOps σ ℝ} {Inv : σ → Prop}
    (hS : StratOK ops Inv) (hP : StepOK P) (st : σ) (hinv : Inv st) (x : X)
    (hacc : acceptRule (obsOf P x (P.step x (ops.getDelta st)))
      (ops.update st (rhoOf (obsOf P x (P.step x (ops.getDelta st))))).2 = true) :
    P.cost (P.step x (ops.getDelta st)).xp ≤ P.cost x := by
  have hΔ := hS.delta_pos st hinv
  set so := P.step x (ops.getDelta st) with hso
  set o := obsOf P x so with ho
  have horn : o.rn = P.cost x := rfl
  have holin : o.linn = so.linn := rfl
  have hofx : o.fxpn = P.cost so.xp := rfl
  by_cases hr0 : P.cost x = 0
  · -- zero residual: the step is zero
    have : so.xp = x := hP.no_reduction x _ hΔ (by rw [hr0]; exact hP.lin_nonneg x _)
    rw [this]
  · have hrpos : 0 < o.rn := by
      rw [horn]; exact lt_of_le_of_ne (hP.cost_nonneg x) (Ne.symm hr0)
    by_cases hpred : predRed o ≤ 0
    · -- no predicted reduction: by the C10 specification the step is zero
      have hge := lin_ge_of_pred_le hrpos (by rw [holin]; exact hP.lin_nonneg x _) hpred
      have : so.xp = x := hP.no_reduction x _ hΔ (by rw [← horn, ← holin]; exact hge)
      rw [this]
    · -- the strategy took the step: rho > 0, hence actual reduction > 0
      have hpp : 0 < predRed o := lt_of_not_ge hpred
      unfold acceptRule at hacc
      have hz : decide (IsZero o.rn) = false := by
        simp only [decide_eq_false_iff_not, isZero_iff]; exact ne_of_gt hrpos
      have hq : decide (predRed o ≤ nat 0) = false := by
        simp only [decide_eq_false_iff_not, Nat.cast_zero]; exact hpred
      rw [hz, hq] at hacc
      simp only [Bool.false_or] at hacc
      have hrho := hS.take_pos st _ hacc
      have hact := actu_pos_of_rho_pos (ne_of_gt hrpos) hpp hrho
      have := cost_lt_of_actu_pos hrpos (by rw [hofx]; exact hP.cost_nonneg _) hact
      rw [hofx, horn] at this
      exact this.le

/-! ### loop invariant -/

/-- the current arguments are the newest callback point, the log is monotone (newest first, so every
    newer point costs at most what every older one does) and still contains the start -/
structure Good (P : Problem X ℝ) (Inv : σ → Prop) (x0 : X) (s : State X σ) : Prop where
  inv : Inv s.strat
  head : s.log.head? = some s.x
  mono : s.log.Pairwise (fun a b => P.cost a ≤ P.cost b)
  start : s.log.getLast? = some x0

theorem good_init (P : Problem X ℝ) {Inv : σ → Prop} (x0 : X) (st : σ) (h : Inv st) :
    Good P Inv x0 (initState x0 st) :=
  ⟨h, rfl, List.pairwise_singleton _ _, rfl⟩

theorem good_cost_le {P : Problem X ℝ} {Inv : σ → Prop} {x0 : X} {s : State X σ} (h : Good P Inv x0 s) :
    ∀ y ∈ s.log, P.cost s.x ≤ P.cost y := by
  intro y hy
  have hh := h.head
  cases hl : s.log with
  | nil => rw [hl] at hy; cases hy
  | cons a t =>
    rw [hl] at hh hy
    simp only [List.head?_cons, Option.some.injEq] at hh
    have hm := h.mono
    rw [hl] at hm
    rcases List.mem_cons.1 hy with h1 | h1
    · rw [h1, hh]
    · rw [← hh]; exact (List.pairwise_cons.1 hm).1 y h1

theorem good_body {P : Problem X ℝ} {ops : StrategyOps σ ℝ} {Inv : σ → Prop} (hS : StratOK ops Inv)
    (hP : StepOK P) (opts : Opts ℝ) {x0 : X} {s : State X σ} (h : Good P Inv x0 s) :
    Good P Inv x0 (body P ops opts s) := by
  unfold body
  dsimp only
  set so := P.step s.x (ops.getDelta s.strat) with hso
  set o := obsOf P s.x so with ho
  have hst := advance_strat ops opts s o so.xp so.xafter
  cases hacc : acceptRule o (ops.update s.strat (rhoOf o)).2
  · obtain ⟨hx, hlog, _⟩ := advance_of_reject ops opts s o so.xp so.xafter hacc
    refine ⟨?_, ?_, ?_, ?_⟩
    · rw [hst]; exact hS.preserved _ _ h.inv
    · rw [hx, hlog, hP.restore]; exact h.head
    · rw [hlog]; exact h.mono
    · rw [hlog]; exact h.start
  · obtain ⟨hx, hlog⟩ := advance_of_accept ops opts s o so.xp so.xafter hacc
    have hle : P.cost so.xp ≤ P.cost s.x := accepted_step_cost_le hS hP s.strat h.inv s.x hacc
    refine ⟨?_, ?_, ?_, ?_⟩
    · rw [hst]; exact hS.preserved _ _ h.inv
    · rw [hx, hlog]; rfl
    · rw [hlog]
      refine List.pairwise_cons.2 ⟨?_, h.mono⟩
      intro y hy
      exact le_trans hle (good_cost_le h y hy)
    · rw [hlog]
      have := h.start
      cases hl : s.log with
      | nil => rw [hl] at this; cases this
      | cons a t => rw [hl] at this; rw [List.getLast?_cons_cons]; exact this

theorem good_loop {P : Problem X ℝ} {ops : StrategyOps σ ℝ} {Inv : σ → Prop} (hS : StratOK ops Inv)
    (hP : StepOK P) (opts : Opts ℝ) {x0 : X} :
    ∀ (k : Nat) (s : State X σ), Good P Inv x0 s → Good P Inv x0 (loop P ops opts k s)
  | 0, _, h => h
  | k + 1, s, h => by
    unfold loop
    split_ifs
    · exact good_loop hS hP opts k _ (good_body hS hP opts h)
    · exact h

/-! ### the built-in strategies -/

/-- invariant of `CeresStrategy` / `DisneyStrategy` objects -/
def StratInv (s : Strat ℝ) : Prop := 0 < s.delta ∧ 0 < s.reduce

theorem ceresDiv_pos (rho : Rho ℝ) : 0 < ceresDiv rho := by
  have h3 : (0:ℝ) < ((1:ℕ):ℝ) / ((3:ℕ):ℝ) := by positivity
  unfold ceresDiv
  cases rho with
  | fin x =>
    simp only [Scalar.nat_real]
    unfold Scalar.max
    split_ifs with h
    · exact lt_trans h3 h
    · exact h3
  | pinf => exact h3
  | ninf => exact h3
  | nan => exact h3

theorem gt_zero_of_gt {rho : Rho ℝ} {c : ℝ} (hc : 0 ≤ c) (h : rho.gt c = true) : rho.gt (nat 0) = true := by
  cases rho with
  | fin x =>
    simp only [Rho.gt, decide_eq_true_eq, Nat.cast_zero] at h ⊢
    exact lt_of_le_of_lt hc h
  | pinf => rfl
  | ninf => simp [Rho.gt] at h
  | nan => simp [Rho.gt] at h

theorem builtin_ok : StratOK (builtinOps (α := ℝ)) StratInv := by
  refine ⟨fun s h => h.1, ?_, ?_⟩
  · intro s rho h
    obtain ⟨hd, hr⟩ := h
    unfold builtinOps Strat.stepAndUpdate StratInv
    dsimp only
    cases s.kind
    · dsimp only
      split_ifs
      · exact ⟨div_pos hd (ceresDiv_pos rho), by simp⟩
      · refine ⟨div_pos hd hr, ?_⟩
        simp only [Scalar.nat_real]
        positivity
    · dsimp only
      split_ifs
      · simp only [Scalar.nat_real]
        exact ⟨by positivity, hr⟩
      · refine ⟨?_, hr⟩
        simp only [Scalar.nat_real]
        positivity
  · intro s rho h
    unfold builtinOps Strat.stepAndUpdate at h
    dsimp only at h
    cases hk : s.kind
    · rw [hk] at h
      dsimp only at h
      split_ifs at h with hg
      exact gt_zero_of_gt (by simp only [Scalar.nat_real]; positivity) hg
    · rw [hk] at h
      dsimp only at h
      split_ifs at h with hg
      exact hg

theorem stratInv_ceresInit : StratInv (Strat.ceresInit (α := ℝ)) := by
  unfold StratInv Strat.ceresInit
  simp only [Scalar.nat_real]
  constructor <;> positivity

theorem stratInv_disneyInit : StratInv (Strat.disneyInit (α := ℝ)) := by
  unfold StratInv Strat.disneyInit
  simp only [Scalar.nat_real]
  constructor <;> positivity

/-- the strategy state after an arbitrary sequence of `step_and_update(rho)` calls -/
noncomputable def runStrat (s : Strat ℝ) (rhos : List (Rho ℝ)) : Strat ℝ :=
  rhos.foldl (fun st r => (st.stepAndUpdate r).1) s

theorem stratInv_run (s : Strat ℝ) (h : StratInv s) : ∀ rhos, StratInv (runStrat s rhos) := by
  intro rhos
  induction rhos generalizing s with
  | nil => exact h
  | cons r t ih =>
    unfold runStrat
    rw [List.foldl_cons]
    exact ih _ (builtin_ok.preserved s r h)

end C09Mono
