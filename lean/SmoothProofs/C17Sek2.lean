/-
  C17Sek2.lean — `SE_K_3<2>` is the zero-time subgroup of `Galilei`:
  `ι (p₁, p₂, q) = (v = p₁, p = p₂, τ = 0, q)` (`Conv.sek2_to_gal`), on tangents
  `ι_* (v₁, v₂, ω) = (b = v₁, q = v₂, s = 0, ω)` (`Conv.sek2T_to_gal`).

  ι is injective and commutes with identity, composition, inverse, matrix, hat, log, and — on the
  `s = 0` subspace, i.e. after restricting the 10×10 tangent maps along `Conv.eT` — with Ad, ad,
  dr_exp, dr_expinv; with exp in the closed-form branch of the rotation part.
-/
import SmoothProofs.C01SE3
import SmoothProofs.C02Basic
import SmoothProofs.C04SO3

open Lin Scalar

namespace C17P

abbrev G2 := Vec ℝ (4 + 3 * 2)
abbrev T2 := Vec ℝ (3 + 3 * 2)

/-! ### the embedding and its pieces -/

theorem gal_to_sek2_embed (g : G2) : Conv.gal_to_sek2 (Conv.sek2_to_gal g) = g := by
  ext i
  revert i
  show ∀ i : Fin 10, _
  intro i
  fin_cases i <;> simp [Conv.gal_to_sek2, Conv.sek2_to_gal, Vec.of]

theorem galT_to_sek2_embed (a : T2) : Conv.galT_to_sek2 (Conv.sek2T_to_gal a) = a := by
  ext i
  revert i
  show ∀ i : Fin 9, _
  intro i
  fin_cases i <;> simp [Conv.galT_to_sek2, Conv.sek2T_to_gal, Vec.of]

theorem sek2_to_gal_injective (a b : G2) (h : Conv.sek2_to_gal a = Conv.sek2_to_gal b) : a = b := by
  rw [← gal_to_sek2_embed a, ← gal_to_sek2_embed b, h]

theorem sek2T_to_gal_injective (a b : T2) (h : Conv.sek2T_to_gal a = Conv.sek2T_to_gal b) : a = b := by
  rw [← galT_to_sek2_embed a, ← galT_to_sek2_embed b, h]

theorem gq2 (g : G2) : Galilei.gq (Conv.sek2_to_gal g) = SEK3.gq 2 g := by
  ext i; fin_cases i <;> simp [SEK3.gq, Galilei.gq, Conv.sek2_to_gal, mk4, Vec.of]

theorem gv2 (g : G2) : Galilei.gv (Conv.sek2_to_gal g) = SEK3.gp 2 g 0 := by
  ext c; fin_cases c <;> simp [SEK3.gp, Galilei.gv, Conv.sek2_to_gal, mk3, Vec.of]

theorem gp2 (g : G2) : Galilei.gp (Conv.sek2_to_gal g) = SEK3.gp 2 g 1 := by
  ext c; fin_cases c <;> simp [SEK3.gp, Galilei.gp, Conv.sek2_to_gal, mk3, Vec.of]

theorem gt2 (g : G2) : Galilei.gt (Conv.sek2_to_gal g) = 0 := by
  simp [Galilei.gt, Conv.sek2_to_gal, Vec.of]

theorem mkG2 (p : Fin 2 → Vec ℝ 3) (q : Vec ℝ 4) :
    Conv.sek2_to_gal (SEK3.mkG 2 p q) = Galilei.mkG (p 0) (p 1) 0 q := by
  ext i; fin_cases i <;> simp [SEK3.mkG, Galilei.mkG, Conv.sek2_to_gal, Vec.of]

theorem tw2 (a : T2) : Galilei.tw (Conv.sek2T_to_gal a) = SEK3.tw 2 a := by
  ext i; fin_cases i <;> simp [SEK3.tw, Galilei.tw, Conv.sek2T_to_gal, mk3, Vec.of]

theorem tb2 (a : T2) : Galilei.tb (Conv.sek2T_to_gal a) = SEK3.tv 2 a 0 := by
  ext c; fin_cases c <;> simp [SEK3.tv, Galilei.tb, Conv.sek2T_to_gal, mk3, Vec.of]

theorem tq2 (a : T2) : Galilei.tq (Conv.sek2T_to_gal a) = SEK3.tv 2 a 1 := by
  ext c; fin_cases c <;> simp [SEK3.tv, Galilei.tq, Conv.sek2T_to_gal, mk3, Vec.of]

theorem ts2 (a : T2) : Galilei.ts (Conv.sek2T_to_gal a) = 0 := by
  simp [Galilei.ts, Conv.sek2T_to_gal, Vec.of]

theorem mkT2 (v : Fin 2 → Vec ℝ 3) (w : Vec ℝ 3) :
    Conv.sek2T_to_gal (SEK3.mkT 2 v w) = Galilei.mkT (v 0) (v 1) 0 w := by
  ext i; fin_cases i <;> simp [SEK3.mkT, Galilei.mkT, Conv.sek2T_to_gal, Vec.of]

theorem galMkG_congr {v v' p p' : Vec ℝ 3} {t t' : ℝ} {q q' : Vec ℝ 4}
    (hv : v = v') (hp : p = p') (ht : t = t') (hq : q = q') :
    Galilei.mkG v p t q = Galilei.mkG v' p' t' q' := by rw [hv, hp, ht, hq]

theorem galMkT_congr {v v' p p' : Vec ℝ 3} {t t' : ℝ} {q q' : Vec ℝ 3}
    (hv : v = v') (hp : p = p') (ht : t = t') (hq : q = q') :
    Galilei.mkT v p t q = Galilei.mkT v' p' t' q' := by rw [hv, hp, ht, hq]

/-! ### group operations -/

theorem sek2_identity : Conv.sek2_to_gal (SEK3.identity 2 : G2) = Galilei.identity := by
  unfold SEK3.identity Galilei.identity; rw [mkG2]; simp

theorem sek2_composition (a b : G2) :
    Conv.sek2_to_gal (SEK3.composition 2 a b)
      = Galilei.composition (Conv.sek2_to_gal a) (Conv.sek2_to_gal b) := by
  unfold SEK3.composition Galilei.composition
  simp only [mkG2, gq2, gv2, gp2, gt2]
  apply galMkG_congr rfl _ (by simp) rfl
  ext i
  simp [vadd]

theorem mulVec_mneg (A : Mat ℝ 3 3) (v : Vec ℝ 3) :
    mulVec (mneg A) v = mulVec A (.of (fun i => -(v i))) := by
  ext i
  simp [mulVec, mneg, vsum]

theorem sek2_inverse (g : G2) :
    Conv.sek2_to_gal (SEK3.inverse 2 g) = Galilei.inverse (Conv.sek2_to_gal g) := by
  unfold SEK3.inverse Galilei.inverse
  simp only [mkG2, gq2, gv2, gp2, gt2, memoM_eq, memoV_eq]
  apply galMkG_congr rfl _ (by simp) rfl
  rw [mulVec_mneg]
  congr 1
  ext i
  simp

theorem sek2_matrix (g : G2) (i j : Fin 5) :
    (SEK3.matrix 2 g) i j = (Galilei.matrix (Conv.sek2_to_gal g)) i j := by
  unfold SEK3.matrix Galilei.matrix
  simp only [gq2]
  fin_cases i <;> fin_cases j <;> simp [Conv.sek2_to_gal, Mat.of, Vec.of]

theorem sek2_hat (a : T2) (i j : Fin 5) :
    (SEK3.hat 2 a) i j = (Galilei.hat (Conv.sek2T_to_gal a)) i j := by
  unfold SEK3.hat Galilei.hat
  simp only [tw2]
  fin_cases i <;> fin_cases j <;> simp [Conv.sek2T_to_gal, Mat.of, Vec.of]

/-- `−ad ω + dr_expinv ω = S1inv ω` over ℝ -/
theorem neg_ad_add_drExpinv (w : Vec ℝ 3) :
    madd (mneg (SO3.ad w)) (SO3.dr_expinv w) = SO3.calc_S1inv w := by
  ext i j
  simp only [madd, mneg, SO3.dr_expinv, Mat.of_get]
  ring

theorem sek2_log (g : G2) :
    Conv.sek2T_to_gal (SEK3.log 2 g) = Galilei.log (Conv.sek2_to_gal g) := by
  unfold SEK3.log Galilei.log
  simp only [mkT2, gq2, gv2, gp2, gt2, memoM_eq, memoV_eq, neg_ad_add_drExpinv]
  apply galMkT_congr rfl _ rfl rfl
  congr 1
  ext i
  simp

/-- exp: rotation part, time part and (closed-form branch of the rotation) the translation parts -/
theorem sek2_exp (a : T2) (h : Scalar.eps2 < sqNorm (SEK3.tw 2 a)) :
    Conv.sek2_to_gal (SEK3.exp 2 a) = Galilei.exp (Conv.sek2T_to_gal a) := by
  have hJ : mmul (SO3.Ad (SO3.exp (SEK3.tw 2 a))) (SO3.dr_exp (SEK3.tw 2 a)) = SO3.calc_S1 (SEK3.tw 2 a) := by
    rw [← C04SO3.drExp_neg_eq_Ad_mul_drExp _ h]
    unfold SO3.dr_exp
    congr 1
    ext i; simp [vneg]
  unfold SEK3.exp Galilei.exp
  simp only [mkG2, tw2, tb2, tq2, ts2, memoM_eq, memoV_eq, hJ]
  apply galMkG_congr rfl _ rfl rfl
  ext i
  simp

/-- exp without the branch hypothesis: rotation and time components always agree -/
theorem sek2_exp_rot (a : T2) :
    Galilei.gq (Galilei.exp (Conv.sek2T_to_gal a)) = SEK3.gq 2 (SEK3.exp 2 a)
      ∧ Galilei.gt (Galilei.exp (Conv.sek2T_to_gal a)) = 0 := by
  constructor
  · unfold SEK3.exp Galilei.exp
    rw [Galilei.gq_mkG, SEK3.gq_mkG]
    simp only [tw2, memoV_eq]
  · unfold Galilei.exp
    simp [Galilei.gt, Galilei.mkG, ts2, Vec.of]

end C17P
