/-
  C12Base.lean — the Spline state machine (SmoothModel/Spline.lean) over a linearly ordered FIELD of
  times and an arbitrary GROUP of values: instances, the invariant `Inv`, list lemmas.
  The segment curve `C.cev` stays abstract; the only fact used is `c_V(0) = 1` (`GroupKer.c_zero`).
-/
import SmoothModel.Spline
import Mathlib.Algebra.Order.Field.Basic
import Mathlib.Algebra.Group.Basic
import Mathlib.Tactic.Ring
import Mathlib.Tactic.Linarith
import Mathlib.Tactic.FieldSimp

set_option linter.unusedSectionVars false

open SplineSM SplineSM.TimeOps

namespace C12

variable {τ : Type} [Field τ] [LinearOrder τ] [IsStrictOrderedRing τ]

/-- the time operations of an ordered field -/
@[reducible] def fieldTime : TimeOps τ where
  zero := 0
  one := 1
  ofNat := fun n => (n : τ)
  decLt := fun _ _ => inferInstance
  decLe := fun _ _ => inferInstance

attribute [local instance] fieldTime

omit [IsStrictOrderedRing τ] in
@[simp] theorem tzero : (TimeOps.zero : τ) = 0 := rfl
omit [IsStrictOrderedRing τ] in
@[simp] theorem tone : (TimeOps.one : τ) = 1 := rfl
omit [IsStrictOrderedRing τ] in
@[simp] theorem tofNat (n : Nat) : (TimeOps.ofNat n : τ) = (n : τ) := rfl

omit [IsStrictOrderedRing τ] in
theorem clamp01_id {x : τ} (h0 : 0 ≤ x) (h1 : x ≤ 1) : clamp01 x = x := by
  unfold clamp01
  simp only [tzero, tone]
  rw [if_neg (not_lt.2 h0), if_neg (not_lt.2 h1)]

omit [IsStrictOrderedRing τ] in
theorem tmax_zero {x : τ} (h : 0 ≤ x) : tmax x TimeOps.zero = x := by
  unfold tmax; simp only [tzero]; rw [if_neg (not_lt.2 h)]

omit [IsStrictOrderedRing τ] in
theorem tmin_left {x y : τ} (h : x ≤ y) : tmin x y = x := by
  unfold tmin; rw [if_neg (not_lt.2 h)]

variable {G W : Type} [Group G]

/-- the kernel's group operations are those of the group `G`, and every segment curve starts at 1 -/
structure GroupKer (C : Ker τ G W) : Prop where
  one_eq : C.one = 1
  mul_eq : ∀ a b, C.mul a b = a * b
  inv_eq : ∀ a, C.inv a = a⁻¹
  c_zero : ∀ V, C.c V 0 = 1

/-- per-segment invariant: crop window inside [0,1] and end point consistent with the start point -/
def SegOK (C : Ker τ G W) (gPrev : G) (sg : Seg τ G W) : Prop :=
  0 ≤ sg.T0 ∧ 0 < sg.Del ∧ sg.T0 + sg.Del ≤ 1 ∧
    sg.gEnd = gPrev * (C.c sg.V sg.T0)⁻¹ * C.c sg.V (sg.T0 + sg.Del)

def InvFrom (C : Ker τ G W) : G → τ → List (Seg τ G W) → Prop
  | _, _, [] => True
  | g, tp, sg :: rest => tp < sg.tEnd ∧ SegOK C g sg ∧ InvFrom C sg.gEnd sg.tEnd rest

/-- the representation invariant of a spline -/
def Inv (C : Ker τ G W) (s : Spline τ G W) : Prop := InvFrom C s.g0 0 s.segs

def lastT : τ → List (Seg τ G W) → τ
  | tp, [] => tp
  | _, sg :: r => lastT sg.tEnd r

def lastG : G → List (Seg τ G W) → G
  | g, [] => g
  | _, sg :: r => lastG sg.gEnd r

omit [IsStrictOrderedRing τ] [Group G] in
theorem getLast_tEnd (sg : Seg τ G W) (r : List (Seg τ G W)) :
    (match (sg :: r).getLast? with | none => (0 : τ) | some x => x.tEnd) = lastT sg.tEnd r := by
  induction r generalizing sg with
  | nil => simp [lastT]
  | cons a r ih => rw [List.getLast?_cons_cons]; exact ih a

omit [IsStrictOrderedRing τ] [Group G] in
theorem getLast_gEnd (g : G) (sg : Seg τ G W) (r : List (Seg τ G W)) :
    (match (sg :: r).getLast? with | none => g | some x => x.gEnd) = lastG sg.gEnd r := by
  induction r generalizing sg with
  | nil => simp [lastG]
  | cons a r ih => rw [List.getLast?_cons_cons]; exact ih a

omit [IsStrictOrderedRing τ] [Group G] in
theorem tMax_eq (s : Spline τ G W) : tMax s = lastT 0 s.segs := by
  unfold tMax
  cases h : s.segs with
  | nil => simp [lastT]
  | cons sg r => exact getLast_tEnd sg r

omit [IsStrictOrderedRing τ] [Group G] in
theorem endG_eq (s : Spline τ G W) : endG s = lastG s.g0 s.segs := by
  unfold endG
  cases h : s.segs with
  | nil => simp [lastG]
  | cons sg r => exact getLast_gEnd s.g0 sg r

omit [IsStrictOrderedRing τ] [Group G] in
theorem lastT_append (tp : τ) (l1 l2 : List (Seg τ G W)) : lastT tp (l1 ++ l2) = lastT (lastT tp l1) l2 := by
  induction l1 generalizing tp with
  | nil => rfl
  | cons a r ih => exact ih a.tEnd

omit [IsStrictOrderedRing τ] [Group G] [Field τ] [LinearOrder τ] in
theorem lastG_append (g : G) (l1 l2 : List (Seg τ G W)) : lastG g (l1 ++ l2) = lastG (lastG g l1) l2 := by
  induction l1 generalizing g with
  | nil => rfl
  | cons a r ih => exact ih a.gEnd

theorem InvFrom_append (C : Ker τ G W) (g : G) (tp : τ) (l1 l2 : List (Seg τ G W)) :
    InvFrom C g tp (l1 ++ l2) ↔ InvFrom C g tp l1 ∧ InvFrom C (lastG g l1) (lastT tp l1) l2 := by
  induction l1 generalizing g tp with
  | nil => simp [InvFrom, lastG, lastT]
  | cons a r ih =>
    simp only [List.cons_append, InvFrom, lastG, lastT, ih]
    tauto

theorem InvFrom_le_lastT (C : Ker τ G W) (g : G) (tp : τ) (l : List (Seg τ G W)) (h : InvFrom C g tp l) :
    tp ≤ lastT tp l := by
  induction l generalizing g tp with
  | nil => exact le_refl _
  | cons a r ih => exact le_trans (le_of_lt h.1) (ih _ _ h.2.2)

theorem InvFrom_lt_lastT (C : Ker τ G W) (g : G) (tp : τ) (a : Seg τ G W) (l : List (Seg τ G W))
    (h : InvFrom C g tp (a :: l)) : tp < lastT tp (a :: l) :=
  lt_of_lt_of_le h.1 (InvFrom_le_lastT C _ _ _ h.2.2)

end C12
