/-
  RoundAssoc.lean — triple products `(g₁g₂)g₃` and `g₁(g₂g₃)` of SO3 / SE3 in the standard model of
  floating-point arithmetic: BOTH compositions are performed in rounded arithmetic (the intermediate
  result is the rounded one, not exactly unit), so the composition bound for exact inputs is not enough;
  the running-error invariant `Appr` is propagated through the second product.
-/
import SmoothProofs.RoundGal

set_option linter.unusedSimpArgs false
set_option linter.unusedVariables false
set_option linter.unusedSectionVars false

open RF Rounding Lin Scalar

noncomputable section
namespace Round

/-- quaternion product on majorants (all signs `+`) -/
def qabsM (A B : Vec ℝ 4) : Vec ℝ 4 :=
  mk4 (A 3 * B 0 + A 0 * B 3 + A 1 * B 2 + A 2 * B 1)
      (A 3 * B 1 + A 1 * B 3 + A 2 * B 0 + A 0 * B 2)
      (A 3 * B 2 + A 2 * B 3 + A 0 * B 1 + A 1 * B 0)
      (A 3 * B 3 + A 0 * B 0 + A 1 * B 1 + A 2 * B 2)

/-- scaling by a sign -/
def sV (s : ℝ) (q : Vec ℝ 4) : Vec ℝ 4 := .of (fun i => s * q i)

theorem qmul_sV_left (s : ℝ) (a b : Vec ℝ 4) : SO3.qmul (sV s a) b = sV s (SO3.qmul a b) := by
  ext i; fin_cases i <;> simp [SO3.qmul, sV, mk4, Vec.of] <;> ring
theorem qmul_sV_right (s : ℝ) (a b : Vec ℝ 4) : SO3.qmul a (sV s b) = sV s (SO3.qmul a b) := by
  ext i; fin_cases i <;> simp [SO3.qmul, sV, mk4, Vec.of] <;> ring
theorem matrix_sV (s : ℝ) (hs : s = 1 ∨ s = -1) (q : Vec ℝ 4) : SO3.matrix (sV s q) = SO3.matrix q :=
  so3_matrix_sign s hs q

section
variable [Rounding]

/-- Eigen quaternion product of two APPROXIMATIONS: `j + k + 4` roundings -/
theorem qmul_appr_gen {j k : ℕ} (ah bh : Vec RF 4) (a A b B : Vec ℝ 4)
    (ha : ∀ i, Appr j (A i) (toReal (ah i)) (a i)) (hb : ∀ i, Appr k (B i) (toReal (bh i)) (b i)) (i : Fin 4) :
    Appr (j + k + 4) (qabsM A B i) (toReal ((SO3.qmul ah bh) i)) ((SO3.qmul a b) i) := by
  have a0 := ha 0; have a1 := ha 1; have a2 := ha 2; have a3 := ha 3
  have b0 := hb 0; have b1 := hb 1; have b2 := hb 2; have b3 := hb 3
  fin_cases i <;>
  · apply Appr.mono
    · simp only [SO3.qmul, mk4, Vec.of, toReal_add, toReal_mul, toReal_sub]
      appr
    · omega
    · simp [qabsM, mk4, Vec.of]

/-- `(a∘b)∘c`, both compositions rounded: coefficients within 10 roundings of `± (a·b)·c` -/
theorem so3_triple_left_appr (a b c : Vec ℝ 4) :
    ∃ s : ℝ, (s = 1 ∨ s = -1) ∧ ∀ i, Appr 10 (qabsM (qabs a b) (absV c) i)
      (toReal ((SO3.composition (SO3.composition (Vec.toRF a) (Vec.toRF b)) (Vec.toRF c)) i))
      ((sV s (SO3.qmul (SO3.qmul a b) c)) i) := by
  obtain ⟨s1, hs1, h1⟩ := canon_rf _ _ _ (qmul_appr a b)
  have h1' : ∀ i, Appr 5 (qabs a b i) (toReal ((SO3.composition (Vec.toRF a) (Vec.toRF b)) i))
      ((sV s1 (SO3.qmul a b)) i) := h1
  have hc : ∀ i, Appr 0 ((absV c) i) (toReal ((Vec.toRF c) i)) (c i) := fun i => by
    simpa [absV, Vec.of] using Appr.exact (c i)
  have h2 := qmul_appr_gen _ _ _ _ _ _ h1' hc
  obtain ⟨s2, hs2, h3⟩ := canon_rf _ _ _ h2
  refine ⟨s2 * s1, ?_, fun i => ?_⟩
  · rcases hs1 with rfl | rfl <;> rcases hs2 with rfl | rfl <;> norm_num
  · have e : (sV (s2 * s1) (SO3.qmul (SO3.qmul a b) c)) i = s2 * (SO3.qmul (sV s1 (SO3.qmul a b)) c) i := by
      rw [qmul_sV_left]; simp [sV, Vec.of]; ring
    rw [e]
    exact h3 i

/-- `a∘(b∘c)`, both compositions rounded: coefficients within 10 roundings of `± (a·b)·c` -/
theorem so3_triple_right_appr (a b c : Vec ℝ 4) :
    ∃ s : ℝ, (s = 1 ∨ s = -1) ∧ ∀ i, Appr 10 (qabsM (absV a) (qabs b c) i)
      (toReal ((SO3.composition (Vec.toRF a) (SO3.composition (Vec.toRF b) (Vec.toRF c))) i))
      ((sV s (SO3.qmul (SO3.qmul a b) c)) i) := by
  obtain ⟨s1, hs1, h1⟩ := canon_rf _ _ _ (qmul_appr b c)
  have h1' : ∀ i, Appr 5 (qabs b c i) (toReal ((SO3.composition (Vec.toRF b) (Vec.toRF c)) i))
      ((sV s1 (SO3.qmul b c)) i) := h1
  have ha : ∀ i, Appr 0 ((absV a) i) (toReal ((Vec.toRF a) i)) (a i) := fun i => by
    simpa [absV, Vec.of] using Appr.exact (a i)
  have h2 := qmul_appr_gen _ _ _ _ _ _ ha h1'
  obtain ⟨s2, hs2, h3⟩ := canon_rf _ _ _ h2
  refine ⟨s2 * s1, ?_, fun i => ?_⟩
  · rcases hs1 with rfl | rfl <;> rcases hs2 with rfl | rfl <;> norm_num
  · have e : (sV (s2 * s1) (SO3.qmul (SO3.qmul a b) c)) i = s2 * (SO3.qmul a (sV s1 (SO3.qmul b c))) i := by
      rw [qmul_sV_right, SO3.qmul_assoc]; simp [sV, Vec.of]; ring
    rw [e]
    refine Appr.mono (h3 i) (by omega) (le_refl _)

end

/-! ### majorants -/

theorem absV_le_nrm4 (c : Vec ℝ 4) (k : Fin 4) : absV c k ≤ nrm4 c := by
  simpa [absV, Vec.of] using abs_le_nrm4 c k

/-- `qabsM A B ≤ 2·α·β` when `0 ≤ A ≤ α` and `B` has Euclidean norm `≤ β` (`Σ B ≤ 2β`) -/
theorem qabsM_le (A B : Vec ℝ 4) (α β : ℝ) (hA0 : ∀ k, 0 ≤ A k) (hA : ∀ k, A k ≤ α) (hB0 : ∀ k, 0 ≤ B k)
    (hB : B 0 ^ 2 + B 1 ^ 2 + B 2 ^ 2 + B 3 ^ 2 ≤ β ^ 2) (hβ : 0 ≤ β) (i : Fin 4) : qabsM A B i ≤ 2 * α * β := by
  have hα : 0 ≤ α := (hA0 0).trans (hA 0)
  have hsum : B 0 + B 1 + B 2 + B 3 ≤ 2 * β := by
    have h4 : (B 0 + B 1 + B 2 + B 3) ^ 2 ≤ (2 * β) ^ 2 := by
      nlinarith [sq_nonneg (B 0 - B 1), sq_nonneg (B 0 - B 2), sq_nonneg (B 0 - B 3), sq_nonneg (B 1 - B 2),
        sq_nonneg (B 1 - B 3), sq_nonneg (B 2 - B 3)]
    have hs0 : 0 ≤ B 0 + B 1 + B 2 + B 3 := by have := hB0 0; have := hB0 1; have := hB0 2; have := hB0 3; linarith
    exact (pow_le_pow_iff_left₀ hs0 (by positivity) (by norm_num)).mp h4
  have b0 := hB0 0; have b1 := hB0 1; have b2 := hB0 2; have b3 := hB0 3
  have a0 := hA 0; have a1 := hA 1; have a2 := hA 2; have a3 := hA 3
  have key : ∀ p q r t : ℝ, p ≤ α → q ≤ α → r ≤ α → t ≤ α →
      p * B 0 + q * B 1 + r * B 2 + t * B 3 ≤ α * (B 0 + B 1 + B 2 + B 3) := by
    intro p q r t hp hq hr ht
    nlinarith [mul_nonneg (sub_nonneg.mpr hp) b0, mul_nonneg (sub_nonneg.mpr hq) b1,
      mul_nonneg (sub_nonneg.mpr hr) b2, mul_nonneg (sub_nonneg.mpr ht) b3]
  have hfin : α * (B 0 + B 1 + B 2 + B 3) ≤ 2 * α * β := by nlinarith
  fin_cases i <;> simp only [qabsM, mk4, Vec.of]
  · have := key (A 3) (A 2) (A 1) (A 0) a3 a2 a1 a0; linarith
  · have := key (A 2) (A 3) (A 0) (A 1) a2 a3 a0 a1; linarith
  · have := key (A 1) (A 0) (A 3) (A 2) a1 a0 a3 a2; linarith
  · have := key (A 0) (A 1) (A 2) (A 3) a0 a1 a2 a3; linarith

theorem qabsM_comm_le (A B : Vec ℝ 4) (α β : ℝ) (hB0 : ∀ k, 0 ≤ B k) (hB : ∀ k, B k ≤ α) (hA0 : ∀ k, 0 ≤ A k)
    (hA : A 0 ^ 2 + A 1 ^ 2 + A 2 ^ 2 + A 3 ^ 2 ≤ β ^ 2) (hβ : 0 ≤ β) (i : Fin 4) : qabsM A B i ≤ 2 * α * β := by
  have hα : 0 ≤ α := (hB0 0).trans (hB 0)
  have hsum : A 0 + A 1 + A 2 + A 3 ≤ 2 * β := by
    have h4 : (A 0 + A 1 + A 2 + A 3) ^ 2 ≤ (2 * β) ^ 2 := by
      nlinarith [sq_nonneg (A 0 - A 1), sq_nonneg (A 0 - A 2), sq_nonneg (A 0 - A 3), sq_nonneg (A 1 - A 2),
        sq_nonneg (A 1 - A 3), sq_nonneg (A 2 - A 3)]
    have hs0 : 0 ≤ A 0 + A 1 + A 2 + A 3 := by have := hA0 0; have := hA0 1; have := hA0 2; have := hA0 3; linarith
    exact (pow_le_pow_iff_left₀ hs0 (by positivity) (by norm_num)).mp h4
  have a0 := hA0 0; have a1 := hA0 1; have a2 := hA0 2; have a3 := hA0 3
  have b0 := hB 0; have b1 := hB 1; have b2 := hB 2; have b3 := hB 3
  have key : ∀ p q r t : ℝ, p ≤ α → q ≤ α → r ≤ α → t ≤ α →
      A 0 * p + A 1 * q + A 2 * r + A 3 * t ≤ α * (A 0 + A 1 + A 2 + A 3) := by
    intro p q r t hp hq hr ht
    nlinarith [mul_nonneg (sub_nonneg.mpr hp) a0, mul_nonneg (sub_nonneg.mpr hq) a1,
      mul_nonneg (sub_nonneg.mpr hr) a2, mul_nonneg (sub_nonneg.mpr ht) a3]
  have hfin : α * (A 0 + A 1 + A 2 + A 3) ≤ 2 * α * β := by nlinarith
  fin_cases i <;> simp only [qabsM, mk4, Vec.of]
  · have := key (B 3) (B 2) (B 1) (B 0) b3 b2 b1 b0; linarith
  · have := key (B 2) (B 3) (B 0) (B 1) b2 b3 b0 b1; linarith
  · have := key (B 1) (B 0) (B 3) (B 2) b1 b0 b3 b2; linarith
  · have := key (B 0) (B 1) (B 2) (B 3) b0 b1 b2 b3; linarith

theorem qabsM_nonneg (A B : Vec ℝ 4) (hA0 : ∀ k, 0 ≤ A k) (hB0 : ∀ k, 0 ≤ B k) (i : Fin 4) : 0 ≤ qabsM A B i := by
  have a0 := hA0 0; have a1 := hA0 1; have a2 := hA0 2; have a3 := hA0 3
  have b0 := hB0 0; have b1 := hB0 1; have b2 := hB0 2; have b3 := hB0 3
  fin_cases i <;> simp only [qabsM, mk4, Vec.of] <;> positivity

theorem absV_sq (c : Vec ℝ 4) : absV c 0 ^ 2 + absV c 1 ^ 2 + absV c 2 ^ 2 + absV c 3 ^ 2 = nrm4 c ^ 2 := by
  rw [nrm4_sq]; simp [absV, Vec.of, SO3.sqn]

/-! ## SE3 triple products: translation parts -/

section
variable [Rounding]

/-- majorant of the translation of `(a∘b)∘c` -/
def se3TripleLeftAbs (a b c : Vec ℝ 7) (i : Fin 3) : ℝ :=
  rowAbs (so3MatAbs (qabs (SE3.so3 a) (SE3.so3 b))) (SE3.r3 c) i
    + (rowAbs (so3MatAbs (absV (SE3.so3 a))) (SE3.r3 b) i + |SE3.r3 a i|)

/-- translation of `(a∘b)∘c`, both compositions rounded: `R(fl(q_a q_b))·t_c + fl(R(q_a)t_b + t_a)`, 19 roundings -/
theorem se3_triple_left_trans_appr (a b c : Vec ℝ 7) (i : Fin 3) :
    Appr 19 (se3TripleLeftAbs a b c i)
      (toReal ((SE3.r3 (SE3.composition (SE3.composition (Vec.toRF a) (Vec.toRF b)) (Vec.toRF c))) i))
      ((SE3.r3 (SE3.composition (SE3.composition a b) c)) i) := by
  rw [se3_comp_r3 (SE3.composition (Vec.toRF a) (Vec.toRF b)) (Vec.toRF c), se3_comp_so3 (Vec.toRF a) (Vec.toRF b),
    se3_comp_r3 (Vec.toRF a) (Vec.toRF b), se3_comp_r3 (SE3.composition a b) c, se3_comp_so3 a b, se3_comp_r3 a b,
    se3_so3_toRF, se3_so3_toRF, se3_r3_toRF, se3_r3_toRF, se3_r3_toRF]
  have ecan : SO3.matrix (SO3.composition (SE3.so3 a) (SE3.so3 b)) = SO3.matrix (SO3.qmul (SE3.so3 a) (SE3.so3 b)) :=
    SO3.matrix_canon _
  rw [ecan]
  obtain ⟨s1, hs1, h1⟩ := canon_rf _ _ _ (qmul_appr (SE3.so3 a) (SE3.so3 b))
  have h1' : ∀ l, Appr 5 (qabs (SE3.so3 a) (SE3.so3 b) l)
      (toReal ((SO3.composition (Vec.toRF (SE3.so3 a)) (Vec.toRF (SE3.so3 b))) l))
      ((sV s1 (SO3.qmul (SE3.so3 a) (SE3.so3 b))) l) := h1
  have hR := so3_matrix_appr (k := 5) _ _ _ h1'
  rw [matrix_sV s1 hs1] at hR
  have hv : ∀ l, Appr 0 ((absV (SE3.r3 c)) l) (toReal ((Vec.toRF (SE3.r3 c)) l)) (SE3.r3 c l) := fun l => by
    simpa [absV, Vec.of] using Appr.exact (SE3.r3 c l)
  have hm := mulVec3_appr _ _ _ _ _ _ hR hv i
  have hx := rot_trans_appr (SE3.so3 a) (SE3.r3 b) (SE3.r3 a) i
  have h := hm.add hx
  apply Appr.mono (j := Max.max (2 * 5 + 4 + 0 + 4) 9 + 1)
  · simpa [vadd, Vec.of] using h
  · decide
  · exact le_of_eq (by simp [se3TripleLeftAbs, rowAbs, absV, Vec.of])

/-- majorant of the translation of `a∘(b∘c)` -/
def se3TripleRightAbs (a b c : Vec ℝ 7) (i : Fin 3) : ℝ :=
  so3MatAbs (absV (SE3.so3 a)) i 0 * (rowAbs (so3MatAbs (absV (SE3.so3 b))) (SE3.r3 c) 0 + |SE3.r3 b 0|)
    + so3MatAbs (absV (SE3.so3 a)) i 1 * (rowAbs (so3MatAbs (absV (SE3.so3 b))) (SE3.r3 c) 1 + |SE3.r3 b 1|)
    + so3MatAbs (absV (SE3.so3 a)) i 2 * (rowAbs (so3MatAbs (absV (SE3.so3 b))) (SE3.r3 c) 2 + |SE3.r3 b 2|)
    + |SE3.r3 a i|

/-- translation of `a∘(b∘c)`, both compositions rounded: `R(q_a)·fl(R(q_b)t_c + t_b) + t_a`, 18 roundings -/
theorem se3_triple_right_trans_appr (a b c : Vec ℝ 7) (i : Fin 3) :
    Appr 18 (se3TripleRightAbs a b c i)
      (toReal ((SE3.r3 (SE3.composition (Vec.toRF a) (SE3.composition (Vec.toRF b) (Vec.toRF c)))) i))
      ((SE3.r3 (SE3.composition a (SE3.composition b c))) i) := by
  rw [se3_comp_r3, se3_comp_r3, se3_comp_r3, se3_comp_r3, se3_so3_toRF, se3_so3_toRF,
    se3_r3_toRF, se3_r3_toRF, se3_r3_toRF]
  have hy := rot_trans_appr (SE3.so3 b) (SE3.r3 c) (SE3.r3 b)
  have hm := mulVec3_appr _ _ (so3MatAbs (absV (SE3.so3 a))) _ _
    (.of (fun l => rowAbs (so3MatAbs (absV (SE3.so3 b))) (SE3.r3 c) l + |SE3.r3 b l|))
    (rot_appr (SE3.so3 a)) (fun l => by simpa [Vec.of] using hy l) i
  have h := hm.add (Appr.exact (SE3.r3 a i))
  apply Appr.mono (j := Max.max (4 + 9 + 4) 0 + 1)
  · simpa [vadd, Vec.of] using h
  · decide
  · exact le_of_eq (by simp [se3TripleRightAbs, Vec.of])

end

/-- `Σ_l (qabs a b l)² ≤ 4·‖a‖²‖b‖²` -/
theorem qabs_sq_sum_le (a b : Vec ℝ 4) :
    qabs a b 0 ^ 2 + qabs a b 1 ^ 2 + qabs a b 2 ^ 2 + qabs a b 3 ^ 2 ≤ 4 * (SO3.sqn a * SO3.sqn b) := by
  have h : ∀ i, qabs a b i ^ 2 ≤ SO3.sqn a * SO3.sqn b := fun i => by
    have h1 := qabs_le a b i
    have h0 := qabs_nonneg a b i
    have : qabs a b i ^ 2 ≤ (nrm4 a * nrm4 b) ^ 2 := by gcongr
    rwa [mul_pow, nrm4_sq, nrm4_sq] at this
  have := h 0; have := h 1; have := h 2; have := h 3
  linarith

theorem se3TripleLeftAbs_le (a b c : Vec ℝ 7) (n T : ℝ) (hna : SO3.sqn (SE3.so3 a) ≤ n) (hnb : SO3.sqn (SE3.so3 b) ≤ n)
    (ha : ∀ l, |SE3.r3 a l| ≤ T) (hb : ∀ l, |SE3.r3 b l| ≤ T) (hc : ∀ l, |SE3.r3 c l| ≤ T) (i : Fin 3) :
    se3TripleLeftAbs a b c i ≤ (1 + 4 * (4 * (n * n))) * T + ((1 + 4 * n) * T + T) := by
  unfold se3TripleLeftAbs
  have hn0 : 0 ≤ n := (sqn_nonneg _).trans hna
  have h1 : rowAbs (so3MatAbs (qabs (SE3.so3 a) (SE3.so3 b))) (SE3.r3 c) i ≤ (1 + 4 * (4 * (n * n))) * T := by
    unfold rowAbs
    refine so3MatAbs_row _ (qabs_nonneg _ _) (4 * (n * n)) ((qabs_sq_sum_le _ _).trans ?_) _ _ _ T (abs_nonneg _)
      (hc 0) (hc 1) (hc 2) i
    have := mul_le_mul hna hnb (sqn_nonneg _) hn0
    linarith
  have h2 := rowAbs_rot_le (SE3.so3 a) n hna (SE3.r3 b) T hb i
  have := ha i
  linarith

theorem se3TripleRightAbs_le (a b c : Vec ℝ 7) (n T : ℝ) (hna : SO3.sqn (SE3.so3 a) ≤ n) (hnb : SO3.sqn (SE3.so3 b) ≤ n)
    (ha : ∀ l, |SE3.r3 a l| ≤ T) (hb : ∀ l, |SE3.r3 b l| ≤ T) (hc : ∀ l, |SE3.r3 c l| ≤ T) (i : Fin 3) :
    se3TripleRightAbs a b c i ≤ (1 + 4 * n) * ((1 + 4 * n) * T + T) + T := by
  unfold se3TripleRightAbs
  have hT : 0 ≤ T := (abs_nonneg _).trans (ha 0)
  have hw : ∀ l, rowAbs (so3MatAbs (absV (SE3.so3 b))) (SE3.r3 c) l + |SE3.r3 b l| ≤ (1 + 4 * n) * T + T := fun l => by
    have := rowAbs_rot_le (SE3.so3 b) n hnb (SE3.r3 c) T hc l
    have := hb l
    linarith
  have hw0 : 0 ≤ rowAbs (so3MatAbs (absV (SE3.so3 b))) (SE3.r3 c) 0 + |SE3.r3 b 0| := by
    have : 0 ≤ rowAbs (so3MatAbs (absV (SE3.so3 b))) (SE3.r3 c) 0 := by
      unfold rowAbs
      have e : ∀ j, 0 ≤ so3MatAbs (absV (SE3.so3 b)) 0 j := fun j => by
        have a0 := absV_nonneg (SE3.so3 b) 0; have a1 := absV_nonneg (SE3.so3 b) 1
        have a2 := absV_nonneg (SE3.so3 b) 2; have a3 := absV_nonneg (SE3.so3 b) 3
        fin_cases j <;> simp only [so3MatAbs, mat3, Mat.of] <;> positivity
      have := e 0; have := e 1; have := e 2
      positivity
    positivity
  have := so3MatAbs_row (absV (SE3.so3 a)) (absV_nonneg _) n (by simpa [absV, Vec.of, SO3.sqn] using hna)
    _ _ _ ((1 + 4 * n) * T + T) hw0 (hw 0) (hw 1) (hw 2) i
  have := ha i
  linarith

/-! ### exact facts: the matrix does not see the canonical sign of the intermediate result -/

theorem matrix_qmul_canon_left (p c : Vec ℝ 4) : SO3.matrix (SO3.qmul (SO3.canon p) c) = SO3.matrix (SO3.qmul p c) := by
  rcases SO3.canon_eq_or p with h | h <;> rw [h]
  rw [SO3.qmul_vneg_left, SO3.matrix_vneg]
theorem matrix_qmul_canon_right (a p : Vec ℝ 4) : SO3.matrix (SO3.qmul a (SO3.canon p)) = SO3.matrix (SO3.qmul a p) := by
  rcases SO3.canon_eq_or p with h | h <;> rw [h]
  rw [SO3.qmul_vneg_right, SO3.matrix_vneg]

theorem so3_matrix_comp_comp (a b c : Vec ℝ 4) :
    SO3.matrix (SO3.composition (SO3.composition a b) c) = SO3.matrix (SO3.qmul (SO3.qmul a b) c) := by
  show SO3.matrix (SO3.canon (SO3.qmul (SO3.canon (SO3.qmul a b)) c)) = _
  rw [SO3.matrix_canon, matrix_qmul_canon_left]
theorem so3_matrix_comp_comp' (a b c : Vec ℝ 4) :
    SO3.matrix (SO3.composition a (SO3.composition b c)) = SO3.matrix (SO3.qmul (SO3.qmul a b) c) := by
  show SO3.matrix (SO3.canon (SO3.qmul a (SO3.canon (SO3.qmul b c)))) = _
  rw [SO3.matrix_canon, matrix_qmul_canon_right, SO3.qmul_assoc]

end Round
end
