/-
  C07GlueBundle.lean — the manifold axioms of `Bundle.prod A B` and `Bundle.bundle ps` from those
  of the parts (every Bundle operation acts part by part on the prefix-sum layout).
-/
import SmoothProofs.C07Glue

open Scalar Lin Manif

set_option linter.unusedSectionVars false
set_option linter.unusedSimpArgs false

namespace C07

section prod
variable {A B : LieModel ℝ}

theorem prod_rplus (g : Vec ℝ (A.rep + B.rep)) (a : Vec ℝ (A.dof + B.dof)) :
    (Bundle.prod A B).rplus g a =
      vcat (A.rplus (Bundle.fst g) (Bundle.fst a)) (B.rplus (Bundle.snd g) (Bundle.snd a)) := by
  simp only [LieModel.rplus, Bundle.prod, Bundle.prodComposition, Bundle.prodExp, Bundle.fst_vcat,
    Bundle.snd_vcat]

theorem prod_rminus (g1 g2 : Vec ℝ (A.rep + B.rep)) :
    (Bundle.prod A B).rminus g1 g2 =
      vcat (A.rminus (Bundle.fst g1) (Bundle.fst g2)) (B.rminus (Bundle.snd g1) (Bundle.snd g2)) := by
  simp only [LieModel.rminus, Bundle.prod, Bundle.prodComposition, Bundle.prodInverse, Bundle.prodLog,
    Bundle.fst_vcat, Bundle.snd_vcat]

variable {VA : Vec ℝ A.rep → Prop} {VB : Vec ℝ B.rep → Prop}
  {DA : Vec ℝ A.rep → Vec ℝ A.dof → Prop} {DB : Vec ℝ B.rep → Vec ℝ B.dof → Prop}
  {CA : Vec ℝ A.rep → Vec ℝ A.rep → Prop} {CB : Vec ℝ B.rep → Vec ℝ B.rep → Prop}

/-- both parts of the tangent lie in the parts' domains -/
def prodDom (DA : Vec ℝ A.rep → Vec ℝ A.dof → Prop) (DB : Vec ℝ B.rep → Vec ℝ B.dof → Prop)
    (g : Vec ℝ (A.rep + B.rep)) (a : Vec ℝ (A.dof + B.dof)) : Prop :=
  DA (Bundle.fst g) (Bundle.fst a) ∧ DB (Bundle.snd g) (Bundle.snd a)

def prodCompat (CA : Vec ℝ A.rep → Vec ℝ A.rep → Prop) (CB : Vec ℝ B.rep → Vec ℝ B.rep → Prop)
    (g2 g : Vec ℝ (A.rep + B.rep)) : Prop :=
  CA (Bundle.fst g2) (Bundle.fst g) ∧ CB (Bundle.snd g2) (Bundle.snd g)

theorem vzero_add (n m : Nat) : (vzero (n + m) : Vec ℝ (n + m)) = vcat (vzero n) (vzero m) := by
  ext i
  simp only [vzero, vcat, Vec.of]
  split <;> rfl

section fields
variable (hA : LieAxioms A VA DA CA) (hB : LieAxioms B VB DB CB)
include hA hB

theorem prod_valid_rplus (g : Vec ℝ (A.rep + B.rep)) (a : Vec ℝ (A.dof + B.dof))
    (hg : Bundle.prodValid VA VB g) (hd : prodDom DA DB g a) :
    Bundle.prodValid VA VB ((Bundle.prod A B).rplus g a) := by
  rw [prod_rplus]
  exact ⟨by rw [Bundle.fst_vcat]; exact hA.valid_rplus _ _ hg.1 hd.1,
    by rw [Bundle.snd_vcat]; exact hB.valid_rplus _ _ hg.2 hd.2⟩

theorem prod_compat_rplus (g : Vec ℝ (A.rep + B.rep)) (a : Vec ℝ (A.dof + B.dof))
    (hg : Bundle.prodValid VA VB g) (hd : prodDom DA DB g a) :
    prodCompat CA CB ((Bundle.prod A B).rplus g a) g := by
  rw [prod_rplus]
  exact ⟨by rw [Bundle.fst_vcat]; exact hA.compat_rplus _ _ hg.1 hd.1,
    by rw [Bundle.snd_vcat]; exact hB.compat_rplus _ _ hg.2 hd.2⟩

theorem prod_rminus_rplus (g : Vec ℝ (A.rep + B.rep)) (a : Vec ℝ (A.dof + B.dof))
    (hg : Bundle.prodValid VA VB g) (hd : prodDom DA DB g a) :
    (Bundle.prod A B).rminus ((Bundle.prod A B).rplus g a) g = a := by
  rw [prod_rplus, prod_rminus, Bundle.fst_vcat, Bundle.snd_vcat,
    hA.rminus_rplus _ _ hg.1 hd.1, hB.rminus_rplus _ _ hg.2 hd.2, Bundle.vcat_fst_snd]

theorem prod_rplus_rminus (g g2 : Vec ℝ (A.rep + B.rep)) (hg : Bundle.prodValid VA VB g)
    (hg2 : Bundle.prodValid VA VB g2) (hc : prodCompat CA CB g2 g) :
    (Bundle.prod A B).rplus g ((Bundle.prod A B).rminus g2 g) = g2 := by
  rw [prod_rminus, prod_rplus, Bundle.fst_vcat, Bundle.snd_vcat,
    hA.rplus_rminus _ _ hg.1 hg2.1 hc.1, hB.rplus_rminus _ _ hg.2 hg2.2 hc.2, Bundle.vcat_fst_snd]

theorem prod_rminus_self (g : Vec ℝ (A.rep + B.rep)) (hg : Bundle.prodValid VA VB g) :
    (Bundle.prod A B).rminus g g = vzero (A.dof + B.dof) := by
  rw [prod_rminus, hA.rminus_self _ hg.1, hB.rminus_self _ hg.2]
  exact (vzero_add A.dof B.dof).symm

end fields

theorem prod_lieAxioms (hA : LieAxioms A VA DA CA) (hB : LieAxioms B VB DB CB) :
    LieAxioms (Bundle.prod A B) (Bundle.prodValid VA VB) (prodDom DA DB) (prodCompat CA CB) where
  valid_rplus := prod_valid_rplus hA hB
  compat_rplus := prod_compat_rplus hA hB
  rminus_rplus := prod_rminus_rplus hA hB
  rplus_rminus := prod_rplus_rminus hA hB
  rminus_self := prod_rminus_self hA hB

end prod

theorem unit_lieAxioms :
    LieAxioms (Bundle.unit : LieModel ℝ) (fun _ => True) (fun _ _ => True) (fun _ _ => True) where
  valid_rplus := by intros; trivial
  compat_rplus := by intros; trivial
  rminus_rplus := by intro _ a _ _; ext i; exact i.elim0
  rplus_rminus := by intro _ g2 _ _ _; ext i; exact i.elim0
  rminus_self := by intro _ _; ext i; exact i.elim0

/-- a group model together with the predicates of its manifold axioms -/
structure AModel where
  G : LieModel ℝ
  Valid : Vec ℝ G.rep → Prop
  Dom : Vec ℝ G.rep → Vec ℝ G.dof → Prop
  Compat : Vec ℝ G.rep → Vec ℝ G.rep → Prop

def bundleValidA : (ps : List AModel) → Vec ℝ (Bundle.bundle (ps.map AModel.G)).rep → Prop
  | [] => fun _ => True
  | p :: ps => Bundle.prodValid (A := p.G) (B := Bundle.bundle (ps.map AModel.G)) p.Valid (bundleValidA ps)

def bundleDomA : (ps : List AModel) → Vec ℝ (Bundle.bundle (ps.map AModel.G)).rep →
    Vec ℝ (Bundle.bundle (ps.map AModel.G)).dof → Prop
  | [] => fun _ _ => True
  | p :: ps => prodDom (A := p.G) (B := Bundle.bundle (ps.map AModel.G)) p.Dom (bundleDomA ps)

def bundleCompatA : (ps : List AModel) → Vec ℝ (Bundle.bundle (ps.map AModel.G)).rep →
    Vec ℝ (Bundle.bundle (ps.map AModel.G)).rep → Prop
  | [] => fun _ _ => True
  | p :: ps => prodCompat (A := p.G) (B := Bundle.bundle (ps.map AModel.G)) p.Compat (bundleCompatA ps)

/-- **the manifold axioms of `Bundle<Gs...>`** for any list of parts, by induction -/
theorem bundle_lieAxioms (ps : List AModel) (h : ∀ p ∈ ps, LieAxioms p.G p.Valid p.Dom p.Compat) :
    LieAxioms (Bundle.bundle (ps.map AModel.G)) (bundleValidA ps) (bundleDomA ps) (bundleCompatA ps) := by
  induction ps with
  | nil => exact unit_lieAxioms
  | cons p ps ih =>
    exact prod_lieAxioms (h p (List.mem_cons_self ..)) (ih (fun q hq => h q (List.mem_cons_of_mem _ hq)))

end C07
