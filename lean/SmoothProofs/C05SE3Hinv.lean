/-
  C05SE3Hinv.lean — SE3 `d2r_expinv` is the derivative of `dr_expinv` (closed branch, sin θ ≠ 0), all
  216 entries.  The upper-right block `P = −J⁻¹·Q·J⁻¹` is differentiated by the code with two calls of
  `d_matrix_product`; their correctness is `C05Alg.d_matrix_product_hasDerivAt`.
-/
import SmoothProofs.C05SE3H
import SmoothProofs.C05Leibniz

open Lin Scalar

namespace C05SE3Hinv
open C04Alg C04SO3 C05dQ C05SE3H

/-- the stacked derivative table of the SO3 inverse Jacobian w.r.t. the six SE3 variables -/
noncomputable def Hexp (a : Vec ℝ 6) : Mat ℝ 3 (3 * 6) := .of (fun r c =>
  if hk : 3 ≤ c.val % 6 then
    (SO3.d2r_expinv (SE3.tw a)) r ⟨3 * (c.val / 6) + (c.val % 6 - 3), by have := c.isLt; omega⟩
  else nat 0)

/-- the stacked derivative table of `Q(−a)`: `−dQ(−a)` -/
noncomputable def dQn (a : Vec ℝ 6) : Mat ℝ 3 (3 * 6) :=
  .of (fun i j => (SE3.calculate_Q_dQ (vneg a)).2 i j * (-(nat 1)))

theorem d2r_expinv_eq (a : Vec ℝ 6) :
    SE3.d2r_expinv a = SE3.placeSO3 (SO3.d2r_expinv (SE3.tw a))
      (mneg (Derivs.d_matrix_product (n := 3) (nvar := 6)
        (mmul (SO3.dr_expinv (SE3.tw a)) (SE3.calculate_Q_dQ (vneg a)).1)
        (Derivs.d_matrix_product (n := 3) (nvar := 6) (SO3.dr_expinv (SE3.tw a)) (Hexp a)
          (SE3.calculate_Q_dQ (vneg a)).1 (dQn a))
        (SO3.dr_expinv (SE3.tw a)) (Hexp a))) := by
  simp only [SE3.d2r_expinv, memoM_eq]
  rfl

theorem placeSO3_entry (Hs : Mat ℝ 3 9) (lower : Mat ℝ 3 18) (J R k : Fin 6) :
    (SE3.placeSO3 Hs lower) R ⟨6 * J.val + k.val, by have := J.isLt; have := k.isLt; omega⟩ =
      if hR : R.val < 3 then
        if hJ : J.val < 3 then
          if hk : 3 ≤ k.val then
            Hs ⟨R.val, hR⟩ ⟨3 * J.val + (k.val - 3), by have := k.isLt; omega⟩
          else 0
        else 0
      else
        if hJ : J.val < 3 then
          lower ⟨R.val - 3, by have := R.isLt; omega⟩ ⟨6 * J.val + k.val, by have := k.isLt; omega⟩
        else
          if hk : 3 ≤ k.val then
            Hs ⟨R.val - 3, by have := R.isLt; omega⟩
              ⟨3 * (J.val - 3) + (k.val - 3), by have := J.isLt; have := k.isLt; omega⟩
          else 0 := by
  have hJ6 := J.isLt
  have hk6 := k.isLt
  have hd : (6 * J.val + k.val) / 6 = J.val := by omega
  have hm : (6 * J.val + k.val) % 6 = k.val := by omega
  simp only [SE3.placeSO3, Mat.of_get, hd, hm, Nat.cast_zero]

theorem se3_dr_expinv_entry (a : Vec ℝ 6) (J R : Fin 6) :
    (SE3.dr_expinv a) J R =
      if hJ : J.val < 3 then
        if hR : R.val < 3 then (SO3.dr_expinv (SE3.tw a)) ⟨J.val, hJ⟩ ⟨R.val, hR⟩
        else -((mmul (mmul (SO3.dr_expinv (SE3.tw a)) (SE3.calculate_Q_dQ (vneg a)).1)
            (SO3.dr_expinv (SE3.tw a))) ⟨J.val, hJ⟩ ⟨R.val - 3, by have := R.isLt; omega⟩)
      else
        if hR : R.val < 3 then 0
        else (SO3.dr_expinv (SE3.tw a)) ⟨J.val - 3, by have := J.isLt; omega⟩
          ⟨R.val - 3, by have := R.isLt; omega⟩ := by
  have hQ : SE3.calculate_q (vneg (SE3.tv a)) (vneg (SE3.tw a)) = (SE3.calculate_Q_dQ (vneg a)).1 := by
    ext i j; exact calculate_q_eq a i j
  have hneg : ∀ (A B C : Mat ℝ 3 3) (i j : Fin 3),
      (mmul (mmul (mneg A) B) C) i j = -((mmul (mmul A B) C) i j) := by
    intro A B C i j
    simp only [C04Alg.mmul3, mneg, Mat.of_get]; ring
  simp only [SE3.dr_expinv, memoM_eq, SE3.blk22, Mat.of_get, mzero, hQ, hneg, Nat.cast_zero]

theorem col_eq {J : Fin 3} {k : Fin 6} :
    (C05Alg.col J k : Fin (3 * 6)) = ⟨6 * J.val + k.val, by have := J.isLt; have := k.isLt; omega⟩ := by
  apply Fin.ext
  simp only [C05Alg.col]
  ring

theorem d2rExpinv_hasDerivAt (a : Vec ℝ 6) (h : Scalar.eps2 < sqNorm (SE3.tw a))
    (hs : Real.sin (Real.sqrt (sqNorm (SE3.tw a))) ≠ 0) (J R k : Fin 6) :
    HasDerivAt (fun t => (SE3.dr_expinv (shift a k t)) J R)
      ((SE3.d2r_expinv a) R ⟨6 * J.val + k.val, by have := J.isLt; have := k.isLt; omega⟩) 0 := by
  rw [d2r_expinv_eq, placeSO3_entry]
  simp only [se3_dr_expinv_entry]
  -- SO3 inverse-Jacobian block and its table
  have hso3 : ∀ (j r : Fin 3),
      HasDerivAt (fun t => (SO3.dr_expinv (SE3.tw (shift a k t))) j r)
        (if hk : 3 ≤ k.val then (SO3.d2r_expinv (SE3.tw a)) r
          ⟨3 * j.val + (k.val - 3), by have := j.isLt; have := k.isLt; omega⟩ else 0) 0 := by
    intro j r
    by_cases hk : 3 ≤ k.val
    · simp only [dif_pos hk, tw_shift_ge a k _ hk]
      exact C05SO3.d2rExpinv_hasDerivAt (SE3.tw a) h hs j r ⟨k.val - 3, by have := k.isLt; omega⟩
    · simp only [dif_neg hk, tw_shift_lt a k _ (not_le.1 hk)]
      exact hasDerivAt_const _ _
  have hJ' : ∀ i l : Fin 3, HasDerivAt (fun t => (SO3.dr_expinv (SE3.tw (shift a k t))) i l)
      ((Hexp a) l (C05Alg.col i k)) 0 := by
    intro i l
    have hk6 := k.isLt
    have hi3 := i.isLt
    have hd : (i.val * 6 + k.val) / 6 = i.val := by omega
    have hm : (i.val * 6 + k.val) % 6 = k.val := by omega
    have := hso3 i l
    simp only [Hexp, Mat.of_get, C05Alg.col, hd, hm, Nat.cast_zero]
    exact this
  have hQ' : ∀ l r : Fin 3, HasDerivAt (fun t => (SE3.calculate_Q_dQ (vneg (shift a k t))).1 l r)
      ((dQn a) r (C05Alg.col l k)) 0 := by
    intro l r
    have h' : Scalar.eps2 < sqNorm (SE3.tw (vneg a)) := by rw [tw_vneg, sqNorm3_neg]; exact h
    have hg := C05SE3.Q_dQ_hasDerivAt (vneg a) h' l r k
    have hc := hg.comp_of_eq (0:ℝ) (hasDerivAt_neg (0:ℝ)) (by simp)
    rw [col_eq]
    refine (hc.congr_deriv ?_).congr_of_eventuallyEq (Filter.Eventually.of_forall fun t => ?_)
    · simp only [dQn, Mat.of_get, Nat.cast_one]
    · simp only [Function.comp, vneg_shift]
  by_cases hJ : J.val < 3 <;> by_cases hR : R.val < 3
  · simp only [dif_pos hJ, dif_pos hR]
    exact hso3 ⟨J.val, hJ⟩ ⟨R.val, hR⟩
  · simp only [dif_pos hJ, dif_neg hR]
    have h1 := C05Alg.d_matrix_product_hasDerivAt
      (fun t => SO3.dr_expinv (SE3.tw (shift a k t)))
      (fun t => (SE3.calculate_Q_dQ (vneg (shift a k t))).1) (Hexp a) (dQn a) k hJ' hQ'
    have h2 := C05Alg.d_matrix_product_hasDerivAt
      (fun t => mmul (SO3.dr_expinv (SE3.tw (shift a k t))) (SE3.calculate_Q_dQ (vneg (shift a k t))).1)
      (fun t => SO3.dr_expinv (SE3.tw (shift a k t)))
      (Derivs.d_matrix_product (n := 3) (nvar := 6) (SO3.dr_expinv (SE3.tw (shift a k 0))) (Hexp a)
        (SE3.calculate_Q_dQ (vneg (shift a k 0))).1 (dQn a)) (Hexp a) k h1 hJ'
      ⟨J.val, hJ⟩ ⟨R.val - 3, by have := R.isLt; omega⟩
    simp only [C05SE3.shift_zero, col_eq] at h2
    have h3 := h2.neg
    simp only [mneg, Mat.of_get]
    exact h3
  · simp only [dif_neg hJ, dif_pos hR]
    exact hasDerivAt_const _ _
  · simp only [dif_neg hJ, dif_neg hR]
    exact hso3 ⟨J.val - 3, by have := J.isLt; omega⟩ ⟨R.val - 3, by have := R.isLt; omega⟩

end C05SE3Hinv
