/-
  C11Deriv.lean — the rows `U_p = monomial_derivative K u p` used by `cspline_eval_vs` give the
  successive u-derivatives of the basis polynomials: `d/du (U_p(u)·Bcum.col j) = U_{p+1}(u)·Bcum.col j`
  (all `K`, all `p`).  This is the hypothesis `D b_j = b_j'`, `D b_j' = b_j''`, `D b_j'' = b_j'''`
  of the differential-algebra theorem, for the model's own `dBj`, `d2Bj`, `d3Bj`.
-/
import SmoothProofs.C11Model
import Mathlib.Analysis.Calculus.Deriv.Pow
import Mathlib.Analysis.Calculus.Deriv.Add
import Mathlib.Analysis.Calculus.Deriv.Mul

open Lin Scalar

namespace C11

theorem bdot_monomial_eq {K : Nat} (B : Mat ℝ (K + 1) (K + 1)) (j : Fin (K + 1)) (p : Nat) (u : ℝ) :
    CSpline.bdot (CSpline.monomial_derivative K u p) B j
      = ∑ r : Fin (K + 1), ((r.val.descFactorial p : ℝ) * u ^ (r.val - p)) * B r j := by
  rw [bdot_eq_sum]
  apply Finset.sum_congr rfl
  intro r _
  rw [monomial_derivative_apply]

theorem bdot_hasDerivAt {K : Nat} (B : Mat ℝ (K + 1) (K + 1)) (j : Fin (K + 1)) (p : Nat) (u : ℝ) :
    HasDerivAt (fun u => CSpline.bdot (CSpline.monomial_derivative K u p) B j)
      (CSpline.bdot (CSpline.monomial_derivative K u (p + 1)) B j) u := by
  have hf : (fun u => CSpline.bdot (CSpline.monomial_derivative K u p) B j)
      = fun u => ∑ r : Fin (K + 1), ((r.val.descFactorial p : ℝ) * u ^ (r.val - p)) * B r j := by
    funext u; exact bdot_monomial_eq B j p u
  rw [hf, bdot_monomial_eq]
  apply HasDerivAt.fun_sum
  intro r _
  have hpow := hasDerivAt_pow (r.val - p) u
  have h1 := (hpow.const_mul (r.val.descFactorial p : ℝ)).mul_const (B r j)
  refine h1.congr_deriv ?_
  rw [Nat.descFactorial_succ, Nat.sub_sub]
  push_cast
  ring

end C11
