/-
  C11InstSmooth.lean — a CONCRETE differential algebra for the abstract C11 recursion theorems:
  the ring `SM n` of `C^∞` functions `ℝ → Matrix (Fin n) (Fin n) ℝ` with `D = d/du` (`dU`).

  A factor of the cumulative product is `E(u) = exp(b₀(u) • A)` (`A` a constant matrix, `b₀` a smooth
  scalar function with `b₀' = b₁`, `b₁' = b₂`, `b₂' = b₃`): `FacData.toFactor` shows that it satisfies
  the hypotheses of `C11.Factor` in `SM n`.  Evaluating the abstract loop at a point gives the
  pointwise loop `curveAt` in the matrix ring, and `good_foldl` becomes three `HasDerivAt`
  statements (`curveAt_hasDerivAt_g / _vel / _acc`).
-/
import SmoothProofs.C11Alg
import Mathlib.Analysis.Normed.Algebra.Exponential
import Mathlib.Analysis.Normed.Algebra.MatrixExponential
import Mathlib.Analysis.SpecialFunctions.Exponential
import Mathlib.Analysis.Calculus.ContDiff.Deriv
import Mathlib.Analysis.Calculus.ContDiff.Operations
import Mathlib.Analysis.Calculus.Deriv.Mul
import Mathlib.Analysis.Calculus.Deriv.Add
import Mathlib.Analysis.Matrix.Normed
import Mathlib.Algebra.Ring.Subring.Defs

open NormedSpace
open scoped ContDiff

namespace C11

attribute [local instance] Matrix.linftyOpNormedRing Matrix.linftyOpNormedAlgebra

/-- real `n×n` matrices -/
abbrev Mx (n : ℕ) := Matrix (Fin n) (Fin n) ℝ

/-- the subring of `C^∞` matrix-valued functions of one real variable -/
def smoothSubring (n : ℕ) : Subring (ℝ → Mx n) where
  carrier := {f | ContDiff ℝ ∞ f}
  mul_mem' {f g} hf hg := by
    have hf' : ContDiff ℝ ∞ f := hf
    have hg' : ContDiff ℝ ∞ g := hg
    exact hf'.mul hg'
  one_mem' := (contDiff_const : ContDiff ℝ ∞ fun _ : ℝ => (1 : Mx n))
  add_mem' {f g} hf hg := by
    have hf' : ContDiff ℝ ∞ f := hf
    have hg' : ContDiff ℝ ∞ g := hg
    exact hf'.add hg'
  zero_mem' := (contDiff_const : ContDiff ℝ ∞ fun _ : ℝ => (0 : Mx n))
  neg_mem' {f} hf := by
    have hf' : ContDiff ℝ ∞ f := hf
    exact hf'.neg

/-- `C^∞` functions `ℝ → Mx n` as a ring -/
abbrev SM (n : ℕ) := smoothSubring n

theorem SM.differentiable {n : ℕ} (f : SM n) : Differentiable ℝ f.1 :=
  (contDiff_infty_iff_deriv.mp f.2).1

theorem SM.hasDerivAt {n : ℕ} (f : SM n) (u : ℝ) : HasDerivAt f.1 (deriv f.1 u) u :=
  (SM.differentiable f u).hasDerivAt

/-- `D = d/du` on `SM n` -/
noncomputable def dU (n : ℕ) : Deriv (SM n) where
  D f := ⟨deriv f.1, (contDiff_infty_iff_deriv.mp f.2).2⟩
  add x y := by
    apply Subtype.ext
    funext u
    exact ((SM.hasDerivAt x u).add (SM.hasDerivAt y u)).deriv
  mul x y := by
    apply Subtype.ext
    funext u
    exact ((SM.hasDerivAt x u).mul (SM.hasDerivAt y u)).deriv

theorem dU_apply {n : ℕ} (f : SM n) (u : ℝ) : ((dU n).D f).1 u = deriv f.1 u := rfl

/-- constant function -/
def SM.const {n : ℕ} (A : Mx n) : SM n := ⟨fun _ => A, (contDiff_const : ContDiff ℝ ∞ fun _ : ℝ => A)⟩

/-- scalar function times the identity -/
noncomputable def SM.scalar {n : ℕ} (b : ℝ → ℝ) (hb : ContDiff ℝ ∞ b) : SM n :=
  ⟨fun u => algebraMap ℝ (Mx n) (b u), by
    have : (fun u => algebraMap ℝ (Mx n) (b u)) = fun u => b u • (1 : Mx n) := by
      funext u; rw [Algebra.algebraMap_eq_smul_one]
    rw [this]; exact hb.smul contDiff_const⟩

theorem contDiff_exp_mx (n : ℕ) : ContDiff ℝ ∞ (NormedSpace.exp : Mx n → Mx n) :=
  contDiff_iff_contDiffAt.2 fun x => (NormedSpace.exp_analytic (𝕂 := ℝ) x).contDiffAt

/-- `u ↦ exp(b(u) • A)` -/
noncomputable def SM.expSmul {n : ℕ} (b : ℝ → ℝ) (hb : ContDiff ℝ ∞ b) (A : Mx n) : SM n :=
  ⟨fun u => NormedSpace.exp (b u • A), (contDiff_exp_mx n).comp (hb.smul contDiff_const)⟩

theorem hasDerivAt_expSmul {n : ℕ} (b : ℝ → ℝ) (b' : ℝ) (A : Mx n) (u : ℝ) (hb : HasDerivAt b b' u) :
    HasDerivAt (fun u => NormedSpace.exp (b u • A)) (NormedSpace.exp (b u • A) * (b' • A)) u := by
  have h1 : HasDerivAt (fun t : ℝ => NormedSpace.exp (t • A)) (NormedSpace.exp (b u • A) * A) (b u) :=
    hasDerivAt_exp_smul_const (𝕂 := ℝ) A (b u)
  have h2 := HasDerivAt.scomp u h1 hb
  have e : b' • (NormedSpace.exp (b u • A) * A) = NormedSpace.exp (b u • A) * (b' • A) := by
    rw [mul_smul_comm]
  rw [e] at h2
  exact h2

theorem mx_exp_mul_exp_neg {n : ℕ} (A : Mx n) : NormedSpace.exp A * NormedSpace.exp (-A) = 1 := by
  rw [← Matrix.exp_add_of_commute A (-A) (Commute.neg_right (Commute.refl A))]
  simp

theorem mx_exp_neg_mul_exp {n : ℕ} (A : Mx n) : NormedSpace.exp (-A) * NormedSpace.exp A = 1 := by
  rw [← Matrix.exp_add_of_commute (-A) A (Commute.neg_left (Commute.refl A))]
  simp

/-- data of one factor `exp(b₀(u) • A)` with the derivative chain of the scalar -/
structure FacData (n : ℕ) where
  A : Mx n
  b0 : ℝ → ℝ
  b1 : ℝ → ℝ
  b2 : ℝ → ℝ
  b3 : ℝ → ℝ
  s0 : ContDiff ℝ ∞ b0
  s1 : ContDiff ℝ ∞ b1
  s2 : ContDiff ℝ ∞ b2
  s3 : ContDiff ℝ ∞ b3
  h01 : ∀ u, HasDerivAt b0 (b1 u) u
  h12 : ∀ u, HasDerivAt b1 (b2 u) u
  h23 : ∀ u, HasDerivAt b2 (b3 u) u

theorem hasDerivAt_algebraMap {n : ℕ} (b : ℝ → ℝ) (b' : ℝ) (u : ℝ) (hb : HasDerivAt b b' u) :
    HasDerivAt (fun u => algebraMap ℝ (Mx n) (b u)) (algebraMap ℝ (Mx n) b') u := by
  have : (fun u => algebraMap ℝ (Mx n) (b u)) = fun u => b u • (1 : Mx n) := by
    funext u; rw [Algebra.algebraMap_eq_smul_one]
  rw [this, Algebra.algebraMap_eq_smul_one]
  exact hb.smul_const (1 : Mx n)

namespace FacData
variable {n : ℕ} (F : FacData n)

/-- the factor in the smooth ring -/
noncomputable def toFactor : Factor (SM n) (dU n) where
  E := SM.expSmul F.b0 F.s0 F.A
  Ei := SM.expSmul (fun u => -F.b0 u) F.s0.neg F.A
  V := SM.const F.A
  c1 := SM.scalar F.b1 F.s1
  c2 := SM.scalar F.b2 F.s2
  c3 := SM.scalar F.b3 F.s3
  E_Ei := by
    apply Subtype.ext; funext u
    show NormedSpace.exp (F.b0 u • F.A) * NormedSpace.exp ((-F.b0 u) • F.A) = 1
    rw [neg_smul]; exact mx_exp_mul_exp_neg _
  Ei_E := by
    apply Subtype.ext; funext u
    show NormedSpace.exp ((-F.b0 u) • F.A) * NormedSpace.exp (F.b0 u • F.A) = 1
    rw [neg_smul]; exact mx_exp_neg_mul_exp _
  DV := by
    apply Subtype.ext; funext u
    show deriv (fun _ : ℝ => F.A) u = 0
    exact deriv_const u F.A
  DE := by
    apply Subtype.ext; funext u
    show deriv (fun u => NormedSpace.exp (F.b0 u • F.A)) u
      = NormedSpace.exp (F.b0 u • F.A) * (algebraMap ℝ (Mx n) (F.b1 u) * F.A)
    refine (hasDerivAt_expSmul F.b0 (F.b1 u) F.A u (F.h01 u)).deriv.trans ?_
    rw [Algebra.algebraMap_eq_smul_one, smul_mul_assoc, one_mul]
  c1_central := by
    intro x
    apply Subtype.ext; funext u
    show algebraMap ℝ (Mx n) (F.b1 u) * x.1 u = x.1 u * algebraMap ℝ (Mx n) (F.b1 u)
    exact Algebra.commutes _ _
  c2_central := by
    intro x
    apply Subtype.ext; funext u
    show algebraMap ℝ (Mx n) (F.b2 u) * x.1 u = x.1 u * algebraMap ℝ (Mx n) (F.b2 u)
    exact Algebra.commutes _ _
  Dc1 := by
    apply Subtype.ext; funext u
    exact (hasDerivAt_algebraMap F.b1 (F.b2 u) u (F.h12 u)).deriv
  Dc2 := by
    apply Subtype.ext; funext u
    exact (hasDerivAt_algebraMap F.b2 (F.b3 u) u (F.h23 u)).deriv

/-- the loop body at the point `u`, in the matrix ring -/
noncomputable def stepAt (u : ℝ) (s : AState (Mx n)) : AState (Mx n) :=
  stepFormula (NormedSpace.exp (F.b0 u • F.A)) (NormedSpace.exp (-(F.b0 u • F.A))) F.A
    (algebraMap ℝ (Mx n) (F.b1 u)) (algebraMap ℝ (Mx n) (F.b2 u)) (algebraMap ℝ (Mx n) (F.b3 u)) s

end FacData

/-- evaluation of a state of smooth functions at a point -/
def evalState {n : ℕ} (u : ℝ) (s : AState (SM n)) : AState (Mx n) :=
  ⟨s.g.1 u, s.gi.1 u, s.vel.1 u, s.acc.1 u, s.jer.1 u⟩

theorem evalState_stepA {n : ℕ} (F : FacData n) (u : ℝ) (s : AState (SM n)) :
    evalState u (stepA F.toFactor s) = F.stepAt u (evalState u s) := by
  have hneg : NormedSpace.exp ((-F.b0 u) • F.A) = NormedSpace.exp (-(F.b0 u • F.A)) := by rw [neg_smul]
  simp only [evalState, stepA, stepFormula, FacData.stepAt, FacData.toFactor, SM.expSmul, SM.const, SM.scalar]
  rw [← hneg]
  rfl

/-- the pointwise loop: the code's recursion on the factors `exp(b₀(u)•A)` at `u` -/
noncomputable def curveAt {n : ℕ} (l : List (FacData n)) (u : ℝ) : AState (Mx n) :=
  l.foldl (fun s F => F.stepAt u s) initA

/-- the loop in the smooth ring -/
noncomputable def curveSM {n : ℕ} (l : List (FacData n)) : AState (SM n) :=
  l.foldl (fun s F => stepA F.toFactor s) initA

theorem evalState_foldl {n : ℕ} (u : ℝ) (l : List (FacData n)) (s : AState (SM n)) :
    evalState u (l.foldl (fun s F => stepA F.toFactor s) s) = l.foldl (fun s F => F.stepAt u s) (evalState u s) := by
  induction l generalizing s with
  | nil => rfl
  | cons F l ih => simp only [List.foldl_cons]; rw [ih, evalState_stepA]

theorem evalState_curveSM {n : ℕ} (l : List (FacData n)) (u : ℝ) : evalState u (curveSM l) = curveAt l u := by
  unfold curveSM curveAt
  rw [evalState_foldl]
  rfl

theorem curveSM_good {n : ℕ} (l : List (FacData n)) : Good (dU n) (curveSM l) := by
  have h := good_foldl (l.map FacData.toFactor) initA (good_init (d := dU n))
  rw [List.foldl_map] at h
  exact h

/-- **value**: `d/du g = g · vel` -/
theorem curveAt_hasDerivAt_g {n : ℕ} (l : List (FacData n)) (u : ℝ) :
    HasDerivAt (fun u => (curveAt l u).g) ((curveAt l u).g * (curveAt l u).vel) u := by
  have hgood := curveSM_good l
  have hfun : (fun u => (curveAt l u).g) = (curveSM l).g.1 := by
    funext u; rw [← evalState_curveSM]; rfl
  have hd := SM.hasDerivAt (curveSM l).g u
  have hv : (curveAt l u).vel = (curveSM l).gi.1 u * deriv (curveSM l).g.1 u := by
    rw [← evalState_curveSM]
    show (curveSM l).vel.1 u = _
    rw [hgood.vel]; rfl
  have hg : (curveAt l u).g = (curveSM l).g.1 u := by rw [← evalState_curveSM]; rfl
  have hone : (curveSM l).g.1 u * (curveSM l).gi.1 u = 1 := by
    have := congrArg (fun f : SM n => f.1 u) hgood.g_gi
    exact this
  rw [hfun, hv, hg, ← mul_assoc, hone, one_mul]
  exact hd

/-- **velocity**: `d/du vel = acc` -/
theorem curveAt_hasDerivAt_vel {n : ℕ} (l : List (FacData n)) (u : ℝ) :
    HasDerivAt (fun u => (curveAt l u).vel) ((curveAt l u).acc) u := by
  have hgood := curveSM_good l
  have hfun : (fun u => (curveAt l u).vel) = (curveSM l).vel.1 := by
    funext u; rw [← evalState_curveSM]; rfl
  have ha : (curveAt l u).acc = deriv (curveSM l).vel.1 u := by
    rw [← evalState_curveSM]
    show (curveSM l).acc.1 u = _
    rw [hgood.acc]; rfl
  rw [hfun, ha]
  exact SM.hasDerivAt _ u

/-- **acceleration**: `d/du acc = jer` -/
theorem curveAt_hasDerivAt_acc {n : ℕ} (l : List (FacData n)) (u : ℝ) :
    HasDerivAt (fun u => (curveAt l u).acc) ((curveAt l u).jer) u := by
  have hgood := curveSM_good l
  have hfun : (fun u => (curveAt l u).acc) = (curveSM l).acc.1 := by
    funext u; rw [← evalState_curveSM]; rfl
  have ha : (curveAt l u).jer = deriv (curveSM l).acc.1 u := by
    rw [← evalState_curveSM]
    show (curveSM l).jer.1 u = _
    rw [hgood.jer]; rfl
  rw [hfun, ha]
  exact SM.hasDerivAt _ u

end C11
