/-
  C01Base.lean — bridge between the model's linear algebra (`Lin.vsum`, `mmul`, `ident`, `mulVec`)
  at `α := ℝ` and Mathlib's `Finset.sum` / `Matrix` algebra.

  `toM A` is the Mathlib matrix with the same entries as the model matrix `A`; `toM_mmul`,
  `toM_ident`, `toM_mulVec` say that the model operations ARE Mathlib's product, `1` and `mulVec`.
-/
import SmoothProofs.Real
import Mathlib.Tactic.Ring
import Mathlib.Tactic.FinCases
import Mathlib.Tactic.LinearCombination
import Mathlib.Tactic.FieldSimp
import Mathlib.Data.Matrix.Mul
import Mathlib.Algebra.BigOperators.Fin

open Lin Scalar

namespace Lin

/-- the left-to-right sum of the model is the `Finset` sum -/
theorem vsum_eq_sum (n : Nat) (f : Fin n → ℝ) : vsum n f = ∑ i, f i := by
  induction n with
  | zero => simp [vsum]
  | succ n ih => rw [vsum, ih, Fin.sum_univ_castSucc]

/-- the Mathlib matrix with the entries of a model matrix -/
def toM {n m : Nat} (A : Mat ℝ n m) : Matrix (Fin n) (Fin m) ℝ := Matrix.of A.get

/-- the Mathlib vector (function) with the entries of a model vector -/
def toV {n : Nat} (v : Vec ℝ n) : Fin n → ℝ := v.get

@[simp] theorem toM_apply {n m : Nat} (A : Mat ℝ n m) (i : Fin n) (j : Fin m) : toM A i j = A i j := rfl
@[simp] theorem toV_apply {n : Nat} (v : Vec ℝ n) (i : Fin n) : toV v i = v i := rfl

theorem toM_inj {n m : Nat} {A B : Mat ℝ n m} (h : toM A = toM B) : A = B := by
  ext i j
  have := congrFun (congrFun h i) j
  simpa using this

theorem toV_inj {n : Nat} {a b : Vec ℝ n} (h : toV a = toV b) : a = b := by
  ext i
  exact congrFun h i

theorem mmul_apply {n k m : Nat} (A : Mat ℝ n k) (B : Mat ℝ k m) (i : Fin n) (j : Fin m) :
    (mmul A B) i j = ∑ l, A i l * B l j := by
  simp [mmul, vsum_eq_sum]

theorem mulVec_apply {n m : Nat} (A : Mat ℝ n m) (v : Vec ℝ m) (i : Fin n) :
    (mulVec A v) i = ∑ l, A i l * v l := by
  simp [mulVec, vsum_eq_sum]

theorem ident_apply {n : Nat} (i j : Fin n) : (ident n : Mat ℝ n n) i j = if i = j then 1 else 0 := by
  simp [ident]

/-- the model product is Mathlib's matrix product -/
theorem toM_mmul {n k m : Nat} (A : Mat ℝ n k) (B : Mat ℝ k m) : toM (mmul A B) = toM A * toM B := by
  ext i j
  simp [mmul_apply, Matrix.mul_apply]

/-- the model identity is Mathlib's `1` -/
theorem toM_ident (n : Nat) : toM (ident n : Mat ℝ n n) = 1 := by
  ext i j
  simp [ident_apply, Matrix.one_apply]

/-- the model matrix–vector product is Mathlib's `mulVec` -/
theorem toV_mulVec {n m : Nat} (A : Mat ℝ n m) (v : Vec ℝ m) :
    toV (mulVec A v) = Matrix.mulVec (toM A) (toV v) := by
  ext i
  simp [mulVec_apply, Matrix.mulVec, dotProduct]

theorem mmul_assoc {n k l m : Nat} (A : Mat ℝ n k) (B : Mat ℝ k l) (C : Mat ℝ l m) :
    mmul (mmul A B) C = mmul A (mmul B C) := by
  apply toM_inj
  simp only [toM_mmul, Matrix.mul_assoc]

theorem mmul_ident {n m : Nat} (A : Mat ℝ n m) : mmul A (ident m) = A := by
  apply toM_inj
  simp only [toM_mmul, toM_ident, Matrix.mul_one]

theorem ident_mmul {n m : Nat} (A : Mat ℝ n m) : mmul (ident n) A = A := by
  apply toM_inj
  simp only [toM_mmul, toM_ident, Matrix.one_mul]

theorem mulVec_mmul {n k m : Nat} (A : Mat ℝ n k) (B : Mat ℝ k m) (v : Vec ℝ m) :
    mulVec (mmul A B) v = mulVec A (mulVec B v) := by
  apply toV_inj
  simp only [toV_mulVec, toM_mmul, Matrix.mulVec_mulVec]

theorem ident_mulVec {n : Nat} (v : Vec ℝ n) : mulVec (ident n) v = v := by
  apply toV_inj
  simp only [toV_mulVec, toM_ident, Matrix.one_mulVec]

end Lin
