/-
  C11InstDexp.lean — the derivative of the exponential in a non-commuting direction (Duhamel's
  formula), in the form the Jacobians of C11 need.  General complete normed ℝ-algebras first
  (`𝔸`, `𝔹`), real matrices at the end.

  * `phiSeries M s = Σ_k s^{k+1}/(k+1)! • M^k` is an antiderivative of `s ↦ exp (s • M)`
    (`hasDerivAt_phiSeries`), `phiSeries M 0 = 0`;
  * `hasDerivAt_exp_add_smul` (Duhamel): `d/dε exp(A + ε•W)|₀ = exp A · ∫₀¹ exp(−sA) W exp(sA) ds`;
  * `phiSeries_one_eq_exp_mul`: `φ_L(1) = exp L · φ_{−L}(1)` — "dr_exp(−a) = Ad(exp a)·dr_exp(a)";
  * matrices: `mx_phiSeries_neg_one_eq` (`φ_{−L}(1)` is the matrix whose entries are
    `Σ_k (−1)^k/(k+1)! (L^k)_{jr}` — the series C04 proves to be `dr_exp`), and
    `mx_hasDerivAt_exp_of_intertwine`: if a linear `H` intertwines `L` with the commutator by `A`
    (C03 `ad_def`) then `d/dε exp(A + ε•H w)|₀ = exp A · H (φ_{−L}(1) w)`
    — "dr_exp is the right Jacobian of exp".
-/
import SmoothProofs.C11InstSmooth
import SmoothProofs.C03Hadamard
import Mathlib.Analysis.Calculus.SmoothSeries
import Mathlib.Analysis.Calculus.Deriv.Pow
import Mathlib.Analysis.Calculus.Deriv.Slope
import Mathlib.MeasureTheory.Integral.IntervalIntegral.FundThmCalculus
import Mathlib.MeasureTheory.Integral.DominatedConvergence
import Mathlib.Analysis.Normed.Module.Convex

open NormedSpace
open scoped Topology Nat

namespace C11

section general
set_option linter.unusedSectionVars false
variable {𝔸 : Type*} [NormedRing 𝔸] [NormedAlgebra ℝ 𝔸] [CompleteSpace 𝔸]

/-- `φ_M(s) = Σ_k s^{k+1}/(k+1)! • M^k` (so `φ_M(s) = ∫₀ˢ exp(t M) dt`) -/
noncomputable def phiSeries (M : 𝔸) (s : ℝ) : 𝔸 :=
  ∑' k : ℕ, (s ^ (k + 1) / ((k + 1).factorial : ℝ)) • M ^ k

theorem phiSeries_zero (M : 𝔸) : phiSeries M 0 = 0 := by
  unfold phiSeries
  have : ∀ k : ℕ, ((0 : ℝ) ^ (k + 1) / ((k + 1).factorial : ℝ)) • M ^ k = 0 := by
    intro k; rw [zero_pow (Nat.succ_ne_zero k), zero_div, zero_smul]
  simp only [this, tsum_zero]

theorem phiSeries_term_hasDerivAt (M : 𝔸) (k : ℕ) (y : ℝ) :
    HasDerivAt (fun y : ℝ => (y ^ (k + 1) / ((k + 1).factorial : ℝ)) • M ^ k)
      ((((k.factorial : ℝ))⁻¹ * y ^ k) • M ^ k) y := by
  have h1 := ((hasDerivAt_pow (k + 1) y).div_const ((k + 1).factorial : ℝ)).smul_const (M ^ k)
  have e : ((k + 1 : ℕ) : ℝ) * y ^ (k + 1 - 1) / ((k + 1).factorial : ℝ) = ((k.factorial : ℝ))⁻¹ * y ^ k := by
    rw [Nat.add_sub_cancel, Nat.factorial_succ]
    have h2 : ((k + 1 : ℕ) : ℝ) ≠ 0 := by exact_mod_cast Nat.succ_ne_zero k
    have h3 : (k.factorial : ℝ) ≠ 0 := by exact_mod_cast Nat.factorial_ne_zero k
    push_cast
    field_simp
  rw [e] at h1
  exact h1

theorem phiSeries_bound (M : 𝔸) (R : ℝ) (hR0 : 0 ≤ R) (k : ℕ) (y : ℝ) (hy : y ∈ Metric.ball (0 : ℝ) R) :
    ‖(((k.factorial : ℝ))⁻¹ * y ^ k) • M ^ k‖ ≤ ‖((k.factorial : ℝ)⁻¹) • (R • M) ^ k‖ := by
  rw [Metric.mem_ball, dist_zero_right, Real.norm_eq_abs] at hy
  rw [smul_pow, norm_smul, norm_smul, norm_smul, norm_mul, mul_assoc]
  apply mul_le_mul_of_nonneg_left _ (norm_nonneg _)
  apply mul_le_mul_of_nonneg_right _ (norm_nonneg _)
  rw [Real.norm_eq_abs, Real.norm_eq_abs, abs_pow, abs_pow, abs_of_nonneg hR0]
  exact pow_le_pow_left₀ (abs_nonneg y) hy.le k

theorem phiSeries_summable0 (M : 𝔸) :
    Summable fun k : ℕ => ((0 : ℝ) ^ (k + 1) / ((k + 1).factorial : ℝ)) • M ^ k := by
  have : ∀ k : ℕ, ((0 : ℝ) ^ (k + 1) / ((k + 1).factorial : ℝ)) • M ^ k = 0 := by
    intro k; rw [zero_pow (Nat.succ_ne_zero k), zero_div, zero_smul]
  simp only [this]
  exact summable_zero

theorem phiSeries_summable (M : 𝔸) (s : ℝ) :
    Summable fun k : ℕ => (s ^ (k + 1) / ((k + 1).factorial : ℝ)) • M ^ k := by
  obtain ⟨R, hR⟩ : ∃ R : ℝ, R = |s| + 1 := ⟨_, rfl⟩
  have hR0 : 0 ≤ R := by rw [hR]; positivity
  have hs : s ∈ Metric.ball (0 : ℝ) R := by
    rw [Metric.mem_ball, dist_zero_right, Real.norm_eq_abs, hR]; linarith
  have h0 : (0 : ℝ) ∈ Metric.ball (0 : ℝ) R := by
    rw [Metric.mem_ball, dist_self, hR]; positivity
  have hu : Summable fun k : ℕ => ‖((k.factorial : ℝ)⁻¹) • (R • M) ^ k‖ :=
    NormedSpace.norm_expSeries_summable' (𝕂 := ℝ) (R • M)
  exact summable_of_summable_hasDerivAt_of_isPreconnected (𝕜 := ℝ)
    (g := fun (k : ℕ) (y : ℝ) => (y ^ (k + 1) / ((k + 1).factorial : ℝ)) • M ^ k)
    (g' := fun (k : ℕ) (y : ℝ) => (((k.factorial : ℝ))⁻¹ * y ^ k) • M ^ k)
    (t := Metric.ball (0 : ℝ) R) (y₀ := 0) (y := s) hu Metric.isOpen_ball
    (convex_ball (0 : ℝ) R).isPreconnected
    (fun k y _ => phiSeries_term_hasDerivAt M k y) (phiSeries_bound M R hR0) h0 (phiSeries_summable0 M) hs

/-- `d/ds φ_M(s) = exp (s • M)` -/
theorem hasDerivAt_phiSeries (M : 𝔸) (s : ℝ) : HasDerivAt (phiSeries M) (NormedSpace.exp (s • M)) s := by
  obtain ⟨R, hR⟩ : ∃ R : ℝ, R = |s| + 1 := ⟨_, rfl⟩
  have hR0 : 0 ≤ R := by rw [hR]; positivity
  have hs : s ∈ Metric.ball (0 : ℝ) R := by
    rw [Metric.mem_ball, dist_zero_right, Real.norm_eq_abs, hR]; linarith
  have h0 : (0 : ℝ) ∈ Metric.ball (0 : ℝ) R := by
    rw [Metric.mem_ball, dist_self, hR]; positivity
  have hu : Summable fun k : ℕ => ‖((k.factorial : ℝ)⁻¹) • (R • M) ^ k‖ :=
    NormedSpace.norm_expSeries_summable' (𝕂 := ℝ) (R • M)
  have h := hasDerivAt_tsum_of_isPreconnected (𝕜 := ℝ) hu Metric.isOpen_ball
    (convex_ball (0 : ℝ) R).isPreconnected
    (fun k y _ => phiSeries_term_hasDerivAt M k y) (phiSeries_bound M R hR0) h0 (phiSeries_summable0 M) hs
  have e : (∑' k : ℕ, (((k.factorial : ℝ))⁻¹ * s ^ k) • M ^ k) = NormedSpace.exp (s • M) := by
    rw [NormedSpace.exp_eq_tsum ℝ]
    apply tsum_congr
    intro k
    rw [smul_pow, smul_smul]
  exact e ▸ h

theorem exp_mul_exp_neg' (A : 𝔸) : NormedSpace.exp A * NormedSpace.exp (-A) = 1 := by
  have hmem : ∀ x : 𝔸, x ∈ Metric.eball (0 : 𝔸) (expSeries ℝ 𝔸).radius := fun x =>
    (expSeries_radius_eq_top ℝ 𝔸).symm ▸ edist_lt_top _ _
  rw [← exp_add_of_commute_of_mem_ball (𝕂 := ℝ) ((Commute.refl A).neg_right) (hmem _) (hmem _)]
  simp

/-- `φ_L(1) = exp L · φ_{−L}(1)` (`∫₀¹ e^{sL} ds = e^L ∫₀¹ e^{−sL} ds`) -/
theorem phiSeries_one_eq_exp_mul (L : 𝔸) :
    phiSeries L 1 = NormedSpace.exp L * phiSeries (-L) 1 := by
  let Z : ℝ → 𝔸 := fun s => phiSeries L s + NormedSpace.exp L * phiSeries (-L) (1 - s)
  have hZ : ∀ s, HasDerivAt Z 0 s := by
    intro s
    have h1 := hasDerivAt_phiSeries L s
    have h2 : HasDerivAt (fun s : ℝ => phiSeries (-L) (1 - s)) (-(NormedSpace.exp ((1 - s) • (-L)))) s := by
      have hin : HasDerivAt (fun s : ℝ => 1 - s) (-1) s := by
        simpa using (hasDerivAt_id s).const_sub 1
      have h := HasDerivAt.scomp s (hasDerivAt_phiSeries (-L) (1 - s)) hin
      rw [neg_one_smul] at h
      exact h
    have h3 := h1.add (h2.const_mul (NormedSpace.exp L))
    refine h3.congr_deriv ?_
    have hcomm : Commute L ((1 - s) • (-L)) := ((Commute.refl L).neg_right).smul_right _
    have hmem : ∀ x : 𝔸, x ∈ Metric.eball (0 : 𝔸) (expSeries ℝ 𝔸).radius := fun x =>
      (expSeries_radius_eq_top ℝ 𝔸).symm ▸ edist_lt_top _ _
    have e : NormedSpace.exp L * NormedSpace.exp ((1 - s) • (-L)) = NormedSpace.exp (s • L) := by
      rw [← exp_add_of_commute_of_mem_ball (𝕂 := ℝ) hcomm (hmem _) (hmem _)]
      congr 1
      rw [smul_neg, sub_smul, one_smul]; abel
    rw [mul_neg, e, add_neg_cancel]
  have hconst : Z 1 = Z 0 := by
    have hdiff : Differentiable ℝ Z := fun x => (hZ x).differentiableAt
    exact is_const_of_deriv_eq_zero hdiff (fun x => (hZ x).deriv) 1 0
  have e1 : Z 1 = phiSeries L 1 := by
    show phiSeries L 1 + NormedSpace.exp L * phiSeries (-L) (1 - 1) = _
    rw [sub_self, phiSeries_zero, mul_zero, add_zero]
  have e0 : Z 0 = NormedSpace.exp L * phiSeries (-L) 1 := by
    show phiSeries L 0 + NormedSpace.exp L * phiSeries (-L) (1 - 0) = _
    rw [phiSeries_zero, zero_add, sub_zero]
  rw [← e1, hconst, e0]

/-- the Duhamel integrand `exp(−sA)·W·exp(s(A+εW))` -/
noncomputable def duhamelF (A W : 𝔸) (ε s : ℝ) : 𝔸 :=
  NormedSpace.exp (s • (-A)) * W * NormedSpace.exp (s • (A + ε • W))

theorem continuous_duhamelF (A W : 𝔸) : Continuous (Function.uncurry (duhamelF A W)) := by
  unfold duhamelF Function.uncurry
  have hexp : Continuous (NormedSpace.exp : 𝔸 → 𝔸) :=
    continuous_iff_continuousAt.2 fun x => (NormedSpace.exp_analytic (𝕂 := ℝ) x).continuousAt
  have h1 : Continuous fun p : ℝ × ℝ => NormedSpace.exp (p.2 • (-A)) :=
    hexp.comp (continuous_snd.smul continuous_const)
  have h2 : Continuous fun p : ℝ × ℝ => NormedSpace.exp (p.2 • (A + p.1 • W)) :=
    hexp.comp (continuous_snd.smul (continuous_const.add (continuous_fst.smul continuous_const)))
  exact (h1.mul continuous_const).mul h2

/-- `exp(−A)·exp(A+εW) − 1 = ε • ∫₀¹ exp(−sA)·W·exp(s(A+εW)) ds` -/
theorem duhamel_identity (A W : 𝔸) (ε : ℝ) :
    NormedSpace.exp (-A) * NormedSpace.exp (A + ε • W) - 1
      = ε • ∫ s in (0:ℝ)..1, duhamelF A W ε s := by
  let Ψ : ℝ → 𝔸 := fun s => NormedSpace.exp (s • (-A)) * NormedSpace.exp (s • (A + ε • W))
  have hΨ : ∀ s, HasDerivAt Ψ (ε • duhamelF A W ε s) s := by
    intro s
    have hm : HasDerivAt (fun s : ℝ => NormedSpace.exp (s • (-A))) (NormedSpace.exp (s • (-A)) * (-A)) s :=
      hasDerivAt_exp_smul_const (𝕂 := ℝ) (-A) s
    have hp : HasDerivAt (fun s : ℝ => NormedSpace.exp (s • (A + ε • W)))
        ((A + ε • W) * NormedSpace.exp (s • (A + ε • W))) s :=
      hasDerivAt_exp_smul_const' (𝕂 := ℝ) (A + ε • W) s
    have h := hm.mul hp
    refine h.congr_deriv ?_
    unfold duhamelF
    have e : ε • (NormedSpace.exp (s • (-A)) * W * NormedSpace.exp (s • (A + ε • W)))
        = NormedSpace.exp (s • (-A)) * (ε • W) * NormedSpace.exp (s • (A + ε • W)) := by
      rw [mul_smul_comm, smul_mul_assoc]
    rw [e]
    noncomm_ring
  have hint : IntervalIntegrable (fun s => ε • duhamelF A W ε s) MeasureTheory.volume 0 1 := by
    apply Continuous.intervalIntegrable
    have hc : Continuous fun s : ℝ => duhamelF A W ε s :=
      (continuous_duhamelF A W).comp (continuous_const.prodMk continuous_id)
    exact hc.const_smul ε
  have hftc := intervalIntegral.integral_eq_sub_of_hasDerivAt (f := Ψ) (f' := fun s => ε • duhamelF A W ε s)
    (a := 0) (b := 1) (fun s _ => hΨ s) hint
  rw [intervalIntegral.integral_smul] at hftc
  rw [hftc]
  show _ = NormedSpace.exp ((1 : ℝ) • (-A)) * NormedSpace.exp ((1 : ℝ) • (A + ε • W))
      - NormedSpace.exp ((0 : ℝ) • (-A)) * NormedSpace.exp ((0 : ℝ) • (A + ε • W))
  simp

/-- **Duhamel's formula at `ε = 0`** -/
theorem hasDerivAt_exp_add_smul (A W : 𝔸) :
    HasDerivAt (fun ε : ℝ => NormedSpace.exp (A + ε • W))
      (NormedSpace.exp A * ∫ s in (0:ℝ)..1, duhamelF A W 0 s) 0 := by
  let I : ℝ → 𝔸 := fun ε => ∫ s in (0:ℝ)..1, duhamelF A W ε s
  have hI : Continuous I :=
    intervalIntegral.continuous_parametric_intervalIntegral_of_continuous' (continuous_duhamelF A W) 0 1
  have hf : ∀ ε : ℝ, NormedSpace.exp (A + ε • W) = NormedSpace.exp A * (1 + ε • I ε) := by
    intro ε
    have h := duhamel_identity A W ε
    have h2 : NormedSpace.exp (-A) * NormedSpace.exp (A + ε • W) = 1 + ε • I ε := by
      rw [← h]; abel
    calc NormedSpace.exp (A + ε • W)
        = (NormedSpace.exp A * NormedSpace.exp (-A)) * NormedSpace.exp (A + ε • W) := by
          rw [exp_mul_exp_neg', one_mul]
      _ = NormedSpace.exp A * (1 + ε • I ε) := by rw [mul_assoc, h2]
  rw [hasDerivAt_iff_tendsto_slope]
  have hslope : ∀ ε : ℝ, ε ≠ 0 →
      slope (fun ε : ℝ => NormedSpace.exp (A + ε • W)) 0 ε = NormedSpace.exp A * I ε := by
    intro ε hε
    rw [slope_def_module, hf ε, hf 0, sub_zero, zero_smul, add_zero, mul_one, mul_add, mul_one,
      add_sub_cancel_left, mul_smul_comm, smul_smul, inv_mul_cancel₀ hε, one_smul]
  have hlim : Filter.Tendsto (fun ε => NormedSpace.exp A * I ε) (𝓝[≠] 0) (𝓝 (NormedSpace.exp A * I 0)) :=
    ((continuous_const.mul hI).tendsto 0).mono_left nhdsWithin_le_nhds
  refine hlim.congr' ?_
  filter_upwards [self_mem_nhdsWithin] with ε hε
  exact (hslope ε hε).symm

/-- the integral in Duhamel's formula through an antiderivative -/
theorem duhamel_integral_eq (A W : 𝔸) (Θ : ℝ → 𝔸)
    (hΘ : ∀ s, HasDerivAt Θ (NormedSpace.exp (s • (-A)) * W * NormedSpace.exp (s • A)) s) :
    ∫ s in (0:ℝ)..1, duhamelF A W 0 s = Θ 1 - Θ 0 := by
  have he : ∀ s, duhamelF A W 0 s = NormedSpace.exp (s • (-A)) * W * NormedSpace.exp (s • A) := by
    intro s; unfold duhamelF; rw [zero_smul, add_zero]
  have hint : IntervalIntegrable (fun s => duhamelF A W 0 s) MeasureTheory.volume 0 1 := by
    apply Continuous.intervalIntegrable
    exact (continuous_duhamelF A W).comp (continuous_const.prodMk continuous_id)
  exact intervalIntegral.integral_eq_sub_of_hasDerivAt (f := Θ) (f' := fun s => duhamelF A W 0 s)
    (fun s _ => by rw [he]; exact hΘ s) hint

/-- Duhamel with the integral evaluated: if `T` is continuous linear from another algebra `𝔹` with
    `T (exp (s•(−L))) = exp(−sA)·W·exp(sA)` for all `s`, then
    `d/dε exp(A + ε•W)|₀ = exp A · T (φ_{−L}(1))`. -/
theorem hasDerivAt_exp_of_conj {𝔹 : Type*} [NormedRing 𝔹] [NormedAlgebra ℝ 𝔹] [CompleteSpace 𝔹]
    (A W : 𝔸) (L : 𝔹) (T : 𝔹 →L[ℝ] 𝔸)
    (hT : ∀ s : ℝ, T (NormedSpace.exp (s • (-L))) = NormedSpace.exp (s • (-A)) * W * NormedSpace.exp (s • A)) :
    HasDerivAt (fun ε : ℝ => NormedSpace.exp (A + ε • W)) (NormedSpace.exp A * T (phiSeries (-L) 1)) 0 := by
  have hD := hasDerivAt_exp_add_smul A W
  let Θ : ℝ → 𝔸 := fun s => T (phiSeries (-L) s)
  have hΘ : ∀ s, HasDerivAt Θ (NormedSpace.exp (s • (-A)) * W * NormedSpace.exp (s • A)) s := by
    intro s
    have h2 : HasDerivAt Θ (T (NormedSpace.exp (s • (-L)))) s :=
      T.hasFDerivAt.comp_hasDerivAt s (hasDerivAt_phiSeries (-L) s)
    rw [hT s] at h2
    exact h2
  have hI := duhamel_integral_eq A W Θ hΘ
  rw [hI] at hD
  have e0 : Θ 0 = 0 := by
    show T (phiSeries (-L) 0) = 0
    rw [phiSeries_zero, map_zero]
  rw [e0, sub_zero] at hD
  exact hD

end general

/-! ### real matrices -/
section matrices

attribute [local instance] Matrix.linftyOpNormedRing Matrix.linftyOpNormedAlgebra

variable {n d : ℕ}

/-- `φ_{−L}(1) = Σ_k (−1)^k/(k+1)! • L^k`, entrywise: any matrix whose entries are the sums of the
    entry series (the form of C04 `…_drExp_eq_series`) is `φ_{−L}(1)` -/
theorem mx_phiSeries_neg_one_eq (L J : Mx d)
    (hJ : ∀ j r : Fin d, HasSum (fun k : ℕ => (-1 : ℝ) ^ k / ((k + 1).factorial : ℝ) * (L ^ k) j r) (J j r)) :
    phiSeries (-L) 1 = J := by
  have hsum := (phiSeries_summable (-L) 1).hasSum
  ext j r
  have hc : Continuous fun X : Mx d => X j r :=
    (continuous_apply r).comp ((continuous_apply j).comp continuous_id)
  have hentry : HasSum (fun k : ℕ => (((1 : ℝ) ^ (k + 1) / ((k + 1).factorial : ℝ)) • (-L) ^ k) j r)
      ((phiSeries (-L) 1) j r) :=
    hsum.map (⟨⟨fun X : Mx d => X j r, rfl⟩, fun X Y => rfl⟩ : Mx d →+ ℝ) hc
  have hterm : (fun k : ℕ => (((1 : ℝ) ^ (k + 1) / ((k + 1).factorial : ℝ)) • (-L) ^ k) j r)
      = fun k : ℕ => (-1 : ℝ) ^ k / ((k + 1).factorial : ℝ) * (L ^ k) j r := by
    funext k
    have e : (-L) ^ k = ((-1 : ℝ) ^ k) • L ^ k := by
      rw [← neg_one_smul ℝ L, smul_pow]
    rw [one_pow, e, smul_smul, Matrix.smul_apply, smul_eq_mul]
    ring
  rw [hterm] at hentry
  exact hentry.unique (hJ j r)

/-- **`dr_exp` is the right Jacobian of `exp`, abstractly.**  If the linear map `H : ℝᵈ → n×n`
    intertwines the `d×d` matrix `L` with the commutator by `A` (`ad_def`), then
    `d/dε exp(A + ε•H w)|₀ = exp A · H (φ_{−L}(1) w)`, `φ_{−L}(1) = Σ_k (−1)^k L^k/(k+1)!`. -/
theorem mx_hasDerivAt_exp_of_intertwine (A : Mx n) (L : Mx d)
    (H : (Fin d → ℝ) →ₗ[ℝ] Mx n) (hH : ∀ v, H (L.mulVec v) = A * H v - H v * A) (w : Fin d → ℝ) :
    HasDerivAt (fun ε : ℝ => NormedSpace.exp (A + ε • H w))
      (NormedSpace.exp A * H ((phiSeries (-L) 1).mulVec w)) 0 := by
  let T : Mx d →L[ℝ] Mx n := LinearMap.toContinuousLinearMap (H ∘ₗ C03.mvL w)
  have hT : ∀ P, T P = H (P.mulVec w) := fun P => rfl
  have hconj : ∀ s : ℝ, T (NormedSpace.exp (s • (-L)))
      = NormedSpace.exp (s • (-A)) * H w * NormedSpace.exp (s • A) := by
    intro s
    rw [hT]
    have hi := C03.hadamard_intertwine A L H hH w (-s)
    have e1 : (-s) • L = s • (-L) := by rw [neg_smul, smul_neg]
    have e2 : (-s) • A = s • (-A) := by rw [neg_smul, smul_neg]
    have e3 : (-s) • (-A) = s • A := by rw [neg_smul, smul_neg, neg_neg]
    rw [e1, e2, e3] at hi
    exact hi
  have h := hasDerivAt_exp_of_conj A (H w) L T hconj
  exact h

end matrices

end C11
