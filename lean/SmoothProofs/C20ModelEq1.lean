/-
  C20ModelEq1.lean — the literal tables of C20Exact.lean ARE the model's tables at `Rat`
  (kernel evaluation of the model, once per table).
-/
import SmoothProofs.C20Tables
import SmoothProofs.C20Exact

namespace C20T
open Poly
set_option maxRecDepth 100000

theorem basis_eq_exact_Bernstein : ∀ K, K ≤ 10 → basis (α := Q) .Bernstein K = Exact.basis .Bernstein K := by
  decide +kernel

theorem basis_eq_exact_Bspline : ∀ K, K ≤ 10 → basis (α := Q) .Bspline K = Exact.basis .Bspline K := by
  decide +kernel

end C20T
