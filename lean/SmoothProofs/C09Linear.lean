/-
  C09Linear.lean — over ℝ: what `minimize` decides on a LINEAR least-squares problem, where the residual at the trial
  point is the linearised residual (`‖f(x ⊕ dx)‖ = ‖r + J dx‖`): the gain ratio is exactly 1 whenever it is defined, so both
  built-in strategies take every step, Ceres triples `Δ` and resets `m_reduce`, Disney resets `Δ` to 1000, and the
  iteration is accepted — no step is ever rejected on a linear problem.
-/
import SmoothProofs.C09Mono

open Scalar

namespace C09Linear

open Optim C09Loop C09Mono

/-- actual and predicted reduction coincide when the trial residual is the linearised one -/
theorem actu_eq_pred {o : Obs ℝ} (hlin : o.fxpn = o.linn) : actuRed o = predRed o := by
  unfold actuRed predRed; rw [hlin]

/-- `rho = actu_red / pred_red = 1` exactly, whenever `r_n ≠ 0` and `pred_red ≠ 0` (otherwise the C++ quotient is NaN/±inf) -/
theorem rho_one {o : Obs ℝ} (hlin : o.fxpn = o.linn) (hr : o.rn ≠ 0) (hp : predRed o ≠ 0) : rhoOf o = .fin 1 := by
  unfold rhoOf
  rw [if_neg (by rw [isZero_iff]; exact hr)]
  unfold quot
  rw [if_neg (by rw [isZero_iff]; exact hp), actu_eq_pred hlin, div_self hp]

/-- `CeresStrategy::step_and_update(1)`: step taken, `Δ ← 3Δ` (`max(1/3, 1 − (2·1 − 1)³) = 1/3`), `m_reduce ← 2` -/
theorem ceres_on_one (s : Strat ℝ) (hk : s.kind = .ceres) :
    (s.stepAndUpdate (.fin 1)).2 = true ∧ (s.stepAndUpdate (.fin 1)).1.delta = 3 * s.delta
      ∧ (s.stepAndUpdate (.fin 1)).1.reduce = 2 := by
  have hg : (Rho.fin (1:ℝ)).gt (nat 1 / nat 1000) = true := by
    simp only [Rho.gt, Scalar.nat_real, decide_eq_true_eq]; norm_num
  have hd : ceresDiv (Rho.fin (1:ℝ)) = 1 / 3 := by
    unfold ceresDiv
    simp only [Scalar.nat_real]
    unfold Scalar.max
    norm_num
  unfold Strat.stepAndUpdate
  rw [hk]
  dsimp only
  rw [if_pos hg]
  refine ⟨rfl, ?_, ?_⟩
  · show s.delta / ceresDiv (Rho.fin 1) = 3 * s.delta
    rw [hd]; ring
  · show (nat 2 : ℝ) = 2
    simp

/-- `DisneyStrategy::step_and_update(1)`: step taken, `Δ ← 1000` -/
theorem disney_on_one (s : Strat ℝ) (hk : s.kind = .disney) :
    (s.stepAndUpdate (.fin 1)).2 = true ∧ (s.stepAndUpdate (.fin 1)).1.delta = 1000 := by
  have hg : (Rho.fin (1:ℝ)).gt (nat 0) = true := by
    simp only [Rho.gt, Scalar.nat_real, decide_eq_true_eq]; norm_num
  unfold Strat.stepAndUpdate
  rw [hk]
  dsimp only
  rw [if_pos hg]
  refine ⟨rfl, ?_⟩
  show (nat 1000 : ℝ) = 1000
  simp

/-- both built-in strategies take a step with `rho = 1` -/
theorem builtin_takes_one (s : Strat ℝ) : ((builtinOps (α := ℝ)).update s (.fin 1)).2 = true := by
  show (s.stepAndUpdate (.fin 1)).2 = true
  cases hk : s.kind
  · exact (ceres_on_one s hk).1
  · exact (disney_on_one s hk).1

/-- an iteration of `minimize` on a linear problem is always ACCEPTED by the built-in strategies, whatever `Δ` is:
    `r_n == 0` and `pred_red <= 0` accept by the first two clauses of the rule, otherwise `rho = 1` and the strategy takes the step -/
theorem linear_iteration_accepted (opts : Opts ℝ) {X : Type} (s : State X (Strat ℝ)) (o : Obs ℝ) (xp xa : X)
    (hlin : o.fxpn = o.linn) : (advance builtinOps opts s o xp xa).2.accepted = true := by
  rw [advance_accepted]
  unfold acceptRule
  simp only [Bool.or_eq_true, decide_eq_true_eq]
  by_cases hr : o.rn = 0
  · exact Or.inl (Or.inl ((isZero_iff _).2 hr))
  · by_cases hp : predRed o ≤ nat 0
    · exact Or.inl (Or.inr hp)
    · have hp' : predRed o ≠ 0 := by
        intro h; apply hp; rw [h]; simp
      right
      rw [rho_one hlin hr hp']
      exact builtin_takes_one _

end C09Linear
