/-
  C03Small.lean — C03 for SO2, C1 (commutative: `Ad = 1`, `ad = 0` at the API level), SE2 and SO3.
-/
import SmoothProofs.C03Adjoint
import SmoothProofs.C03SO3

open Lin Scalar
set_option linter.unusedSimpArgs false
set_option linter.unusedTactic false
set_option linter.unreachableTactic false
set_option linter.unnecessarySeqFocus false

namespace C03

/-! ### SO2 -/
namespace SO2

/-- documented algebra so(2): skew 2×2 -/
def InAlgebra (A : Mat ℝ 2 2) : Prop := A 0 0 = 0 ∧ A 1 1 = 0 ∧ A 0 1 = -(A 1 0)

theorem vee_hat (a : Vec ℝ 1) : SO2.vee (SO2.hat a) = a := by
  ext i; fin_cases i; simp [SO2.vee, SO2.hat]

theorem hat_inAlgebra (a : Vec ℝ 1) : InAlgebra (SO2.hat a) := by
  simp [InAlgebra, SO2.hat]

theorem hat_vee (A : Mat ℝ 2 2) (h : InAlgebra A) : SO2.hat (SO2.vee A) = A := by
  obtain ⟨h0, h1, h2⟩ := h
  ext i j
  fin_cases i <;> fin_cases j <;> simp [SO2.vee, SO2.hat, h0, h1, h2] <;> ring

theorem hat_add (a b : Vec ℝ 1) : SO2.hat (vadd a b) = madd (SO2.hat a) (SO2.hat b) := by
  ext i j
  fin_cases i <;> fin_cases j <;> simp [SO2.hat, vadd, madd] <;> ring

theorem hat_smul (s : ℝ) (a : Vec ℝ 1) : SO2.hat (vsmul s a) = msmul s (SO2.hat a) := by
  ext i j
  fin_cases i <;> fin_cases j <;> simp [SO2.hat, vsmul, msmul]

/-- commutative group: `matrix g` commutes with every `hat a` (so `Ad = 1` agrees with the matrix
    definition), for all coefficient vectors -/
theorem matrix_hat_comm (g : Vec ℝ 2) (a : Vec ℝ 1) :
    mmul (SO2.matrix g) (SO2.hat a) = mmul (SO2.hat a) (SO2.matrix g) := by
  ext i j
  fin_cases i <;> fin_cases j <;> simp [SO2.matrix, SO2.hat, mmul, vsum] <;> ring

/-- commutative group: all `hat a`, `hat b` commute (so `ad = 0` agrees) -/
theorem hat_comm (a b : Vec ℝ 1) : mmul (SO2.hat a) (SO2.hat b) = mmul (SO2.hat b) (SO2.hat a) := by
  ext i j
  fin_cases i <;> fin_cases j <;> simp [SO2.hat, mmul, vsum] <;> ring

theorem hat_zero : SO2.hat (vzero 1 : Vec ℝ 1) = mzero 2 2 := by
  ext i j
  fin_cases i <;> fin_cases j <;> simp [SO2.hat, vzero, mzero]

/-- API-level form (`Ad = 1` short-cut of lie_group_base.hpp) -/
theorem Ad_def (g : Vec ℝ 2) (a : Vec ℝ 1) :
    mmul (SO2.matrix g) (SO2.hat a) = mmul (SO2.hat (mulVec (ident 1) a)) (SO2.matrix g) := by
  rw [mulVec_ident]; exact matrix_hat_comm g a

/-- API-level form (`ad = 0` short-cut of lie_group_base.hpp) -/
theorem ad_def (a b : Vec ℝ 1) :
    SO2.hat (mulVec (mzero 1 1) b) = msub (mmul (SO2.hat a) (SO2.hat b)) (mmul (SO2.hat b) (SO2.hat a)) := by
  rw [mulVec_mzero, hat_zero, hat_comm a b]; ext i j; simp [msub, mzero]

theorem Ad_composition : (ident 1 : Mat ℝ 1 1) = mmul (ident 1) (ident 1) := by
  ext i j; fin_cases i <;> fin_cases j <;> simp [mmul, ident, vsum]

theorem adjointRep : AdjointRep (SO2.model : LieModel ℝ) (fun _ => True) InAlgebra where
  vee_hat := vee_hat
  hat_inAlg := hat_inAlgebra
  hat_vee := hat_vee
  hat_add := hat_add
  hat_smul := hat_smul
  Ad_def := fun g a _ => Ad_def g a
  ad_def := ad_def
  Ad_comp := fun _ _ _ _ => Ad_composition

end SO2

/-! ### C1 -/
namespace C1

/-- documented algebra of C1: `[[a, −b], [b, a]]` -/
def InAlgebra (A : Mat ℝ 2 2) : Prop := A 0 0 = A 1 1 ∧ A 0 1 = -(A 1 0)

theorem vee_hat (a : Vec ℝ 2) : C1.vee (C1.hat a) = a := by
  ext i; fin_cases i <;> simp [C1.vee, C1.hat] <;> ring

theorem hat_inAlgebra (a : Vec ℝ 2) : InAlgebra (C1.hat a) := by
  simp [InAlgebra, C1.hat]

theorem hat_vee (A : Mat ℝ 2 2) (h : InAlgebra A) : C1.hat (C1.vee A) = A := by
  obtain ⟨h0, h1⟩ := h
  ext i j
  fin_cases i <;> fin_cases j <;> simp [C1.vee, C1.hat, h0, h1] <;> ring

theorem hat_add (a b : Vec ℝ 2) : C1.hat (vadd a b) = madd (C1.hat a) (C1.hat b) := by
  ext i j
  fin_cases i <;> fin_cases j <;> simp [C1.hat, vadd, madd] <;> ring

theorem hat_smul (s : ℝ) (a : Vec ℝ 2) : C1.hat (vsmul s a) = msmul s (C1.hat a) := by
  ext i j
  fin_cases i <;> fin_cases j <;> simp [C1.hat, vsmul, msmul]

theorem matrix_hat_comm (g : Vec ℝ 2) (a : Vec ℝ 2) :
    mmul (C1.matrix g) (C1.hat a) = mmul (C1.hat a) (C1.matrix g) := by
  ext i j
  fin_cases i <;> fin_cases j <;> simp [C1.matrix, C1.hat, mmul, vsum] <;> ring

theorem hat_comm (a b : Vec ℝ 2) : mmul (C1.hat a) (C1.hat b) = mmul (C1.hat b) (C1.hat a) := by
  ext i j
  fin_cases i <;> fin_cases j <;> simp [C1.hat, mmul, vsum] <;> ring

theorem hat_zero : C1.hat (vzero 2 : Vec ℝ 2) = mzero 2 2 := by
  ext i j
  fin_cases i <;> fin_cases j <;> simp [C1.hat, vzero, mzero]

/-- API-level form (`Ad = 1` short-cut of lie_group_base.hpp) -/
theorem Ad_def (g : Vec ℝ 2) (a : Vec ℝ 2) :
    mmul (C1.matrix g) (C1.hat a) = mmul (C1.hat (mulVec (ident 2) a)) (C1.matrix g) := by
  rw [mulVec_ident]; exact matrix_hat_comm g a

/-- API-level form (`ad = 0` short-cut of lie_group_base.hpp) -/
theorem ad_def (a b : Vec ℝ 2) :
    C1.hat (mulVec (mzero 2 2) b) = msub (mmul (C1.hat a) (C1.hat b)) (mmul (C1.hat b) (C1.hat a)) := by
  rw [mulVec_mzero, hat_zero, hat_comm a b]; ext i j; simp [msub, mzero]

theorem Ad_composition : (ident 2 : Mat ℝ 2 2) = mmul (ident 2) (ident 2) := by
  ext i j; fin_cases i <;> fin_cases j <;> simp [mmul, ident, vsum]

theorem adjointRep : AdjointRep (C1.model : LieModel ℝ) (fun _ => True) InAlgebra where
  vee_hat := vee_hat
  hat_inAlg := hat_inAlgebra
  hat_vee := hat_vee
  hat_add := hat_add
  hat_smul := hat_smul
  Ad_def := fun g a _ => Ad_def g a
  ad_def := ad_def
  Ad_comp := fun _ _ _ _ => Ad_composition

end C1

/-! ### SO3 -/
namespace SO3

/-- documented algebra so(3): skew-symmetric 3×3 -/
def InAlgebra (A : Mat ℝ 3 3) : Prop := ∀ i j, A j i = -(A i j)

theorem vee_hat (a : Vec ℝ 3) : SO3.vee (SO3.hat a) = a := by
  ext i; fin_cases i <;> simp [SO3.vee, SO3.hat] <;> ring

theorem hat_inAlgebra (a : Vec ℝ 3) : InAlgebra (SO3.hat a) := by
  intro i j
  fin_cases i <;> fin_cases j <;> simp [SO3.hat]

theorem hat_vee (A : Mat ℝ 3 3) (h : InAlgebra A) : SO3.hat (SO3.vee A) = A := by
  have h00 := h 0 0; have h11 := h 1 1; have h22 := h 2 2
  have h01 := h 0 1; have h02 := h 0 2; have h12 := h 1 2
  ext i j
  fin_cases i <;> fin_cases j <;> simp [SO3.vee, SO3.hat] <;> linarith

theorem hat_add (a b : Vec ℝ 3) : SO3.hat (vadd a b) = madd (SO3.hat a) (SO3.hat b) := by
  ext i j
  fin_cases i <;> fin_cases j <;> simp [SO3.hat, vadd, madd] <;> ring

theorem hat_smul (s : ℝ) (a : Vec ℝ 3) : SO3.hat (vsmul s a) = msmul s (SO3.hat a) := by
  ext i j
  fin_cases i <;> fin_cases j <;> simp [SO3.hat, vsmul, msmul]

/-- `matrix g · hat a = hat (Ad g · a) · matrix g` for unit quaternions -/
theorem Ad_def (g : Vec ℝ 4) (h : UnitQ g) (a : Vec ℝ 3) :
    mmul (SO3.matrix g) (SO3.hat a) = mmul (SO3.hat (mulVec (SO3.Ad g) a)) (SO3.matrix g) :=
  so3_matrix_hat g h a

/-- `hat (ad a · b) = [hat a, hat b]` (ad = hat; this is `hat (a × b) = [hat a, hat b]`) -/
theorem ad_def (a b : Vec ℝ 3) :
    SO3.hat (mulVec (SO3.ad a) b) = msub (mmul (SO3.hat a) (SO3.hat b)) (mmul (SO3.hat b) (SO3.hat a)) := by
  ext i j
  fin_cases i <;> fin_cases j <;> simp [SO3.ad, SO3.hat, mmul, mulVec, msub, vsum] <;> ring

theorem Ad_composition (g₁ g₂ : Vec ℝ 4) (h₁ : UnitQ g₁) (h₂ : UnitQ g₂) :
    SO3.Ad (SO3.composition g₁ g₂) = mmul (SO3.Ad g₁) (SO3.Ad g₂) :=
  so3_matrix_composition g₁ g₂ h₁ h₂

theorem adjointRep : AdjointRep (SO3.model : LieModel ℝ) UnitQ InAlgebra where
  vee_hat := vee_hat
  hat_inAlg := hat_inAlgebra
  hat_vee := hat_vee
  hat_add := hat_add
  hat_smul := hat_smul
  Ad_def := fun g a h => Ad_def g h a
  ad_def := ad_def
  Ad_comp := Ad_composition

end SO3

/-! ### SE2 -/
namespace SE2

/-- representation constraint: unit complex part `(qz, qw)` -/
def IsUnit (g : Vec ℝ 4) : Prop := g 2 * g 2 + g 3 * g 3 = 1

/-- documented algebra se(2): skew 2×2 block, arbitrary last column top, zero last row -/
def InAlgebra (A : Mat ℝ 3 3) : Prop :=
  A 0 0 = 0 ∧ A 1 1 = 0 ∧ A 0 1 = -(A 1 0) ∧ A 2 0 = 0 ∧ A 2 1 = 0 ∧ A 2 2 = 0

theorem vee_hat (a : Vec ℝ 3) : SE2.vee (SE2.hat a) = a := by
  ext i; fin_cases i <;> simp [SE2.vee, SE2.hat]

theorem hat_inAlgebra (a : Vec ℝ 3) : InAlgebra (SE2.hat a) := by
  simp [InAlgebra, SE2.hat]

theorem hat_vee (A : Mat ℝ 3 3) (h : InAlgebra A) : SE2.hat (SE2.vee A) = A := by
  obtain ⟨h0, h1, h2, h3, h4, h5⟩ := h
  ext i j
  fin_cases i <;> fin_cases j <;> simp [SE2.vee, SE2.hat, h0, h1, h2, h3, h4, h5] <;> ring

theorem hat_add (a b : Vec ℝ 3) : SE2.hat (vadd a b) = madd (SE2.hat a) (SE2.hat b) := by
  ext i j
  fin_cases i <;> fin_cases j <;> simp [SE2.hat, vadd, madd] <;> ring

theorem hat_smul (s : ℝ) (a : Vec ℝ 3) : SE2.hat (vsmul s a) = msmul s (SE2.hat a) := by
  ext i j
  fin_cases i <;> fin_cases j <;> simp [SE2.hat, vsmul, msmul]

/-- SE2: holds for all coefficient vectors (no unit constraint needed) -/
theorem Ad_def (g : Vec ℝ 4) (a : Vec ℝ 3) :
    mmul (SE2.matrix g) (SE2.hat a) = mmul (SE2.hat (mulVec (SE2.Ad g) a)) (SE2.matrix g) := by
  ext i j
  fin_cases i <;> fin_cases j <;>
    simp [SE2.matrix, SE2.Ad, SE2.hat, SE2.so2, SO2.matrix, mmul, mulVec, vsum] <;> ring

theorem ad_def (a b : Vec ℝ 3) :
    SE2.hat (mulVec (SE2.ad a) b) = msub (mmul (SE2.hat a) (SE2.hat b)) (mmul (SE2.hat b) (SE2.hat a)) := by
  ext i j
  fin_cases i <;> fin_cases j <;> simp [SE2.ad, SE2.hat, mmul, mulVec, msub, vsum] <;> ring

/-- SE2: `Ad (g₁∘g₂) = Ad g₁·Ad g₂` for all coefficient vectors -/
theorem Ad_composition (g₁ g₂ : Vec ℝ 4) :
    SE2.Ad (SE2.composition g₁ g₂) = mmul (SE2.Ad g₁) (SE2.Ad g₂) := by
  ext i j
  fin_cases i <;> fin_cases j <;>
    simp [SE2.Ad, SE2.composition, SE2.so2, SE2.r2, SO2.matrix, SO2.composition, mmul, mulVec, vadd, vsum] <;>
    ring

theorem adjointRep : AdjointRep (SE2.model : LieModel ℝ) IsUnit InAlgebra where
  vee_hat := vee_hat
  hat_inAlg := hat_inAlgebra
  hat_vee := hat_vee
  hat_add := hat_add
  hat_smul := hat_smul
  Ad_def := fun g a _ => Ad_def g a
  ad_def := ad_def
  Ad_comp := fun g₁ g₂ _ _ => Ad_composition g₁ g₂

end SE2

end C03
