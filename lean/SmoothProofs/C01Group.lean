/-
  C01Group.lean — the abstract statement "the coefficient-level operations of a `LieModel ℝ`
  realise a matrix group on the set `Valid` of admissible coefficient vectors", and its
  consequences (associativity, two-sided identity and inverse at the level of `matrix`, and
  `matrix (inverse g) = (matrix g)⁻¹` with Mathlib's matrix inverse).
-/
import SmoothProofs.C01Base
import Mathlib.LinearAlgebra.Matrix.NonsingularInverse

open Lin Scalar

/-- `G.matrix` is a homomorphism from (`Valid`, `composition`, `inverse`, `identity`) into the
    invertible `dim × dim` matrices; `Valid` is the representation constraint (unit quaternion …). -/
structure IsMatrixGroup (G : LieModel ℝ) (Valid : Vec ℝ G.rep → Prop) : Prop where
  valid_identity : Valid G.identity
  valid_composition : ∀ a b, Valid a → Valid b → Valid (G.composition a b)
  valid_inverse : ∀ a, Valid a → Valid (G.inverse a)
  matrix_identity : G.matrix G.identity = ident G.dim
  matrix_composition : ∀ a b, Valid a → Valid b →
    G.matrix (G.composition a b) = mmul (G.matrix a) (G.matrix b)
  matrix_inverse_left : ∀ a, Valid a → mmul (G.matrix (G.inverse a)) (G.matrix a) = ident G.dim
  matrix_inverse_right : ∀ a, Valid a → mmul (G.matrix a) (G.matrix (G.inverse a)) = ident G.dim

namespace IsMatrixGroup
variable {G : LieModel ℝ} {Valid : Vec ℝ G.rep → Prop} (h : IsMatrixGroup G Valid)
include h

/-- associativity, seen through `matrix` -/
theorem matrix_assoc (a b c : Vec ℝ G.rep) (ha : Valid a) (hb : Valid b) (hc : Valid c) :
    G.matrix (G.composition (G.composition a b) c) = G.matrix (G.composition a (G.composition b c)) := by
  rw [h.matrix_composition _ _ (h.valid_composition a b ha hb) hc, h.matrix_composition a b ha hb,
    h.matrix_composition _ _ ha (h.valid_composition b c hb hc), h.matrix_composition b c hb hc,
    mmul_assoc]

theorem matrix_left_id (a : Vec ℝ G.rep) (ha : Valid a) :
    G.matrix (G.composition G.identity a) = G.matrix a := by
  rw [h.matrix_composition _ _ h.valid_identity ha, h.matrix_identity, ident_mmul]

theorem matrix_right_id (a : Vec ℝ G.rep) (ha : Valid a) :
    G.matrix (G.composition a G.identity) = G.matrix a := by
  rw [h.matrix_composition _ _ ha h.valid_identity, h.matrix_identity, mmul_ident]

theorem matrix_left_inv (a : Vec ℝ G.rep) (ha : Valid a) :
    G.matrix (G.composition (G.inverse a) a) = G.matrix G.identity := by
  rw [h.matrix_composition _ _ (h.valid_inverse a ha) ha, h.matrix_inverse_left a ha, h.matrix_identity]

theorem matrix_right_inv (a : Vec ℝ G.rep) (ha : Valid a) :
    G.matrix (G.composition a (G.inverse a)) = G.matrix G.identity := by
  rw [h.matrix_composition _ _ ha (h.valid_inverse a ha), h.matrix_inverse_right a ha, h.matrix_identity]

/-- `matrix (inverse g)` is Mathlib's matrix inverse of `matrix g` -/
theorem matrix_inverse_eq_inv (a : Vec ℝ G.rep) (ha : Valid a) :
    toM (G.matrix (G.inverse a)) = (toM (G.matrix a))⁻¹ := by
  have hl := congrArg toM (h.matrix_inverse_left a ha)
  rw [toM_mmul, toM_ident] at hl
  exact (Matrix.inv_eq_left_inv hl).symm

/-- `matrix g` is invertible (its determinant is a unit) -/
theorem matrix_det_ne_zero (a : Vec ℝ G.rep) (ha : Valid a) : (toM (G.matrix a)).det ≠ 0 := by
  have hl := congrArg toM (h.matrix_inverse_left a ha)
  rw [toM_mmul, toM_ident] at hl
  have := congrArg Matrix.det hl
  rw [Matrix.det_mul, Matrix.det_one] at this
  intro h0
  rw [h0, mul_zero] at this
  exact zero_ne_one this

end IsMatrixGroup
