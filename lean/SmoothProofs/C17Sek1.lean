/-
  C17Sek1.lean — `SE_K_3<1>` coincides with `SE3` operation for operation under the identity on
  coefficients (`Conv.sek1_to_se3`, `Conv.sek1T_to_se3`).  After unfolding the `K = 1` loop every
  function of `SEK3.* 1` is the SE3 expression: the proofs are `ext; fin_cases; simp`.
-/
import SmoothProofs.C01SE3
import SmoothProofs.C02Basic

open Lin Scalar

namespace C17P

abbrev G1 := Vec ℝ (4 + 3 * 1)
abbrev T1 := Vec ℝ (3 + 3 * 1)

/-! ### the identification and its pieces -/

theorem se3_to_sek1_to_se3 (g : G1) : Conv.se3_to_sek1 (Conv.sek1_to_se3 g) = g := by
  ext i; simp [Conv.se3_to_sek1, Conv.sek1_to_se3, Vec.of]

theorem sek1_to_se3_to_sek1 (g : Vec ℝ 7) : Conv.sek1_to_se3 (Conv.se3_to_sek1 g) = g := by
  ext i; simp [Conv.se3_to_sek1, Conv.sek1_to_se3, Vec.of]

theorem gq1 (g : G1) : SEK3.gq 1 g = SE3.so3 (Conv.sek1_to_se3 g) := by
  ext i; fin_cases i <;> simp [SEK3.gq, SE3.so3, Conv.sek1_to_se3, mk4, Vec.of]

theorem gp1 (g : G1) (i : Fin 1) : SEK3.gp 1 g i = SE3.r3 (Conv.sek1_to_se3 g) := by
  fin_cases i
  ext c; fin_cases c <;> simp [SEK3.gp, SE3.r3, Conv.sek1_to_se3, mk3, Vec.of]

theorem mkG1 (p : Fin 1 → Vec ℝ 3) (q : Vec ℝ 4) :
    Conv.sek1_to_se3 (SEK3.mkG 1 p q) = SE3.mk7 (p 0) q := by
  ext i; fin_cases i <;> simp [SEK3.mkG, SE3.mk7, Conv.sek1_to_se3, Vec.of]

theorem tw1 (a : T1) : SEK3.tw 1 a = SE3.tw (Conv.sek1T_to_se3 a) := by
  ext i; fin_cases i <;> simp [SEK3.tw, SE3.tw, Conv.sek1T_to_se3, mk3, Vec.of]

theorem tv1 (a : T1) (i : Fin 1) : SEK3.tv 1 a i = SE3.tv (Conv.sek1T_to_se3 a) := by
  fin_cases i
  ext c; fin_cases c <;> simp [SEK3.tv, SE3.tv, Conv.sek1T_to_se3, mk3, Vec.of]

theorem mkT1 (v : Fin 1 → Vec ℝ 3) (w : Vec ℝ 3) :
    Conv.sek1T_to_se3 (SEK3.mkT 1 v w) = SE3.mk6 (v 0) w := by
  ext i; fin_cases i <;> simp [SEK3.mkT, SE3.mk6, Conv.sek1T_to_se3, Vec.of]

/-- `ofBlocks 1` is the 2×2 block matrix of SE3 -/
theorem ofBlocks1 (B : Fin 2 → Fin 2 → Mat ℝ 3 3) :
    SEK3.ofBlocks 1 B = SE3.blk22 (B 0 0) (B 0 1) (B 1 0) (B 1 1) := by
  ext i j
  revert i j
  show ∀ i j : Fin 6, _
  intro i j
  fin_cases i <;> fin_cases j <;> simp [SEK3.ofBlocks, SE3.blk22, Mat.of]

/-! ### operation for operation -/

theorem sek1_identity : Conv.sek1_to_se3 (SEK3.identity 1 : G1) = SE3.identity := by
  unfold SEK3.identity SE3.identity; rw [mkG1]

theorem sek1_composition (a b : G1) :
    Conv.sek1_to_se3 (SEK3.composition 1 a b) = SE3.composition (Conv.sek1_to_se3 a) (Conv.sek1_to_se3 b) := by
  unfold SEK3.composition SE3.composition
  simp only [mkG1, gq1, gp1]

theorem sek1_inverse (g : G1) :
    Conv.sek1_to_se3 (SEK3.inverse 1 g) = SE3.inverse (Conv.sek1_to_se3 g) := by
  unfold SEK3.inverse SE3.inverse
  simp only [mkG1, gq1, gp1, memoM_eq, memoV_eq]

theorem sek1_log (g : G1) :
    Conv.sek1T_to_se3 (SEK3.log 1 g) = SE3.log (Conv.sek1_to_se3 g) := by
  unfold SEK3.log SE3.log
  simp only [mkT1, gq1, gp1, memoM_eq, memoV_eq]

theorem sek1_exp (a : T1) :
    Conv.sek1_to_se3 (SEK3.exp 1 a) = SE3.exp (Conv.sek1T_to_se3 a) := by
  unfold SEK3.exp SE3.exp
  simp only [mkG1, tw1, tv1, memoM_eq, memoV_eq]

theorem sek1_matrix (g : G1) (i j : Fin 4) :
    (SEK3.matrix 1 g) i j = (SE3.matrix (Conv.sek1_to_se3 g)) i j := by
  unfold SEK3.matrix SE3.matrix
  simp only [gq1]
  fin_cases i <;> fin_cases j <;> simp [Conv.sek1_to_se3, Mat.of, Vec.of]

theorem sek1_hat (a : T1) (i j : Fin 4) :
    (SEK3.hat 1 a) i j = (SE3.hat (Conv.sek1T_to_se3 a)) i j := by
  unfold SEK3.hat SE3.hat
  simp only [tw1]
  fin_cases i <;> fin_cases j <;> simp [Conv.sek1T_to_se3, Mat.of, Vec.of]

theorem sek1_vee (A : Mat ℝ 4 4) :
    Conv.sek1T_to_se3 (SEK3.vee 1 A) = SE3.vee A := by
  unfold SEK3.vee SE3.vee
  rw [mkT1]
  congr 1
  ext c
  fin_cases c <;> simp [mk3, Vec.of]

theorem sek1_Ad (g : G1) : SEK3.Ad 1 g = SE3.Ad (Conv.sek1_to_se3 g) := by
  unfold SEK3.Ad SE3.Ad
  rw [ofBlocks1]
  simp [gq1, gp1, memoM_eq]

theorem sek1_ad (a : T1) : SEK3.ad 1 a = SE3.ad (Conv.sek1T_to_se3 a) := by
  unfold SEK3.ad SE3.ad
  rw [ofBlocks1]
  simp [tw1, tv1]

theorem sek1_dr_exp (a : T1) : SEK3.dr_exp 1 a = SE3.dr_exp (Conv.sek1T_to_se3 a) := by
  unfold SEK3.dr_exp SE3.dr_exp
  rw [ofBlocks1]
  simp [tw1, tv1, memoM_eq]

theorem sek1_dr_expinv (a : T1) : SEK3.dr_expinv 1 a = SE3.dr_expinv (Conv.sek1T_to_se3 a) := by
  unfold SEK3.dr_expinv SE3.dr_expinv
  rw [ofBlocks1]
  simp [tw1, tv1, memoM_eq]

end C17P
