/-
  C15RK.lean — explicit Runge–Kutta steppers driven through the odeint adaptor integrate a
  constant body velocity exactly.

  `Hist.Lawful A v`: the derivative type of the adaptor algebra `A` behaves like a module along
  the line spanned by `v` (`α·v + β·v = (α+β)·v`, `0 = 0·v`), time arithmetic is ℝ's.
  `rkTangent_const`: for ANY explicit tableau with `|b| = stages`, the tangent handed to the final
  `scale_sum` is `(Σb · h)·v` (all stage derivatives of a constant system are `v`; the stage states
  are discarded).  `rkSteps_const`: `n` steps give `x ⊕ (n·h)·v` under the one-parameter law.
-/
import SmoothProofs.Real
import Mathlib.Tactic.Ring
import Mathlib.Tactic.Linarith
import Mathlib.Algebra.BigOperators.Group.List.Basic
import Mathlib.Algebra.Module.Defs
import Mathlib.Tactic.FinCases

open Lin Scalar

namespace Hist

variable {X V : Type}

/-- module-like behaviour of the derivative type along the direction `v` -/
structure Lawful (A : OdeAlg X V ℝ) (v : V) : Prop where
  add_smul : ∀ a b : ℝ, A.add (A.smul a v) (A.smul b v) = A.smul (a + b) v
  zero_smul : A.zero = A.smul 0 v
  mul_eq : ∀ a b : ℝ, A.mul a b = a * b
  addt_eq : ∀ a b : ℝ, A.addt a b = a + b

variable {A : OdeAlg X V ℝ} {v : V}

theorem sumr_smul (L : Lawful A v) (cs : List ℝ) :
    sumr A (cs.map (fun c => A.smul c v)) = A.smul cs.sum v := by
  induction cs with
  | nil => simpa [sumr] using L.zero_smul
  | cons c rest ih =>
    cases rest with
    | nil => simp [sumr]
    | cons d rest' =>
      have : sumr A ((c :: d :: rest').map (fun c => A.smul c v))
          = A.add (A.smul c v) (sumr A ((d :: rest').map (fun c => A.smul c v))) := rfl
      rw [this, ih, L.add_smul]
      simp [List.sum_cons]

theorem zipWith_replicate (cs : List ℝ) (n : Nat) (hn : cs.length ≤ n) :
    List.zipWith A.smul cs (List.replicate n v) = cs.map (fun c => A.smul c v) := by
  induction cs generalizing n with
  | nil => simp
  | cons c rest ih =>
    cases n with
    | zero => simp at hn
    | succ n =>
      simp only [List.replicate_succ, List.zipWith_cons_cons, List.map_cons]
      rw [ih n (by simpa using hn)]

/-- all stage derivatives of a constant system are `v` -/
theorem stages_const (t h : ℝ) (x : X) (rows : List (ℝ × List ℝ)) (m : Nat) :
    stages A (fun _ _ => v) t h x rows (List.replicate m v) = List.replicate (m + rows.length) v := by
  induction rows generalizing m with
  | nil => simp [stages]
  | cons r rest ih =>
    obtain ⟨c, row⟩ := r
    simp only [stages]
    have : List.replicate m v ++ [v] = List.replicate (m + 1) v := by
      rw [List.replicate_succ', ]
    rw [this, ih (m + 1)]
    congr 1
    simp only [List.length_cons]
    omega

/-- the tangent of the final `scale_sum`: `(Σ b · h)·v` -/
theorem rkTangent_const (L : Lawful A v) (tab : Tableau ℝ) (hlen : tab.b.length = tab.rows.length + 1)
    (t h : ℝ) (x : X) :
    rkTangent A (fun _ _ => v) tab t h x = A.smul (tab.b.sum * h) v := by
  unfold rkTangent scaleTangent
  have h1 : stages A (fun _ _ => v) t h x tab.rows [v] = List.replicate (1 + tab.rows.length) v := by
    simpa using stages_const (A := A) (v := v) t h x tab.rows 1
  rw [h1]
  simp only [List.tail_cons]
  rw [zipWith_replicate _ _ (by simp [hlen]), sumr_smul L]
  congr 1
  have : (fun b => A.mul b h) = (fun b => b * h) := by funext b; exact L.mul_eq b h
  rw [this]
  induction tab.b with
  | nil => simp
  | cons b rest ih => simp [List.sum_cons, ih, add_mul]

/-- one fixed step with a consistent tableau: `x ⊕ h·v` -/
theorem rkStep_const (L : Lawful A v) (tab : Tableau ℝ) (hlen : tab.b.length = tab.rows.length + 1)
    (hb : tab.b.sum = 1) (t h : ℝ) (x : X) :
    rkStep A (fun _ _ => v) tab t h x = A.rplus x (A.smul h v) := by
  unfold rkStep
  rw [rkTangent_const L tab hlen, hb, one_mul]

/-- `n` fixed steps: `x ⊕ (n·h)·v`, given the one-parameter law of `rplus` along `v` -/
theorem rkSteps_const (L : Lawful A v) (tab : Tableau ℝ) (hlen : tab.b.length = tab.rows.length + 1)
    (hb : tab.b.sum = 1)
    (hflow : ∀ (x : X) (s u : ℝ), A.rplus (A.rplus x (A.smul s v)) (A.smul u v) = A.rplus x (A.smul (s + u) v))
    (hzero : ∀ x : X, A.rplus x (A.smul 0 v) = x)
    (h : ℝ) (n : Nat) : ∀ (t : ℝ) (x : X),
    rkSteps A (fun _ _ => v) tab h n t x = A.rplus x (A.smul (n * h) v) := by
  induction n with
  | zero => intro t x; simp [rkSteps, hzero]
  | succ n ih =>
    intro t x
    simp only [rkSteps]
    rw [rkStep_const L tab hlen hb, ih, hflow]
    congr 2
    push_cast
    ring

-- ---------------------------------------------------------------- abstract group form
section Group
variable {Gp W : Type} [Group Gp] [AddCommGroup W] [Module ℝ W]

/-- the adaptor over an abstract group with an exponential map: `x ⊕ a = x * e a` -/
def grpAlg (e : W → Gp) : OdeAlg Gp W ℝ where
  rplus := fun x a => x * e a
  smul := fun c w => c • w
  add := fun a b => a + b
  zero := 0
  mul := fun a b => a * b
  addt := fun a b => a + b
  one := 1

theorem grpAlg_lawful (e : W → Gp) (w : W) : Lawful (grpAlg e) w where
  add_smul := fun a b => (add_smul a b w).symm
  zero_smul := (zero_smul ℝ w).symm
  mul_eq := fun _ _ => rfl
  addt_eq := fun _ _ => rfl

theorem exp_zero_of_law (e : W → Gp) (w : W) (hlaw : ∀ s t : ℝ, e ((s + t) • w) = e (s • w) * e (t • w)) :
    e ((0 : ℝ) • w) = 1 := by
  have h := hlaw 0 0
  rw [add_zero] at h
  exact mul_eq_left.1 h.symm

end Group

end Hist
