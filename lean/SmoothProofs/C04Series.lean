/-
  C04Series.lean — SO3, closed branch: `dr_exp a = Σ_k (−1)^k (â)^k/(k+1)!` entrywise (HasSum),
  from `â³ = −θ²·â` and the power series of cos and sin.
-/
import SmoothProofs.C04SO3
import SmoothProofs.C04SE2
import Mathlib.Analysis.SpecialFunctions.Trigonometric.Series
import Mathlib.Topology.Algebra.InfiniteSum.NatInt
import Mathlib.Data.Matrix.Mul

open Lin Scalar

namespace C04Series
open C04Alg C04SO3

/-- `Σ_m (−1)^m θ^{2m}/(2m+2)! = (1 − cos θ)/θ²` -/
theorem hasSum_cos_shift {θ : ℝ} (hθ : θ ≠ 0) :
    HasSum (fun m : ℕ => (-1 : ℝ) ^ m * (θ ^ 2) ^ m / ((2 * m + 2).factorial : ℝ))
      ((1 - Real.cos θ) / θ ^ 2) := by
  have h := (hasSum_nat_add_iff' 1).2 (Real.hasSum_cos θ)
  simp only [Finset.sum_range_one, mul_zero, pow_zero, Nat.factorial_zero, Nat.cast_one,
    div_one, mul_one] at h
  have h2 := h.mul_left (-1 / θ ^ 2)
  have e : (-1 / θ ^ 2) * (Real.cos θ - 1) = (1 - Real.cos θ) / θ ^ 2 := by ring
  rw [e] at h2
  have hf : (fun m : ℕ => (-1 : ℝ) ^ m * (θ ^ 2) ^ m / ((2 * m + 2).factorial : ℝ))
      = (fun i : ℕ => -1 / θ ^ 2 * ((-1) ^ (i + 1) * θ ^ (2 * (i + 1)) / ((2 * (i + 1)).factorial : ℝ))) := by
    funext m
    rw [show 2 * (m + 1) = 2 * m + 2 by ring]
    have hfac : ((2 * m + 2).factorial : ℝ) ≠ 0 := Nat.cast_ne_zero.2 (Nat.factorial_ne_zero _)
    field_simp
    ring
  rw [hf]
  exact h2

/-- `Σ_m (−1)^m θ^{2m}/(2m+3)! = (θ − sin θ)/θ³` -/
theorem hasSum_sin_shift {θ : ℝ} (hθ : θ ≠ 0) :
    HasSum (fun m : ℕ => (-1 : ℝ) ^ m * (θ ^ 2) ^ m / ((2 * m + 3).factorial : ℝ))
      ((θ - Real.sin θ) / (θ ^ 2 * θ)) := by
  have h := (hasSum_nat_add_iff' 1).2 (Real.hasSum_sin θ)
  simp only [Finset.sum_range_one, mul_zero, pow_zero, zero_add, pow_one, Nat.factorial_one,
    Nat.cast_one, div_one, one_mul] at h
  have h2 := h.mul_left (-1 / (θ ^ 2 * θ))
  have e : (-1 / (θ ^ 2 * θ)) * (Real.sin θ - θ) = (θ - Real.sin θ) / (θ ^ 2 * θ) := by ring
  rw [e] at h2
  have hf : (fun m : ℕ => (-1 : ℝ) ^ m * (θ ^ 2) ^ m / ((2 * m + 3).factorial : ℝ))
      = (fun i : ℕ => -1 / (θ ^ 2 * θ)
          * ((-1) ^ (i + 1) * θ ^ (2 * (i + 1) + 1) / ((2 * (i + 1) + 1).factorial : ℝ))) := by
    funext m
    rw [show 2 * (m + 1) + 1 = 2 * m + 3 by ring]
    have hfac : ((2 * m + 3).factorial : ℝ) ≠ 0 := Nat.cast_ne_zero.2 (Nat.factorial_ne_zero _)
    field_simp
    ring
  rw [hf]
  exact h2

theorem neg_one_pow_odd (m : ℕ) : (-1 : ℝ) ^ (2 * m + 1) = -1 := by
  rw [pow_succ, pow_mul]; simp

theorem neg_one_pow_even (m : ℕ) : (-1 : ℝ) ^ (2 * m + 2) = 1 := by
  rw [show 2 * m + 2 = 2 * (m + 1) by ring, pow_mul]; simp

/-! ### generic form: any 3×3 matrix with `M³ = −n·M`, `n = θ²`, `θ ≠ 0` -/

section generic
variable (M : Matrix (Fin 3) (Fin 3) ℝ) (n : ℝ)

theorem pow_odd_of_cube (hc : M * M * M = (-n) • M) : ∀ m : ℕ, M ^ (2 * m + 1) = (-n) ^ m • M
  | 0 => by simp
  | m + 1 => by
    have ih := pow_odd_of_cube hc m
    calc M ^ (2 * (m + 1) + 1) = M ^ (2 * m + 1) * M * M := by
          rw [show 2 * (m + 1) + 1 = (2 * m + 1) + 1 + 1 by ring, pow_succ, pow_succ]
      _ = (-n) ^ m • (M * M * M) := by rw [ih, Matrix.smul_mul, Matrix.smul_mul]
      _ = (-n) ^ (m + 1) • M := by rw [hc, smul_smul, pow_succ]

theorem pow_even_of_cube (hc : M * M * M = (-n) • M) (m : ℕ) :
    M ^ (2 * m + 2) = (-n) ^ m • (M * M) := by
  rw [show 2 * m + 2 = (2 * m + 1) + 1 by ring, pow_succ, pow_odd_of_cube M n hc, Matrix.smul_mul]

/-- the `k`-th term of the series, entry `(j, r)` -/
noncomputable def term (j r : Fin 3) (k : ℕ) : ℝ :=
  (-1 : ℝ) ^ k / ((k + 1).factorial : ℝ) * (M ^ k) j r

theorem term_odd (hc : M * M * M = (-n) • M) (j r : Fin 3) (m : ℕ) :
    term M j r (2 * m + 1)
      = -(((-1 : ℝ) ^ m * n ^ m / ((2 * m + 2).factorial : ℝ)) * M j r) := by
  simp only [term, pow_odd_of_cube M n hc, neg_one_pow_odd, Matrix.smul_apply, smul_eq_mul, neg_pow n]
  rw [show 2 * m + 1 + 1 = 2 * m + 2 by ring]
  ring

theorem term_even (hc : M * M * M = (-n) • M) (j r : Fin 3) (m : ℕ) :
    term M j r (2 * m + 1 + 1)
      = ((-1 : ℝ) ^ m * n ^ m / ((2 * m + 3).factorial : ℝ)) * (M * M) j r := by
  rw [show 2 * m + 1 + 1 = 2 * m + 2 by ring]
  simp only [term, pow_even_of_cube M n hc, neg_one_pow_even, Matrix.smul_apply, smul_eq_mul,
    neg_pow n]
  rw [show 2 * m + 2 + 1 = 2 * m + 3 by ring]
  ring

/-- `Σ_k (−1)^k/(k+1)!·M^k = I − ((1−cos θ)/θ²)·M + ((θ−sin θ)/θ³)·M²` entrywise -/
theorem hasSum_of_cube (hc : M * M * M = (-n) • M) {θ : ℝ} (hθ : θ ≠ 0) (hsq : θ ^ 2 = n)
    (j r : Fin 3) :
    HasSum (term M j r)
      (-((1 - Real.cos θ) / n * M j r) + (θ - Real.sin θ) / (n * θ) * (M * M) j r
        + (1 : Matrix (Fin 3) (Fin 3) ℝ) j r) := by
  have hA := ((hasSum_cos_shift hθ).mul_right (M j r)).neg
  have hB := (hasSum_sin_shift hθ).mul_right ((M * M) j r)
  rw [hsq] at hA hB
  have hodd : HasSum (fun m : ℕ => term M j r (2 * m + 1)) (-((1 - Real.cos θ) / n * M j r)) := by
    simp only [term_odd M n hc]; exact hA
  have heven : HasSum (fun m : ℕ => term M j r (2 * m + 1 + 1))
      ((θ - Real.sin θ) / (n * θ) * (M * M) j r) := by
    simp only [term_even M n hc]; exact hB
  have hg := HasSum.even_add_odd (f := fun k => term M j r (k + 1)) hodd heven
  have hf := (hasSum_nat_add_iff 1).1 hg
  have e0 : ∑ i ∈ Finset.range 1, term M j r i = (1 : Matrix (Fin 3) (Fin 3) ℝ) j r := by
    simp [term]
  rw [e0] at hf
  exact hf

end generic

/-! ### SO3 -/

/-- `â` as a Mathlib matrix -/
noncomputable def Mx (a : Vec ℝ 3) : Matrix (Fin 3) (Fin 3) ℝ := Matrix.of (SO3.hat a).get

theorem Mx_cube (a : Vec ℝ 3) : Mx a * Mx a * Mx a = (-(sqNorm a)) • Mx a := by
  ext i j
  rw [sqNorm3]
  fin_cases i <;> fin_cases j <;>
    simp [Mx, Matrix.mul_apply, Fin.sum_univ_three, SO3.hat, mat3] <;> ring

theorem Mx_sq_apply (a : Vec ℝ 3) (i j : Fin 3) :
    (Mx a * Mx a) i j = (mmul (SO3.hat a) (SO3.hat a)) i j := by
  simp [Mx, Matrix.mul_apply, Fin.sum_univ_three, C04Alg.mmul3]

/-- SO3, closed branch: `dr_exp a [j,r] = Σ_k (−1)^k/(k+1)! · (â^k)[j,r]` -/
theorem drExp_hasSum (a : Vec ℝ 3) (h : Scalar.eps2 < sqNorm a) (j r : Fin 3) :
    HasSum (term (Mx a) j r) ((SO3.dr_exp a) j r) := by
  obtain ⟨hθ, hsq⟩ := sqrt_facts h
  have hf := hasSum_of_cube (Mx a) (sqNorm a) (Mx_cube a) hθ hsq j r
  have hv : (SO3.dr_exp a) j r
      = -((1 - Real.cos (Real.sqrt (sqNorm a))) / sqNorm a * (Mx a) j r)
        + (Real.sqrt (sqNorm a) - Real.sin (Real.sqrt (sqNorm a))) / (sqNorm a * Real.sqrt (sqNorm a))
          * (Mx a * Mx a) j r
        + (1 : Matrix (Fin 3) (Fin 3) ℝ) j r := by
    rw [dr_exp_closed a h, Mx_sq_apply]
    simp only [poly2, Mat.of_get, αr, βr, Matrix.one_apply, ident, Nat.cast_one,
      Nat.cast_zero, Mx, Matrix.of_apply]
    ring
  rw [hv]
  exact hf

/-! ### SE2 -/

/-- SE2 `ad a` as a Mathlib matrix -/
noncomputable def Ax (a : Vec ℝ 3) : Matrix (Fin 3) (Fin 3) ℝ := Matrix.of (SE2.ad a).get

theorem Ax_cube (a : Vec ℝ 3) : Ax a * Ax a * Ax a = (-(a 2 ^ 2)) • Ax a := by
  ext i j
  fin_cases i <;> fin_cases j <;>
    simp only [Ax, Matrix.mul_apply, Fin.sum_univ_three, Matrix.smul_apply, smul_eq_mul,
      Matrix.of_apply, SE2.ad, mat3, Mat.of_get, Nat.cast_zero, Fin.isValue,
      Fin.zero_eta, Fin.mk_one, Fin.reduceFinMk] <;> ring

theorem Ax_sq_apply (a : Vec ℝ 3) (i j : Fin 3) :
    (Ax a * Ax a) i j = (mmul (SE2.ad a) (SE2.ad a)) i j := by
  simp [Ax, Matrix.mul_apply, Fin.sum_univ_three, C04Alg.mmul3]

/-- SE2, closed branch: `dr_exp a [j,r] = Σ_k (−1)^k/(k+1)! · (ad(a)^k)[j,r]` -/
theorem se2_drExp_hasSum (a : Vec ℝ 3) (h : Scalar.eps2 < a 2 * a 2) (j r : Fin 3) :
    HasSum (term (Ax a) j r) ((SE2.dr_exp a) j r) := by
  have hθ : a 2 ≠ 0 := by
    intro h0
    rw [h0] at h
    have := eps2_pos
    simp at h
    linarith
  have hf := hasSum_of_cube (Ax a) (a 2 ^ 2) (Ax_cube a) hθ rfl j r
  have hv : (SE2.dr_exp a) j r
      = -((1 - Real.cos (a 2)) / a 2 ^ 2 * (Ax a) j r)
        + (a 2 - Real.sin (a 2)) / (a 2 ^ 2 * a 2) * (Ax a * Ax a) j r
        + (1 : Matrix (Fin 3) (Fin 3) ℝ) j r := by
    rw [C04SE2.dr_exp_closed a h, Ax_sq_apply]
    simp only [poly2, Mat.of_get, C04SE2.αe, C04SE2.βe, Matrix.one_apply, ident,
      Nat.cast_one, Nat.cast_zero, Ax, Matrix.of_apply]
    ring
  rw [hv]
  exact hf

end C04Series
