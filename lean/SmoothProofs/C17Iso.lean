/-
  C17Iso.lean — the smooth-side glue of the Eigen-isometry and Euler-angle conversions.
  `Eigen::Quaternion(Matrix3)` and `eulerAngles` are parameters with a contract (audited on the
  implementation); what smooth adds — `rotmat(1,0), rotmat(0,0)` extraction, `Rotation2D(angle())`,
  normalisation + canonical sign, argument order (2,1,0) — is proved here.
-/
import SmoothProofs.C17Lift

open Lin Scalar

namespace C17P

/-- `SE2::isometry()` has the group's matrix (unit rotation part) -/
theorem se2_isometry_matrix (g : Vec ℝ 4) (h : SE2Unit g) : Conv.se2_isometry g = SE2.matrix g := by
  have hs := sin_angle (SE2.so2 g) h
  have hc := cos_angle (SE2.so2 g) h
  have e0 : (SE2.so2 g) 0 = g 2 := rfl
  have e1 : (SE2.so2 g) 1 = g 3 := rfl
  ext i j
  fin_cases i <;> fin_cases j <;>
    simp [Conv.se2_isometry, SE2.matrix, SO2.matrix, mat3, mat2, Mat.of, hs, hc, e0, e1]

/-- `SE2(Isometry2)` reads back the coefficients: `SE2(g.isometry()) = g` -/
theorem se2_ofIsometry_isometry (g : Vec ℝ 4) (h : SE2Unit g) :
    Conv.se2_ofIsometry (Conv.se2_isometry g) = g := by
  have hs := sin_angle (SE2.so2 g) h
  have hc := cos_angle (SE2.so2 g) h
  have e0 : (SE2.so2 g) 0 = g 2 := rfl
  have e1 : (SE2.so2 g) 1 = g 3 := rfl
  ext i
  fin_cases i <;>
    simp [Conv.se2_ofIsometry, Conv.se2_isometry, mat3, mk4, Mat.of, Vec.of, hs, hc, e0, e1]

/-- `SE2(Isometry2 T)` has matrix `T` whenever `T` is a homogeneous rigid motion -/
theorem se2_ofIsometry_matrix (T : Mat ℝ 3 3)
    (hrot : T 0 1 = -(T 1 0) ∧ T 1 1 = T 0 0) (hrow : T 2 0 = 0 ∧ T 2 1 = 0 ∧ T 2 2 = 1) :
    SE2.matrix (Conv.se2_ofIsometry T) = T := by
  obtain ⟨h01, h11⟩ := hrot
  obtain ⟨h20, h21, h22⟩ := hrow
  ext i j
  fin_cases i <;> fin_cases j <;>
    simp [Conv.se2_ofIsometry, SE2.matrix, SO2.matrix, SE2.so2, mat3, mat2, mk2, mk4, Mat.of, Vec.of, h01, h11, h20, h21, h22]

theorem se3_isometry_matrix (g : Vec ℝ 7) : Conv.se3_isometry g = SE3.matrix g := rfl

/-- `SE3(g.isometry())` is the same transformation, given the contract of `Quaternion(Matrix3)` at
    the rotation matrix of `g` -/
theorem se3_ofIsometry_isometry (quatOfMat : Mat ℝ 3 3 → Vec ℝ 4) (g : Vec ℝ 7)
    (hq : SO3.matrix (SO3.ofQuat (quatOfMat (SO3.matrix (SE3.so3 g)))) = SO3.matrix (SE3.so3 g)) :
    SE3.matrix (Conv.se3_ofIsometry quatOfMat (Conv.se3_isometry g)) = SE3.matrix g := by
  have hR : (Mat.of (fun i j : Fin 3 => (Conv.se3_isometry g) ⟨i.val, by omega⟩ ⟨j.val, by omega⟩) : Mat ℝ 3 3)
      = SO3.matrix (SE3.so3 g) := by
    ext i j
    fin_cases i <;> fin_cases j <;> simp [Conv.se3_isometry, SE3.matrix, Mat.of]
  unfold Conv.se3_ofIsometry
  simp only [hR]
  rw [SE3.matrix_eq_block, SE3.matrix_eq_block, SE3.so3_mk7, hq]
  congr 1
  ext i j
  fin_cases i <;> simp [SE3.P, SE3.mk7, mk3, Conv.se3_isometry, SE3.matrix, Mat.of, Vec.of]

/-- the result of `SE3(Isometry3)` is unit and canonical whatever Eigen returns (non-zero) -/
theorem se3_ofIsometry_unit_canon (quatOfMat : Mat ℝ 3 3 → Vec ℝ 4) (T : Mat ℝ 4 4)
    (h : SO3.sqn (quatOfMat (.of (fun i j => T ⟨i.val, by omega⟩ ⟨j.val, by omega⟩))) ≠ 0) :
    SO3.Unit (SE3.so3 (Conv.se3_ofIsometry quatOfMat T)) ∧ SO3.Canon (SE3.so3 (Conv.se3_ofIsometry quatOfMat T)) := by
  unfold Conv.se3_ofIsometry
  simp only [SE3.so3_mk7]
  exact ⟨unit_ofQuat _ h, canon_ofQuat _⟩

/-- Euler angles: with the contract `matrix (Rz(e0) Ry(e1) Rx(e2)) = R` of `eulerAngles(2,1,0)`,
    `eulerAngles()` round-trips to the same rotation -/
theorem euler_roundtrip (euler : Mat ℝ 3 3 → Vec ℝ 3) (g : Vec ℝ 4)
    (hc : SO3.matrix (Conv.ofEuler (euler (SO3.matrix g))) = SO3.matrix g) :
    SO3.matrix (Conv.ofEuler (Conv.eulerAngles euler g)) = SO3.matrix g := hc

end C17P
