/-
  C04SeriesGalE.lean — Galilei, closed branch: `dr_exp a = Σ_k (−1)^k ad(a)^k/(k+1)!` entrywise
  (`HasSum`), all 100 entries.  Assembly of C04SeriesGalA (series for a three-level relation),
  C04SeriesGalC (`X²(X²+n)³ = 0` and the blocks) and C04SeriesGalD (`calculate_r` block).
-/
import SmoothProofs.C04SeriesGalD

open Lin Scalar
set_option linter.unusedSimpArgs false

namespace C04SeriesGal
open C04Alg C04SO3 C04Series C04SeriesSE3 C05dQ
open C04Galilei (ib iq is iw idx_cases)

theorem cos_6_closed {x : ℝ} (h : Scalar.eps2 < x) :
    Trig.cos_6 x = (Real.cos (Real.sqrt x) - 1 + x / 2 - x * x / 24) / (x * x * x) := by
  simp only [Trig.cos_6, if_pos h, Nat.cast_one, Nat.cast_ofNat]; rfl

theorem trigClosed {x : ℝ} (h : Scalar.eps2 < x) :
    TrigClosed x (Real.sqrt x) (Real.sin (Real.sqrt x)) (Real.cos (Real.sqrt x)) :=
  ⟨sin_3_closed h, cos_4_closed h, sin_5_closed h, cos_6_closed h⟩

/-! ### HasSum for `X = ad a` with the block value -/

section main
variable (b q w : Vec ℝ 3) (s : ℝ)

/-- the summed series in terms of the blocks -/
noncomputable def Vg (θ n : ℝ) (A A2 Z1 Z2 : Mat ℝ 10 10) (j r : Fin 10) : ℝ :=
  (ca3 θ n * A2 j r + cb3 θ n * ((-1 / n) * Z1 j r) + cc3 θ n * ((1 / n ^ 2) * Z2 j r))
    + (-(ca4 θ n * (mmul A A2) j r) - cb4 θ n * ((-1 / n) * (mmul A Z1) j r)
        - cc4 θ n * ((1 / n ^ 2) * (mmul A Z2) j r))
    + ((ident 10 : Mat ℝ 10 10) j r + -(1 / 2) * A j r)

theorem toM_msmul' {n m : Nat} (t : ℝ) (A : Mat ℝ n m) : toM (msmul t A) = t • toM A := by
  ext i j; simp [toM, msmul]

theorem gal_hasSum (h : Scalar.eps2 < sqNorm w) (j r : Fin 10) :
    HasSum (termD (toM (Xg b q w s)) j r)
      (Vg (Real.sqrt (sqNorm w)) (sqNorm w) (Xg b q w s) (X2g b q w s) (Z1g b q w s) (Z2g b w s) j r) := by
  obtain ⟨hθ, hsq⟩ := sqrt_facts h
  have hn0 : sqNorm w ≠ 0 := (lt_trans eps2_pos h).ne'
  obtain ⟨n, hne⟩ : ∃ n, n = sqNorm w := ⟨_, rfl⟩
  obtain ⟨X, hXe⟩ : ∃ X, X = toM (Xg b q w s) := ⟨_, rfl⟩
  rw [← hne] at hθ hsq hn0 ⊢
  rw [← hXe]
  have hX2 : X ^ 2 = toM (X2g b q w s) := by rw [hXe, pow_two, ← toM_mmul, X_sq]
  have hZ1 : toM (Z1g b q w s) = X ^ 2 * X ^ 2 + n • X ^ 2 := by
    rw [hX2, ← toM_mmul, ← toM_msmul', ← toM_madd, hne, Z1_eq]
  have hZ2 : toM (Z2g b w s) = X ^ 2 * toM (Z1g b q w s) + n • toM (Z1g b q w s) := by
    rw [hX2, ← toM_mmul, ← toM_msmul', ← toM_madd, hne, Z2_eq]
  have hZ3 : X ^ 2 * toM (Z2g b w s) + n • toM (Z2g b w s) = 0 := by
    rw [hX2, ← toM_mmul, ← toM_msmul', ← toM_madd, hne, Z3_eq, toM_mzero]
  obtain ⟨h1, h2, h3⟩ := rels_of_cube X n hn0 _ _ hZ1 hZ2 hZ3
  have hs := hasSum_of_rel3 X ((-1 / n) • toM (Z1g b q w s)) ((1 / n ^ 2) • toM (Z2g b w s)) n h1 h2 h3
    hθ hsq j r
  have e1 : X * X ^ 2 = toM (mmul (Xg b q w s) (X2g b q w s)) := by rw [hX2, hXe, ← toM_mmul]
  have e2 : X * ((-1 / n) • toM (Z1g b q w s)) = (-1 / n) • toM (mmul (Xg b q w s) (Z1g b q w s)) := by
    rw [Matrix.mul_smul, hXe, ← toM_mmul]
  have e3 : X * ((1 / n ^ 2) • toM (Z2g b w s)) = (1 / n ^ 2) • toM (mmul (Xg b q w s) (Z2g b w s)) := by
    rw [Matrix.mul_smul, hXe, ← toM_mmul]
  rw [e1, e2, e3, hX2] at hs
  simp only [Matrix.smul_apply, smul_eq_mul, toM_apply, Matrix.one_apply] at hs
  simp only [Vg, ident_apply]
  subst hXe
  exact hs

end main

/-! ### block values -/

section value
variable (b q w : Vec ℝ 3) (s : ℝ) (h : Scalar.eps2 < sqNorm w)
include h

omit h in
theorem sI_mul (M : Mat ℝ 3 3) : mmul (sI s) M = msmul (-s) M := by
  ext i j
  fin_cases i <;>
    simp only [sI, msmul, ident, Mat.of_get, C04Alg.mmul3, Fin.isValue, Fin.reduceEq, ↓reduceIte,
      Fin.zero_eta, Fin.mk_one, Fin.reduceFinMk, Scalar.nat_real, Nat.cast_zero, Nat.cast_one] <;>
    ring

/-- diagonal blocks: `S1(−ω)` -/
theorem diag_blockG (i j : Fin 3) :
    (ca3 (Real.sqrt (sqNorm w)) (sqNorm w) * (W2 w) i j
        + cb3 (Real.sqrt (sqNorm w)) (sqNorm w) * ((-1 / sqNorm w) * (mzero 3 3 : Mat ℝ 3 3) i j)
        + cc3 (Real.sqrt (sqNorm w)) (sqNorm w) * ((1 / sqNorm w ^ 2) * (mzero 3 3 : Mat ℝ 3 3) i j))
      + (-(ca4 (Real.sqrt (sqNorm w)) (sqNorm w) * (mmul (SO3.hat w) (W2 w)) i j)
          - cb4 (Real.sqrt (sqNorm w)) (sqNorm w) * ((-1 / sqNorm w) * (mmul (SO3.hat w) (mzero 3 3)) i j)
          - cc4 (Real.sqrt (sqNorm w)) (sqNorm w) * ((1 / sqNorm w ^ 2) * (mmul (SO3.hat w) (mzero 3 3)) i j))
      + ((ident 3 : Mat ℝ 3 3) i j + -(1 / 2) * (SO3.hat w) i j)
    = (SO3.calc_S1 (vneg w)) i j := by
  obtain ⟨hθ, hsq⟩ := sqrt_facts h
  have hn0 : sqNorm w ≠ 0 := (lt_trans eps2_pos h).ne'
  have hd := diag_block w (Real.sqrt (sqNorm w)) (Real.sin (Real.sqrt (sqNorm w)))
    (Real.cos (Real.sqrt (sqNorm w))) hθ hn0 i j
  have hS : (SO3.calc_S1 (vneg w)) i j = (SO3.dr_exp w) i j := rfl
  rw [hS, dr_exp_closed w h]
  simp only [αr, βr]
  refine Eq.trans ?_ hd
  simp only [mmul_zero_r]
  simp only [ca3, cb3, cc3, ca4, cb4, cc4, mzero, Mat.of_get, Nat.cast_zero, Scalar.nat_real]
  ring

/-- `(b, ω)` block (and the `q`-part of the `(q, ω)` block): `calculate_q(−v, −ω)`, as for SE3 -/
theorem vw_blockG (v : Vec ℝ 3) (i j : Fin 3) :
    (ca3 (Real.sqrt (sqNorm w)) (sqNorm w) * (T2 v w) i j
        + cb3 (Real.sqrt (sqNorm w)) (sqNorm w) * ((-1 / sqNorm w) * (Um v w) i j)
        + cc3 (Real.sqrt (sqNorm w)) (sqNorm w) * ((1 / sqNorm w ^ 2) * (mzero 3 3 : Mat ℝ 3 3) i j))
      + (-(ca4 (Real.sqrt (sqNorm w)) (sqNorm w)
              * (madd (mmul (SO3.hat w) (T2 v w)) (mmul (SO3.hat v) (W2 w))) i j)
          - cb4 (Real.sqrt (sqNorm w)) (sqNorm w)
              * ((-1 / sqNorm w) * (madd (mmul (SO3.hat w) (Um v w)) (mmul (SO3.hat v) (mzero 3 3))) i j)
          - cc4 (Real.sqrt (sqNorm w)) (sqNorm w)
              * ((1 / sqNorm w ^ 2) * (madd (mmul (SO3.hat w) (mzero 3 3)) (mmul (SO3.hat v) (mzero 3 3))) i j))
      + ((mzero 3 3 : Mat ℝ 3 3) i j + -(1 / 2) * (SO3.hat v) i j)
    = (SE3.calculate_q (vneg v) (vneg w)) i j := by
  obtain ⟨hθ, hsq⟩ := sqrt_facts h
  have hn0 : sqNorm w ≠ 0 := (lt_trans eps2_pos h).ne'
  have hd := lr_block v w (Real.sqrt (sqNorm w)) (Real.sin (Real.sqrt (sqNorm w)))
    (Real.cos (Real.sqrt (sqNorm w))) hθ hn0 i j
  refine Eq.trans ?_ (hd.trans ?_)
  · simp only [mmul_zero_r]
    simp only [ca3, cb3, cc3, ca4, cb4, cc4, madd, mzero, Mat.of_get, Nat.cast_zero, Scalar.nat_real]
    ring
  · simp only [SE3.calculate_q, memoM_eq, Mat.of_get, sqNorm3_neg, sin_3_closed h, cos_4_closed h,
      sin_5_closed h, Nat.cast_ofNat, Nat.cast_one]

theorem cos_2_closed' : Trig.cos_2 (sqNorm w) = (Real.cos (Real.sqrt (sqNorm w)) - 1) / sqNorm w := cos_2_closed h

/-- `(q, b)` block: `s·(S1 − S2)(−ω)` -/
theorem pv_blockG (i j : Fin 3) :
    (ca3 (Real.sqrt (sqNorm w)) (sqNorm w) * (msmul (-2 * s) (SO3.hat w)) i j
        + cb3 (Real.sqrt (sqNorm w)) (sqNorm w) * ((-1 / sqNorm w) * (msmul (2 * s * sqNorm w) (SO3.hat w)) i j)
        + cc3 (Real.sqrt (sqNorm w)) (sqNorm w) * ((1 / sqNorm w ^ 2) * (mzero 3 3 : Mat ℝ 3 3) i j))
      + (-(ca4 (Real.sqrt (sqNorm w)) (sqNorm w)
              * (madd (mmul (sI s) (W2 w)) (mmul (SO3.hat w) (msmul (-2 * s) (SO3.hat w)))) i j)
          - cb4 (Real.sqrt (sqNorm w)) (sqNorm w)
              * ((-1 / sqNorm w) * (madd (mmul (sI s) (mzero 3 3))
                  (mmul (SO3.hat w) (msmul (2 * s * sqNorm w) (SO3.hat w)))) i j)
          - cc4 (Real.sqrt (sqNorm w)) (sqNorm w)
              * ((1 / sqNorm w ^ 2) * (madd (mmul (sI s) (mzero 3 3)) (mmul (SO3.hat w) (mzero 3 3))) i j))
      + ((mzero 3 3 : Mat ℝ 3 3) i j + -(1 / 2) * (sI s) i j)
    = s * ((SO3.calc_S1 (vneg w)) i j - (SO3.calc_S2 (vneg w)) i j) := by
  obtain ⟨hθ, hsq⟩ := sqrt_facts h
  have hn0 : sqNorm w ≠ 0 := (lt_trans eps2_pos h).ne'
  simp only [SO3.calc_S1, SO3.calc_S2, memoM_eq, sqNorm3_neg, cos_2_closed h, sin_3_closed h, cos_4_closed h,
    ca3, cb3, cc3, ca4, cb4, cc4]
  generalize Real.sin (Real.sqrt (sqNorm w)) = sn
  generalize Real.cos (Real.sqrt (sqNorm w)) = cs
  generalize Real.sqrt (sqNorm w) = θ at hθ
  fin_cases i <;> fin_cases j <;> entryR

/-- `(q, s)` column: `−S2(−ω)·b` -/
theorem ps_blockG (i : Fin 3) :
    (ca3 (Real.sqrt (sqNorm w)) (sqNorm w) * (mulVec (SO3.hat w) b) i
        + cb3 (Real.sqrt (sqNorm w)) (sqNorm w) * ((-1 / sqNorm w) * (vzero 3 : Vec ℝ 3) i)
        + cc3 (Real.sqrt (sqNorm w)) (sqNorm w) * ((1 / sqNorm w ^ 2) * (vzero 3 : Vec ℝ 3) i))
      + (-(ca4 (Real.sqrt (sqNorm w)) (sqNorm w)
              * (vadd (mulVec (SO3.hat w) (mulVec (SO3.hat w) b)) (vsmul 0 b)) i)
          - cb4 (Real.sqrt (sqNorm w)) (sqNorm w)
              * ((-1 / sqNorm w) * (vadd (mulVec (SO3.hat w) (vzero 3)) (vsmul 0 b)) i)
          - cc4 (Real.sqrt (sqNorm w)) (sqNorm w)
              * ((1 / sqNorm w ^ 2) * (vadd (mulVec (SO3.hat w) (vzero 3)) (vsmul 0 b)) i))
      + ((vzero 3 : Vec ℝ 3) i + -(1 / 2) * b i)
    = (mulVec (mneg (SO3.calc_S2 (vneg w))) b) i := by
  obtain ⟨hθ, hsq⟩ := sqrt_facts h
  have hn0 : sqNorm w ≠ 0 := (lt_trans eps2_pos h).ne'
  simp only [SO3.calc_S2, memoM_eq, sqNorm3_neg, sin_3_closed h, cos_4_closed h,
    ca3, cb3, cc3, ca4, cb4, cc4]
  generalize Real.sin (Real.sqrt (sqNorm w)) = sn
  generalize Real.cos (Real.sqrt (sqNorm w)) = cs
  generalize Real.sqrt (sqNorm w) = θ at hθ
  fin_cases i <;> entryR

/-- `(q, ω)` block: `s·calculate_r(−b, −ω) + calculate_q(−q, −ω)` -/
theorem pw_blockG (i j : Fin 3) :
    (ca3 (Real.sqrt (sqNorm w)) (sqNorm w) * (madd (T2 q w) (msmul (-s) (SO3.hat b))) i j
        + cb3 (Real.sqrt (sqNorm w)) (sqNorm w)
            * ((-1 / sqNorm w) * (madd (Um q w) (msmul (-s) (Lb b w))) i j)
        + cc3 (Real.sqrt (sqNorm w)) (sqNorm w) * ((1 / sqNorm w ^ 2) * (msmul (-s) (Kb b w)) i j))
      + (-(ca4 (Real.sqrt (sqNorm w)) (sqNorm w)
              * (madd (madd (mmul (sI s) (T2 b w))
                  (mmul (SO3.hat w) (madd (T2 q w) (msmul (-s) (SO3.hat b))))) (mmul (SO3.hat q) (W2 w))) i j)
          - cb4 (Real.sqrt (sqNorm w)) (sqNorm w)
              * ((-1 / sqNorm w) * (madd (madd (mmul (sI s) (Um b w))
                  (mmul (SO3.hat w) (madd (Um q w) (msmul (-s) (Lb b w))))) (mmul (SO3.hat q) (mzero 3 3))) i j)
          - cc4 (Real.sqrt (sqNorm w)) (sqNorm w)
              * ((1 / sqNorm w ^ 2) * (madd (madd (mmul (sI s) (mzero 3 3))
                  (mmul (SO3.hat w) (msmul (-s) (Kb b w)))) (mmul (SO3.hat q) (mzero 3 3))) i j))
      + ((mzero 3 3 : Mat ℝ 3 3) i j + -(1 / 2) * (SO3.hat q) i j)
    = s * (Galilei.calculate_r (vneg b) (vneg w)) i j + (SE3.calculate_q (vneg q) (vneg w)) i j := by
  obtain ⟨hθ, hsq⟩ := sqrt_facts h
  have hn0 : sqNorm w ≠ 0 := (lt_trans eps2_pos h).ne'
  have hq := vw_blockG w h q i j
  have hr := r_block b w _ _ _ hθ hn0 (trigClosed h) i j
  rw [← hq, ← hr]
  simp only [sI_mul, mmul_zero_r]
  simp only [RP, ca3, cb3, cc3, ca4, cb4, cc4, madd, msmul, mzero, Mat.of_get, C04Alg.mmul3, Nat.cast_zero,
    Scalar.nat_real]
  ring

end value

/-! ### the theorem -/

open C04Galilei in
macro "gz_block" : tactic => `(tactic|
  (simp only [g_bb, g_bq, g_bs, g_bw, g_qb, g_qq, g_qs, g_qw, g_sb, g_sq, g_ss, g_sw, g_wb, g_wq, g_ws, g_ww,
     h_bb, h_bq, h_bs, h_bw, h_qb, h_qq, h_qs, h_qw, h_sb, h_sq, h_ss, h_sw, h_wb, h_wq, h_ws, h_ww]))

/-- **Galilei, closed branch: `dr_exp a [j,r] = Σ_k (−1)^k/(k+1)! · (ad(a)^k)[j,r]`**, all 100 entries -/
theorem gal_drExp_hasSum (a : Vec ℝ 10) (h : Scalar.eps2 < sqNorm (Galilei.tw a)) (j r : Fin 10) :
    HasSum (termD (toM (Galilei.ad a)) j r) ((Galilei.dr_exp a) j r) := by
  have hA : Galilei.ad a = Xg (Galilei.tb a) (Galilei.tq a) (Galilei.tw a) (Galilei.ts a) := ad_gsh a
  have hs := gal_hasSum (Galilei.tb a) (Galilei.tq a) (Galilei.tw a) (Galilei.ts a) h j r
  rw [hA]
  convert hs using 1
  clear hs hA
  simp only [C04Galilei.dr_exp_eq_gshape, Vg]
  unfold Xg X2g Z1g Z2g
  rw [gsh_mul, gsh_mul, gsh_mul, ← gsh_ident]
  revert j r
  apply idx_cases
  · intro x; apply idx_cases
    · intro y; gz_block; exact (diag_blockG _ h x y).symm
    · intro y; gz_block; ring
    · gz_block; ring
    · intro y; gz_block; exact (vw_blockG _ h _ x y).symm
  · intro x; apply idx_cases
    · intro y; gz_block; exact (pv_blockG _ _ h x y).symm
    · intro y; gz_block; exact (diag_blockG _ h x y).symm
    · gz_block; exact (ps_blockG _ _ h x).symm
    · intro y; gz_block; exact (pw_blockG _ _ _ _ h x y).symm
  · apply idx_cases
    · intro y; gz_block; ring
    · intro y; gz_block; ring
    · gz_block; ring
    · intro y; gz_block; ring
  · intro x; apply idx_cases
    · intro y; gz_block; ring
    · intro y; gz_block; ring
    · gz_block; ring
    · intro y; gz_block; exact (diag_blockG _ h x y).symm

end C04SeriesGal
