/-
  C02LogSE2.lean — SE2: `log` is the inverse of `exp` (closed-form branches and the exact
  zero-angle case), with bridging lemmas to the model functions.
-/
import SmoothProofs.C02Log
import SmoothProofs.C02Exp

open Lin Scalar

namespace C02

/-- closed-form branch of `SE2.log` -/
noncomputable def se2LogClosed (g : Vec ℝ 4) : Vec ℝ 3 :=
  let th := Complex.arg ⟨g 3, g 2⟩
  let B := th / 2
  let A := B / Real.tan B
  mk3 (A * g 0 + B * g 1) (-B * g 0 + A * g 1) th

theorem se2_log_angle (g : Vec ℝ 4) : (SE2.log g) 2 = Complex.arg ⟨g 3, g 2⟩ := by
  simp [SE2.log, SE2.so2, SO2.log, mk1, mk2, mk3]

theorem se2_log_eq_closed (g : Vec ℝ 4)
    (h : ¬ Complex.arg ⟨g 3, g 2⟩ * Complex.arg ⟨g 3, g 2⟩ < Scalar.eps2) :
    SE2.log g = se2LogClosed g := by
  ext i
  fin_cases i <;>
    simp [SE2.log, SE2.logA, se2LogClosed, SE2.so2, SE2.r2, SO2.log, mulVec, vsum, mat2, mk1, mk2,
      mk3, h]

/-- rotation angle of `SE2.log` is the principal one -/
theorem se2_log_angle_range (g : Vec ℝ 4) :
    -Real.pi < (SE2.log g) 2 ∧ (SE2.log g) 2 ≤ Real.pi := by
  rw [se2_log_angle]; exact ⟨Complex.neg_pi_lt_arg _, Complex.arg_le_pi _⟩

theorem sin_half_ne_zero (θ : ℝ) (h1 : -Real.pi < θ) (h2 : θ ≤ Real.pi) (h0 : θ ≠ 0) :
    Real.sin (θ / 2) ≠ 0 := by
  intro hs
  have := (Real.sin_eq_zero_iff_of_lt_of_lt (x := θ / 2) (by linarith [Real.pi_pos])
    (by linarith [Real.pi_pos])).1 hs
  apply h0; linarith

/-- the two algebraic identities `S(θ)·S⁻¹(θ) = 1`, with `h = θ/2`, `A = h·cos h / sin h` -/
theorem se2_S_Sinv (θ x y : ℝ) (hθ : θ ≠ 0) (hs : Real.sin (θ / 2) ≠ 0) :
    let B := θ / 2
    let A := B / Real.tan B
    Real.sin θ / θ * (A * x + B * y) + (Real.cos θ - 1) / θ * (-B * x + A * y) = x ∧
    -((Real.cos θ - 1) / θ) * (A * x + B * y) + Real.sin θ / θ * (-B * x + A * y) = y := by
  intro B A
  have hsin : Real.sin θ = 2 * Real.sin (θ/2) * Real.cos (θ/2) := by
    rw [← Real.sin_two_mul]; congr 1; ring
  have hcos : Real.cos θ = 1 - 2 * Real.sin (θ/2) * Real.sin (θ/2) := by
    have : Real.cos θ = Real.cos (2 * (θ/2)) := by congr 1; ring
    rw [this, Real.cos_two_mul, Real.cos_sq']; ring
  have hA : A = θ / 2 * Real.cos (θ / 2) / Real.sin (θ / 2) := by
    simp only [A, B, Real.tan_eq_sin_div_cos, div_div_eq_mul_div]
  have hB : B = θ / 2 := rfl
  have hsc := Real.sin_sq_add_cos_sq (θ / 2)
  rw [hA, hB, hsin, hcos]
  generalize Real.sin (θ / 2) = s at *
  generalize Real.cos (θ / 2) = c at *
  constructor
  · field_simp
    linear_combination (2 * x * s) * hsc
  · field_simp
    linear_combination (2 * y * s) * hsc

/-- **exp ∘ log = id** (closed forms): unit rotation part, non-zero angle. -/
theorem se2_expClosed_logClosed (g : Vec ℝ 4) (hU : g 2 * g 2 + g 3 * g 3 = 1)
    (hθ : Complex.arg ⟨g 3, g 2⟩ ≠ 0) : se2ExpClosed (se2LogClosed g) = g := by
  have hU' : g 3 * g 3 + g 2 * g 2 = 1 := by rw [add_comm]; exact hU
  set θ := Complex.arg ⟨g 3, g 2⟩ with hθdef
  have hs := sin_half_ne_zero θ (Complex.neg_pi_lt_arg _) (Complex.arg_le_pi _) hθ
  obtain ⟨e0, e1⟩ := se2_S_Sinv θ (g 0) (g 1) hθ hs
  ext i
  fin_cases i
  · simpa [se2ExpClosed, se2LogClosed, mk3, mk4, ← hθdef] using e0
  · simpa [se2ExpClosed, se2LogClosed, mk3, mk4, ← hθdef] using e1
  · simp [se2ExpClosed, se2LogClosed, mk3, mk4, sin_arg_mk_unit _ _ hU']
  · simp [se2ExpClosed, se2LogClosed, mk3, mk4, cos_arg_mk_unit _ _ hU']

/-- `S⁻¹(θ)·S(θ) = 1` -/
theorem se2_Sinv_S (θ x y : ℝ) (hθ : θ ≠ 0) (hs : Real.sin (θ / 2) ≠ 0) :
    let B := θ / 2
    let A := B / Real.tan B
    A * (Real.sin θ / θ * x + (Real.cos θ - 1) / θ * y)
      + B * (-((Real.cos θ - 1) / θ) * x + Real.sin θ / θ * y) = x ∧
    -B * (Real.sin θ / θ * x + (Real.cos θ - 1) / θ * y)
      + A * (-((Real.cos θ - 1) / θ) * x + Real.sin θ / θ * y) = y := by
  intro B A
  have hsin : Real.sin θ = 2 * Real.sin (θ/2) * Real.cos (θ/2) := by
    rw [← Real.sin_two_mul]; congr 1; ring
  have hcos : Real.cos θ = 1 - 2 * Real.sin (θ/2) * Real.sin (θ/2) := by
    have : Real.cos θ = Real.cos (2 * (θ/2)) := by congr 1; ring
    rw [this, Real.cos_two_mul, Real.cos_sq']; ring
  have hA : A = θ / 2 * Real.cos (θ / 2) / Real.sin (θ / 2) := by
    simp only [A, B, Real.tan_eq_sin_div_cos, div_div_eq_mul_div]
  have hB : B = θ / 2 := rfl
  have hsc := Real.sin_sq_add_cos_sq (θ / 2)
  rw [hA, hB, hsin, hcos]
  generalize Real.sin (θ / 2) = s at *
  generalize Real.cos (θ / 2) = c at *
  constructor
  · field_simp
    linear_combination (2 * x * s) * hsc
  · field_simp
    linear_combination (2 * y * s) * hsc

/-- **log ∘ exp = id** (closed forms): principal non-zero angle. -/
theorem se2_logClosed_expClosed (a : Vec ℝ 3) (h1 : -Real.pi < a 2) (h2 : a 2 ≤ Real.pi)
    (h0 : a 2 ≠ 0) : se2LogClosed (se2ExpClosed a) = a := by
  have hs := sin_half_ne_zero (a 2) h1 h2 h0
  obtain ⟨e0, e1⟩ := se2_Sinv_S (a 2) (a 0) (a 1) h0 hs
  have harg := arg_mk_cos_sin (a 2) h1 h2
  ext i
  fin_cases i
  · simpa [se2ExpClosed, se2LogClosed, mk3, mk4, harg] using e0
  · simpa [se2ExpClosed, se2LogClosed, mk3, mk4, harg] using e1
  · simp [se2ExpClosed, se2LogClosed, mk3, mk4, harg]


/-! ### the model functions under their branch conditions -/

theorem se2LogClosed_angle (g : Vec ℝ 4) : (se2LogClosed g) 2 = Complex.arg ⟨g 3, g 2⟩ := by
  simp [se2LogClosed, mk3]

theorem se2ExpClosed_rot (a : Vec ℝ 3) :
    (se2ExpClosed a) 2 = Real.sin (a 2) ∧ (se2ExpClosed a) 3 = Real.cos (a 2) := by
  simp [se2ExpClosed, mk4]

/-- **exp (log g) = g**, model functions, closed-form branch (`θ² ≥ eps2`). -/
theorem se2_exp_log (g : Vec ℝ 4) (hU : g 2 * g 2 + g 3 * g 3 = 1)
    (hb : ¬ Complex.arg ⟨g 3, g 2⟩ * Complex.arg ⟨g 3, g 2⟩ < Scalar.eps2) :
    SE2.exp (SE2.log g) = g := by
  have hθ : Complex.arg ⟨g 3, g 2⟩ ≠ 0 := by
    intro h0; apply hb; rw [h0]; simpa using eps2_pos
  rw [se2_log_eq_closed g hb, se2_exp_eq_closed _ (by rw [se2LogClosed_angle]; exact hb)]
  exact se2_expClosed_logClosed g hU hθ

/-- **log (exp a) = a**, model functions, principal angle, closed-form branch. -/
theorem se2_log_exp (a : Vec ℝ 3) (h1 : -Real.pi < a 2) (h2 : a 2 ≤ Real.pi)
    (hb : ¬ a 2 * a 2 < Scalar.eps2) : SE2.log (SE2.exp a) = a := by
  have h0 : a 2 ≠ 0 := by
    intro h0; apply hb; rw [h0]; simpa using eps2_pos
  have harg := arg_mk_cos_sin (a 2) h1 h2
  rw [se2_exp_eq_closed a hb, se2_log_eq_closed _
    (by rw [(se2ExpClosed_rot a).1, (se2ExpClosed_rot a).2, harg]; exact hb)]
  exact se2_logClosed_expClosed a h1 h2 h0

/-- zero angle: the series branches are exact. -/
theorem se2_log_exp_zero (a : Vec ℝ 3) (h0 : a 2 = 0) : SE2.log (SE2.exp a) = a := by
  have hb : (0 : ℝ) < Scalar.eps2 := eps2_pos
  have h1 : (⟨1, 0⟩ : ℂ) = 1 := by apply Complex.ext <;> simp
  ext i
  fin_cases i <;>
    simp [SE2.log, SE2.logA, SE2.exp, SE2.expAB, SE2.so2, SE2.r2, SO2.log, SO2.exp, mulVec, vsum,
      mat2, mk1, mk2, mk3, mk4, h0, hb, h1]

theorem se2_exp_log_zero (g : Vec ℝ 4) (h2 : g 2 = 0) (h3 : g 3 = 1) :
    SE2.exp (SE2.log g) = g := by
  have hb : (0 : ℝ) < Scalar.eps2 := eps2_pos
  have h1 : (⟨1, 0⟩ : ℂ) = 1 := by apply Complex.ext <;> simp
  ext i
  fin_cases i <;>
    simp [SE2.log, SE2.logA, SE2.exp, SE2.expAB, SE2.so2, SE2.r2, SO2.log, SO2.exp, mulVec, vsum,
      mat2, mk1, mk2, mk3, mk4, h2, h3, hb, h1]

end C02
