/-
  C12Concat.lean — the concatenation laws: y(t) = x₁(t) before t₁, y(t) = h ∘ x₂(t − t₁) from t₁ on
  (h = x₁(t₁) for concat_local, h = 1 for concat_global).
-/
import SmoothProofs.C12Eval

set_option linter.unusedSectionVars false

open SplineSM SplineSM.TimeOps

namespace C12

variable {τ : Type} [Field τ] [LinearOrder τ] [IsStrictOrderedRing τ]
attribute [local instance] fieldTime
variable {G W : Type} [Group G] {C : Ker τ G W}

/-- `m_end_g[last] = …`: overwrite the end point of the last segment -/
abbrev setLast (φ : Seg τ G W → G) (l : List (Seg τ G W)) : List (Seg τ G W) :=
  modLast (fun sg => { sg with gEnd := φ sg }) l

/-- the appended segments: times shifted by `d`, end points left-multiplied by `h` -/
abbrev shiftL (C : Ker τ G W) (h : G) (d : τ) (l : List (Seg τ G W)) : List (Seg τ G W) :=
  l.map fun sg => { sg with tEnd := d + sg.tEnd, gEnd := C.mul h sg.gEnd }

theorem setLast_ne_nil (φ : Seg τ G W → G) (a : Seg τ G W) (r : List (Seg τ G W)) : setLast φ (a :: r) ≠ [] := by
  cases r <;> simp [setLast, modLast]

theorem lastT_setLast (φ : Seg τ G W → G) (tp : τ) (l : List (Seg τ G W)) : lastT tp (setLast φ l) = lastT tp l := by
  induction l generalizing tp with
  | nil => rfl
  | cons a r ih =>
    cases r with
    | nil => rfl
    | cons b r' => exact ih a.tEnd

theorem setLast_tEnd_le (φ : Seg τ G W → G) (l : List (Seg τ G W)) (t : τ) (h : ∀ a ∈ l, a.tEnd ≤ t) :
    ∀ a ∈ setLast φ l, a.tEnd ≤ t := by
  induction l with
  | nil => intro a ha; cases ha
  | cons a r ih =>
    cases r with
    | nil =>
      intro x hx
      simp only [setLast, modLast, List.mem_singleton] at hx
      subst hx
      exact h a (by simp)
    | cons b r' =>
      intro x hx
      have hx' : x ∈ a :: setLast φ (b :: r') := hx
      rcases List.mem_cons.1 hx' with rfl | hx''
      · exact h _ (by simp)
      · exact ih (fun y hy => h y (List.mem_cons_of_mem _ hy)) x hx''

theorem lastG_setLast (φ : Seg τ G W → G) (g : G) (a : Seg τ G W) (r : List (Seg τ G W)) :
    ∃ z : Seg τ G W, lastG g (setLast φ (a :: r)) = φ z ∧ z.gEnd = lastG g (a :: r) := by
  induction r generalizing a g with
  | nil => exact ⟨a, rfl, rfl⟩
  | cons b r' ih => exact ih a.gEnd b

theorem lastT_shiftL (h : G) (d tp : τ) (l : List (Seg τ G W)) : lastT (d + tp) (shiftL C h d l) = d + lastT tp l := by
  induction l generalizing tp with
  | nil => rfl
  | cons a r ih => exact ih a.tEnd

theorem lastG_shiftL (hK : GroupKer C) (h : G) (d : τ) (g : G) (l : List (Seg τ G W)) :
    lastG (h * g) (shiftL C h d l) = h * lastG g l := by
  induction l generalizing g with
  | nil => rfl
  | cons a r ih => simpa [shiftL, lastG, hK.mul_eq] using ih a.gEnd

/-- before t₁ the segment lookup and the evaluation ignore what was appended -/
theorem evalFrom_setLast_append (φ : Seg τ G W → G) (g : G) (tp : τ) (l1 l2 : List (Seg τ G W)) (t : τ)
    (hne : l1 ≠ []) (ht : t < lastT tp l1) :
    evalFrom C g tp (setLast φ l1 ++ l2) t = evalFrom C g tp l1 t := by
  induction l1 generalizing g tp with
  | nil => exact absurd rfl hne
  | cons a r ih =>
    cases r with
    | nil =>
      have h1 : t < a.tEnd := ht
      have : setLast φ [a] ++ l2 = { a with gEnd := φ a } :: l2 := rfl
      rw [this, evalFrom_cons_lt (by exact h1)]
      rfl
    | cons b r' =>
      have hm : setLast φ (a :: b :: r') ++ l2 = a :: (setLast φ (b :: r') ++ l2) := rfl
      rw [hm]
      by_cases hlt : t < a.tEnd
      · rw [evalFrom_cons_lt hlt, evalFrom_cons_lt hlt]
      · rw [evalFrom_cons_ge hlt (by simp [setLast_ne_nil]), evalFrom_cons_ge hlt (by simp)]
        exact ih a.gEnd a.tEnd (by simp) ht

/-- generic first part: a spline whose segment list is `setLast φ s.segs ++ l2` agrees with `s` on `[0, t₁)` -/
theorem eval_append_first (s y : Spline τ G W) (φ : Seg τ G W → G) (l2 : List (Seg τ G W))
    (hy0 : y.g0 = s.g0) (hys : y.segs = setLast φ s.segs ++ l2) {t : τ}
    (h0 : 0 ≤ t) (ht : t < tMax s) (hty : t ≤ tMax y) : eval C y t = eval C s t := by
  have hsne : s.segs ≠ [] := by
    intro h
    rw [tMax_eq, h] at ht
    exact absurd ht (not_lt.2 h0)
  have hyne : y.segs ≠ [] := by
    rw [hys]
    cases hs : s.segs with
    | nil => exact absurd hs hsne
    | cons a r => simp [setLast_ne_nil]
  rw [eval_inside y hyne h0 hty, eval_inside s hsne h0 (le_of_lt ht), hys, hy0]
  exact evalFrom_setLast_append φ s.g0 0 s.segs l2 t hsne (by rwa [tMax_eq] at ht)

/-- generic second part -/
theorem eval_append_second (hK : GroupKer C) (s o y : Spline τ G W) (φ : Seg τ G W → G) (h : G)
    (hy0 : y.g0 = s.g0) (hys : y.segs = setLast φ s.segs ++ shiftL C h (tMax s) o.segs)
    (hjoin : lastG s.g0 (setLast φ s.segs) = h * o.g0)
    (hs : Inv C s) (_ho : Inv C o) (hsne : s.segs ≠ []) (hone : o.segs ≠ []) {t : τ} (ht : tMax s ≤ t) :
    eval C y t = liftL h (eval C o (t - tMax s)) := by
  obtain ⟨a, r, hsr⟩ : ∃ a r, s.segs = a :: r := by
    cases hs' : s.segs with
    | nil => exact absurd hs' hsne
    | cons a r => exact ⟨a, r, rfl⟩
  have hd0 : (0 : τ) ≤ tMax s := by rw [tMax_eq]; exact InvFrom_le_lastT C _ _ _ hs
  have h0 : (0 : τ) ≤ t := le_trans hd0 ht
  have ht' : (0 : τ) ≤ t - tMax s := sub_nonneg.2 ht
  have hyne : y.segs ≠ [] := by rw [hys, hsr]; simp [setLast_ne_nil]
  have hshne : shiftL C h (tMax s) o.segs ≠ [] := by simpa [shiftL] using hone
  have hTy : tMax y = tMax s + tMax o := by
    rw [tMax_eq y, hys, lastT_append, lastT_setLast, ← tMax_eq s]
    have := lastT_shiftL (C := C) h (tMax s) 0 o.segs
    rw [add_zero] at this
    rw [this, ← tMax_eq o]
  have hGy : endG y = h * endG o := by
    rw [endG_eq y, hys, lastG_append, hy0, hjoin, lastG_shiftL hK, ← endG_eq o]
  by_cases hout : tMax o < t - tMax s
  · rw [eval_after o ht' hout, eval_after y h0 (by rw [hTy]; linarith), hGy]
    rfl
  · have hin : t - tMax s ≤ tMax o := not_lt.1 hout
    rw [eval_inside o hone ht' hin, eval_inside y hyne h0 (by rw [hTy]; linarith), hys, hy0]
    have hskip : ∀ x ∈ setLast φ s.segs, x.tEnd ≤ t := by
      apply setLast_tEnd_le
      intro x hx
      exact le_trans (InvFrom_mem_le (C := C) _ _ _ hs x hx) (by rw [← tMax_eq]; exact ht)
    rw [evalFrom_skip _ _ hskip hshne, hjoin, lastT_setLast, ← tMax_eq s]
    have := evalFrom_shift_local hK h (tMax s) o.g0 0 o.segs hone (t - tMax s)
    rw [add_zero, add_sub_cancel] at this
    exact this

/-! ### concat_local -/

theorem tMax_concatLocal (_hK : GroupKer C) (s o : Spline τ G W) : tMax (concatLocal C s o) = tMax s + tMax o := by
  have hsegs : (concatLocal C s o).segs = setLast (fun sg => C.mul sg.gEnd o.g0) s.segs ++ shiftL C (endG s) (tMax s) o.segs := by
    unfold concatLocal
    cases s.segs <;> rfl
  rw [tMax_eq, hsegs, lastT_append, lastT_setLast, ← tMax_eq s]
  have := lastT_shiftL (C := C) (endG s) (tMax s) 0 o.segs
  rw [add_zero] at this
  rw [this, ← tMax_eq o]

theorem concatLocal_segs (s o : Spline τ G W) :
    (concatLocal C s o).segs = setLast (fun sg => C.mul sg.gEnd o.g0) s.segs ++ shiftL C (endG s) (tMax s) o.segs := by
  unfold concatLocal
  cases s.segs <;> rfl

theorem concatLocal_g0 (s o : Spline τ G W) (hne : s.segs ≠ []) : (concatLocal C s o).g0 = s.g0 := by
  unfold concatLocal
  cases hs : s.segs with
  | nil => exact absurd hs hne
  | cons a r => rfl

theorem concat_local_first (hK : GroupKer C) (s o : Spline τ G W) (ho : Inv C o) {t : τ} (h0 : 0 ≤ t) (ht : t < tMax s) :
    eval C (concatLocal C s o) t = eval C s t := by
  have hsne : s.segs ≠ [] := by
    intro h; rw [tMax_eq, h] at ht; exact absurd ht (not_lt.2 h0)
  have ho0 : (0 : τ) ≤ tMax o := by rw [tMax_eq]; exact InvFrom_le_lastT C _ _ _ ho
  exact eval_append_first s _ _ _ (concatLocal_g0 s o hsne) (concatLocal_segs s o) h0 ht
    (by rw [tMax_concatLocal hK]; linarith)

theorem concat_local_second (hK : GroupKer C) (s o : Spline τ G W) (hs : Inv C s) (ho : Inv C o)
    (hsne : s.segs ≠ []) (hone : o.segs ≠ []) {t : τ} (ht : tMax s ≤ t) :
    eval C (concatLocal C s o) t = liftL (endG s) (eval C o (t - tMax s)) := by
  refine eval_append_second hK s o _ (fun sg => C.mul sg.gEnd o.g0) (endG s) (concatLocal_g0 s o hsne)
    (concatLocal_segs s o) ?_ hs ho hsne hone ht
  cases hsr : s.segs with
  | nil => exact absurd hsr hsne
  | cons a r =>
    obtain ⟨z, hz1, hz2⟩ := lastG_setLast (fun sg : Seg τ G W => C.mul sg.gEnd o.g0) s.g0 a r
    rw [hz1, hK.mul_eq, hz2, endG_eq, hsr]

/-! ### concat_global -/

theorem shiftL_one (hK : GroupKer C) (d : τ) (l : List (Seg τ G W)) :
    shiftL C 1 d l = l.map fun sg => { sg with tEnd := d + sg.tEnd } := by
  unfold shiftL
  congr 1
  funext sg
  simp [hK.mul_eq]

theorem concatGlobal_segs (hK : GroupKer C) (s o : Spline τ G W) :
    (concatGlobal s o).segs = setLast (fun _ => o.g0) s.segs ++ shiftL C 1 (tMax s) o.segs := by
  rw [shiftL_one hK]
  unfold concatGlobal
  cases s.segs <;> rfl

theorem concatGlobal_g0 (s o : Spline τ G W) (hne : s.segs ≠ []) : (concatGlobal s o).g0 = s.g0 := by
  unfold concatGlobal
  cases hs : s.segs with
  | nil => exact absurd hs hne
  | cons a r => rfl

theorem tMax_concatGlobal (hK : GroupKer C) (s o : Spline τ G W) : tMax (concatGlobal s o) = tMax s + tMax o := by
  rw [tMax_eq, concatGlobal_segs hK, lastT_append, lastT_setLast, ← tMax_eq s]
  have := lastT_shiftL (C := C) 1 (tMax s) 0 o.segs
  rw [add_zero] at this
  rw [this, ← tMax_eq o]

theorem concat_global_first (hK : GroupKer C) (s o : Spline τ G W) (ho : Inv C o) {t : τ} (h0 : 0 ≤ t) (ht : t < tMax s) :
    eval C (concatGlobal s o) t = eval C s t := by
  have hsne : s.segs ≠ [] := by
    intro h; rw [tMax_eq, h] at ht; exact absurd ht (not_lt.2 h0)
  have ho0 : (0 : τ) ≤ tMax o := by rw [tMax_eq]; exact InvFrom_le_lastT C _ _ _ ho
  exact eval_append_first s _ _ _ (concatGlobal_g0 s o hsne) (concatGlobal_segs hK s o) h0 ht
    (by rw [tMax_concatGlobal hK]; linarith)

theorem concat_global_second (hK : GroupKer C) (s o : Spline τ G W) (hs : Inv C s) (ho : Inv C o)
    (hsne : s.segs ≠ []) (hone : o.segs ≠ []) {t : τ} (ht : tMax s ≤ t) :
    eval C (concatGlobal s o) t = eval C o (t - tMax s) := by
  have := eval_append_second hK s o (concatGlobal s o) (fun _ => o.g0) 1 (concatGlobal_g0 s o hsne)
    (concatGlobal_segs hK s o) ?_ hs ho hsne hone ht
  · rw [this]; simp [liftL]
  · cases hsr : s.segs with
    | nil => exact absurd hsr hsne
    | cons a r =>
      obtain ⟨z, hz1, _⟩ := lastG_setLast (fun _ : Seg τ G W => o.g0) s.g0 a r
      rw [hz1, one_mul]

end C12
