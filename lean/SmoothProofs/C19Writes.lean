/-
  C19Writes.lean — which positions the `*_sparse` routines write: every `coeffRef` issued by
  `dr_exp_sparse` / `d2r_exp_sparse` (any descriptor, any nesting, any block offset) addresses a
  shifted entry of the published pattern; list-level facts about `gridFilter`.
-/
import Mathlib.Data.List.Basic
import Mathlib.Data.List.Nodup
import SmoothModel.Sparse

open Lin Scalar Mem

namespace Sparse

theorem mem_gridFilter (rows cols : Nat) (p : Nat → Nat → Bool) (r c : Nat) :
    (r, c) ∈ gridFilter rows cols p ↔ r < rows ∧ c < cols ∧ p r c = true := by
  simp only [gridFilter, List.mem_flatMap, List.mem_range, List.mem_filterMap]
  constructor
  · rintro ⟨c', hc', r', hr', h⟩
    split at h
    · rename_i hp
      simp only [Option.some.injEq, Prod.mk.injEq] at h
      obtain ⟨rfl, rfl⟩ := h
      exact ⟨hr', hc', hp⟩
    · cases h
  · rintro ⟨hr, hc, hp⟩
    exact ⟨c, hc, r, hr, by simp [hp]⟩

theorem nodup_gridFilter (rows cols : Nat) (p : Nat → Nat → Bool) : (gridFilter rows cols p).Nodup := by
  unfold gridFilter
  rw [List.nodup_flatMap]
  constructor
  · intro c _
    apply List.Nodup.filterMap _ List.nodup_range
    intro r r' x hx hx'
    simp only [Option.mem_def] at hx hx'
    split at hx
    · split at hx'
      · simp only [Option.some.injEq] at hx hx'
        have := hx.trans hx'.symm
        exact (Prod.mk.inj this).1
      · cases hx'
    · cases hx
  · apply List.Pairwise.imp _ (List.nodup_range (n := cols))
    intro c c' hne
    simp only [Function.onFun, List.disjoint_left, List.mem_filterMap, List.mem_range]
    rintro x ⟨r, _, h⟩ ⟨r', _, h'⟩
    split at h
    · split at h'
      · simp only [Option.some.injEq] at h h'
        have := h.trans h'.symm
        exact hne (Prod.mk.inj this).2
      · cases h'
    · cases h

mutual
  /-- the diagonal belongs to every published `d_exp` pattern -/
  theorem inD_diag : (d : GDesc) → (i : Nat) → i < dofSize d → inD d i i = true
    | .so2, _, _ => by simp [inD]
    | .c1, _, _ => by simp [inD]
    | .tn _, _, _ => by simp [inD]
    | .so3, _, _ => rfl
    | .gal, _, _ => rfl
    | .sek3 _, _, _ => rfl
    | .se2, i, h => by simp only [dofSize] at h; simp only [inD, Bool.or_eq_true, decide_eq_true_eq, beq_iff_eq]; omega
    | .se3, i, h => by simp only [inD, Bool.or_eq_true, decide_eq_true_eq]; omega
    | .bundle ps, i, h => inDL_diag ps i h
  theorem inDL_diag : (ps : List GDesc) → (i : Nat) → i < dofSizeL ps → inDL ps i i = true
    | [], _, h => absurd h (Nat.not_lt_zero _)
    | p :: ps, i, h => by
      simp only [inDL]
      by_cases h1 : i < dofSize p
      · simp [h1, inD_diag p i h1]
      · have h2 : dofSize p ≤ i := Nat.le_of_not_lt h1
        have h3 : i - dofSize p < dofSizeL ps := by simp only [dofSizeL] at h; omega
        simp [h1, h2, inDL_diag ps (i - dofSize p) h3]
end

section writes
variable {α : Type} [Scalar α]

/-- what a write list addresses: shifted entries `(i0 + r, i0 + c)` of a pattern predicate -/
def InBlock (n i0 : Nat) (p : Nat → Nat → Bool) (w : Nat × Nat × α) : Prop :=
  ∃ r c, r < n ∧ c < n ∧ p r c = true ∧ w.1 = i0 + r ∧ w.2.1 = i0 + c

theorem identWrites_inBlock (n i0 : Nat) (p : Nat → Nat → Bool) (hp : ∀ i, i < n → p i i = true)
    (w : Nat × Nat × α) (hw : w ∈ identWrites (α := α) n i0) : InBlock n i0 p w := by
  simp only [identWrites, List.mem_map, List.mem_range] at hw
  obtain ⟨i, hi, rfl⟩ := hw
  exact ⟨i, i, hi, hi, hp i hi, rfl, rfl⟩

theorem denseWrites_inBlock (d : GDesc) (inv : Bool) (a : Array α) (ao i0 : Nat)
    (w : Nat × Nat × α) (hw : w ∈ denseWrites d inv a ao i0) : InBlock (dofSize d) i0 (inD d) w := by
  simp only [denseWrites, List.mem_map] at hw
  obtain ⟨k, hk, rfl⟩ := hw
  have := (mem_gridFilter _ _ _ k.1 k.2).1 (by simpa [dPattern] using hk)
  exact ⟨k.1, k.2, this.1, this.2.1, this.2.2, rfl, rfl⟩

mutual
  /-- **every `coeffRef` of `dr_exp_sparse` / `dr_expinv_sparse` addresses a shifted entry of the
      published pattern** — for every descriptor, nesting and block offset -/
  theorem dWrites_inBlock (inv : Bool) : (d : GDesc) → (a : Array α) → (ao i0 : Nat) →
      ∀ w ∈ dWrites inv d a ao i0, InBlock (dofSize d) i0 (inD d) w
    | .bundle ps, a, ao, i0 => by
      intro w hw
      simp only [dWrites] at hw
      split at hw
      · exact identWrites_inBlock _ _ _ (fun i hi => inDL_diag ps i hi) w hw
      · exact dWritesL_inBlock inv ps a ao i0 w hw
    | .so2, _, _, i0 => fun w hw => identWrites_inBlock 1 i0 _ (fun i hi => inD_diag .so2 i hi) w hw
    | .c1, _, _, i0 => fun w hw => identWrites_inBlock 2 i0 _ (fun i hi => inD_diag .c1 i hi) w hw
    | .tn n, _, _, i0 => fun w hw => identWrites_inBlock n i0 _ (fun i hi => inD_diag (.tn n) i hi) w hw
    | .so3, a, ao, i0 => fun w hw => denseWrites_inBlock .so3 inv a ao i0 w hw
    | .se2, a, ao, i0 => fun w hw => denseWrites_inBlock .se2 inv a ao i0 w hw
    | .se3, a, ao, i0 => fun w hw => denseWrites_inBlock .se3 inv a ao i0 w hw
    | .gal, a, ao, i0 => fun w hw => denseWrites_inBlock .gal inv a ao i0 w hw
    | .sek3 k, a, ao, i0 => fun w hw => denseWrites_inBlock (.sek3 k) inv a ao i0 w hw
  theorem dWritesL_inBlock (inv : Bool) : (ps : List GDesc) → (a : Array α) → (ao i0 : Nat) →
      ∀ w ∈ dWritesL inv ps a ao i0, InBlock (dofSizeL ps) i0 (inDL ps) w
    | [], _, _, _ => fun w hw => by simp [dWritesL] at hw
    | p :: ps, a, ao, i0 => by
      intro w hw
      simp only [dWritesL, List.mem_append] at hw
      rcases hw with hw | hw
      · obtain ⟨r, c, hr, hc, hp, e1, e2⟩ := dWrites_inBlock inv p a ao i0 w hw
        refine ⟨r, c, by simp only [dofSizeL]; omega, by simp only [dofSizeL]; omega, ?_, e1, e2⟩
        simp [inDL, hr, hc, hp]
      · obtain ⟨r, c, hr, hc, hp, e1, e2⟩ := dWritesL_inBlock inv ps a (ao + dofSize p) (i0 + dofSize p) w hw
        refine ⟨dofSize p + r, dofSize p + c, by simp only [dofSizeL]; omega, by simp only [dofSizeL]; omega, ?_,
          by omega, by omega⟩
        have h1 : ¬ (dofSize p + r < dofSize p) := by omega
        simp [inDL, h1, hp]
end

/-- keys of the dense-fallback writes are exactly the shifted published pattern, in order -/
theorem denseWrites_keys (d : GDesc) (inv : Bool) (a : Array α) (ao i0 : Nat) :
    (denseWrites d inv a ao i0).map (fun w => (w.1, w.2.1)) = (dPattern d).map (fun k => (i0 + k.1, i0 + k.2)) := by
  simp [denseWrites, List.map_map, Function.comp]

theorem denseWrites_nodup (d : GDesc) (inv : Bool) (a : Array α) (ao i0 : Nat) :
    ((denseWrites d inv a ao i0).map (fun w => (w.1, w.2.1))).Nodup := by
  rw [denseWrites_keys]
  apply List.Nodup.map _ (nodup_gridFilter _ _ _)
  intro x y h
  simp only [Prod.mk.injEq] at h
  exact Prod.ext (by omega) (by omega)

end writes

end Sparse
