/-
  C07Vector.lean — lemmas about the `std::vector<M>` adaptor (`Manif.vector`): the loops with a
  dof counter / an output buffer equal the concatenation forms.
-/
import SmoothModel.Manifold
import Mathlib.Data.List.Forall2
import Mathlib.Tactic.Ring
import Mathlib.Algebra.BigOperators.Group.List.Basic

open Scalar Lin Manif

set_option linter.unusedSectionVars false
set_option linter.unusedSimpArgs false

namespace C07
variable {α : Type} [Scalar α] {M : Type}

/-! ### laws of a Manifold model (the axioms of property C07), relative to
  `Valid` (representation invariant, e.g. unit quaternion), `Dom` (injectivity radius) and
  `Compat` (binary operations need operands of the same shape) -/

/-- the all-zero tangent -/
def zeros (α : Type) [Scalar α] (n : Nat) : List α := List.replicate n (nat 0)

structure ManLaws (A : Man α M) (Valid : M → Prop) (Dom : M → List α → Prop)
    (Compat : M → M → Prop) : Prop where
  valid_rplus : ∀ m a, Valid m → a.length = A.dof m → Dom m a → Valid (A.rplus m a)
  dof_rplus : ∀ m a, Valid m → a.length = A.dof m → Dom m a → A.dof (A.rplus m a) = A.dof m
  compat_rplus : ∀ m a, Valid m → a.length = A.dof m → Dom m a → Compat (A.rplus m a) m
  compat_dof : ∀ m1 m2, Compat m1 m2 → A.dof m1 = A.dof m2
  /-- `rminus` returns a tangent of length `dof` -/
  rminus_length : ∀ m1 m2, Valid m1 → Valid m2 → Compat m1 m2 →
    ∃ d, A.rminus m1 m2 = .ok d ∧ d.length = A.dof m1
  rminus_rplus : ∀ m a, Valid m → a.length = A.dof m → Dom m a → A.rminus (A.rplus m a) m = .ok a
  rplus_rminus : ∀ m m2 d, Valid m → Valid m2 → Compat m2 m → A.rminus m2 m = .ok d → A.rplus m d = m2
  rminus_self : ∀ m, Valid m → A.rminus m m = .ok (zeros α (A.dof m))

/-- static element size: `Dof > 0` means every element has that dof -/
def DofStatic (A : Man α M) : Prop := ∀ d, A.sdof = some d → ∀ m, A.dof m = d

/-! ### dof -/

theorem foldl_dof (A : Man α M) (ms : List M) (s : Nat) :
    ms.foldl (fun s m => s + A.dof m) s = s + (ms.map A.dof).sum := by
  induction ms generalizing s with
  | nil => simp
  | cons m ms ih => simp [ih, Nat.add_assoc]

theorem vectorDof_eq_sum (A : Man α M) (hs : DofStatic A) (ms : List M) :
    vectorDof A ms = (ms.map A.dof).sum := by
  unfold vectorDof
  cases h : A.sdof with
  | none => simp [foldl_dof]
  | some d =>
    have hd := hs d h
    simp only
    induction ms with
    | nil => simp
    | cons m ms ih => simp [hd m, Nat.succ_mul, ih, Nat.add_comm]

theorem vectorRminusSize_eq_sum (A : Man α M) (hs : DofStatic A) (ms : List M) :
    vectorRminusSize A ms = (ms.map A.dof).sum := by
  unfold vectorRminusSize
  cases h : A.sdof with
  | none => simp [foldl_dof]
  | some d =>
    have hd := hs d h
    simp only
    induction ms with
    | nil => simp
    | cons m ms ih => simp [hd m, Nat.mul_succ, ih, Nat.add_comm]

/-! ### rplus: the dof counter walks consecutive segments -/

/-- concatenation form: split `a` into consecutive pieces of the elements' dofs -/
def specRplus (A : Man α M) : List M → List α → List M
  | [], _ => []
  | m :: ms, a => A.rplus m (a.take (A.dof m)) :: specRplus A ms (a.drop (A.dof m))

theorem vectorRplusLoop_eq (A : Man α M) (ms : List M) (c : Nat) (a : List α) :
    vectorRplusLoop A ms c a = specRplus A ms (a.drop c) := by
  induction ms generalizing c with
  | nil => rfl
  | cons m ms ih =>
    simp only [vectorRplusLoop, specRplus, segment, ih, List.drop_drop]

theorem vectorRplus_eq_spec (A : Man α M) (ms : List M) (a : List α) :
    vectorRplus A ms a = specRplus A ms a := by
  simp [vectorRplus, vectorRplusLoop_eq]

theorem specRplus_length (A : Man α M) (ms : List M) (a : List α) :
    (specRplus A ms a).length = ms.length := by
  induction ms generalizing a with
  | nil => rfl
  | cons m ms ih => simp [specRplus, ih]

/-! ### rminus: buffer writes at consecutive offsets = concatenation -/

/-- concatenation form of `rminus` for equally long vectors -/
def specRminus (A : Man α M) : List M → List M → Except String (List α)
  | m1 :: r1, m2 :: r2 => do
    let d ← A.rminus m1 m2
    let rest ← specRminus A r1 r2
    pure (d ++ rest)
  | _, _ => pure []

theorem writeSeg_length (buf : List α) (off len : Nat) (d : List α) :
    (writeSeg buf off len d).length = buf.length := by
  simp [writeSeg]

/-- writing a full segment right after a prefix `p` -/
theorem writeSeg_append (p q d : List α) (hd : d.length ≤ q.length) :
    writeSeg (p ++ q) p.length d.length d = p ++ d ++ q.drop d.length := by
  apply List.ext_getElem
  · simp [writeSeg]; omega
  · intro i h1 h2
    simp only [writeSeg, List.getElem_mapIdx]
    by_cases hp : i < p.length
    · have : ¬ (p.length ≤ i ∧ i < p.length + d.length) := by omega
      simp [this, List.getElem_append_left, hp]
    · by_cases hdd : i < p.length + d.length
      · have hc : p.length ≤ i ∧ i < p.length + d.length := ⟨by omega, hdd⟩
        have hi : i - p.length < d.length := by omega
        simp only [hc, and_self, if_true]
        rw [List.getElem_append_left (by simp; omega), List.getElem_append_right (by omega)]
        simp [List.getD_eq_getElem?_getD, hi]
      · have hc : ¬ (p.length ≤ i ∧ i < p.length + d.length) := by omega
        simp only [hc, if_false]
        rw [List.getElem_append_right (by omega), List.getElem_append_right (by simp; omega)]
        simp only [List.length_append, List.getElem_drop]
        congr 1
        omega

/-- elementwise precondition for `rminus`: every pair yields a tangent of the element's dof -/
def PairsOk (A : Man α M) : List M → List M → Prop :=
  List.Forall₂ (fun a b => ∃ d, A.rminus a b = .ok d ∧ d.length = A.dof a)

theorem specRminus_ok (A : Man α M) {m1 m2 : List M} (h : PairsOk A m1 m2) :
    ∃ ds, specRminus A m1 m2 = .ok ds ∧ ds.length = (m1.map A.dof).sum := by
  induction h with
  | nil => exact ⟨[], rfl, rfl⟩
  | cons hab _ ih =>
    obtain ⟨d, hd, hl⟩ := hab
    obtain ⟨ds, hds, hls⟩ := ih
    refine ⟨d ++ ds, ?_, by simp [hl, hls]⟩
    simp [specRminus, hd, hds, bind, Except.bind, pure, Except.pure]

theorem vectorRminusLoop_eq (A : Man α M) {m1 m2 : List M} (h : PairsOk A m1 m2)
    (p q : List α) (hq : (m1.map A.dof).sum ≤ q.length) :
    ∃ ds, specRminus A m1 m2 = .ok ds ∧
      vectorRminusLoop A m1 m2 p.length (p ++ q) = .ok (p ++ ds ++ q.drop ds.length) := by
  induction h generalizing p q with
  | nil => exact ⟨[], rfl, by simp [vectorRminusLoop, pure, Except.pure]⟩
  | @cons a b r1 r2 hab hr ih =>
    obtain ⟨d, hd, hl⟩ := hab
    simp only [List.map_cons, List.sum_cons] at hq
    have hdq : d.length ≤ q.length := by omega
    have hw := writeSeg_append p q d hdq
    obtain ⟨ds, hds, hloop⟩ := ih (p ++ d) (q.drop d.length) (by simp; omega)
    refine ⟨d ++ ds, by simp [specRminus, hd, hds, bind, Except.bind, pure, Except.pure], ?_⟩
    simp only [vectorRminusLoop, hd, bind, Except.bind]
    rw [← hl, hw]
    have : p.length + d.length = (p ++ d).length := by simp
    rw [this, List.append_assoc p d (List.drop d.length q), ← List.append_assoc p d, hloop]
    simp [List.drop_drop, Nat.add_comm]

/-- for equally long vectors whose element differences are well-formed, `rminus` is the
    concatenation of the element differences — whatever the uninitialised buffer held -/
theorem vectorRminus_eq_spec (A : Man α M) (hs : DofStatic A) (uninit : Nat → α) {m1 m2 : List M}
    (h : PairsOk A m1 m2) : vectorRminus A uninit m1 m2 = specRminus A m1 m2 := by
  obtain ⟨ds0, hds0, hlen0⟩ := specRminus_ok A h
  have hsz := vectorRminusSize_eq_sum A hs m1
  obtain ⟨ds, hds, hloop⟩ := vectorRminusLoop_eq A h []
    ((List.range (vectorRminusSize A m1)).map uninit) (by simp [hsz])
  rw [hds0] at hds
  cases hds
  unfold vectorRminus
  have h0 : ([] : List α).length = 0 := rfl
  rw [← h0, ← List.nil_append (List.map uninit _), hloop, hds0]
  simp [hlen0, hsz]

/-! ### the axioms lift elementwise -/

/-- every consecutive segment of `a` lies in the element's domain -/
def DomSegs (A : Man α M) (Dom : M → List α → Prop) : List M → List α → Prop
  | [], _ => True
  | m :: ms, a => Dom m (a.take (A.dof m)) ∧ DomSegs A Dom ms (a.drop (A.dof m))

section lift
variable {A : Man α M} {Valid : M → Prop} {Dom : M → List α → Prop} {Compat : M → M → Prop}

theorem spec_valid (hA : ManLaws A Valid Dom Compat) (ms : List M) (a : List α)
    (hv : ∀ m ∈ ms, Valid m) (hl : a.length = (ms.map A.dof).sum) (hd : DomSegs A Dom ms a) :
    ∀ m' ∈ specRplus A ms a, Valid m' := by
  induction ms generalizing a with
  | nil => intro m' h; simp [specRplus] at h
  | cons m ms ih =>
    simp only [List.map_cons, List.sum_cons] at hl
    intro m' h
    simp only [specRplus, List.mem_cons] at h
    rcases h with h | h
    · subst h
      exact hA.valid_rplus m _ (hv m (by simp)) (by simp; omega) hd.1
    · exact ih _ (fun x hx => hv x (by simp [hx])) (by simp; omega) hd.2 m' h

theorem spec_dofs (hA : ManLaws A Valid Dom Compat) (ms : List M) (a : List α)
    (hv : ∀ m ∈ ms, Valid m) (hl : a.length = (ms.map A.dof).sum) (hd : DomSegs A Dom ms a) :
    (specRplus A ms a).map A.dof = ms.map A.dof := by
  induction ms generalizing a with
  | nil => rfl
  | cons m ms ih =>
    simp only [List.map_cons, List.sum_cons] at hl
    simp only [specRplus, List.map_cons]
    rw [hA.dof_rplus m _ (hv m (by simp)) (by simp; omega) hd.1,
      ih _ (fun x hx => hv x (by simp [hx])) (by simp; omega) hd.2]

theorem spec_compat (hA : ManLaws A Valid Dom Compat) (ms : List M) (a : List α)
    (hv : ∀ m ∈ ms, Valid m) (hl : a.length = (ms.map A.dof).sum) (hd : DomSegs A Dom ms a) :
    List.Forall₂ Compat (specRplus A ms a) ms := by
  induction ms generalizing a with
  | nil => exact List.Forall₂.nil
  | cons m ms ih =>
    simp only [List.map_cons, List.sum_cons] at hl
    exact List.Forall₂.cons (hA.compat_rplus m _ (hv m (by simp)) (by simp; omega) hd.1)
      (ih _ (fun x hx => hv x (by simp [hx])) (by simp; omega) hd.2)

theorem pairsOk_of (hA : ManLaws A Valid Dom Compat) {m1 m2 : List M}
    (hc : List.Forall₂ Compat m1 m2) (h1 : ∀ m ∈ m1, Valid m) (h2 : ∀ m ∈ m2, Valid m) :
    PairsOk A m1 m2 := by
  induction hc with
  | nil => exact List.Forall₂.nil
  | @cons a b r1 r2 hab _ ih =>
    exact List.Forall₂.cons (hA.rminus_length a b (h1 a (by simp)) (h2 b (by simp)) hab)
      (ih (fun x hx => h1 x (by simp [hx])) (fun x hx => h2 x (by simp [hx])))

theorem spec_rminus_rplus (hA : ManLaws A Valid Dom Compat) (ms : List M) (a : List α)
    (hv : ∀ m ∈ ms, Valid m) (hl : a.length = (ms.map A.dof).sum) (hd : DomSegs A Dom ms a) :
    specRminus A (specRplus A ms a) ms = .ok a := by
  induction ms generalizing a with
  | nil =>
    have : a = [] := by simpa using hl
    subst this; rfl
  | cons m ms ih =>
    simp only [List.map_cons, List.sum_cons] at hl
    obtain ⟨hd1, hd2⟩ := hd
    have h1 := hA.rminus_rplus m (a.take (A.dof m)) (hv m (by simp)) (by simp; omega) hd1
    have h2 := ih (a.drop (A.dof m)) (fun x hx => hv x (by simp [hx])) (by simp; omega) hd2
    simp [specRplus, specRminus, h1, h2, bind, Except.bind, pure, Except.pure]

theorem spec_rplus_rminus (hA : ManLaws A Valid Dom Compat) {m2 m : List M}
    (hc : List.Forall₂ Compat m2 m) (h2 : ∀ x ∈ m2, Valid x) (h1 : ∀ x ∈ m, Valid x)
    (d : List α) (hd : specRminus A m2 m = .ok d) : specRplus A m d = m2 := by
  induction hc generalizing d with
  | nil => rfl
  | @cons a b r2 r1 hab hr ih =>
    obtain ⟨d1, hd1, hl1⟩ := hA.rminus_length a b (h2 a (by simp)) (h1 b (by simp)) hab
    obtain ⟨ds, hds, _⟩ := specRminus_ok A (pairsOk_of hA hr (fun x hx => h2 x (by simp [hx]))
      (fun x hx => h1 x (by simp [hx])))
    simp [specRminus, hd1, hds, bind, Except.bind, pure, Except.pure] at hd
    subst hd
    have hdof : A.dof b = d1.length := by rw [hl1]; exact (hA.compat_dof a b hab).symm
    simp only [specRplus, hdof, List.take_left', List.drop_left']
    rw [hA.rplus_rminus b a d1 (h1 b (by simp)) (h2 a (by simp)) hab hd1,
      ih (fun x hx => h2 x (by simp [hx])) (fun x hx => h1 x (by simp [hx])) ds hds]

theorem spec_rminus_self (hA : ManLaws A Valid Dom Compat) (ms : List M) (hv : ∀ m ∈ ms, Valid m) :
    specRminus A ms ms = .ok (zeros α (ms.map A.dof).sum) := by
  induction ms with
  | nil => rfl
  | cons m ms ih =>
    have h1 := hA.rminus_self m (hv m (by simp))
    have h2 := ih (fun x hx => hv x (by simp [hx]))
    simp [specRminus, h1, h2, bind, Except.bind, pure, Except.pure, zeros]

theorem forall₂_compat_dofs (hA : ManLaws A Valid Dom Compat) {m1 m2 : List M}
    (hc : List.Forall₂ Compat m1 m2) : m1.map A.dof = m2.map A.dof := by
  induction hc with
  | nil => rfl
  | cons hab _ ih => simp [hA.compat_dof _ _ hab, ih]

/-- **the axioms lift elementwise to `std::vector<M>`** -/
theorem vector_laws (hA : ManLaws A Valid Dom Compat) (hs : DofStatic A) (uninit : Nat → α) :
    ManLaws (vector A uninit) (fun ms => ∀ m ∈ ms, Valid m) (DomSegs A Dom)
      (List.Forall₂ Compat) where
  valid_rplus := by
    intro ms a hv hl hd
    change ∀ m ∈ vectorRplus A ms a, Valid m
    rw [vectorRplus_eq_spec]
    exact spec_valid hA ms a hv (by rw [hl]; exact vectorDof_eq_sum A hs ms) hd
  dof_rplus := by
    intro ms a hv hl hd
    change vectorDof A (vectorRplus A ms a) = vectorDof A ms
    rw [vectorRplus_eq_spec, vectorDof_eq_sum A hs, vectorDof_eq_sum A hs,
      spec_dofs hA ms a hv (by rw [hl]; exact vectorDof_eq_sum A hs ms) hd]
  compat_rplus := by
    intro ms a hv hl hd
    change List.Forall₂ Compat (vectorRplus A ms a) ms
    rw [vectorRplus_eq_spec]
    exact spec_compat hA ms a hv (by rw [hl]; exact vectorDof_eq_sum A hs ms) hd
  compat_dof := by
    intro m1 m2 hc
    change vectorDof A m1 = vectorDof A m2
    rw [vectorDof_eq_sum A hs, vectorDof_eq_sum A hs, forall₂_compat_dofs hA hc]
  rminus_length := by
    intro m1 m2 h1 h2 hc
    have hp := pairsOk_of hA hc h1 h2
    obtain ⟨ds, hds, hl⟩ := specRminus_ok A hp
    refine ⟨ds, ?_, ?_⟩
    · change vectorRminus A uninit m1 m2 = _
      rw [vectorRminus_eq_spec A hs uninit hp, hds]
    · change _ = vectorDof A m1
      rw [hl, vectorDof_eq_sum A hs]
  rminus_rplus := by
    intro ms a hv hl hd
    have hl' : a.length = (ms.map A.dof).sum := by rw [hl]; exact vectorDof_eq_sum A hs ms
    change vectorRminus A uninit (vectorRplus A ms a) ms = _
    rw [vectorRplus_eq_spec,
      vectorRminus_eq_spec A hs uninit (pairsOk_of hA (spec_compat hA ms a hv hl' hd)
        (spec_valid hA ms a hv hl' hd) hv)]
    exact spec_rminus_rplus hA ms a hv hl' hd
  rplus_rminus := by
    intro m m2 d hv hv2 hc hd
    change vectorRminus A uninit m2 m = _ at hd
    rw [vectorRminus_eq_spec A hs uninit (pairsOk_of hA hc hv2 hv)] at hd
    change vectorRplus A m d = m2
    rw [vectorRplus_eq_spec]
    exact spec_rplus_rminus hA hc hv2 hv d hd
  rminus_self := by
    intro ms hv
    have hp : PairsOk A ms ms := by
      induction ms with
      | nil => exact List.Forall₂.nil
      | cons m ms ih =>
        exact List.Forall₂.cons ⟨_, hA.rminus_self m (hv m (by simp)), by simp [zeros]⟩
          (ih (fun x hx => hv x (by simp [hx])))
    change vectorRminus A uninit ms ms = .ok (zeros α (vectorDof A ms))
    rw [vectorRminus_eq_spec A hs uninit hp, vectorDof_eq_sum A hs]
    exact spec_rminus_self hA ms hv

end lift

end C07
