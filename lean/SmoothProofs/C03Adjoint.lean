/-
  C03Adjoint.lean — the abstract statement of property C03 for one `LieModel ℝ`
  (`AdjointRep G U InAlg`), its generic consequences (injectivity of `hat`, antisymmetry and the
  Jacobi identity of the bracket, `Ad` of a product), and closure under `Bundle.prod` /
  `Bundle.bundle`.
-/
import SmoothProofs.C03Lin

open Lin Scalar
set_option linter.unusedSimpArgs false

namespace C03

theorem mul_right_cancel_of_rightInv {n : Nat} {X Y M N : Matrix (Fin n) (Fin n) ℝ}
    (hN : M * N = 1) (h : X * M = Y * M) : X = Y := by
  have e := congrArg (· * N) h
  simpa [Matrix.mul_assoc, hN] using e

/-- Property C03 for one group model: `U` is the representation constraint (`Unit g`), `InAlg`
    the shape predicate of the documented Lie-algebra matrices. -/
structure AdjointRep (G : LieModel ℝ) (U : Vec ℝ G.rep → Prop) (InAlg : Mat ℝ G.dim G.dim → Prop) :
    Prop where
  /-- `vee ∘ hat = id` -/
  vee_hat : ∀ a, G.vee (G.hat a) = a
  /-- `hat` lands in the documented algebra … -/
  hat_inAlg : ∀ a, InAlg (G.hat a)
  /-- … and `hat ∘ vee = id` there -/
  hat_vee : ∀ A, InAlg A → G.hat (G.vee A) = A
  hat_add : ∀ a b, G.hat (vadd a b) = madd (G.hat a) (G.hat b)
  hat_smul : ∀ (s : ℝ) a, G.hat (vsmul s a) = msmul s (G.hat a)
  /-- inverse-free form of `Ad(g) a = vee (M(g)·hat a·M(g)⁻¹)` -/
  Ad_def : ∀ g a, U g → mmul (G.matrix g) (G.hat a) = mmul (G.hat (mulVec (G.Ad g) a)) (G.matrix g)
  /-- `hat (ad a · b) = [hat a, hat b]` -/
  ad_def : ∀ a b, G.hat (mulVec (G.ad a) b)
      = msub (mmul (G.hat a) (G.hat b)) (mmul (G.hat b) (G.hat a))
  /-- `Ad (g₁∘g₂) = Ad g₁ · Ad g₂` -/
  Ad_comp : ∀ g₁ g₂, U g₁ → U g₂ → G.Ad (G.composition g₁ g₂) = mmul (G.Ad g₁) (G.Ad g₂)

namespace AdjointRep
variable {G : LieModel ℝ} {U : Vec ℝ G.rep → Prop} {InAlg : Mat ℝ G.dim G.dim → Prop}

theorem hat_injective (h : AdjointRep G U InAlg) {a b : Vec ℝ G.dof} (e : G.hat a = G.hat b) : a = b := by
  rw [← h.vee_hat a, ← h.vee_hat b, e]

theorem hat_neg (h : AdjointRep G U InAlg) (a : Vec ℝ G.dof) : G.hat (vneg a) = mneg (G.hat a) := by
  have e : vneg a = vsmul (-1 : ℝ) a := by ext i; simp [vneg, vsmul]
  rw [e, h.hat_smul]; ext i j; simp [msmul, mneg]

theorem hat_zero (h : AdjointRep G U InAlg) : G.hat (vzero G.dof) = mzero G.dim G.dim := by
  have e : vzero G.dof = vsmul (0 : ℝ) (vzero G.dof) := by ext i; simp [vzero, vsmul]
  rw [e, h.hat_smul]; ext i j; simp [msmul, mzero]

/-- `lie_bracket a b = vee (hat a·hat b − hat b·hat a)` -/
theorem bracket_eq_commutator (h : AdjointRep G U InAlg) (a b : Vec ℝ G.dof) :
    G.bracket a b = G.vee (msub (mmul (G.hat a) (G.hat b)) (mmul (G.hat b) (G.hat a))) := by
  rw [← h.ad_def, h.vee_hat]; rfl

theorem hat_bracket (h : AdjointRep G U InAlg) (a b : Vec ℝ G.dof) :
    G.hat (G.bracket a b) = msub (mmul (G.hat a) (G.hat b)) (mmul (G.hat b) (G.hat a)) :=
  h.ad_def a b

/-- the bracket is antisymmetric -/
theorem bracket_antisymm (h : AdjointRep G U InAlg) (a b : Vec ℝ G.dof) :
    G.bracket a b = vneg (G.bracket b a) := by
  apply h.hat_injective
  rw [h.hat_neg, h.hat_bracket, h.hat_bracket]
  ext i j; simp [msub, mneg]

theorem bracket_self (h : AdjointRep G U InAlg) (a : Vec ℝ G.dof) : G.bracket a a = vzero G.dof := by
  apply h.hat_injective
  rw [h.hat_bracket, h.hat_zero]
  ext i j; simp [msub, mzero]

/-- the Jacobi identity -/
theorem jacobi (h : AdjointRep G U InAlg) (a b c : Vec ℝ G.dof) :
    vadd (vadd (G.bracket a (G.bracket b c)) (G.bracket b (G.bracket c a))) (G.bracket c (G.bracket a b))
      = vzero G.dof := by
  apply h.hat_injective
  rw [h.hat_add, h.hat_add, h.hat_zero]
  simp only [h.hat_bracket]
  apply toM_inj
  simp only [toM_madd, toM_msub, toM_mmul, toM_mzero]
  noncomm_ring

/-- the bracket is bilinear (left additivity shown; the rest is the same computation) -/
theorem bracket_add_left (h : AdjointRep G U InAlg) (a a' b : Vec ℝ G.dof) :
    G.bracket (vadd a a') b = vadd (G.bracket a b) (G.bracket a' b) := by
  apply h.hat_injective
  rw [h.hat_add]
  simp only [h.hat_bracket, h.hat_add]
  apply toM_inj
  simp only [toM_madd, toM_msub, toM_mmul]
  noncomm_ring

/-- `Ad` is a representation on the bracket: `Ad g [a,b] = [Ad g a, Ad g b]`, given a right
    inverse of `matrix g`. -/
theorem Ad_bracket (h : AdjointRep G U InAlg) (g : Vec ℝ G.rep) (hg : U g)
    (N : Mat ℝ G.dim G.dim) (hN : mmul (G.matrix g) N = ident G.dim) (a b : Vec ℝ G.dof) :
    mulVec (G.Ad g) (G.bracket a b) = G.bracket (mulVec (G.Ad g) a) (mulVec (G.Ad g) b) := by
  apply h.hat_injective
  have e1 := congrArg toM (h.Ad_def g (G.bracket a b) hg)
  have ea := congrArg toM (h.Ad_def g a hg)
  have eb := congrArg toM (h.Ad_def g b hg)
  have hN' := congrArg toM hN
  rw [h.hat_bracket] at e1 ⊢
  simp only [toM_mmul, toM_msub, toM_ident] at e1 ea eb hN'
  apply toM_inj
  simp only [toM_mmul, toM_msub]
  set M := toM (G.matrix g)
  set A := toM (G.hat a)
  set B := toM (G.hat b)
  set A' := toM (G.hat (mulVec (G.Ad g) a))
  set B' := toM (G.hat (mulVec (G.Ad g) b))
  set X := toM (G.hat (mulVec (G.Ad g) (G.bracket a b)))
  have key : X * M = (A' * B' - B' * A') * M := by
    rw [← e1, Matrix.mul_sub, Matrix.sub_mul, ← Matrix.mul_assoc, ← Matrix.mul_assoc, ea, eb,
      Matrix.mul_assoc, Matrix.mul_assoc, ea, eb, ← Matrix.mul_assoc, ← Matrix.mul_assoc]
  exact mul_right_cancel_of_rightInv hN' key

end AdjointRep

/-- `Ad (g₁∘g₂) = Ad g₁·Ad g₂` follows from `Ad_def`, `vee_hat`, the matrix homomorphism and the
    existence of a right inverse of `matrix g`. -/
theorem Ad_comp_of (G : LieModel ℝ) (U : Vec ℝ G.rep → Prop)
    (vee_hat : ∀ a, G.vee (G.hat a) = a)
    (Ad_def : ∀ g a, U g → mmul (G.matrix g) (G.hat a) = mmul (G.hat (mulVec (G.Ad g) a)) (G.matrix g))
    (hU : ∀ a b, U a → U b → U (G.composition a b))
    (hM : ∀ a b, U a → U b → G.matrix (G.composition a b) = mmul (G.matrix a) (G.matrix b))
    (hinv : ∀ g, U g → ∃ N, mmul (G.matrix g) N = ident G.dim)
    (g₁ g₂ : Vec ℝ G.rep) (h₁ : U g₁) (h₂ : U g₂) :
    G.Ad (G.composition g₁ g₂) = mmul (G.Ad g₁) (G.Ad g₂) := by
  apply mat_ext_mulVec
  intro a
  rw [← mulVec_mulVec]
  have h₁₂ := hU g₁ g₂ h₁ h₂
  obtain ⟨N, hN⟩ := hinv _ h₁₂
  have e12 := congrArg toM (Ad_def _ a h₁₂)
  have e2 := congrArg toM (Ad_def g₂ a h₂)
  have e1 := congrArg toM (Ad_def g₁ (mulVec (G.Ad g₂) a) h₁)
  have hN' := congrArg toM hN
  rw [hM g₁ g₂ h₁ h₂] at e12 hN'
  simp only [toM_mmul, toM_ident] at e12 e2 e1 hN'
  rw [← vee_hat (mulVec (G.Ad (G.composition g₁ g₂)) a),
    ← vee_hat (mulVec (G.Ad g₁) (mulVec (G.Ad g₂) a))]
  congr 1
  apply toM_inj
  set M₁ := toM (G.matrix g₁)
  set M₂ := toM (G.matrix g₂)
  set X := toM (G.hat (mulVec (G.Ad (G.composition g₁ g₂)) a))
  set Y := toM (G.hat (mulVec (G.Ad g₁) (mulVec (G.Ad g₂) a)))
  have key : X * (M₁ * M₂) = Y * (M₁ * M₂) := by
    rw [← e12, Matrix.mul_assoc, e2, ← Matrix.mul_assoc, e1, Matrix.mul_assoc]
  exact mul_right_cancel_of_rightInv hN' key

/-! ### closure under `Bundle.prod` and `Bundle.bundle` -/

section bundle
open Bundle

/-- representation constraint of a product: both parts satisfy theirs -/
def prodU {A B : LieModel ℝ} (UA : Vec ℝ A.rep → Prop) (UB : Vec ℝ B.rep → Prop) :
    Vec ℝ (Bundle.prod A B).rep → Prop :=
  fun g => UA (fst (n := A.rep) (m := B.rep) g) ∧ UB (snd (n := A.rep) (m := B.rep) g)

/-- algebra of a product: block diagonal with both blocks in their algebras -/
def prodInAlg {A B : LieModel ℝ} (IA : Mat ℝ A.dim A.dim → Prop) (IB : Mat ℝ B.dim B.dim → Prop) :
    Mat ℝ (Bundle.prod A B).dim (Bundle.prod A B).dim → Prop :=
  fun M => M = bdiag (tl (n := A.dim) (m := B.dim) M) (br (n := A.dim) (m := B.dim) M)
    ∧ IA (tl (n := A.dim) (m := B.dim) M) ∧ IB (br (n := A.dim) (m := B.dim) M)

section prodLemmas
variable {A B : LieModel ℝ} {UA : Vec ℝ A.rep → Prop} {UB : Vec ℝ B.rep → Prop}
  {IA : Mat ℝ A.dim A.dim → Prop} {IB : Mat ℝ B.dim B.dim → Prop}
  (hA : AdjointRep A UA IA) (hB : AdjointRep B UB IB)
include hA hB

theorem prod_vee_hat (a : Vec ℝ (A.dof + B.dof)) : prodVee A B (prodHat A B a) = a := by
  unfold prodVee prodHat
  rw [tl_bdiag, br_bdiag, hA.vee_hat, hB.vee_hat, vcat_fst_snd]

theorem prod_hat_inAlg (a : Vec ℝ (A.dof + B.dof)) :
    (fun M : Mat ℝ (A.dim + B.dim) (A.dim + B.dim) => M = bdiag (tl M) (br M) ∧ IA (tl M) ∧ IB (br M))
      (prodHat A B a) := by
  unfold prodHat
  simp only [tl_bdiag, br_bdiag]
  exact ⟨trivial, hA.hat_inAlg _, hB.hat_inAlg _⟩

theorem prod_hat_vee (M : Mat ℝ (A.dim + B.dim) (A.dim + B.dim))
    (hM : M = bdiag (tl M) (br M) ∧ IA (tl M) ∧ IB (br M)) : prodHat A B (prodVee A B M) = M := by
  obtain ⟨h0, h1, h2⟩ := hM
  unfold prodVee prodHat
  rw [fst_vcat, snd_vcat, hA.hat_vee _ h1, hB.hat_vee _ h2]
  exact h0.symm

theorem prod_hat_add (a b : Vec ℝ (A.dof + B.dof)) :
    prodHat A B (vadd a b) = madd (prodHat A B a) (prodHat A B b) := by
  unfold prodHat
  rw [fst_vadd, snd_vadd, hA.hat_add, hB.hat_add, madd_bdiag]

theorem prod_hat_smul (s : ℝ) (a : Vec ℝ (A.dof + B.dof)) :
    prodHat A B (vsmul s a) = msmul s (prodHat A B a) := by
  unfold prodHat
  rw [fst_vsmul, snd_vsmul, hA.hat_smul, hB.hat_smul, msmul_bdiag]

theorem prod_Ad_def (g : Vec ℝ (A.rep + B.rep)) (a : Vec ℝ (A.dof + B.dof))
    (hg : UA (fst g) ∧ UB (snd g)) :
    mmul (prodMatrix A B g) (prodHat A B a)
      = mmul (prodHat A B (mulVec (prodAd A B g) a)) (prodMatrix A B g) := by
  unfold prodMatrix prodHat prodAd
  rw [mulVec_bdiag, fst_vcat, snd_vcat, mmul_bdiag, mmul_bdiag, hA.Ad_def _ _ hg.1, hB.Ad_def _ _ hg.2]

theorem prod_ad_def (a b : Vec ℝ (A.dof + B.dof)) :
    prodHat A B (mulVec (prodad A B a) b)
      = msub (mmul (prodHat A B a) (prodHat A B b)) (mmul (prodHat A B b) (prodHat A B a)) := by
  unfold prodHat prodad
  rw [mulVec_bdiag, fst_vcat, snd_vcat, mmul_bdiag, mmul_bdiag, msub_bdiag, hA.ad_def, hB.ad_def]

theorem prod_Ad_comp (g₁ g₂ : Vec ℝ (A.rep + B.rep))
    (h₁ : UA (fst g₁) ∧ UB (snd g₁)) (h₂ : UA (fst g₂) ∧ UB (snd g₂)) :
    prodAd A B (prodComposition A B g₁ g₂) = mmul (prodAd A B g₁) (prodAd A B g₂) := by
  unfold prodAd prodComposition
  rw [fst_vcat, snd_vcat, mmul_bdiag, hA.Ad_comp _ _ h₁.1 h₂.1, hB.Ad_comp _ _ h₁.2 h₂.2]

end prodLemmas

/-- C03 is closed under the binary direct product -/
theorem AdjointRep.prod {A B : LieModel ℝ} {UA : Vec ℝ A.rep → Prop} {UB : Vec ℝ B.rep → Prop}
    {IA : Mat ℝ A.dim A.dim → Prop} {IB : Mat ℝ B.dim B.dim → Prop}
    (hA : AdjointRep A UA IA) (hB : AdjointRep B UB IB) :
    AdjointRep (Bundle.prod A B) (prodU UA UB) (prodInAlg IA IB) where
  vee_hat := prod_vee_hat hA hB
  hat_inAlg := prod_hat_inAlg hA hB
  hat_vee := prod_hat_vee hA hB
  hat_add := prod_hat_add hA hB
  hat_smul := prod_hat_smul hA hB
  Ad_def := fun g a hg => prod_Ad_def hA hB g a hg
  ad_def := prod_ad_def hA hB
  Ad_comp := fun g₁ g₂ h₁ h₂ => prod_Ad_comp hA hB g₁ g₂ h₁ h₂

/-- the empty bundle -/
theorem AdjointRep.unit : AdjointRep (Bundle.unit : LieModel ℝ) (fun _ => True) (fun _ => True) where
  vee_hat := by intro a; ext i; exact i.elim0
  hat_inAlg := by intro a; trivial
  hat_vee := by intro A _; ext i; exact i.elim0
  hat_add := by intro a b; ext i; exact i.elim0
  hat_smul := by intro s a; ext i; exact i.elim0
  Ad_def := by intro g a _; ext i; exact i.elim0
  ad_def := by intro a b; ext i; exact i.elim0
  Ad_comp := by intro g₁ g₂ _ _; ext i; exact i.elim0

/-- one part of a bundle: a model with its constraint, its algebra and the C03 statement -/
structure Part where
  G : LieModel ℝ
  U : Vec ℝ G.rep → Prop
  InAlg : Mat ℝ G.dim G.dim → Prop
  ok : AdjointRep G U InAlg

/-- constraint of `Bundle.bundle`: every part satisfies its own -/
def bundleU : (ps : List Part) → Vec ℝ (Bundle.bundle (ps.map Part.G)).rep → Prop
  | [] => fun _ => True
  | p :: ps => prodU p.U (bundleU ps)

def bundleInAlg : (ps : List Part) →
    Mat ℝ (Bundle.bundle (ps.map Part.G)).dim (Bundle.bundle (ps.map Part.G)).dim → Prop
  | [] => fun _ => True
  | p :: ps => prodInAlg p.InAlg (bundleInAlg ps)

/-- C03 for every `Bundle` whose parts satisfy it (induction over the list of parts) -/
theorem AdjointRep.bundle : ∀ ps : List Part,
    AdjointRep (Bundle.bundle (ps.map Part.G)) (bundleU ps) (bundleInAlg ps)
  | [] => AdjointRep.unit
  | p :: ps => AdjointRep.prod p.ok (AdjointRep.bundle ps)

end bundle

end C03
