/-
  C19Ad.lean — `ad_sparse` (`coeffs().setZero(); sp += a(k)·generator_k`): the sparse sum keeps the
  pattern of the host whenever the generator patterns are contained in it; order facts of the
  column-major key order; generators are column-major sorted.
-/
import Mathlib.Data.List.Basic
import Mathlib.Data.List.Pairwise
import SmoothProofs.C19Sparse

open Lin Scalar Mem

namespace Sparse

theorem keyLt_irrefl (a : Key) : keyLt a a = false := by
  simp [keyLt]

theorem keyLt_trans {a b c : Key} (h1 : keyLt a b = true) (h2 : keyLt b c = true) : keyLt a c = true := by
  simp only [keyLt, Bool.or_eq_true, decide_eq_true_eq, Bool.and_eq_true, beq_iff_eq] at *
  omega

theorem keyLt_trichotomy (a b : Key) : keyLt a b = true ∨ a = b ∨ keyLt b a = true := by
  simp only [keyLt, Bool.or_eq_true, decide_eq_true_eq, Bool.and_eq_true, beq_iff_eq]
  rcases a with ⟨a1, a2⟩; rcases b with ⟨b1, b2⟩
  simp only [Prod.mk.injEq]
  omega

theorem keyLt_asymm {a b : Key} (h1 : keyLt a b = true) : keyLt b a = false := by
  cases h : keyLt b a with
  | false => rfl
  | true => have := keyLt_trans h1 h; rw [keyLt_irrefl] at this; cases this

variable {α : Type} [Scalar α]

/-- sorted by the column-major order -/
def SortedKeys (l : List (Key × α)) : Prop := (l.map Prod.fst).Pairwise (fun a b => keyLt a b = true)

theorem mergeAdd_pattern (s : α) (l r : List (Key × α)) (hl : SortedKeys l) (hr : SortedKeys r)
    (hsub : ∀ k ∈ r.map Prod.fst, k ∈ l.map Prod.fst) : (mergeAdd s l r).map Prod.fst = l.map Prod.fst := by
  fun_induction mergeAdd s l r with
  | case1 => rfl
  | case2 l ls ih => 
    simp only [List.map_cons, List.cons.injEq, true_and]
    exact ih (List.Pairwise.of_cons hl) hr (by intro k hk; cases hk)
  | case3 r rs ih =>
    have := hsub r.1 (by simp)
    simp at this
  | case4 l ls r rs heq ih =>
    have e : l.1 = r.1 := by simpa using heq
    simp only [List.map_cons, List.cons.injEq, true_and]
    apply ih (List.Pairwise.of_cons hl) (List.Pairwise.of_cons hr)
    intro k hk
    have h1 : keyLt r.1 k = true := (List.pairwise_cons.1 hr).1 k hk
    have h2 := hsub k (by simp [hk])
    simp only [List.map_cons, List.mem_cons] at h2
    rcases h2 with rfl | h2
    · rw [e, keyLt_irrefl] at h1; cases h1
    · exact h2
  | case5 l ls r rs hne hlt ih =>
    simp only [List.map_cons, List.cons.injEq, true_and]
    apply ih (List.Pairwise.of_cons hl) hr
    intro k hk
    have h2 := hsub k hk
    simp only [List.map_cons, List.mem_cons] at h2
    rcases h2 with rfl | h2
    · -- k = l.1 but k ≥ r.1 > l.1
      simp only [List.map_cons, List.mem_cons] at hk
      rcases hk with e | hk
      · rw [e, keyLt_irrefl] at hlt; cases hlt
      · have h1 : keyLt r.1 l.1 = true := (List.pairwise_cons.1 hr).1 _ hk
        rw [keyLt_asymm hlt] at h1; cases h1
    · exact h2
  | case6 l ls r rs hne hnlt ih =>
    -- r.1 < l.1 is impossible: r.1 is a key of l :: ls, all of which are ≥ l.1
    exfalso
    have h2 := hsub r.1 (by simp)
    simp only [List.map_cons, List.mem_cons] at h2
    rcases h2 with e | h2
    · exact hne (by simp [e])
    · have h1 : keyLt l.1 r.1 = true := (List.pairwise_cons.1 hl).1 _ h2
      exact hnlt h1

omit [Scalar α] in
/-- a column-major enumeration of a grid is sorted by the column-major order -/
theorem sorted_grid (n : Nat) (f : Nat → Nat → Option α) :
    SortedKeys ((List.range n).flatMap (fun c => (List.range n).filterMap (fun r =>
      match f r c with | some x => some ((r, c), x) | none => none))) := by
  unfold SortedKeys
  rw [List.pairwise_map, List.pairwise_flatMap]
  constructor
  · intro c _
    rw [List.pairwise_filterMap]
    apply List.Pairwise.imp _ List.pairwise_lt_range
    intro r r' hlt b hb b' hb'
    split at hb <;> simp only [Option.some.injEq, reduceCtorEq] at hb
    split at hb' <;> simp only [Option.some.injEq, reduceCtorEq] at hb'
    subst hb; subst hb'
    simp [keyLt, hlt]
  · apply List.Pairwise.imp _ List.pairwise_lt_range
    intro c c' hlt x hx y hy
    simp only [List.mem_filterMap, List.mem_range] at hx hy
    obtain ⟨r, _, hx⟩ := hx
    obtain ⟨r', _, hy⟩ := hy
    split at hx <;> simp only [Option.some.injEq, reduceCtorEq] at hx
    split at hy <;> simp only [Option.some.injEq, reduceCtorEq] at hy
    subst hx; subst hy
    simp [keyLt, hlt]

theorem generator_sorted (d : GDesc) (k : Nat) : SortedKeys (generator (α := α) d k) := by
  unfold generator
  simp only
  have := sorted_grid (α := α) (dofSize d) (fun r c =>
    let x := getN (memoM ((GDesc.model (α := α) d).ad (.of (fun i => if i.val = k then nat 1 else nat 0)))) r c
    if nonzero x then some x else none)
  convert this using 4
  rename_i c r
  simp only
  split <;> simp_all

/-- **ad_sparse keeps the structure**: on a `Dof × Dof` host whose (column-major sorted) pattern
    contains the pattern of every generator, `ad_sparse` returns a compressed matrix with exactly
    the host's pattern (every stored value is recomputed: the whole matrix is the block). -/
theorem adSparse_frame (d : GDesc) (m : SpMat α) (a : Array α)
    (hdim : m.rows = dofSize d ∧ m.cols = dofSize d) (hs : SortedKeys m.entries)
    (hgen : ∀ k, k < dofSize d → ∀ key ∈ (generator (α := α) d k).map Prod.fst, key ∈ m.pattern) :
    ∃ m', adSparse d m a = some m' ∧ m'.pattern = m.pattern ∧ m'.compressed = true
      ∧ m'.nonZeros = m.nonZeros ∧ m'.rows = m.rows ∧ m'.cols = m.cols := by
  unfold adSparse
  simp only [hdim.1, hdim.2, ne_eq, not_true_eq_false, or_self, ↓reduceIte]
  -- invariant of the fold: the key list is the host's
  have inv : ∀ (ks : List Nat) (es : List (Key × α)), (∀ k ∈ ks, k < dofSize d) →
      es.map Prod.fst = m.entries.map Prod.fst →
      (ks.foldl (fun es k => mergeAdd (a.getD k (nat 0)) es (generator d k)) es).map Prod.fst = m.entries.map Prod.fst := by
    intro ks
    induction ks with
    | nil => intro es _ h; exact h
    | cons k ks ih =>
      intro es hk h
      simp only [List.foldl_cons]
      apply ih _ (fun k' hk' => hk k' (List.mem_cons_of_mem _ hk'))
      rw [mergeAdd_pattern _ _ _ (by unfold SortedKeys; rw [h]; exact hs) (generator_sorted d k)
        (by intro key hkey; rw [h]; exact hgen k (hk k List.mem_cons_self) key hkey)]
      exact h
  have hfin := inv (List.range (dofSize d)) (m.entries.map (fun e => (e.1, (nat 0 : α))))
    (fun k hk => List.mem_range.1 hk) (by simp [List.map_map, Function.comp])
  refine ⟨_, rfl, ?_, rfl, ?_, rfl, rfl⟩
  · simpa [SpMat.pattern] using hfin
  · have := congrArg List.length hfin
    simpa [SpMat.nonZeros] using this

end Sparse
