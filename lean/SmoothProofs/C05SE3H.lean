/-
  C05SE3H.lean — SE3 `d2r_exp` is the derivative of `dr_exp` (closed branch), all 6·6·6 = 216 entries,
  layout `H[R, 6·J + k] = ∂Jac[J,R]/∂a_k`.  Assembly of the SO3 Hessian (C05SO3) and `calculate_Q_dQ`
  (C05SE3) through the block placement `placeSO3`.
-/
import SmoothProofs.C05SE3
import SmoothProofs.C05SO3

open Lin Scalar

namespace C05SE3H
open C04Alg C04SO3 C05dQ

theorem tv_vneg (a : Vec ℝ 6) : SE3.tv (vneg a) = vneg (SE3.tv a) := by
  ext i; fin_cases i <;> rfl

theorem tw_vneg (a : Vec ℝ 6) : SE3.tw (vneg a) = vneg (SE3.tw a) := by
  ext i; fin_cases i <;> rfl

theorem vneg_shift {n : Nat} (a : Vec ℝ n) (k : Fin n) (t : ℝ) :
    vneg (shift a k t) = shift (vneg a) k (-t) := by
  ext i
  simp only [vneg, shift, Vec.of_get]
  split_ifs <;> ring

theorem tw_shift_ge (a : Vec ℝ 6) (k : Fin 6) (t : ℝ) (hk : 3 ≤ k.val) :
    SE3.tw (shift a k t) = shift (SE3.tw a) ⟨k.val - 3, by have := k.isLt; omega⟩ t := by
  fin_cases k <;> simp at hk <;> (ext i; fin_cases i <;> simp [SE3.tw, mk3, shift])

theorem tw_shift_lt (a : Vec ℝ 6) (k : Fin 6) (t : ℝ) (hk : k.val < 3) :
    SE3.tw (shift a k t) = SE3.tw a := by
  fin_cases k <;> simp at hk <;> (ext i; fin_cases i <;> simp [SE3.tw, mk3, shift])

/-- `calculate_q(−v, −w)` is the `Q` returned by `calculate_Q_dQ(−a)` (same polynomial, different
    expression tree) -/
theorem calculate_q_eq (a : Vec ℝ 6) (i j : Fin 3) :
    (SE3.calculate_q (vneg (SE3.tv a)) (vneg (SE3.tw a))) i j = (SE3.calculate_Q_dQ (vneg a)).1 i j := by
  simp only [SE3.calculate_q, SE3.calculate_Q_dQ, SE3.PABC, memoM_eq, Mat.of_get, tv_vneg, tw_vneg,
    Nat.cast_ofNat, Nat.cast_one]
  ring

theorem se3_dr_exp_entry (a : Vec ℝ 6) (J R : Fin 6) :
    (SE3.dr_exp a) J R =
      if hJ : J.val < 3 then
        if hR : R.val < 3 then (SO3.dr_exp (SE3.tw a)) ⟨J.val, hJ⟩ ⟨R.val, hR⟩
        else (SE3.calculate_Q_dQ (vneg a)).1 ⟨J.val, hJ⟩ ⟨R.val - 3, by have := R.isLt; omega⟩
      else
        if hR : R.val < 3 then 0
        else (SO3.dr_exp (SE3.tw a)) ⟨J.val - 3, by have := J.isLt; omega⟩
          ⟨R.val - 3, by have := R.isLt; omega⟩ := by
  simp only [SE3.dr_exp, memoM_eq, SE3.blk22, Mat.of_get, mzero, calculate_q_eq,
    Nat.cast_zero]

theorem se3_d2r_exp_entry (a : Vec ℝ 6) (J R k : Fin 6) :
    (SE3.d2r_exp a) R ⟨6 * J.val + k.val, by have := J.isLt; have := k.isLt; omega⟩ =
      if hR : R.val < 3 then
        if hJ : J.val < 3 then
          if hk : 3 ≤ k.val then
            (SO3.d2r_exp (SE3.tw a)) ⟨R.val, hR⟩ ⟨3 * J.val + (k.val - 3), by have := k.isLt; omega⟩
          else 0
        else 0
      else
        if hJ : J.val < 3 then
          -((SE3.calculate_Q_dQ (vneg a)).2 ⟨R.val - 3, by have := R.isLt; omega⟩
              ⟨6 * J.val + k.val, by have := k.isLt; omega⟩)
        else
          if hk : 3 ≤ k.val then
            (SO3.d2r_exp (SE3.tw a)) ⟨R.val - 3, by have := R.isLt; omega⟩
              ⟨3 * (J.val - 3) + (k.val - 3), by have := J.isLt; have := k.isLt; omega⟩
          else 0 := by
  have hJ6 := J.isLt
  have hk6 := k.isLt
  have hd : (6 * J.val + k.val) / 6 = J.val := by omega
  have hm : (6 * J.val + k.val) % 6 = k.val := by omega
  simp only [SE3.d2r_exp, memoM_eq, SE3.placeSO3, Mat.of_get, mneg, hd, hm,
    Nat.cast_zero]

theorem d2rExp_hasDerivAt (a : Vec ℝ 6) (h : Scalar.eps2 < sqNorm (SE3.tw a)) (J R k : Fin 6) :
    HasDerivAt (fun t => (SE3.dr_exp (shift a k t)) J R)
      ((SE3.d2r_exp a) R ⟨6 * J.val + k.val, by have := J.isLt; have := k.isLt; omega⟩) 0 := by
  rw [se3_d2r_exp_entry]
  simp only [se3_dr_exp_entry]
  have hso3 : ∀ (j r : Fin 3),
      HasDerivAt (fun t => (SO3.dr_exp (SE3.tw (shift a k t))) j r)
        (if hk : 3 ≤ k.val then (SO3.d2r_exp (SE3.tw a)) r
          ⟨3 * j.val + (k.val - 3), by have := j.isLt; have := k.isLt; omega⟩ else 0) 0 := by
    intro j r
    by_cases hk : 3 ≤ k.val
    · simp only [dif_pos hk, tw_shift_ge a k _ hk]
      exact C05SO3.d2rExp_hasDerivAt (SE3.tw a) h j r ⟨k.val - 3, by have := k.isLt; omega⟩
    · simp only [dif_neg hk, tw_shift_lt a k _ (not_le.1 hk)]
      exact hasDerivAt_const _ _
  by_cases hJ : J.val < 3 <;> by_cases hR : R.val < 3
  · simp only [dif_pos hJ, dif_pos hR]
    exact hso3 ⟨J.val, hJ⟩ ⟨R.val, hR⟩
  · simp only [dif_pos hJ, dif_neg hR]
    have h' : Scalar.eps2 < sqNorm (SE3.tw (vneg a)) := by rw [tw_vneg, sqNorm3_neg]; exact h
    have hg := C05SE3.Q_dQ_hasDerivAt (vneg a) h' ⟨J.val, hJ⟩ ⟨R.val - 3, by have := R.isLt; omega⟩ k
    have hc := hg.comp_of_eq (0:ℝ) (hasDerivAt_neg (0:ℝ)) (by simp)
    refine (hc.congr_deriv (by ring)).congr_of_eventuallyEq
      (Filter.Eventually.of_forall fun t => ?_)
    simp only [Function.comp, vneg_shift]
  · simp only [dif_neg hJ, dif_pos hR]
    exact hasDerivAt_const _ _
  · simp only [dif_neg hJ, dif_neg hR]
    exact hso3 ⟨J.val - 3, by have := J.isLt; omega⟩ ⟨R.val - 3, by have := R.isLt; omega⟩

end C05SE3H
