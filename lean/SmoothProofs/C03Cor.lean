/-
  C03Cor.lean — further generic consequences of `AdjointRep` (kept apart from C03Adjoint.lean so that
  the per-group files do not depend on them): linearity of `vee` on the algebra, transport of the
  corollaries to `GDesc.model d`.
-/
import SmoothProofs.C03Desc

open Lin Scalar

namespace C03

namespace AdjointRep
variable {G : LieModel ℝ} {U : Vec ℝ G.rep → Prop} {InAlg : Mat ℝ G.dim G.dim → Prop}

/-- `vee` is additive on the algebra (it is the inverse of the linear bijection `hat`) -/
theorem vee_add (h : AdjointRep G U InAlg) (A B : Mat ℝ G.dim G.dim) (hA : InAlg A) (hB : InAlg B) :
    G.vee (madd A B) = vadd (G.vee A) (G.vee B) := by
  have e : madd A B = G.hat (vadd (G.vee A) (G.vee B)) := by
    rw [h.hat_add, h.hat_vee A hA, h.hat_vee B hB]
  rw [e, h.vee_hat]

/-- `vee` is homogeneous on the algebra -/
theorem vee_smul (h : AdjointRep G U InAlg) (s : ℝ) (A : Mat ℝ G.dim G.dim) (hA : InAlg A) :
    G.vee (msmul s A) = vsmul s (G.vee A) := by
  have e : msmul s A = G.hat (vsmul s (G.vee A)) := by
    rw [h.hat_smul, h.hat_vee A hA]
  rw [e, h.vee_hat]

/-- the bracket is bilinear: right additivity -/
theorem bracket_add_right (h : AdjointRep G U InAlg) (a b b' : Vec ℝ G.dof) :
    G.bracket a (vadd b b') = vadd (G.bracket a b) (G.bracket a b') := by
  apply h.hat_injective
  rw [h.hat_add]
  simp only [h.hat_bracket, h.hat_add]
  apply toM_inj
  simp only [toM_madd, toM_msub, toM_mmul]
  noncomm_ring

/-- homogeneity of the bracket in the first argument -/
theorem bracket_smul_left (h : AdjointRep G U InAlg) (s : ℝ) (a b : Vec ℝ G.dof) :
    G.bracket (vsmul s a) b = vsmul s (G.bracket a b) := by
  apply h.hat_injective
  rw [h.hat_smul]
  simp only [h.hat_bracket, h.hat_smul]
  apply toM_inj
  simp only [toM_msmul, toM_msub, toM_mmul]
  rw [Matrix.smul_mul, Matrix.mul_smul, smul_sub]

end AdjointRep

/-- the Jacobi identity for the model of every group descriptor (nested bundles included) -/
theorem desc_jacobi (d : GDesc) (a b c : Vec ℝ (GDesc.model d : LieModel ℝ).dof) :
    vadd (vadd ((GDesc.model d : LieModel ℝ).bracket a ((GDesc.model d : LieModel ℝ).bracket b c))
        ((GDesc.model d : LieModel ℝ).bracket b ((GDesc.model d : LieModel ℝ).bracket c a)))
      ((GDesc.model d : LieModel ℝ).bracket c ((GDesc.model d : LieModel ℝ).bracket a b))
      = vzero _ := by
  have key : ∀ (G' : LieModel ℝ), (descPart d).G = G' → ∀ a b c : Vec ℝ G'.dof,
      vadd (vadd (G'.bracket a (G'.bracket b c)) (G'.bracket b (G'.bracket c a)))
        (G'.bracket c (G'.bracket a b)) = vzero _ := by
    intro G' e; subst e; exact (descPart_ok d).jacobi
  exact key _ (descPart_G d) a b c

/-- antisymmetry of the bracket for the model of every group descriptor -/
theorem desc_bracket_antisymm (d : GDesc) (a b : Vec ℝ (GDesc.model d : LieModel ℝ).dof) :
    (GDesc.model d : LieModel ℝ).bracket a b = vneg ((GDesc.model d : LieModel ℝ).bracket b a) := by
  have key : ∀ (G' : LieModel ℝ), (descPart d).G = G' → ∀ a b : Vec ℝ G'.dof,
      G'.bracket a b = vneg (G'.bracket b a) := by
    intro G' e; subst e; exact (descPart_ok d).bracket_antisymm
  exact key _ (descPart_G d) a b

/-- `hat (lie_bracket a b) = [hat a, hat b]` for the model of every group descriptor -/
theorem desc_hat_bracket (d : GDesc) (a b : Vec ℝ (GDesc.model d : LieModel ℝ).dof) :
    (GDesc.model d : LieModel ℝ).hat ((GDesc.model d : LieModel ℝ).bracket a b)
      = msub (mmul ((GDesc.model d : LieModel ℝ).hat a) ((GDesc.model d : LieModel ℝ).hat b))
          (mmul ((GDesc.model d : LieModel ℝ).hat b) ((GDesc.model d : LieModel ℝ).hat a)) := by
  have key : ∀ (G' : LieModel ℝ), (descPart d).G = G' → ∀ a b : Vec ℝ G'.dof,
      G'.hat (G'.bracket a b) = msub (mmul (G'.hat a) (G'.hat b)) (mmul (G'.hat b) (G'.hat a)) := by
    intro G' e; subst e; exact (descPart_ok d).hat_bracket
  exact key _ (descPart_G d) a b

/-- `vee (hat a) = a` for the model of every group descriptor -/
theorem desc_vee_hat (d : GDesc) (a : Vec ℝ (GDesc.model d : LieModel ℝ).dof) :
    (GDesc.model d : LieModel ℝ).vee ((GDesc.model d : LieModel ℝ).hat a) = a := by
  have key : ∀ (G' : LieModel ℝ), (descPart d).G = G' → ∀ a : Vec ℝ G'.dof, G'.vee (G'.hat a) = a := by
    intro G' e; subst e; exact (descPart_ok d).vee_hat
  exact key _ (descPart_G d) a

end C03
