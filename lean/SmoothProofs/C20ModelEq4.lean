/-
  C20ModelEq4.lean — the literal tables of C20Exact.lean ARE the model's tables at `Rat`
  (kernel evaluation of the model, once per table).
-/
import SmoothProofs.C20Tables
import SmoothProofs.C20Exact

namespace C20T
open Poly
set_option maxRecDepth 100000

theorem monint_eq_exact : ∀ K, K ≤ 10 → ∀ P, P ≤ 4 → monomialIntegral (α := Q) K P = Exact.monint K P := by
  decide +kernel

/-- cumulative tables of the literal basis tables -/
theorem cum_exact : ∀ b : Basis, ∀ K, K ≤ 10 → cumulative (Exact.basis b K) = Exact.cumBasis b K := by
  intro b; cases b <;> decide +kernel

end C20T
