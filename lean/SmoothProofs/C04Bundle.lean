/-
  C04Bundle.lean — lifting of pointwise facts about the part models to `Bundle.prod A B` and, by
  induction over the list, to `Bundle.bundle ps` (every Bundle composition: order, repetition and
  nesting — a nested Bundle is a list entry `Bundle.bundle qs`).
  * `InvAt`:  `dr_exp a · dr_expinv a = I` and `dr_expinv a · dr_exp a = I`
  * `DlAt`:   `dl_exp a = Ad (exp a) · dr_exp a`
-/
import SmoothProofs.C01Block
import SmoothProofs.C06Prod

open Lin Scalar

namespace C04Bundle

/-- a pointwise property of a group model at a tangent vector -/
abbrev PointProp := (G : LieModel ℝ) → Vec ℝ G.dof → Prop

/-- the property holds for every part of the bundle at the corresponding segment of `a` -/
def AllParts (P : PointProp) : (ps : List (LieModel ℝ)) → Vec ℝ (Bundle.bundle ps).dof → Prop
  | [], _ => True
  | p :: ps, a => P p (Bundle.fst (n := p.dof) (m := (Bundle.bundle ps).dof) a) ∧
      AllParts P ps (Bundle.snd (n := p.dof) (m := (Bundle.bundle ps).dof) a)

/-- induction principle: a property that holds for the empty bundle and is inherited by binary
    products holds for `Bundle.bundle ps` as soon as it holds for all parts -/
theorem bundle_lift (P : PointProp) (hunit : ∀ a, P Bundle.unit a)
    (hprod : ∀ (A B : LieModel ℝ) (a : Vec ℝ (A.dof + B.dof)),
      P A (Bundle.fst a) → P B (Bundle.snd a) → P (Bundle.prod A B) a) :
    ∀ (ps : List (LieModel ℝ)) (a : Vec ℝ (Bundle.bundle ps).dof), AllParts P ps a →
      P (Bundle.bundle ps) a
  | [], a, _ => hunit a
  | p :: ps, a, h => hprod p (Bundle.bundle ps) a h.1 (bundle_lift P hunit hprod ps _ h.2)

/-! ### inverse relation -/

def InvAt : PointProp := fun G a =>
  mmul (G.dr_exp a) (G.dr_expinv a) = ident G.dof ∧ mmul (G.dr_expinv a) (G.dr_exp a) = ident G.dof

theorem bdiag_mmul {n m : Nat} (A A' : Mat ℝ n n) (B B' : Mat ℝ m m) :
    mmul (Bundle.bdiag A B) (Bundle.bdiag A' B') = Bundle.bdiag (mmul A A') (mmul B B') := by
  rw [bdiag_eq_blockUT, bdiag_eq_blockUT, bdiag_eq_blockUT, blockUT_mmul]
  refine blockUT_congr rfl ?_ rfl
  apply toM_inj
  simp only [toM_madd, toM_mmul, toM_mzero, Matrix.mul_zero, Matrix.zero_mul, add_zero]

theorem bdiag_ident (n m : Nat) :
    Bundle.bdiag (ident n : Mat ℝ n n) (ident m : Mat ℝ m m) = ident (n + m) := by
  rw [bdiag_eq_blockUT, blockUT_ident]

theorem invAt_unit (a : Vec ℝ (Bundle.unit : LieModel ℝ).dof) : InvAt Bundle.unit a := by
  constructor <;> (ext i j; exact i.elim0)

theorem invAt_prod (A B : LieModel ℝ) (a : Vec ℝ (A.dof + B.dof))
    (hA : InvAt A (Bundle.fst a)) (hB : InvAt B (Bundle.snd a)) : InvAt (Bundle.prod A B) a := by
  constructor
  · show mmul (Bundle.bdiag _ _) (Bundle.bdiag _ _) = ident (A.dof + B.dof)
    rw [bdiag_mmul, hA.1, hB.1, bdiag_ident]
  · show mmul (Bundle.bdiag _ _) (Bundle.bdiag _ _) = ident (A.dof + B.dof)
    rw [bdiag_mmul, hA.2, hB.2, bdiag_ident]

theorem invAt_bundle (ps : List (LieModel ℝ)) (a : Vec ℝ (Bundle.bundle ps).dof)
    (h : AllParts InvAt ps a) : InvAt (Bundle.bundle ps) a :=
  bundle_lift InvAt invAt_unit invAt_prod ps a h

/-! ### `dl_exp = Ad(exp)·dr_exp` -/

def DlAt : PointProp := fun G a => G.dl_exp a = mmul (G.Ad (G.exp a)) (G.dr_exp a)

theorem fst_vneg {n m : Nat} (a : Vec ℝ (n + m)) : Bundle.fst (vneg a) = vneg (Bundle.fst a) := by
  ext i; rfl

theorem snd_vneg {n m : Nat} (a : Vec ℝ (n + m)) : Bundle.snd (vneg a) = vneg (Bundle.snd a) := by
  ext i; rfl

theorem dlAt_unit (a : Vec ℝ (Bundle.unit : LieModel ℝ).dof) : DlAt Bundle.unit a := by
  ext i j; exact i.elim0

theorem dlAt_prod (A B : LieModel ℝ) (a : Vec ℝ (A.dof + B.dof))
    (hA : DlAt A (Bundle.fst a)) (hB : DlAt B (Bundle.snd a)) : DlAt (Bundle.prod A B) a := by
  show Bundle.bdiag (A.dr_exp (Bundle.fst (vneg a))) (B.dr_exp (Bundle.snd (vneg a)))
    = mmul (Bundle.bdiag (A.Ad (Bundle.fst (vcat (A.exp (Bundle.fst a)) (B.exp (Bundle.snd a)))))
        (B.Ad (Bundle.snd (vcat (A.exp (Bundle.fst a)) (B.exp (Bundle.snd a))))))
      (Bundle.bdiag (A.dr_exp (Bundle.fst a)) (B.dr_exp (Bundle.snd a)))
  rw [C06.fst_vcat, C06.snd_vcat, bdiag_mmul, fst_vneg, snd_vneg]
  have hA' : A.dr_exp (vneg (Bundle.fst a)) = mmul (A.Ad (A.exp (Bundle.fst a))) (A.dr_exp (Bundle.fst a)) := hA
  have hB' : B.dr_exp (vneg (Bundle.snd a)) = mmul (B.Ad (B.exp (Bundle.snd a))) (B.dr_exp (Bundle.snd a)) := hB
  rw [hA', hB']

theorem dlAt_bundle (ps : List (LieModel ℝ)) (a : Vec ℝ (Bundle.bundle ps).dof)
    (h : AllParts DlAt ps a) : DlAt (Bundle.bundle ps) a :=
  bundle_lift DlAt dlAt_unit dlAt_prod ps a h

/-! ### commutative parts (API short-cuts `dr_exp = dr_expinv = Ad = I`) -/

theorem mmul_ident_ident (n : Nat) : mmul (ident n : Mat ℝ n n) (ident n) = ident n := mmul_ident _

theorem invAt_of_ident (G : LieModel ℝ) (a : Vec ℝ G.dof) (h1 : G.dr_exp a = ident G.dof)
    (h2 : G.dr_expinv a = ident G.dof) : InvAt G a := by
  constructor <;> rw [h1, h2, mmul_ident_ident]

theorem dlAt_of_ident (G : LieModel ℝ) (a : Vec ℝ G.dof) (h1 : ∀ b, G.dr_exp b = ident G.dof)
    (h2 : ∀ g, G.Ad g = ident G.dof) : DlAt G a := by
  show G.dr_exp (vneg a) = mmul (G.Ad (G.exp a)) (G.dr_exp a)
  rw [h1, h1, h2, mmul_ident_ident]

end C04Bundle
