/-
  C12Arc.lean — `arclength(t)` is the sum over the segments of ∫ |component-wise body velocity| with the
  `min(t, t_end)` cut, for vector-valued tangents (W = ι → ℝ), given that the per-segment integrator
  returns `∫_{ua}^{ub} |c_V'(u)| du` (C20.integrate_absolute_polynomial_spec for the code's integrator).
-/
import SmoothProofs.C12More
import SmoothProofs.C20IntAbs
import Mathlib.MeasureTheory.Integral.IntervalIntegral.Basic

set_option linter.unusedSectionVars false

open SplineSM SplineSM.TimeOps

namespace C12
attribute [local instance] fieldTime

variable {G : Type} [Group G] {ι : Type}

/-- the body velocity the spline reports on a segment (component k) at time s:
    `(Del/T) · c_V'(T0 + Del (s − t_start)/T)` -/
noncomputable def segSpeed (σ : List (ι → ℝ) → ℝ → ι → ℝ) (tp : ℝ) (sg : Seg ℝ G (ι → ℝ)) (s : ℝ) (k : ι) : ℝ :=
  sg.Del / (sg.tEnd - tp) * σ sg.V (sg.T0 + sg.Del * (s - tp) / (sg.tEnd - tp)) k

/-- Σ over the segments that start before t of ∫_{t_start}^{min(t, t_end)} |body velocity| -/
noncomputable def arcSpec (σ : List (ι → ℝ) → ℝ → ι → ℝ) (t : ℝ) : Bool → ℝ → List (Seg ℝ G (ι → ℝ)) → ι → ℝ
  | _, _, [] => 0
  | first, tp, sg :: rest =>
    if !first && decide (t ≤ tp) then 0
    else (fun k => ∫ s in tp..(min t sg.tEnd), |segSpeed σ tp sg s k|) + arcSpec σ t false sg.tEnd rest

/-- affine change of variables on one segment -/
theorem seg_integral (σ : List (ι → ℝ) → ℝ → ι → ℝ) (tp m : ℝ) (sg : Seg ℝ G (ι → ℝ)) (k : ι)
    (hT : tp < sg.tEnd) (hD : 0 < sg.Del) :
    ∫ s in tp..m, |segSpeed σ tp sg s k| =
      ∫ u in sg.T0..(sg.T0 + sg.Del * (m - tp) / (sg.tEnd - tp)), |σ sg.V u k| := by
  have hTp : 0 < sg.tEnd - tp := sub_pos.2 hT
  set c : ℝ := sg.Del / (sg.tEnd - tp) with hc
  have hcpos : 0 < c := div_pos hD hTp
  have hfun : ∀ s : ℝ, |segSpeed σ tp sg s k| = c * |σ sg.V (c * s + (sg.T0 - c * tp)) k| := by
    intro s
    unfold segSpeed
    rw [abs_mul, abs_of_pos hcpos]
    congr 3
    rw [hc]; field_simp; ring
  simp only [hfun]
  rw [intervalIntegral.integral_const_mul,
    intervalIntegral.integral_comp_mul_add (fun u => |σ sg.V u k|) (ne_of_gt hcpos) (sg.T0 - c * tp)]
  rw [smul_eq_mul, ← mul_assoc, mul_inv_cancel₀ (ne_of_gt hcpos), one_mul]
  congr 1
  · ring
  · rw [hc]; field_simp; ring

/-- the loop of `arclength` computes `acc + arcSpec` -/
theorem arcFrom_eq (C : Ker ℝ G (ι → ℝ)) (σ : List (ι → ℝ) → ℝ → ι → ℝ)
    (hadd : ∀ a b, C.wadd a b = a + b)
    (habs : ∀ V (a b : ℝ) k, a ≤ b → C.absint V a b k = ∫ u in a..b, |σ V u k|) (t : ℝ) :
    ∀ (l : List (Seg ℝ G (ι → ℝ))) (g : G) (tp : ℝ) (first : Bool) (acc : ι → ℝ), InvFrom C g tp l →
      (first = true → tp ≤ t) → arcFrom C t first tp l acc = acc + arcSpec σ t first tp l := by
  intro l
  induction l with
  | nil => intro g tp first acc _ _; simp [arcFrom, arcSpec]
  | cons sg rest ih =>
    intro g tp first acc hI hft
    obtain ⟨hT, ⟨h0, hD, h1, _⟩, hrest⟩ := hI
    by_cases hskip : (!first && decide (t ≤ tp)) = true
    · simp [arcFrom, arcSpec, hskip]
    · have htp : tp ≤ t := by
        cases first with
        | true => exact hft rfl
        | false => simp at hskip; exact le_of_lt hskip
      have hmin : tmin t sg.tEnd = min t sg.tEnd := by
        unfold tmin
        by_cases h : sg.tEnd < t
        · rw [if_pos h, min_eq_right (le_of_lt h)]
        · rw [if_neg h, min_eq_left (not_lt.1 h)]
      have hm : tp ≤ min t sg.tEnd := le_min htp (le_of_lt hT)
      have hub : sg.T0 ≤ sg.T0 + sg.Del * (min t sg.tEnd - tp) / (sg.tEnd - tp) := by
        have : 0 ≤ sg.Del * (min t sg.tEnd - tp) / (sg.tEnd - tp) :=
          div_nonneg (mul_nonneg (le_of_lt hD) (sub_nonneg.2 hm)) (le_of_lt (sub_pos.2 hT))
        linarith
      have hstep : C.absint sg.V sg.T0 (sg.T0 + sg.Del * (min t sg.tEnd - tp) / (sg.tEnd - tp)) =
          fun k => ∫ s in tp..(min t sg.tEnd), |segSpeed σ tp sg s k| := by
        funext k
        rw [habs _ _ _ k hub, seg_integral σ tp (min t sg.tEnd) sg k hT hD]
      have hnext := ih sg.gEnd sg.tEnd false (C.wadd acc (C.absint sg.V sg.T0 (sg.T0 + sg.Del * (tmin t sg.tEnd - tp) / (sg.tEnd - tp))))
        hrest (by intro h; cases h)
      simp only [arcFrom, arcSpec, hskip]
      simp only [Bool.false_eq_true, if_false] at hnext ⊢
      rw [hnext, hmin, hadd, hstep, add_assoc]

/-- hypothesis `habs` for the code's integrator: `absint` is `integrate_absolute_polynomial` of a quadratic
    `c_V'` whose coefficients lie outside the threshold bands (C20) -/
theorem absint_of_C20 (C : Ker ℝ G (ι → ℝ)) (σ : List (ι → ℝ) → ℝ → ι → ℝ) (thr : ℝ) (hthr : 0 < thr)
    (qA qB qC : List (ι → ℝ) → ι → ℝ)
    (hint : ∀ V (a b : ℝ) k, C.absint V a b k = Poly.integrateAbs thr a b (qA V k) (qB V k) (qC V k))
    (hσ : ∀ V u k, σ V u k = qA V k * u ^ 2 + qB V k * u + qC V k)
    (hband : ∀ V k, thr ≤ |qA V k| ∨ (qA V k = 0 ∧ (thr < |qB V k| ∨ qB V k = 0))) :
    ∀ V (a b : ℝ) k, a ≤ b → C.absint V a b k = ∫ u in a..b, |σ V u k| := by
  intro V a b k hab
  rw [hint, C20I.integrate_absolute_polynomial_spec thr a b _ _ _ hthr hab (hband V k)]
  simp only [hσ]

end C12

namespace C12
attribute [local instance] fieldTime

/-- a concrete kernel over G = (ℝ,+), W = Fin 1 → ℝ with constant speed `|ΣV|` per unit of u
    (non-vacuity of `arcFrom_eq`): `absint V a b = (b − a)·|ΣV|` -/
noncomputable def kerArc : Ker ℝ (Multiplicative ℝ) (Fin 1 → ℝ) where
  K := 1
  one := 1
  mul := fun a b => a * b
  inv := fun a => a⁻¹
  exp := fun w => Multiplicative.ofAdd (w 0)
  log := fun g => fun _ => Multiplicative.toAdd g
  wzero := 0
  wneg := fun v => -v
  wadd := fun a b => a + b
  wsmul := fun s v => s • v
  wdivs := fun v s => s⁻¹ • v
  cev := fun V u => (Multiplicative.ofAdd (u * (V.map (· 0)).sum), fun _ => (V.map (· 0)).sum, 0)
  absint := fun V a b => fun _ => (b - a) * |(V.map (· 0)).sum|

theorem kerArc_abs (V : List (Fin 1 → ℝ)) (a b : ℝ) (k : Fin 1) (_h : a ≤ b) :
    kerArc.absint V a b k = ∫ u in a..b, |(fun (V : List (Fin 1 → ℝ)) (_ : ℝ) (_ : Fin 1) => (V.map (· 0)).sum) V u k| := by
  simp [kerArc, intervalIntegral.integral_const]

end C12
