/-
  C11InstJacModel.lean — the Jacobians of `cspline_eval_dg_dvs` are the derivatives of
  `cspline_eval_vs` with respect to the differences, for every group model with a `LieCalculusJ`.

  `LieCalculusJ G` = `LieCalculus G` + the two facts of C04 the Jacobian loop relies on
  (`dexp`: `dr_exp` is the right Jacobian of `exp`; `dl`: `dr_exp(−a) = Ad(exp a)·dr_exp(a)`).

  `relJ_eval` : at `ε = 0` the three block Jacobians of the model, applied to a family of
  directions `ws`, are (through `hat`) the `X, Y, Z` of the abstract Jacobian loop `jcurveAt`.
  `jcurve_eq_spline` : for every `ε` the `(g, vel, acc)` of that loop are those of the evaluation
  loop on the perturbed differences `v_i + ε·w_i`.
  `eval_dvs_hasDerivAt` : hence the derivative statements (total differential).
-/
import SmoothProofs.C11InstModel
import SmoothProofs.C11InstJacSmooth
import SmoothProofs.C11JacBridge
import Mathlib.Algebra.BigOperators.Fin

open Lin Scalar
open scoped Topology

namespace C11

attribute [local instance] Matrix.linftyOpNormedRing Matrix.linftyOpNormedAlgebra

/-- `LieCalculus` plus the first-order facts about `dr_exp` (C04) on a domain `DomJ` -/
structure LieCalculusJ (G : LieModel ℝ) extends LieCalculus G where
  DomJ : Vec ℝ G.dof → Prop
  /-- C04: `dr_exp` is the right Jacobian of `exp` -/
  dexp : ∀ a w, DomJ a → HasDerivAt (fun ε : ℝ => NormedSpace.exp (toM (G.hat a) + ε • toM (G.hat w)))
      (NormedSpace.exp (toM (G.hat a)) * toM (G.hat (mulVec (G.dr_exp a) w))) 0
  /-- C04: `dr_exp(−a) = Ad(exp a)·dr_exp(a)` (`dl_exp = Ad·dr_exp`) -/
  dl : ∀ a, DomJ a → G.dr_exp (vneg a) = mmul (G.Ad (G.exp a)) (G.dr_exp a)

/-! ### linear algebra of block Jacobians applied to directions -/

theorem applyL_finRange {n : Nat} : ∀ (K : Nat) (Ds : List (Mat ℝ n n)) (f : Fin K → (Fin n → ℝ)),
    Ds.length = K →
    applyL Ds ((List.finRange K).map f) = ∑ i : Fin K, mv (Ds.getD i.val (mzero n n)) (f i)
  | 0, Ds, f, h => by
    have : Ds = [] := List.eq_nil_of_length_eq_zero h
    subst this
    simp [applyL]
  | K + 1, [], f, h => by simp at h
  | K + 1, D :: Ds, f, h => by
    rw [List.finRange_succ, List.map_cons, List.map_map]
    simp only [applyL]
    rw [applyL_finRange K Ds (f ∘ Fin.succ) (by simpa using h), Fin.sum_univ_succ]
    simp

/-- one block picked out by a one-hot family of directions -/
theorem applyL_onehot {n : Nat} (K : Nat) (Ds : List (Mat ℝ n n)) (h : Ds.length = K) (j : Fin K)
    (w : Fin n → ℝ) :
    applyL Ds ((List.finRange K).map (fun i => if i = j then w else 0)) = mv (Ds.getD j.val (mzero n n)) w := by
  rw [applyL_finRange K Ds _ h]
  rw [Finset.sum_eq_single j]
  · rw [if_pos rfl]
  · intro i _ hij
    rw [if_neg hij, mv_zero]
  · intro hj; exact absurd (Finset.mem_univ j) hj

theorem jstep_lengths {G : LieModel ℝ} (b0 b1 b2 : ℝ) (v : Vec ℝ G.dof) (s : CSpline.JSt ℝ G) (m : Nat)
    (h1 : s.dg.length = m) (h2 : s.dvel.length = m) (h3 : s.dacc.length = m) :
    (CSpline.jstep G b0 b1 b2 v s).dg.length = m + 1 ∧ (CSpline.jstep G b0 b1 b2 v s).dvel.length = m + 1 ∧
    (CSpline.jstep G b0 b1 b2 v s).dacc.length = m + 1 := by
  simp only [CSpline.jstep, List.length_append, List.length_map, List.length_zipWith, List.length_cons,
    List.length_nil, h1, h2, h3, Nat.min_self]
  trivial

namespace LieCalculusJ
variable {G : LieModel ℝ} (L : LieCalculusJ G)

/-- `ρ` on plain functions -/
theorem ρ_apply (x : Fin G.dof → ℝ) : L.ρ x = toM (G.hat (Vec.of x)) := rfl

theorem ρ_ad' (a : Vec ℝ G.dof) (y : Fin G.dof → ℝ) :
    L.ρ (mv (G.ad a) y) = L.ρ a.get * L.ρ y - L.ρ y * L.ρ a.get := by
  have h := L.toLieCalculus.ρ_ad a (Vec.of y)
  rw [mv_get_mulVec] at h
  exact h

/-- `hat (Ad (exp a) x) = exp(hat a)·hat x·exp(−hat a)` on `Dom` -/
theorem ρ_Ad_exp (a : Vec ℝ G.dof) (hd : L.Dom a) (x : Fin G.dof → ℝ) :
    L.ρ (mv (G.Ad (G.exp a)) x)
      = NormedSpace.exp (toM (G.hat a)) * L.ρ x * NormedSpace.exp (-(toM (G.hat a))) := by
  have hU := L.exp_valid a hd
  have hAd := congrArg toM (L.Ad_def _ (Vec.of x) hU)
  rw [toM_mmul, toM_mmul, L.exp_matrix a hd] at hAd
  have e : L.ρ (mv (G.Ad (G.exp a)) x) = toM (G.hat (mulVec (G.Ad (G.exp a)) (Vec.of x))) := by
    rw [← L.toLieCalculus.ρ_get, mv_get_mulVec]
    rfl
  rw [e, ρ_apply]
  calc toM (G.hat (mulVec (G.Ad (G.exp a)) (Vec.of x)))
      = toM (G.hat (mulVec (G.Ad (G.exp a)) (Vec.of x)))
          * (NormedSpace.exp (toM (G.hat a)) * NormedSpace.exp (-(toM (G.hat a)))) := by
        rw [mx_exp_mul_exp_neg, mul_one]
    _ = NormedSpace.exp (toM (G.hat a)) * toM (G.hat (Vec.of x)) * NormedSpace.exp (-(toM (G.hat a))) := by
        rw [← mul_assoc, ← hAd]

end LieCalculusJ

/-! ### one factor -/

/-- what the Jacobian loop needs from factor `exp(b·v)` varied in direction `w` -/
structure FactorOK {G : LieModel ℝ} (L : LieCalculusJ G) (b : ℝ) (v w : Vec ℝ G.dof) : Prop where
  dom : L.Dom (vsmul b v)
  dom_neg : L.Dom (vsmul (-b) v)
  dir : w = vzero _ ∨ L.DomJ (vsmul b v)

theorem vneg_vsmul {n : Nat} (b : ℝ) (v : Vec ℝ n) : vneg (vsmul b v) = vsmul (-b) v := by
  ext i; simp [vneg, vsmul]

section factor
variable {G : LieModel ℝ} (L : LieCalculusJ G) (b b1 b2 : ℝ) (v w : Vec ℝ G.dof)

/-- the `VData` of one factor -/
noncomputable def vd : VData G.dim := ⟨toM (G.hat v), toM (G.hat w), b, b1, b2⟩

theorem vd_Eat_zero : (vd b b1 b2 v w).Eat 0 = NormedSpace.exp (b • toM (G.hat v)) := by
  simp [vd, VData.Eat, VData.Vat]

theorem vd_Eiat_zero : (vd b b1 b2 v w).Eiat 0 = NormedSpace.exp (-(b • toM (G.hat v))) := by
  simp [vd, VData.Eiat, VData.Vat]

theorem vd_Vat_zero : (vd b b1 b2 v w).Vat 0 = toM (G.hat v) := by
  simp [vd, VData.Vat]

/-- `R(0) = hat (b·dr_exp(b v)·w)` -/
theorem vd_Rat_zero (h : FactorOK L b v w) :
    (vd b b1 b2 v w).Rat 0 = L.ρ (mv (msmul b (G.dr_exp (vsmul b v))) w.get) := by
  rcases h.dir with hw | hJ
  · -- no variation: `E` is constant
    subst hw
    have hz : toM (G.hat (vzero G.dof : Vec ℝ G.dof)) = 0 := by
      have := L.ρ_get (vzero G.dof)
      rw [← this]
      have e : (vzero G.dof : Vec ℝ G.dof).get = 0 := by funext i; simp [vzero]
      rw [e, map_zero]
    have hc : (vd b b1 b2 v (vzero G.dof)).Eat = fun _ => NormedSpace.exp (b • toM (G.hat v)) := by
      funext ε; simp [vd, VData.Eat, VData.Vat, hz]
    have e0 : (vzero G.dof : Vec ℝ G.dof).get = 0 := by funext i; simp [vzero]
    unfold VData.Rat
    rw [hc, e0, mv_zero, map_zero]
    have : deriv (fun _ : ℝ => NormedSpace.exp (b • toM (G.hat v))) 0 = 0 := deriv_const _ _
    rw [this, mul_zero]
  · have hd := L.dexp (vsmul b v) (vsmul b w) hJ
    rw [L.toM_hat_smul, L.toM_hat_smul] at hd
    have hf : (vd b b1 b2 v w).Eat = fun ε : ℝ => NormedSpace.exp (b • toM (G.hat v) + ε • (b • toM (G.hat w))) := by
      funext ε
      simp only [vd, VData.Eat, VData.Vat]
      rw [smul_add, smul_comm]
    have hder : deriv (vd b b1 b2 v w).Eat 0
        = NormedSpace.exp (b • toM (G.hat v)) * toM (G.hat (mulVec (G.dr_exp (vsmul b v)) (vsmul b w))) := by
      rw [hf]; exact hd.deriv
    unfold VData.Rat
    rw [hder, vd_Eiat_zero, ← mul_assoc, mx_exp_neg_mul_exp, one_mul, ← L.ρ_get]
    congr 1
    rw [mv_get_mulVec, mv_msmul]
    have : (vsmul b w).get = b • w.get := by funext i; simp [vsmul]
    rw [this, mv_smul]

/-- `Rm(0) = hat (b·dr_exp(−b v)·w)` -/
theorem vd_Rmat_zero (h : FactorOK L b v w) :
    (vd b b1 b2 v w).Rmat 0 = L.ρ (mv (msmul b (G.dr_exp (vsmul (-b) v))) w.get) := by
  unfold VData.Rmat
  rw [vd_Rat_zero L b b1 b2 v w h, vd_Eat_zero, vd_Eiat_zero]
  rcases h.dir with hw | hJ
  · subst hw
    have e0 : (vzero G.dof : Vec ℝ G.dof).get = 0 := by funext i; simp [vzero]
    rw [e0, mv_zero, mv_zero, map_zero, mul_zero, zero_mul]
  · have hAd := L.ρ_Ad_exp (vsmul b v) h.dom (mv (msmul b (G.dr_exp (vsmul b v))) w.get)
    rw [L.toM_hat_smul] at hAd
    rw [← hAd, ← vneg_vsmul, L.dl _ hJ]
    congr 1
    rw [mv_msmul, mv_msmul, mv_mmul, mv_smul]

/-- `hat (Ad (exp (−b v)) x) = exp(−b·hat v)·hat x·exp(b·hat v)` -/
theorem vd_hAd (h : FactorOK L b v w) (x : Fin G.dof → ℝ) :
    L.ρ (mv (G.Ad (G.exp (vsmul (-b) v))) x)
      = NormedSpace.exp (-(b • toM (G.hat v))) * L.ρ x * NormedSpace.exp (b • toM (G.hat v)) := by
  have := L.ρ_Ad_exp (vsmul (-b) v) h.dom_neg x
  rw [L.toM_hat_smul, neg_smul, neg_neg] at this
  exact this

end factor

/-! ### the Jacobian loop of the model at `ε = 0` -/

/-- model Jacobian state applied to directions `ws` = abstract state, through `hat` -/
structure RelJ {G : LieModel ℝ} (L : LieCalculusJ G) (s : CSpline.JSt ℝ G) (ws : List (Fin G.dof → ℝ))
    (j : JState (Mx G.dim)) : Prop where
  l1 : s.dg.length = ws.length
  l2 : s.dvel.length = ws.length
  l3 : s.dacc.length = ws.length
  X : L.ρ (applyL s.dg ws) = j.X
  Y : L.ρ (applyL s.dvel ws) = j.Y
  Z : L.ρ (applyL s.dacc ws) = j.Z
  vel : L.ρ s.vel.get = j.vel
  acc : L.ρ s.acc.get = j.acc

theorem relJ_init {G : LieModel ℝ} (L : LieCalculusJ G) :
    RelJ L ⟨[], [], [], vzero _, vzero _⟩ [] (initJ : JState (Mx G.dim)) := by
  have hz : L.ρ (vzero G.dof : Vec ℝ G.dof).get = 0 := by
    have : (vzero G.dof : Vec ℝ G.dof).get = 0 := by funext i; simp [vzero]
    rw [this, map_zero]
  have ha : L.ρ (applyL ([] : List (Mat ℝ G.dof G.dof)) []) = 0 := by
    simp [applyL]
  exact ⟨rfl, rfl, rfl, ha, ha, ha, hz, hz⟩

theorem relJ_step {G : LieModel ℝ} (L : LieCalculusJ G) (b b1 b2 : ℝ) (v w : Vec ℝ G.dof)
    (h : FactorOK L b v w) (s : CSpline.JSt ℝ G) (ws : List (Fin G.dof → ℝ)) (j : JState (Mx G.dim))
    (hr : RelJ L s ws j) :
    RelJ L (CSpline.jstep G b b1 b2 v s) (ws ++ [w.get]) ((vd b b1 b2 v w).stepJAt 0 j) := by
  have hb := jstep_is_stepJFormula G L.ρ L.ρ_ad' b b1 b2 v s
    (NormedSpace.exp (b • toM (G.hat v))) (NormedSpace.exp (-(b • toM (G.hat v)))) j.g j.gi
    (vd_hAd L b v w h) ws w.get hr.l1 hr.l2 hr.l3
  have himg : imgJ G L.ρ s ws j.g j.gi = j := by
    cases j
    simp only [imgJ, hr.X, hr.Y, hr.Z, hr.vel, hr.acc]
  have hstep : (vd b b1 b2 v w).stepJAt 0 j
      = stepJFormula (NormedSpace.exp (b • toM (G.hat v))) (NormedSpace.exp (-(b • toM (G.hat v))))
          (L.ρ v.get) (algebraMap ℝ (Mx G.dim) b1) (algebraMap ℝ (Mx G.dim) b2)
          (L.ρ (mv (msmul b (G.dr_exp (vsmul b v))) w.get))
          (L.ρ (mv (msmul b (G.dr_exp (vsmul (-b) v))) w.get)) (L.ρ w.get) j := by
    unfold VData.stepJAt
    rw [vd_Eat_zero, vd_Eiat_zero, vd_Vat_zero, vd_Rat_zero L b b1 b2 v w h, vd_Rmat_zero L b b1 b2 v w h,
      L.ρ_get, L.ρ_get]
    rfl
  dsimp only at hb
  rw [himg, ← hstep] at hb
  obtain ⟨hX, hY, hZ, hv, ha⟩ := hb
  obtain ⟨k1, k2, k3⟩ := jstep_lengths b b1 b2 v s ws.length hr.l1 hr.l2 hr.l3
  refine ⟨?_, ?_, ?_, hX, hY, hZ, hv, ha⟩
  · rw [k1]; simp
  · rw [k2]; simp
  · rw [k3]; simp

section loop
variable {G : LieModel ℝ} (L : LieCalculusJ G) {K : Nat} (vs ws : Fin K → Vec ℝ G.dof)
  (Bcum : Mat ℝ (K + 1) (K + 1)) (u : ℝ)

/-- the factor data of difference `i` varied in direction `ws i` -/
noncomputable def vdOf (i : Fin K) : VData G.dim :=
  vd (bfun Bcum i 0 u) (bfun Bcum i 1 u) (bfun Bcum i 2 u) (vs i) (ws i)

theorem relJ_foldl (hok : ∀ i : Fin K, FactorOK L (bfun Bcum i 0 u) (vs i) (ws i)) (l : List (Fin K))
    (s : CSpline.JSt ℝ G) (wl : List (Fin G.dof → ℝ)) (j : JState (Mx G.dim)) (hr : RelJ L s wl j) :
    RelJ L (l.foldl (fun s i => CSpline.jstep G (bfun Bcum i 0 u) (bfun Bcum i 1 u) (bfun Bcum i 2 u) (vs i) s) s)
      (wl ++ l.map (fun i => (ws i).get))
      (l.foldl (fun j i => (vdOf vs ws Bcum u i).stepJAt 0 j) j) := by
  induction l generalizing s wl j with
  | nil => simpa using hr
  | cons i l ih =>
    simp only [List.foldl_cons, List.map_cons]
    have := ih _ _ _ (relJ_step L (bfun Bcum i 0 u) (bfun Bcum i 1 u) (bfun Bcum i 2 u) (vs i) (ws i) (hok i) s wl j hr)
    rw [List.append_assoc] at this
    exact this

/-- **the model's Jacobian loop is the abstract Jacobian loop at `ε = 0`** -/
theorem relJ_eval (hok : ∀ i : Fin K, FactorOK L (bfun Bcum i 0 u) (vs i) (ws i)) :
    RelJ L (CSpline.eval_dg_dvs G vs Bcum u) ((List.finRange K).map (fun i => (ws i).get))
      (jcurveAt ((List.finRange K).map (vdOf vs ws Bcum u)) 0) := by
  unfold CSpline.eval_dg_dvs jcurveAt
  simp only [memoV_eq]
  rw [List.foldl_map]
  have := relJ_foldl L vs ws Bcum u hok (List.finRange K) _ [] _ (relJ_init L)
  rw [List.nil_append] at this
  exact this

/-- the perturbed differences `v_i + ε·w_i` -/
noncomputable def pert (ε : ℝ) : Fin K → Vec ℝ G.dof := fun i => vadd (vs i) (vsmul ε (ws i))

include L in
theorem hat_pert (ε : ℝ) (i : Fin K) :
    toM (G.hat (pert vs ws ε i)) = (vdOf vs ws Bcum u i).Vat ε := by
  unfold pert vdOf vd VData.Vat
  rw [L.hat_add, toM_madd', L.toM_hat_smul]

include L in
/-- the `(g, vel, acc)` of the Jacobian loop at `ε` are those of the evaluation loop on `v + ε·w` -/
theorem jcurve_eq_spline (ε : ℝ) :
    (jcurveAt ((List.finRange K).map (vdOf vs ws Bcum u)) ε).g = (splineCurve G (pert vs ws ε) Bcum u).g ∧
    (jcurveAt ((List.finRange K).map (vdOf vs ws Bcum u)) ε).vel = (splineCurve G (pert vs ws ε) Bcum u).vel ∧
    (jcurveAt ((List.finRange K).map (vdOf vs ws Bcum u)) ε).acc = (splineCurve G (pert vs ws ε) Bcum u).acc := by
  unfold jcurveAt splineCurve curveAt
  rw [List.foldl_map, List.foldl_map]
  suffices H : ∀ (l : List (Fin K)) (j : JState (Mx G.dim)) (a : AState (Mx G.dim)),
      (j.g = a.g ∧ j.gi = a.gi ∧ j.vel = a.vel ∧ j.acc = a.acc) →
      let j' := l.foldl (fun j i => (vdOf vs ws Bcum u i).stepJAt ε j) j
      let a' := l.foldl (fun a i => (facOf G (pert vs ws ε) Bcum i).stepAt u a) a
      (j'.g = a'.g ∧ j'.gi = a'.gi ∧ j'.vel = a'.vel ∧ j'.acc = a'.acc) by
    have := H (List.finRange K) initJ initA ⟨rfl, rfl, rfl, rfl⟩
    exact ⟨this.1, this.2.2.1, this.2.2.2⟩
  intro l
  induction l with
  | nil => intro j a h; exact h
  | cons i l ih =>
    intro j a h
    simp only [List.foldl_cons]
    apply ih
    obtain ⟨h1, h2, h3, h4⟩ := h
    have hV := hat_pert L vs ws Bcum u ε i
    have hE : (vdOf vs ws Bcum u i).Eat ε = NormedSpace.exp (bfun Bcum i 0 u • toM (G.hat (pert vs ws ε i))) := by
      rw [hV]; rfl
    have hEi : (vdOf vs ws Bcum u i).Eiat ε = NormedSpace.exp (-(bfun Bcum i 0 u • toM (G.hat (pert vs ws ε i)))) := by
      rw [hV]; rfl
    simp only [VData.stepJAt, stepJFormula, FacData.stepAt, stepFormula, facOf, hE, hEi, ← hV, h1, h2, h3, h4]
    refine ⟨?_, ?_, ?_, ?_⟩ <;> trivial

/-- **C11 Jacobians, concrete (total differential).**  Vary all differences at once,
    `v_i(ε) = v_i + ε·w_i`.  Then, with `J = cspline_eval_dg_dvs(v)`:
    `d/dε|₀ M(g(ε)) = M(g)·hat(Σ_i J.dg[i]·w_i)`, `d/dε|₀ vel(ε) = Σ_i J.dvel[i]·w_i`,
    `d/dε|₀ acc(ε) = Σ_i J.dacc[i]·w_i`. -/
theorem eval_dvs_hasDerivAt (hok : ∀ i : Fin K, FactorOK L (bfun Bcum i 0 u) (vs i) (ws i))
    (hev : ∀ i : Fin K, ∀ᶠ ε in 𝓝 (0 : ℝ), L.Dom (vsmul (bfun Bcum i 0 u) (pert vs ws ε i))) :
    let J := CSpline.eval_dg_dvs G vs Bcum u
    let wl := (List.finRange K).map (fun i => (ws i).get)
    (∀ a b : Fin G.dim, HasDerivAt (fun ε => G.matrix (CSpline.eval_vs G (pert vs ws ε) Bcum u).g a b)
        (mmul (G.matrix (CSpline.eval_vs G vs Bcum u).g) (G.hat (Vec.of (applyL J.dg wl))) a b) 0) ∧
    (∀ i : Fin G.dof, HasDerivAt (fun ε => (CSpline.eval_vs G (pert vs ws ε) Bcum u).vel i)
        (applyL J.dvel wl i) 0) ∧
    (∀ i : Fin G.dof, HasDerivAt (fun ε => (CSpline.eval_vs G (pert vs ws ε) Bcum u).acc i)
        (applyL J.dacc wl i) 0) := by
  intro J wl
  have hall : ∀ᶠ ε in 𝓝 (0 : ℝ), ∀ i : Fin K, L.Dom (vsmul (bfun Bcum i 0 u) (pert vs ws ε i)) :=
    Filter.eventually_all.2 hev
  have hrel : ∀ᶠ ε in 𝓝 (0 : ℝ), L.Rel (CSpline.eval_vs G (pert vs ws ε) Bcum u)
      (splineCurve G (pert vs ws ε) Bcum u) :=
    hall.mono fun ε h => rel_eval_vs L.toLieCalculus (pert vs ws ε) Bcum u h
  have hJ := relJ_eval L vs ws Bcum u hok
  have hp0 : pert vs ws 0 = vs := by
    funext i; ext k; simp [pert, vadd, vsmul]
  have hu := hrel.self_of_nhds
  rw [hp0] at hu
  have hc0 := jcurve_eq_spline L vs ws Bcum u 0
  rw [hp0] at hc0
  have hg := jcurveAt_hasDerivAt_g ((List.finRange K).map (vdOf vs ws Bcum u)) 0
  have hv := jcurveAt_hasDerivAt_vel ((List.finRange K).map (vdOf vs ws Bcum u)) 0
  have ha := jcurveAt_hasDerivAt_acc ((List.finRange K).map (vdOf vs ws Bcum u)) 0
  refine ⟨?_, ?_, ?_⟩
  · have h1 : HasDerivAt (fun ε => toM (G.matrix (CSpline.eval_vs G (pert vs ws ε) Bcum u).g))
        (toM (G.matrix (CSpline.eval_vs G vs Bcum u).g) * toM (G.hat (Vec.of (applyL J.dg wl)))) 0 := by
      have e : (fun ε => toM (G.matrix (CSpline.eval_vs G (pert vs ws ε) Bcum u).g)) =ᶠ[𝓝 0]
          fun ε => (jcurveAt ((List.finRange K).map (vdOf vs ws Bcum u)) ε).g :=
        hrel.mono fun ε h => h.g.trans (jcurve_eq_spline L vs ws Bcum u ε).1.symm
      have e2 : toM (G.hat (Vec.of (applyL J.dg wl))) = (jcurveAt ((List.finRange K).map (vdOf vs ws Bcum u)) 0).X :=
        hJ.X
      rw [hu.g, ← hc0.1, e2]
      exact hg.congr_of_eventuallyEq e
    intro a b
    have h2 := (hasDerivAt_pi.1 ((hasDerivAt_pi.1 h1) a)) b
    have e3 : (toM (G.matrix (CSpline.eval_vs G vs Bcum u).g) * toM (G.hat (Vec.of (applyL J.dg wl)))) a b
        = mmul (G.matrix (CSpline.eval_vs G vs Bcum u).g) (G.hat (Vec.of (applyL J.dg wl))) a b := by
      rw [← toM_mmul]; rfl
    rw [e3] at h2
    exact h2
  · have h1 : HasDerivAt (fun ε => L.ρ (CSpline.eval_vs G (pert vs ws ε) Bcum u).vel.get)
        (L.ρ (Vec.of (applyL J.dvel wl) : Vec ℝ G.dof).get) 0 := by
      have e : (fun ε => L.ρ (CSpline.eval_vs G (pert vs ws ε) Bcum u).vel.get) =ᶠ[𝓝 0]
          fun ε => (jcurveAt ((List.finRange K).map (vdOf vs ws Bcum u)) ε).vel :=
        hrel.mono fun ε h => h.vel.trans (jcurve_eq_spline L vs ws Bcum u ε).2.1.symm
      have e2 : L.ρ (Vec.of (applyL J.dvel wl) : Vec ℝ G.dof).get
          = (jcurveAt ((List.finRange K).map (vdOf vs ws Bcum u)) 0).Y := hJ.Y
      rw [e2]
      exact hv.congr_of_eventuallyEq e
    exact hasDerivAt_coord_of_ρ L.toLieCalculus (fun ε => (CSpline.eval_vs G (pert vs ws ε) Bcum u).vel)
      (Vec.of (applyL J.dvel wl)) 0 h1
  · have h1 : HasDerivAt (fun ε => L.ρ (CSpline.eval_vs G (pert vs ws ε) Bcum u).acc.get)
        (L.ρ (Vec.of (applyL J.dacc wl) : Vec ℝ G.dof).get) 0 := by
      have e : (fun ε => L.ρ (CSpline.eval_vs G (pert vs ws ε) Bcum u).acc.get) =ᶠ[𝓝 0]
          fun ε => (jcurveAt ((List.finRange K).map (vdOf vs ws Bcum u)) ε).acc :=
        hrel.mono fun ε h => h.acc.trans (jcurve_eq_spline L vs ws Bcum u ε).2.2.symm
      have e2 : L.ρ (Vec.of (applyL J.dacc wl) : Vec ℝ G.dof).get
          = (jcurveAt ((List.finRange K).map (vdOf vs ws Bcum u)) 0).Z := hJ.Z
      rw [e2]
      exact ha.congr_of_eventuallyEq e
    exact hasDerivAt_coord_of_ρ L.toLieCalculus (fun ε => (CSpline.eval_vs G (pert vs ws ε) Bcum u).acc)
      (Vec.of (applyL J.dacc wl)) 0 h1

theorem eval_dg_dvs_lengths :
    (CSpline.eval_dg_dvs G vs Bcum u).dg.length = K ∧ (CSpline.eval_dg_dvs G vs Bcum u).dvel.length = K ∧
    (CSpline.eval_dg_dvs G vs Bcum u).dacc.length = K := by
  unfold CSpline.eval_dg_dvs
  simp only [memoV_eq]
  suffices H : ∀ (l : List (Fin K)) (s : CSpline.JSt ℝ G) (m : Nat),
      s.dg.length = m → s.dvel.length = m → s.dacc.length = m →
      let s' := l.foldl (fun s i => CSpline.jstep G (CSpline.bdot (CSpline.monomial_derivative K u 0) Bcum ⟨i.val + 1, by omega⟩)
        (CSpline.bdot (CSpline.monomial_derivative K u 1) Bcum ⟨i.val + 1, by omega⟩)
        (CSpline.bdot (CSpline.monomial_derivative K u 2) Bcum ⟨i.val + 1, by omega⟩) (vs i) s) s
      s'.dg.length = m + l.length ∧ s'.dvel.length = m + l.length ∧ s'.dacc.length = m + l.length by
    have := H (List.finRange K) ⟨[], [], [], vzero _, vzero _⟩ 0 rfl rfl rfl
    simpa using this
  intro l
  induction l with
  | nil => intro s m h1 h2 h3; exact ⟨h1, h2, h3⟩
  | cons i l ih =>
    intro s m h1 h2 h3
    simp only [List.foldl_cons, List.length_cons]
    obtain ⟨k1, k2, k3⟩ := jstep_lengths (CSpline.bdot (CSpline.monomial_derivative K u 0) Bcum ⟨i.val + 1, by omega⟩)
        (CSpline.bdot (CSpline.monomial_derivative K u 1) Bcum ⟨i.val + 1, by omega⟩)
        (CSpline.bdot (CSpline.monomial_derivative K u 2) Bcum ⟨i.val + 1, by omega⟩) (vs i) s m h1 h2 h3
    have := ih _ (m + 1) k1 k2 k3
    simp only [Nat.add_assoc, Nat.add_comm 1] at this ⊢
    exact this

end loop

end C11
