/-
  C06Assoc.lean — index lemmas behind `(A × B) × C ≅ A × (B × C)` and `unit × B ≅ B`
  (vectors, block-diagonal matrices, Hessian placements), then the two `LayoutIso` facts and the
  flattening of nested Bundles at the operation level.
-/
import SmoothProofs.C06Iso

open Lin Scalar
set_option linter.unusedSectionVars false
set_option linter.unusedVariables false
set_option linter.unusedSimpArgs false

namespace C06

section vectors
variable {n1 n2 n3 : Nat}

theorem reidx_vcat_assoc (h : (n1 + n2) + n3 = n1 + (n2 + n3)) (x : Vec ℝ n1) (y : Vec ℝ n2) (z : Vec ℝ n3) :
    reidx h (vcat (vcat x y) z) = vcat x (vcat y z) := by
  ext i
  simp only [reidx, vcat, Vec.of_get]
  by_cases h1 : i.val < n1
  · have h12 : i.val < n1 + n2 := by omega
    simp [h1, h12]
  · by_cases h2 : i.val < n1 + n2
    · have h3 : i.val - n1 < n2 := by omega
      simp [h1, h2, h3]
    · have h3 : ¬ i.val - n1 < n2 := by omega
      simp [h1, h2, h3]
      congr 1; ext; simp; omega

theorem fst_fst_reidx (h : n1 + (n2 + n3) = (n1 + n2) + n3) (w : Vec ℝ (n1 + (n2 + n3))) :
    Bundle.fst (Bundle.fst (reidx h w)) = Bundle.fst w := by
  ext i; simp [Bundle.fst, reidx]
theorem snd_fst_reidx (h : n1 + (n2 + n3) = (n1 + n2) + n3) (w : Vec ℝ (n1 + (n2 + n3))) :
    Bundle.snd (Bundle.fst (reidx h w)) = Bundle.fst (Bundle.snd w) := by
  ext i; simp [Bundle.fst, Bundle.snd, reidx]
theorem snd_reidx (h : n1 + (n2 + n3) = (n1 + n2) + n3) (w : Vec ℝ (n1 + (n2 + n3))) :
    Bundle.snd (reidx h w) = Bundle.snd (Bundle.snd w) := by
  ext i; simp only [Bundle.snd, reidx, Vec.of_get]; congr 1; ext; simp; omega

end vectors

section matrices
variable {n1 n2 n3 : Nat}

theorem reidxM_bdiag_assoc (h : (n1 + n2) + n3 = n1 + (n2 + n3)) (X : Mat ℝ n1 n1) (Y : Mat ℝ n2 n2) (Z : Mat ℝ n3 n3) :
    reidxM h h (Bundle.bdiag (Bundle.bdiag X Y) Z) = Bundle.bdiag X (Bundle.bdiag Y Z) := by
  ext i j
  simp only [reidxM, Bundle.bdiag, Mat.of_get]
  by_cases hi1 : i.val < n1 <;> by_cases hj1 : j.val < n1
  · have hi2 : i.val < n1 + n2 := by omega
    have hj2 : j.val < n1 + n2 := by omega
    simp [hi1, hj1, hi2, hj2]
  · have hi2 : i.val < n1 + n2 := by omega
    by_cases hj2 : j.val < n1 + n2
    · simp [hi1, hj1, hi2, hj2]
    · simp [hi1, hj1, hi2, hj2]
  · have hj2 : j.val < n1 + n2 := by omega
    by_cases hi2 : i.val < n1 + n2
    · simp [hi1, hj1, hi2, hj2]
    · simp [hi1, hj1, hi2, hj2]
  · by_cases hi2 : i.val < n1 + n2 <;> by_cases hj2 : j.val < n1 + n2
    · have a1 : i.val - n1 < n2 := by omega
      have a2 : j.val - n1 < n2 := by omega
      simp [hi1, hj1, hi2, hj2, a1, a2]
    · have a1 : i.val - n1 < n2 := by omega
      have a2 : ¬ j.val - n1 < n2 := by omega
      simp [hi1, hj1, hi2, hj2, a1, a2]
    · have a1 : ¬ i.val - n1 < n2 := by omega
      have a2 : j.val - n1 < n2 := by omega
      simp [hi1, hj1, hi2, hj2, a1, a2]
    · have a1 : ¬ i.val - n1 < n2 := by omega
      have a2 : ¬ j.val - n1 < n2 := by omega
      simp [hi1, hj1, hi2, hj2, a1, a2]
      congr 1 <;> (ext; simp; omega)

theorem tl_tl_reidxM (h : n1 + (n2 + n3) = (n1 + n2) + n3) (M : Mat ℝ (n1 + (n2 + n3)) (n1 + (n2 + n3))) :
    Bundle.tl (Bundle.tl (reidxM h h M)) = Bundle.tl M := by
  ext i j; simp [Bundle.tl, reidxM]
theorem br_tl_reidxM (h : n1 + (n2 + n3) = (n1 + n2) + n3) (M : Mat ℝ (n1 + (n2 + n3)) (n1 + (n2 + n3))) :
    Bundle.br (Bundle.tl (reidxM h h M)) = Bundle.tl (Bundle.br M) := by
  ext i j; simp [Bundle.tl, Bundle.br, reidxM]
theorem br_reidxM (h : n1 + (n2 + n3) = (n1 + n2) + n3) (M : Mat ℝ (n1 + (n2 + n3)) (n1 + (n2 + n3))) :
    Bundle.br (reidxM h h M) = Bundle.br (Bundle.br M) := by
  ext i j; simp only [Bundle.br, reidxM, Mat.of_get]; congr 1 <;> (ext; simp; omega)

end matrices

/-! ### Hessian placements compose -/

/-- a placement depends only on the numbers `D`, `off` and the index VALUES -/
theorem hessPlace_congr {d D D' off : Nat} (H : Mat ℝ d (d * d)) (hD : D' = D) (R : Fin D) (C : Fin (D * D))
    (R' : Fin D') (C' : Fin (D' * D')) (hR : R'.val = R.val) (hC : C'.val = C.val) :
    Bundle.hessPlace D' off H R' C' = Bundle.hessPlace D off H R C := by
  subst hD
  have e1 : R' = R := Fin.ext hR
  have e2 : C' = C := Fin.ext hC
  rw [e1, e2]

/-- placing (at `off`, size `d`) a matrix that is itself a placement (at `off1`, size `d1`) is the
    placement at `off + off1` -/
theorem hessPlace_shift {d d1 : Nat} (D off off1 : Nat) (H1 : Mat ℝ d1 (d1 * d1)) (R : Fin D) (C : Fin (D * D))
    (hin : InBlock D off d R C) (r' : Fin d) (c' : Fin (d * d))
    (hr' : r'.val = R.val - off) (hc' : c'.val = (C.val / D - off) * d + (C.val % D - off)) :
    Bundle.hessPlace d off1 H1 r' c' = Bundle.hessPlace D (off + off1) H1 R C := by
  obtain ⟨a1, a2, a3, a4, a5, a6⟩ := hin
  have hK : C.val % D - off < d := by omega
  have hdiv : c'.val / d = C.val / D - off := by rw [hc', Nat.mul_comm]; exact col_div hK
  have hmod : c'.val % d = C.val % D - off := by rw [hc', Nat.mul_comm]; exact col_mod hK
  by_cases h1 : InBlock d off1 d1 r' c'
  · have h2 : InBlock D (off + off1) d1 R C := by
      obtain ⟨b1, b2, b3, b4, b5, b6⟩ := h1
      rw [hdiv] at b3 b4; rw [hmod] at b5 b6
      refine ⟨?_, ?_, ?_, ?_, ?_, ?_⟩ <;> omega
    rw [hessPlace_in _ _ _ _ _ h1, hessPlace_in _ _ _ _ _ h2]
    congr 1
    · apply Fin.ext; simp only []; omega
    · apply Fin.ext; simp only []
      rw [hdiv, hmod]
      have e1 : C.val / D - off - off1 = C.val / D - (off + off1) := by omega
      have e2 : C.val % D - off - off1 = C.val % D - (off + off1) := by omega
      rw [e1, e2]
  · have h2 : ¬ InBlock D (off + off1) d1 R C := by
      intro hb
      apply h1
      obtain ⟨b1, b2, b3, b4, b5, b6⟩ := hb
      refine ⟨?_, ?_, ?_, ?_, ?_, ?_⟩
      · omega
      · omega
      · rw [hdiv]; omega
      · rw [hdiv]; omega
      · rw [hmod]; omega
      · rw [hmod]; omega
    rw [hessPlace_out _ _ _ _ _ h1, hessPlace_out _ _ _ _ _ h2]

/-- placement of a sum of two placements -/
theorem hessPlace_of_sum {d d1 d2 : Nat} (D off off1 off2 : Nat) (M : Mat ℝ d (d * d))
    (H1 : Mat ℝ d1 (d1 * d1)) (H2 : Mat ℝ d2 (d2 * d2))
    (hM : ∀ r c, M r c = Bundle.hessPlace d off1 H1 r c + Bundle.hessPlace d off2 H2 r c)
    (hb1 : off1 + d1 ≤ d) (hb2 : off2 + d2 ≤ d) (R : Fin D) (C : Fin (D * D)) :
    Bundle.hessPlace D off M R C =
      Bundle.hessPlace D (off + off1) H1 R C + Bundle.hessPlace D (off + off2) H2 R C := by
  by_cases hin : InBlock D off d R C
  · rw [hessPlace_in _ _ _ _ _ hin, hM,
      hessPlace_shift D off off1 H1 R C hin _ _ rfl rfl, hessPlace_shift D off off2 H2 R C hin _ _ rfl rfl]
  · have o1 : ¬ InBlock D (off + off1) d1 R C := by
      intro hb; apply hin
      obtain ⟨b1, b2, b3, b4, b5, b6⟩ := hb
      refine ⟨?_, ?_, ?_, ?_, ?_, ?_⟩ <;> omega
    have o2 : ¬ InBlock D (off + off2) d2 R C := by
      intro hb; apply hin
      obtain ⟨b1, b2, b3, b4, b5, b6⟩ := hb
      refine ⟨?_, ?_, ?_, ?_, ?_, ?_⟩ <;> omega
    rw [hessPlace_out _ _ _ _ _ hin, hessPlace_out _ _ _ _ _ o1, hessPlace_out _ _ _ _ _ o2]
    simp

/-- the Hessian field of the associativity: both bracketings place the three part Hessians at
    `0`, `dA`, `dA + dB` -/
theorem hess_assoc {dA dB dC : Nat} (HA : Mat ℝ dA (dA * dA)) (HB : Mat ℝ dB (dB * dB)) (HC : Mat ℝ dC (dC * dC))
    (MAB : Mat ℝ (dA + dB) ((dA + dB) * (dA + dB))) (MBC : Mat ℝ (dB + dC) ((dB + dC) * (dB + dC)))
    (hAB : ∀ r c, MAB r c = Bundle.hessPlace (dA + dB) 0 HA r c + Bundle.hessPlace (dA + dB) dA HB r c)
    (hBC : ∀ r c, MBC r c = Bundle.hessPlace (dB + dC) 0 HB r c + Bundle.hessPlace (dB + dC) dB HC r c)
    (R : Fin (dA + (dB + dC))) (C : Fin ((dA + (dB + dC)) * (dA + (dB + dC))))
    (R' : Fin ((dA + dB) + dC)) (C' : Fin (((dA + dB) + dC) * ((dA + dB) + dC)))
    (hR : R'.val = R.val) (hC : C'.val = C.val) :
    Bundle.hessPlace (dA + (dB + dC)) 0 HA R C + Bundle.hessPlace (dA + (dB + dC)) dA MBC R C =
      Bundle.hessPlace ((dA + dB) + dC) 0 MAB R' C' + Bundle.hessPlace ((dA + dB) + dC) (dA + dB) HC R' C' := by
  have hD : (dA + dB) + dC = dA + (dB + dC) := Nat.add_assoc _ _ _
  rw [hessPlace_of_sum (dA + (dB + dC)) dA 0 dB MBC HB HC hBC (by omega) (by omega) R C,
    hessPlace_of_sum ((dA + dB) + dC) 0 0 dA MAB HA HB hAB (by omega) (by omega) R' C',
    hessPlace_congr HA hD R C R' C' hR hC, hessPlace_congr HB hD R C R' C' hR hC,
    hessPlace_congr HC hD R C R' C' hR hC]
  simp only [Nat.add_zero, Nat.zero_add]
  ring


/-! ### `(A × B) × C ≅ A × (B × C)` -/
section assoc
variable (A B C : LieModel ℝ)

theorem prod_assoc : LayoutIso (Bundle.prod (Bundle.prod A B) C) (Bundle.prod A (Bundle.prod B C)) := by
  have hr : (A.rep + B.rep) + C.rep = A.rep + (B.rep + C.rep) := Nat.add_assoc _ _ _
  have hd : (A.dof + B.dof) + C.dof = A.dof + (B.dof + C.dof) := Nat.add_assoc _ _ _
  have hm : (A.dim + B.dim) + C.dim = A.dim + (B.dim + C.dim) := Nat.add_assoc _ _ _
  refine eq_recast_of (Bundle.prod A (Bundle.prod B C)) (Bundle.prod (Bundle.prod A B) C) hr hd hm ?_ ?_
    ?_ ?_ ?_ ?_ ?_ ?_ ?_ ?_ ?_ ?_ ?_ ?_ ?_
  · show (A.comm && (B.comm && C.comm)) = ((A.comm && B.comm) && C.comm)
    rw [Bool.and_assoc]
  · show vcat A.identity (vcat B.identity C.identity) = reidx hr (vcat (vcat A.identity B.identity) C.identity)
    rw [reidx_vcat_assoc]
  · intro (g : Vec ℝ (A.rep + (B.rep + C.rep)))
    show Bundle.prodMatrix A (Bundle.prod B C) g = reidxM hm hm (Bundle.prodMatrix (Bundle.prod A B) C (reidx hr.symm g))
    dsimp only [Bundle.prodMatrix, Bundle.prod]
    rw [fst_fst_reidx, snd_fst_reidx, snd_reidx, reidxM_bdiag_assoc]
  · intro (a : Vec ℝ (A.rep + (B.rep + C.rep))) (b : Vec ℝ (A.rep + (B.rep + C.rep)))
    show Bundle.prodComposition A (Bundle.prod B C) a b
      = reidx hr (Bundle.prodComposition (Bundle.prod A B) C (reidx hr.symm a) (reidx hr.symm b))
    dsimp only [Bundle.prodComposition, Bundle.prod]
    rw [fst_fst_reidx, fst_fst_reidx, snd_fst_reidx, snd_fst_reidx, snd_reidx, snd_reidx, reidx_vcat_assoc]
  · intro (g : Vec ℝ (A.rep + (B.rep + C.rep)))
    show Bundle.prodInverse A (Bundle.prod B C) g = reidx hr (Bundle.prodInverse (Bundle.prod A B) C (reidx hr.symm g))
    dsimp only [Bundle.prodInverse, Bundle.prod]
    rw [fst_fst_reidx, snd_fst_reidx, snd_reidx, reidx_vcat_assoc]
  · intro (g : Vec ℝ (A.rep + (B.rep + C.rep)))
    show Bundle.prodLog A (Bundle.prod B C) g = reidx hd (Bundle.prodLog (Bundle.prod A B) C (reidx hr.symm g))
    dsimp only [Bundle.prodLog, Bundle.prod]
    rw [fst_fst_reidx, snd_fst_reidx, snd_reidx, reidx_vcat_assoc]
  · intro (a : Vec ℝ (A.dof + (B.dof + C.dof)))
    show Bundle.prodExp A (Bundle.prod B C) a = reidx hr (Bundle.prodExp (Bundle.prod A B) C (reidx hd.symm a))
    dsimp only [Bundle.prodExp, Bundle.prod]
    rw [fst_fst_reidx, snd_fst_reidx, snd_reidx, reidx_vcat_assoc]
  · intro (a : Vec ℝ (A.dof + (B.dof + C.dof)))
    show Bundle.prodHat A (Bundle.prod B C) a = reidxM hm hm (Bundle.prodHat (Bundle.prod A B) C (reidx hd.symm a))
    dsimp only [Bundle.prodHat, Bundle.prod]
    rw [fst_fst_reidx, snd_fst_reidx, snd_reidx, reidxM_bdiag_assoc]
  · intro (M : Mat ℝ (A.dim + (B.dim + C.dim)) (A.dim + (B.dim + C.dim)))
    show Bundle.prodVee A (Bundle.prod B C) M = reidx hd (Bundle.prodVee (Bundle.prod A B) C (reidxM hm.symm hm.symm M))
    dsimp only [Bundle.prodVee, Bundle.prod]
    rw [tl_tl_reidxM, br_tl_reidxM, br_reidxM, reidx_vcat_assoc]
  · intro (g : Vec ℝ (A.rep + (B.rep + C.rep)))
    show Bundle.prodAd A (Bundle.prod B C) g = reidxM hd hd (Bundle.prodAd (Bundle.prod A B) C (reidx hr.symm g))
    dsimp only [Bundle.prodAd, Bundle.prod]
    rw [fst_fst_reidx, snd_fst_reidx, snd_reidx, reidxM_bdiag_assoc]
  · intro (a : Vec ℝ (A.dof + (B.dof + C.dof)))
    show Bundle.prodad A (Bundle.prod B C) a = reidxM hd hd (Bundle.prodad (Bundle.prod A B) C (reidx hd.symm a))
    dsimp only [Bundle.prodad, Bundle.prod]
    rw [fst_fst_reidx, snd_fst_reidx, snd_reidx, reidxM_bdiag_assoc]
  · intro (a : Vec ℝ (A.dof + (B.dof + C.dof)))
    show Bundle.prodDrExp A (Bundle.prod B C) a = reidxM hd hd (Bundle.prodDrExp (Bundle.prod A B) C (reidx hd.symm a))
    dsimp only [Bundle.prodDrExp, Bundle.prod]
    rw [fst_fst_reidx, snd_fst_reidx, snd_reidx, reidxM_bdiag_assoc]
  · intro (a : Vec ℝ (A.dof + (B.dof + C.dof)))
    show Bundle.prodDrExpinv A (Bundle.prod B C) a = reidxM hd hd (Bundle.prodDrExpinv (Bundle.prod A B) C (reidx hd.symm a))
    dsimp only [Bundle.prodDrExpinv, Bundle.prod]
    rw [fst_fst_reidx, snd_fst_reidx, snd_reidx, reidxM_bdiag_assoc]
  · intro (a : Vec ℝ (A.dof + (B.dof + C.dof)))
    apply Mat.ext'
    intro (R : Fin (A.dof + (B.dof + C.dof))) (Cc : Fin ((A.dof + (B.dof + C.dof)) * (A.dof + (B.dof + C.dof))))
    let R' : Fin ((A.dof + B.dof) + C.dof) := ⟨R.val, by omega⟩
    let C' : Fin (((A.dof + B.dof) + C.dof) * ((A.dof + B.dof) + C.dof)) := ⟨Cc.val, by rw [sq_eq hd]; exact Cc.isLt⟩
    have e0 := prod_d2r_exp_apply A (Bundle.prod B C) a R Cc
    have e1 := prod_d2r_exp_apply (Bundle.prod A B) C (reidx hd.symm a) R' C'
    have e2 : C.d2r_exp (Bundle.snd (reidx hd.symm a)) = C.d2r_exp (Bundle.snd (Bundle.snd a)) :=
      congrArg C.d2r_exp (snd_reidx hd.symm a)
    have e := hess_assoc (A.d2r_exp (Bundle.fst a)) (B.d2r_exp (Bundle.fst (Bundle.snd a)))
      (C.d2r_exp (Bundle.snd (Bundle.snd a)))
      ((Bundle.prod A B).d2r_exp (Bundle.fst (n := A.dof + B.dof) (m := C.dof) (reidx hd.symm a))) ((Bundle.prod B C).d2r_exp (Bundle.snd a))
      (fun r c => by
        rw [prod_d2r_exp_apply A B, fst_fst_reidx, snd_fst_reidx])
      (fun r c => prod_d2r_exp_apply B C _ r c) R Cc R' C' rfl rfl
    have e1' := e1.trans (congrArg (fun H => Bundle.hessPlace ((A.dof + B.dof) + C.dof) 0
      ((Bundle.prod A B).d2r_exp (Bundle.fst (n := A.dof + B.dof) (m := C.dof) (reidx hd.symm a))) R' C' +
      Bundle.hessPlace ((A.dof + B.dof) + C.dof) (A.dof + B.dof) H R' C') e2)
    exact e0.trans (e.trans e1'.symm)
  · intro (a : Vec ℝ (A.dof + (B.dof + C.dof)))
    apply Mat.ext'
    intro (R : Fin (A.dof + (B.dof + C.dof))) (Cc : Fin ((A.dof + (B.dof + C.dof)) * (A.dof + (B.dof + C.dof))))
    let R' : Fin ((A.dof + B.dof) + C.dof) := ⟨R.val, by omega⟩
    let C' : Fin (((A.dof + B.dof) + C.dof) * ((A.dof + B.dof) + C.dof)) := ⟨Cc.val, by rw [sq_eq hd]; exact Cc.isLt⟩
    have e0 := prod_d2r_expinv_apply A (Bundle.prod B C) a R Cc
    have e1 := prod_d2r_expinv_apply (Bundle.prod A B) C (reidx hd.symm a) R' C'
    have e2 : C.d2r_expinv (Bundle.snd (reidx hd.symm a)) = C.d2r_expinv (Bundle.snd (Bundle.snd a)) :=
      congrArg C.d2r_expinv (snd_reidx hd.symm a)
    have e := hess_assoc (A.d2r_expinv (Bundle.fst a)) (B.d2r_expinv (Bundle.fst (Bundle.snd a)))
      (C.d2r_expinv (Bundle.snd (Bundle.snd a)))
      ((Bundle.prod A B).d2r_expinv (Bundle.fst (n := A.dof + B.dof) (m := C.dof) (reidx hd.symm a))) ((Bundle.prod B C).d2r_expinv (Bundle.snd a))
      (fun r c => by
        rw [prod_d2r_expinv_apply A B, fst_fst_reidx, snd_fst_reidx])
      (fun r c => prod_d2r_expinv_apply B C _ r c) R Cc R' C' rfl rfl
    have e1' := e1.trans (congrArg (fun H => Bundle.hessPlace ((A.dof + B.dof) + C.dof) 0
      ((Bundle.prod A B).d2r_expinv (Bundle.fst (n := A.dof + B.dof) (m := C.dof) (reidx hd.symm a))) R' C' +
      Bundle.hessPlace ((A.dof + B.dof) + C.dof) (A.dof + B.dof) H R' C') e2)
    exact e0.trans (e.trans e1'.symm)

end assoc

/-! ### `unit × B ≅ B` -/
section unitLeft
variable {n : Nat}

theorem snd_reidx_zero (h : n = 0 + n) (a : Vec ℝ n) : Bundle.snd (n := 0) (m := n) (reidx h a) = a := by
  ext i; simp only [Bundle.snd, reidx, Vec.of_get]; congr 1; ext; simp
theorem reidx_vcat_zero (h : 0 + n = n) (x : Vec ℝ 0) (y : Vec ℝ n) : reidx h (vcat x y) = y := by
  ext i; simp [reidx, vcat]
theorem reidxM_bdiag_zero (h : 0 + n = n) (X : Mat ℝ 0 0) (Y : Mat ℝ n n) :
    reidxM h h (Bundle.bdiag X Y) = Y := by
  ext i j; simp [reidxM, Bundle.bdiag]
theorem br_reidxM_zero (h : n = 0 + n) (M : Mat ℝ n n) :
    Bundle.br (n := 0) (m := n) (reidxM h h M) = M := by
  ext i j; simp only [Bundle.br, reidxM, Mat.of_get]; congr 1 <;> (ext; simp)

/-- a placement at 0 of a full-size Hessian is that Hessian -/
theorem hessPlace_full {d D : Nat} (hD : D = d) (H : Mat ℝ d (d * d)) (R : Fin D) (C : Fin (D * D)) :
    Bundle.hessPlace D 0 H R C = H ⟨R.val, by omega⟩ ⟨C.val, by rw [← sq_eq hD]; exact C.isLt⟩ := by
  subst hD
  have hpos : 0 < D := by have := R.isLt; omega
  have h1 : C.val / D < D := by
    rw [Nat.div_lt_iff_lt_mul hpos]; exact C.isLt
  have h2 : C.val % D < D := Nat.mod_lt _ hpos
  have hin : InBlock D 0 D R C :=
    ⟨Nat.zero_le _, by omega, Nat.zero_le _, by omega, Nat.zero_le _, by omega⟩
  rw [hessPlace_in _ _ _ _ _ hin]
  congr 1
  apply Fin.ext
  simp only [Nat.sub_zero]
  exact Nat.div_add_mod' _ _

end unitLeft

theorem prod_unit_left (B : LieModel ℝ) : LayoutIso (Bundle.prod Bundle.unit B) B := by
  have hr : 0 + B.rep = B.rep := Nat.zero_add _
  have hd : 0 + B.dof = B.dof := Nat.zero_add _
  have hm : 0 + B.dim = B.dim := Nat.zero_add _
  refine eq_recast_of B (Bundle.prod Bundle.unit B) hr hd hm ?_ ?_ ?_ ?_ ?_ ?_ ?_ ?_ ?_ ?_ ?_ ?_ ?_ ?_ ?_
  · show B.comm = (true && B.comm)
    simp
  · show B.identity = reidx hr (vcat (vzero 0) B.identity)
    rw [reidx_vcat_zero]
  · intro g
    show B.matrix g = reidxM hm hm (Bundle.bdiag (mzero 0 0) (B.matrix (Bundle.snd (n := 0) (m := B.rep) (reidx hr.symm g))))
    rw [snd_reidx_zero, reidxM_bdiag_zero]
  · intro a b
    show B.composition a b = reidx hr (vcat (vzero 0) (B.composition (Bundle.snd (n := 0) (m := B.rep) (reidx hr.symm a))
      (Bundle.snd (n := 0) (m := B.rep) (reidx hr.symm b))))
    rw [snd_reidx_zero, snd_reidx_zero, reidx_vcat_zero]
  · intro g
    show B.inverse g = reidx hr (vcat (vzero 0) (B.inverse (Bundle.snd (n := 0) (m := B.rep) (reidx hr.symm g))))
    rw [snd_reidx_zero, reidx_vcat_zero]
  · intro g
    show B.log g = reidx hd (vcat (vzero 0) (B.log (Bundle.snd (n := 0) (m := B.rep) (reidx hr.symm g))))
    rw [snd_reidx_zero, reidx_vcat_zero]
  · intro a
    show B.exp a = reidx hr (vcat (vzero 0) (B.exp (Bundle.snd (n := 0) (m := B.dof) (reidx hd.symm a))))
    rw [snd_reidx_zero, reidx_vcat_zero]
  · intro a
    show B.hat a = reidxM hm hm (Bundle.bdiag (mzero 0 0) (B.hat (Bundle.snd (n := 0) (m := B.dof) (reidx hd.symm a))))
    rw [snd_reidx_zero, reidxM_bdiag_zero]
  · intro M
    show B.vee M = reidx hd (vcat (vzero 0) (B.vee (Bundle.br (n := 0) (m := B.dim) (reidxM hm.symm hm.symm M))))
    rw [br_reidxM_zero, reidx_vcat_zero]
  · intro g
    show B.Ad g = reidxM hd hd (Bundle.bdiag (mzero 0 0) (B.Ad (Bundle.snd (n := 0) (m := B.rep) (reidx hr.symm g))))
    rw [snd_reidx_zero, reidxM_bdiag_zero]
  · intro a
    show B.ad a = reidxM hd hd (Bundle.bdiag (mzero 0 0) (B.ad (Bundle.snd (n := 0) (m := B.dof) (reidx hd.symm a))))
    rw [snd_reidx_zero, reidxM_bdiag_zero]
  · intro a
    show B.dr_exp a = reidxM hd hd (Bundle.bdiag (mzero 0 0) (B.dr_exp (Bundle.snd (n := 0) (m := B.dof) (reidx hd.symm a))))
    rw [snd_reidx_zero, reidxM_bdiag_zero]
  · intro a
    show B.dr_expinv a = reidxM hd hd (Bundle.bdiag (mzero 0 0) (B.dr_expinv (Bundle.snd (n := 0) (m := B.dof) (reidx hd.symm a))))
    rw [snd_reidx_zero, reidxM_bdiag_zero]
  · intro a
    apply Mat.ext'
    intro R C
    let R' : Fin (0 + B.dof) := ⟨R.val, by omega⟩
    let C' : Fin ((0 + B.dof) * (0 + B.dof)) := ⟨C.val, by rw [sq_eq hd]; exact C.isLt⟩
    have e1 : (Bundle.prod Bundle.unit B).d2r_exp (reidx hd.symm a) R' C' =
        Bundle.hessPlace (0 + B.dof) 0
          ((Bundle.unit : LieModel ℝ).d2r_exp (Bundle.fst (n := 0) (m := B.dof) (reidx hd.symm a))) R' C' +
        Bundle.hessPlace (0 + B.dof) 0 (B.d2r_exp (Bundle.snd (n := 0) (m := B.dof) (reidx hd.symm a))) R' C' :=
      prod_d2r_exp_apply Bundle.unit B (reidx hd.symm a) R' C'
    have o : ¬ InBlock (0 + B.dof) 0 0 R' C' := by intro hb; have := hb.2.1; omega
    have e2 := hessPlace_out (0 + B.dof) 0 ((Bundle.unit : LieModel ℝ).d2r_exp (Bundle.fst (n := 0) (m := B.dof) (reidx hd.symm a))) R' C' o
    have e3 := hessPlace_full hd (B.d2r_exp (Bundle.snd (n := 0) (m := B.dof) (reidx hd.symm a))) R' C'
    have e4 : B.d2r_exp (Bundle.snd (n := 0) (m := B.dof) (reidx hd.symm a)) = B.d2r_exp a :=
      congrArg B.d2r_exp (snd_reidx_zero hd.symm a)
    refine Eq.symm (e1.trans ?_)
    rw [e2, e3, e4]
    simp only [Scalar.nat_real, Nat.cast_zero, zero_add]
    rfl
  · intro a
    apply Mat.ext'
    intro R C
    let R' : Fin (0 + B.dof) := ⟨R.val, by omega⟩
    let C' : Fin ((0 + B.dof) * (0 + B.dof)) := ⟨C.val, by rw [sq_eq hd]; exact C.isLt⟩
    have e1 : (Bundle.prod Bundle.unit B).d2r_expinv (reidx hd.symm a) R' C' =
        Bundle.hessPlace (0 + B.dof) 0
          ((Bundle.unit : LieModel ℝ).d2r_expinv (Bundle.fst (n := 0) (m := B.dof) (reidx hd.symm a))) R' C' +
        Bundle.hessPlace (0 + B.dof) 0 (B.d2r_expinv (Bundle.snd (n := 0) (m := B.dof) (reidx hd.symm a))) R' C' :=
      prod_d2r_expinv_apply Bundle.unit B (reidx hd.symm a) R' C'
    have o : ¬ InBlock (0 + B.dof) 0 0 R' C' := by intro hb; have := hb.2.1; omega
    have e2 := hessPlace_out (0 + B.dof) 0 ((Bundle.unit : LieModel ℝ).d2r_expinv (Bundle.fst (n := 0) (m := B.dof) (reidx hd.symm a))) R' C' o
    have e3 := hessPlace_full hd (B.d2r_expinv (Bundle.snd (n := 0) (m := B.dof) (reidx hd.symm a))) R' C'
    have e4 : B.d2r_expinv (Bundle.snd (n := 0) (m := B.dof) (reidx hd.symm a)) = B.d2r_expinv a :=
      congrArg B.d2r_expinv (snd_reidx_zero hd.symm a)
    refine Eq.symm (e1.trans ?_)
    rw [e2, e3, e4]
    simp only [Scalar.nat_real, Nat.cast_zero, zero_add]
    rfl

/-! ### concatenation and flattening -/

/-- the product of two Bundles is the Bundle of the concatenated part lists -/
theorem bundle_append (qs rs : List (LieModel ℝ)) :
    LayoutIso (Bundle.prod (Bundle.bundle qs) (Bundle.bundle rs)) (Bundle.bundle (qs ++ rs)) := by
  induction qs with
  | nil => exact prod_unit_left _
  | cons q qs ih =>
    exact (prod_assoc q (Bundle.bundle qs) (Bundle.bundle rs)).trans (LayoutIso.prod_congr_right q ih)

/-- `flatten`: a nested Bundle anywhere in the part list can be replaced by its parts -/
theorem flatten_iso (ps qs rs : List (LieModel ℝ)) :
    LayoutIso (Bundle.bundle (ps ++ Bundle.bundle qs :: rs)) (Bundle.bundle (ps ++ (qs ++ rs))) := by
  induction ps with
  | nil => exact bundle_append qs rs
  | cons p ps ih => exact LayoutIso.prod_congr_right p ih

/-! ### what a `LayoutIso` means operation by operation -/
section meaning
variable {A B : LieModel ℝ}

theorem LayoutIso.composition_eq (h : LayoutIso A B) (a b : Vec ℝ A.rep) (k : Fin A.rep) :
    A.composition a b k =
      B.composition (reidx h.sizes.1 a) (reidx h.sizes.1 b) ⟨k.val, by have := h.sizes.1; omega⟩ := by
  obtain ⟨r, d, m, hr, hd, hm, rfl⟩ := h
  subst hr hd hm
  rfl

theorem LayoutIso.inverse_eq (h : LayoutIso A B) (g : Vec ℝ A.rep) (k : Fin A.rep) :
    A.inverse g k = B.inverse (reidx h.sizes.1 g) ⟨k.val, by have := h.sizes.1; omega⟩ := by
  obtain ⟨r, d, m, hr, hd, hm, rfl⟩ := h
  subst hr hd hm
  rfl

theorem LayoutIso.exp_eq (h : LayoutIso A B) (a : Vec ℝ A.dof) (k : Fin A.rep) :
    A.exp a k = B.exp (reidx h.sizes.2.1 a) ⟨k.val, by have := h.sizes.1; omega⟩ := by
  obtain ⟨r, d, m, hr, hd, hm, rfl⟩ := h
  subst hr hd hm
  rfl

theorem LayoutIso.log_eq (h : LayoutIso A B) (g : Vec ℝ A.rep) (k : Fin A.dof) :
    A.log g k = B.log (reidx h.sizes.1 g) ⟨k.val, by have := h.sizes.2.1; omega⟩ := by
  obtain ⟨r, d, m, hr, hd, hm, rfl⟩ := h
  subst hr hd hm
  rfl

theorem LayoutIso.Ad_eq (h : LayoutIso A B) (g : Vec ℝ A.rep) (i j : Fin A.dof) :
    A.Ad g i j = B.Ad (reidx h.sizes.1 g) ⟨i.val, by have := h.sizes.2.1; omega⟩ ⟨j.val, by have := h.sizes.2.1; omega⟩ := by
  obtain ⟨r, d, m, hr, hd, hm, rfl⟩ := h
  subst hr hd hm
  rfl

theorem LayoutIso.dr_exp_eq (h : LayoutIso A B) (a : Vec ℝ A.dof) (i j : Fin A.dof) :
    A.dr_exp a i j = B.dr_exp (reidx h.sizes.2.1 a) ⟨i.val, by have := h.sizes.2.1; omega⟩ ⟨j.val, by have := h.sizes.2.1; omega⟩ := by
  obtain ⟨r, d, m, hr, hd, hm, rfl⟩ := h
  subst hr hd hm
  rfl

theorem LayoutIso.d2r_exp_eq (h : LayoutIso A B) (a : Vec ℝ A.dof) (i : Fin A.dof) (c : Fin (A.dof * A.dof)) :
    A.d2r_exp a i c = B.d2r_exp (reidx h.sizes.2.1 a) ⟨i.val, by have := h.sizes.2.1; omega⟩
      ⟨c.val, by have := sq_eq h.sizes.2.1; omega⟩ := by
  obtain ⟨r, d, m, hr, hd, hm, rfl⟩ := h
  subst hr hd hm
  rfl

end meaning

end C06
