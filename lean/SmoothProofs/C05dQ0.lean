/-
  C05dQ0.lean — row 0 of the dQ table (18 entries): cubic expansions closed by `ring`.
-/
import SmoothProofs.C05dQBase

open Lin Scalar
namespace C05dQ

set_option maxRecDepth 8192 in
set_option maxHeartbeats 1000000 in
theorem expands_0_0 (A B C : ℝ) (a : Vec ℝ 6) : Expands A B C a 0 0 := by
  intro t; dq_simp; ring

set_option maxRecDepth 8192 in
set_option maxHeartbeats 1000000 in
theorem expands_0_1 (A B C : ℝ) (a : Vec ℝ 6) : Expands A B C a 0 1 := by
  intro t; dq_simp; ring

set_option maxRecDepth 8192 in
set_option maxHeartbeats 1000000 in
theorem expands_0_2 (A B C : ℝ) (a : Vec ℝ 6) : Expands A B C a 0 2 := by
  intro t; dq_simp; ring

set_option maxRecDepth 8192 in
set_option maxHeartbeats 1000000 in
theorem expands_0_3 (A B C : ℝ) (a : Vec ℝ 6) : Expands A B C a 0 3 := by
  intro t; dq_simp; ring

set_option maxRecDepth 8192 in
set_option maxHeartbeats 1000000 in
theorem expands_0_4 (A B C : ℝ) (a : Vec ℝ 6) : Expands A B C a 0 4 := by
  intro t; dq_simp; ring

set_option maxRecDepth 8192 in
set_option maxHeartbeats 1000000 in
theorem expands_0_5 (A B C : ℝ) (a : Vec ℝ 6) : Expands A B C a 0 5 := by
  intro t; dq_simp; ring

set_option maxRecDepth 8192 in
set_option maxHeartbeats 1000000 in
theorem expands_0_6 (A B C : ℝ) (a : Vec ℝ 6) : Expands A B C a 0 6 := by
  intro t; dq_simp; ring

set_option maxRecDepth 8192 in
set_option maxHeartbeats 1000000 in
theorem expands_0_7 (A B C : ℝ) (a : Vec ℝ 6) : Expands A B C a 0 7 := by
  intro t; dq_simp; ring

set_option maxRecDepth 8192 in
set_option maxHeartbeats 1000000 in
theorem expands_0_8 (A B C : ℝ) (a : Vec ℝ 6) : Expands A B C a 0 8 := by
  intro t; dq_simp; ring

set_option maxRecDepth 8192 in
set_option maxHeartbeats 1000000 in
theorem expands_0_9 (A B C : ℝ) (a : Vec ℝ 6) : Expands A B C a 0 9 := by
  intro t; dq_simp; ring

set_option maxRecDepth 8192 in
set_option maxHeartbeats 1000000 in
theorem expands_0_10 (A B C : ℝ) (a : Vec ℝ 6) : Expands A B C a 0 10 := by
  intro t; dq_simp; ring

set_option maxRecDepth 8192 in
set_option maxHeartbeats 1000000 in
theorem expands_0_11 (A B C : ℝ) (a : Vec ℝ 6) : Expands A B C a 0 11 := by
  intro t; dq_simp; ring

set_option maxRecDepth 8192 in
set_option maxHeartbeats 1000000 in
theorem expands_0_12 (A B C : ℝ) (a : Vec ℝ 6) : Expands A B C a 0 12 := by
  intro t; dq_simp; ring

set_option maxRecDepth 8192 in
set_option maxHeartbeats 1000000 in
theorem expands_0_13 (A B C : ℝ) (a : Vec ℝ 6) : Expands A B C a 0 13 := by
  intro t; dq_simp; ring

set_option maxRecDepth 8192 in
set_option maxHeartbeats 1000000 in
theorem expands_0_14 (A B C : ℝ) (a : Vec ℝ 6) : Expands A B C a 0 14 := by
  intro t; dq_simp; ring

set_option maxRecDepth 8192 in
set_option maxHeartbeats 1000000 in
theorem expands_0_15 (A B C : ℝ) (a : Vec ℝ 6) : Expands A B C a 0 15 := by
  intro t; dq_simp; ring

set_option maxRecDepth 8192 in
set_option maxHeartbeats 1000000 in
theorem expands_0_16 (A B C : ℝ) (a : Vec ℝ 6) : Expands A B C a 0 16 := by
  intro t; dq_simp; ring

set_option maxRecDepth 8192 in
set_option maxHeartbeats 1000000 in
theorem expands_0_17 (A B C : ℝ) (a : Vec ℝ 6) : Expands A B C a 0 17 := by
  intro t; dq_simp; ring

theorem expands_row0 (A B C : ℝ) (a : Vec ℝ 6) (c : Fin 18) : Expands A B C a 0 c := by
  fin_cases c
  · exact expands_0_0 A B C a
  · exact expands_0_1 A B C a
  · exact expands_0_2 A B C a
  · exact expands_0_3 A B C a
  · exact expands_0_4 A B C a
  · exact expands_0_5 A B C a
  · exact expands_0_6 A B C a
  · exact expands_0_7 A B C a
  · exact expands_0_8 A B C a
  · exact expands_0_9 A B C a
  · exact expands_0_10 A B C a
  · exact expands_0_11 A B C a
  · exact expands_0_12 A B C a
  · exact expands_0_13 A B C a
  · exact expands_0_14 A B C a
  · exact expands_0_15 A B C a
  · exact expands_0_16 A B C a
  · exact expands_0_17 A B C a

end C05dQ
