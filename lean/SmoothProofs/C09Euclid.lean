/-
  C09Euclid.lean — the hypotheses `StepOK` of the C09 theorems are exactly what C10 proves: for a
  non-linear least-squares problem on any space with a retraction (`plus x 0 = x`), ANY matrix handed
  in as Jacobian, any positive scaling and any step solver that satisfies the contract of
  `solve_trust_region` (normal equations with `λ = 1/Δ`), the `Problem` seen by the loop is `StepOK`.
-/
import SmoothProofs.C09Mono
import SmoothProofs.C10Lin

open Matrix

namespace C09Euclid

open Optim C10Lin C09Mono

/-- a least-squares problem as `minimize` sees it -/
structure NLS (X : Type) (m n : ℕ) where
  /-- residual function -/
  f : X → Fin m → ℝ
  /-- the matrix the differentiation mode returns (not assumed to be the true Jacobian) -/
  Jf : X → Matrix (Fin m) (Fin n) ℝ
  /-- diagonal scaling (`clamp(colwise_norm J)` in the code) -/
  dOf : X → Fin n → ℝ
  /-- `wrt_rplus` -/
  plus : X → (Fin n → ℝ) → X
  /-- `solve_trust_region(J, d, r, Δ).first` -/
  solve : X → ℝ → Fin n → ℝ

/-- the contract: positive scaling, `x ⊕ 0 = x`, and the solver returns a solution of the normal
    equations with `λ = 1/Δ` -/
structure NLS.Spec {X : Type} {m n : ℕ} (N : NLS X m n) : Prop where
  d_pos : ∀ x j, 0 < N.dOf x j
  plus_zero : ∀ x, N.plus x 0 = x
  solves : ∀ x Δ, 0 < Δ → NormalEq (N.Jf x) (N.dOf x) (N.f x) (1 / Δ) (N.solve x Δ)

noncomputable def NLS.problem {X : Type} {m n : ℕ} (N : NLS X m n) : Problem X ℝ where
  cost x := Real.sqrt (nsq (N.f x))
  step x Δ :=
    let dx := N.solve x Δ
    ⟨N.plus x dx, x, Real.sqrt (nsq (N.Jf x *ᵥ dx + N.f x)), Real.sqrt (nsq (scale (N.dOf x) dx)), n⟩

theorem stepOK {X : Type} {m n : ℕ} (N : NLS X m n) (h : N.Spec) : StepOK N.problem := by
  refine ⟨fun x => Real.sqrt_nonneg _, fun x Δ => Real.sqrt_nonneg _, ?_, ?_, fun x Δ => rfl⟩
  · intro x Δ hΔ
    exact Real.sqrt_le_sqrt (C10Lin.descent (one_div_pos.2 hΔ) (h.solves x Δ hΔ))
  · intro x Δ hΔ hle
    have hle' : nsq (N.f x) ≤ nsq (N.Jf x *ᵥ N.solve x Δ + N.f x) :=
      (Real.sqrt_le_sqrt_iff (nsq_nonneg _)).1 hle
    have h0 : N.solve x Δ = 0 :=
      step_zero_of_no_reduction (h.d_pos x) (one_div_pos.2 hΔ) (h.solves x Δ hΔ) hle'
    show N.plus x (N.solve x Δ) = x
    rw [h0, h.plus_zero]

/-- the exact solver: `dx = H⁻¹(−Jᵀ r)` -/
noncomputable def exactSolve {m n : ℕ} (J : Matrix (Fin m) (Fin n) ℝ) (d : Fin n → ℝ) (r : Fin m → ℝ) (Δ : ℝ) :
    Fin n → ℝ := (H J d (1 / Δ))⁻¹ *ᵥ (-(Jᵀ *ᵥ r))

theorem exactSolve_spec {m n : ℕ} (J : Matrix (Fin m) (Fin n) ℝ) {d : Fin n → ℝ} (r : Fin m → ℝ) {Δ : ℝ}
    (hd : ∀ j, 0 < d j) (hΔ : 0 < Δ) : NormalEq J d r (1 / Δ) (exactSolve J d r Δ) :=
  solution_exists hd (one_div_pos.2 hΔ) _

end C09Euclid
