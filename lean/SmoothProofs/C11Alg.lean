/-
  C11Alg.lean — the velocity / acceleration / jerk recursion of `cspline_eval_vs` in an abstract
  differential algebra (DESIGN §C11).

  `𝔸` is any (non-commutative) ring with a map `D` that is additive and satisfies Leibniz — think
  matrix-valued functions of `u` with `D = d/du`.  A factor of the product is a unit `E` (inverse
  `Ei`) with `D E = E * (c1 * V)`, `D V = 0` — think `E = exp(b(u) V)`, `c1 = b'(u)·1` — where the
  "scalars" `c1, c2, c3` are central elements with `D c1 = c2`, `D c2 = c3`.
  `stepA` is the loop body of the code (cumulative_spline_impl.hpp:40-63) with
  `Ad_{E⁻¹} X = Ei * X * E` and `ad_X Y = X*Y − Y*X`.
-/
import Mathlib.Algebra.Ring.Basic
import Mathlib.Algebra.Group.Basic
import Mathlib.Tactic.NoncommRing
import Mathlib.Tactic.Ring

namespace C11

/-- an additive map with the Leibniz rule on a ring -/
structure Deriv (𝔸 : Type*) [Ring 𝔸] where
  D : 𝔸 → 𝔸
  add : ∀ x y, D (x + y) = D x + D y
  mul : ∀ x y, D (x * y) = D x * y + x * D y

namespace Deriv
variable {𝔸 : Type*} [Ring 𝔸] (d : Deriv 𝔸)

theorem zero : d.D 0 = 0 := by
  have h := d.add 0 0
  simp only [add_zero] at h
  exact left_eq_add.mp h

theorem one : d.D 1 = 0 := by
  have h := d.mul 1 1
  simp only [mul_one, one_mul] at h
  exact left_eq_add.mp h

theorem neg (x : 𝔸) : d.D (-x) = - d.D x := by
  have h := d.add x (-x)
  rw [add_neg_cancel, d.zero] at h
  exact (neg_eq_of_add_eq_zero_right h.symm).symm

theorem sub (x y : 𝔸) : d.D (x - y) = d.D x - d.D y := by
  rw [sub_eq_add_neg, d.add, d.neg, ← sub_eq_add_neg]

theorem two : d.D 2 = 0 := by
  rw [← one_add_one_eq_two, d.add, d.one, add_zero]

/-- derivative of an inverse: `D(Ei) = −Ei * D(E) * Ei` -/
theorem inv {E Ei : 𝔸} (h1 : E * Ei = 1) (h2 : Ei * E = 1) : d.D Ei = - (Ei * d.D E * Ei) := by
  have h := d.mul Ei E
  rw [h2, d.one] at h
  -- 0 = D Ei * E + Ei * D E  ⇒  D Ei = −Ei * D E * Ei
  have h3 : d.D Ei * E = - (Ei * d.D E) := eq_neg_of_add_eq_zero_left h.symm
  calc d.D Ei = d.D Ei * (E * Ei) := by rw [h1, mul_one]
    _ = (d.D Ei * E) * Ei := by rw [mul_assoc]
    _ = - (Ei * d.D E * Ei) := by rw [h3]; noncomm_ring

end Deriv

/-- one factor `E = exp(b(u) V)` of the cumulative product, abstractly -/
structure Factor (𝔸 : Type*) [Ring 𝔸] (d : Deriv 𝔸) where
  E : 𝔸
  Ei : 𝔸
  V : 𝔸
  c1 : 𝔸
  c2 : 𝔸
  c3 : 𝔸
  E_Ei : E * Ei = 1
  Ei_E : Ei * E = 1
  DV : d.D V = 0
  DE : d.D E = E * (c1 * V)
  c1_central : ∀ x, c1 * x = x * c1
  c2_central : ∀ x, c2 * x = x * c2
  Dc1 : d.D c1 = c2
  Dc2 : d.D c2 = c3

/-- abstract loop state: the product so far, its inverse, body velocity, acceleration, jerk -/
structure AState (𝔸 : Type*) where
  g : 𝔸
  gi : 𝔸
  vel : 𝔸
  acc : 𝔸
  jer : 𝔸

variable {𝔸 : Type*} [Ring 𝔸] {d : Deriv 𝔸}

/-- the loop body of `cspline_eval_vs` as a formula in a ring (`Ad_{E⁻¹} X = Ei X E`,
    `ad_X Y = XY − YX`), lines 40-63 of cumulative_spline_impl.hpp -/
def stepFormula (E Ei V c1 c2 c3 : 𝔸) (s : AState 𝔸) : AState 𝔸 :=
  let vel' := Ei * s.vel * E + c1 * V
  let vbv := vel' * V - V * vel'
  let acc' := Ei * s.acc * E + c1 * vbv + c2 * V
  let jer' := Ei * s.jer * E + 2 * c1 * (acc' * V - V * acc')
                - c1 * c1 * (vbv * V - V * vbv) + c2 * vbv + c3 * V
  ⟨s.g * E, Ei * s.gi, vel', acc', jer'⟩

/-- the loop body of `cspline_eval_vs` in the algebra -/
def stepA (F : Factor 𝔸 d) (s : AState 𝔸) : AState 𝔸 :=
  stepFormula F.E F.Ei F.V F.c1 F.c2 F.c3 s

/-- the invariant: `gi` inverts `g`, and `vel = g⁻¹ D g`, `acc = D vel`, `jer = D acc` -/
structure Good (d : Deriv 𝔸) (s : AState 𝔸) : Prop where
  g_gi : s.g * s.gi = 1
  gi_g : s.gi * s.g = 1
  vel : s.vel = s.gi * d.D s.g
  acc : s.acc = d.D s.vel
  jer : s.jer = d.D s.acc

def initA : AState 𝔸 := ⟨1, 1, 0, 0, 0⟩

theorem good_init : Good d (initA : AState 𝔸) := by
  refine ⟨by simp [initA], by simp [initA], ?_, ?_, ?_⟩ <;> simp [initA, d.one, d.zero]

section step
variable (F : Factor 𝔸 d) (s : AState 𝔸)

theorem stepA_vel (h : Good d s) : (stepA F s).vel = (stepA F s).gi * d.D (stepA F s).g := by
  show F.Ei * s.vel * F.E + F.c1 * F.V = F.Ei * s.gi * d.D (s.g * F.E)
  rw [d.mul, F.DE, h.vel]
  have hc := F.c1_central
  calc F.Ei * (s.gi * d.D s.g) * F.E + F.c1 * F.V
      = F.Ei * s.gi * d.D s.g * F.E + (F.Ei * (s.gi * s.g) * F.E) * (F.c1 * F.V) := by
        rw [h.gi_g, mul_one, F.Ei_E, one_mul]; noncomm_ring
    _ = F.Ei * s.gi * (d.D s.g * F.E + s.g * (F.E * (F.c1 * F.V))) := by noncomm_ring

/-- `D (Ei X E) = Ei (D X) E + c1 ((Ei X E) V − V (Ei X E))` -/
theorem D_conj (X : 𝔸) :
    d.D (F.Ei * X * F.E) = F.Ei * d.D X * F.E
      + F.c1 * ((F.Ei * X * F.E) * F.V - F.V * (F.Ei * X * F.E)) := by
  have hEi : d.D F.Ei = - (F.c1 * F.V * F.Ei) := by
    rw [d.inv F.E_Ei F.Ei_E, F.DE]
    have : F.Ei * (F.E * (F.c1 * F.V)) * F.Ei = (F.Ei * F.E) * (F.c1 * F.V) * F.Ei := by noncomm_ring
    rw [this, F.Ei_E, one_mul]
  rw [d.mul, d.mul, hEi, F.DE]
  have hc := F.c1_central
  have e1 : F.Ei * X * (F.E * (F.c1 * F.V)) = F.c1 * (F.Ei * X * F.E * F.V) := by
    calc F.Ei * X * (F.E * (F.c1 * F.V)) = ((F.Ei * X * F.E) * F.c1) * F.V := by noncomm_ring
      _ = (F.c1 * (F.Ei * X * F.E)) * F.V := by rw [← hc]
      _ = F.c1 * (F.Ei * X * F.E * F.V) := by noncomm_ring
  rw [e1]; noncomm_ring

theorem stepA_acc (h : Good d s) : (stepA F s).acc = d.D (stepA F s).vel := by
  show F.Ei * s.acc * F.E + F.c1 * ((F.Ei * s.vel * F.E + F.c1 * F.V) * F.V - F.V * (F.Ei * s.vel * F.E + F.c1 * F.V))
        + F.c2 * F.V = d.D (F.Ei * s.vel * F.E + F.c1 * F.V)
  rw [d.add, D_conj, d.mul, F.DV, F.Dc1, ← h.acc]
  have hc := F.c1_central
  have e : F.c1 * F.V * F.V - F.V * (F.c1 * F.V) = 0 := by
    rw [show F.V * (F.c1 * F.V) = (F.V * F.c1) * F.V by noncomm_ring, ← hc]; noncomm_ring
  have : (F.Ei * s.vel * F.E + F.c1 * F.V) * F.V - F.V * (F.Ei * s.vel * F.E + F.c1 * F.V)
      = (F.Ei * s.vel * F.E) * F.V - F.V * (F.Ei * s.vel * F.E) + (F.c1 * F.V * F.V - F.V * (F.c1 * F.V)) := by
    noncomm_ring
  rw [this, e]; noncomm_ring

theorem stepA_jer (h : Good d s) : (stepA F s).jer = d.D (stepA F s).acc := by
  have hacc := stepA_acc F s h
  -- name the pieces
  obtain ⟨W, hW⟩ : ∃ W, W = (stepA F s).vel := ⟨_, rfl⟩
  obtain ⟨A, hA⟩ : ∃ A, A = F.Ei * s.acc * F.E := ⟨_, rfl⟩
  obtain ⟨B, hB⟩ : ∃ B, B = W * F.V - F.V * W := ⟨_, rfl⟩
  have hacc' : (stepA F s).acc = A + F.c1 * B + F.c2 * F.V := by
    rw [hA, hB, hW]; rfl
  have hDW : d.D W = A + F.c1 * B + F.c2 * F.V := by rw [hW, ← hacc, hacc']
  have hDB : d.D B = (A + F.c1 * B + F.c2 * F.V) * F.V - F.V * (A + F.c1 * B + F.c2 * F.V) := by
    have e := congrArg d.D hB
    rw [e, d.sub, d.mul, d.mul, F.DV, hDW]; noncomm_ring
  have hDA : d.D A = F.Ei * s.jer * F.E + F.c1 * (A * F.V - F.V * A) := by
    rw [hA, D_conj, ← h.jer]
  have hjer : (stepA F s).jer = F.Ei * s.jer * F.E
      + 2 * F.c1 * ((A + F.c1 * B + F.c2 * F.V) * F.V - F.V * (A + F.c1 * B + F.c2 * F.V))
      - F.c1 * F.c1 * (B * F.V - F.V * B) + F.c2 * B + F.c3 * F.V := by
    rw [hA, hB, hW]; rfl
  rw [hjer, hacc', d.add, d.add, d.mul, d.mul, hDA, hDB, F.Dc1, F.Dc2, F.DV]
  have k1 : F.V * (F.c1 * B) = F.c1 * (F.V * B) := by
    rw [← mul_assoc, ← F.c1_central, mul_assoc]
  have k2 : F.V * (F.c2 * F.V) = F.c2 * (F.V * F.V) := by
    rw [← mul_assoc, ← F.c2_central, mul_assoc]
  simp only [two_mul, mul_add, k1, k2]
  noncomm_ring

/-- one loop iteration preserves the invariant -/
theorem good_step (h : Good d s) : Good d (stepA F s) :=
  ⟨by show s.g * F.E * (F.Ei * s.gi) = 1
      calc s.g * F.E * (F.Ei * s.gi) = s.g * (F.E * F.Ei) * s.gi := by noncomm_ring
        _ = 1 := by rw [F.E_Ei, mul_one, h.g_gi],
   by show F.Ei * s.gi * (s.g * F.E) = 1
      calc F.Ei * s.gi * (s.g * F.E) = F.Ei * (s.gi * s.g) * F.E := by noncomm_ring
        _ = 1 := by rw [h.gi_g, mul_one, F.Ei_E],
   stepA_vel F s h, stepA_acc F s h, stepA_jer F s h⟩

end step

/-- the whole loop: after any list of factors the state produced by the code's recursion is
    `(∏ E, (∏ E)⁻¹, g⁻¹ D g, D(g⁻¹ D g), D²(g⁻¹ D g))` -/
theorem good_foldl (Fs : List (Factor 𝔸 d)) (s : AState 𝔸) (h : Good d s) :
    Good d (Fs.foldl (fun s F => stepA F s) s) := by
  induction Fs generalizing s with
  | nil => exact h
  | cons F Fs ih => exact ih _ (good_step F s h)

theorem foldl_g (Fs : List (Factor 𝔸 d)) (s : AState 𝔸) :
    (Fs.foldl (fun s F => stepA F s) s).g = s.g * (Fs.map (·.E)).prod := by
  induction Fs generalizing s with
  | nil => simp
  | cons F Fs ih => rw [List.foldl_cons, ih, List.map_cons, List.prod_cons]; simp [stepA, stepFormula, mul_assoc]

end C11
