/-
  C08Diff.lean — loop invariants of `Diff.drNumerical1` / `Diff.drNumerical2`: under the restore
  law of every argument slot the state is unchanged after every coordinate, and the write logs are
  the explicit lists `jacSpec` / `hessSpec`.
-/
import SmoothModel.Diff
import Mathlib.Data.List.Basic
import Mathlib.Data.List.Range
import Mathlib.Tactic.Ring

open Scalar Lin Diff

set_option linter.unusedSectionVars false
set_option linter.unusedSimpArgs false

namespace C08
variable {α : Type} [Scalar α] {X Y : Type}

/-- perturbing an argument along a coordinate and stepping back is the identity (on ℝ, for a group
    with `exp(δ) exp(−δ) = 1`, see `C08Slots.lean`) -/
def Restores (s : Slot α X) : Prop :=
  ∀ (y : X) (n j : Nat) (e : α), s.rplus (s.rplus y (unitVec n j e)) (unitVec n j (-e)) = y

/-! ### K = 1 -/

section k1
variable (base : α) (rm : Y → Y → List α) (f : X → Y) (fval : Y)

/-- the perturbed point of coordinate `j` of slot `s` -/
def pert (s : Slot α X) (x : X) (n j : Nat) : X := s.rplus x (unitVec n j (stepSize base s x j))

/-- column `j` of slot `s`: the forward difference quotient at `x` -/
def colSpec (s : Slot α X) (x : X) (n j : Nat) : List α :=
  (rm (f (pert base s x n j)) fval).map (fun v => v / stepSize base s x j)

theorem coordStep1_eq (s : Slot α X) (hs : Restores s) (n I0 : Nat) (x : X)
    (log : List (Nat × List α)) (tr : List X) (j : Nat) :
    coordStep1 base rm f fval s n I0 (x, log, tr) j =
      (x, log ++ [(I0 + j, colSpec base rm f fval s x n j)], tr ++ [pert base s x n j]) := by
  simp only [coordStep1, colSpec, pert, hs x n j]

theorem foldl_coordStep1 (s : Slot α X) (hs : Restores s) (n I0 : Nat) (x : X) (l : List Nat)
    (log : List (Nat × List α)) (tr : List X) :
    l.foldl (coordStep1 base rm f fval s n I0) (x, log, tr) =
      (x, log ++ l.map (fun j => (I0 + j, colSpec base rm f fval s x n j)),
        tr ++ l.map (fun j => pert base s x n j)) := by
  induction l generalizing log tr with
  | nil => simp
  | cons j l ih =>
    rw [List.foldl_cons, coordStep1_eq base rm f fval s hs, ih]
    simp [List.append_assoc]

/-- the block of columns of one argument, placed from column `I0` on -/
def slotBlock (x : X) (s : Slot α X) (I0 : Nat) : List (Nat × List α) :=
  (List.range (s.dof x)).map (fun j => (I0 + j, colSpec base rm f fval s x (s.dof x) j))

def slotTrace (x : X) (s : Slot α X) : List X :=
  (List.range (s.dof x)).map (fun j => pert base s x (s.dof x) j)

theorem slotStep1_eq (s : Slot α X) (hs : Restores s) (x : X) (I0 : Nat)
    (log : List (Nat × List α)) (tr : List X) :
    slotStep1 base rm f fval (x, I0, log, tr) s =
      (x, I0 + s.dof x, log ++ slotBlock base rm f fval x s I0, tr ++ slotTrace base x s) := by
  simp only [slotStep1, foldl_coordStep1 base rm f fval s hs, slotBlock, slotTrace]

/-- the whole Jacobian write log: argument after argument, `I0` advancing by the dofs -/
def jacSpec (x : X) : List (Slot α X) → Nat → List (Nat × List α)
  | [], _ => []
  | s :: ss, I0 => slotBlock base rm f fval x s I0 ++ jacSpec x ss (I0 + s.dof x)

def traceSpec (x : X) : List (Slot α X) → List X
  | [] => []
  | s :: ss => slotTrace base x s ++ traceSpec x ss

theorem foldl_slotStep1 (slots : List (Slot α X)) (hs : ∀ s ∈ slots, Restores s) (x : X) (I0 : Nat)
    (log : List (Nat × List α)) (tr : List X) :
    slots.foldl (slotStep1 base rm f fval) (x, I0, log, tr) =
      (x, I0 + (slots.map (fun s => s.dof x)).sum, log ++ jacSpec base rm f fval x slots I0,
        tr ++ traceSpec base x slots) := by
  induction slots generalizing I0 log tr with
  | nil => simp [jacSpec, traceSpec]
  | cons s ss ih =>
    rw [List.foldl_cons, slotStep1_eq base rm f fval s (hs s (by simp)),
      ih (fun t ht => hs t (by simp [ht]))]
    simp [jacSpec, traceSpec, List.append_assoc, Nat.add_assoc]

end k1

/-- **`dr_numerical<1>` under the restore law**: value, unchanged arguments, and the write log -/
theorem drNumerical1_spec (base : α) (rm : Y → Y → List α) (f : X → Y) (slots : List (Slot α X))
    (hs : ∀ s ∈ slots, Restores s) (x : X) :
    (drNumerical1 base rm f slots x).fval = f x ∧
    (drNumerical1 base rm f slots x).x = x ∧
    (drNumerical1 base rm f slots x).J = jacSpec base rm f (f x) x slots 0 ∧
    (drNumerical1 base rm f slots x).trace = x :: traceSpec base x slots := by
  refine ⟨rfl, ?_, ?_, ?_⟩ <;> simp [drNumerical1, foldl_slotStep1 base rm f (f x) slots hs]

/-! #### column placement -/

theorem jacSpec_positions (base : α) (rm : Y → Y → List α) (f : X → Y) (fval : Y) (x : X)
    (slots : List (Slot α X)) (I0 : Nat) :
    (jacSpec base rm f fval x slots I0).map Prod.fst =
      List.range' I0 (slots.map (fun s => s.dof x)).sum := by
  induction slots generalizing I0 with
  | nil => simp [jacSpec]
  | cons s ss ih =>
    simp only [jacSpec, List.map_append, ih, slotBlock, List.map_map, List.map_cons, List.sum_cons]
    have h1 : (List.range (s.dof x)).map
        (Prod.fst ∘ fun j => (I0 + j, colSpec base rm f fval s x (s.dof x) j)) =
        List.range' I0 (s.dof x) := by
      rw [List.range'_eq_map_range]; rfl
    rw [h1, List.range'_append_1]

/-- the columns belonging to one argument -/
def slotCols (base : α) (rm : Y → Y → List α) (f : X → Y) (fval : Y) (x : X) (s : Slot α X) :
    List (List α) :=
  (List.range (s.dof x)).map (fun j => colSpec base rm f fval s x (s.dof x) j)

theorem jacSpec_columns (base : α) (rm : Y → Y → List α) (f : X → Y) (fval : Y) (x : X)
    (slots : List (Slot α X)) (I0 : Nat) :
    (jacSpec base rm f fval x slots I0).map Prod.snd =
      slots.flatMap (slotCols base rm f fval x) := by
  induction slots generalizing I0 with
  | nil => simp [jacSpec]
  | cons s ss ih =>
    simp [jacSpec, ih, slotBlock, slotCols, List.map_map, Function.comp_def]

/-! ### K = 2 -/

section k2
variable (base : α) (rm : Y → Y → List α) (f : X → Y) (fval : Y) (nx : Nat)

/-- the second difference along `(k0 of s0, k1 of s1)` at `x` -/
def d2Spec (s0 s1 : Slot α X) (x : X) (n0 n1 k0 k1 : Nat) : List α :=
  let eps0 := stepSize base s0 x k0
  let e1 := stepSize base s1 x k1
  let xa := s1.rplus x (unitVec n1 k1 e1)
  let xb := s0.rplus xa (unitVec n0 k0 eps0)
  let d1 := rm (f (s0.rplus x (unitVec n0 k0 eps0))) fval
  (List.zipWith (fun a b => a - b) (rm (f xb) (f xa)) d1).map (fun v => v / eps0 / e1)

def hessEntries (s0 s1 : Slot α X) (x : X) (n0 n1 I0 I1 k0 k1 : Nat) : List ((Nat × Nat) × α) :=
  (d2Spec base rm f fval s0 s1 x n0 n1 k0 k1).mapIdx (fun j v => ((I0 + k0, j * nx + I1 + k1), v))

def innerTrace (s0 s1 : Slot α X) (x : X) (n0 n1 k0 k1 : Nat) : List X :=
  let xa := s1.rplus x (unitVec n1 k1 (stepSize base s1 x k1))
  [xa, s0.rplus xa (unitVec n0 k0 (stepSize base s0 x k0))]

theorem innerStep2_eq (s0 s1 : Slot α X) (h0 : Restores s0) (h1 : Restores s1)
    (n0 n1 I0 I1 k0 : Nat) (st : St2 α X) (k1 : Nat) :
    innerStep2 base rm f nx s0 s1 n0 n1 I0 I1 k0 (stepSize base s0 st.x k0)
        (rm (f (s0.rplus st.x (unitVec n0 k0 (stepSize base s0 st.x k0)))) fval) st k1 =
      { x := st.x, J := st.J,
        H := st.H ++ hessEntries base rm f fval nx s0 s1 st.x n0 n1 I0 I1 k0 k1,
        trace := st.trace ++ innerTrace base s0 s1 st.x n0 n1 k0 k1 } := by
  simp only [innerStep2, hessEntries, d2Spec, innerTrace, h0 _ n0 k0, h1 _ n1 k1]

theorem foldl_innerStep2 (s0 s1 : Slot α X) (h0 : Restores s0) (h1 : Restores s1)
    (n0 n1 I0 I1 k0 : Nat) (x : X) (l : List Nat) (st : St2 α X) (hx : st.x = x) :
    l.foldl (innerStep2 base rm f nx s0 s1 n0 n1 I0 I1 k0 (stepSize base s0 x k0)
        (rm (f (s0.rplus x (unitVec n0 k0 (stepSize base s0 x k0)))) fval)) st =
      { x := x, J := st.J,
        H := st.H ++ l.flatMap (fun k1 => hessEntries base rm f fval nx s0 s1 x n0 n1 I0 I1 k0 k1),
        trace := st.trace ++ l.flatMap (fun k1 => innerTrace base s0 s1 x n0 n1 k0 k1) } := by
  induction l generalizing st with
  | nil => subst hx; simp
  | cons k1 l ih =>
    have h := innerStep2_eq base rm f fval nx s0 s1 h0 h1 n0 n1 I0 I1 k0 st k1
    rw [hx] at h
    rw [List.foldl_cons, h, ih]
    · simp [List.append_assoc]
    · rfl

/-- everything the `k0` iteration appends -/
def midJ (s0 : Slot α X) (x : X) (n0 I0 k0 : Nat) : Nat × List α :=
  (I0 + k0, (rm (f (s0.rplus x (unitVec n0 k0 (stepSize base s0 x k0)))) fval).map
    (fun v => v / stepSize base s0 x k0))

def midH (s0 s1 : Slot α X) (x : X) (n0 n1 I0 I1 k0 : Nat) : List ((Nat × Nat) × α) :=
  (List.range n1).flatMap (fun k1 => hessEntries base rm f fval nx s0 s1 x n0 n1 I0 I1 k0 k1)

def midTrace (s0 s1 : Slot α X) (x : X) (n0 n1 k0 : Nat) : List X :=
  s0.rplus x (unitVec n0 k0 (stepSize base s0 x k0)) ::
    (List.range n1).flatMap (fun k1 => innerTrace base s0 s1 x n0 n1 k0 k1)

theorem midStep2_eq (s0 s1 : Slot α X) (h0 : Restores s0) (h1 : Restores s1)
    (n0 n1 I0 I1 : Nat) (st : St2 α X) (k0 : Nat) :
    midStep2 base rm f fval nx s0 s1 n0 n1 I0 I1 st k0 =
      { x := st.x, J := st.J ++ [midJ base rm f fval s0 st.x n0 I0 k0],
        H := st.H ++ midH base rm f fval nx s0 s1 st.x n0 n1 I0 I1 k0,
        trace := st.trace ++ midTrace base s0 s1 st.x n0 n1 k0 } := by
  simp only [midStep2]
  rw [h0 st.x n0 k0, foldl_innerStep2 base rm f fval nx s0 s1 h0 h1 n0 n1 I0 I1 k0 st.x]
  · simp [midJ, midH, midTrace, List.append_assoc]
  · rfl

theorem foldl_midStep2 (s0 s1 : Slot α X) (h0 : Restores s0) (h1 : Restores s1)
    (n0 n1 I0 I1 : Nat) (x : X) (l : List Nat) (st : St2 α X) (hx : st.x = x) :
    l.foldl (midStep2 base rm f fval nx s0 s1 n0 n1 I0 I1) st =
      { x := x, J := st.J ++ l.map (fun k0 => midJ base rm f fval s0 x n0 I0 k0),
        H := st.H ++ l.flatMap (fun k0 => midH base rm f fval nx s0 s1 x n0 n1 I0 I1 k0),
        trace := st.trace ++ l.flatMap (fun k0 => midTrace base s0 s1 x n0 n1 k0) } := by
  induction l generalizing st with
  | nil => subst hx; simp
  | cons k0 l ih =>
    have h := midStep2_eq base rm f fval nx s0 s1 h0 h1 n0 n1 I0 I1 st k0
    rw [hx] at h
    rw [List.foldl_cons, h, ih]
    · simp [List.append_assoc]
    · rfl

/-- the `(i0, i1)` block -/
def pairJ (s0 : Slot α X) (x : X) (I0 : Nat) : List (Nat × List α) :=
  (List.range (s0.dof x)).map (fun k0 => midJ base rm f fval s0 x (s0.dof x) I0 k0)

def pairH (s0 s1 : Slot α X) (x : X) (I0 I1 : Nat) : List ((Nat × Nat) × α) :=
  (List.range (s0.dof x)).flatMap
    (fun k0 => midH base rm f fval nx s0 s1 x (s0.dof x) (s1.dof x) I0 I1 k0)

def pairTrace (s0 s1 : Slot α X) (x : X) : List X :=
  (List.range (s0.dof x)).flatMap (fun k0 => midTrace base s0 s1 x (s0.dof x) (s1.dof x) k0)

theorem slot1Step2_eq (s0 s1 : Slot α X) (h0 : Restores s0) (h1 : Restores s1) (I0 : Nat)
    (st : St2 α X) (I1 : Nat) :
    slot1Step2 base rm f fval nx s0 (s0.dof st.x) I0 (st, I1) s1 =
      ({ x := st.x, J := st.J ++ pairJ base rm f fval s0 st.x I0,
         H := st.H ++ pairH base rm f fval nx s0 s1 st.x I0 I1,
         trace := st.trace ++ pairTrace base s0 s1 st.x }, I1 + s1.dof st.x) := by
  simp only [slot1Step2]
  rw [foldl_midStep2 base rm f fval nx s0 s1 h0 h1 _ _ I0 I1 st.x _ st rfl]
  simp [pairJ, pairH, pairTrace]

/-- the row of blocks of one `i0` -/
def rowJ (s0 : Slot α X) (x : X) (I0 : Nat) : List (Slot α X) → List (Nat × List α)
  | [] => []
  | _ :: ss => pairJ base rm f fval s0 x I0 ++ rowJ s0 x I0 ss

def rowH (s0 : Slot α X) (x : X) (I0 : Nat) : List (Slot α X) → Nat → List ((Nat × Nat) × α)
  | [], _ => []
  | s1 :: ss, I1 => pairH base rm f fval nx s0 s1 x I0 I1 ++ rowH s0 x I0 ss (I1 + s1.dof x)

def rowTrace (s0 : Slot α X) (x : X) : List (Slot α X) → List X
  | [] => []
  | s1 :: ss => pairTrace base s0 s1 x ++ rowTrace s0 x ss

theorem foldl_slot1Step2 (s0 : Slot α X) (h0 : Restores s0) (slots : List (Slot α X))
    (hs : ∀ s ∈ slots, Restores s) (I0 : Nat) (x : X) (st : St2 α X) (hx : st.x = x) (I1 : Nat) :
    slots.foldl (slot1Step2 base rm f fval nx s0 (s0.dof x) I0) (st, I1) =
      ({ x := x, J := st.J ++ rowJ base rm f fval s0 x I0 slots,
         H := st.H ++ rowH base rm f fval nx s0 x I0 slots I1,
         trace := st.trace ++ rowTrace base s0 x slots },
       I1 + (slots.map (fun s => s.dof x)).sum) := by
  induction slots generalizing st I1 with
  | nil => subst hx; simp [rowJ, rowH, rowTrace]
  | cons s1 ss ih =>
    have h := slot1Step2_eq base rm f fval nx s0 s1 h0 (hs s1 (by simp)) I0 st I1
    rw [hx] at h
    rw [List.foldl_cons, h, ih (fun t ht => hs t (by simp [ht]))]
    · simp [rowJ, rowH, rowTrace, List.append_assoc, Nat.add_assoc]
    · rfl

theorem slot0Step2_eq (slots : List (Slot α X)) (hs : ∀ s ∈ slots, Restores s) (s0 : Slot α X)
    (h0 : Restores s0) (st : St2 α X) (I0 : Nat) :
    slot0Step2 base rm f fval nx slots (st, I0) s0 =
      ({ x := st.x, J := st.J ++ rowJ base rm f fval s0 st.x I0 slots,
         H := st.H ++ rowH base rm f fval nx s0 st.x I0 slots 0,
         trace := st.trace ++ rowTrace base s0 st.x slots }, I0 + s0.dof st.x) := by
  simp only [slot0Step2]
  rw [foldl_slot1Step2 base rm f fval nx s0 h0 slots hs I0 st.x st rfl 0]

/-- the complete logs: `all` is the full argument list (inner loop), the recursion is the outer -/
def hessSpec (all : List (Slot α X)) (x : X) : List (Slot α X) → Nat → List ((Nat × Nat) × α)
  | [], _ => []
  | s0 :: ss, I0 => rowH base rm f fval nx s0 x I0 all 0 ++ hessSpec all x ss (I0 + s0.dof x)

def jac2Spec (all : List (Slot α X)) (x : X) : List (Slot α X) → Nat → List (Nat × List α)
  | [], _ => []
  | s0 :: ss, I0 => rowJ base rm f fval s0 x I0 all ++ jac2Spec all x ss (I0 + s0.dof x)

def trace2Spec (all : List (Slot α X)) (x : X) : List (Slot α X) → List X
  | [] => []
  | s0 :: ss => rowTrace base s0 x all ++ trace2Spec all x ss

theorem foldl_slot0Step2 (all : List (Slot α X)) (hall : ∀ s ∈ all, Restores s)
    (slots : List (Slot α X)) (hs : ∀ s ∈ slots, Restores s) (x : X) (st : St2 α X) (hx : st.x = x)
    (I0 : Nat) :
    slots.foldl (slot0Step2 base rm f fval nx all) (st, I0) =
      ({ x := x, J := st.J ++ jac2Spec base rm f fval all x slots I0,
         H := st.H ++ hessSpec base rm f fval nx all x slots I0,
         trace := st.trace ++ trace2Spec base all x slots },
       I0 + (slots.map (fun s => s.dof x)).sum) := by
  induction slots generalizing st I0 with
  | nil => subst hx; simp [jac2Spec, hessSpec, trace2Spec]
  | cons s0 ss ih =>
    have h := slot0Step2_eq base rm f fval nx all hall s0 (hs s0 (by simp)) st I0
    rw [hx] at h
    rw [List.foldl_cons, h, ih (fun t ht => hs t (by simp [ht]))]
    · simp [jac2Spec, hessSpec, trace2Spec, List.append_assoc, Nat.add_assoc]
    · rfl

end k2

/-- total dof as the code computes it before the loops -/
def totalDof (slots : List (Slot α X)) (x : X) : Nat := (slots.map (fun s => s.dof x)).foldl (· + ·) 0

/-- **`dr_numerical<2>` under the restore law** -/
theorem drNumerical2_spec (base : α) (rm : Y → Y → List α) (f : X → Y) (slots : List (Slot α X))
    (hs : ∀ s ∈ slots, Restores s) (x : X) :
    (drNumerical2 base rm f slots x).fval = f x ∧
    (drNumerical2 base rm f slots x).x = x ∧
    (drNumerical2 base rm f slots x).H =
      hessSpec base rm f (f x) (totalDof slots x) slots x slots 0 ∧
    (drNumerical2 base rm f slots x).J = jac2Spec base rm f (f x) slots x slots 0 ∧
    (drNumerical2 base rm f slots x).trace = x :: trace2Spec base slots x slots := by
  have h := foldl_slot0Step2 base rm f (f x) (totalDof slots x) slots hs slots hs x ⟨x, [], [], [x]⟩ rfl 0
  simp only [totalDof] at h
  refine ⟨rfl, ?_, ?_, ?_, ?_⟩ <;> simp [drNumerical2, h, totalDof]

end C08
