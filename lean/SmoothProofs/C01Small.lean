/-
  C01Small.lean — C01 for the groups without a quaternion: SO2, C1, Tn n, SE2.
  No representation constraint is needed for SO2, Tn, SE2 composition (polynomial identities);
  `C1.inverse` divides by `a² + b²`, which must be non-zero.
-/
import SmoothProofs.C01Group

open Lin Scalar

/-! ### SO2 -/
namespace SO2

/-- the representation constraint of SO2: `qz² + qw² = 1` -/
def Unit (g : Vec ℝ 2) : Prop := g 0 ^ 2 + g 1 ^ 2 = 1

theorem matrix_composition (a b : Vec ℝ 2) :
    SO2.matrix (SO2.composition a b) = mmul (SO2.matrix a) (SO2.matrix b) := by
  ext i j
  fin_cases i <;> fin_cases j <;>
    simp [SO2.matrix, SO2.composition, mmul, mat2, mk2, vsum, Mat.of, Vec.of] <;> ring

theorem matrix_identity : SO2.matrix (SO2.identity : Vec ℝ 2) = ident 2 := by
  ext i j
  fin_cases i <;> fin_cases j <;>
    simp [SO2.matrix, SO2.identity, ident, mat2, mk2, Mat.of, Vec.of]

theorem matrix_inverse_left (g : Vec ℝ 2) (h : Unit g) :
    mmul (SO2.matrix (SO2.inverse g)) (SO2.matrix g) = ident 2 := by
  ext i j
  unfold Unit at h
  fin_cases i <;> fin_cases j <;>
    simp [SO2.matrix, SO2.inverse, mmul, ident, mat2, mk2, vsum, Mat.of, Vec.of] <;>
    first | linear_combination h | ring

theorem matrix_inverse_right (g : Vec ℝ 2) (h : Unit g) :
    mmul (SO2.matrix g) (SO2.matrix (SO2.inverse g)) = ident 2 := by
  ext i j
  unfold Unit at h
  fin_cases i <;> fin_cases j <;>
    simp [SO2.matrix, SO2.inverse, mmul, ident, mat2, mk2, vsum, Mat.of, Vec.of] <;>
    first | linear_combination h | ring

theorem unit_identity : Unit (SO2.identity : Vec ℝ 2) := by
  simp [Unit, SO2.identity, mk2, Vec.of]

theorem unit_composition (a b : Vec ℝ 2) (ha : Unit a) (hb : Unit b) : Unit (SO2.composition a b) := by
  unfold Unit at *
  simp only [SO2.composition, mk2, Vec.of]
  show (a 0 * b 1 + a 1 * b 0) ^ 2 + (a 1 * b 1 - a 0 * b 0) ^ 2 = 1
  linear_combination (b 0 ^ 2 + b 1 ^ 2) * ha + hb

theorem unit_inverse (g : Vec ℝ 2) (h : Unit g) : Unit (SO2.inverse g) := by
  unfold Unit at *
  simp only [SO2.inverse, mk2, Vec.of]
  show (-(g 0)) ^ 2 + g 1 ^ 2 = 1
  linear_combination h

/-- `operator*` on points is the matrix action (definitional in the code and the model; here
    spelled out on entries) -/
theorem act_eq (g v : Vec ℝ 2) :
    SO2.act g v = mk2 (g 1 * v 0 - g 0 * v 1) (g 0 * v 0 + g 1 * v 1) := by
  ext i
  fin_cases i <;> (simp [SO2.act, SO2.matrix, mulVec, mat2, mk2, vsum, Mat.of, Vec.of]; try ring)

theorem isMatrixGroup : IsMatrixGroup (SO2.model : LieModel ℝ) Unit where
  valid_identity := unit_identity
  valid_composition := unit_composition
  valid_inverse := unit_inverse
  matrix_identity := matrix_identity
  matrix_composition := fun a b _ _ => matrix_composition a b
  matrix_inverse_left := matrix_inverse_left
  matrix_inverse_right := matrix_inverse_right

end SO2

/-! ### C1 -/
namespace C1

/-- the representation constraint of C1: a non-zero complex number -/
def Valid (g : Vec ℝ 2) : Prop := g 0 ^ 2 + g 1 ^ 2 ≠ 0

theorem matrix_composition (a b : Vec ℝ 2) :
    C1.matrix (C1.composition a b) = mmul (C1.matrix a) (C1.matrix b) := by
  ext i j
  fin_cases i <;> fin_cases j <;>
    simp [C1.matrix, C1.composition, mmul, mat2, mk2, vsum, Mat.of, Vec.of] <;> ring

theorem matrix_identity : C1.matrix (C1.identity : Vec ℝ 2) = ident 2 := by
  ext i j
  fin_cases i <;> fin_cases j <;>
    simp [C1.matrix, C1.identity, ident, mat2, mk2, Mat.of, Vec.of]

theorem matrix_inverse_left (g : Vec ℝ 2) (h : Valid g) :
    mmul (C1.matrix (C1.inverse g)) (C1.matrix g) = ident 2 := by
  ext i j
  unfold Valid at h
  have h' : g 1 ^ 2 + g 0 ^ 2 ≠ 0 := by rwa [add_comm]
  fin_cases i <;> fin_cases j <;>
    simp [C1.matrix, C1.inverse, mmul, ident, mat2, mk2, vsum, Mat.of, Vec.of] <;>
    field_simp <;> ring

theorem matrix_inverse_right (g : Vec ℝ 2) (h : Valid g) :
    mmul (C1.matrix g) (C1.matrix (C1.inverse g)) = ident 2 := by
  ext i j
  unfold Valid at h
  have h' : g 1 ^ 2 + g 0 ^ 2 ≠ 0 := by rwa [add_comm]
  fin_cases i <;> fin_cases j <;>
    simp [C1.matrix, C1.inverse, mmul, ident, mat2, mk2, vsum, Mat.of, Vec.of] <;>
    field_simp <;> ring

theorem valid_identity : Valid (C1.identity : Vec ℝ 2) := by
  simp [Valid, C1.identity, mk2, Vec.of]

/-- the squared modulus is multiplicative -/
theorem sqnorm_composition (a b : Vec ℝ 2) :
    (C1.composition a b) 0 ^ 2 + (C1.composition a b) 1 ^ 2
      = (a 0 ^ 2 + a 1 ^ 2) * (b 0 ^ 2 + b 1 ^ 2) := by
  simp only [C1.composition, mk2, Vec.of]
  show (a 0 * b 1 + a 1 * b 0) ^ 2 + (a 1 * b 1 - a 0 * b 0) ^ 2 = _
  ring

theorem valid_composition (a b : Vec ℝ 2) (ha : Valid a) (hb : Valid b) : Valid (C1.composition a b) := by
  unfold Valid at *
  rw [sqnorm_composition]
  exact mul_ne_zero ha hb

theorem valid_inverse (g : Vec ℝ 2) (h : Valid g) : Valid (C1.inverse g) := by
  unfold Valid at *
  have h' : g 0 * g 0 + g 1 * g 1 ≠ 0 := by
    intro h0; apply h; rw [← h0]; ring
  simp only [C1.inverse, mk2, Vec.of]
  show (-(g 0) / (g 0 * g 0 + g 1 * g 1)) ^ 2 + (g 1 / (g 0 * g 0 + g 1 * g 1)) ^ 2 ≠ 0
  have : (-(g 0) / (g 0 * g 0 + g 1 * g 1)) ^ 2 + (g 1 / (g 0 * g 0 + g 1 * g 1)) ^ 2
      = 1 / (g 0 * g 0 + g 1 * g 1) := by
    field_simp
  rw [this]
  exact one_div_ne_zero h'

theorem act_eq (g v : Vec ℝ 2) :
    C1.act g v = mk2 (g 1 * v 0 - g 0 * v 1) (g 0 * v 0 + g 1 * v 1) := by
  ext i
  fin_cases i <;> (simp [C1.act, C1.matrix, mulVec, mat2, mk2, vsum, Mat.of, Vec.of]; try ring)

theorem isMatrixGroup : IsMatrixGroup (C1.model : LieModel ℝ) Valid where
  valid_identity := valid_identity
  valid_composition := valid_composition
  valid_inverse := valid_inverse
  matrix_identity := matrix_identity
  matrix_composition := fun a b _ _ => matrix_composition a b
  matrix_inverse_left := matrix_inverse_left
  matrix_inverse_right := matrix_inverse_right

end C1

/-! ### Tn n (all n) -/
namespace Tn

theorem matrix_cc {n : Nat} (g : Vec ℝ n) (i j : Fin n) :
    (Tn.matrix g) i.castSucc j.castSucc = if i = j then 1 else 0 := by
  simp [Tn.matrix, Fin.ext_iff]

theorem matrix_cl {n : Nat} (g : Vec ℝ n) (i : Fin n) :
    (Tn.matrix g) i.castSucc (Fin.last n) = g i := by
  simp [Tn.matrix]

theorem matrix_lc {n : Nat} (g : Vec ℝ n) (j : Fin n) :
    (Tn.matrix g) (Fin.last n) j.castSucc = 0 := by
  have : (j : Nat) ≠ n := Nat.ne_of_lt j.isLt
  simp [Tn.matrix, this.symm]

theorem matrix_ll {n : Nat} (g : Vec ℝ n) :
    (Tn.matrix g) (Fin.last n) (Fin.last n) = 1 := by
  simp [Tn.matrix]

theorem matrix_composition {n : Nat} (a b : Vec ℝ n) :
    Tn.matrix (Tn.composition a b) = mmul (Tn.matrix a) (Tn.matrix b) := by
  ext i j
  rw [mmul_apply, Fin.sum_univ_castSucc]
  induction i using Fin.lastCases with
  | last =>
    induction j using Fin.lastCases with
    | last => simp [matrix_lc, matrix_ll]
    | cast j => simp [matrix_lc, matrix_ll]
  | cast i =>
    induction j using Fin.lastCases with
    | last => simp [matrix_cc, matrix_cl, matrix_ll, Tn.composition, vadd, add_comm]
    | cast j => simp [matrix_cc, matrix_cl, matrix_lc]

theorem matrix_identity (n : Nat) : Tn.matrix (Tn.identity n : Vec ℝ n) = ident (n + 1) := by
  ext i j
  rw [ident_apply]
  induction i using Fin.lastCases with
  | last =>
    induction j using Fin.lastCases with
    | last => simp [matrix_ll]
    | cast j =>
      have : Fin.last n ≠ j.castSucc := (Fin.castSucc_lt_last j).ne'
      simp [matrix_lc, this]
  | cast i =>
    induction j using Fin.lastCases with
    | last =>
      have : i.castSucc ≠ Fin.last n := (Fin.castSucc_lt_last i).ne
      simp [matrix_cl, this, Tn.identity, vzero]
    | cast j => simp [matrix_cc]

theorem composition_inverse_left {n : Nat} (g : Vec ℝ n) :
    Tn.composition (Tn.inverse g) g = Tn.identity n := by
  ext i; simp [Tn.composition, Tn.inverse, Tn.identity, vadd, vneg, vzero]

theorem composition_inverse_right {n : Nat} (g : Vec ℝ n) :
    Tn.composition g (Tn.inverse g) = Tn.identity n := by
  ext i; simp [Tn.composition, Tn.inverse, Tn.identity, vadd, vneg, vzero]

theorem matrix_inverse_left {n : Nat} (g : Vec ℝ n) :
    mmul (Tn.matrix (Tn.inverse g)) (Tn.matrix g) = ident (n + 1) := by
  rw [← matrix_composition, composition_inverse_left, matrix_identity]

theorem matrix_inverse_right {n : Nat} (g : Vec ℝ n) :
    mmul (Tn.matrix g) (Tn.matrix (Tn.inverse g)) = ident (n + 1) := by
  rw [← matrix_composition, composition_inverse_right, matrix_identity]

theorem isMatrixGroup (n : Nat) : IsMatrixGroup (Tn.model n : LieModel ℝ) (fun _ => True) where
  valid_identity := trivial
  valid_composition := fun _ _ _ _ => trivial
  valid_inverse := fun _ _ => trivial
  matrix_identity := matrix_identity n
  matrix_composition := fun a b _ _ => matrix_composition a b
  matrix_inverse_left := fun a _ => matrix_inverse_left a
  matrix_inverse_right := fun a _ => matrix_inverse_right a

end Tn

/-! ### SE2 -/
namespace SE2

/-- the representation constraint of SE2: unit rotation part `qz² + qw² = 1` -/
def Unit (g : Vec ℝ 4) : Prop := g 2 ^ 2 + g 3 ^ 2 = 1

theorem matrix_composition (a b : Vec ℝ 4) :
    SE2.matrix (SE2.composition a b) = mmul (SE2.matrix a) (SE2.matrix b) := by
  ext i j
  fin_cases i <;> fin_cases j <;>
    simp [SE2.matrix, SE2.composition, SE2.so2, SE2.r2, SO2.matrix, SO2.composition, mmul, mulVec,
      vadd, mat2, mat3, mk2, mk4, vsum, Mat.of, Vec.of] <;> ring

theorem matrix_identity : SE2.matrix (SE2.identity : Vec ℝ 4) = ident 3 := by
  ext i j
  fin_cases i <;> fin_cases j <;>
    simp [SE2.matrix, SE2.identity, SE2.so2, SO2.matrix, ident, mat2, mat3, mk2, mk4, Mat.of, Vec.of]

theorem matrix_inverse_left (g : Vec ℝ 4) (h : Unit g) :
    mmul (SE2.matrix (SE2.inverse g)) (SE2.matrix g) = ident 3 := by
  ext i j
  unfold Unit at h
  fin_cases i <;> fin_cases j <;>
    simp [SE2.matrix, SE2.inverse, SE2.so2, SE2.r2, SO2.matrix, SO2.inverse, mmul, mulVec, mneg, ident,
      mat2, mat3, mk2, mk4, vsum, Mat.of, Vec.of] <;>
    first | linear_combination h | ring

theorem matrix_inverse_right (g : Vec ℝ 4) (h : Unit g) :
    mmul (SE2.matrix g) (SE2.matrix (SE2.inverse g)) = ident 3 := by
  ext i j
  unfold Unit at h
  fin_cases i <;> fin_cases j <;>
    simp [SE2.matrix, SE2.inverse, SE2.so2, SE2.r2, SO2.matrix, SO2.inverse, mmul, mulVec, mneg, ident,
      mat2, mat3, mk2, mk4, vsum, Mat.of, Vec.of] <;>
    first | linear_combination h | linear_combination (g 0) * h | linear_combination (g 1) * h
          | linear_combination (-(g 0)) * h | linear_combination (-(g 1)) * h | ring

theorem unit_identity : Unit (SE2.identity : Vec ℝ 4) := by
  simp [Unit, SE2.identity, mk4, Vec.of]

theorem unit_composition (a b : Vec ℝ 4) (ha : Unit a) (hb : Unit b) : Unit (SE2.composition a b) := by
  unfold Unit at *
  simp only [SE2.composition, SE2.so2, SO2.composition, mk2, mk4, Vec.of]
  show (a 2 * b 3 + a 3 * b 2) ^ 2 + (a 3 * b 3 - a 2 * b 2) ^ 2 = 1
  linear_combination (b 2 ^ 2 + b 3 ^ 2) * ha + hb

theorem unit_inverse (g : Vec ℝ 4) (h : Unit g) : Unit (SE2.inverse g) := by
  unfold Unit at *
  simp only [SE2.inverse, SE2.so2, SO2.inverse, mk2, mk4, Vec.of]
  show (-(g 2)) ^ 2 + g 3 ^ 2 = 1
  linear_combination h

/-- homogeneous embedding of a point of the plane -/
def embed (v : Vec ℝ 2) : Vec ℝ 3 := mk3 (v 0) (v 1) 1

/-- `g * v` is the point part of `matrix g · (v, 1)`, and the last row gives 1 -/
theorem act_eq_matrix (g : Vec ℝ 4) (v : Vec ℝ 2) :
    mulVec (SE2.matrix g) (embed v) = embed (SE2.act g v) := by
  ext i
  fin_cases i <;>
    simp [SE2.matrix, SE2.act, SO2.act, embed, SE2.so2, SE2.r2, SO2.matrix, mulVec, vadd,
      mat2, mat3, mk2, mk3, vsum, Mat.of, Vec.of]

theorem isMatrixGroup : IsMatrixGroup (SE2.model : LieModel ℝ) Unit where
  valid_identity := unit_identity
  valid_composition := unit_composition
  valid_inverse := unit_inverse
  matrix_identity := matrix_identity
  matrix_composition := fun a b _ _ => matrix_composition a b
  matrix_inverse_left := matrix_inverse_left
  matrix_inverse_right := matrix_inverse_right

end SE2
