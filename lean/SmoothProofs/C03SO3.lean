/-
  C03SO3.lean — SO3 facts used by C03 (local copies; the C01 builder proves similar lemmas in its
  own files, which this file deliberately does not import).

  * `UnitQ q` — unit quaternion.
  * `rotH` homogeneous rotation matrix, multiplicative for all quaternions; `matrix = rotH` on
    unit quaternions; the canonical sign flip is invisible through `matrix`.
  * `matrix_hat` — `R·hat a = hat (R a)·R` for `R = matrix q`, `q` unit (the SO3 instance of `Ad_def`,
    and the only fact about `R` the semidirect products need besides orthogonality).
-/
import SmoothProofs.C03Lin

open Lin Scalar
set_option linter.unusedSimpArgs false
set_option linter.unusedTactic false
set_option linter.unreachableTactic false

namespace C03

/-- the representation constraint of SO3: unit quaternion (coefficients x y z w) -/
def UnitQ (q : Vec ℝ 4) : Prop := q 0 * q 0 + q 1 * q 1 + q 2 * q 2 + q 3 * q 3 = 1

/-- homogeneous degree-2 rotation matrix of a quaternion (equals `‖q‖²·R(q/‖q‖)`) -/
def rotH (q : Vec ℝ 4) : Mat ℝ 3 3 :=
  mat3 (q 3 * q 3 + q 0 * q 0 - q 1 * q 1 - q 2 * q 2) (2 * (q 0 * q 1 - q 3 * q 2)) (2 * (q 0 * q 2 + q 3 * q 1))
       (2 * (q 0 * q 1 + q 3 * q 2)) (q 3 * q 3 - q 0 * q 0 + q 1 * q 1 - q 2 * q 2) (2 * (q 1 * q 2 - q 3 * q 0))
       (2 * (q 0 * q 2 - q 3 * q 1)) (2 * (q 1 * q 2 + q 3 * q 0)) (q 3 * q 3 - q 0 * q 0 - q 1 * q 1 + q 2 * q 2)

theorem rotH_qmul (a b : Vec ℝ 4) : rotH (SO3.qmul a b) = mmul (rotH a) (rotH b) := by
  ext i j
  fin_cases i <;> fin_cases j <;> simp [rotH, SO3.qmul, mmul, vsum] <;> ring

theorem matrix_eq_rotH (q : Vec ℝ 4) (h : UnitQ q) : SO3.matrix q = rotH q := by
  unfold UnitQ at h
  ext i j
  fin_cases i <;> fin_cases j <;> simp [SO3.matrix, rotH] <;>
    first | ring1 | linear_combination h | linear_combination (-1 : ℝ) * h

theorem unitQ_qmul (a b : Vec ℝ 4) (ha : UnitQ a) (hb : UnitQ b) : UnitQ (SO3.qmul a b) := by
  unfold UnitQ at *
  simp [SO3.qmul]
  linear_combination (b 0 * b 0 + b 1 * b 1 + b 2 * b 2 + b 3 * b 3) * ha + hb

theorem canon_eq_or (q : Vec ℝ 4) : SO3.canon q = q ∨ SO3.canon q = vneg q := by
  unfold SO3.canon
  split
  · right; ext i; simp [vneg]
  · left; rfl

theorem matrix_vneg (q : Vec ℝ 4) : SO3.matrix (vneg q) = SO3.matrix q := by
  ext i j
  fin_cases i <;> fin_cases j <;> simp [SO3.matrix, vneg]

theorem matrix_canon (q : Vec ℝ 4) : SO3.matrix (SO3.canon q) = SO3.matrix q := by
  rcases canon_eq_or q with h | h <;> rw [h]
  exact matrix_vneg q

theorem unitQ_vneg (q : Vec ℝ 4) (h : UnitQ q) : UnitQ (vneg q) := by
  unfold UnitQ at *; simpa [vneg] using h

theorem unitQ_canon (q : Vec ℝ 4) (h : UnitQ q) : UnitQ (SO3.canon q) := by
  rcases canon_eq_or q with h' | h' <;> rw [h']
  · exact h
  · exact unitQ_vneg q h

/-- SO3: `matrix (g₁ ∘ g₂) = matrix g₁ · matrix g₂` on unit quaternions (this is also
    `Ad (g₁ ∘ g₂) = Ad g₁ · Ad g₂`, since `Ad = matrix`). -/
theorem so3_matrix_composition (a b : Vec ℝ 4) (ha : UnitQ a) (hb : UnitQ b) :
    SO3.matrix (SO3.composition a b) = mmul (SO3.matrix a) (SO3.matrix b) := by
  unfold SO3.composition
  rw [matrix_canon, matrix_eq_rotH _ (unitQ_qmul a b ha hb), matrix_eq_rotH a ha,
    matrix_eq_rotH b hb, rotH_qmul]

theorem so3_unit_composition (a b : Vec ℝ 4) (ha : UnitQ a) (hb : UnitQ b) :
    UnitQ (SO3.composition a b) := unitQ_canon _ (unitQ_qmul a b ha hb)

/-- `R·Rᵀ = 1` for the matrix of a unit quaternion -/
theorem so3_matrix_mul_transpose (q : Vec ℝ 4) (h : UnitQ q) :
    mmul (SO3.matrix q) (transpose (SO3.matrix q)) = ident 3 := by
  unfold UnitQ at h
  ext i j
  fin_cases i <;> fin_cases j <;> simp [SO3.matrix, mmul, transpose, ident, vsum] <;> grind

/-- `R·hat a = hat (R a)·R` for the matrix of a unit quaternion -/
theorem so3_matrix_hat (q : Vec ℝ 4) (h : UnitQ q) (a : Vec ℝ 3) :
    mmul (SO3.matrix q) (SO3.hat a) = mmul (SO3.hat (mulVec (SO3.matrix q) a)) (SO3.matrix q) := by
  unfold UnitQ at h
  ext i j
  fin_cases i <;> fin_cases j <;> simp [SO3.matrix, SO3.hat, mmul, mulVec, vsum] <;> grind

end C03
