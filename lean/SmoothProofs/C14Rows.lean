/-
  C14Rows.lean — the constraint rows of `fit_spline_1d` (SmoothModel/Fit.lean) over ℝ:
  which rows exist, in which order, and what `row · x = rhs` says for each of them, for EVERY
  specification, degree and number of segments (index bookkeeping only; the meaning of the table
  entries as derivatives of Bernstein polynomials is in C14Bern.lean).
-/
import Mathlib.Algebra.BigOperators.Group.Finset.Basic
import Mathlib.Algebra.BigOperators.Ring.Finset
import Mathlib.Algebra.Order.Field.Basic
import Mathlib.Data.Real.Basic
import Mathlib.Tactic.Ring
import Mathlib.Tactic.Linarith
import SmoothProofs.Real

open Scalar

namespace Fit

@[simp] theorem ofInt_real (z : ℤ) : (ofInt z : ℝ) = (z : ℝ) := by
  unfold ofInt
  split
  · rename_i h
    simp only [Scalar.nat_real]
    have : ((z.natAbs : ℕ) : ℝ) = ((z.natAbs : ℤ) : ℝ) := by simp
    rw [this, Int.natCast_natAbs, abs_of_neg h]
    simp
  · rename_i h
    simp only [Scalar.nat_real]
    have h0 : 0 ≤ z := not_lt.mp h
    have h1 : ((z.toNat : ℕ) : ℤ) = z := Int.toNat_of_nonneg h0
    exact_mod_cast congrArg (Int.cast (R := ℝ)) h1

theorem lsum_eq_sum (l : List ℝ) : lsum l = l.sum := by
  unfold lsum
  rw [List.sum_eq_foldl]
  simp

theorem ipow_real (x : ℝ) (d : ℕ) : ipow x d = x ^ d := by
  induction d using Nat.strong_induction_on with
  | _ d ih =>
    match d with
    | 0 => simp [ipow]
    | 1 => simp [ipow]
    | d + 2 =>
      have h : ipow x (d + 2) = ipow x (d + 1) * x := rfl
      rw [h, ih (d + 1) (by omega)]; ring

/-- `Σ_{j ≤ K} f j · x (i(K+1)+j)`: a table row applied to the coefficients of segment `i` -/
noncomputable def segDot (K : ℕ) (f : ℕ → ℝ) (x : ℕ → ℝ) (i : ℕ) : ℝ :=
  ∑ j ∈ Finset.range (K + 1), f j * x (i * (K + 1) + j)

theorem sum_map_range (n : ℕ) (g : ℕ → ℝ) :
    ((List.range n).map g).sum = ∑ j ∈ Finset.range n, g j := by
  induction n with
  | zero => simp
  | succ n ih => rw [List.range_succ, List.map_append, List.sum_append, ih, Finset.sum_range_succ]; simp

theorem dot_segEnt (K i : ℕ) (f : ℕ → ℝ) (x : ℕ → ℝ) :
    lsum ((segEnt K i f).map (fun e => e.2 * x e.1)) = segDot K f x i := by
  rw [lsum_eq_sum, segEnt, List.map_map, segDot, ← sum_map_range]
  rfl

theorem rowDot_segEnt (K i : ℕ) (f : ℕ → ℝ) (r : ℝ) (x : ℕ → ℝ) :
    rowDot ⟨segEnt K i f, r⟩ x = segDot K f x i := dot_segEnt K i f x

theorem segDot_mul (K : ℕ) (f : ℕ → ℝ) (c : ℝ) (x : ℕ → ℝ) (i : ℕ) :
    segDot K (fun j => f j * c) x i = segDot K f x i * c := by
  unfold segDot; rw [Finset.sum_mul]; apply Finset.sum_congr rfl; intros; ring

theorem segDot_neg_mul (K : ℕ) (f : ℕ → ℝ) (c : ℝ) (x : ℕ → ℝ) (i : ℕ) :
    segDot K (fun j => -(f j) * c) x i = -(segDot K f x i * c) := by
  unfold segDot; rw [Finset.sum_mul, ← Finset.sum_neg_distrib]; apply Finset.sum_congr rfl; intros; ring

theorem rowDot_contRow (s : Spec) (k d : ℕ) (a b : ℝ) (x : ℕ → ℝ) :
    rowDot (contRow s k d a b) x
      = segDot s.K (u1tB s.K d) x k * (1 / a ^ d) - segDot s.K (u0tB s.K d) x (k + 1) * (1 / b ^ d) := by
  unfold contRow rowDot
  simp only [List.map_append]
  rw [lsum_eq_sum, List.sum_append, ← lsum_eq_sum, ← lsum_eq_sum, dot_segEnt, dot_segEnt,
    segDot_mul, segDot_neg_mul, ipow_real, ipow_real]
  simp only [Nat.cast_one]
  ring

theorem RowsSat_append (a b : List (Row ℝ)) (x : ℕ → ℝ) :
    RowsSat (a ++ b) x ↔ RowsSat a x ∧ RowsSat b x := by
  unfold RowsSat
  simp only [List.mem_append, or_imp, forall_and]

/-- what it means that `x` satisfies all rows the code assembles — for every specification,
    every degree and every number of segments -/
theorem rowsSat_rows_iff (s : Spec) (dt dx lv rv : List ℝ) (x : ℕ → ℝ) :
    RowsSat (rows s dt dx lv rv) x ↔
      (∀ p ∈ s.leftDeg.zip lv, segDot s.K (u0tB s.K p.1) x 0 = p.2) ∧
      (∀ i < nSeg dt dx, segDot s.K (u0tB s.K 0) x i = 0 ∧
          (0 ≤ s.innCnt → segDot s.K (u1tB s.K 0) x i = dx.getD i 0)) ∧
      (∀ k < nSeg dt dx - 1, ∀ d' < s.innCnt.toNat,
          segDot s.K (u1tB s.K (d' + 1)) x k * (1 / (dt.getD k 0) ^ (d' + 1))
            = segDot s.K (u0tB s.K (d' + 1)) x (k + 1) * (1 / (dt.getD (k + 1) 0) ^ (d' + 1))) ∧
      (∀ p ∈ s.rghtDeg.zip rv, segDot s.K (u1tB s.K p.1) x (nSeg dt dx - 1) = p.2) := by
  unfold rows
  simp only [RowsSat_append]
  unfold RowsSat
  constructor
  · rintro ⟨⟨⟨hl, hv⟩, hc⟩, hr⟩
    refine ⟨?_, ?_, ?_, ?_⟩
    · intro p hp
      have := hl _ (List.mem_map.2 ⟨p, hp, rfl⟩)
      simpa [rowDot_segEnt] using this
    · intro i hi
      constructor
      · have := hv ⟨segEnt s.K i (fun j => u0tB s.K 0 j), nat 0⟩
          (List.mem_flatMap.2 ⟨i, List.mem_range.2 hi, by simp⟩)
        simpa [rowDot_segEnt] using this
      · intro h0
        have := hv ⟨segEnt s.K i (fun j => u1tB s.K 0 j), dx.getD i (nat 0)⟩
          (List.mem_flatMap.2 ⟨i, List.mem_range.2 hi, by simp [h0]⟩)
        simpa [rowDot_segEnt] using this
    · intro k hk d' hd'
      have := hc (contRow s k (d' + 1) (dt.getD k (nat 0)) (dt.getD (k + 1) (nat 0)))
        (List.mem_flatMap.2 ⟨k, List.mem_range.2 hk, List.mem_map.2 ⟨d', List.mem_range.2 hd', rfl⟩⟩)
      rw [rowDot_contRow] at this
      simp only [contRow, Scalar.nat_real, Nat.cast_zero] at this
      linarith
    · intro p hp
      have := hr _ (List.mem_map.2 ⟨p, hp, rfl⟩)
      simpa [rowDot_segEnt] using this
  · rintro ⟨hl, hv, hc, hr⟩
    refine ⟨⟨⟨?_, ?_⟩, ?_⟩, ?_⟩
    · intro r hr'
      obtain ⟨p, hp, rfl⟩ := List.mem_map.1 hr'
      simpa [rowDot_segEnt] using hl p hp
    · intro r hr'
      obtain ⟨i, hi, hmem⟩ := List.mem_flatMap.1 hr'
      have hi' := List.mem_range.1 hi
      rcases List.mem_cons.1 hmem with rfl | hmem
      · simpa [rowDot_segEnt] using (hv i hi').1
      · by_cases h0 : 0 ≤ s.innCnt
        · simp only [h0, if_true, List.mem_singleton] at hmem
          subst hmem
          simpa [rowDot_segEnt] using (hv i hi').2 h0
        · simp [h0] at hmem
    · intro r hr'
      obtain ⟨k, hk, hmem⟩ := List.mem_flatMap.1 hr'
      obtain ⟨d', hd', rfl⟩ := List.mem_map.1 hmem
      have := hc k (List.mem_range.1 hk) d' (List.mem_range.1 hd')
      rw [rowDot_contRow]
      simp only [contRow, Scalar.nat_real, Nat.cast_zero]
      linarith
    · intro r hr'
      obtain ⟨p, hp, rfl⟩ := List.mem_map.1 hr'
      simpa [rowDot_segEnt] using hr p hp

-- ---------------------------------------------------------------- counts

theorem length_rows (s : Spec) (dt dx lv rv : List ℝ)
    (hl : lv.length = s.leftDeg.length) (hr : rv.length = s.rghtDeg.length) :
    (rows s dt dx lv rv).length
      = s.leftDeg.length + (nSeg dt dx) * (if 0 ≤ s.innCnt then 2 else 1)
        + (nSeg dt dx - 1) * s.innCnt.toNat + s.rghtDeg.length := by
  unfold rows leftRows valueRows contRows rightRows
  simp only [List.length_append, List.length_map, List.length_zip, hl, hr, Nat.min_self,
    List.length_flatMap, List.length_range, List.map_const', List.sum_replicate, smul_eq_mul]
  have h1 : (List.map (fun i : ℕ =>
      ((⟨segEnt s.K i (fun j => u0tB s.K 0 j), nat 0⟩ : Row ℝ) ::
        (if 0 ≤ s.innCnt then [⟨segEnt s.K i (fun j => u1tB s.K 0 j), dx.getD i (nat 0)⟩] else [])).length)
      (List.range (nSeg dt dx))).sum = (nSeg dt dx) * (if 0 ≤ s.innCnt then 2 else 1) := by
    have : ∀ i : ℕ, ((⟨segEnt s.K i (fun j => u0tB s.K 0 j), nat 0⟩ : Row ℝ) ::
        (if 0 ≤ s.innCnt then [⟨segEnt s.K i (fun j => u1tB s.K 0 j), dx.getD i (nat 0)⟩] else [])).length
        = (if 0 ≤ s.innCnt then 2 else 1) := by
      intro i; split <;> simp
    simp only [this, List.map_const', List.sum_replicate, List.length_range, smul_eq_mul]
  rw [h1]

end Fit
