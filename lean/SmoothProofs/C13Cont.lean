/-
  C13Cont.lean — continuity across a knot: window `i` at `u = 1` against window `i+1` at `u = 0`.
  * value, in an abstract group (any `K`), from the order-0 knot identities;
  * velocity and acceleration of the MODEL (`CSpline.eval_vs`), from the knot identities of orders
    ≤ 1 resp. ≤ 2 and `Ad(exp(0·v)⁻¹) = I`.
-/
import SmoothProofs.C11Model
import Mathlib.Algebra.Group.Basic
import Mathlib.Algebra.BigOperators.Group.List.Basic

open Lin Scalar

namespace C13

/-! ### value, abstract group -/
section value
variable {Γ T R : Type*} [Group Γ] [Zero R] [One R]
  (exp : T → Γ) (log : Γ → T) (smul : R → T → T)

/-- cumulative curve through the control points `gs i, …, gs (i+K)` with basis values `b` -/
def cval (b : Nat → R) (gs : Nat → Γ) (i K : Nat) : Γ :=
  gs i * ((List.range K).map (fun j => exp (smul (b j) (log ((gs (i + j))⁻¹ * gs (i + j + 1)))))).prod

/-- **Value continuity at a knot** (any degree `K = n+1`): if the basis values at `u = 1`
    (`b1`) and at `u = 0` of the next window (`b0`) satisfy `b1₀ = 1`, `b1_{j+1} = b0_j`,
    `b0_n = 0`, then the curve through window `i` at `u = 1` is the curve through window `i+1`
    at `u = 0`.  Uses only `exp(1·log x) = x` and `exp(0·v) = 1`. -/
theorem knot_continuity_value (hexplog : ∀ x, exp (smul 1 (log x)) = x) (hexp0 : ∀ v, exp (smul 0 v) = 1)
    (b1 b0 : Nat → R) (gs : Nat → Γ) (i n : Nat)
    (hfirst : b1 0 = 1) (hshift : ∀ j < n, b1 (j + 1) = b0 j) (hlast : b0 n = 0) :
    cval exp log smul b1 gs i (n + 1) = cval exp log smul b0 gs (i + 1) (n + 1) := by
  unfold cval
  have hA : List.range (n + 1) = 0 :: (List.range n).map Nat.succ := List.range_succ_eq_map
  conv_lhs => rw [hA]
  conv_rhs => rw [List.range_succ]
  simp only [List.map_cons, List.map_map, List.map_append, List.map_nil, List.prod_cons, List.prod_append,
    List.prod_nil, Nat.add_zero, hfirst, hexplog, hlast, hexp0, mul_one]
  rw [← mul_assoc, mul_inv_cancel_left]
  congr 2
  apply List.map_congr_left
  intro j hj
  have hjn : j < n := List.mem_range.mp hj
  simp only [Function.comp, Nat.succ_eq_add_one, hshift j hjn]
  have e1 : i + (j + 1) = i + 1 + j := by omega
  rw [e1]

end value

/-! ### velocity and acceleration, model -/
section velacc
variable (G : LieModel ℝ)

/-- the velocity update of the loop body -/
noncomputable def stepV (x : Vec ℝ G.dof) (B dB : ℝ) (v : Vec ℝ G.dof) : Vec ℝ G.dof :=
  .of (fun i => mulVec (G.Ad (G.inverse (G.exp (vsmul B v)))) x i + dB * v i)

/-- the (velocity, acceleration) update of the loop body -/
noncomputable def stepVA (xa : Vec ℝ G.dof × Vec ℝ G.dof) (B dB d2B : ℝ) (v : Vec ℝ G.dof) : Vec ℝ G.dof × Vec ℝ G.dof :=
  let x' := stepV G xa.1 B dB v
  (x', .of (fun i => (mulVec (G.Ad (G.inverse (G.exp (vsmul B v)))) xa.2 i
      + dB * mulVec (G.ad x') v i) + d2B * v i))

theorem step_vel (B dB d2B d3B : ℝ) (v : Vec ℝ G.dof) (s : CSpline.St ℝ G) :
    (CSpline.step G B dB d2B d3B v s).vel = stepV G s.vel B dB v := by
  simp only [CSpline.step, memoV_eq, memoM_eq, stepV]

theorem step_velacc (B dB d2B d3B : ℝ) (v : Vec ℝ G.dof) (s : CSpline.St ℝ G) :
    ((CSpline.step G B dB d2B d3B v s).vel, (CSpline.step G B dB d2B d3B v s).acc)
      = stepVA G (s.vel, s.acc) B dB d2B v := by
  simp only [CSpline.step, memoV_eq, memoM_eq, stepVA, stepV]

/-- basis jet of difference `j` at `u`: `(B̃, B̃', B̃'')` of column `j+1` -/
noncomputable def bd {K : Nat} (Bcum : Mat ℝ (K + 1) (K + 1)) (u : ℝ) (p : Nat) (j : Fin K) : ℝ :=
  CSpline.bdot (CSpline.monomial_derivative K u p) Bcum ⟨j.val + 1, by omega⟩

theorem eval_vs_vel {K : Nat} (vs : Fin K → Vec ℝ G.dof) (Bcum : Mat ℝ (K + 1) (K + 1)) (u : ℝ) :
    (CSpline.eval_vs G vs Bcum u).vel
      = (List.finRange K).foldl (fun x j => stepV G x (bd Bcum u 0 j) (bd Bcum u 1 j) (vs j)) (vzero _) := by
  unfold CSpline.eval_vs
  simp only [memoV_eq]
  apply C11.foldl_proj (p := fun s : CSpline.St ℝ G => s.vel)
  intro s j
  exact step_vel G _ _ _ _ _ s

theorem eval_vs_velacc {K : Nat} (vs : Fin K → Vec ℝ G.dof) (Bcum : Mat ℝ (K + 1) (K + 1)) (u : ℝ) :
    ((CSpline.eval_vs G vs Bcum u).vel, (CSpline.eval_vs G vs Bcum u).acc)
      = (List.finRange K).foldl (fun xa j => stepVA G xa (bd Bcum u 0 j) (bd Bcum u 1 j) (bd Bcum u 2 j) (vs j))
          (vzero _, vzero _) := by
  unfold CSpline.eval_vs
  simp only [memoV_eq]
  apply C11.foldl_proj (p := fun s : CSpline.St ℝ G => (s.vel, s.acc))
  intro s j
  exact step_velacc G _ _ _ _ _ s

theorem mulVec_vzero {n m : Nat} (A : Mat ℝ n m) : mulVec A (vzero m : Vec ℝ m) = vzero n := by
  ext i; simp [mulVec, vzero, C11.vsum_eq_sum]

/-- a factor with `B̃' = 0` keeps a zero velocity zero -/
theorem stepV_zero (B : ℝ) (v : Vec ℝ G.dof) : stepV G (vzero _) B 0 v = vzero _ := by
  unfold stepV; rw [mulVec_vzero]; ext i; simp [vzero]

theorem stepVA_zero (B : ℝ) (v : Vec ℝ G.dof) : stepVA G (vzero _, vzero _) B 0 0 v = (vzero _, vzero _) := by
  unfold stepVA
  rw [stepV_zero]
  simp only [mulVec_vzero]
  congr 1
  ext i; simp [vzero]

/-- `Ad(inverse(exp(0·v))) = I` as an action (true for every concrete group: `exp 0 = 1`) -/
def AdExpZero : Prop :=
  ∀ (v x : Vec ℝ G.dof), mulVec (G.Ad (G.inverse (G.exp (vsmul 0 v)))) x = x

theorem stepV_last (h : AdExpZero G) (x v : Vec ℝ G.dof) : stepV G x 0 0 v = x := by
  unfold stepV; rw [h]; ext i; simp

theorem stepVA_last (h : AdExpZero G) (xa : Vec ℝ G.dof × Vec ℝ G.dof) (v : Vec ℝ G.dof) :
    stepVA G xa 0 0 0 v = xa := by
  unfold stepVA
  rw [stepV_last G h, h]
  ext i <;> simp

/-- **Velocity continuity at a knot** (degree `K = n+1 ≥ 2` when the hypotheses hold): window A at
    `u = 1` against window B at `u = 0`, where B's differences are A's shifted by one. -/
theorem knot_continuity_vel {n : Nat} (vsA vsB : Fin (n + 1) → Vec ℝ G.dof) (Bcum : Mat ℝ (n + 2) (n + 2))
    (hAd : AdExpZero G)
    (hvs : ∀ j : Fin n, vsA j.succ = vsB j.castSucc)
    (hfirst : bd Bcum 1 1 (0 : Fin (n + 1)) = 0)
    (hshift : ∀ j : Fin n, bd Bcum 1 0 j.succ = bd Bcum 0 0 j.castSucc ∧ bd Bcum 1 1 j.succ = bd Bcum 0 1 j.castSucc)
    (hlast : bd Bcum 0 0 (Fin.last n) = 0 ∧ bd Bcum 0 1 (Fin.last n) = 0) :
    (CSpline.eval_vs G vsA Bcum 1).vel = (CSpline.eval_vs G vsB Bcum 0).vel := by
  rw [eval_vs_vel, eval_vs_vel]
  conv_lhs => rw [List.finRange_succ]
  conv_rhs => rw [List.finRange_succ_last]
  simp only [List.foldl_cons, List.foldl_map, List.foldl_append, List.foldl_nil, hfirst, hlast.1, hlast.2,
    stepV_zero, stepV_last G hAd]
  congr 1
  funext x j
  rw [hvs j, (hshift j).1, (hshift j).2]

/-- **Acceleration continuity at a knot** (degree `K = n+1 ≥ 3` when the hypotheses hold) -/
theorem knot_continuity_acc {n : Nat} (vsA vsB : Fin (n + 1) → Vec ℝ G.dof) (Bcum : Mat ℝ (n + 2) (n + 2))
    (hAd : AdExpZero G)
    (hvs : ∀ j : Fin n, vsA j.succ = vsB j.castSucc)
    (hfirst : bd Bcum 1 1 (0 : Fin (n + 1)) = 0 ∧ bd Bcum 1 2 (0 : Fin (n + 1)) = 0)
    (hshift : ∀ j : Fin n, bd Bcum 1 0 j.succ = bd Bcum 0 0 j.castSucc ∧ bd Bcum 1 1 j.succ = bd Bcum 0 1 j.castSucc
      ∧ bd Bcum 1 2 j.succ = bd Bcum 0 2 j.castSucc)
    (hlast : bd Bcum 0 0 (Fin.last n) = 0 ∧ bd Bcum 0 1 (Fin.last n) = 0 ∧ bd Bcum 0 2 (Fin.last n) = 0) :
    (CSpline.eval_vs G vsA Bcum 1).acc = (CSpline.eval_vs G vsB Bcum 0).acc := by
  have h := eval_vs_velacc G vsA Bcum 1
  have h' := eval_vs_velacc G vsB Bcum 0
  have : ((CSpline.eval_vs G vsA Bcum 1).vel, (CSpline.eval_vs G vsA Bcum 1).acc)
      = ((CSpline.eval_vs G vsB Bcum 0).vel, (CSpline.eval_vs G vsB Bcum 0).acc) := by
    rw [h, h']
    conv_lhs => rw [List.finRange_succ]
    conv_rhs => rw [List.finRange_succ_last]
    simp only [List.foldl_cons, List.foldl_map, List.foldl_append, List.foldl_nil, hfirst.1, hfirst.2,
      hlast.1, hlast.2.1, hlast.2.2, stepVA_zero, stepVA_last G hAd]
    congr 1
    funext x j
    rw [hvs j, (hshift j).1, (hshift j).2.1, (hshift j).2.2]
  exact (Prod.ext_iff.mp this).2

end velacc

end C13
