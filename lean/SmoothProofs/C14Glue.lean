/-
  C14Glue.lean — `fit_spline`: the re-solved middle coefficient makes every segment end exactly at
  the next data point.  Pure group algebra: for ANY cumulative coefficients (i.e. for every —
  exact or inexact — solution of the 1-d systems) and any group into which the model is
  interpreted multiplicatively.
-/
import Mathlib.Algebra.BigOperators.Group.List.Basic
import Mathlib.Algebra.Group.Basic
import SmoothProofs.Real

open Scalar Lin

namespace Fit

section Abstract
variable {H : Type*} [Group H]

/-- `for k = 0..mid−1: m = e_k⁻¹ · m` undoes the left factors -/
theorem prod_mul_foldl_inv (pre : List H) (h : H) :
    pre.prod * pre.foldl (fun m e => e⁻¹ * m) h = h := by
  induction pre generalizing h with
  | nil => simp
  | cons e t ih =>
    simp only [List.prod_cons, List.foldl_cons]
    rw [mul_assoc, ih]
    simp

/-- `for k = K−1 down to mid+1: m = m · e_k⁻¹` undoes the right factors -/
theorem foldl_reverse_inv_mul_prod (post : List H) (m : H) :
    post.reverse.foldl (fun m e => m * e⁻¹) m * post.prod = m := by
  induction post generalizing m with
  | nil => simp
  | cons e t ih =>
    simp only [List.reverse_cons, List.foldl_append, List.foldl_cons, List.foldl_nil, List.prod_cons]
    rw [mul_assoc, inv_mul_cancel_left, ih]

/-- the product identity behind the re-solve: whatever the other factors are, replacing the
    middle factor by `pre⁻¹ · h · post⁻¹` makes the whole product equal to `h` -/
theorem prod_with_resolved_mid (pre post : List H) (h : H) :
    pre.prod * (post.reverse.foldl (fun m e => m * e⁻¹) (pre.foldl (fun m e => e⁻¹ * m) h)) * post.prod = h := by
  rw [mul_assoc, foldl_reverse_inv_mul_prod, prod_mul_foldl_inv]

end Abstract

/-- a multiplicative interpretation of a group model on its valid representations (`V` = the
    representation constraint, e.g. unit quaternion; `M` = e.g. `matrix`; the laws are C01's):
    exactly what the algebra of `fit_spline` needs -/
structure Interp (G : LieModel ℝ) (H : Type*) [Group H] where
  V : Vec ℝ G.rep → Prop
  M : Vec ℝ G.rep → H
  V_comp : ∀ a b, V a → V b → V (G.composition a b)
  V_inv : ∀ a, V a → V (G.inverse a)
  V_exp : ∀ v, V (G.exp v)
  comp : ∀ a b, V a → V b → M (G.composition a b) = M a * M b
  inv : ∀ a, V a → M (G.inverse a) = (M a)⁻¹
  exp_neg : ∀ v, M (G.exp (vneg v)) = (M (G.exp v))⁻¹

variable {G : LieModel ℝ} {H : Type*} [Group H] (I : Interp G H)

theorem range_split (K : ℕ) (hK : 0 < K) :
    List.range K = List.range (K / 2) ++ [K / 2] ++ (List.range (K - 1 - K / 2)).map (· + (K / 2 + 1)) := by
  have h1 : K = K / 2 + (1 + (K - 1 - K / 2)) := by omega
  conv_lhs => rw [h1, List.range_add, List.range_add]
  simp only [List.range_one, List.map_cons, List.map_map, List.append_assoc,
    List.cons_append, List.nil_append, Nat.add_zero]
  congr 2
  apply List.map_congr_left
  intro a _
  simp only [Function.comp]
  omega

theorem M_foldl_pre (cum : ℕ → Vec ℝ G.dof) (l : List ℕ) (h : Vec ℝ G.rep) (hV : I.V h) :
    I.V (l.foldl (fun m k => memoV (G.composition (memoV (G.exp (vneg (cum k)))) m)) h) ∧
    I.M (l.foldl (fun m k => memoV (G.composition (memoV (G.exp (vneg (cum k)))) m)) h)
      = (l.map (fun k => I.M (G.exp (cum k)))).foldl (fun m e => e⁻¹ * m) (I.M h) := by
  induction l generalizing h with
  | nil => exact ⟨hV, by simp⟩
  | cons k t ih =>
    simp only [List.foldl_cons, List.map_cons]
    have hV' : I.V (memoV (G.composition (memoV (G.exp (vneg (cum k)))) h)) := by
      simp only [memoV_eq]; exact I.V_comp _ _ (I.V_exp _) hV
    obtain ⟨h1, h2⟩ := ih _ hV'
    refine ⟨h1, ?_⟩
    rw [h2]
    simp only [memoV_eq, I.comp _ _ (I.V_exp _) hV, I.exp_neg]

theorem M_foldl_post (cum : ℕ → Vec ℝ G.dof) (l : List ℕ) (h : Vec ℝ G.rep) (hV : I.V h) :
    I.V (l.foldl (fun m k => memoV (G.composition m (memoV (G.exp (vneg (cum k)))))) h) ∧
    I.M (l.foldl (fun m k => memoV (G.composition m (memoV (G.exp (vneg (cum k)))))) h)
      = (l.map (fun k => I.M (G.exp (cum k)))).foldl (fun m e => m * e⁻¹) (I.M h) := by
  induction l generalizing h with
  | nil => exact ⟨hV, by simp⟩
  | cons k t ih =>
    simp only [List.foldl_cons, List.map_cons]
    have hV' : I.V (memoV (G.composition h (memoV (G.exp (vneg (cum k)))))) := by
      simp only [memoV_eq]; exact I.V_comp _ _ hV (I.V_exp _)
    obtain ⟨h1, h2⟩ := ih _ hV'
    refine ⟨h1, ?_⟩
    rw [h2]
    simp only [memoV_eq, I.comp _ _ hV (I.V_exp _), I.exp_neg]

theorem M_segEnd (K : ℕ) (cum : ℕ → Vec ℝ G.dof) (g : Vec ℝ G.rep) (hV : I.V g) :
    I.V (segEnd G K cum g) ∧
    I.M (segEnd G K cum g) = I.M g * ((List.range K).map (fun k => I.M (G.exp (cum k)))).prod := by
  unfold segEnd
  generalize List.range K = l
  induction l generalizing g with
  | nil => exact ⟨hV, by simp⟩
  | cons k t ih =>
    simp only [List.foldl_cons, List.map_cons, List.prod_cons]
    obtain ⟨h1, h2⟩ := ih _ (I.V_comp _ _ hV (I.V_exp _))
    refine ⟨h1, ?_⟩
    rw [h2, I.comp _ _ hV (I.V_exp _), mul_assoc]

/-- the value of `midValue` in the interpretation -/
theorem M_midValue (K : ℕ) (cum : ℕ → Vec ℝ G.dof) (g gnext : Vec ℝ G.rep) (hg : I.V g) (hn : I.V gnext) :
    I.V (midValue G K cum g gnext) ∧
    I.M (midValue G K cum g gnext)
      = (((List.range (K - 1 - K / 2)).map (· + (K / 2 + 1))).map (fun k => I.M (G.exp (cum k)))).reverse.foldl
          (fun m e => m * e⁻¹)
          (((List.range (K / 2)).map (fun k => I.M (G.exp (cum k)))).foldl (fun m e => e⁻¹ * m)
            ((I.M g)⁻¹ * I.M gnext)) := by
  unfold midValue
  simp only []
  have hh : I.V (memoV (G.composition (memoV (G.inverse g)) gnext)) := by
    simp only [memoV_eq]; exact I.V_comp _ _ (I.V_inv _ hg) hn
  obtain ⟨p1, p2⟩ := M_foldl_pre I cum (List.range (K / 2)) _ hh
  obtain ⟨q1, q2⟩ := M_foldl_post I cum ((List.range (K - 1 - K / 2)).map (· + (K / 2 + 1))).reverse _ p1
  refine ⟨q1, ?_⟩
  rw [q2, p2, List.map_reverse]
  simp only [memoV_eq, I.comp _ _ (I.V_inv _ hg) hn, I.inv _ hg]

/-- **the segment built by `fit_spline` ends exactly at the next data point** (degree `K > 2`):
    `g · exp(v₁) ⋯ exp(v_K) = g_next` in the interpretation, for ANY cumulative coefficients `cum`
    (any output of the 1-d solver), provided `exp (log m) = m` at the re-solved middle value `m`. -/
theorem segEnd_resolveMid (K : ℕ) (hK : 2 < K) (cum : ℕ → Vec ℝ G.dof) (g gnext : Vec ℝ G.rep)
    (hg : I.V g) (hn : I.V gnext)
    (hEL : I.M (G.exp (G.log (midValue G K cum g gnext))) = I.M (midValue G K cum g gnext)) :
    I.M (segEnd G K (resolveMid G K cum g gnext) g) = I.M gnext := by
  rw [(M_segEnd I K _ g hg).2]
  have hr : ∀ k, resolveMid G K cum g gnext k
      = if k = K / 2 then G.log (midValue G K cum g gnext) else cum k := by
    intro k; simp [resolveMid, hK, memoV_eq]
  rw [range_split K (by omega)]
  simp only [List.map_append, List.map_cons, List.map_nil, List.prod_append, List.prod_cons,
    List.prod_nil, mul_one, List.map_map]
  have hpre : (List.range (K / 2)).map (fun k => I.M (G.exp (resolveMid G K cum g gnext k)))
      = (List.range (K / 2)).map (fun k => I.M (G.exp (cum k))) := by
    apply List.map_congr_left
    intro k hk
    have : k ≠ K / 2 := by have := List.mem_range.1 hk; omega
    simp [hr, this]
  have hpost : (List.range (K - 1 - K / 2)).map
        ((fun k => I.M (G.exp (resolveMid G K cum g gnext k))) ∘ (· + (K / 2 + 1)))
      = ((List.range (K - 1 - K / 2)).map (· + (K / 2 + 1))).map (fun k => I.M (G.exp (cum k))) := by
    rw [List.map_map]
    apply List.map_congr_left
    intro k _
    have : k + (K / 2 + 1) ≠ K / 2 := by omega
    simp [hr, this]
  rw [hpre, hpost]
  have hmid : I.M (G.exp (resolveMid G K cum g gnext (K / 2))) = I.M (midValue G K cum g gnext) := by
    rw [hr]; simp [hEL]
  rw [hmid, (M_midValue I K cum g gnext hg hn).2]
  have := prod_with_resolved_mid ((List.range (K / 2)).map (fun k => I.M (G.exp (cum k))))
    (((List.range (K - 1 - K / 2)).map (· + (K / 2 + 1))).map (fun k => I.M (G.exp (cum k))))
    ((I.M g)⁻¹ * I.M gnext)
  rw [this]
  simp

/-- degree ≤ 2 (`PiecewiseLinear`): no re-solve; the segment ends at the next data point exactly
    when the single cumulative coefficient is `log(g⁻¹ g_next)`, which is what the interpolation
    rows `pᵢ(0) = 0`, `pᵢ(dt) = dxᵢ` give: `x₁ − x₀ = dxᵢ − 0`. -/
theorem segEnd_linear (cum : ℕ → Vec ℝ G.dof) (g gnext : Vec ℝ G.rep) (hg : I.V g) (hn : I.V gnext)
    (hcum : cum 0 = G.rminus gnext g)
    (hEL : I.M (G.exp (G.log (G.composition (G.inverse g) gnext))) = I.M (G.composition (G.inverse g) gnext)) :
    I.M (segEnd G 1 (resolveMid G 1 cum g gnext) g) = I.M gnext := by
  have hr : resolveMid G 1 cum g gnext = cum := by simp [resolveMid]
  rw [hr, (M_segEnd I 1 _ g hg).2]
  simp only [List.range_one, List.map_cons, List.map_nil, List.prod_cons, List.prod_nil, mul_one]
  rw [hcum, LieModel.rminus, hEL, I.comp _ _ (I.V_inv _ hg) hn, I.inv _ hg]
  simp

end Fit
