/-
  C08Layout.lean — the placement of the K = 2 write log: which entries are written where.
-/
import SmoothProofs.C08Diff
import Mathlib.Tactic.Ring
import Mathlib.Tactic.Linarith

open Scalar Lin Diff

set_option linter.unusedSectionVars false
set_option linter.unusedSimpArgs false

namespace C08
variable {α : Type} [Scalar α] {X Y : Type}

/-- the arguments with their first column `I` (the running `I0` / `I1` of the code) -/
def offsets (x : X) : List (Slot α X) → Nat → List (Slot α X × Nat)
  | [], _ => []
  | s :: ss, I => (s, I) :: offsets x ss (I + s.dof x)

theorem offsets_bound (x : X) (slots : List (Slot α X)) (I0 : Nat) (p : Slot α X × Nat)
    (hp : p ∈ offsets x slots I0) :
    I0 ≤ p.2 ∧ p.2 + p.1.dof x ≤ I0 + (slots.map (fun s => s.dof x)).sum := by
  induction slots generalizing I0 with
  | nil => simp [offsets] at hp
  | cons s ss ih =>
    simp only [offsets, List.mem_cons] at hp
    rcases hp with rfl | hp
    · simp
    · have := ih _ hp
      simp only [List.map_cons, List.sum_cons]
      omega

theorem totalDof_eq_sum (slots : List (Slot α X)) (x : X) :
    totalDof slots x = (slots.map (fun s => s.dof x)).sum := by
  simp [totalDof, List.sum_eq_foldl_nat]

section
variable (base : α) (rm : Y → Y → List α) (f : X → Y) (fval : Y) (nx : Nat)

theorem mem_hessEntries (s0 s1 : Slot α X) (x : X) (n0 n1 I0 I1 k0 k1 : Nat) (e : (Nat × Nat) × α) :
    e ∈ hessEntries base rm f fval nx s0 s1 x n0 n1 I0 I1 k0 k1 ↔
      ∃ j v, (d2Spec base rm f fval s0 s1 x n0 n1 k0 k1)[j]? = some v ∧
        e = ((I0 + k0, j * nx + I1 + k1), v) := by
  simp only [hessEntries, List.mem_mapIdx]
  constructor
  · rintro ⟨j, hj, rfl⟩
    exact ⟨j, _, List.getElem?_eq_getElem hj, rfl⟩
  · rintro ⟨j, v, hv, rfl⟩
    obtain ⟨hj, rfl⟩ := List.getElem?_eq_some_iff.1 hv
    exact ⟨j, hj, rfl⟩

theorem mem_pairH (s0 s1 : Slot α X) (x : X) (I0 I1 : Nat) (e : (Nat × Nat) × α) :
    e ∈ pairH base rm f fval nx s0 s1 x I0 I1 ↔
      ∃ k0 < s0.dof x, ∃ k1 < s1.dof x,
        e ∈ hessEntries base rm f fval nx s0 s1 x (s0.dof x) (s1.dof x) I0 I1 k0 k1 := by
  simp only [pairH, midH, List.mem_flatMap, List.mem_range]

theorem mem_rowH (s0 : Slot α X) (x : X) (I0 : Nat) (all : List (Slot α X)) (I1 : Nat)
    (e : (Nat × Nat) × α) :
    e ∈ rowH base rm f fval nx s0 x I0 all I1 ↔
      ∃ p ∈ offsets x all I1, e ∈ pairH base rm f fval nx s0 p.1 x I0 p.2 := by
  induction all generalizing I1 with
  | nil => simp [rowH, offsets]
  | cons s1 ss ih =>
    simp only [rowH, offsets, List.mem_append, ih, List.mem_cons, exists_eq_or_imp]

theorem mem_hessSpec (all : List (Slot α X)) (x : X) (slots : List (Slot α X)) (I0 : Nat)
    (e : (Nat × Nat) × α) :
    e ∈ hessSpec base rm f fval nx all x slots I0 ↔
      ∃ p0 ∈ offsets x slots I0, ∃ p1 ∈ offsets x all 0,
        e ∈ pairH base rm f fval nx p0.1 p1.1 x p0.2 p1.2 := by
  induction slots generalizing I0 with
  | nil => simp [hessSpec, offsets]
  | cons s0 ss ih =>
    simp only [hessSpec, offsets, List.mem_append, ih, List.mem_cons, exists_eq_or_imp, mem_rowH]

end

/-- position arithmetic of the stacked layout: block index and column inside the block -/
theorem stacked_block (nx j c : Nat) (hc : c < nx) : (j * nx + c) / nx = j ∧ (j * nx + c) % nx = c := by
  have hpos : 0 < nx := by omega
  constructor
  · rw [Nat.add_comm, Nat.add_mul_div_right _ _ hpos, Nat.div_eq_of_lt hc, Nat.zero_add]
  · rw [Nat.add_comm, Nat.add_mul_mod_self_right, Nat.mod_eq_of_lt hc]

/-- distinct (row, output component, column) triples are written to distinct places -/
theorem stacked_injective (nx r r' j j' c c' : Nat) (hc : c < nx) (hc' : c' < nx)
    (h : (r, j * nx + c) = (r', j' * nx + c')) : r = r' ∧ j = j' ∧ c = c' := by
  simp only [Prod.mk.injEq] at h
  obtain ⟨hr, hcc⟩ := h
  have h1 := stacked_block nx j c hc
  have h2 := stacked_block nx j' c' hc'
  rw [hcc] at h1
  exact ⟨hr, h1.1.symm.trans h2.1, h1.2.symm.trans h2.2⟩

end C08
