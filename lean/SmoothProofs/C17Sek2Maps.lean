/-
  C17Sek2Maps.lean — the 10×10 tangent maps of Galilei (Ad, ad, dr_exp, dr_expinv) at embedded
  arguments (`τ = 0` / `s = 0`), restricted to the `s = 0` subspace (`Conv.restrictT`, index
  embedding `Conv.eT`), are the 9×9 maps of `SE_K_3<2>`; the `s` row vanishes on that subspace.

  Route: every Galilei map is `galBlocks` of six 3×3 blocks and a column; the restriction of
  `galBlocks` is an `SEK3.ofBlocks 2` (81 entries, blocks abstract); the blocks are compared one by one.
-/
import SmoothProofs.C17Sek2

open Lin Scalar

namespace C17P

/-- the block pattern shared by `Galilei.Ad / ad / dr_exp / dr_expinv`; `d` is the `(6,6)` entry -/
noncomputable def galBlocks (B00 B07 B30 B33 B37 B77 : Mat ℝ 3 3) (c : Vec ℝ 3) (d : ℝ) : Mat ℝ 10 10 :=
  let Z : Mat ℝ 10 10 := mzero 10 10
  let M1 := Galilei.blockSet (Galilei.blockSet Z 0 0 B00) 0 7 B07
  let M2 := Galilei.blockSet (Galilei.blockSet (Galilei.blockSet M1 3 0 B30) 3 3 B33) 3 7 B37
  let M3 := Galilei.blockSet M2 7 7 B77
  (.of (fun i j =>
    if hi : 3 ≤ i.val ∧ i.val < 6 ∧ j.val = 6 then c ⟨i.val - 3, by omega⟩
    else if i.val = 6 ∧ j.val = 6 then d
    else M3 i j))

/-- the 3×3 block pattern of `SE_K_3<2>` maps: diagonal `D`, last block column `X0`, `X1` -/
noncomputable def sekBlocks (D X0 X1 : Mat ℝ 3 3) : Mat ℝ (3 + 3 * 2) (3 + 3 * 2) :=
  SEK3.ofBlocks 2 (fun bi bj =>
    if bi.val = bj.val then D
    else if bj.val = 2 ∧ bi.val < 2 then (if bi.val = 0 then X0 else X1)
    else mzero 3 3)

theorem restrict_row0 (D X0 X1 : Mat ℝ 3 3) (c : Vec ℝ 3) (d : ℝ) (j : Fin 9) :
    (Conv.restrictT (galBlocks D X0 (mzero 3 3) D X1 D c d)) (⟨0, by omega⟩ : Fin (3 + 3 * 2)) ⟨j.val, by omega⟩
      = (sekBlocks D X0 X1) (⟨0, by omega⟩ : Fin (3 + 3 * 2)) ⟨j.val, by omega⟩ := by
  fin_cases j <;>
    simp [Conv.restrictT, Conv.eT, galBlocks, sekBlocks, SEK3.ofBlocks, Galilei.blockSet, mzero, Mat.of]

theorem restrict_row1 (D X0 X1 : Mat ℝ 3 3) (c : Vec ℝ 3) (d : ℝ) (j : Fin 9) :
    (Conv.restrictT (galBlocks D X0 (mzero 3 3) D X1 D c d)) (⟨1, by omega⟩ : Fin (3 + 3 * 2)) ⟨j.val, by omega⟩
      = (sekBlocks D X0 X1) (⟨1, by omega⟩ : Fin (3 + 3 * 2)) ⟨j.val, by omega⟩ := by
  fin_cases j <;>
    simp [Conv.restrictT, Conv.eT, galBlocks, sekBlocks, SEK3.ofBlocks, Galilei.blockSet, mzero, Mat.of]

theorem restrict_row2 (D X0 X1 : Mat ℝ 3 3) (c : Vec ℝ 3) (d : ℝ) (j : Fin 9) :
    (Conv.restrictT (galBlocks D X0 (mzero 3 3) D X1 D c d)) (⟨2, by omega⟩ : Fin (3 + 3 * 2)) ⟨j.val, by omega⟩
      = (sekBlocks D X0 X1) (⟨2, by omega⟩ : Fin (3 + 3 * 2)) ⟨j.val, by omega⟩ := by
  fin_cases j <;>
    simp [Conv.restrictT, Conv.eT, galBlocks, sekBlocks, SEK3.ofBlocks, Galilei.blockSet, mzero, Mat.of]

theorem restrict_row3 (D X0 X1 : Mat ℝ 3 3) (c : Vec ℝ 3) (d : ℝ) (j : Fin 9) :
    (Conv.restrictT (galBlocks D X0 (mzero 3 3) D X1 D c d)) (⟨3, by omega⟩ : Fin (3 + 3 * 2)) ⟨j.val, by omega⟩
      = (sekBlocks D X0 X1) (⟨3, by omega⟩ : Fin (3 + 3 * 2)) ⟨j.val, by omega⟩ := by
  fin_cases j <;>
    simp [Conv.restrictT, Conv.eT, galBlocks, sekBlocks, SEK3.ofBlocks, Galilei.blockSet, mzero, Mat.of]

theorem restrict_row4 (D X0 X1 : Mat ℝ 3 3) (c : Vec ℝ 3) (d : ℝ) (j : Fin 9) :
    (Conv.restrictT (galBlocks D X0 (mzero 3 3) D X1 D c d)) (⟨4, by omega⟩ : Fin (3 + 3 * 2)) ⟨j.val, by omega⟩
      = (sekBlocks D X0 X1) (⟨4, by omega⟩ : Fin (3 + 3 * 2)) ⟨j.val, by omega⟩ := by
  fin_cases j <;>
    simp [Conv.restrictT, Conv.eT, galBlocks, sekBlocks, SEK3.ofBlocks, Galilei.blockSet, mzero, Mat.of]

theorem restrict_row5 (D X0 X1 : Mat ℝ 3 3) (c : Vec ℝ 3) (d : ℝ) (j : Fin 9) :
    (Conv.restrictT (galBlocks D X0 (mzero 3 3) D X1 D c d)) (⟨5, by omega⟩ : Fin (3 + 3 * 2)) ⟨j.val, by omega⟩
      = (sekBlocks D X0 X1) (⟨5, by omega⟩ : Fin (3 + 3 * 2)) ⟨j.val, by omega⟩ := by
  fin_cases j <;>
    simp [Conv.restrictT, Conv.eT, galBlocks, sekBlocks, SEK3.ofBlocks, Galilei.blockSet, mzero, Mat.of]

theorem restrict_row6 (D X0 X1 : Mat ℝ 3 3) (c : Vec ℝ 3) (d : ℝ) (j : Fin 9) :
    (Conv.restrictT (galBlocks D X0 (mzero 3 3) D X1 D c d)) (⟨6, by omega⟩ : Fin (3 + 3 * 2)) ⟨j.val, by omega⟩
      = (sekBlocks D X0 X1) (⟨6, by omega⟩ : Fin (3 + 3 * 2)) ⟨j.val, by omega⟩ := by
  fin_cases j <;>
    simp [Conv.restrictT, Conv.eT, galBlocks, sekBlocks, SEK3.ofBlocks, Galilei.blockSet, mzero, Mat.of]

theorem restrict_row7 (D X0 X1 : Mat ℝ 3 3) (c : Vec ℝ 3) (d : ℝ) (j : Fin 9) :
    (Conv.restrictT (galBlocks D X0 (mzero 3 3) D X1 D c d)) (⟨7, by omega⟩ : Fin (3 + 3 * 2)) ⟨j.val, by omega⟩
      = (sekBlocks D X0 X1) (⟨7, by omega⟩ : Fin (3 + 3 * 2)) ⟨j.val, by omega⟩ := by
  fin_cases j <;>
    simp [Conv.restrictT, Conv.eT, galBlocks, sekBlocks, SEK3.ofBlocks, Galilei.blockSet, mzero, Mat.of]

theorem restrict_row8 (D X0 X1 : Mat ℝ 3 3) (c : Vec ℝ 3) (d : ℝ) (j : Fin 9) :
    (Conv.restrictT (galBlocks D X0 (mzero 3 3) D X1 D c d)) (⟨8, by omega⟩ : Fin (3 + 3 * 2)) ⟨j.val, by omega⟩
      = (sekBlocks D X0 X1) (⟨8, by omega⟩ : Fin (3 + 3 * 2)) ⟨j.val, by omega⟩ := by
  fin_cases j <;>
    simp [Conv.restrictT, Conv.eT, galBlocks, sekBlocks, SEK3.ofBlocks, Galilei.blockSet, mzero, Mat.of]

theorem restrict_galBlocks (D X0 X1 : Mat ℝ 3 3) (c : Vec ℝ 3) (d : ℝ) :
    Conv.restrictT (galBlocks D X0 (mzero 3 3) D X1 D c d) = sekBlocks D X0 X1 := by
  ext i j
  revert i j
  show ∀ i j : Fin 9, _
  intro i j
  fin_cases i
  · exact restrict_row0 D X0 X1 c d j
  · exact restrict_row1 D X0 X1 c d j
  · exact restrict_row2 D X0 X1 c d j
  · exact restrict_row3 D X0 X1 c d j
  · exact restrict_row4 D X0 X1 c d j
  · exact restrict_row5 D X0 X1 c d j
  · exact restrict_row6 D X0 X1 c d j
  · exact restrict_row7 D X0 X1 c d j
  · exact restrict_row8 D X0 X1 c d j

/-- the `s` row of the restricted map vanishes: the subspace `s = 0` is invariant -/
theorem galBlocks_row6 (D X0 X1 : Mat ℝ 3 3) (c : Vec ℝ 3) (d : ℝ) (j : Fin 9) :
    (galBlocks D X0 (mzero 3 3) D X1 D c d) 6 (Conv.eT j) = 0 := by
  fin_cases j <;> simp [Conv.eT, galBlocks, Galilei.blockSet, mzero, Mat.of]

theorem sekBlocks_of (B : Fin 3 → Fin 3 → Mat ℝ 3 3) (D X0 X1 : Mat ℝ 3 3)
    (hD : ∀ b, B b b = D) (h0 : B 0 2 = X0) (h1 : B 1 2 = X1)
    (hz : B 0 1 = mzero 3 3 ∧ B 1 0 = mzero 3 3 ∧ B 2 0 = mzero 3 3 ∧ B 2 1 = mzero 3 3) :
    SEK3.ofBlocks 2 B = sekBlocks D X0 X1 := by
  unfold sekBlocks
  congr 1
  funext bi bj
  obtain ⟨z01, z10, z20, z21⟩ := hz
  fin_cases bi <;> fin_cases bj <;> simp [hD, h0, h1, z01, z10, z20, z21]

/-! ### Ad -/

theorem galAd_blocks (g : Vec ℝ 11) :
    Galilei.Ad g =
      galBlocks (memoM (SO3.matrix (Galilei.gq g)))
        (memoM (mmul (SO3.hat (Galilei.gv g)) (memoM (SO3.matrix (Galilei.gq g)))))
        (.of (fun i j => -((memoM (SO3.matrix (Galilei.gq g))) i j) * Galilei.gt g))
        (memoM (SO3.matrix (Galilei.gq g)))
        (memoM (mmul (SO3.hat (.of (fun i => Galilei.gp g i - Galilei.gv g i * Galilei.gt g)))
          (memoM (SO3.matrix (Galilei.gq g)))))
        (memoM (SO3.matrix (Galilei.gq g))) (Galilei.gv g) 1 := by
  unfold Galilei.Ad galBlocks
  simp only [Nat.cast_one]

theorem sek2_Ad (g : G2) :
    Conv.restrictT (Galilei.Ad (Conv.sek2_to_gal g)) = SEK3.Ad 2 g
    ∧ ∀ j : Fin 9, (Galilei.Ad (Conv.sek2_to_gal g)) 6 (Conv.eT j) = 0 := by
  rw [galAd_blocks]
  simp only [gq2, gv2, gp2, gt2, memoM_eq]
  have hz : (Mat.of (fun i j => -((SO3.matrix (SEK3.gq 2 g)) i j) * (0 : ℝ)) : Mat ℝ 3 3) = mzero 3 3 := by
    ext i j; simp [mzero]
  have hp : (Vec.of (fun i => (SEK3.gp 2 g 1) i - (SEK3.gp 2 g 0) i * (0 : ℝ)) : Vec ℝ 3) = SEK3.gp 2 g 1 := by
    ext i; simp
  rw [hz, hp]
  refine ⟨?_, galBlocks_row6 _ _ _ _ _⟩
  rw [restrict_galBlocks]
  symm
  unfold SEK3.Ad
  simp only [memoM_eq]
  apply sekBlocks_of
  · intro b; fin_cases b <;> simp
  · simp
  · simp
  · simp

/-! ### ad -/

theorem galad_blocks (a : Vec ℝ 10) :
    Galilei.ad a =
      galBlocks (SO3.hat (Galilei.tw a)) (SO3.hat (Galilei.tb a))
        (.of (fun i j => (-(Galilei.ts a)) * (ident 3 : Mat ℝ 3 3) i j))
        (SO3.hat (Galilei.tw a)) (SO3.hat (Galilei.tq a)) (SO3.hat (Galilei.tw a)) (Galilei.tb a) 0 := by
  ext i j
  unfold Galilei.ad galBlocks
  simp only [Mat.of_get]
  by_cases h1 : 3 ≤ i.val ∧ i.val < 6 ∧ j.val = 6
  · simp only [dif_pos h1]
  · simp only [dif_neg h1]
    by_cases h2 : i.val = 6 ∧ j.val = 6
    · rw [if_pos h2]
      obtain ⟨hi, hj⟩ := h2
      have ei : i = 6 := Fin.ext hi
      have ej : j = 6 := Fin.ext hj
      subst ei; subst ej
      simp [Galilei.blockSet, mzero, Mat.of]
    · rw [if_neg h2]

theorem sek2_ad (a : T2) :
    Conv.restrictT (Galilei.ad (Conv.sek2T_to_gal a)) = SEK3.ad 2 a
    ∧ ∀ j : Fin 9, (Galilei.ad (Conv.sek2T_to_gal a)) 6 (Conv.eT j) = 0 := by
  rw [galad_blocks]
  simp only [tw2, tb2, tq2, ts2]
  have hz : (Mat.of (fun i j => (-(0 : ℝ)) * (ident 3 : Mat ℝ 3 3) i j) : Mat ℝ 3 3) = mzero 3 3 := by
    ext i j; simp [mzero]
  rw [hz]
  refine ⟨?_, galBlocks_row6 _ _ _ _ _⟩
  rw [restrict_galBlocks]
  symm
  unfold SEK3.ad
  apply sekBlocks_of
  · intro b; fin_cases b <;> simp
  · simp
  · simp
  · simp

/-! ### dr_exp -/

theorem galDrExp_blocks (a : Vec ℝ 10) :
    Galilei.dr_exp a =
      galBlocks (memoM (SO3.calc_S1 (vneg (Galilei.tw a))))
        (memoM (SE3.calculate_q (vneg (Galilei.tb a)) (vneg (Galilei.tw a))))
        (.of (fun i j => Galilei.ts a * ((memoM (SO3.calc_S1 (vneg (Galilei.tw a)))) i j
          - (memoM (SO3.calc_S2 (vneg (Galilei.tw a)))) i j)))
        (memoM (SO3.calc_S1 (vneg (Galilei.tw a))))
        (.of (fun i j => Galilei.ts a * (memoM (Galilei.calculate_r (vneg (Galilei.tb a)) (vneg (Galilei.tw a)))) i j
          + (memoM (SE3.calculate_q (vneg (Galilei.tq a)) (vneg (Galilei.tw a)))) i j))
        (memoM (SO3.calc_S1 (vneg (Galilei.tw a))))
        (mulVec (mneg (memoM (SO3.calc_S2 (vneg (Galilei.tw a))))) (Galilei.tb a)) 1 := by
  unfold Galilei.dr_exp galBlocks
  simp only [Nat.cast_one]

theorem sek2_dr_exp (a : T2) :
    Conv.restrictT (Galilei.dr_exp (Conv.sek2T_to_gal a)) = SEK3.dr_exp 2 a
    ∧ ∀ j : Fin 9, (Galilei.dr_exp (Conv.sek2T_to_gal a)) 6 (Conv.eT j) = 0 := by
  rw [galDrExp_blocks]
  simp only [tw2, tb2, tq2, ts2, memoM_eq]
  have hz : ∀ X : Mat ℝ 3 3, (Mat.of (fun i j => (0 : ℝ) * X i j) : Mat ℝ 3 3) = mzero 3 3 := by
    intro X; ext i j; simp [mzero]
  have hz1 := hz (.of (fun i j => (SO3.calc_S1 (vneg (SEK3.tw 2 a))) i j - (SO3.calc_S2 (vneg (SEK3.tw 2 a))) i j))
  simp only [Mat.of_get] at hz1
  have hq : ∀ R Q : Mat ℝ 3 3, (Mat.of (fun i j => (0 : ℝ) * R i j + Q i j) : Mat ℝ 3 3) = Q := by
    intro R Q; ext i j; simp
  rw [hz1, hq]
  refine ⟨?_, galBlocks_row6 _ _ _ _ _⟩
  rw [restrict_galBlocks]
  symm
  unfold SEK3.dr_exp SO3.dr_exp
  simp only [memoM_eq]
  apply sekBlocks_of
  · intro b; fin_cases b <;> simp
  · simp
  · simp
  · simp

/-! ### dr_expinv -/

theorem sqNorm_vneg3 (w : Vec ℝ 3) : sqNorm (vneg w) = sqNorm w := by
  rw [C02.sqNorm3, C02.sqNorm3]; simp [vneg]

/-- `dr_expinv ω = S1inv(−ω)` over ℝ -/
theorem drExpinv_eq_S1inv_neg (w : Vec ℝ 3) : SO3.dr_expinv w = SO3.calc_S1inv (vneg w) := by
  have hh : ∀ i j, (SO3.hat (vneg w)) i j = -(SO3.hat w) i j := C04SO3.hat_neg w
  have hmm : mmul (SO3.hat (vneg w)) (SO3.hat (vneg w)) = mmul (SO3.hat w) (SO3.hat w) := by
    ext i j
    simp only [mmul, vsum, Mat.of_get, hh]
    ring
  ext i j
  simp only [SO3.dr_expinv, SO3.calc_S1inv, SO3.ad, madd, memoM_eq, Lin.mmul_msmul_get, Mat.of_get, sqNorm_vneg3, hmm, hh]
  ring

theorem galDrExpinv_blocks (a : Vec ℝ 10) :
    Galilei.dr_expinv a =
      (let b := Galilei.tb a; let q := Galilei.tq a; let s := Galilei.ts a; let w := Galilei.tw a
       let nw := vneg w
       let I : Mat ℝ 3 3 := ident 3
       let S1inv := memoM (SO3.calc_S1inv nw)
       let S2 := memoM (SO3.calc_S2 nw)
       let Qb := memoM (SE3.calculate_q (vneg b) nw)
       let Qq := memoM (SE3.calculate_q (vneg q) nw)
       let R := memoM (Galilei.calculate_r (vneg b) nw)
       let B07 := memoM (mmul (memoM (mmul (mneg S1inv) Qb)) S1inv)
       let S1iS2 := memoM (mmul S1inv S2)
       let B30 := memoM (mmul (memoM (.of (fun i j => (-s) * (I i j - S1iS2 i j)))) S1inv)
       let B36 := mulVec S1iS2 b
       let S2S1i := memoM (mmul S2 S1inv)
       let T1 := memoM (mmul (memoM (.of (fun i j => s * (I i j - S2S1i i j)))) Qb)
       let mid := memoM (.of (fun i j => ((-s) * R i j - Qq i j) + T1 i j))
       let B37 := memoM (mmul (memoM (mmul S1inv mid)) S1inv)
       galBlocks S1inv B07 B30 S1inv B37 S1inv B36 1) := by
  unfold Galilei.dr_expinv galBlocks
  simp only [Nat.cast_one]

theorem mmul_zero_left (X Y : Mat ℝ 3 3) (h : X = mzero 3 3) : mmul X Y = mzero 3 3 := by
  subst h; ext i j; simp [mmul, mzero, vsum]

theorem mmul_mneg_right (S Q : Mat ℝ 3 3) : mmul S (mneg Q) = mmul (mneg S) Q := by
  ext i j; simp [mmul, mneg, vsum]

theorem sek2_dr_expinv (a : T2) :
    Conv.restrictT (Galilei.dr_expinv (Conv.sek2T_to_gal a)) = SEK3.dr_expinv 2 a
    ∧ ∀ j : Fin 9, (Galilei.dr_expinv (Conv.sek2T_to_gal a)) 6 (Conv.eT j) = 0 := by
  rw [galDrExpinv_blocks]
  simp only [tw2, tb2, tq2, ts2, memoM_eq]
  have hz : ∀ X : Mat ℝ 3 3, (Mat.of (fun i j => (-(0 : ℝ)) * X i j) : Mat ℝ 3 3) = mzero 3 3 := by
    intro X; ext i j; simp [mzero]
  have hz' : ∀ X : Mat ℝ 3 3, (Mat.of (fun i j => (0 : ℝ) * X i j) : Mat ℝ 3 3) = mzero 3 3 := by
    intro X; ext i j; simp [mzero]
  -- B30 = 0
  have hB30 : ∀ (Y S : Mat ℝ 3 3),
      mmul (Mat.of (fun i j => (-(0 : ℝ)) * ((ident 3 : Mat ℝ 3 3) i j - Y i j))) S = mzero 3 3 := by
    intro Y S
    apply mmul_zero_left
    have := hz (.of (fun i j => (ident 3 : Mat ℝ 3 3) i j - Y i j))
    simpa only [Mat.of_get] using this
  -- mid = −Qq
  have hmid : ∀ (R Qq Y Qb : Mat ℝ 3 3),
      (Mat.of (fun i j => ((-(0 : ℝ)) * R i j - Qq i j)
        + (mmul (Mat.of (fun i j => (0 : ℝ) * ((ident 3 : Mat ℝ 3 3) i j - Y i j))) Qb) i j) : Mat ℝ 3 3) = mneg Qq := by
    intro R Qq Y Qb
    have h0 : mmul (Mat.of (fun i j => (0 : ℝ) * ((ident 3 : Mat ℝ 3 3) i j - Y i j))) Qb = mzero 3 3 := by
      apply mmul_zero_left
      have := hz' (.of (fun i j => (ident 3 : Mat ℝ 3 3) i j - Y i j))
      simpa only [Mat.of_get] using this
    rw [h0]
    ext i j; simp [mneg, mzero]
  simp only [hB30, hmid, mmul_mneg_right]
  refine ⟨?_, galBlocks_row6 _ _ _ _ _⟩
  rw [restrict_galBlocks]
  symm
  unfold SEK3.dr_expinv
  simp only [memoM_eq, drExpinv_eq_S1inv_neg]
  apply sekBlocks_of
  · intro b; fin_cases b <;> simp
  · simp
  · simp
  · simp

end C17P
