/-
  C03SE3.lean — C03 for SE3 (semidirect product ℝ³ ⋊ SO3; group (x y z qx qy qz qw), tangent (v, Ω)).
-/
import SmoothProofs.C03Adjoint
import SmoothProofs.C03SO3

open Lin Scalar
set_option linter.unusedSimpArgs false
set_option linter.unusedTactic false
set_option linter.unreachableTactic false
set_option linter.unnecessarySeqFocus false

namespace C03

/-- the top-left 3×3 block is skew-symmetric -/
def SkewTL {n : Nat} (A : Mat ℝ (3 + n) (3 + n)) : Prop :=
  ∀ i j : Fin 3, A ⟨j.val, by omega⟩ ⟨i.val, by omega⟩ = -(A ⟨i.val, by omega⟩ ⟨j.val, by omega⟩)

namespace SE3

/-- representation constraint: unit quaternion part -/
def IsUnit (g : Vec ℝ 7) : Prop := UnitQ (SE3.so3 g)

/-- documented algebra se(3): skew 3×3 block, free last column above a zero last row -/
def InAlgebra (A : Mat ℝ 4 4) : Prop := SkewTL (n := 1) A ∧ ∀ j, A 3 j = 0

theorem vee_hat (a : Vec ℝ 6) : SE3.vee (SE3.hat a) = a := by
  ext i
  fin_cases i <;> simp [SE3.vee, SE3.hat, SE3.mk6, SE3.tw, SO3.vee, SO3.hat] <;> ring

theorem hat_inAlgebra (a : Vec ℝ 6) : InAlgebra (SE3.hat a) := by
  refine ⟨?_, ?_⟩
  · intro i j
    fin_cases i <;> fin_cases j <;> simp [SE3.hat, SE3.tw, SO3.hat]
  · intro j; simp [SE3.hat]

theorem hat_vee (A : Mat ℝ 4 4) (h : InAlgebra A) : SE3.hat (SE3.vee A) = A := by
  obtain ⟨hs, hr⟩ := h
  have h00 := hs 0 0; have h11 := hs 1 1; have h22 := hs 2 2
  have h01 := hs 0 1; have h02 := hs 0 2; have h12 := hs 1 2
  have r0 := hr 0; have r1 := hr 1; have r2 := hr 2; have r3 := hr 3
  simp at h00 h11 h22 h01 h02 h12
  ext i j
  fin_cases i <;> fin_cases j <;>
    simp [SE3.vee, SE3.hat, SE3.mk6, SE3.tw, SO3.vee, SO3.hat, r0, r1, r2, r3] <;> linarith

theorem hat_add (a b : Vec ℝ 6) : SE3.hat (vadd a b) = madd (SE3.hat a) (SE3.hat b) := by
  ext i j
  fin_cases i <;> fin_cases j <;> simp [SE3.hat, SE3.tw, SO3.hat, vadd, madd] <;> ring

theorem hat_smul (s : ℝ) (a : Vec ℝ 6) : SE3.hat (vsmul s a) = msmul s (SE3.hat a) := by
  ext i j
  fin_cases i <;> fin_cases j <;> simp [SE3.hat, SE3.tw, SO3.hat, vsmul, msmul]

theorem ad_def (a b : Vec ℝ 6) :
    SE3.hat (mulVec (SE3.ad a) b) = msub (mmul (SE3.hat a) (SE3.hat b)) (mmul (SE3.hat b) (SE3.hat a)) := by
  ext i j
  fin_cases i <;> fin_cases j <;>
    simp [SE3.ad, SE3.hat, SE3.blk22, SE3.tw, SE3.tv, SO3.hat, mzero, mmul, mulVec, msub, vsum] <;> ring

/-- `matrix g · hat a = hat (Ad g · a) · matrix g` for unit quaternion part -/
theorem Ad_def_entry (g : Vec ℝ 7) (h : IsUnit g) (a : Vec ℝ 6) (i j : Fin 4) :
    (mmul (SE3.matrix g) (SE3.hat a)) i j = (mmul (SE3.hat (mulVec (SE3.Ad g) a)) (SE3.matrix g)) i j := by
  unfold IsUnit UnitQ at h
  fin_cases i <;> fin_cases j <;>
  simp [SE3.Ad, SE3.matrix, SE3.hat, SE3.blk22, SE3.so3, SE3.r3, SE3.tw, SE3.tv, mzero,
      SO3.matrix, SO3.hat, mmul, mulVec, vsum] at h ⊢ <;> first | ring1 | grind

theorem Ad_def (g : Vec ℝ 7) (h : IsUnit g) (a : Vec ℝ 6) :
    mmul (SE3.matrix g) (SE3.hat a) = mmul (SE3.hat (mulVec (SE3.Ad g) a)) (SE3.matrix g) := by
  ext i j; exact Ad_def_entry g h a i j

/-! #### matrix homomorphism and right inverse (local copies of C01 facts) -/

/-- homogeneous matrix `[R t; 0 1]` -/
def homRt (R : Mat ℝ 3 3) (t : Vec ℝ 3) : Mat ℝ 4 4 := (.of (fun i j =>
  if hi : i.val < 3 then
    if hj : j.val < 3 then R ⟨i.val, hi⟩ ⟨j.val, hj⟩ else t ⟨i.val, hi⟩
  else if j.val < 3 then 0 else 1))

theorem matrix_eq_homRt (g : Vec ℝ 7) : SE3.matrix g = homRt (SO3.matrix (SE3.so3 g)) (SE3.r3 g) := by
  ext i j
  fin_cases i <;> fin_cases j <;> simp [SE3.matrix, homRt, SE3.r3]

theorem homRt_mul (R R' : Mat ℝ 3 3) (t t' : Vec ℝ 3) :
    mmul (homRt R t) (homRt R' t') = homRt (mmul R R') (vadd (mulVec R t') t) := by
  ext i j
  fin_cases i <;> fin_cases j <;> simp [homRt, mmul, mulVec, vadd, vsum]

theorem so3_mk7 (t : Vec ℝ 3) (q : Vec ℝ 4) : SE3.so3 (SE3.mk7 t q) = q := by
  ext i; fin_cases i <;> simp [SE3.so3, SE3.mk7]

theorem r3_mk7 (t : Vec ℝ 3) (q : Vec ℝ 4) : SE3.r3 (SE3.mk7 t q) = t := by
  ext i; fin_cases i <;> simp [SE3.r3, SE3.mk7]

theorem unit_composition (a b : Vec ℝ 7) (ha : IsUnit a) (hb : IsUnit b) :
    IsUnit (SE3.composition a b) := by
  unfold IsUnit SE3.composition
  rw [so3_mk7]; exact so3_unit_composition _ _ ha hb

theorem matrix_composition (a b : Vec ℝ 7) (ha : IsUnit a) (hb : IsUnit b) :
    SE3.matrix (SE3.composition a b) = mmul (SE3.matrix a) (SE3.matrix b) := by
  rw [matrix_eq_homRt, matrix_eq_homRt a, matrix_eq_homRt b, homRt_mul]
  unfold SE3.composition
  rw [so3_mk7, r3_mk7, so3_matrix_composition _ _ ha hb, memoM_eq']

theorem homRt_ident : homRt (ident 3) (vzero 3) = ident 4 := by
  ext i j
  fin_cases i <;> fin_cases j <;> simp [homRt, ident, vzero]

theorem matrix_right_inverse (g : Vec ℝ 7) (h : IsUnit g) :
    ∃ N, mmul (SE3.matrix g) N = ident 4 := by
  refine ⟨homRt (transpose (SO3.matrix (SE3.so3 g)))
    (vneg (mulVec (transpose (SO3.matrix (SE3.so3 g))) (SE3.r3 g))), ?_⟩
  have hO := so3_matrix_mul_transpose _ h
  rw [matrix_eq_homRt, homRt_mul, hO, ← homRt_ident]
  congr 1
  have e : mulVec (SO3.matrix (SE3.so3 g)) (vneg (mulVec (transpose (SO3.matrix (SE3.so3 g))) (SE3.r3 g)))
      = vneg (SE3.r3 g) := by
    have : vneg (mulVec (transpose (SO3.matrix (SE3.so3 g))) (SE3.r3 g))
        = mulVec (transpose (SO3.matrix (SE3.so3 g))) (vneg (SE3.r3 g)) := by
      ext i; simp [mulVec_apply, vneg]
    rw [this, mulVec_mulVec, hO, mulVec_ident]
  rw [e]; ext i; simp [vadd, vneg, vzero]

theorem Ad_composition (g₁ g₂ : Vec ℝ 7) (h₁ : IsUnit g₁) (h₂ : IsUnit g₂) :
    SE3.Ad (SE3.composition g₁ g₂) = mmul (SE3.Ad g₁) (SE3.Ad g₂) :=
  Ad_comp_of (SE3.model : LieModel ℝ) IsUnit vee_hat (fun g a h => Ad_def g h a)
    unit_composition matrix_composition matrix_right_inverse g₁ g₂ h₁ h₂

theorem adjointRep : AdjointRep (SE3.model : LieModel ℝ) IsUnit InAlgebra where
  vee_hat := vee_hat
  hat_inAlg := hat_inAlgebra
  hat_vee := hat_vee
  hat_add := hat_add
  hat_smul := hat_smul
  Ad_def := fun g a h => Ad_def g h a
  ad_def := ad_def
  Ad_comp := Ad_composition

end SE3
end C03
