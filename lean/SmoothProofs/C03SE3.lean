/-
  C03SE3.lean — C03 for SE3 (semidirect product ℝ³ ⋊ SO3; group (x y z qx qy qz qw), tangent (v, Ω)).
-/
import SmoothProofs.C03Adjoint
import SmoothProofs.C03SO3

open Lin Scalar
set_option linter.unusedSimpArgs false
set_option linter.unusedTactic false
set_option linter.unreachableTactic false
set_option linter.unnecessarySeqFocus false

namespace C03

/-- the top-left 3×3 block is skew-symmetric -/
def SkewTL {n : Nat} (A : Mat ℝ (3 + n) (3 + n)) : Prop :=
  ∀ i j : Fin 3, A ⟨j.val, by omega⟩ ⟨i.val, by omega⟩ = -(A ⟨i.val, by omega⟩ ⟨j.val, by omega⟩)

namespace SE3

/-- representation constraint: unit quaternion part -/
def IsUnit (g : Vec ℝ 7) : Prop := UnitQ (SE3.so3 g)

/-- documented algebra se(3): skew 3×3 block, free last column above a zero last row -/
def InAlgebra (A : Mat ℝ 4 4) : Prop := SkewTL (n := 1) A ∧ ∀ j, A 3 j = 0

theorem vee_hat (a : Vec ℝ 6) : SE3.vee (SE3.hat a) = a := by
  ext i
  fin_cases i <;> simp [SE3.vee, SE3.hat, SE3.mk6, SE3.tw, SO3.vee, SO3.hat] <;> ring

theorem hat_inAlgebra (a : Vec ℝ 6) : InAlgebra (SE3.hat a) := by
  refine ⟨?_, ?_⟩
  · intro i j
    fin_cases i <;> fin_cases j <;> simp [SE3.hat, SE3.tw, SO3.hat]
  · intro j; simp [SE3.hat]

theorem hat_vee (A : Mat ℝ 4 4) (h : InAlgebra A) : SE3.hat (SE3.vee A) = A := by
  obtain ⟨hs, hr⟩ := h
  have h00 := hs 0 0; have h11 := hs 1 1; have h22 := hs 2 2
  have h01 := hs 0 1; have h02 := hs 0 2; have h12 := hs 1 2
  have r0 := hr 0; have r1 := hr 1; have r2 := hr 2; have r3 := hr 3
  simp at h00 h11 h22 h01 h02 h12
  ext i j
  fin_cases i <;> fin_cases j <;>
    simp [SE3.vee, SE3.hat, SE3.mk6, SE3.tw, SO3.vee, SO3.hat, r0, r1, r2, r3] <;> linarith

theorem hat_add (a b : Vec ℝ 6) : SE3.hat (vadd a b) = madd (SE3.hat a) (SE3.hat b) := by
  ext i j
  fin_cases i <;> fin_cases j <;> simp [SE3.hat, SE3.tw, SO3.hat, vadd, madd] <;> ring

theorem hat_smul (s : ℝ) (a : Vec ℝ 6) : SE3.hat (vsmul s a) = msmul s (SE3.hat a) := by
  ext i j
  fin_cases i <;> fin_cases j <;> simp [SE3.hat, SE3.tw, SO3.hat, vsmul, msmul]

theorem ad_def (a b : Vec ℝ 6) :
    SE3.hat (mulVec (SE3.ad a) b) = msub (mmul (SE3.hat a) (SE3.hat b)) (mmul (SE3.hat b) (SE3.hat a)) := by
  ext i j
  fin_cases i <;> fin_cases j <;>
    simp [SE3.ad, SE3.hat, SE3.blk22, SE3.tw, SE3.tv, SO3.hat, mzero, mmul, mulVec, msub, vsum] <;> ring

end SE3
end C03
