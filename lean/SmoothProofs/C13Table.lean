/-
  C13Table.lean — from the kernel-checked rational knot identities (C13Knot.lean) to the basis
  jets `bd` that the model's loop uses, for the basis matrix obtained by casting a rational table.
-/
import SmoothProofs.C13Knot
import SmoothProofs.C13Cont
import SmoothProofs.C11Deriv
import Mathlib.Data.Rat.Cast.Order
import Mathlib.Algebra.BigOperators.Group.List.Basic
import Mathlib.Algebra.BigOperators.Intervals

open Lin Scalar

namespace C13

/-- the model's basis matrix for a rational coefficient table -/
noncomputable def castTab (T : Poly.Tab Rat) (K : Nat) : Mat ℝ (K + 1) (K + 1) :=
  .of (fun i j => ((T.get i.val j.val : Rat) : ℝ))

theorem descFact_eq (r : Nat) : ∀ d, descFact r d = r.descFactorial d
  | 0 => by simp [descFact]
  | d + 1 => by
    have ih := descFact_eq r d
    unfold descFact at ih ⊢
    rw [List.range_succ, List.foldl_append, ih]
    simp [Nat.descFactorial_succ, Nat.mul_comm]

theorem list_sum_range (f : Nat → ℝ) : ∀ n, ((List.range n).map f).sum = ∑ i ∈ Finset.range n, f i
  | 0 => by simp
  | n + 1 => by rw [List.range_succ, List.map_append, List.sum_append, list_sum_range f n, Finset.sum_range_succ]; simp

theorem cast_colDeriv1 (T : Poly.Tab Rat) (K d j : Nat) :
    ((colDeriv1 T K d j : Rat) : ℝ) = ∑ r ∈ Finset.range (K + 1), (r.descFactorial d : ℝ) * ((T.get r j : Rat) : ℝ) := by
  unfold colDeriv1
  rw [← list_sum_range, Rat.cast_list_sum, List.map_map]
  congr 1
  apply List.map_congr_left
  intro r _
  simp [descFact_eq]

/-- jet at `u = 1` -/
theorem bd_one (T : Poly.Tab Rat) {K : Nat} (p : Nat) (j : Fin K) :
    bd (castTab T K) 1 p j = ((colDeriv1 T K p (j.val + 1) : Rat) : ℝ) := by
  unfold bd
  rw [C11.bdot_monomial_eq, cast_colDeriv1, Finset.sum_range]
  apply Finset.sum_congr rfl
  intro r _
  simp [castTab]

/-- jet at `u = 0` -/
theorem bd_zero (T : Poly.Tab Rat) {K : Nat} (p : Nat) (hp : p ≤ K) (j : Fin K) :
    bd (castTab T K) 0 p j = ((colDeriv0 T p (j.val + 1) : Rat) : ℝ) := by
  unfold bd colDeriv0
  rw [C11.bdot_monomial_eq]
  rw [Finset.sum_eq_single (⟨p, by omega⟩ : Fin (K + 1))]
  · simp [castTab, descFact_eq, Nat.descFactorial_self]
  · intro r _ hr
    have hne : r.val ≠ p := fun h => hr (Fin.ext h)
    rcases Nat.lt_or_gt_of_ne hne with h | h
    · rw [Nat.descFactorial_of_lt h]; simp
    · have : r.val - p ≠ 0 := by omega
      simp [zero_pow this]
  · intro h; exact absurd (Finset.mem_univ _) h

theorem within_zero {x : Rat} (h : within x 0 = true) : x = 0 := by
  unfold within at h
  simp only [Bool.and_eq_true, decide_eq_true_eq, neg_zero] at h
  exact le_antisymm h.1 h.2

/-- the individual identities packed in `knotIdent T K 0` -/
theorem knotIdent_spec {T : Poly.Tab Rat} {K : Nat} (h : knotIdent T K 0 = true) (d : Nat) (hd : d < K) :
    colDeriv1 T K d 1 = (if d = 0 then 1 else 0) ∧
    (∀ j', j' < K - 1 → colDeriv1 T K d (j' + 2) = colDeriv0 T d (j' + 1)) ∧
    colDeriv0 T d K = 0 := by
  unfold knotIdent at h
  rw [List.all_eq_true] at h
  have hd' := h d (List.mem_range.mpr hd)
  simp only [Bool.and_eq_true, List.all_eq_true] at hd'
  obtain ⟨⟨h1, h2⟩, h3⟩ := hd'
  refine ⟨?_, ?_, within_zero h3⟩
  · have := within_zero h1; exact sub_eq_zero.mp this
  · intro j' hj'
    have := within_zero (h2 j' (List.mem_range.mpr hj'))
    exact sub_eq_zero.mp this

/-- hypotheses of `knot_continuity_vel/acc`, orders `d < n+1 = K`, for a table with `knotIdent` -/
theorem jets_of_table {T : Poly.Tab Rat} {n : Nat} (h : knotIdent T (n + 1) 0 = true) (d : Nat) (hd : d < n + 1) :
    bd (castTab T (n + 1)) 1 d (0 : Fin (n + 1)) = (if d = 0 then 1 else 0) ∧
    (∀ j : Fin n, bd (castTab T (n + 1)) 1 d j.succ = bd (castTab T (n + 1)) 0 d j.castSucc) ∧
    bd (castTab T (n + 1)) 0 d (Fin.last n) = 0 := by
  obtain ⟨h1, h2, h3⟩ := knotIdent_spec h d hd
  refine ⟨?_, ?_, ?_⟩
  · rw [bd_one]
    simp only [Fin.val_zero, Nat.zero_add]
    rw [h1]; split_ifs <;> simp
  · intro j
    rw [bd_one, bd_zero T d (by omega)]
    have := h2 j.val (by have := j.isLt; omega)
    simp only [Fin.val_succ, Fin.val_castSucc]
    rw [show j.val + 1 + 1 = j.val + 2 by omega, this]
  · rw [bd_zero T d (by omega)]
    simp only [Fin.val_last]
    rw [h3]; simp

end C13
