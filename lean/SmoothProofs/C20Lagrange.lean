/-
  C20Lagrange.lean — `lagrange_basis<K>(ts)` of the Poly model at ℝ interpolates for pairwise distinct
  nodes, every K: loop invariants of the two nested in-place loops of the C++.
-/
import Mathlib.Algebra.BigOperators.Intervals
import Mathlib.Algebra.BigOperators.Field
import Mathlib.Tactic.Ring
import Mathlib.Tactic.Linarith
import Mathlib.Tactic.FieldSimp
import SmoothProofs.C20Bernstein
import SmoothProofs.C20Mono

set_option linter.unusedSimpArgs false

namespace C20L
open Poly Finset Scalar

theorem modAt_length (l : List ℝ) (i : Nat) (f : ℝ → ℝ) : (modAt l i f).length = l.length := by
  induction l generalizing i with
  | nil => rfl
  | cons x xs ih => rcases i with _ | i <;> simp [modAt, ih]

theorem rget_modAt (l : List ℝ) (i : Nat) (f : ℝ → ℝ) (k : Nat) :
    rget (modAt l i f) k = if k = i ∧ i < l.length then f (rget l i) else rget l k := by
  induction l generalizing i k with
  | nil => simp [modAt, rget]
  | cons x xs ih =>
    rcases i with _ | i
    · rcases k with _ | k <;> simp [modAt, rget]
    · rcases k with _ | k
      · simp [modAt, rget]
      · rw [modAt, C20M.rget_cons_succ, C20M.rget_cons_succ, C20M.rget_cons_succ, ih i k]
        simp

theorem forRange_succ_right {σ : Type} (m : Nat) (s : σ) (f : Nat → σ → σ) :
    forRange 0 (m+1) s f = f m (forRange 0 m s f) := by
  unfold forRange
  simp [List.range_succ, List.foldl_append]

/-- one factor: the inner loop of `lagrange_basis` (multiply by `(x − tc)/d`) -/
noncomputable def lagStep (K : Nat) (rc : List ℝ) (tc d : ℝ) (m : Nat) : List ℝ :=
  forRange 0 m (rowFn (K+1) fun _ => (0:ℝ)) fun i r =>
    modAt (modAt r (i+1) fun x => x + rget rc i / d) i fun x => x - (tc * rget rc i) / d

theorem lagStep_spec (K : Nat) (rc : List ℝ) (tc d : ℝ) (m : Nat) (hm : m ≤ K) :
    (lagStep K rc tc d m).length = K + 1 ∧
    ∀ k, rget (lagStep K rc tc d m) k
      = (if 1 ≤ k ∧ k ≤ m then rget rc (k-1) / d else 0) - (if k < m then tc * rget rc k / d else 0) := by
  induction m with
  | zero =>
    refine ⟨by simp [lagStep, forRange, rowFn], fun k => ?_⟩
    have : ¬ (1 ≤ k ∧ k ≤ 0) := by omega
    rw [show lagStep K rc tc d 0 = rowFn (K+1) (fun _ => (0:ℝ)) from rfl, C20B.rget_rowFn, if_neg this,
      if_neg (Nat.not_lt_zero k)]
    simp
  | succ m ih =>
    obtain ⟨hl, hg⟩ := ih (by omega)
    unfold lagStep at hl hg ⊢
    rw [forRange_succ_right]
    refine ⟨by rw [modAt_length, modAt_length, hl], fun k => ?_⟩
    rw [rget_modAt, modAt_length, hl, rget_modAt, hl, rget_modAt, hl]
    have h1 : m + 1 < K + 1 := by omega
    have h2 : m < K + 1 := by omega
    by_cases hk1 : k = m
    · subst hk1
      have : ¬ (k = k + 1 ∧ k + 1 < K + 1) := by omega
      simp only [true_and, h2, if_true, this, if_false, hg]
      have a1 : ¬ (1 ≤ k ∧ k ≤ k + 1) ∨ True := Or.inr trivial
      by_cases hk0 : 1 ≤ k
      · have e1 : (1 ≤ k ∧ k ≤ k) := ⟨hk0, le_refl k⟩
        have e2 : (1 ≤ k ∧ k ≤ k + 1) := ⟨hk0, by omega⟩
        simp [e1, e2]
      · have e1 : ¬ (1 ≤ k ∧ k ≤ k) := by omega
        have e2 : ¬ (1 ≤ k ∧ k ≤ k + 1) := by omega
        simp [e1, e2]
    · have n1 : ¬ (k = m ∧ m < K + 1) := by tauto
      rw [if_neg n1]
      by_cases hk2 : k = m + 1
      · subst hk2
        have e1 : ¬ (1 ≤ m + 1 ∧ m + 1 ≤ m) := by omega
        have e2 : (1 ≤ m + 1 ∧ m + 1 ≤ m + 1) := ⟨by omega, le_refl _⟩
        simp [h1, hg, e1, e2]
      · have n2 : ¬ (k = m + 1 ∧ m + 1 < K + 1) := by tauto
        rw [if_neg n2, hg]
        by_cases hkm : k < m
        · have : k < m + 1 := by omega
          by_cases hk0 : 1 ≤ k
          · have e1 : (1 ≤ k ∧ k ≤ m) := ⟨hk0, by omega⟩
            have e2 : (1 ≤ k ∧ k ≤ m + 1) := ⟨hk0, by omega⟩
            simp [e1, e2, hkm, this]
          · have e1 : ¬ (1 ≤ k ∧ k ≤ m) := by omega
            have e2 : ¬ (1 ≤ k ∧ k ≤ m + 1) := by omega
            simp [e1, e2, hkm, this]
        · have : ¬ k < m + 1 := by omega
          have e1 : ¬ (1 ≤ k ∧ k ≤ m) := by omega
          have e2 : ¬ (1 ≤ k ∧ k ≤ m + 1) := by omega
          simp [e1, e2, hkm, this]

/-- value of a coefficient list of length K+1 -/
noncomputable def pev (K : Nat) (r : List ℝ) (x : ℝ) : ℝ := ∑ k ∈ range (K+1), rget r k * x ^ k

/-- the step multiplies the polynomial by `(x − tc)/d` and raises the degree bound by one -/
theorem lagStep_pev (K : Nat) (rc : List ℝ) (tc d x : ℝ) (m : Nat) (hm : m ≤ K)
    (hz : ∀ k, m ≤ k → rget rc k = 0) :
    pev K (lagStep K rc tc d m) x = (x - tc) / d * pev K rc x ∧ ∀ k, m + 1 ≤ k → rget (lagStep K rc tc d m) k = 0 := by
  obtain ⟨_, hg⟩ := lagStep_spec K rc tc d m hm
  constructor
  · unfold pev
    simp only [hg]
    have hA : ∑ k ∈ range (K+1), (if 1 ≤ k ∧ k ≤ m then rget rc (k-1) / d else 0) * x ^ k
        = x / d * ∑ k ∈ range (K+1), rget rc k * x ^ k := by
      rw [Finset.sum_range_succ' _ K]
      have : ¬ (1 ≤ 0 ∧ 0 ≤ m) := by omega
      simp only [this, if_false, zero_mul, add_zero]
      rw [Finset.sum_range_succ _ K, hz K hm, zero_mul, add_zero, Finset.mul_sum]
      apply Finset.sum_congr rfl
      intro k hk
      by_cases hkm : k + 1 ≤ m
      · have : 1 ≤ k + 1 ∧ k + 1 ≤ m := ⟨by omega, hkm⟩
        rw [if_pos this, Nat.add_sub_cancel, pow_succ]; ring
      · have : ¬ (1 ≤ k + 1 ∧ k + 1 ≤ m) := by omega
        rw [if_neg this, hz k (by omega)]; ring
    have hB : ∑ k ∈ range (K+1), (if k < m then tc * rget rc k / d else 0) * x ^ k
        = tc / d * ∑ k ∈ range (K+1), rget rc k * x ^ k := by
      rw [Finset.mul_sum]
      apply Finset.sum_congr rfl
      intro k _
      by_cases hkm : k < m
      · rw [if_pos hkm]; ring
      · rw [if_neg hkm, hz k (by omega)]; ring
    simp only [sub_mul, Finset.sum_sub_distrib, hA, hB]
    ring
  · intro k hk
    rw [hg]
    have e1 : ¬ (1 ≤ k ∧ k ≤ m) := by omega
    have e2 : ¬ k < m := by omega
    simp [e1, e2]

/-- number of factors processed before column `c` -/
def nfac (row c : Nat) : Nat := c - (if row < c then 1 else 0)

/-- the outer loop of `lagrange_basis` for one row, up to column `c` -/
noncomputable def lagOuter (K : Nat) (ts : List ℝ) (row c : Nat) : List ℝ :=
  forRange 0 c (rowFn (K+1) fun i => if i = 0 then (1:ℝ) else 0) fun col r =>
    if col = row then r
    else lagStep K r (rget ts col) (rget ts row - rget ts col) (col - (if row < col then 1 else 0) + 1)

theorem lagrangeRow_eq (K : Nat) (ts : List ℝ) (row : Nat) : lagrangeRow K ts row = lagOuter K ts row (K+1) := by
  unfold lagrangeRow lagOuter lagStep
  simp only [Scalar.nat_real, Nat.cast_one, Nat.cast_zero]

theorem lagOuter_spec (K : Nat) (ts : List ℝ) (row : Nat) (hrow : row ≤ K) (x : ℝ) :
    ∀ c, c ≤ K + 1 →
      pev K (lagOuter K ts row c) x
        = ∏ col ∈ (range c).filter (· ≠ row), (x - rget ts col) / (rget ts row - rget ts col) ∧
      ∀ k, nfac row c + 1 ≤ k → rget (lagOuter K ts row c) k = 0 := by
  intro c
  induction c with
  | zero =>
    intro _
    have h0 : lagOuter K ts row 0 = rowFn (K+1) (fun i => if i = 0 then (1:ℝ) else 0) := rfl
    constructor
    · rw [h0, pev]
      simp only [C20B.rget_rowFn]
      rw [Finset.sum_eq_single 0]
      · simp
      · intro b _ hb; simp [hb]
      · simp
    · intro k hk
      rw [h0, C20B.rget_rowFn]
      have : k ≠ 0 := by unfold nfac at hk; omega
      simp [this]
  | succ c ih =>
    intro hc
    obtain ⟨hp, hz⟩ := ih (by omega)
    unfold lagOuter at hp hz ⊢
    rw [forRange_succ_right]
    by_cases hcr : c = row
    · rw [if_pos hcr]
      constructor
      · rw [hp, Finset.range_add_one, Finset.filter_insert, if_neg (by simpa using hcr)]
      · intro k hk
        apply hz
        unfold nfac at hk ⊢
        subst hcr
        simp at hk ⊢
        omega
    · rw [if_neg hcr]
      have hm : c - (if row < c then 1 else 0) + 1 ≤ K := by
        by_cases h : row < c
        · rw [if_pos h]; omega
        · rw [if_neg h]; omega
      have hz' : ∀ k, c - (if row < c then 1 else 0) + 1 ≤ k →
          rget (forRange 0 c (rowFn (K+1) fun i => if i = 0 then (1:ℝ) else 0) fun col r =>
            if col = row then r
            else lagStep K r (rget ts col) (rget ts row - rget ts col) (col - (if row < col then 1 else 0) + 1)) k = 0 := by
        intro k hk; exact hz k (by unfold nfac; exact hk)
      obtain ⟨hp', hz''⟩ := lagStep_pev K _ (rget ts c) (rget ts row - rget ts c) x _ hm hz'
      constructor
      · rw [hp', hp, Finset.range_add_one, Finset.filter_insert, if_pos (by simpa using hcr),
          Finset.prod_insert (by simp)]
      · intro k hk
        apply hz''
        unfold nfac at hk
        by_cases h : row < c
        · have h' : row < c + 1 := by omega
          rw [if_pos h'] at hk; rw [if_pos h]; omega
        · have h' : ¬ row < c + 1 := by omega
          rw [if_neg h'] at hk; rw [if_neg h]; omega

/-- column `i` of `lagrange_basis<K>(ts)` evaluates to the i-th Lagrange polynomial -/
theorem lagrange_eval (K : Nat) (ts : List ℝ) (i : Nat) (hi : i ≤ K) (x : ℝ) :
    evalCol (lagrange K ts) (K+1) i x
      = ∏ col ∈ (range (K+1)).filter (· ≠ i), (x - rget ts col) / (rget ts i - rget ts col) := by
  rw [C20B.evalCol_eq_sum, ← (lagOuter_spec K ts i hi x (K+1) (le_refl _)).1, pev]
  apply Finset.sum_congr rfl
  intro k hk
  have hk' : k < K + 1 := Finset.mem_range.mp hk
  congr 1
  unfold lagrange transpose
  rw [C20B.get_ofFn, if_pos ⟨hk', by omega⟩]
  unfold Tab.get
  have : ((List.range (K + 1)).map fun row => lagrangeRow K ts row).getD i [] = lagrangeRow K ts i := by
    simp [List.getD_eq_getElem?_getD, Nat.lt_succ_of_le hi]
  rw [this, lagrangeRow_eq]

/-- **lagrange_basis interpolates**: for pairwise distinct nodes `p_i(t_j) = δ_ij`, every K -/
theorem lagrange_interpolates (K : Nat) (ts : List ℝ)
    (hd : ∀ a b, a ≤ K → b ≤ K → a ≠ b → rget ts a ≠ rget ts b) (i j : Nat) (hi : i ≤ K) (hj : j ≤ K) :
    evalCol (lagrange K ts) (K+1) i (rget ts j) = if i = j then 1 else 0 := by
  rw [lagrange_eval K ts i hi]
  by_cases hij : i = j
  · subst hij
    rw [if_pos rfl]
    apply Finset.prod_eq_one
    intro col hcol
    have hc := Finset.mem_filter.mp hcol
    have : rget ts i - rget ts col ≠ 0 :=
      sub_ne_zero.mpr (hd i col hi (by have := Finset.mem_range.mp hc.1; omega) (Ne.symm hc.2))
    exact div_self this
  · rw [if_neg hij]
    apply Finset.prod_eq_zero (i := j)
    · exact Finset.mem_filter.mpr ⟨Finset.mem_range.mpr (by omega), Ne.symm hij⟩
    · simp

end C20L
