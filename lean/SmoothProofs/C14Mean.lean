/-
  C14Mean.lean — the segment polynomials of a coefficient vector and the bridge between the table
  rows of `fit_spline_1d` (C14Rows.lean) and derivatives of Bernstein polynomials (C14Bern.lean).
-/
import SmoothProofs.C14Rows
import SmoothProofs.C14Bern

open Polynomial Scalar Lin

namespace C14

/-- coefficients of segment `i` -/
def seg (K : ℕ) (x : ℕ → ℝ) (i : ℕ) : ℕ → ℝ := fun j => x (i * (K + 1) + j)

/-- segment `i` as a polynomial in time: `pᵢ(t) = Σₖ x_{i,k} b_{k,K}(t/dtᵢ)` -/
noncomputable def P (s : Fit.Spec) (dt : List ℝ) (x : ℕ → ℝ) (i : ℕ) : ℝ[X] :=
  Fit.segPoly s.K (seg s.K x i) (dt.getD i 0)

/-- segment `i` in its normalised parameter `u = t/dtᵢ` -/
noncomputable def Q (s : Fit.Spec) (x : ℕ → ℝ) (i : ℕ) : ℝ[X] := Fit.bezier s.K (seg s.K x i)

theorem segDot_u0 (K d : ℕ) (x : ℕ → ℝ) (i : ℕ) :
    Fit.segDot K (Fit.u0tB K d) x i = Fit.D0 K d (seg K x i) := by
  simp [Fit.segDot, Fit.u0tB, Fit.D0, seg]

theorem segDot_u1 (K d : ℕ) (x : ℕ → ℝ) (i : ℕ) :
    Fit.segDot K (Fit.u1tB K d) x i = Fit.D1 K d (seg K x i) := by
  simp [Fit.segDot, Fit.u1tB, Fit.D1, seg]

theorem P_deriv_at_start (s : Fit.Spec) (dt : List ℝ) (x : ℕ → ℝ) (i d : ℕ) (h : dt.getD i 0 ≠ 0) :
    (derivative^[d] (P s dt x i)).eval 0 = (1 / dt.getD i 0) ^ d * Fit.D0 s.K d (seg s.K x i) := by
  have := Fit.segPoly_deriv_eval s.K d (seg s.K x i) (dt.getD i 0) 0 h
  rw [zero_mul, Fit.bezier_deriv_eval_zero] at this
  exact this

theorem P_deriv_at_end (s : Fit.Spec) (dt : List ℝ) (x : ℕ → ℝ) (i d : ℕ) (h : dt.getD i 0 ≠ 0) :
    (derivative^[d] (P s dt x i)).eval (dt.getD i 0)
      = (1 / dt.getD i 0) ^ d * Fit.D1 s.K d (seg s.K x i) := by
  have := Fit.segPoly_deriv_eval s.K d (seg s.K x i) (dt.getD i 0) 1 h
  rw [one_mul, Fit.bezier_deriv_eval_one] at this
  exact this

theorem D0_one_3 (ξ : ℕ → ℝ) : Fit.D0 3 1 ξ = 3 * (ξ 1 - ξ 0) := by
  simp [Fit.D0, Fit.u0tBI, Fit.bernI, Fit.choose, Fit.fact, Finset.sum_range_succ]; ring
theorem D0_one_5 (ξ : ℕ → ℝ) : Fit.D0 5 1 ξ = 5 * (ξ 1 - ξ 0) := by
  simp [Fit.D0, Fit.u0tBI, Fit.bernI, Fit.choose, Fit.fact, Finset.sum_range_succ]; ring
theorem D0_one_6 (ξ : ℕ → ℝ) : Fit.D0 6 1 ξ = 6 * (ξ 1 - ξ 0) := by
  simp [Fit.D0, Fit.u0tBI, Fit.bernI, Fit.choose, Fit.fact, Finset.sum_range_succ]; ring

end C14
