/-
  C04SEK3.lean — SE_K(3), every `k`: `dr_exp a · dr_expinv a = I` (and the other order) in the closed
  branch of the rotational part.  Both Jacobians are "arrow" block matrices (`C03.SEK3.arrowB`):
  diagonal blocks `J` resp. `J⁻¹`, last block column `Q_i` resp. `−J⁻¹ Q_i J⁻¹`, zero elsewhere.
-/
import SmoothProofs.C04SE3
import SmoothProofs.C03SEK3
import SmoothProofs.C01Block

open Lin Scalar

namespace C04SEK3
open C03.SEK3
variable {k : Nat}

theorem arrow_cc (D : Mat ℝ 3 3) (E : Fin k → Mat ℝ 3 3) (i j : Fin k) :
    arrowB k D E i.castSucc j.castSucc = if i = j then D else mzero 3 3 := by
  have h2 : ¬ ((j.castSucc : Fin (k + 1)).val = k ∧ (i.castSucc : Fin (k + 1)).val < k) := by
    have := j.isLt; simp; omega
  by_cases hij : i = j
  · subst hij; simp [arrowB]
  · have h1 : ¬ ((i.castSucc : Fin (k + 1)).val = (j.castSucc : Fin (k + 1)).val) := by
      simpa [Fin.ext_iff] using hij
    simp only [arrowB, if_neg h1, dif_neg h2, if_neg hij]

theorem arrow_cl (D : Mat ℝ 3 3) (E : Fin k → Mat ℝ 3 3) (i : Fin k) :
    arrowB k D E i.castSucc (Fin.last k) = E i := by
  have h1 : ¬ ((i.castSucc : Fin (k + 1)).val = (Fin.last k).val) := by
    have := i.isLt; simp; omega
  have h2 : (Fin.last k).val = k ∧ (i.castSucc : Fin (k + 1)).val < k := ⟨rfl, i.isLt⟩
  simp only [arrowB, if_neg h1, dif_pos h2]
  rfl

theorem arrow_lc (D : Mat ℝ 3 3) (E : Fin k → Mat ℝ 3 3) (j : Fin k) :
    arrowB k D E (Fin.last k) j.castSucc = mzero 3 3 := by
  have h1 : ¬ ((Fin.last k).val = (j.castSucc : Fin (k + 1)).val) := by
    have := j.isLt; simp; omega
  have h2 : ¬ ((j.castSucc : Fin (k + 1)).val = k ∧ (Fin.last k).val < k) := by simp
  simp only [arrowB, if_neg h1, dif_neg h2]

theorem arrow_ll (D : Mat ℝ 3 3) (E : Fin k → Mat ℝ 3 3) :
    arrowB k D E (Fin.last k) (Fin.last k) = D := by
  simp [arrowB]

theorem mmul_mzero_left (B : Mat ℝ 3 3) : mmul (mzero 3 3) B = mzero 3 3 := by
  ext i j; simp [C04Alg.mmul3, mzero]

theorem mmul_mzero_right (A : Mat ℝ 3 3) : mmul A (mzero 3 3) = mzero 3 3 := by
  ext i j; simp [C04Alg.mmul3, mzero]

/-- entries of a product of two block matrices, by blocks -/
theorem ofBlocks_mmul_apply (B B' : Fin (k + 1) → Fin (k + 1) → Mat ℝ 3 3) (bi bj : Fin (k + 1))
    (c c' : Fin 3) :
    (mmul (SEK3.ofBlocks k B) (SEK3.ofBlocks k B'))
        ⟨3 * bi.val + c.val, by have := bi.isLt; have := c.isLt; omega⟩
        ⟨3 * bj.val + c'.val, by have := bj.isLt; have := c'.isLt; omega⟩
      = ∑ bl, (mmul (B bi bl) (B' bl bj)) c c' := by
  rw [mmul_apply, sum_blocks3]
  simp only [ofBlocks_apply, mmul_apply]

/-- product of two arrow matrices is the arrow matrix of the block products -/
theorem arrow_mul (D D' : Mat ℝ 3 3) (E E' : Fin k → Mat ℝ 3 3) (bi bj : Fin (k + 1)) :
    (∑ bl, toM (mmul (arrowB k D E bi bl) (arrowB k D' E' bl bj)))
      = toM (arrowB k (mmul D D') (fun i => madd (mmul D (E' i)) (mmul (E i) D')) bi bj) := by
  rw [Fin.sum_univ_castSucc]
  induction bi using Fin.lastCases with
  | last =>
    induction bj using Fin.lastCases with
    | last => simp [arrow_lc, arrow_ll, mmul_mzero_left, toM_mzero]
    | cast j => simp [arrow_lc, arrow_ll, mmul_mzero_left, mmul_mzero_right, toM_mzero]
  | cast i =>
    induction bj using Fin.lastCases with
    | last =>
      simp only [arrow_cc, arrow_cl, arrow_ll]
      rw [Finset.sum_eq_single i]
      · simp [toM_madd]
      · intro l _ hl
        rw [if_neg (Ne.symm hl), mmul_mzero_left, toM_mzero]
      · simp
    | cast j =>
      simp only [arrow_cc, arrow_cl, arrow_lc, mmul_mzero_right, toM_mzero, add_zero]
      rw [Finset.sum_eq_single i]
      · by_cases hij : i = j
        · subst hij; simp
        · simp [hij, mmul_mzero_right, toM_mzero]
      · intro l _ hl
        rw [if_neg (Ne.symm hl), mmul_mzero_left, toM_mzero]
      · simp

theorem dr_exp_eq_arrow (a : Vec ℝ (3 + 3 * k)) :
    SEK3.dr_exp k a = SEK3.ofBlocks k (arrowB k (SO3.dr_exp (SEK3.tw k a))
      (fun i => SE3.calculate_q (vneg (SEK3.tv k a i)) (vneg (SEK3.tw k a)))) := by
  simp only [SEK3.dr_exp, memoM_eq]; rfl

theorem dr_expinv_eq_arrow (a : Vec ℝ (3 + 3 * k)) :
    SEK3.dr_expinv k a = SEK3.ofBlocks k (arrowB k (SO3.dr_expinv (SEK3.tw k a))
      (fun i => mmul (mmul (mneg (SO3.dr_expinv (SEK3.tw k a)))
        (SE3.calculate_q (vneg (SEK3.tv k a i)) (vneg (SEK3.tw k a)))) (SO3.dr_expinv (SEK3.tw k a)))) := by
  simp only [SEK3.dr_expinv, memoM_eq]; rfl

/-- the arrow matrix with `D = I`, `E = 0` is the identity -/
theorem arrow_ident_apply (bi bj : Fin (k + 1)) (c c' : Fin 3) :
    (arrowB k (ident 3) (fun _ => mzero 3 3) bi bj) c c'
      = (ident (3 + 3 * k) : Mat ℝ (3 + 3 * k) (3 + 3 * k))
          ⟨3 * bi.val + c.val, by have := bi.isLt; have := c.isLt; omega⟩
          ⟨3 * bj.val + c'.val, by have := bj.isLt; have := c'.isLt; omega⟩ := by
  have hc := c.isLt
  have hc' := c'.isLt
  rw [ident_apply]
  by_cases hb : bi.val = bj.val
  · have : (⟨3 * bi.val + c.val, by have := bi.isLt; omega⟩ : Fin (3 + 3 * k))
        = ⟨3 * bj.val + c'.val, by have := bj.isLt; omega⟩ ↔ c = c' := by
      rw [Fin.ext_iff, Fin.ext_iff]; simp only []; omega
    simp only [arrowB, if_pos hb, ident_apply, this]
  · have hne : ¬ ((⟨3 * bi.val + c.val, by have := bi.isLt; omega⟩ : Fin (3 + 3 * k))
        = ⟨3 * bj.val + c'.val, by have := bj.isLt; omega⟩) := by
      rw [Fin.ext_iff]; simp only []; omega
    rw [if_neg hne]
    simp only [arrowB, if_neg hb]
    split_ifs <;> simp [mzero]

theorem idx_decomp (i : Fin (3 + 3 * k)) : ∃ (bi : Fin (k + 1)) (c : Fin 3),
    i = ⟨3 * bi.val + c.val, by have := bi.isLt; have := c.isLt; omega⟩ := by
  have hi := i.isLt
  exact ⟨⟨i.val / 3, by omega⟩, ⟨i.val % 3, Nat.mod_lt _ (by decide)⟩, Fin.ext (by simp only []; omega)⟩

/-- generic: an arrow matrix `(J, Q_i)` times the arrow matrix `(J⁻¹, −J⁻¹ Q_i J⁻¹)` is `I` -/
theorem arrow_inverse (J Ji : Mat ℝ 3 3) (Q : Fin k → Mat ℝ 3 3) (h : mmul J Ji = ident 3) :
    mmul (SEK3.ofBlocks k (arrowB k J Q))
      (SEK3.ofBlocks k (arrowB k Ji (fun i => mmul (mmul (mneg Ji) (Q i)) Ji)))
      = ident (3 + 3 * k) := by
  ext i j
  obtain ⟨bi, c, rfl⟩ := idx_decomp i
  obtain ⟨bj, c', rfl⟩ := idx_decomp j
  rw [ofBlocks_mmul_apply, ← arrow_ident_apply]
  have hsum := congrFun (congrFun (arrow_mul (k := k) J Ji Q
    (fun i => mmul (mmul (mneg Ji) (Q i)) Ji) bi bj) c) c'
  rw [Matrix.sum_apply] at hsum
  simp only [toM_apply] at hsum
  rw [hsum, h]
  have hz : ∀ i : Fin k, madd (mmul J (mmul (mmul (mneg Ji) (Q i)) Ji)) (mmul (Q i) Ji) = mzero 3 3 :=
    fun i => C04SE3.upper_block_cancel J Ji (Q i) h
  simp only [hz]

theorem arrow_inverse' (J Ji : Mat ℝ 3 3) (Q : Fin k → Mat ℝ 3 3) (h : mmul Ji J = ident 3) :
    mmul (SEK3.ofBlocks k (arrowB k Ji (fun i => mmul (mmul (mneg Ji) (Q i)) Ji)))
      (SEK3.ofBlocks k (arrowB k J Q)) = ident (3 + 3 * k) := by
  ext i j
  obtain ⟨bi, c, rfl⟩ := idx_decomp i
  obtain ⟨bj, c', rfl⟩ := idx_decomp j
  rw [ofBlocks_mmul_apply, ← arrow_ident_apply]
  have hsum := congrFun (congrFun (arrow_mul (k := k) Ji J
    (fun i => mmul (mmul (mneg Ji) (Q i)) Ji) Q bi bj) c) c'
  rw [Matrix.sum_apply] at hsum
  simp only [toM_apply] at hsum
  rw [hsum, h]
  have hz : ∀ i : Fin k, madd (mmul Ji (Q i)) (mmul (mmul (mmul (mneg Ji) (Q i)) Ji) J) = mzero 3 3 :=
    fun i => C04SE3.upper_block_cancel' J Ji (Q i) h
  simp only [hz]

theorem drExp_mul_drExpinv (a : Vec ℝ (3 + 3 * k)) (h : Scalar.eps2 < sqNorm (SEK3.tw k a))
    (hs : Real.sin (Real.sqrt (sqNorm (SEK3.tw k a))) ≠ 0) :
    mmul (SEK3.dr_exp k a) (SEK3.dr_expinv k a) = ident (3 + 3 * k) := by
  rw [dr_exp_eq_arrow, dr_expinv_eq_arrow]
  exact arrow_inverse _ _ _ (C04SO3.drExp_mul_drExpinv _ h hs)

theorem drExpinv_mul_drExp (a : Vec ℝ (3 + 3 * k)) (h : Scalar.eps2 < sqNorm (SEK3.tw k a))
    (hs : Real.sin (Real.sqrt (sqNorm (SEK3.tw k a))) ≠ 0) :
    mmul (SEK3.dr_expinv k a) (SEK3.dr_exp k a) = ident (3 + 3 * k) := by
  rw [dr_exp_eq_arrow, dr_expinv_eq_arrow]
  exact arrow_inverse' _ _ _ (C04SO3.drExpinv_mul_drExp _ h hs)

end C04SEK3
