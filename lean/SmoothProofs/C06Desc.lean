/-
  C06Desc.lean — nesting to ANY depth, on the descriptor language `GDesc` (the names the driver
  and the harness use: `B[SO3,T2,B[SE2,B[C1,T1]]]` …): the Bundle named by a descriptor list is
  `LayoutIso` to the flat Bundle of its leaves (`GDesc.leavesL`).
-/
import SmoothProofs.C06Assoc

open Lin Scalar
set_option linter.unusedSectionVars false
set_option linter.unusedVariables false

namespace C06

theorem LayoutIso.prod_congr_left {A A' : LieModel ℝ} (B : LieModel ℝ) (h : LayoutIso A A') :
    LayoutIso (Bundle.prod A B) (Bundle.prod A' B) := by
  obtain ⟨r, d, m, hr, hd, hm, rfl⟩ := h
  subst hr hd hm
  exact LayoutIso.refl _

theorem LayoutIso.prod_congr {A A' B B' : LieModel ℝ} (hA : LayoutIso A A') (hB : LayoutIso B B') :
    LayoutIso (Bundle.prod A B) (Bundle.prod A' B') :=
  (LayoutIso.prod_congr_left B hA).trans (LayoutIso.prod_congr_right A' hB)

end C06

namespace GDesc

mutual
  /-- the leaf (non-Bundle) descriptors of a descriptor, left to right -/
  def leaves : GDesc → List GDesc
    | .bundle ps => leavesL ps
    | .so2 => [.so2]
    | .so3 => [.so3]
    | .se2 => [.se2]
    | .se3 => [.se3]
    | .c1 => [.c1]
    | .gal => [.gal]
    | .tn n => [.tn n]
    | .sek3 k => [.sek3 k]
  def leavesL : List GDesc → List GDesc
    | [] => []
    | p :: ps => leaves p ++ leavesL ps
end

theorem models_append (xs ys : List GDesc) :
    (GDesc.models (xs ++ ys) : List (LieModel ℝ)) = GDesc.models xs ++ GDesc.models ys := by
  induction xs with
  | nil => rfl
  | cons x xs ih =>
    show GDesc.model x :: GDesc.models (xs ++ ys) = GDesc.model x :: (GDesc.models xs ++ GDesc.models ys)
    rw [ih]

open C06 in
/-- a leaf in front: `model d × Bundle(rest) ≅ Bundle (d :: leaves of rest)` -/
theorem leaf_cons (d : GDesc) (ps : List GDesc)
    (ih : LayoutIso (Bundle.bundle (GDesc.models ps : List (LieModel ℝ))) (Bundle.bundle (GDesc.models (leavesL ps)))) :
    LayoutIso (Bundle.bundle (GDesc.models (d :: ps) : List (LieModel ℝ)))
      (Bundle.bundle (GDesc.models ([d] ++ leavesL ps))) :=
  LayoutIso.prod_congr_right (GDesc.model d) ih

open C06 in
/-- every descriptor list: the (arbitrarily nested) Bundle has the layout and the operations of the
    flat Bundle of its leaves -/
theorem flatten_all : (ps : List GDesc) →
    LayoutIso (Bundle.bundle (GDesc.models ps : List (LieModel ℝ))) (Bundle.bundle (GDesc.models (leavesL ps)))
  | [] => LayoutIso.refl _
  | .bundle qs :: ps => by
    have h1 := flatten_all qs
    have h2 := flatten_all ps
    show LayoutIso (Bundle.prod (Bundle.bundle (GDesc.models qs)) (Bundle.bundle (GDesc.models ps)))
      (Bundle.bundle (GDesc.models (leavesL qs ++ leavesL ps)))
    rw [models_append]
    exact (LayoutIso.prod_congr h1 h2).trans (bundle_append _ _)
  | .so2 :: ps => leaf_cons .so2 ps (flatten_all ps)
  | .so3 :: ps => leaf_cons .so3 ps (flatten_all ps)
  | .se2 :: ps => leaf_cons .se2 ps (flatten_all ps)
  | .se3 :: ps => leaf_cons .se3 ps (flatten_all ps)
  | .c1 :: ps => leaf_cons .c1 ps (flatten_all ps)
  | .gal :: ps => leaf_cons .gal ps (flatten_all ps)
  | .tn n :: ps => leaf_cons (.tn n) ps (flatten_all ps)
  | .sek3 k :: ps => leaf_cons (.sek3 k) ps (flatten_all ps)

end GDesc
