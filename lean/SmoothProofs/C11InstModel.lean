/-
  C11InstModel.lean — the hypothesis record `LieCalculus G` (exactly the facts of C01–C03 the concrete
  instantiation of C11 uses) and the link between the executable model `CSpline.eval_vs` and the
  pointwise matrix recursion `curveAt` of C11InstSmooth.lean.

  `rel_eval_vs`: wherever every factor `exp(B̃_j(u)·v_j)` of the model is exact (`L.Dom`), the
  state returned by `CSpline.eval_vs` IS (through `matrix` / `hat`) the state of the abstract loop on
  the factors `exp(b_j(u) • hat v_j)`.
  `eval_vs_hasDerivAt`: hence `d/du matrix(g) = matrix(g)·hat(vel)`, `d/du vel = acc`, `d/du acc = jer`.
-/
import SmoothProofs.C11InstSmooth
import SmoothProofs.C11Bridge
import SmoothProofs.C11Deriv
import SmoothProofs.C01Group
import Mathlib.Analysis.Calculus.ContDiff.Basic
import Mathlib.Analysis.Calculus.Deriv.Pi
import Mathlib.Analysis.Calculus.Deriv.Prod
import Mathlib.Topology.Algebra.Module.FiniteDimension
import Mathlib.LinearAlgebra.Basis.VectorSpace

open Lin Scalar
open scoped ContDiff Topology

namespace C11

attribute [local instance] Matrix.linftyOpNormedRing Matrix.linftyOpNormedAlgebra

/-- **The facts about one group model that the concrete C11 theorems use.**
    `U` is the representation constraint (unit quaternion …, C01), `Dom` the set of tangent
    vectors on which the model's `exp` is exact (closed-form branch, or `a = 0`; C02). -/
structure LieCalculus (G : LieModel ℝ) where
  U : Vec ℝ G.rep → Prop
  Dom : Vec ℝ G.dof → Prop
  /-- C01: `matrix` is a group homomorphism on `U` -/
  grp : IsMatrixGroup G U
  /-- C03: `hat` is linear and injective -/
  hat_add : ∀ a b, G.hat (vadd a b) = madd (G.hat a) (G.hat b)
  hat_smul : ∀ (s : ℝ) a, G.hat (vsmul s a) = msmul s (G.hat a)
  hat_inj : ∀ a b, G.hat a = G.hat b → a = b
  /-- C03: `Ad g` is conjugation by `matrix g` (inverse-free form) -/
  Ad_def : ∀ g a, U g → mmul (G.matrix g) (G.hat a) = mmul (G.hat (mulVec (G.Ad g) a)) (G.matrix g)
  /-- C03: `ad a` is the commutator with `hat a` -/
  ad_def : ∀ a b, G.hat (mulVec (G.ad a) b)
      = msub (mmul (G.hat a) (G.hat b)) (mmul (G.hat b) (G.hat a))
  /-- C02: on `Dom`, `exp` lands in `U` and is the matrix exponential of `hat` -/
  exp_valid : ∀ a, Dom a → U (G.exp a)
  exp_matrix : ∀ a, Dom a → toM (G.matrix (G.exp a)) = NormedSpace.exp (toM (G.hat a))

theorem toM_madd' {n m : Nat} (A B : Mat ℝ n m) : toM (madd A B) = toM A + toM B := by
  ext i j; simp [madd]

theorem toM_msub' {n m : Nat} (A B : Mat ℝ n m) : toM (msub A B) = toM A - toM B := by
  ext i j; simp [msub]

theorem toM_msmul' {n m : Nat} (s : ℝ) (A : Mat ℝ n m) : toM (msmul s A) = s • toM A := by
  ext i j; simp [msmul]

theorem vec_of_get {n : Nat} (v : Vec ℝ n) : (Vec.of v.get : Vec ℝ n) = v := by
  ext i; rfl

namespace LieCalculus
variable {G : LieModel ℝ} (L : LieCalculus G)

/-- `hat` as a linear map into the matrix ring -/
noncomputable def ρ : (Fin G.dof → ℝ) →ₗ[ℝ] Mx G.dim where
  toFun v := toM (G.hat (Vec.of v))
  map_add' v w := by
    have e : (Vec.of (v + w) : Vec ℝ G.dof) = vadd (Vec.of v) (Vec.of w) := by ext i; simp [vadd]
    rw [e, L.hat_add, toM_madd']
  map_smul' s v := by
    have e : (Vec.of (s • v) : Vec ℝ G.dof) = vsmul s (Vec.of v) := by ext i; simp [vsmul]
    rw [e, L.hat_smul, toM_msmul']; rfl

theorem ρ_get (v : Vec ℝ G.dof) : L.ρ v.get = toM (G.hat v) := by
  show toM (G.hat (Vec.of v.get)) = _
  rw [vec_of_get]

theorem ρ_injective : Function.Injective L.ρ := by
  intro v w h
  have h' : G.hat (Vec.of v) = G.hat (Vec.of w) := toM_inj h
  have := L.hat_inj _ _ h'
  have e := congrArg Vec.get this
  exact e

theorem ρ_ad (x y : Vec ℝ G.dof) :
    L.ρ (mulVec (G.ad x) y).get = L.ρ x.get * L.ρ y.get - L.ρ y.get * L.ρ x.get := by
  rw [ρ_get, ρ_get, ρ_get, L.ad_def, toM_msub', toM_mmul, toM_mmul]

include L in
theorem toM_hat_smul (b : ℝ) (v : Vec ℝ G.dof) : toM (G.hat (vsmul b v)) = b • toM (G.hat v) := by
  rw [L.hat_smul, toM_msmul']

/-- `matrix (inverse (exp a)) = exp (−hat a)` on `Dom` -/
theorem matrix_inverse_exp (a : Vec ℝ G.dof) (hd : L.Dom a) :
    toM (G.matrix (G.inverse (G.exp a))) = NormedSpace.exp (-(toM (G.hat a))) := by
  have hl := congrArg toM (L.grp.matrix_inverse_left _ (L.exp_valid a hd))
  rw [toM_mmul, toM_ident, L.exp_matrix a hd] at hl
  calc toM (G.matrix (G.inverse (G.exp a)))
      = toM (G.matrix (G.inverse (G.exp a))) * (NormedSpace.exp (toM (G.hat a)) * NormedSpace.exp (-(toM (G.hat a)))) := by
        rw [mx_exp_mul_exp_neg, mul_one]
    _ = NormedSpace.exp (-(toM (G.hat a))) := by rw [← mul_assoc, hl, one_mul]

/-- `hat (Ad (inverse (exp a)) x) = exp(−hat a) · hat x · exp(hat a)` on `Dom` -/
theorem ρ_Ad_inverse_exp (a : Vec ℝ G.dof) (hd : L.Dom a) (x : Vec ℝ G.dof) :
    L.ρ (mulVec (G.Ad (G.inverse (G.exp a))) x).get
      = NormedSpace.exp (-(toM (G.hat a))) * L.ρ x.get * NormedSpace.exp (toM (G.hat a)) := by
  have hU := L.exp_valid a hd
  have hUi := L.grp.valid_inverse _ hU
  have hAd := congrArg toM (L.Ad_def _ x hUi)
  rw [toM_mmul, toM_mmul, L.matrix_inverse_exp a hd] at hAd
  rw [ρ_get, ρ_get, hAd, mul_assoc, mx_exp_neg_mul_exp, mul_one]

/-- the model state and the abstract state are the same thing read through `matrix` / `hat` -/
structure Rel (s : CSpline.St ℝ G) (a : AState (Mx G.dim)) : Prop where
  U : L.U s.g
  g : toM (G.matrix s.g) = a.g
  vel : L.ρ s.vel.get = a.vel
  acc : L.ρ s.acc.get = a.acc
  jer : L.ρ s.jer.get = a.jer

theorem rel_init : L.Rel ⟨G.identity, vzero _, vzero _, vzero _⟩ (initA : AState (Mx G.dim)) := by
  have hz : L.ρ (vzero G.dof : Vec ℝ G.dof).get = 0 := by
    have : (vzero G.dof : Vec ℝ G.dof).get = 0 := by funext i; simp [vzero]
    rw [this, map_zero]
  refine ⟨L.grp.valid_identity, ?_, hz, hz, hz⟩
  show toM (G.matrix G.identity) = 1
  rw [L.grp.matrix_identity, toM_ident]

theorem rel_step (Bj dBj d2Bj d3Bj : ℝ) (vj : Vec ℝ G.dof) (s : CSpline.St ℝ G) (a : AState (Mx G.dim))
    (h : L.Rel s a) (hd : L.Dom (vsmul Bj vj)) :
    L.Rel (CSpline.step G Bj dBj d2Bj d3Bj vj s)
      (stepFormula (NormedSpace.exp (Bj • toM (G.hat vj))) (NormedSpace.exp (-(Bj • toM (G.hat vj))))
        (toM (G.hat vj)) (algebraMap ℝ (Mx G.dim) dBj) (algebraMap ℝ (Mx G.dim) d2Bj)
        (algebraMap ℝ (Mx G.dim) d3Bj) a) := by
  have hAd : ∀ x : Vec ℝ G.dof, L.ρ (mulVec (G.Ad (G.inverse (G.exp (vsmul Bj vj)))) x).get
      = NormedSpace.exp (-(Bj • toM (G.hat vj))) * L.ρ x.get * NormedSpace.exp (Bj • toM (G.hat vj)) := by
    intro x
    rw [L.ρ_Ad_inverse_exp _ hd, L.toM_hat_smul]
  have hb := step_is_stepFormula G L.ρ L.ρ_ad Bj dBj d2Bj d3Bj vj s _ _ a.g a.gi hAd
  have himg : img G L.ρ s a.g a.gi = a := by
    cases a
    simp only [img, h.vel, h.acc, h.jer]
  rw [himg, L.ρ_get] at hb
  obtain ⟨h1, h2, h3⟩ := hb
  refine ⟨?_, ?_, h1, h2, h3⟩
  · show L.U (CSpline.step G Bj dBj d2Bj d3Bj vj s).g
    simp only [CSpline.step, memoV_eq]
    exact L.grp.valid_composition _ _ h.U (L.exp_valid _ hd)
  · show toM (G.matrix (CSpline.step G Bj dBj d2Bj d3Bj vj s).g) = a.g * NormedSpace.exp (Bj • toM (G.hat vj))
    simp only [CSpline.step, memoV_eq]
    rw [L.grp.matrix_composition _ _ h.U (L.exp_valid _ hd), toM_mmul, h.g, L.exp_matrix _ hd,
      L.toM_hat_smul]

end LieCalculus

/-! ### the basis polynomials are smooth -/

theorem bdot_contDiff {K : Nat} (B : Mat ℝ (K + 1) (K + 1)) (j : Fin (K + 1)) (p : Nat) :
    ContDiff ℝ ∞ (fun u => CSpline.bdot (CSpline.monomial_derivative K u p) B j) := by
  have hf : (fun u => CSpline.bdot (CSpline.monomial_derivative K u p) B j)
      = fun u => ∑ r : Fin (K + 1), ((r.val.descFactorial p : ℝ) * u ^ (r.val - p)) * B r j := by
    funext u; exact bdot_monomial_eq B j p u
  rw [hf]
  apply ContDiff.sum
  intro r _
  exact (contDiff_const.mul (contDiff_id.pow _)).mul contDiff_const

/-- the `p`-th derivative row of the cumulative basis used for difference `j` -/
noncomputable def bfun {K : Nat} (Bcum : Mat ℝ (K + 1) (K + 1)) (j : Fin K) (p : Nat) (u : ℝ) : ℝ :=
  CSpline.bdot (CSpline.monomial_derivative K u p) Bcum ⟨j.val + 1, by omega⟩

/-- factor data of difference `j` of the cumulative spline: `exp(B̃_{j+1}(u) • hat v_j)` -/
noncomputable def facOf (G : LieModel ℝ) {K : Nat} (vs : Fin K → Vec ℝ G.dof) (Bcum : Mat ℝ (K + 1) (K + 1))
    (j : Fin K) : FacData G.dim where
  A := toM (G.hat (vs j))
  b0 := bfun Bcum j 0
  b1 := bfun Bcum j 1
  b2 := bfun Bcum j 2
  b3 := bfun Bcum j 3
  s0 := bdot_contDiff Bcum _ 0
  s1 := bdot_contDiff Bcum _ 1
  s2 := bdot_contDiff Bcum _ 2
  s3 := bdot_contDiff Bcum _ 3
  h01 := fun u => bdot_hasDerivAt Bcum _ 0 u
  h12 := fun u => bdot_hasDerivAt Bcum _ 1 u
  h23 := fun u => bdot_hasDerivAt Bcum _ 2 u

/-- the abstract curve of the cumulative spline: the recursion on `exp(b_j(u) • hat v_j)`, `j = 0..K−1` -/
noncomputable def splineCurve (G : LieModel ℝ) {K : Nat} (vs : Fin K → Vec ℝ G.dof)
    (Bcum : Mat ℝ (K + 1) (K + 1)) (u : ℝ) : AState (Mx G.dim) :=
  curveAt ((List.finRange K).map (facOf G vs Bcum)) u

theorem rel_foldl {G : LieModel ℝ} (L : LieCalculus G) {K : Nat} (vs : Fin K → Vec ℝ G.dof)
    (Bcum : Mat ℝ (K + 1) (K + 1)) (u : ℝ)
    (hd : ∀ j : Fin K, L.Dom (vsmul (bfun Bcum j 0 u) (vs j))) (l : List (Fin K))
    (s : CSpline.St ℝ G) (a : AState (Mx G.dim)) (h : L.Rel s a) :
    L.Rel (l.foldl (fun s j => CSpline.step G (bfun Bcum j 0 u) (bfun Bcum j 1 u) (bfun Bcum j 2 u)
        (bfun Bcum j 3 u) (vs j) s) s)
      (l.foldl (fun a j => (facOf G vs Bcum j).stepAt u a) a) := by
  induction l generalizing s a with
  | nil => exact h
  | cons j l ih =>
    simp only [List.foldl_cons]
    apply ih
    exact L.rel_step _ _ _ _ _ s a h (hd j)

/-- **the model is the abstract curve** wherever all factors are exact -/
theorem rel_eval_vs {G : LieModel ℝ} (L : LieCalculus G) {K : Nat} (vs : Fin K → Vec ℝ G.dof)
    (Bcum : Mat ℝ (K + 1) (K + 1)) (u : ℝ)
    (hd : ∀ j : Fin K, L.Dom (vsmul (bfun Bcum j 0 u) (vs j))) :
    L.Rel (CSpline.eval_vs G vs Bcum u) (splineCurve G vs Bcum u) := by
  unfold CSpline.eval_vs splineCurve curveAt
  simp only [memoV_eq]
  rw [List.foldl_map]
  exact rel_foldl L vs Bcum u hd _ _ _ L.rel_init

/-- a linear left inverse of the injective `hat` (finite dimension) -/
theorem exists_vee {G : LieModel ℝ} (L : LieCalculus G) :
    ∃ g : Mx G.dim →ₗ[ℝ] (Fin G.dof → ℝ), ∀ v, g (L.ρ v) = v := by
  obtain ⟨g, hg⟩ := LinearMap.exists_leftInverse_of_injective L.ρ (LinearMap.ker_eq_bot.2 L.ρ_injective)
  exact ⟨g, fun v => by have := congrArg (fun f => f v) hg; simpa using this⟩

/-- transport `HasDerivAt` of `hat ∘ x` to the coordinates of `x` -/
theorem hasDerivAt_coord_of_ρ {G : LieModel ℝ} (L : LieCalculus G) (x : ℝ → Vec ℝ G.dof) (x' : Vec ℝ G.dof)
    (u : ℝ) (h : HasDerivAt (fun u => L.ρ (x u).get) (L.ρ x'.get) u) (i : Fin G.dof) :
    HasDerivAt (fun u => x u i) (x' i) u := by
  obtain ⟨g, hg⟩ := exists_vee L
  let gc : Mx G.dim →L[ℝ] (Fin G.dof → ℝ) := LinearMap.toContinuousLinearMap g
  have h2 : HasDerivAt (fun u => gc (L.ρ (x u).get)) (gc (L.ρ x'.get)) u :=
    gc.hasFDerivAt.comp_hasDerivAt u h
  have e1 : (fun u => gc (L.ρ (x u).get)) = fun u => (x u).get := by
    funext u; exact hg _
  have e2 : gc (L.ρ x'.get) = x'.get := hg _
  rw [e1, e2] at h2
  exact (hasDerivAt_pi.1 h2) i

/-- **C11, concrete.**  For every group model with a `LieCalculus`, every degree `K`, differences `vs`,
    cumulative basis matrix and `u` such that all factors are exact in a neighbourhood of `u`:
    the value returned by the model of `cspline_eval_vs` has body velocity `vel`
    (`d/du M(g) = M(g)·hat(vel)`, entrywise), and `d/du vel = acc`, `d/du acc = jer`. -/
theorem eval_vs_hasDerivAt {G : LieModel ℝ} (L : LieCalculus G) {K : Nat} (vs : Fin K → Vec ℝ G.dof)
    (Bcum : Mat ℝ (K + 1) (K + 1)) (u : ℝ)
    (hd : ∀ j : Fin K, ∀ᶠ u' in 𝓝 u, L.Dom (vsmul (bfun Bcum j 0 u') (vs j))) :
    (∀ a b : Fin G.dim, HasDerivAt (fun u' => G.matrix (CSpline.eval_vs G vs Bcum u').g a b)
        (mmul (G.matrix (CSpline.eval_vs G vs Bcum u).g) (G.hat (CSpline.eval_vs G vs Bcum u).vel) a b) u) ∧
    (∀ i : Fin G.dof, HasDerivAt (fun u' => (CSpline.eval_vs G vs Bcum u').vel i)
        ((CSpline.eval_vs G vs Bcum u).acc i) u) ∧
    (∀ i : Fin G.dof, HasDerivAt (fun u' => (CSpline.eval_vs G vs Bcum u').acc i)
        ((CSpline.eval_vs G vs Bcum u).jer i) u) := by
  have hall : ∀ᶠ u' in 𝓝 u, ∀ j : Fin K, L.Dom (vsmul (bfun Bcum j 0 u') (vs j)) :=
    Filter.eventually_all.2 hd
  have hrel : ∀ᶠ u' in 𝓝 u, L.Rel (CSpline.eval_vs G vs Bcum u') (splineCurve G vs Bcum u') :=
    hall.mono fun u' h => rel_eval_vs L vs Bcum u' h
  have hu := hrel.self_of_nhds
  have hg := curveAt_hasDerivAt_g ((List.finRange K).map (facOf G vs Bcum)) u
  have hv := curveAt_hasDerivAt_vel ((List.finRange K).map (facOf G vs Bcum)) u
  have ha := curveAt_hasDerivAt_acc ((List.finRange K).map (facOf G vs Bcum)) u
  refine ⟨?_, ?_, ?_⟩
  · -- value
    have h1 : HasDerivAt (fun u' => toM (G.matrix (CSpline.eval_vs G vs Bcum u').g))
        (toM (G.matrix (CSpline.eval_vs G vs Bcum u).g) * toM (G.hat (CSpline.eval_vs G vs Bcum u).vel)) u := by
      have e : (fun u' => toM (G.matrix (CSpline.eval_vs G vs Bcum u').g)) =ᶠ[𝓝 u]
          fun u' => (splineCurve G vs Bcum u').g := hrel.mono fun u' h => h.g
      rw [hu.g, ← L.ρ_get, hu.vel]
      exact hg.congr_of_eventuallyEq e
    intro a b
    have h2 := (hasDerivAt_pi.1 ((hasDerivAt_pi.1 h1) a)) b
    have e3 : (toM (G.matrix (CSpline.eval_vs G vs Bcum u).g) * toM (G.hat (CSpline.eval_vs G vs Bcum u).vel)) a b
        = mmul (G.matrix (CSpline.eval_vs G vs Bcum u).g) (G.hat (CSpline.eval_vs G vs Bcum u).vel) a b := by
      rw [← toM_mmul]; rfl
    rw [e3] at h2
    exact h2
  · -- velocity
    apply hasDerivAt_coord_of_ρ L (fun u' => (CSpline.eval_vs G vs Bcum u').vel)
    have e : (fun u' => L.ρ (CSpline.eval_vs G vs Bcum u').vel.get) =ᶠ[𝓝 u]
        fun u' => (splineCurve G vs Bcum u').vel := hrel.mono fun u' h => h.vel
    rw [hu.acc]
    exact hv.congr_of_eventuallyEq e
  · -- acceleration
    apply hasDerivAt_coord_of_ρ L (fun u' => (CSpline.eval_vs G vs Bcum u').acc)
    have e : (fun u' => L.ρ (CSpline.eval_vs G vs Bcum u').acc.get) =ᶠ[𝓝 u]
        fun u' => (splineCurve G vs Bcum u').acc := hrel.mono fun u' h => h.acc
    rw [hu.jer]
    exact ha.congr_of_eventuallyEq e

end C11
