/-
  C12Eval.lean — evaluation lemmas: the segment that contains t, values outside the range,
  continuity at knots, and how evaluation commutes with the shifts done by the concatenations.
-/
import SmoothProofs.C12Inv

set_option linter.unusedSectionVars false

open SplineSM SplineSM.TimeOps

namespace C12

variable {τ : Type} [Field τ] [LinearOrder τ] [IsStrictOrderedRing τ]
attribute [local instance] fieldTime
variable {G W : Type} [Group G] {C : Ker τ G W}

theorem evalFrom_cons_lt {g : G} {tp : τ} {sg : Seg τ G W} {rest : List (Seg τ G W)} {t : τ} (h : t < sg.tEnd) :
    evalFrom C g tp (sg :: rest) t = evalSeg C g tp sg t := by
  cases rest <;> simp [evalFrom, h]

theorem evalFrom_cons_ge {g : G} {tp : τ} {sg : Seg τ G W} {rest : List (Seg τ G W)} {t : τ}
    (h : ¬ t < sg.tEnd) (hne : rest ≠ []) :
    evalFrom C g tp (sg :: rest) t = evalFrom C sg.gEnd sg.tEnd rest t := by
  cases rest with
  | nil => exact absurd rfl hne
  | cons a r => simp [evalFrom, h]

theorem evalFrom_single {g : G} {tp : τ} {sg : Seg τ G W} {t : τ} :
    evalFrom C g tp [sg] t = evalSeg C g tp sg t := rfl

/-- `evalSeg` does not read the segment's own end point -/
theorem evalSeg_setEnd (g : G) (tp : τ) (sg : Seg τ G W) (x : G) (t : τ) :
    evalSeg C g tp { sg with gEnd := x } t = evalSeg C g tp sg t := rfl

/-- value on a segment: `g ∘ c(T0)⁻¹ ∘ c(u(t))`, no clamping inside the segment -/
theorem evalSeg_val (hK : GroupKer C) {g : G} {tp : τ} {sg : Seg τ G W} {t : τ}
    (h0 : 0 ≤ sg.T0) (hD : 0 < sg.Del) (h1 : sg.T0 + sg.Del ≤ 1) (hT : tp < sg.tEnd) (ht1 : tp ≤ t) (ht2 : t ≤ sg.tEnd) :
    (evalSeg C g tp sg t).1 =
      g * (C.c sg.V sg.T0)⁻¹ * C.c sg.V (sg.T0 + sg.Del * (t - tp) / (sg.tEnd - tp)) := by
  have hTp : 0 < sg.tEnd - tp := sub_pos.2 hT
  have hq0 : 0 ≤ sg.Del * (t - tp) / (sg.tEnd - tp) :=
    div_nonneg (mul_nonneg (le_of_lt hD) (sub_nonneg.2 ht1)) (le_of_lt hTp)
  have hq1 : sg.Del * (t - tp) / (sg.tEnd - tp) ≤ sg.Del := by
    rw [div_le_iff₀ hTp]
    exact mul_le_mul_of_nonneg_left (by linarith) (le_of_lt hD)
  have hu : clamp01 (sg.T0 + sg.Del * (t - tp) / (sg.tEnd - tp)) = sg.T0 + sg.Del * (t - tp) / (sg.tEnd - tp) :=
    clamp01_id (by linarith) (by linarith)
  unfold evalSeg
  simp only [hu, tzero, hK.mul_eq, hK.inv_eq]
  by_cases hz : 0 < sg.T0
  · simp [hz, Ker.c]
  · have : sg.T0 = 0 := le_antisymm (not_lt.1 hz) h0
    have hc : (C.cev sg.V 0).1 = 1 := hK.c_zero sg.V
    simp [this, hc, Ker.c]

/-! ### outside the range -/

theorem eval_before (s : Spline τ G W) {t : τ} (h : t < 0) : eval C s t = (s.g0, C.wzero, C.wzero) := by
  unfold eval
  cases hs : s.segs with
  | nil => rfl
  | cons a r => simp [h]

theorem eval_after (s : Spline τ G W) {t : τ} (h0 : 0 ≤ t) (h : tMax s < t) : eval C s t = (endG s, C.wzero, C.wzero) := by
  unfold eval
  cases hs : s.segs with
  | nil => simp [endG, hs]
  | cons a r => simp [not_lt.2 h0, h]

theorem eval_inside (s : Spline τ G W) {t : τ} (hne : s.segs ≠ []) (h0 : 0 ≤ t) (h : t ≤ tMax s) :
    eval C s t = evalFrom C s.g0 0 s.segs t := by
  unfold eval
  cases hs : s.segs with
  | nil => exact absurd hs hne
  | cons a r => simp [not_lt.2 h0, not_lt.2 h]

/-! ### skipping the segments that end before t -/

theorem evalFrom_skip {g : G} {tp : τ} (l1 l2 : List (Seg τ G W)) {t : τ} (h : ∀ a ∈ l1, a.tEnd ≤ t) (hne : l2 ≠ []) :
    evalFrom C g tp (l1 ++ l2) t = evalFrom C (lastG g l1) (lastT tp l1) l2 t := by
  induction l1 generalizing g tp with
  | nil => rfl
  | cons a r ih =>
    have ha : ¬ t < a.tEnd := not_lt.2 (h a (by simp))
    rw [List.cons_append, evalFrom_cons_ge ha (by simp [hne])]
    exact ih (fun x hx => h x (List.mem_cons_of_mem _ hx))

theorem InvFrom_mem_le (g : G) (tp : τ) (l : List (Seg τ G W)) (h : InvFrom C g tp l) :
    ∀ a ∈ l, a.tEnd ≤ lastT tp l := by
  induction l generalizing g tp with
  | nil => intro a ha; cases ha
  | cons b r ih =>
    intro a ha
    rcases List.mem_cons.1 ha with rfl | ha
    · exact InvFrom_le_lastT C _ _ _ h.2.2
    · exact ih _ _ h.2.2 a ha

/-- `eval_on_segment`: with the invariant, the segment `sg` (preceded by `pre`) is the one that is
    evaluated for every t in `[start of sg, end of sg)` (closed at the end for the last segment). -/
theorem eval_on_segment' (s : Spline τ G W) (hI : Inv C s) (pre post : List (Seg τ G W)) (sg : Seg τ G W)
    (hs : s.segs = pre ++ sg :: post) {t : τ} (h1 : lastT 0 pre ≤ t) (h2 : t < sg.tEnd ∨ (post = [] ∧ t ≤ sg.tEnd)) :
    eval C s t = evalSeg C (lastG s.g0 pre) (lastT 0 pre) sg t := by
  have hI' : InvFrom C s.g0 0 (pre ++ sg :: post) := by simpa [Inv, hs] using hI
  rw [InvFrom_append] at hI'
  obtain ⟨hpre, hsg⟩ := hI'
  have h0 : (0 : τ) ≤ t := le_trans (InvFrom_le_lastT C _ _ _ hpre) h1
  have hle : t ≤ tMax s := by
    rw [tMax_eq, hs, lastT_append]
    have := InvFrom_le_lastT C _ _ _ hsg.2.2
    simp only [lastT]
    rcases h2 with h2 | ⟨_, h2⟩
    · exact le_trans (le_of_lt h2) this
    · exact le_trans h2 this
  rw [eval_inside s (by simp [hs]) h0 hle, hs,
    evalFrom_skip pre (sg :: post) (fun a ha => le_trans (InvFrom_mem_le _ _ _ hpre a ha) h1) (by simp)]
  rcases h2 with h2 | ⟨hp, _⟩
  · exact evalFrom_cons_lt h2
  · subst hp; rfl

/-- value at a knot computed on the segment that ENDS there (left limit) = the stored end point -/
theorem evalSeg_at_end (hK : GroupKer C) {g : G} {tp : τ} {sg : Seg τ G W} (hT : tp < sg.tEnd) (hok : SegOK C g sg) :
    (evalSeg C g tp sg sg.tEnd).1 = sg.gEnd := by
  obtain ⟨h0, hD, h1, hg⟩ := hok
  rw [evalSeg_val hK h0 hD h1 hT (le_of_lt hT) (le_refl _), hg]
  have : sg.Del * (sg.tEnd - tp) / (sg.tEnd - tp) = sg.Del := mul_div_cancel_right₀ _ (ne_of_gt (sub_pos.2 hT))
  rw [this]

/-- value at a knot computed on the segment that STARTS there = the previous end point -/
theorem evalSeg_at_start (hK : GroupKer C) {g : G} {tp : τ} {sg : Seg τ G W} (hT : tp < sg.tEnd) (hok : SegOK C g sg) :
    (evalSeg C g tp sg tp).1 = g := by
  obtain ⟨h0, hD, h1, _⟩ := hok
  rw [evalSeg_val hK h0 hD h1 hT (le_refl _) (le_of_lt hT)]
  simp

/-! ### evaluation commutes with the shifts of the concatenations -/

/-- left translation of an evaluation result -/
def liftL (h : G) (r : G × W × W) : G × W × W := (h * r.1, r.2.1, r.2.2)

theorem evalSeg_shift_local (hK : GroupKer C) (h : G) (d : τ) (g : G) (tp : τ) (sg : Seg τ G W) (t : τ) :
    evalSeg C (h * g) (d + tp) { sg with tEnd := d + sg.tEnd, gEnd := C.mul h sg.gEnd } (d + t) =
      liftL h (evalSeg C g tp sg t) := by
  unfold evalSeg liftL
  simp only [add_sub_add_left_eq_sub, hK.mul_eq]
  split_ifs <;> simp [mul_assoc]

theorem evalFrom_shift_local (hK : GroupKer C) (h : G) (d : τ) (g : G) (tp : τ) (l : List (Seg τ G W)) (hne : l ≠ []) (t : τ) :
    evalFrom C (h * g) (d + tp) (l.map fun sg => { sg with tEnd := d + sg.tEnd, gEnd := C.mul h sg.gEnd }) (d + t) =
      liftL h (evalFrom C g tp l t) := by
  induction l generalizing g tp with
  | nil => exact absurd rfl hne
  | cons a r ih =>
    cases r with
    | nil => exact evalSeg_shift_local hK h d g tp a t
    | cons b r' =>
      by_cases hlt : t < a.tEnd
      · rw [List.map_cons, evalFrom_cons_lt (by simpa using hlt), evalFrom_cons_lt hlt]
        exact evalSeg_shift_local hK h d g tp a t
      · rw [List.map_cons, evalFrom_cons_ge (by simpa using hlt) (by simp), evalFrom_cons_ge hlt (by simp)]
        have := ih a.gEnd a.tEnd (by simp)
        simpa [hK.mul_eq] using this

theorem evalSeg_shift_global (d : τ) (g : G) (tp : τ) (sg : Seg τ G W) (t : τ) :
    evalSeg C g (d + tp) { sg with tEnd := d + sg.tEnd } (d + t) = evalSeg C g tp sg t := by
  unfold evalSeg
  simp only [add_sub_add_left_eq_sub]

theorem evalFrom_shift_global (d : τ) (g : G) (tp : τ) (l : List (Seg τ G W)) (hne : l ≠ []) (t : τ) :
    evalFrom C g (d + tp) (l.map fun sg => { sg with tEnd := d + sg.tEnd }) (d + t) = evalFrom C g tp l t := by
  induction l generalizing g tp with
  | nil => exact absurd rfl hne
  | cons a r ih =>
    cases r with
    | nil => exact evalSeg_shift_global d g tp a t
    | cons b r' =>
      by_cases hlt : t < a.tEnd
      · rw [List.map_cons, evalFrom_cons_lt (by simpa using hlt), evalFrom_cons_lt hlt]
        exact evalSeg_shift_global d g tp a t
      · rw [List.map_cons, evalFrom_cons_ge (by simpa using hlt) (by simp), evalFrom_cons_ge hlt (by simp)]
        exact ih a.gEnd a.tEnd (by simp)

end C12
