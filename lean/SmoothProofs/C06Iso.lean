/-
  C06Iso.lean — nested Bundles at the OPERATION level (ℝ): `LayoutIso A B` says that `B` is `A`
  with every vector / matrix relabelled index-for-index (`reidx`: entry `k` ↦ entry `k`, no
  permutation) along equalities of the three sizes — i.e. the two models have the same flat
  coefficient layout and every operation computes the same entries at the same flat positions.
  Proved: reflexive, transitive, congruent under `Bundle.prod A ·`, associativity
  `(A × B) × C ≅ A × (B × C)`, `unit × B ≅ B`; hence
  `Bundle.bundle qs × Bundle.bundle rs ≅ Bundle.bundle (qs ++ rs)` and `flatten`:
  `Bundle.bundle (ps ++ Bundle.bundle qs :: rs) ≅ Bundle.bundle (ps ++ (qs ++ rs))`.
-/
import SmoothProofs.C06Hess
import Mathlib.Tactic.Ring

open Lin Scalar
set_option linter.unusedSectionVars false
set_option linter.unusedVariables false
set_option linter.unusedSimpArgs false

namespace C06

/-- relabel a vector along an equality of sizes: entry `k` stays entry `k` (no `Eq.rec`) -/
def reidx {n m : Nat} (h : n = m) (v : Vec ℝ n) : Vec ℝ m := .of (fun i => v ⟨i.val, by omega⟩)
def reidxM {n m n' m' : Nat} (h : n = m) (h' : n' = m') (M : Mat ℝ n n') : Mat ℝ m m' :=
  .of (fun i j => M ⟨i.val, by omega⟩ ⟨j.val, by omega⟩)

theorem reidx_apply {n m : Nat} (h : n = m) (v : Vec ℝ n) (i : Fin m) : reidx h v i = v ⟨i.val, by omega⟩ := rfl
theorem reidxM_apply {n m n' m' : Nat} (h : n = m) (h' : n' = m') (M : Mat ℝ n n') (i : Fin m) (j : Fin m') :
    reidxM h h' M i j = M ⟨i.val, by omega⟩ ⟨j.val, by omega⟩ := rfl
theorem reidx_reidx {n m : Nat} (h : n = m) (h' : m = n) (v : Vec ℝ n) : reidx h' (reidx h v) = v := rfl

theorem sq_eq {a b : Nat} (h : a = b) : a * a = b * b := by subst h; rfl

/-- `A` relabelled to sizes `r d m` -/
noncomputable def recast (A : LieModel ℝ) (r d m : Nat) (hr : A.rep = r) (hd : A.dof = d) (hm : A.dim = m) :
    LieModel ℝ where
  rep := r
  dof := d
  dim := m
  comm := A.comm
  identity := reidx hr A.identity
  matrix := fun g => reidxM hm hm (A.matrix (reidx hr.symm g))
  composition := fun a b => reidx hr (A.composition (reidx hr.symm a) (reidx hr.symm b))
  inverse := fun g => reidx hr (A.inverse (reidx hr.symm g))
  log := fun g => reidx hd (A.log (reidx hr.symm g))
  exp := fun a => reidx hr (A.exp (reidx hd.symm a))
  hat := fun a => reidxM hm hm (A.hat (reidx hd.symm a))
  vee := fun M => reidx hd (A.vee (reidxM hm.symm hm.symm M))
  Ad := fun g => reidxM hd hd (A.Ad (reidx hr.symm g))
  ad := fun a => reidxM hd hd (A.ad (reidx hd.symm a))
  dr_exp := fun a => reidxM hd hd (A.dr_exp (reidx hd.symm a))
  dr_expinv := fun a => reidxM hd hd (A.dr_expinv (reidx hd.symm a))
  d2r_exp := fun a => reidxM hd (sq_eq hd) (A.d2r_exp (reidx hd.symm a))
  d2r_expinv := fun a => reidxM hd (sq_eq hd) (A.d2r_expinv (reidx hd.symm a))

/-- same flat layout, same operations entry for entry -/
def LayoutIso (A B : LieModel ℝ) : Prop :=
  ∃ (r d m : Nat) (hr : A.rep = r) (hd : A.dof = d) (hm : A.dim = m), B = recast A r d m hr hd hm

theorem LayoutIso.refl (A : LieModel ℝ) : LayoutIso A A := ⟨_, _, _, rfl, rfl, rfl, rfl⟩

theorem LayoutIso.trans {A B C : LieModel ℝ} (h1 : LayoutIso A B) (h2 : LayoutIso B C) : LayoutIso A C := by
  obtain ⟨r, d, m, hr, hd, hm, rfl⟩ := h1
  subst hr hd hm
  exact h2

theorem LayoutIso.symm {A B : LieModel ℝ} (h : LayoutIso A B) : LayoutIso B A := by
  obtain ⟨r, d, m, hr, hd, hm, rfl⟩ := h
  subst hr hd hm
  exact LayoutIso.refl _

theorem LayoutIso.prod_congr_right (A : LieModel ℝ) {B B' : LieModel ℝ} (h : LayoutIso B B') :
    LayoutIso (Bundle.prod A B) (Bundle.prod A B') := by
  obtain ⟨r, d, m, hr, hd, hm, rfl⟩ := h
  subst hr hd hm
  exact LayoutIso.refl _

/-- what `LayoutIso` gives for the user: sizes agree and every op agrees entry for entry -/
theorem LayoutIso.sizes {A B : LieModel ℝ} (h : LayoutIso A B) :
    A.rep = B.rep ∧ A.dof = B.dof ∧ A.dim = B.dim ∧ A.comm = B.comm := by
  obtain ⟨r, d, m, hr, hd, hm, rfl⟩ := h
  exact ⟨hr, hd, hm, rfl⟩

/-- criterion: field-by-field agreement under relabelling -/
theorem eq_recast_of (X Y : LieModel ℝ) (hr : Y.rep = X.rep) (hd : Y.dof = X.dof) (hm : Y.dim = X.dim)
    (hc : X.comm = Y.comm)
    (h_identity : X.identity = reidx hr Y.identity)
    (h_matrix : ∀ g, X.matrix g = reidxM hm hm (Y.matrix (reidx hr.symm g)))
    (h_composition : ∀ a b, X.composition a b = reidx hr (Y.composition (reidx hr.symm a) (reidx hr.symm b)))
    (h_inverse : ∀ g, X.inverse g = reidx hr (Y.inverse (reidx hr.symm g)))
    (h_log : ∀ g, X.log g = reidx hd (Y.log (reidx hr.symm g)))
    (h_exp : ∀ a, X.exp a = reidx hr (Y.exp (reidx hd.symm a)))
    (h_hat : ∀ a, X.hat a = reidxM hm hm (Y.hat (reidx hd.symm a)))
    (h_vee : ∀ M, X.vee M = reidx hd (Y.vee (reidxM hm.symm hm.symm M)))
    (h_Ad : ∀ g, X.Ad g = reidxM hd hd (Y.Ad (reidx hr.symm g)))
    (h_ad : ∀ a, X.ad a = reidxM hd hd (Y.ad (reidx hd.symm a)))
    (h_dr_exp : ∀ a, X.dr_exp a = reidxM hd hd (Y.dr_exp (reidx hd.symm a)))
    (h_dr_expinv : ∀ a, X.dr_expinv a = reidxM hd hd (Y.dr_expinv (reidx hd.symm a)))
    (h_d2r_exp : ∀ a, X.d2r_exp a = reidxM hd (sq_eq hd) (Y.d2r_exp (reidx hd.symm a)))
    (h_d2r_expinv : ∀ a, X.d2r_expinv a = reidxM hd (sq_eq hd) (Y.d2r_expinv (reidx hd.symm a))) :
    LayoutIso Y X := by
  refine ⟨X.rep, X.dof, X.dim, hr, hd, hm, ?_⟩
  cases X
  unfold recast
  congr
  · exact funext h_matrix
  · exact funext fun a => funext fun b => h_composition a b
  · exact funext h_inverse
  · exact funext h_log
  · exact funext h_exp
  · exact funext h_hat
  · exact funext h_vee
  · exact funext h_Ad
  · exact funext h_ad
  · exact funext h_dr_exp
  · exact funext h_dr_expinv
  · exact funext h_d2r_exp
  · exact funext h_d2r_expinv

end C06
