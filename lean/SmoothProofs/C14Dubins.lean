/-
  C14Dubins.lean — the closed-form CSC lengths of `dubins_csc` reach the target: the three
  segments emitted for `csc target R c1 c3`, traversed as ideal unit-speed arcs / straight lines
  from the identity pose, end at the target pose (over ℝ, under the feasibility conditions).
  The plane is ℂ; a heading is a unit complex number.
-/
import Mathlib.Analysis.SpecialFunctions.Complex.Arg
import Mathlib.Analysis.SpecialFunctions.Trigonometric.Basic
import Mathlib.Analysis.SpecialFunctions.Sqrt
import Mathlib.Analysis.Complex.Norm
import Mathlib.Tactic.Ring
import Mathlib.Tactic.Linarith
import Mathlib.Tactic.Positivity
import Mathlib.Tactic.FieldSimp
import Mathlib.Tactic.LinearCombination
import SmoothProofs.Real

open Complex Scalar Lin

namespace Dubins

/-- a pose: position and heading (a unit complex number) -/
abbrev Pose := ℂ × ℂ

/-- exact unit-speed motion with constant curvature κ for time T from a pose (the flow of body
    velocity (1,0,κ)); a segment with T ≤ 0 contributes nothing -/
noncomputable def idealStep (p : Pose) (e : Emit ℝ) : Pose :=
  if 0 < e.T then
    (if e.kappa = 0 then (p.1 + (e.T : ℂ) * p.2, p.2)
     else (p.1 + p.2 * (Complex.exp ((e.kappa * e.T : ℝ) * I) - 1) / ((e.kappa : ℂ) * I),
           p.2 * Complex.exp ((e.kappa * e.T : ℝ) * I)))
  else p

noncomputable def idealEnd (es : List (Emit ℝ)) : Pose := es.foldl idealStep (0, 1)

/-- the target pose as complex numbers -/
def poseC (g : Vec ℝ 4) : Pose := (⟨g 0, g 1⟩, ⟨g 3, g 2⟩)

/-- an SO2 element `(qz, qw)` as the complex number `qw + qz i` -/
def uC (q : Vec ℝ 2) : ℂ := ⟨q 1, q 0⟩

/-- a plane vector as a complex number -/
def ptC (v : Vec ℝ 2) : ℂ := ⟨v 0, v 1⟩

/-! ### ideal steps -/

/-- for `T ≥ 0` the guard is immaterial -/
theorem idealStep_eq (p : Pose) (e : Emit ℝ) (hT : 0 ≤ e.T) :
    idealStep p e =
      (if e.kappa = 0 then (p.1 + (e.T : ℂ) * p.2, p.2)
       else (p.1 + p.2 * (Complex.exp ((e.kappa * e.T : ℝ) * I) - 1) / ((e.kappa : ℂ) * I),
             p.2 * Complex.exp ((e.kappa * e.T : ℝ) * I))) := by
  unfold idealStep
  by_cases h : 0 < e.T
  · simp [h]
  · have h0 : e.T = 0 := le_antisymm (not_lt.1 h) hT
    simp [h0]

theorem idealStep_straight (p : Pose) (vx vy d : ℝ) (hd : 0 ≤ d) :
    idealStep p ⟨vx, vy, 0, d⟩ = (p.1 + (d : ℂ) * p.2, p.2) := by
  rw [idealStep_eq _ _ hd]; simp

theorem idealStep_left (p : Pose) (vx vy R a : ℝ) (hR : 0 < R) (ha : 0 ≤ a) :
    idealStep p ⟨vx, vy, 1 / R, R * a⟩
      = (p.1 - I * R * p.2 * (Complex.exp (a * I) - 1), p.2 * Complex.exp (a * I)) := by
  have hR' : R ≠ 0 := ne_of_gt hR
  have hRc : (R : ℂ) ≠ 0 := by exact_mod_cast hR'
  rw [idealStep_eq _ _ (by positivity)]
  have hk : (1 / R : ℝ) ≠ 0 := by positivity
  have e1 : (1 / R) * (R * a) = a := by field_simp
  simp only [hk, if_false, e1]
  refine Prod.ext ?_ rfl
  simp only
  push_cast
  have hI : (I : ℂ) ≠ 0 := I_ne_zero
  field_simp
  ring_nf
  simp only [I_sq]
  ring

theorem idealStep_right (p : Pose) (vx vy R a : ℝ) (hR : 0 < R) (ha : 0 ≤ a) :
    idealStep p ⟨vx, vy, -1 / R, R * a⟩
      = (p.1 + I * R * p.2 * (Complex.exp (-(a * I)) - 1), p.2 * Complex.exp (-(a * I))) := by
  have hR' : R ≠ 0 := ne_of_gt hR
  have hRc : (R : ℂ) ≠ 0 := by exact_mod_cast hR'
  rw [idealStep_eq _ _ (by positivity)]
  have hk : (-1 / R : ℝ) ≠ 0 := by
    apply div_ne_zero <;> [norm_num; exact hR']
  have e1 : (-1 / R) * (R * a) = -a := by field_simp
  simp only [hk, if_false, e1]
  have e2 : ((-a : ℝ) : ℂ) * I = -(a * I) := by push_cast; ring
  rw [e2]
  refine Prod.ext ?_ rfl
  simp only
  push_cast
  have hI : (I : ℂ) ≠ 0 := I_ne_zero
  field_simp
  ring_nf
  simp only [I_sq]
  ring

/-! ### bridge: model terms as complex numbers -/

theorem uC_composition (a b : Vec ℝ 2) : uC (SO2.composition a b) = uC a * uC b := by
  apply Complex.ext <;> simp [uC, SO2.composition, mk2, Vec.of]
  ring

theorem uC_inverse (a : Vec ℝ 2) : uC (SO2.inverse a) = (starRingEnd ℂ) (uC a) := by
  apply Complex.ext <;> simp [uC, SO2.inverse, mk2, Vec.of]

theorem uC_identity : uC (SO2.identity : Vec ℝ 2) = 1 := by
  apply Complex.ext <;> simp [uC, SO2.identity, mk2, Vec.of]

theorem uC_mk2 (a b : ℝ) : uC (mk2 a b) = ⟨b, a⟩ := rfl
theorem ptC_mk2 (a b : ℝ) : ptC (mk2 a b) = ⟨a, b⟩ := rfl

theorem so2minus_eq (x2 x1 : Vec ℝ 2) :
    so2minus x2 x1 = Complex.arg ((starRingEnd ℂ) (uC x1) * uC x2) := by
  rw [← uC_inverse, ← uC_composition]
  rfl

theorem ptC_vsub (a b : Vec ℝ 2) : ptC (vsub a b) = ptC a - ptC b := by
  apply Complex.ext <;> simp [ptC, vsub, Vec.of]

theorem ptC_act (g : Vec ℝ 4) (v : Vec ℝ 2) :
    ptC (SE2.act g v) = (poseC g).1 + (poseC g).2 * ptC v := by
  apply Complex.ext <;>
    simp [ptC, poseC, SE2.act, SE2.so2, SE2.r2, SO2.act, SO2.matrix, vadd, mulVec, mat2, mk2, vsum,
      Vec.of, Mat.of] <;> ring

theorem norm2_eq (v : Vec ℝ 2) : norm2 v = ‖ptC v‖ := by
  rw [Complex.norm_def, Complex.normSq_apply]; rfl

theorem ptC_normalized (v : Vec ℝ 2) (h : 0 < norm2 v) :
    ptC (normalized v) = ptC v / (‖ptC v‖ : ℂ) := by
  have hn : 0 < v 0 * v 0 + v 1 * v 1 := by
    by_contra hc
    have : norm2 v = 0 := Real.sqrt_eq_zero_of_nonpos (not_lt.1 hc)
    linarith
  have e : normalized v = mk2 (v 0 / norm2 v) (v 1 / norm2 v) := by
    unfold normalized
    simp only [Nat.cast_zero]
    rw [if_pos hn]; rfl
  rw [e, ← norm2_eq]
  have hne : ((norm2 v : ℝ) : ℂ) ≠ 0 := by exact_mod_cast (ne_of_gt h)
  rw [eq_div_iff hne]
  apply Complex.ext <;> simp [ptC, mk2, Vec.of] <;> field_simp

theorem uC_so2norm (qz qw : ℝ) (h : qw * qw + qz * qz = 1) : uC (so2norm qz qw) = ⟨qw, qz⟩ := by
  unfold so2norm
  simp only
  have : Scalar.sqrt (qw * qw + qz * qz) = (1 : ℝ) := by
    rw [h]; exact Real.sqrt_one
  rw [this]
  apply Complex.ext <;> simp [uC, mk2, Vec.of]

/-! ### `dubins_angle` -/

theorem exp_arg_of_unit (z : ℂ) (h : ‖z‖ = 1) : Complex.exp (Complex.arg z * I) = z := by
  have := Complex.norm_mul_exp_arg_mul_I z
  rw [h] at this
  simpa using this

theorem exp_two_pi_add (d : ℝ) : Complex.exp (((2 * Real.pi + d : ℝ) : ℂ) * I) = Complex.exp (d * I) := by
  push_cast
  rw [add_mul, Complex.exp_add, Complex.exp_two_pi_mul_I, one_mul]

/-- the wrap of `dubins_angle` into `[0, 2π)` -/
noncomputable def wrap (d : ℝ) : ℝ := if 0 ≤ d then d else 2 * Real.pi + d

theorem wrap_nonneg (d : ℝ) (h : -Real.pi ≤ d) : 0 ≤ wrap d := by
  unfold wrap
  split
  · assumption
  · linarith [Real.pi_pos]

theorem exp_wrap (d : ℝ) : Complex.exp ((wrap d : ℝ) * I) = Complex.exp (d * I) := by
  unfold wrap
  split
  · rfl
  · exact exp_two_pi_add _

theorem angle_eq (x1 x2 : Vec ℝ 2) (s : Seg) :
    angle x1 x2 s = wrap (if s = .R then -so2minus x2 x1 else so2minus x2 x1) := by
  unfold angle wrap
  simp only [Nat.cast_zero, Nat.cast_ofNat]
  rfl

theorem angle_nonneg (x1 x2 : Vec ℝ 2) (s : Seg) : 0 ≤ angle x1 x2 s := by
  rw [angle_eq, so2minus_eq]
  have h1 := Complex.neg_pi_lt_arg ((starRingEnd ℂ) (uC x1) * uC x2)
  have h2 := Complex.arg_le_pi ((starRingEnd ℂ) (uC x1) * uC x2)
  apply wrap_nonneg
  split <;> linarith

theorem exp_angle_L (x1 x2 : Vec ℝ 2) (h1 : ‖uC x1‖ = 1) (h2 : ‖uC x2‖ = 1) :
    Complex.exp ((angle x1 x2 .L : ℝ) * I) = (starRingEnd ℂ) (uC x1) * uC x2 := by
  rw [angle_eq, exp_wrap, if_neg (by decide), so2minus_eq]
  apply exp_arg_of_unit
  simp [h1, h2]

theorem exp_angle_R (x1 x2 : Vec ℝ 2) (h1 : ‖uC x1‖ = 1) (h2 : ‖uC x2‖ = 1) :
    Complex.exp (-((angle x1 x2 .R : ℝ) * I)) = (starRingEnd ℂ) (uC x1) * uC x2 := by
  have hw : Complex.exp ((angle x1 x2 .R : ℝ) * I)
      = Complex.exp (((-so2minus x2 x1 : ℝ) : ℂ) * I) := by
    rw [angle_eq, exp_wrap, if_pos rfl]
  rw [Complex.exp_neg, hw, ← Complex.exp_neg]
  have : -(((-so2minus x2 x1 : ℝ) : ℂ) * I) = ((so2minus x2 x1 : ℝ) : ℂ) * I := by push_cast; ring
  rw [this, so2minus_eq]
  apply exp_arg_of_unit
  simp [h1, h2]

/-! ### unfolding `dubins_csc` in the feasible case -/

/-- `C3 − C1`, the vector between the two turning-circle centres, in the model's own terms -/
noncomputable def dvOf (target : Vec ℝ 4) (R : ℝ) (c1 c3 : Seg) : Vec ℝ 2 :=
  vsub (SE2.act target (mk2 (nat 0) (sideR c3 R))) (mk2 (nat 0) (sideR c1 R))

/-- `theta0`: direction of `C3 − C1` -/
noncomputable def theta0Of (dv : Vec ℝ 2) : Vec ℝ 2 :=
  so2norm ((normalized dv) 1) ((normalized dv) 0)

/-- `diff`: the tangent-line offset angle for the words LSR / RSL -/
noncomputable def diffOf (R d13 : ℝ) : Vec ℝ 2 :=
  so2norm (nat 2 * R / d13) (Scalar.sqrt (nat 1 - nat 4 * R * R / (d13 * d13)))

/-- `theta`: heading of the straight segment -/
noncomputable def thetaOf (target : Vec ℝ 4) (R : ℝ) (c1 c3 : Seg) : Vec ℝ 2 :=
  let dv := dvOf target R c1 c3
  if c1 ≠ c3 then
    if c1 = .R ∧ c3 = .L then SO2.composition (theta0Of dv) (SO2.inverse (diffOf R (norm2 dv)))
    else SO2.composition (theta0Of dv) (diffOf R (norm2 dv))
  else theta0Of dv

theorem norm2_nonneg (v : Vec ℝ 2) : 0 ≤ norm2 v := Real.sqrt_nonneg _

theorem csc_feasible (target : Vec ℝ 4) (R : ℝ) (c1 c3 : Seg)
    (hf : c1 ≠ c3 → 2 * R ≤ norm2 (dvOf target R c1 c3)) :
    csc target R c1 c3 =
      (angle SO2.identity (thetaOf target R c1 c3) c1,
       (dvOf target R c1 c3) 0 * (thetaOf target R c1 c3) 1
         + (dvOf target R c1 c3) 1 * (thetaOf target R c1 c3) 0,
       angle (thetaOf target R c1 c3) (SE2.so2 target) c3) := by
  have h1 : ¬ norm2 (dvOf target R c1 c3) < (Scalar.macheps : ℝ) :=
    not_lt.2 (norm2_nonneg _)
  have h2 : ¬ (c1 ≠ c3 ∧ norm2 (dvOf target R c1 c3) < nat 2 * R) := by
    rintro ⟨a, b⟩
    have := hf a
    simp only [Nat.cast_ofNat] at b
    linarith
  unfold dvOf at h1 h2
  unfold csc
  simp only [memoV_eq]
  rw [if_neg h1, if_neg h2]
  rfl

/-! ### the model's intermediate quantities as complex numbers -/

theorem sideR_L (R : ℝ) : sideR Seg.L R = R := by simp [sideR]
theorem sideR_R (R : ℝ) : sideR Seg.R R = -R := by simp [sideR]

theorem ptC_side (r : ℝ) : ptC (mk2 (nat 0) r) = I * (r : ℂ) := by
  apply Complex.ext <;> simp [ptC, mk2, Vec.of]

theorem ptC_dvOf (target : Vec ℝ 4) (R : ℝ) (c1 c3 : Seg) :
    ptC (dvOf target R c1 c3)
      = (poseC target).1 + (poseC target).2 * (I * (sideR c3 R : ℝ)) - I * (sideR c1 R : ℝ) := by
  unfold dvOf
  rw [ptC_vsub, ptC_act, ptC_side, ptC_side]

theorem norm_mk_of_sq (a b : ℝ) (h : a * a + b * b = 1) : ‖(⟨a, b⟩ : ℂ)‖ = 1 := by
  rw [Complex.norm_def, Complex.normSq_apply]
  simp only
  rw [h, Real.sqrt_one]

theorem mul_conj_of_unit (z : ℂ) (h : ‖z‖ = 1) : z * (starRingEnd ℂ) z = 1 := by
  rw [Complex.mul_conj, Complex.normSq_eq_norm_sq, h]; simp

theorem norm_poseC_heading (target : Vec ℝ 4) (hunit : target 2 ^ 2 + target 3 ^ 2 = 1) :
    ‖uC (SE2.so2 target)‖ = 1 := by
  apply norm_mk_of_sq
  simp only [SE2.so2, mk2, Vec.of]
  linarith

theorem normalized_unit (v : Vec ℝ 2) (h : 0 < norm2 v) :
    (normalized v) 0 * (normalized v) 0 + (normalized v) 1 * (normalized v) 1 = 1 := by
  have h1 := ptC_normalized v h
  have h2 : ‖ptC (normalized v)‖ = 1 := by
    rw [h1, norm_div, Complex.norm_real, Real.norm_eq_abs, abs_of_nonneg (norm_nonneg _)]
    rw [← norm2_eq]
    exact div_self (ne_of_gt h)
  have h3 := Complex.sq_norm (ptC (normalized v))
  rw [h2, Complex.normSq_apply] at h3
  simp only [ptC] at h3
  linarith

theorem uC_theta0Of (dv : Vec ℝ 2) (h : 0 < norm2 dv) :
    uC (theta0Of dv) = ptC dv / (‖ptC dv‖ : ℂ) := by
  unfold theta0Of
  rw [uC_so2norm _ _ (normalized_unit dv h)]
  exact ptC_normalized dv h

theorem norm_uC_theta0Of (dv : Vec ℝ 2) (h : 0 < norm2 dv) : ‖uC (theta0Of dv)‖ = 1 := by
  unfold theta0Of
  rw [uC_so2norm _ _ (normalized_unit dv h)]
  exact norm_mk_of_sq _ _ (normalized_unit dv h)

theorem norm_mul_uC_theta0Of (dv : Vec ℝ 2) (h : 0 < norm2 dv) :
    ((norm2 dv : ℝ) : ℂ) * uC (theta0Of dv) = ptC dv := by
  rw [uC_theta0Of dv h, ← norm2_eq]
  have hne : ((norm2 dv : ℝ) : ℂ) ≠ 0 := by exact_mod_cast (ne_of_gt h)
  field_simp

theorem d2_eq (dv θ : Vec ℝ 2) :
    dv 0 * θ 1 + dv 1 * θ 0 = ((starRingEnd ℂ) (uC θ) * ptC dv).re := by
  simp [uC, ptC]; ring

/-- `c = √(1 − 4R²/d²)` -/
noncomputable def diffCos (R d : ℝ) : ℝ := Real.sqrt (1 - 4 * R * R / (d * d))

theorem diffCos_sq (R d : ℝ) (hR : 0 < R) (hd : 2 * R ≤ d) :
    diffCos R d * diffCos R d + (2 * R / d) * (2 * R / d) = 1 := by
  have hd0 : 0 < d := by linarith
  have : 0 ≤ 1 - 4 * R * R / (d * d) := by
    rw [sub_nonneg, div_le_one (by positivity)]; nlinarith
  unfold diffCos
  rw [Real.mul_self_sqrt this]; field_simp; ring

theorem uC_diffOf (R d : ℝ) (hR : 0 < R) (hd : 2 * R ≤ d) :
    uC (diffOf R d) = ⟨diffCos R d, 2 * R / d⟩ := by
  unfold diffOf
  simp only [Nat.cast_one, Nat.cast_ofNat]
  exact uC_so2norm _ _ (diffCos_sq R d hR hd)

/-! ### end pose of the three emitted segments, for general non-negative lengths -/

theorem idealEnd_LSL (R a1 d2 a3 len : ℝ) (hR : 0 < R) (h1 : 0 ≤ a1) (h2 : 0 ≤ d2) (h3 : 0 ≤ a3) :
    idealEnd (emit R ⟨(.L, .S, .L), (a1, d2, a3), len⟩) =
      (0 - I * R * 1 * (Complex.exp (a1 * I) - 1) + (d2 : ℂ) * (1 * Complex.exp (a1 * I))
          - I * R * (1 * Complex.exp (a1 * I)) * (Complex.exp (a3 * I) - 1),
       1 * Complex.exp (a1 * I) * Complex.exp (a3 * I)) := by
  simp only [emit, idealEnd, List.foldl, Nat.cast_one, Nat.cast_zero]
  rw [idealStep_left _ _ _ _ _ hR h1, idealStep_straight _ _ _ _ h2, idealStep_left _ _ _ _ _ hR h3]

theorem idealEnd_RSR (R a1 d2 a3 len : ℝ) (hR : 0 < R) (h1 : 0 ≤ a1) (h2 : 0 ≤ d2) (h3 : 0 ≤ a3) :
    idealEnd (emit R ⟨(.R, .S, .R), (a1, d2, a3), len⟩) =
      (0 + I * R * 1 * (Complex.exp (-(a1 * I)) - 1) + (d2 : ℂ) * (1 * Complex.exp (-(a1 * I)))
          + I * R * (1 * Complex.exp (-(a1 * I))) * (Complex.exp (-(a3 * I)) - 1),
       1 * Complex.exp (-(a1 * I)) * Complex.exp (-(a3 * I))) := by
  simp only [emit, idealEnd, List.foldl, Nat.cast_one, Nat.cast_zero]
  rw [idealStep_right _ _ _ _ _ hR h1, idealStep_straight _ _ _ _ h2, idealStep_right _ _ _ _ _ hR h3]

theorem idealEnd_LSR (R a1 d2 a3 len : ℝ) (hR : 0 < R) (h1 : 0 ≤ a1) (h2 : 0 ≤ d2) (h3 : 0 ≤ a3) :
    idealEnd (emit R ⟨(.L, .S, .R), (a1, d2, a3), len⟩) =
      (0 - I * R * 1 * (Complex.exp (a1 * I) - 1) + (d2 : ℂ) * (1 * Complex.exp (a1 * I))
          + I * R * (1 * Complex.exp (a1 * I)) * (Complex.exp (-(a3 * I)) - 1),
       1 * Complex.exp (a1 * I) * Complex.exp (-(a3 * I))) := by
  simp only [emit, idealEnd, List.foldl, Nat.cast_one, Nat.cast_zero]
  rw [idealStep_left _ _ _ _ _ hR h1, idealStep_straight _ _ _ _ h2, idealStep_right _ _ _ _ _ hR h3]

theorem idealEnd_RSL (R a1 d2 a3 len : ℝ) (hR : 0 < R) (h1 : 0 ≤ a1) (h2 : 0 ≤ d2) (h3 : 0 ≤ a3) :
    idealEnd (emit R ⟨(.R, .S, .L), (a1, d2, a3), len⟩) =
      (0 + I * R * 1 * (Complex.exp (-(a1 * I)) - 1) + (d2 : ℂ) * (1 * Complex.exp (-(a1 * I)))
          - I * R * (1 * Complex.exp (-(a1 * I))) * (Complex.exp (a3 * I) - 1),
       1 * Complex.exp (-(a1 * I)) * Complex.exp (a3 * I)) := by
  simp only [emit, idealEnd, List.foldl, Nat.cast_one, Nat.cast_zero]
  rw [idealStep_right _ _ _ _ _ hR h1, idealStep_straight _ _ _ _ h2, idealStep_left _ _ _ _ _ hR h3]

/-! ### the closing identities in ℂ -/

theorem close_LSL (T E D Θ X1 X3 : ℂ) (n R : ℝ) (hX1 : X1 = Θ) (hX3 : X3 = (starRingEnd ℂ) Θ * E)
    (hΘ : Θ * (starRingEnd ℂ) Θ = 1) (hD : D = T + E * (I * R) - I * R) (hn : (n : ℂ) * Θ = D) :
    ((0 - I * R * 1 * (X1 - 1) + (n : ℂ) * (1 * X1) - I * R * (1 * X1) * (X3 - 1), 1 * X1 * X3) : ℂ × ℂ)
      = (T, E) := by
  subst hX1 hX3
  refine Prod.ext ?_ ?_
  · simp only
    linear_combination hn + hD - E * I * R * hΘ
  · simp only
    linear_combination E * hΘ

theorem close_RSR (T E D Θ X1 X3 : ℂ) (n R : ℝ) (hX1 : X1 = Θ) (hX3 : X3 = (starRingEnd ℂ) Θ * E)
    (hΘ : Θ * (starRingEnd ℂ) Θ = 1) (hD : D = T + E * (I * (-R)) - I * (-R)) (hn : (n : ℂ) * Θ = D) :
    ((0 + I * R * 1 * (X1 - 1) + (n : ℂ) * (1 * X1) + I * R * (1 * X1) * (X3 - 1), 1 * X1 * X3) : ℂ × ℂ)
      = (T, E) := by
  subst hX1 hX3
  refine Prod.ext ?_ ?_
  · simp only
    linear_combination hn + hD + E * I * R * hΘ
  · simp only
    linear_combination E * hΘ

theorem close_LSR (T E D Θ X1 X3 : ℂ) (d2 R : ℝ) (hX1 : X1 = Θ) (hX3 : X3 = (starRingEnd ℂ) Θ * E)
    (hΘ : Θ * (starRingEnd ℂ) Θ = 1) (hD : D = T + E * (I * (-R)) - I * R)
    (hkey : Θ * ((d2 : ℂ) - 2 * I * R) = D) :
    ((0 - I * R * 1 * (X1 - 1) + (d2 : ℂ) * (1 * X1) + I * R * (1 * X1) * (X3 - 1), 1 * X1 * X3) : ℂ × ℂ)
      = (T, E) := by
  subst hX1 hX3
  refine Prod.ext ?_ ?_
  · simp only
    linear_combination hkey + hD + E * I * R * hΘ
  · simp only
    linear_combination E * hΘ

theorem close_RSL (T E D Θ X1 X3 : ℂ) (d2 R : ℝ) (hX1 : X1 = Θ) (hX3 : X3 = (starRingEnd ℂ) Θ * E)
    (hΘ : Θ * (starRingEnd ℂ) Θ = 1) (hD : D = T + E * (I * R) - I * (-R))
    (hkey : Θ * ((d2 : ℂ) + 2 * I * R) = D) :
    ((0 + I * R * 1 * (X1 - 1) + (d2 : ℂ) * (1 * X1) - I * R * (1 * X1) * (X3 - 1), 1 * X1 * X3) : ℂ × ℂ)
      = (T, E) := by
  subst hX1 hX3
  refine Prod.ext ?_ ?_
  · simp only
    linear_combination hkey + hD - E * I * R * hΘ
  · simp only
    linear_combination E * hΘ

/-! ### same-side words: LSL, RSR -/

theorem same_d2 (dv : Vec ℝ 2) (hd : 0 < norm2 dv) :
    dv 0 * (theta0Of dv) 1 + dv 1 * (theta0Of dv) 0 = norm2 dv := by
  have hΘΘ := mul_conj_of_unit _ (norm_uC_theta0Of dv hd)
  have hnΘ := norm_mul_uC_theta0Of dv hd
  rw [d2_eq, ← hnΘ]
  have : (starRingEnd ℂ) (uC (theta0Of dv)) * (((norm2 dv : ℝ) : ℂ) * uC (theta0Of dv))
      = ((norm2 dv : ℝ) : ℂ) := by
    linear_combination ((norm2 dv : ℝ) : ℂ) * hΘΘ
  rw [this, Complex.ofReal_re]

theorem thetaOf_same (target : Vec ℝ 4) (R : ℝ) (c : Seg) :
    thetaOf target R c c = theta0Of (dvOf target R c c) := by
  unfold thetaOf; simp

theorem csc_reaches_LSL (target : Vec ℝ 4) (R len : ℝ) (hR : 0 < R)
    (hunit : target 2 ^ 2 + target 3 ^ 2 = 1) (hd : 0 < norm2 (dvOf target R .L .L)) :
    idealEnd (emit R ⟨(.L, .S, .L), csc target R .L .L, len⟩) = poseC target := by
  rw [csc_feasible target R .L .L (fun h => absurd rfl h), thetaOf_same]
  have hΘn := norm_uC_theta0Of _ hd
  have hE := norm_poseC_heading target hunit
  have hnΘ := norm_mul_uC_theta0Of _ hd
  have hΘΘ := mul_conj_of_unit _ hΘn
  rw [same_d2 _ hd, idealEnd_LSL _ _ _ _ _ hR (angle_nonneg _ _ _) (le_of_lt hd) (angle_nonneg _ _ _)]
  have e1 := exp_angle_L SO2.identity (theta0Of (dvOf target R .L .L)) (by rw [uC_identity]; simp) hΘn
  rw [uC_identity, map_one, one_mul] at e1
  have e3 := exp_angle_L (theta0Of (dvOf target R .L .L)) (SE2.so2 target) hΘn hE
  have hD := ptC_dvOf target R .L .L
  rw [sideR_L] at hD
  exact close_LSL (poseC target).1 (poseC target).2 _ _ _ _ _ R e1 e3 hΘΘ hD hnΘ

theorem csc_reaches_RSR (target : Vec ℝ 4) (R len : ℝ) (hR : 0 < R)
    (hunit : target 2 ^ 2 + target 3 ^ 2 = 1) (hd : 0 < norm2 (dvOf target R .R .R)) :
    idealEnd (emit R ⟨(.R, .S, .R), csc target R .R .R, len⟩) = poseC target := by
  rw [csc_feasible target R .R .R (fun h => absurd rfl h), thetaOf_same]
  have hΘn := norm_uC_theta0Of _ hd
  have hE := norm_poseC_heading target hunit
  have hnΘ := norm_mul_uC_theta0Of _ hd
  have hΘΘ := mul_conj_of_unit _ hΘn
  rw [same_d2 _ hd, idealEnd_RSR _ _ _ _ _ hR (angle_nonneg _ _ _) (le_of_lt hd) (angle_nonneg _ _ _)]
  have e1 := exp_angle_R SO2.identity (theta0Of (dvOf target R .R .R)) (by rw [uC_identity]; simp) hΘn
  rw [uC_identity, map_one, one_mul] at e1
  have e3 := exp_angle_R (theta0Of (dvOf target R .R .R)) (SE2.so2 target) hΘn hE
  have hD := ptC_dvOf target R .R .R
  rw [sideR_R] at hD
  push_cast at hD
  exact close_RSR (poseC target).1 (poseC target).2 _ _ _ _ _ R e1 e3 hΘΘ hD hnΘ

/-! ### opposite-side words: LSR, RSL -/

theorem opp_d2 (Θ0 F D : ℂ) (n : ℝ) (hΘ0 : Θ0 * (starRingEnd ℂ) Θ0 = 1) (hnΘ : (n : ℂ) * Θ0 = D) :
    ((starRingEnd ℂ) (Θ0 * F) * D).re = n * F.re := by
  have : (starRingEnd ℂ) (Θ0 * F) * D = (n : ℂ) * (starRingEnd ℂ) F := by
    rw [map_mul, ← hnΘ]
    linear_combination ((n : ℂ) * (starRingEnd ℂ) F) * hΘ0
  rw [this]; simp

theorem opp_key_LSR (Θ0 D : ℂ) (n R c s : ℝ) (hc : c * c + s * s = 1) (hs : n * s = 2 * R)
    (hnΘ : (n : ℂ) * Θ0 = D) :
    (Θ0 * (⟨c, s⟩ : ℂ)) * (((n * c : ℝ) : ℂ) - 2 * I * R) = D := by
  have hF : (⟨c, s⟩ : ℂ) * (((n * c : ℝ) : ℂ) - 2 * I * R) = (n : ℂ) := by
    apply Complex.ext
    · simp
      linear_combination n * hc - s * hs
    · simp
      linear_combination c * hs
  rw [← hnΘ]
  linear_combination Θ0 * hF

theorem opp_key_RSL (Θ0 D : ℂ) (n R c s : ℝ) (hc : c * c + s * s = 1) (hs : n * s = 2 * R)
    (hnΘ : (n : ℂ) * Θ0 = D) :
    (Θ0 * (starRingEnd ℂ) (⟨c, s⟩ : ℂ)) * (((n * c : ℝ) : ℂ) + 2 * I * R) = D := by
  have hF : (starRingEnd ℂ) (⟨c, s⟩ : ℂ) * (((n * c : ℝ) : ℂ) + 2 * I * R) = (n : ℂ) := by
    apply Complex.ext
    · simp
      linear_combination n * hc - s * hs
    · simp
      linear_combination (-c) * hs
  rw [← hnΘ]
  linear_combination Θ0 * hF

theorem diff_facts (R n : ℝ) (hR : 0 < R) (hf : 2 * R ≤ n) :
    diffCos R n * diffCos R n + (2 * R / n) * (2 * R / n) = 1 ∧ n * (2 * R / n) = 2 * R
      ∧ 0 ≤ n * diffCos R n := by
  have hn : 0 < n := by linarith
  refine ⟨diffCos_sq R n hR hf, by field_simp, ?_⟩
  exact mul_nonneg (le_of_lt hn) (Real.sqrt_nonneg _)

theorem thetaOf_LR (target : Vec ℝ 4) (R : ℝ) :
    thetaOf target R .L .R
      = SO2.composition (theta0Of (dvOf target R .L .R)) (diffOf R (norm2 (dvOf target R .L .R))) := by
  unfold thetaOf; simp

theorem thetaOf_RL (target : Vec ℝ 4) (R : ℝ) :
    thetaOf target R .R .L
      = SO2.composition (theta0Of (dvOf target R .R .L))
          (SO2.inverse (diffOf R (norm2 (dvOf target R .R .L)))) := by
  unfold thetaOf; simp

theorem csc_reaches_LSR (target : Vec ℝ 4) (R len : ℝ) (hR : 0 < R)
    (hunit : target 2 ^ 2 + target 3 ^ 2 = 1) (hf : 2 * R ≤ norm2 (dvOf target R .L .R)) :
    idealEnd (emit R ⟨(.L, .S, .R), csc target R .L .R, len⟩) = poseC target := by
  have hd : 0 < norm2 (dvOf target R .L .R) := by linarith
  obtain ⟨hc, hs, hnc⟩ := diff_facts R _ hR hf
  rw [csc_feasible target R .L .R (fun _ => hf)]
  have hΘ0n := norm_uC_theta0Of _ hd
  have hE := norm_poseC_heading target hunit
  have hnΘ := norm_mul_uC_theta0Of _ hd
  have hΘ0 := mul_conj_of_unit _ hΘ0n
  have hΘ : uC (thetaOf target R .L .R)
      = uC (theta0Of (dvOf target R .L .R))
          * (⟨diffCos R (norm2 (dvOf target R .L .R)), 2 * R / norm2 (dvOf target R .L .R)⟩ : ℂ) := by
    rw [thetaOf_LR, uC_composition, uC_diffOf R _ hR hf]
  have hΘn : ‖uC (thetaOf target R .L .R)‖ = 1 := by
    rw [hΘ, norm_mul, hΘ0n, norm_mk_of_sq _ _ hc, one_mul]
  have hΘΘ := mul_conj_of_unit _ hΘn
  have hd2 : (dvOf target R .L .R) 0 * (thetaOf target R .L .R) 1
      + (dvOf target R .L .R) 1 * (thetaOf target R .L .R) 0
      = norm2 (dvOf target R .L .R) * diffCos R (norm2 (dvOf target R .L .R)) := by
    rw [d2_eq, hΘ, opp_d2 _ _ _ _ hΘ0 hnΘ]
  rw [hd2, idealEnd_LSR _ _ _ _ _ hR (angle_nonneg _ _ _) hnc (angle_nonneg _ _ _)]
  have e1 := exp_angle_L SO2.identity (thetaOf target R .L .R) (by rw [uC_identity]; simp) hΘn
  rw [uC_identity, map_one, one_mul] at e1
  have e3 := exp_angle_R (thetaOf target R .L .R) (SE2.so2 target) hΘn hE
  have hD := ptC_dvOf target R .L .R
  rw [sideR_L, sideR_R] at hD
  push_cast at hD
  have hkey := opp_key_LSR _ _ _ R _ _ hc hs hnΘ
  rw [← hΘ] at hkey
  exact close_LSR (poseC target).1 (poseC target).2 _ _ _ _ _ R e1 e3 hΘΘ hD hkey

theorem csc_reaches_RSL (target : Vec ℝ 4) (R len : ℝ) (hR : 0 < R)
    (hunit : target 2 ^ 2 + target 3 ^ 2 = 1) (hf : 2 * R ≤ norm2 (dvOf target R .R .L)) :
    idealEnd (emit R ⟨(.R, .S, .L), csc target R .R .L, len⟩) = poseC target := by
  have hd : 0 < norm2 (dvOf target R .R .L) := by linarith
  obtain ⟨hc, hs, hnc⟩ := diff_facts R _ hR hf
  rw [csc_feasible target R .R .L (fun _ => hf)]
  have hΘ0n := norm_uC_theta0Of _ hd
  have hE := norm_poseC_heading target hunit
  have hnΘ := norm_mul_uC_theta0Of _ hd
  have hΘ0 := mul_conj_of_unit _ hΘ0n
  have hΘ : uC (thetaOf target R .R .L)
      = uC (theta0Of (dvOf target R .R .L))
          * (starRingEnd ℂ)
              (⟨diffCos R (norm2 (dvOf target R .R .L)), 2 * R / norm2 (dvOf target R .R .L)⟩ : ℂ) := by
    rw [thetaOf_RL, uC_composition, uC_inverse, uC_diffOf R _ hR hf]
  have hΘn : ‖uC (thetaOf target R .R .L)‖ = 1 := by
    rw [hΘ, norm_mul, hΘ0n, Complex.norm_conj, norm_mk_of_sq _ _ hc, one_mul]
  have hΘΘ := mul_conj_of_unit _ hΘn
  have hd2 : (dvOf target R .R .L) 0 * (thetaOf target R .R .L) 1
      + (dvOf target R .R .L) 1 * (thetaOf target R .R .L) 0
      = norm2 (dvOf target R .R .L) * diffCos R (norm2 (dvOf target R .R .L)) := by
    rw [d2_eq, hΘ, opp_d2 _ _ _ _ hΘ0 hnΘ, Complex.conj_re]
  rw [hd2, idealEnd_RSL _ _ _ _ _ hR (angle_nonneg _ _ _) hnc (angle_nonneg _ _ _)]
  have e1 := exp_angle_R SO2.identity (thetaOf target R .R .L) (by rw [uC_identity]; simp) hΘn
  rw [uC_identity, map_one, one_mul] at e1
  have e3 := exp_angle_L (thetaOf target R .R .L) (SE2.so2 target) hΘn hE
  have hD := ptC_dvOf target R .R .L
  rw [sideR_L, sideR_R] at hD
  push_cast at hD
  have hkey := opp_key_RSL _ _ _ R _ _ hc hs hnΘ
  rw [← hΘ] at hkey
  exact close_RSL (poseC target).1 (poseC target).2 _ _ _ _ _ R e1 e3 hΘΘ hD hkey

/-! ### all four CSC words -/

/-- the feasibility condition of `dubins_csc`: the circle centres are distinct, and for the
    words LSR / RSL they are at least `2R` apart -/
def CscFeasible (target : Vec ℝ 4) (R : ℝ) (c1 c3 : Seg) : Prop :=
  0 < norm2 (vsub (SE2.act target (mk2 (nat 0) (sideR c3 R))) (mk2 (nat 0) (sideR c1 R))) ∧
  (c1 ≠ c3 →
    2 * R ≤ norm2 (vsub (SE2.act target (mk2 (nat 0) (sideR c3 R))) (mk2 (nat 0) (sideR c1 R))))

/-- the three segments emitted for the closed-form lengths `csc target R c1 c3`, traversed as
    ideal unit-speed arcs / straight lines from the identity pose, end at the target pose -/
theorem csc_reaches_target (target : Vec ℝ 4) (R len : ℝ) (hR : 0 < R)
    (hunit : target 2 ^ 2 + target 3 ^ 2 = 1) (c1 c3 : Seg) (h1 : c1 ≠ .S) (h3 : c3 ≠ .S)
    (hfeas : CscFeasible target R c1 c3) :
    idealEnd (emit R ⟨(c1, .S, c3), csc target R c1 c3, len⟩) = poseC target := by
  obtain ⟨hd, hf⟩ := hfeas
  cases c1 <;> cases c3 <;> first | exact absurd rfl h1 | exact absurd rfl h3 | skip
  · exact csc_reaches_LSL target R len hR hunit hd
  · exact csc_reaches_LSR target R len hR hunit (hf (by decide))
  · exact csc_reaches_RSL target R len hR hunit (hf (by decide))
  · exact csc_reaches_RSR target R len hR hunit hd

end Dubins
