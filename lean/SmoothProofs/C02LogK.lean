/-
  C02LogK.lean — SE_K_3 (every K) and Galilei: `log ∘ exp = id` (rotation norm below π) and
  `exp ∘ log = id` (canonical unit rotation part, half turn included), closed-form branches.
  Uses `so3_S1inv_pack` (S₁⁻¹ is the two-sided inverse of S₁(ω) and of R·S₁(−ω)).
-/
import SmoothProofs.C02LogSE3

open Lin Scalar

namespace C02

/-! ### SE_K_3 coordinate lemmas -/

theorem sek3_gp_mkG (k : Nat) (p : Fin k → Vec ℝ 3) (q : Vec ℝ 4) (i : Fin k) :
    SEK3.gp k (SEK3.mkG k p q) i = p i := by
  ext c
  have hlt : 3 * i.val + c.val < 3 * k := by have := i.isLt; have := c.isLt; omega
  simp only [SEK3.gp, SEK3.mkG, Vec.of_get, dif_pos hlt]
  congr 1
  · congr 1; ext; show (3 * i.val + c.val) / 3 = i.val; have := c.isLt; omega
  · ext; show (3 * i.val + c.val) % 3 = c.val; have := c.isLt; omega

theorem sek3_tv_mkT (k : Nat) (v : Fin k → Vec ℝ 3) (w : Vec ℝ 3) (i : Fin k) :
    SEK3.tv k (SEK3.mkT k v w) i = v i := by
  ext c
  have hlt : 3 * i.val + c.val < 3 * k := by have := i.isLt; have := c.isLt; omega
  simp only [SEK3.tv, SEK3.mkT, Vec.of_get, dif_pos hlt]
  congr 1
  · congr 1; ext; show (3 * i.val + c.val) / 3 = i.val; have := c.isLt; omega
  · ext; show (3 * i.val + c.val) % 3 = c.val; have := c.isLt; omega

theorem sek3_tw_mkT (k : Nat) (v : Fin k → Vec ℝ 3) (w : Vec ℝ 3) :
    SEK3.tw k (SEK3.mkT k v w) = w := by
  ext i
  simp only [SEK3.tw, SEK3.mkT, Vec.of_get]
  rw [dif_neg (by omega)]
  congr 1; ext; simp

theorem sek3_mkT_tv_tw (k : Nat) (a : Vec ℝ (3 + 3 * k)) :
    SEK3.mkT k (SEK3.tv k a) (SEK3.tw k a) = a := by
  ext i
  simp only [SEK3.mkT, SEK3.tv, SEK3.tw, Vec.of_get]
  split_ifs with h
  · congr 1; ext; show 3 * (i.val / 3) + i.val % 3 = i.val; omega
  · congr 1; ext; show 3 * k + (i.val - 3 * k) = i.val; omega

theorem sek3_mkG_gp_gq (k : Nat) (g : Vec ℝ (4 + 3 * k)) :
    SEK3.mkG k (SEK3.gp k g) (SEK3.gq k g) = g := by
  ext i
  simp only [SEK3.mkG, SEK3.gp, SEK3.gq, Vec.of_get]
  split_ifs with h
  · congr 1; ext; show 3 * (i.val / 3) + i.val % 3 = i.val; omega
  · congr 1; ext; show 3 * k + (i.val - 3 * k) = i.val; omega

theorem sek3_log_unfold (k : Nat) (g : Vec ℝ (4 + 3 * k)) :
    SEK3.log k g = SEK3.mkT k (fun i => mulVec (SO3.calc_S1inv (SO3.log (SEK3.gq k g)))
      (SEK3.gp k g i)) (SO3.log (SEK3.gq k g)) := by
  simp only [SEK3.log, memoM_eq, memoV_eq, se3_log_T]

theorem sek3_exp_unfold (k : Nat) (a : Vec ℝ (3 + 3 * k)) :
    SEK3.exp k a = SEK3.mkG k (fun i => mulVec (mmul (SO3.matrix (SO3.exp (SEK3.tw k a)))
      (SO3.calc_S1 (vneg (SEK3.tw k a)))) (SEK3.tv k a i)) (SO3.exp (SEK3.tw k a)) := by
  simp only [SEK3.exp, memoM_eq, memoV_eq, SO3.Ad, SO3.dr_exp]

/-- **SE_K_3 log (exp a) = a** (every K): `eps2 < ‖ω‖²`, `‖ω‖ < π`, closed-form branches. -/
theorem sek3_log_exp (k : Nat) (a : Vec ℝ (3 + 3 * k)) (h1 : Scalar.eps2 < sqNorm (SEK3.tw k a))
    (h2 : ¬ xyz2 (SO3.exp (SEK3.tw k a)) < Scalar.eps2)
    (hπ : Real.sqrt (sqNorm (SEK3.tw k a)) < Real.pi) : SEK3.log k (SEK3.exp k a) = a := by
  have hnb : ¬ sqNorm (SEK3.tw k a) < Scalar.eps2 := not_lt.2 h1.le
  have hlog : SO3.log (SO3.exp (SEK3.tw k a)) = SEK3.tw k a := so3_log_exp _ hnb h2 hπ
  obtain ⟨hI, _, _, _⟩ := so3_S1inv_pack (SEK3.tw k a) h1 hπ.le
  rw [sek3_exp_unfold, sek3_log_unfold, sek3_gq_mkG, hlog]
  have ht : (fun i => mulVec (SO3.calc_S1inv (SEK3.tw k a))
      (SEK3.gp k (SEK3.mkG k (fun i => mulVec (mmul (SO3.matrix (SO3.exp (SEK3.tw k a)))
        (SO3.calc_S1 (vneg (SEK3.tw k a)))) (SEK3.tv k a i)) (SO3.exp (SEK3.tw k a))) i))
      = SEK3.tv k a := by
    funext i
    rw [sek3_gp_mkG]
    apply vec3_ext_get
    rw [mulVec3_get, mulVec3_get, toM_mmul3, Matrix.mulVec_mulVec, hI, Matrix.one_mulVec]
  rw [ht, sek3_mkT_tv_tw]

/-- **SE_K_3 exp (log g) = g** (every K): unit rotation part, `w ≥ 0` (half turn included),
closed-form branch. -/
theorem sek3_exp_log (k : Nat) (g : Vec ℝ (4 + 3 * k)) (hU : UnitQ (SEK3.gq k g))
    (hw : 0 ≤ (SEK3.gq k g) 3) (hb : ¬ xyz2 (SEK3.gq k g) < Scalar.eps2) :
    SEK3.exp k (SEK3.log k g) = g := by
  obtain ⟨h1, hπ, _⟩ := so3_log_range (SEK3.gq k g) hU hw hb
  have hexp : SO3.exp (SO3.log (SEK3.gq k g)) = SEK3.gq k g := so3_exp_log _ hU hw hb
  obtain ⟨_, hI, _, _⟩ := so3_S1inv_pack (SO3.log (SEK3.gq k g)) h1 hπ
  rw [hexp] at hI
  rw [sek3_log_unfold, sek3_exp_unfold, sek3_tw_mkT, hexp]
  have ht : (fun i => mulVec (mmul (SO3.matrix (SEK3.gq k g))
      (SO3.calc_S1 (vneg (SO3.log (SEK3.gq k g)))))
      (SEK3.tv k (SEK3.mkT k (fun i => mulVec (SO3.calc_S1inv (SO3.log (SEK3.gq k g)))
        (SEK3.gp k g i)) (SO3.log (SEK3.gq k g))) i)) = SEK3.gp k g := by
    funext i
    rw [sek3_tv_mkT]
    apply vec3_ext_get
    rw [mulVec3_get, mulVec3_get, toM_mmul3, Matrix.mulVec_mulVec, hI, Matrix.one_mulVec]
  rw [ht, sek3_mkG_gp_gq]


/-! ### Galilei -/

theorem galilei_gv_mkG (v p : Vec ℝ 3) (t : ℝ) (q : Vec ℝ 4) : Galilei.gv (Galilei.mkG v p t q) = v := by
  ext i; fin_cases i <;> simp [Galilei.gv, Galilei.mkG, mk3]
theorem galilei_gp_mkG (v p : Vec ℝ 3) (t : ℝ) (q : Vec ℝ 4) : Galilei.gp (Galilei.mkG v p t q) = p := by
  ext i; fin_cases i <;> simp [Galilei.gp, Galilei.mkG, mk3]
theorem galilei_gt_mkG (v p : Vec ℝ 3) (t : ℝ) (q : Vec ℝ 4) : Galilei.gt (Galilei.mkG v p t q) = t := by
  simp [Galilei.gt, Galilei.mkG]
theorem galilei_tb_mkT (b q : Vec ℝ 3) (s : ℝ) (w : Vec ℝ 3) : Galilei.tb (Galilei.mkT b q s w) = b := by
  ext i; fin_cases i <;> simp [Galilei.tb, Galilei.mkT, mk3]
theorem galilei_tq_mkT (b q : Vec ℝ 3) (s : ℝ) (w : Vec ℝ 3) : Galilei.tq (Galilei.mkT b q s w) = q := by
  ext i; fin_cases i <;> simp [Galilei.tq, Galilei.mkT, mk3]
theorem galilei_ts_mkT (b q : Vec ℝ 3) (s : ℝ) (w : Vec ℝ 3) : Galilei.ts (Galilei.mkT b q s w) = s := by
  simp [Galilei.ts, Galilei.mkT]
theorem galilei_tw_mkT (b q : Vec ℝ 3) (s : ℝ) (w : Vec ℝ 3) : Galilei.tw (Galilei.mkT b q s w) = w := by
  ext i; fin_cases i <;> simp [Galilei.tw, Galilei.mkT, mk3]
theorem galilei_mkT_eta (a : Vec ℝ 10) :
    Galilei.mkT (Galilei.tb a) (Galilei.tq a) (Galilei.ts a) (Galilei.tw a) = a := by
  ext i; fin_cases i <;> simp [Galilei.mkT, Galilei.tb, Galilei.tq, Galilei.ts, Galilei.tw, mk3]
theorem galilei_mkG_eta (g : Vec ℝ 11) :
    Galilei.mkG (Galilei.gv g) (Galilei.gp g) (Galilei.gt g) (Galilei.gq g) = g := by
  ext i; fin_cases i <;> simp [Galilei.mkG, Galilei.gv, Galilei.gp, Galilei.gt, Galilei.gq, mk3, mk4]

theorem galilei_log_unfold (g : Vec ℝ 11) :
    Galilei.log g =
      Galilei.mkT (mulVec (SO3.calc_S1inv (SO3.log (Galilei.gq g))) (Galilei.gv g))
        (mulVec (SO3.calc_S1inv (SO3.log (Galilei.gq g))) (.of (fun i => Galilei.gp g i
          - (mulVec (SO3.calc_S2 (SO3.log (Galilei.gq g)))
              (mulVec (SO3.calc_S1inv (SO3.log (Galilei.gq g))) (Galilei.gv g))) i * Galilei.gt g)))
        (Galilei.gt g) (SO3.log (Galilei.gq g)) := by
  simp only [Galilei.log, memoM_eq, memoV_eq]

theorem galilei_exp_unfold (a : Vec ℝ 10) :
    Galilei.exp a = Galilei.mkG (mulVec (SO3.calc_S1 (Galilei.tw a)) (Galilei.tb a))
      (.of (fun i => (mulVec (SO3.calc_S1 (Galilei.tw a)) (Galilei.tq a)) i
        + (mulVec (SO3.calc_S2 (Galilei.tw a)) (Galilei.tb a)) i * Galilei.ts a))
      (Galilei.ts a) (SO3.exp (Galilei.tw a)) := by
  simp only [Galilei.exp, memoM_eq]

/-- `A (A⁻¹ v) = v` on model vectors from the Mathlib identity `A * A⁻¹ = 1` -/
theorem mulVec3_cancel (A B : Mat ℝ 3 3) (h : toM A * toM B = 1) (v : Vec ℝ 3) :
    mulVec A (mulVec B v) = v := by
  apply vec3_ext_get
  rw [mulVec3_get, mulVec3_get, Matrix.mulVec_mulVec, h, Matrix.one_mulVec]

/-- **Galilei log (exp a) = a**: `eps2 < ‖ω‖²`, `‖ω‖ < π`, closed-form branches. -/
theorem galilei_log_exp (a : Vec ℝ 10) (h1 : Scalar.eps2 < sqNorm (Galilei.tw a))
    (h2 : ¬ xyz2 (SO3.exp (Galilei.tw a)) < Scalar.eps2)
    (hπ : Real.sqrt (sqNorm (Galilei.tw a)) < Real.pi) : Galilei.log (Galilei.exp a) = a := by
  have hnb : ¬ sqNorm (Galilei.tw a) < Scalar.eps2 := not_lt.2 h1.le
  have hlog : SO3.log (SO3.exp (Galilei.tw a)) = Galilei.tw a := so3_log_exp _ hnb h2 hπ
  obtain ⟨_, _, hI, _⟩ := so3_S1inv_pack (Galilei.tw a) h1 hπ.le
  rw [galilei_exp_unfold, galilei_log_unfold, galilei_gq_mkG, galilei_gv_mkG, galilei_gp_mkG,
    galilei_gt_mkG, hlog, mulVec3_cancel _ _ hI]
  have hq : (Vec.of (fun i => (Vec.of (fun i => (mulVec (SO3.calc_S1 (Galilei.tw a)) (Galilei.tq a)) i
        + (mulVec (SO3.calc_S2 (Galilei.tw a)) (Galilei.tb a)) i * Galilei.ts a) : Vec ℝ 3) i
      - (mulVec (SO3.calc_S2 (Galilei.tw a)) (Galilei.tb a)) i * Galilei.ts a) : Vec ℝ 3)
      = mulVec (SO3.calc_S1 (Galilei.tw a)) (Galilei.tq a) := by
    ext i; simp
  rw [hq, mulVec3_cancel _ _ hI, galilei_mkT_eta]

/-- **Galilei exp (log g) = g**: unit rotation part, `w ≥ 0` (half turn included), closed branch. -/
theorem galilei_exp_log (g : Vec ℝ 11) (hU : UnitQ (Galilei.gq g)) (hw : 0 ≤ (Galilei.gq g) 3)
    (hb : ¬ xyz2 (Galilei.gq g) < Scalar.eps2) : Galilei.exp (Galilei.log g) = g := by
  obtain ⟨h1, hπ, _⟩ := so3_log_range (Galilei.gq g) hU hw hb
  have hexp : SO3.exp (SO3.log (Galilei.gq g)) = Galilei.gq g := so3_exp_log _ hU hw hb
  obtain ⟨_, _, _, hI⟩ := so3_S1inv_pack (SO3.log (Galilei.gq g)) h1 hπ
  rw [galilei_log_unfold, galilei_exp_unfold, galilei_tw_mkT, galilei_tb_mkT, galilei_tq_mkT,
    galilei_ts_mkT, hexp, mulVec3_cancel _ _ hI, mulVec3_cancel _ _ hI]
  have hp : (Vec.of (fun i => (Vec.of (fun i => Galilei.gp g i
        - (mulVec (SO3.calc_S2 (SO3.log (Galilei.gq g)))
            (mulVec (SO3.calc_S1inv (SO3.log (Galilei.gq g))) (Galilei.gv g))) i * Galilei.gt g)
          : Vec ℝ 3) i
      + (mulVec (SO3.calc_S2 (SO3.log (Galilei.gq g)))
            (mulVec (SO3.calc_S1inv (SO3.log (Galilei.gq g))) (Galilei.gv g))) i * Galilei.gt g)
        : Vec ℝ 3) = Galilei.gp g := by
    ext i; simp
  rw [hp, galilei_mkG_eta]

end C02
