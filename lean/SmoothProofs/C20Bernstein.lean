/-
  C20Bernstein.lean — general (every degree K) theorems about the Bernstein tables of the Poly model
  at `α := ℝ`: closed form of `bernstein_basis<K>` by induction over the code's `low*left + high*right`
  recursion, evaluation `Σ_i B[i][j] u^i = C(K,j) u^j (1-u)^(K-j)`, partition of unity, non-negativity
  on [0,1], and the cumulative basis (suffix sums): first function ≡ 1, end points, Σ_{j≥1} B̃_j(u) = K u.
-/
import Mathlib.Algebra.BigOperators.Intervals
import Mathlib.Data.Nat.Choose.Sum
import Mathlib.RingTheory.Polynomial.Bernstein
import Mathlib.Tactic.Ring
import Mathlib.Tactic.Linarith
import SmoothProofs.Real

namespace C20B
open Poly Finset Scalar

theorem rget_rowFn (c : Nat) (f : Nat → ℝ) (j : Nat) : rget (rowFn c f) j = if j < c then f j else 0 := by
  unfold rget rowFn
  by_cases h : j < c <;> simp [List.getD_eq_getElem?_getD, h]

theorem get_ofFn (r c : Nat) (f : Nat → Nat → ℝ) (i j : Nat) :
    (ofFn r c f).get i j = if i < r ∧ j < c then f i j else 0 := by
  unfold Tab.get ofFn rget
  by_cases hi : i < r <;> by_cases hj : j < c <;> simp [List.getD_eq_getElem?_getD, hi, hj]

theorem sumTo_eq_sum (n : Nat) (f : Nat → ℝ) : sumTo n f = ∑ k ∈ range n, f k := by
  induction n with
  | zero => simp [sumTo]
  | succ n ih => rw [sumTo, ih, Finset.sum_range_succ]

/-- closed form of the Bernstein coefficient matrix, total in i j:
    `(-1)^(i+j) C(K,i) C(i,j)` (`= (-1)^(i-j) C(K,j) C(K-j,i-j)` for j ≤ i ≤ K, 0 otherwise) -/
def bernC (K i j : Nat) : ℝ := (-1) ^ (i + j) * (K.choose i : ℝ) * (i.choose j : ℝ)

/-- entries of one `low*left + high*right` step of `bernstein_basis` in terms of the previous table -/
theorem bern_step_get (prev : Tab ℝ) (K i j : Nat) :
    (madd (K+1+1) (K+1+1)
      (mmul (K+1+1) (K+1) (K+1+1)
        (ofFn (K+1+1) (K+1) fun i j => if i < K+1 then prev.get i j else nat 0)
        (ofFn (K+1) (K+1+1) fun k j => if j = k then nat 1 else nat 0))
      (mmul (K+1+1) (K+1) (K+1+1)
        (ofFn (K+1+1) (K+1) fun i j => if 0 < i then prev.get (i-1) j else nat 0)
        (ofFn (K+1) (K+1+1) fun k j => if j = k then -(nat 1) else if j = k+1 then nat 1 else nat 0))).get i j
    = if i < K+1+1 ∧ j < K+1+1 then
        (if i < K+1 ∧ j < K+1 then prev.get i j else 0)
        + (if 0 < i then (-(if j < K+1 then prev.get (i-1) j else 0) + (if 0 < j then prev.get (i-1) (j-1) else 0)) else 0)
      else 0 := by
  rw [madd, get_ofFn]
  by_cases hij : i < K + 1 + 1 ∧ j < K + 1 + 1
  · rw [if_pos hij, if_pos hij]
    obtain ⟨hi, hj⟩ := hij
    congr 1
    · rw [mmul, get_ofFn, if_pos ⟨hi, hj⟩, sumTo_eq_sum]
      rw [Finset.sum_congr rfl (g := fun k => if j = k then (if i < K+1 then prev.get i k else 0) else 0)]
      · rw [Finset.sum_ite_eq]
        by_cases h1 : i < K + 1 <;> by_cases h2 : j < K+1 <;> simp [h1, h2]
      · intro k hk
        have hk' : k < K + 1 := Finset.mem_range.mp hk
        simp only [get_ofFn, hi, hk', hj, and_self, if_true, Nat.cast_one, Nat.cast_zero]
        by_cases h : j = k <;> simp [h]
    · rw [mmul, get_ofFn, if_pos ⟨hi, hj⟩, sumTo_eq_sum]
      rw [Finset.sum_congr rfl (g := fun k => (if j = k then -(if 0 < i then prev.get (i-1) k else 0) else 0)
            + (if j = k + 1 then (if 0 < i then prev.get (i-1) k else 0) else 0))]
      · rw [Finset.sum_add_distrib, Finset.sum_ite_eq]
        by_cases hi0 : 0 < i
        · simp only [hi0, if_true]
          congr 1
          · by_cases h2 : j < K+1 <;> simp [h2]
          · by_cases hj0 : 0 < j
            · have : ∀ k, (j = k + 1) ↔ (j - 1 = k) := by intro k; omega
              simp only [this, Finset.sum_ite_eq, hj0, if_true]
              have : j - 1 < K + 1 := by omega
              simp [this]
            · have : ∀ k, ¬ (j = k + 1) := by intro k; omega
              simp [this, hj0]
        · simp [hi0]
      · intro k hk
        have hk' : k < K + 1 := Finset.mem_range.mp hk
        simp only [get_ofFn, hi, hk', hj, and_self, if_true, Nat.cast_one, Nat.cast_zero]
        by_cases h : j = k
        · have : ¬ (j = k + 1) := by omega
          simp [h]
        · by_cases h' : j = k + 1 <;> simp [h, h']
  · rw [if_neg hij, if_neg hij]


theorem bernC_eq_zero_left {K i : Nat} (j : Nat) (h : K < i) : bernC K i j = 0 := by
  simp [bernC, Nat.choose_eq_zero_of_lt h]

theorem bernC_eq_zero_right (K : Nat) {i j : Nat} (h : i < j) : bernC K i j = 0 := by
  simp [bernC, Nat.choose_eq_zero_of_lt h]

theorem bernC_succ_zero (K j : Nat) : bernC (K+1) 0 j = bernC K 0 j := by
  simp [bernC]

theorem bernC_succ_succ_zero (K i : Nat) : bernC (K+1) (i+1) 0 = bernC K (i+1) 0 - bernC K i 0 := by
  simp only [bernC, Nat.choose_succ_succ, Nat.choose_zero_right, Nat.cast_add, Nat.cast_one, add_zero, pow_succ]
  ring

theorem bernC_succ_succ_succ (K i j : Nat) :
    bernC (K+1) (i+1) (j+1) = bernC K (i+1) (j+1) - bernC K i (j+1) + bernC K i j := by
  have e1 : (-1 : ℝ) ^ (i + 1 + (j + 1)) = (-1) ^ (i + j) := by
    rw [show i + 1 + (j + 1) = (i + j) + 2 by ring, pow_add]; norm_num
  have e2 : (-1 : ℝ) ^ (i + (j + 1)) = -(-1) ^ (i + j) := by
    rw [show i + (j + 1) = (i + j) + 1 by ring, pow_succ]; ring
  simp only [bernC, e1, e2]
  rw [Nat.choose_succ_succ K i, Nat.choose_succ_succ i j]
  push_cast
  ring

/-- **Bernstein closed form, every degree K**: the table built by `bernstein_basis<K>` has entries
    `(-1)^(i+j) C(K,i) C(i,j)` (and reads 0 outside) -/
theorem bernstein_get (K : Nat) : ∀ i j, (bernstein (α := ℝ) K).get i j = bernC K i j := by
  induction K with
  | zero =>
    intro i j
    unfold bernstein Tab.get rget
    rcases i with _ | i
    · rcases j with _ | j
      · simp [bernC]
      · simp [bernC]
    · simp [bernC]
  | succ K ih =>
    intro i j
    unfold bernstein
    dsimp only
    rw [bern_step_get]
    simp only [ih]
    by_cases hij : i < K + 1 + 1 ∧ j < K + 1 + 1
    · rw [if_pos hij]
      obtain ⟨hi, hj⟩ := hij
      have h1 : (if i < K + 1 ∧ j < K + 1 then bernC K i j else 0) = bernC K i j := by
        by_cases h : i < K + 1 ∧ j < K + 1
        · rw [if_pos h]
        · rw [if_neg h]
          by_cases h' : i < K + 1
          · exact (bernC_eq_zero_right K (by omega)).symm
          · exact (bernC_eq_zero_left j (by omega)).symm
      rw [h1]
      rcases i with _ | i
      · simp [bernC_succ_zero]
      · have h2 : (if j < K + 1 then bernC K (i + 1 - 1) j else 0) = bernC K i j := by
          by_cases h : j < K + 1
          · rw [if_pos h]; rfl
          · rw [if_neg h]; exact (bernC_eq_zero_right K (by omega)).symm
        rw [if_pos (Nat.succ_pos i), h2]
        rcases j with _ | j
        · simp [bernC_succ_succ_zero]; ring
        · simp only [Nat.succ_pos, if_true, Nat.add_sub_cancel, bernC_succ_succ_succ]; ring
    · rw [if_neg hij]
      by_cases h' : i < K + 1 + 1
      · exact (bernC_eq_zero_right _ (by omega)).symm
      · exact (bernC_eq_zero_left j (by omega)).symm


/-! ### evaluation -/

theorem powS_eq_pow (i : Nat) (u : ℝ) : powS i u = u ^ i := by
  induction i with
  | zero => simp [powS]
  | succ i ih => rw [powS, ih, pow_succ]; ring

theorem evalCol_eq_sum (M : Tab ℝ) (rows j : Nat) (u : ℝ) :
    evalCol M rows j u = ∑ i ∈ range rows, M.get i j * u ^ i := by
  simp only [evalCol, sumTo_eq_sum, powS_eq_pow]

/-- the j-th Bernstein polynomial of degree K -/
def bernPoly (K j : Nat) (u : ℝ) : ℝ := (K.choose j : ℝ) * u ^ j * (1 - u) ^ (K - j)

theorem sum_bernC_pow (K j : Nat) (u : ℝ) (hj : j ≤ K) :
    ∑ i ∈ range (K+1), bernC K i j * u ^ i = bernPoly K j u := by
  rw [Finset.range_eq_Ico, ← Finset.sum_Ico_consecutive _ (Nat.zero_le j) (by omega : j ≤ K + 1)]
  have h0 : ∑ i ∈ Ico 0 j, bernC K i j * u ^ i = 0 := by
    apply Finset.sum_eq_zero
    intro i hi
    rw [bernC_eq_zero_right K (Finset.mem_Ico.mp hi).2, zero_mul]
  rw [h0, zero_add, Finset.sum_Ico_eq_sum_range]
  have hb : (1 - u) ^ (K - j) = ∑ m ∈ range (K - j + 1), (-u) ^ m * 1 ^ (K - j - m) * ((K - j).choose m : ℝ) := by
    rw [← add_pow]; ring_nf
  rw [bernPoly, hb, Finset.mul_sum, show K + 1 - j = K - j + 1 by omega]
  apply Finset.sum_congr rfl
  intro m hm
  have hm' : m < K - j + 1 := Finset.mem_range.mp hm
  have hc : (K.choose (j + m) : ℝ) * ((j + m).choose j : ℝ) = (K.choose j : ℝ) * ((K - j).choose m : ℝ) := by
    have := Nat.choose_mul (n := K) (k := j + m) (s := j) (by omega)
    rw [Nat.add_sub_cancel_left] at this
    exact_mod_cast this
  have hs : (-1 : ℝ) ^ (j + m + j) = (-1) ^ m := by
    rw [show j + m + j = m + 2 * j by ring, pow_add, pow_mul]; norm_num
  rw [bernC, hs, one_pow, mul_one, neg_pow u m, pow_add]
  linear_combination ((-1 : ℝ) ^ m * u ^ j * u ^ m) * hc

/-- **evaluation**: column j of the Bernstein table is `C(K,j) u^j (1-u)^(K-j)` -/
theorem bernstein_eval (K j : Nat) (u : ℝ) (hj : j ≤ K) :
    evalCol (bernstein (α := ℝ) K) (K+1) j u = bernPoly K j u := by
  rw [evalCol_eq_sum]
  simp only [bernstein_get]
  exact sum_bernC_pow K j u hj

theorem sum_bernPoly (K : Nat) (u : ℝ) : ∑ j ∈ range (K+1), bernPoly K j u = 1 := by
  have := add_pow u (1 - u) K
  rw [show u + (1 - u) = 1 by ring, one_pow] at this
  rw [this]
  apply Finset.sum_congr rfl
  intro j _
  rw [bernPoly]; ring

theorem bernPoly_nonneg (K j : Nat) (u : ℝ) (h0 : 0 ≤ u) (h1 : u ≤ 1) : 0 ≤ bernPoly K j u := by
  rw [bernPoly]
  exact mul_nonneg (mul_nonneg (Nat.cast_nonneg _) (pow_nonneg h0 _)) (pow_nonneg (sub_nonneg.mpr h1) _)

theorem bernPoly_zero (K j : Nat) (hj : j ≤ K) : bernPoly K j 0 = if j = 0 then 1 else 0 := by
  rcases j with _ | j
  · simp [bernPoly]
  · simp [bernPoly]

theorem bernPoly_one (K j : Nat) (hj : j ≤ K) : bernPoly K j 1 = if j = K then 1 else 0 := by
  by_cases h : j = K
  · subst h; simp [bernPoly]
  · have : K - j ≠ 0 := by omega
    simp [bernPoly, h, this]

/-- `Σ_j j · B_{j,K}(u) = K u` (mean of the binomial distribution; Mathlib `bernsteinPolynomial.sum_smul`) -/
theorem sum_smul_bernPoly (K : Nat) (u : ℝ) : ∑ j ∈ range (K+1), (j : ℝ) * bernPoly K j u = K * u := by
  have h := congrArg (Polynomial.eval u) (bernsteinPolynomial.sum_smul ℝ K)
  simp only [Polynomial.eval_finsetSum, nsmul_eq_mul, Polynomial.eval_natCast_mul, Polynomial.eval_X] at h
  rw [← h]
  apply Finset.sum_congr rfl
  intro j _
  simp [bernPoly, bernsteinPolynomial]

/-! ### cumulative basis -/

theorem cumRow_spec (l : List ℝ) :
    (cumRow l).length = l.length ∧ ∀ j, rget (cumRow l) j = ∑ m ∈ Ico j l.length, rget l m := by
  induction l with
  | nil => exact ⟨rfl, fun j => by simp [cumRow, rget]⟩
  | cons x r ih =>
    rcases r with _ | ⟨y, r⟩
    · refine ⟨rfl, fun j => ?_⟩
      rcases j with _ | j
      · simp [cumRow, rget]
      · simp [cumRow, rget]
    · obtain ⟨hlen, hget⟩ := ih
      rcases hc : cumRow (y :: r) with _ | ⟨s, t⟩
      · rw [hc] at hlen; simp at hlen
      · have hs : s = ∑ m ∈ Ico 0 (y :: r).length, rget (y :: r) m := by
          have := hget 0; rw [hc] at this; simpa [rget] using this
        refine ⟨?_, fun j => ?_⟩
        · rw [cumRow, hc]; rw [hc] at hlen; simp at hlen ⊢; omega
        · rw [cumRow, hc]
          rcases j with _ | j
          · show x + s = _
            rw [hs]
            rw [show (x :: y :: r).length = (y :: r).length + 1 from rfl]
            rw [Finset.sum_Ico_eq_sum_range, Finset.sum_Ico_eq_sum_range, Nat.sub_zero, Nat.sub_zero,
              Finset.sum_range_succ']
            simp [rget, add_comm]
          · have := hget j
            rw [hc] at this
            show rget (s :: t) j = _
            rw [this, show (x :: y :: r).length = (y :: r).length + 1 from rfl]
            rw [Finset.sum_Ico_eq_sum_range, Finset.sum_Ico_eq_sum_range]
            rw [show (y :: r).length + 1 - (j + 1) = (y :: r).length - j by omega]
            apply Finset.sum_congr rfl
            intro m _
            simp [rget, show j + 1 + m = (j + m) + 1 by ring]


theorem ofFn_congr (r c : Nat) (f g : Nat → Nat → ℝ) (h : ∀ i, i < r → ∀ j, j < c → f i j = g i j) :
    ofFn r c f = ofFn r c g := by
  unfold ofFn
  apply List.map_congr_left
  intro i hi
  apply List.map_congr_left
  intro j hj
  exact h i (List.mem_range.mp hi) j (List.mem_range.mp hj)

/-- entries of the cumulative table of an `r × c` table: suffix sums along the row -/
theorem cumulative_ofFn_get (r c : Nat) (f : Nat → Nat → ℝ) (i j : Nat) :
    (cumulative (ofFn r c f)).get i j = if i < r then ∑ m ∈ Ico j c, f i m else 0 := by
  unfold cumulative Tab.get ofFn
  by_cases hi : i < r
  · rw [if_pos hi]
    have : (List.map cumRow (List.map (fun i => List.map (fun j => f i j) (List.range c)) (List.range r))).getD i []
        = cumRow (rowFn c (f i)) := by
      simp [List.getD_eq_getElem?_getD, hi, rowFn]
    rw [this, (cumRow_spec _).2 j]
    have hl : (rowFn c (f i)).length = c := by simp [rowFn]
    rw [hl]
    apply Finset.sum_congr rfl
    intro m hm
    rw [rget_rowFn, if_pos (Finset.mem_Ico.mp hm).2]
  · rw [if_neg hi]
    have : (List.map cumRow (List.map (fun i => List.map (fun j => f i j) (List.range c)) (List.range r))).getD i [] = [] := by
      simp [List.getD_eq_getElem?_getD, hi]
    rw [this]; simp [rget]

/-- the Bernstein table is a `(K+1) × (K+1)` table (shape) -/
theorem bernstein_shape (K : Nat) :
    bernstein (α := ℝ) K = ofFn (K+1) (K+1) (fun i j => bernC K i j) := by
  have key : ∀ K, ∃ g, bernstein (α := ℝ) K = ofFn (K+1) (K+1) g := by
    intro K
    rcases K with _ | K
    · exact ⟨fun _ _ => 1, by simp [bernstein, ofFn]⟩
    · unfold bernstein; dsimp only; unfold madd; exact ⟨_, rfl⟩
  obtain ⟨g, hg⟩ := key K
  rw [hg]
  apply ofFn_congr
  intro i hi j hj
  have := bernstein_get K i j
  rw [hg, get_ofFn, if_pos ⟨hi, hj⟩] at this
  exact this

/-- entries of `polynomial_cumulative_basis<Bernstein,K>` -/
theorem cumulative_bernstein_get (K i j : Nat) :
    (cumulativeBasis (α := ℝ) .Bernstein K).get i j = if i < K + 1 then ∑ m ∈ Ico j (K+1), bernC K i m else 0 := by
  show (cumulative (bernstein (α := ℝ) K)).get i j = _
  rw [bernstein_shape, cumulative_ofFn_get]

/-- the j-th cumulative Bernstein function is `Σ_{m ≥ j} B_{m,K}` -/
theorem cumulative_bernstein_eval (K j : Nat) (u : ℝ) :
    evalCol (cumulativeBasis (α := ℝ) .Bernstein K) (K+1) j u = ∑ m ∈ Ico j (K+1), bernPoly K m u := by
  rw [evalCol_eq_sum]
  have : ∀ i ∈ range (K+1), (cumulativeBasis (α := ℝ) .Bernstein K).get i j * u ^ i
      = ∑ m ∈ Ico j (K+1), bernC K i m * u ^ i := by
    intro i hi
    rw [cumulative_bernstein_get, if_pos (Finset.mem_range.mp hi), Finset.sum_mul]
  rw [Finset.sum_congr rfl this, Finset.sum_comm]
  apply Finset.sum_congr rfl
  intro m hm
  exact sum_bernC_pow K m u (by have := (Finset.mem_Ico.mp hm).2; omega)

/-- **cumulative bases start with the constant 1** -/
theorem cumulative_first_is_one (K : Nat) (u : ℝ) :
    evalCol (cumulativeBasis (α := ℝ) .Bernstein K) (K+1) 0 u = 1 := by
  rw [cumulative_bernstein_eval, ← Finset.range_eq_Ico, sum_bernPoly]

/-- **Bernstein cumulative functions j ≥ 1 run from 0 at u = 0 …** -/
theorem cumulative_bernstein_at_zero (K j : Nat) (hj : 1 ≤ j) :
    evalCol (cumulativeBasis (α := ℝ) .Bernstein K) (K+1) j 0 = 0 := by
  rw [cumulative_bernstein_eval]
  apply Finset.sum_eq_zero
  intro m hm
  have hm' := Finset.mem_Ico.mp hm
  rw [bernPoly_zero K m (by omega), if_neg (by omega)]

/-- **… to 1 at u = 1** -/
theorem cumulative_bernstein_at_one (K j : Nat) (hj : j ≤ K) :
    evalCol (cumulativeBasis (α := ℝ) .Bernstein K) (K+1) j 1 = 1 := by
  rw [cumulative_bernstein_eval, Finset.sum_eq_single K]
  · rw [bernPoly_one K K le_rfl, if_pos rfl]
  · intro m hm hne
    have hm' := Finset.mem_Ico.mp hm
    rw [bernPoly_one K m (by omega), if_neg hne]
  · intro h; exact absurd (Finset.mem_Ico.mpr ⟨hj, Nat.lt_succ_self K⟩) h

/-- **Σ_{j=1}^{K} B̃_j(u) = K·u** (used by C12, ConstantVelocity) -/
theorem sum_cumulative_bernstein (K : Nat) (u : ℝ) :
    ∑ j ∈ Ico 1 (K+1), evalCol (cumulativeBasis (α := ℝ) .Bernstein K) (K+1) j u = K * u := by
  simp only [cumulative_bernstein_eval]
  rw [Finset.sum_Ico_Ico_comm]
  rw [← sum_smul_bernPoly K u, Finset.range_eq_Ico, ← Finset.sum_Ico_consecutive _ (Nat.zero_le 1) (by omega : 1 ≤ K + 1)]
  simp only [Finset.sum_const, Nat.card_Ico, nsmul_eq_mul]
  have : ∑ x ∈ Ico (0:ℕ) 1, ((x : ℕ) : ℝ) * bernPoly K x u = 0 := by simp
  rw [this, zero_add]
  apply Finset.sum_congr rfl
  intro m _
  simp

end C20B
