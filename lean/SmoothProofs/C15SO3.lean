/-
  C15SO3.lean — quaternion norm through the SO3 producers.

  * `sqn_composition`, `sqn_inverse`: composition multiplies norms², Eigen's `inverse` (conjugate
    divided by the squared norm) inverts it; both keep / restore the canonical sign.
  * `sqn_exp_closed`: the closed-form branch of `exp` is exactly unit.
  * `sqn_exp_series`: the series branch (`θ² < eps2`) has norm² `1 − θ⁴/192 + θ⁶/2304` — the only
    producer that is not exactly norm-preserving over ℝ.
  * `Near m q`: `D0^(−m) ≤ ‖q‖² ≤ D0^m ∧ q_w ≥ 0` with `D0 = 1 + 10⁻¹⁸`, the graded invariant.
-/
import SmoothProofs.C01SO3
import Mathlib.Tactic.Positivity
import Mathlib.Tactic.FieldSimp
import Mathlib.Tactic.NormNum
import Mathlib.Tactic.Linarith

open Lin Scalar

namespace C15
open SO3

-- local copies of three C02 facts (kept local so that this file only depends on C01SO3)
theorem scalar_eps2 : (Scalar.eps2 : ℝ) = 1 / 100000000 := rfl
theorem eps2_pos : (0 : ℝ) < Scalar.eps2 := by rw [scalar_eps2]; norm_num
theorem sqNorm3 (a : Vec ℝ 3) : sqNorm a = a 0 * a 0 + a 1 * a 1 + a 2 * a 2 := by
  simp [sqNorm, dot, vsum]
theorem sqNorm3_nonneg (a : Vec ℝ 3) : 0 ≤ sqNorm a := by
  rw [sqNorm3]
  exact add_nonneg (add_nonneg (mul_self_nonneg _) (mul_self_nonneg _)) (mul_self_nonneg _)

/-- closed-form branch of `SO3.exp`, written out -/
theorem exp_closed (a : Vec ℝ 3) (h : ¬ sqNorm a < Scalar.eps2) :
    SO3.exp a = canon (mk4 (Real.sin (Real.sqrt (sqNorm a) / 2) / Real.sqrt (sqNorm a) * a 0)
      (Real.sin (Real.sqrt (sqNorm a) / 2) / Real.sqrt (sqNorm a) * a 1)
      (Real.sin (Real.sqrt (sqNorm a) / 2) / Real.sqrt (sqNorm a) * a 2)
      (Real.cos (Real.sqrt (sqNorm a) / 2))) := by
  simp [SO3.exp, SO3.expAB, h, Scalar.sin, Scalar.cos, Scalar.sqrt]

theorem sqn_canon (q : Vec ℝ 4) : sqn (canon q) = sqn q := by
  rcases canon_eq_or q with h | h <;> rw [h]
  exact sqn_vneg q

theorem sqn_nonneg (q : Vec ℝ 4) : 0 ≤ sqn q := by unfold sqn; positivity

theorem sqn_composition (a b : Vec ℝ 4) : sqn (SO3.composition a b) = sqn a * sqn b := by
  unfold SO3.composition
  rw [sqn_canon, sqn_qmul]

theorem sqn_inverse (g : Vec ℝ 4) (h : sqn g ≠ 0) : sqn (SO3.inverse g) = 1 / sqn g := by
  rw [inverse_of_ne_zero g h]
  have hs' : g 0 ^ 2 + g 1 ^ 2 + g 2 ^ 2 + g 3 ^ 2 = sqn g := rfl
  generalize sqn g = s at *
  show (-(g 0) / s) ^ 2 + (-(g 1) / s) ^ 2 + (-(g 2) / s) ^ 2 + (g 3 / s) ^ 2 = 1 / s
  have : (-(g 0) / s) ^ 2 + (-(g 1) / s) ^ 2 + (-(g 2) / s) ^ 2 + (g 3 / s) ^ 2
      = (g 0 ^ 2 + g 1 ^ 2 + g 2 ^ 2 + g 3 ^ 2) / s ^ 2 := by ring
  rw [this, hs']
  field_simp

theorem canon_inverse (g : Vec ℝ 4) (hc : Canon g) : Canon (SO3.inverse g) := by
  unfold Canon at *
  by_cases h : sqn g = 0
  · unfold SO3.inverse
    have : ¬ (nat 0 : ℝ) < sqNorm g := by rw [sqNorm_eq, h]; simp
    rw [if_neg this]; simp [vzero]
  · rw [inverse_of_ne_zero g h]
    have hp : 0 < sqn g := lt_of_le_of_ne (sqn_nonneg g) (Ne.symm h)
    show 0 ≤ (mk4 (-(g 0) / sqn g) (-(g 1) / sqn g) (-(g 2) / sqn g) (g 3 / sqn g) : Vec ℝ 4) 3
    simp only [mk4, Vec.of]
    exact div_nonneg hc hp.le

/-- the closed-form branch of `exp` is exactly unit -/
theorem sqn_exp_closed (a : Vec ℝ 3) (h : ¬ sqNorm a < Scalar.eps2) : sqn (SO3.exp a) = 1 := by
  rw [exp_closed a h, sqn_canon]
  have ht : 0 < sqNorm a := lt_of_lt_of_le eps2_pos (not_lt.1 h)
  have hθpos : 0 < Real.sqrt (sqNorm a) := Real.sqrt_pos.2 ht
  have hsq : Real.sqrt (sqNorm a) * Real.sqrt (sqNorm a) = a 0 * a 0 + a 1 * a 1 + a 2 * a 2 := by
    rw [← sqNorm3]; exact Real.mul_self_sqrt ht.le
  generalize Real.sqrt (sqNorm a) = θ at *
  have hsc := Real.sin_sq_add_cos_sq (θ / 2)
  generalize Real.sin (θ / 2) = s at *
  generalize Real.cos (θ / 2) = c at *
  simp only [sqn, mk4, Vec.of]
  show (s / θ * a 0) ^ 2 + (s / θ * a 1) ^ 2 + (s / θ * a 2) ^ 2 + c ^ 2 = 1
  have hθ : θ ≠ 0 := hθpos.ne'
  have : (s / θ * a 0) ^ 2 + (s / θ * a 1) ^ 2 + (s / θ * a 2) ^ 2
      = s ^ 2 * ((a 0 * a 0 + a 1 * a 1 + a 2 * a 2) / (θ * θ)) := by
    field_simp
  rw [this, ← hsq, div_self (mul_ne_zero hθ hθ)]
  linarith

/-- series branch of `SO3.exp`, written out -/
theorem exp_series (a : Vec ℝ 3) (h : sqNorm a < Scalar.eps2) :
    SO3.exp a = canon (mk4 ((1 / 2 - sqNorm a / 48) * a 0) ((1 / 2 - sqNorm a / 48) * a 1)
      ((1 / 2 - sqNorm a / 48) * a 2) (1 - sqNorm a / 8)) := by
  simp [SO3.exp, SO3.expAB, h]

/-- **norm² of the series branch**: `1 − θ⁴/192 + θ⁶/2304` with `θ² = ‖a‖²` -/
theorem sqn_exp_series (a : Vec ℝ 3) (h : sqNorm a < Scalar.eps2) :
    sqn (SO3.exp a) = 1 - (sqNorm a) ^ 2 / 192 + (sqNorm a) ^ 3 / 2304 := by
  rw [exp_series a h, sqn_canon]
  have ht : sqNorm a = a 0 * a 0 + a 1 * a 1 + a 2 * a 2 := sqNorm3 a
  generalize sqNorm a = t at *
  simp only [sqn, mk4, Vec.of]
  show ((1 / 2 - t / 48) * a 0) ^ 2 + ((1 / 2 - t / 48) * a 1) ^ 2 + ((1 / 2 - t / 48) * a 2) ^ 2
      + (1 - t / 8) ^ 2 = _
  have : ((1 / 2 - t / 48) * a 0) ^ 2 + ((1 / 2 - t / 48) * a 1) ^ 2 + ((1 / 2 - t / 48) * a 2) ^ 2
      = (1 / 2 - t / 48) ^ 2 * (a 0 * a 0 + a 1 * a 1 + a 2 * a 2) := by ring
  rw [this, ← ht]
  ring

/-- the explicit slack of the graded invariant -/
noncomputable def D0 : ℝ := 1 + 1 / 10 ^ 18

theorem D0_ge_one : 1 ≤ D0 := by unfold D0; norm_num
theorem D0_pos : 0 < D0 := lt_of_lt_of_le one_pos D0_ge_one

/-- every `exp` output has norm² within `[1/D0, D0]` -/
theorem sqn_exp_near (a : Vec ℝ 3) : 1 ≤ sqn (SO3.exp a) * D0 ∧ sqn (SO3.exp a) ≤ D0 := by
  by_cases h : sqNorm a < Scalar.eps2
  · rw [sqn_exp_series a h]
    have h0 : 0 ≤ sqNorm a := sqNorm3_nonneg a
    rw [scalar_eps2] at h
    generalize sqNorm a = t at *
    have h2 : t ^ 2 ≤ (1 / 100000000) ^ 2 := pow_le_pow_left₀ h0 h.le 2
    have h3 : t ^ 3 ≤ (1 / 100000000) ^ 3 := pow_le_pow_left₀ h0 h.le 3
    have h3' : 0 ≤ t ^ 3 := pow_nonneg h0 3
    have h2' : 0 ≤ t ^ 2 := pow_nonneg h0 2
    unfold D0
    constructor
    · nlinarith
    · nlinarith
  · rw [sqn_exp_closed a h]
    exact ⟨by simpa using D0_ge_one, D0_ge_one⟩

/-- graded invariant of SO3 registers: norm² within `D0^{∓m}`, canonical sign -/
def Near (m : Nat) (q : Vec ℝ 4) : Prop := 1 ≤ sqn q * D0 ^ m ∧ sqn q ≤ D0 ^ m ∧ Canon q

theorem near_zero_iff (q : Vec ℝ 4) : Near 0 q ↔ SO3.Unit q ∧ Canon q := by
  unfold Near SO3.Unit
  simp only [pow_zero, mul_one]
  constructor
  · rintro ⟨h1, h2, h3⟩; exact ⟨le_antisymm h2 h1, h3⟩
  · rintro ⟨h, h3⟩
    have h' : sqn q = 1 := h
    exact ⟨h'.ge, h'.le, h3⟩

theorem near_mono {m n : Nat} (hmn : m ≤ n) {q : Vec ℝ 4} (h : Near m q) : Near n q := by
  obtain ⟨h1, h2, h3⟩ := h
  have hp : D0 ^ m ≤ D0 ^ n := pow_le_pow_right₀ D0_ge_one hmn
  refine ⟨?_, h2.trans hp, h3⟩
  calc (1 : ℝ) ≤ sqn q * D0 ^ m := h1
    _ ≤ sqn q * D0 ^ n := mul_le_mul_of_nonneg_left hp (sqn_nonneg q)

theorem near_composition {m n : Nat} {a b : Vec ℝ 4} (ha : Near m a) (hb : Near n b) :
    Near (m + n + 1) (SO3.composition a b) := by
  apply near_mono (Nat.le_succ (m + n))
  obtain ⟨a1, a2, _⟩ := ha
  obtain ⟨b1, b2, _⟩ := hb
  refine ⟨?_, ?_, canon_composition a b⟩
  · rw [sqn_composition, pow_add]
    have : sqn a * sqn b * (D0 ^ m * D0 ^ n) = (sqn a * D0 ^ m) * (sqn b * D0 ^ n) := by ring
    rw [this]
    exact one_le_mul_of_one_le_of_one_le a1 b1
  · rw [sqn_composition, pow_add]
    exact mul_le_mul a2 b2 (sqn_nonneg b) (pow_nonneg D0_pos.le m)

theorem near_inverse {m : Nat} {g : Vec ℝ 4} (hg : Near m g) : Near (m + 1) (SO3.inverse g) := by
  apply near_mono (Nat.le_succ m)
  obtain ⟨g1, g2, g3⟩ := hg
  have hD : 0 < D0 ^ m := pow_pos D0_pos m
  have hpos : 0 < sqn g := by
    by_contra hc
    have : sqn g = 0 := le_antisymm (not_lt.1 hc) (sqn_nonneg g)
    rw [this, zero_mul] at g1
    linarith
  refine ⟨?_, ?_, canon_inverse g g3⟩
  · rw [sqn_inverse g hpos.ne', one_div, inv_mul_eq_div, le_div_iff₀ hpos]
    linarith
  · rw [sqn_inverse g hpos.ne', div_le_iff₀ hpos]
    linarith [mul_comm (sqn g) (D0 ^ m)]

theorem near_exp (a : Vec ℝ 3) : Near 1 (SO3.exp a) := by
  obtain ⟨h1, h2⟩ := sqn_exp_near a
  refine ⟨by simpa using h1, by simpa using h2, ?_⟩
  unfold SO3.exp
  exact canon_canon _

theorem canon_exp (a : Vec ℝ 3) : Canon (SO3.exp a) := by
  unfold SO3.exp
  exact canon_canon _

/-- from the graded invariant to the defect bound: `|‖q‖² − 1| ≤ D0^m − 1` -/
theorem near_defect {m : Nat} {q : Vec ℝ 4} (h : Near m q) : |sqn q - 1| ≤ D0 ^ m - 1 := by
  obtain ⟨h1, h2, _⟩ := h
  have hD : 1 ≤ D0 ^ m := one_le_pow₀ D0_ge_one
  have hDp : 0 < D0 ^ m := lt_of_lt_of_le one_pos hD
  rw [abs_le]
  constructor
  · -- sqn ≥ 1/D ≥ 2 − D
    have : (2 - D0 ^ m) * D0 ^ m ≤ 1 := by nlinarith [sq_nonneg (D0 ^ m - 1)]
    have h3 : (2 - D0 ^ m) * D0 ^ m ≤ sqn q * D0 ^ m := this.trans h1
    have := le_of_mul_le_mul_right h3 hDp
    linarith
  · linarith

end C15
