/-
  C20Search.lean — total correctness of the model of `smooth::utils::binary_interval_search`
  (SmoothModel/Search.lean; C++: include/smooth/detail/utils.hpp lines 24-73).

  The four clauses of the C++ doc comment are proved for EVERY pivot-proposal function `pv` (the model
  clamps the proposal into `[left, rght-2]`, which is the identity on admissible pivot functions,
  `clampPivot_of_admissible`).  Termination is part of the model definition (well-founded recursion on
  `rght - left`); the number of loop iterations is bounded by `n - 1` (`search_iters_le`).
-/
import SmoothModel.Search
import SmoothProofs.Real
import Mathlib.Order.Defs.LinearOrder
import Mathlib.Order.Basic
import Mathlib.Tactic.Linarith
import Mathlib.Tactic.IntervalCases
import Mathlib.Data.Real.Basic

namespace C20S

/-! ### the pivot clamp -/

/-- the clamped pivot always lies in the admissible window `[l, r-2]` -/
theorem clampPivot_mem (l r p : Nat) (h : l + 2 ≤ r) :
    l ≤ Search.clampPivot l r p ∧ Search.clampPivot l r p + 2 ≤ r := by
  simp only [Search.clampPivot, Nat.min_def, Nat.max_def]
  repeat' split
  all_goals omega

example : 3 ≤ Search.clampPivot 3 7 100 ∧ Search.clampPivot 3 7 100 + 2 ≤ 7 := clampPivot_mem 3 7 100 (by decide)
example : Search.clampPivot 3 7 100 = 5 := by decide
example : Search.clampPivot 3 7 0 = 3 := by decide

/-- a pivot function is admissible if it always proposes a pivot in [left, rght-2] -/
def Admissible (pv : Nat → Nat → Nat) : Prop := ∀ l r, l + 2 ≤ r → l ≤ pv l r ∧ pv l r + 2 ≤ r

/-- the clamp is the identity on admissible pivot functions -/
theorem clampPivot_of_admissible {pv : Nat → Nat → Nat} (h : Admissible pv) (l r : Nat) (hlr : l + 2 ≤ r) :
    Search.clampPivot l r (pv l r) = pv l r := by
  obtain ⟨h1, h2⟩ := h l r hlr
  simp only [Search.clampPivot, Nat.min_def, Nat.max_def]
  repeat' split
  all_goals omega

/-- non-vacuity: "always the left end" (linear scan) is admissible -/
example : Admissible (fun l _ => l) := fun l _ h => ⟨Nat.le_refl l, h⟩
/-- non-vacuity: bisection is admissible -/
example : Admissible (fun l r => l + (r - 1 - l) / 2) := by
  intro l r h
  show l ≤ l + (r - 1 - l) / 2 ∧ l + (r - 1 - l) / 2 + 2 ≤ r
  constructor <;> omega
/-- every clamped pivot function is admissible -/
theorem admissible_clamp (pv : Nat → Nat → Nat) : Admissible (fun l r => Search.clampPivot l r (pv l r)) :=
  fun l r h => clampPivot_mem l r (pv l r) h

/-! ### the interpolation pivot of the C++ is admissible (any scalar type) -/

section interp
variable {β : Type} [Scalar β]

theorem floorNat_le (x : β) (b : Nat) : Search.floorNat x b ≤ b := by
  induction b with
  | zero => simp [Search.floorNat]
  | succ b ih =>
    unfold Search.floorNat
    split
    · exact Nat.le_refl _
    · exact Nat.le_succ_of_le ih

/-- `interpPivot` (with the limit `rght - 2` of `std::ranges::next` built in) is admissible, for every
    range `r`, every `t` and every scalar type (so also for `Float`, NaN included) -/
theorem interpPivot_admissible (r : Nat → β) (t : β) : Admissible (Search.interpPivot r t) := by
  intro l rg h
  have := floorNat_le ((t - r l) / (r (rg - 1) - r l) * Scalar.nat (rg - 1 - l)) (rg - 2 - l)
  simp only [Search.interpPivot]
  constructor <;> omega

/-- so the clamp of the model does not alter the interpolation pivot -/
theorem clampPivot_interpPivot (r : Nat → β) (t : β) (l rg : Nat) (h : l + 2 ≤ rg) :
    Search.clampPivot l rg (Search.interpPivot r t l rg) = Search.interpPivot r t l rg :=
  clampPivot_of_admissible (interpPivot_admissible r t) l rg h

/-- `interpPivot` composed with the clamp yields an index in `[left, rght-2]` -/
theorem clampPivot_interpPivot_mem (r : Nat → β) (t : β) (l rg : Nat) (h : l + 2 ≤ rg) :
    l ≤ Search.clampPivot l rg (Search.interpPivot r t l rg) ∧
      Search.clampPivot l rg (Search.interpPivot r t l rg) + 2 ≤ rg :=
  clampPivot_mem l rg _ h

end interp

/-! ### the loop -/

section order
variable {α : Type} [LinearOrder α]

/-- sorted w.r.t. ≤ on the first n entries (repeats allowed) -/
def SortedUpTo (r : Nat → α) (n : Nat) : Prop := ∀ i j, i ≤ j → j < n → r i ≤ r j

/-- the example range `[1,1,2,5]` used in the non-vacuity examples below -/
def exR : Nat → Nat := fun i => ([1, 1, 2, 5] : List Nat).getD i 0

example : SortedUpTo exR 4 := by
  intro i j hij hj
  interval_cases j <;> interval_cases i <;> simp [exR]

/-- iteration bound of the loop; no hypothesis at all (any range, any `t`, any pivot function) -/
theorem loop_iters_le (r : Nat → α) (t : α) (pv : Nat → Nat → Nat) (left rght pivot iters calls chk : Nat) :
    (Search.loop r t pv left rght pivot iters calls chk).iters ≤ iters + (rght - 1 - left) := by
  fun_induction Search.loop r t pv left rght pivot iters calls chk with
  | case1 left rght pivot iters calls chk h p hle ih =>
    have hp := clampPivot_mem left rght (pv left rght) (by omega)
    have hp1 : left ≤ p := hp.1
    have hp2 : p + 2 ≤ rght := hp.2
    omega
  | case2 left rght pivot iters calls chk h p hle hlt ih =>
    have hp := clampPivot_mem left rght (pv left rght) (by omega)
    have hp1 : left ≤ p := hp.1
    have hp2 : p + 2 ≤ rght := hp.2
    omega
  | case3 left rght pivot iters calls chk h p hle hlt =>
    show iters + 1 ≤ _
    omega
  | case4 left rght pivot iters calls chk h =>
    show iters ≤ _
    omega

/-- the iteration counter never decreases -/
theorem loop_iters_ge (r : Nat → α) (t : α) (pv : Nat → Nat → Nat) (left rght pivot iters calls chk : Nat) :
    iters ≤ (Search.loop r t pv left rght pivot iters calls chk).iters := by
  fun_induction Search.loop r t pv left rght pivot iters calls chk with
  | case1 left rght pivot iters calls chk h p hle ih => omega
  | case2 left rght pivot iters calls chk h p hle hlt ih => omega
  | case3 left rght pivot iters calls chk h p hle hlt => show iters ≤ iters + 1; omega
  | case4 left rght pivot iters calls chk h => exact Nat.le_refl _

/-- loop invariant theorem: if `left < rght` and `r left ≤ t < r (rght-1)` then the loop returns an index
    `i` with `left ≤ i`, `i + 1 < rght`, `r i ≤ t < r (i+1)`; the number of iterations added is
    `≤ rght - 1 - left` (and at least one).  No sortedness is needed: the bracket
    `r left ≤ t < r (rght-1)` is maintained by the comparisons alone. -/
theorem loop_correct (r : Nat → α) (t : α) (pv : Nat → Nat → Nat) (left rght pivot iters calls chk : Nat)
    (hlr : left < rght) (h1 : r left ≤ t) (h2 : t < r (rght - 1)) :
    left ≤ (Search.loop r t pv left rght pivot iters calls chk).idx ∧
    (Search.loop r t pv left rght pivot iters calls chk).idx + 1 < rght ∧
    r (Search.loop r t pv left rght pivot iters calls chk).idx ≤ t ∧
    t < r ((Search.loop r t pv left rght pivot iters calls chk).idx + 1) ∧
    iters < (Search.loop r t pv left rght pivot iters calls chk).iters ∧
    (Search.loop r t pv left rght pivot iters calls chk).iters ≤ iters + (rght - 1 - left) := by
  fun_induction Search.loop r t pv left rght pivot iters calls chk with
  | case1 left rght pivot iters calls chk h p hle ih =>
    have hp := clampPivot_mem left rght (pv left rght) (by omega)
    have hp1 : left ≤ p := hp.1
    have hp2 : p + 2 ≤ rght := hp.2
    -- p + 1 ≠ rght - 1 because r (p+1) ≤ t < r (rght-1)
    have hne : p + 1 ≠ rght - 1 := by
      intro he
      rw [← he] at h2
      exact absurd hle (not_le.mpr h2)
    obtain ⟨i1, i2, i3, i4, i5, i6⟩ := ih (by omega) hle h2
    refine ⟨by omega, i2, i3, i4, by omega, by omega⟩
  | case2 left rght pivot iters calls chk h p hle hlt ih =>
    have hp := clampPivot_mem left rght (pv left rght) (by omega)
    have hp1 : left ≤ p := hp.1
    have hp2 : p + 2 ≤ rght := hp.2
    obtain ⟨i1, i2, i3, i4, i5, i6⟩ := ih (by omega) h1 (by simpa using hlt)
    refine ⟨i1, by omega, i3, i4, by omega, by omega⟩
  | case3 left rght pivot iters calls chk h p hle hlt =>
    have hp := clampPivot_mem left rght (pv left rght) (by omega)
    have hp1 : left ≤ p := hp.1
    have hp2 : p + 2 ≤ rght := hp.2
    refine ⟨hp1, ?_, not_lt.mp hlt, not_le.mp hle, ?_, ?_⟩
    · show p + 1 < rght
      omega
    · show iters < iters + 1
      omega
    · show iters + 1 ≤ _
      omega
  | case4 left rght pivot iters calls chk h =>
    have he : rght - 1 = left := by omega
    rw [he] at h2
    exact absurd h1 (not_le.mpr h2)

/-- non-vacuity of the hypotheses of `loop_correct`: the bracket `exR 0 ≤ 1 < exR 3` -/
example : (0 : Nat) < 4 ∧ exR 0 ≤ 1 ∧ 1 < exR (4 - 1) := by decide
/-- and the instance it yields (pivot function "always 0", clamped by the model) -/
example : exR (Search.loop exR 1 (fun _ _ => 0) 0 4 0 0 0 0).idx ≤ 1 ∧
    1 < exR ((Search.loop exR 1 (fun _ _ => 0) 0 4 0 0 0 0).idx + 1) :=
  let h := loop_correct exR 1 (fun _ _ => 0) 0 4 0 0 0 0 (by decide) (by decide) (by decide)
  ⟨h.2.2.1, h.2.2.2.1⟩

/-! ### the four clauses of the doc comment -/

/-- clause 4 without sortedness: whenever `r 0 ≤ t < r (n-1)` the returned index brackets `t` -/
theorem search_bracket (r : Nat → α) (n : Nat) (t : α) (pv : Nat → Nat → Nat)
    (hn : 0 < n) (h0 : r 0 ≤ t) (hl : t < r (n - 1)) :
    (Search.search r n t pv).idx + 1 < n ∧ r (Search.search r n t pv).idx ≤ t ∧
      t < r ((Search.search r n t pv).idx + 1) := by
  have hc := loop_correct r t pv 0 n 0 0 0 0 hn h0 hl
  have hs : Search.search r n t pv =
      ⟨(Search.loop r t pv 0 n 0 0 0 0).idx, (Search.loop r t pv 0 n 0 0 0 0).iters,
        (Search.loop r t pv 0 n 0 0 0 0).calls + 2, (Search.loop r t pv 0 n 0 0 0 0).chk⟩ := by
    unfold Search.search
    rw [if_neg (by omega), if_neg (not_lt.mpr h0), if_neg (not_le.mpr hl)]
  rw [hs]
  exact ⟨hc.2.1, hc.2.2.1, hc.2.2.2.1⟩

theorem search_total_correct (r : Nat → α) (n : Nat) (t : α) (pv : Nat → Nat → Nat) (_hs : SortedUpTo r n) :
    (n = 0 → (Search.search r n t pv).idx = n) ∧
    (0 < n → t < r 0 → (Search.search r n t pv).idx = n) ∧
    (0 < n → r (n - 1) ≤ t → (Search.search r n t pv).idx = n - 1) ∧
    (0 < n → r 0 ≤ t → t < r (n - 1) →
        (Search.search r n t pv).idx + 1 < n ∧ r (Search.search r n t pv).idx ≤ t ∧
          t < r ((Search.search r n t pv).idx + 1)) := by
  refine ⟨?_, ?_, ?_, ?_⟩
  · intro hn
    unfold Search.search
    rw [if_pos hn]
  · intro hn ht
    unfold Search.search
    rw [if_neg (by omega), if_pos ht]
  · intro hn ht
    -- sortedness: r 0 ≤ r (n-1) ≤ t, so the `t < r 0` branch is not taken
    have h0 : ¬ t < r 0 := not_lt.mpr (le_trans (_hs 0 (n - 1) (Nat.zero_le _) (by omega)) ht)
    unfold Search.search
    rw [if_neg (by omega), if_neg h0, if_pos ht]
  · intro hn h0 hl
    exact search_bracket r n t pv hn h0 hl

/-- what sortedness adds to clause 4: the returned interval is the LAST one containing `t` on the left,
    i.e. every entry up to `idx` is `≤ t` and every entry from `idx+1` on is `> t` -/
theorem search_bracket_global (r : Nat → α) (n : Nat) (t : α) (pv : Nat → Nat → Nat) (hs : SortedUpTo r n)
    (hn : 0 < n) (h0 : r 0 ≤ t) (hl : t < r (n - 1)) :
    (∀ i, i ≤ (Search.search r n t pv).idx → r i ≤ t) ∧
    (∀ j, (Search.search r n t pv).idx < j → j < n → t < r j) := by
  obtain ⟨b1, b2, b3⟩ := search_bracket r n t pv hn h0 hl
  constructor
  · intro i hi
    exact le_trans (hs i _ hi (by omega)) b2
  · intro j hj hjn
    exact lt_of_lt_of_le b3 (hs _ j hj hjn)

/-- the loop runs at most n-1 times -/
theorem search_iters_le (r : Nat → α) (n : Nat) (t : α) (pv : Nat → Nat → Nat) :
    (Search.search r n t pv).iters ≤ n - 1 := by
  have hl := loop_iters_le r t pv 0 n 0 0 0 0
  unfold Search.search
  split
  · exact Nat.zero_le _
  · split
    · exact Nat.zero_le _
    · split
      · exact Nat.zero_le _
      · show (Search.loop r t pv 0 n 0 0 0 0).iters ≤ n - 1
        omega

/-! ### concrete evaluations (range `[1,1,2,5]`) -/

example : (Search.search exR 4 1 (fun l _ => l)).idx = 1 := by
  simp [Search.search, Search.loop, Search.clampPivot, exR]
example : (Search.search exR 4 0 (fun l _ => l)).idx = 4 := by decide
example : (Search.search exR 4 5 (fun l _ => l)).idx = 3 := by decide
example : (Search.search exR 4 3 (fun l r => l + (r - 1 - l) / 2)).idx = 2 := by
  simp [Search.search, Search.loop, Search.clampPivot, exR]
example : (Search.search exR 0 3 (fun l _ => l)).idx = 0 := by decide

end order

/-! ### the interpolation fraction over ℝ -/

/-- under the loop invariant the interpolation fraction `alpha` of the C++ lies in `[0, 1)` -/
theorem interp_alpha_unit (r : Nat → ℝ) (t : ℝ) (left rght : Nat) (h1 : r left ≤ t) (h2 : t < r (rght - 1)) :
    0 ≤ (t - r left) / (r (rght - 1) - r left) ∧ (t - r left) / (r (rght - 1) - r left) < 1 := by
  have hd : 0 < r (rght - 1) - r left := by linarith
  constructor
  · exact div_nonneg (by linarith) hd.le
  · rw [div_lt_one hd]
    linarith

example : (0:ℝ) ≤ (1.5 - (fun i : Nat => (i : ℝ)) 1) / ((fun i : Nat => (i : ℝ)) (4 - 1) - (fun i : Nat => (i : ℝ)) 1) ∧
    (1.5 - (fun i : Nat => (i : ℝ)) 1) / ((fun i : Nat => (i : ℝ)) (4 - 1) - (fun i : Nat => (i : ℝ)) 1) < 1 :=
  interp_alpha_unit (fun i => (i : ℝ)) 1.5 1 4 (by norm_num) (by norm_num)

/-- hence `alpha * dist < dist`: the un-truncated pivot offset is already `< rght - 1 - left` -/
theorem interp_offset_lt (r : Nat → ℝ) (t : ℝ) (left rght : Nat) (hlr : left + 1 < rght)
    (h1 : r left ≤ t) (h2 : t < r (rght - 1)) :
    0 ≤ (t - r left) / (r (rght - 1) - r left) * (Scalar.nat (rght - 1 - left) : ℝ) ∧
    (t - r left) / (r (rght - 1) - r left) * (Scalar.nat (rght - 1 - left) : ℝ) < ((rght - 1 - left : Nat) : ℝ) := by
  obtain ⟨a0, a1⟩ := interp_alpha_unit r t left rght h1 h2
  have hd : (0:ℝ) < ((rght - 1 - left : Nat) : ℝ) := by
    have : 0 < rght - 1 - left := by omega
    exact_mod_cast this
  rw [Scalar.nat_real]
  constructor
  · exact mul_nonneg a0 hd.le
  · calc _ < 1 * ((rght - 1 - left : Nat) : ℝ) := mul_lt_mul_of_pos_right a1 hd
      _ = _ := one_mul _

example : (0:Nat) + 1 < 4 ∧ (fun i : Nat => (i : ℝ)) 0 ≤ 1.5 ∧ (1.5 : ℝ) < (fun i : Nat => (i : ℝ)) (4 - 1) := by
  refine ⟨by decide, by norm_num, by norm_num⟩

end C20S
