/-
  RoundAct.lean — the standard model of floating-point arithmetic (SmoothProofs/RoundModel.lean) applied to
  * the group ACTIONS `g * v` of the model (`SO2.act`, `C1.act`, `SO3.act` = Eigen `_transformVector`,
    `SE2.act`, `SE3.act`, `Galilei.act`),
  * `Galilei.composition / inverse`,
  * `SEK3.composition / inverse` for EVERY `K`.
  One `Appr` lemma per model function: the MODEL's definition instantiated at `RF` (every operation
  rounded) versus the same definition at ℝ on the same inputs; nothing is restated.  Then the norm forms
  of the majorants.  Property-level statements: SmoothProps/C01RoundB.lean.
-/
import SmoothProofs.RoundModel

set_option linter.unusedSimpArgs false
set_option linter.unusedVariables false

open RF Rounding Lin Scalar

noncomputable section
namespace Round

/-! ## generic pieces (any scalar type) -/
section Generic
variable {α : Type} [Scalar α]

theorem se2_act_def (g : Vec α 4) (v : Vec α 2) :
    SE2.act g v = vadd (mulVec (SO2.matrix (SE2.so2 g)) v) (SE2.r2 g) := rfl
theorem se3_act_def (g : Vec α 7) (v : Vec α 3) : SE3.act g v = vadd (SO3.act (SE3.so3 g) v) (SE3.r3 g) := rfl

end Generic

theorem se2_so2_toRF (a : Vec ℝ 4) : SE2.so2 (Vec.toRF a) = Vec.toRF (SE2.so2 a) := by
  ext i; fin_cases i <;> rfl
theorem se2_r2_toRF (a : Vec ℝ 4) : SE2.r2 (Vec.toRF a) = Vec.toRF (SE2.r2 a) := by
  ext i; fin_cases i <;> rfl

section
variable [Rounding]

/-! ## 2×2 matrix–vector product -/

/-- rounded 2×2 matrix–vector product (left-to-right sum starting from 0): `k + m + 3` roundings -/
theorem mulVec2_appr {k m : ℕ} (Ah : Mat RF 2 2) (A AA : Mat ℝ 2 2) (vh : Vec RF 2) (v V : Vec ℝ 2)
    (hA : ∀ i j, Appr k (AA i j) (toReal (Ah i j)) (A i j))
    (hv : ∀ i, Appr m (V i) (toReal (vh i)) (v i)) (i : Fin 2) :
    Appr (k + m + 3) (AA i 0 * V 0 + AA i 1 * V 1)
      (toReal ((mulVec Ah vh) i)) ((mulVec A v) i) := by
  have a0 := hA i 0; have a1 := hA i 1
  have v0 := hv 0; have v1 := hv 1
  apply Appr.mono
  · simp only [mulVec, vsum, Vec.of, toReal_add, toReal_mul, toReal_nat, Scalar.nat_real]
    appr
  · omega
  · simp

/-! ## SO2 / C1 action `matrix(g) · x` -/

/-- `|M(g)|·|x|` -/
def actAbs2 (g x : Vec ℝ 2) : Vec ℝ 2 :=
  mk2 (|g 1| * |x 0| + |g 0| * |x 1|) (|g 0| * |x 0| + |g 1| * |x 1|)

theorem so2_act_appr (g x : Vec ℝ 2) (i : Fin 2) :
    Appr 3 (actAbs2 g x i) (toReal ((SO2.act (Vec.toRF g) (Vec.toRF x)) i)) ((SO2.act g x) i) := by
  fin_cases i <;>
  · apply Appr.mono
    · simp only [SO2.act, SO2.matrix, mat2, Mat.of, mulVec, vsum2, mk2, Vec.of, toReal_add, toReal_mul,
        toReal_sub, toReal_neg, toReal_nat, Vec.toRF_get, Scalar.nat_real]
      appr
    · decide
    · simp [actAbs2, mk2, Vec.of]

theorem c1_act_appr (g x : Vec ℝ 2) (i : Fin 2) :
    Appr 3 (actAbs2 g x i) (toReal ((C1.act (Vec.toRF g) (Vec.toRF x)) i)) ((C1.act g x) i) :=
  so2_act_appr g x i

/-! ## SO3 action: Eigen `_transformVector`, `v + w·uv + u × uv`, `uv = (u × v) + (u × v)` -/

/-- cross product on absolute values -/
def crossAbs (a b : Vec ℝ 3) : Vec ℝ 3 :=
  mk3 (a 1 * b 2 + a 2 * b 1) (a 2 * b 0 + a 0 * b 2) (a 0 * b 1 + a 1 * b 0)

/-- the same expression tree as `SO3.act` on absolute values -/
def so3ActAbs (g : Vec ℝ 4) (v : Vec ℝ 3) : Vec ℝ 3 :=
  let u : Vec ℝ 3 := mk3 |g 0| |g 1| |g 2|
  let av : Vec ℝ 3 := mk3 |v 0| |v 1| |v 2|
  let c := crossAbs u av
  let uv : Vec ℝ 3 := .of (fun i => c i + c i)
  let c2 := crossAbs u uv
  .of (fun i => (|v i| + |g 3| * uv i) + c2 i)

/-- **SO3 action, all quaternions and points**: 6 roundings (2 in `u × v`, 1 for the doubling, then
    `u × uv`: 2 more, the final sum 1; the path `w·uv` has 2+1+1 and the two additions) -/
theorem so3_act_appr (g : Vec ℝ 4) (v : Vec ℝ 3) (i : Fin 3) :
    Appr 6 (so3ActAbs g v i) (toReal ((SO3.act (Vec.toRF g) (Vec.toRF v)) i)) ((SO3.act g v) i) := by
  fin_cases i <;>
  · apply Appr.mono
    · simp only [SO3.act, memoV_eq, cross, vadd, mk3, Vec.of, toReal_add, toReal_mul, toReal_sub,
        Vec.toRF_get]
      appr
    · decide
    · simp [so3ActAbs, crossAbs, mk3, Vec.of]

/-! ## SE2 action `R(q)·v + t` -/

def se2ActAbs (g : Vec ℝ 4) (v : Vec ℝ 2) : Vec ℝ 2 :=
  mk2 (|g 3| * |v 0| + |g 2| * |v 1| + |g 0|) (|g 2| * |v 0| + |g 3| * |v 1| + |g 1|)

theorem se2_act_appr (g : Vec ℝ 4) (v : Vec ℝ 2) (i : Fin 2) :
    Appr 4 (se2ActAbs g v i) (toReal ((SE2.act (Vec.toRF g) (Vec.toRF v)) i)) ((SE2.act g v) i) := by
  fin_cases i <;>
  · apply Appr.mono
    · simp only [SE2.act, SO2.act, SE2.so2, SE2.r2, SO2.matrix, mat2, Mat.of, vadd, mulVec, vsum2,
        mk2, Vec.of, toReal_add, toReal_mul, toReal_sub, toReal_neg, toReal_nat, Vec.toRF_get,
        Scalar.nat_real]
      appr
    · decide
    · simp [se2ActAbs, mk2, Vec.of]

/-! ## SE3 action `q·v + t` -/

def se3ActAbs (g : Vec ℝ 7) (v : Vec ℝ 3) (i : Fin 3) : ℝ := so3ActAbs (SE3.so3 g) v i + |SE3.r3 g i|

theorem se3_act_appr (g : Vec ℝ 7) (v : Vec ℝ 3) (i : Fin 3) :
    Appr 7 (se3ActAbs g v i) (toReal ((SE3.act (Vec.toRF g) (Vec.toRF v)) i)) ((SE3.act g v) i) := by
  rw [se3_act_def, se3_act_def, se3_so3_toRF, se3_r3_toRF]
  have h := (so3_act_appr (SE3.so3 g) v i).add (Appr.exact (SE3.r3 g i))
  refine Appr.mono (j := Max.max 6 0 + 1) ?_ (by decide) (le_refl _)
  simpa [vadd, Vec.of, se3ActAbs] using h

/-! ## Rotation applied to a vector, rounded: the building block of SE3 / SE_K_3 / Galilei -/

/-- coefficientwise absolute value -/
def absV {n : Nat} (v : Vec ℝ n) : Vec ℝ n := .of (fun l => |v l|)

/-- `Σ_l M_il |v_l|` -/
def rowAbs (M : Mat ℝ 3 3) (v : Vec ℝ 3) (i : Fin 3) : ℝ := M i 0 * |v 0| + M i 1 * |v 1| + M i 2 * |v 2|

/-- entries of `toRotationMatrix` on exact coefficients: 4 roundings -/
theorem rot_appr (q : Vec ℝ 4) (i j : Fin 3) :
    Appr 4 (so3MatAbs (absV q) i j) (toReal ((SO3.matrix (Vec.toRF q)) i j)) ((SO3.matrix q) i j) := by
  have := so3_matrix_appr (k := 0) (Vec.toRF q) q (absV q) (fun l => by simpa [absV, Vec.of] using Appr.exact (q l)) i j
  simpa using this

/-- entries of `toRotationMatrix(q⁻¹)`: 18 roundings -/
theorem rotinv_appr (q : Vec ℝ 4) (i j : Fin 3) :
    Appr 18 (so3MatAbs (qinvAbs q) i j) (toReal ((SO3.matrix (SO3.inverse (Vec.toRF q))) i j))
      ((SO3.matrix (SO3.inverse q)) i j) := by
  have hq := so3_inverse_appr q
  exact so3_matrix_appr (k := 7) (SO3.inverse (Vec.toRF q)) (SO3.inverse q) (qinvAbs q)
    (fun l => by simpa [qinvAbs, Vec.of] using hq l) i j

/-- `R(q)·t`: 8 roundings -/
theorem rot_mulVec_appr (q : Vec ℝ 4) (t : Vec ℝ 3) (i : Fin 3) :
    Appr 8 (rowAbs (so3MatAbs (absV q)) t i)
      (toReal ((mulVec (SO3.matrix (Vec.toRF q)) (Vec.toRF t)) i)) ((mulVec (SO3.matrix q) t) i) := by
  have hv : ∀ l, Appr 0 ((absV t) l) (toReal ((Vec.toRF t) l)) (t l) := fun l => by
    simpa [absV, Vec.of] using Appr.exact (t l)
  have hm := mulVec3_appr _ _ _ _ _ _ (rot_appr q) hv i
  refine Appr.mono hm (by decide) (le_of_eq ?_)
  simp [rowAbs, absV, Vec.of]

/-- `R(q)·t_b + t_a`: 9 roundings (SE3, SE_K_3, Galilei velocity) -/
theorem rot_trans_appr (q : Vec ℝ 4) (tb ta : Vec ℝ 3) (i : Fin 3) :
    Appr 9 (rowAbs (so3MatAbs (absV q)) tb i + |ta i|)
      (toReal ((vadd (mulVec (SO3.matrix (Vec.toRF q)) (Vec.toRF tb)) (Vec.toRF ta)) i))
      ((vadd (mulVec (SO3.matrix q) tb) ta) i) := by
  have h := (rot_mulVec_appr q tb i).add (Appr.exact (ta i))
  refine Appr.mono (j := Max.max 8 0 + 1) ?_ (by decide) (le_refl _)
  simpa [vadd, Vec.of] using h

/-- `(−R(q⁻¹))·t`: 22 roundings (SE3, SE_K_3, Galilei velocity of the inverse) -/
theorem rotinv_neg_mulVec_appr (q : Vec ℝ 4) (t : Vec ℝ 3) (i : Fin 3) :
    Appr 22 (rowAbs (so3MatAbs (qinvAbs q)) t i)
      (toReal ((mulVec (mneg (SO3.matrix (SO3.inverse (Vec.toRF q)))) (Vec.toRF t)) i))
      ((mulVec (mneg (SO3.matrix (SO3.inverse q))) t) i) := by
  have hR' : ∀ i j, Appr 18 (so3MatAbs (qinvAbs q) i j)
      (toReal ((mneg (SO3.matrix (SO3.inverse (Vec.toRF q)))) i j))
      ((mneg (SO3.matrix (SO3.inverse q))) i j) := fun i j => by
    simpa [mneg, Mat.of] using (rotinv_appr q i j).neg
  have hv : ∀ l, Appr 0 ((absV t) l) (toReal ((Vec.toRF t) l)) (t l) := fun l => by
    simpa [absV, Vec.of] using Appr.exact (t l)
  have hm := mulVec3_appr _ _ _ _ _ _ hR' hv i
  refine Appr.mono hm (by decide) (le_of_eq ?_)
  simp [rowAbs, absV, Vec.of]

end

/-! ### norm forms -/

theorem absV_nonneg {n : Nat} (v : Vec ℝ n) (l : Fin n) : 0 ≤ absV v l := by simp [absV, Vec.of]

theorem rowAbs_rot_le (q : Vec ℝ 4) (n : ℝ) (hn : SO3.sqn q ≤ n) (t : Vec ℝ 3) (T : ℝ) (ht : ∀ l, |t l| ≤ T)
    (i : Fin 3) : rowAbs (so3MatAbs (absV q)) t i ≤ (1 + 4 * n) * T := by
  unfold rowAbs
  exact so3MatAbs_row (absV q) (absV_nonneg q) n (by simpa [absV, Vec.of, SO3.sqn] using hn)
    |t 0| |t 1| |t 2| T (abs_nonneg _) (ht 0) (ht 1) (ht 2) i

theorem qinvAbs_nonneg (q : Vec ℝ 4) (k : Fin 4) : 0 ≤ qinvAbs q k := by
  simp only [qinvAbs, Vec.of, sqNorm_eq_sqn]
  have := sqn_nonneg q
  positivity

theorem qinvAbs_sq_le (q : Vec ℝ 4) (m : ℝ) (hm0 : 0 < m) (hm : m ≤ SO3.sqn q) :
    qinvAbs q 0 ^ 2 + qinvAbs q 1 ^ 2 + qinvAbs q 2 ^ 2 + qinvAbs q 3 ^ 2 ≤ 1 / m := by
  have hpos : 0 < SO3.sqn q := lt_of_lt_of_le hm0 hm
  simp only [qinvAbs, Vec.of, sqNorm_eq_sqn, div_pow, sq_abs]
  have e : q 0 ^ 2 / SO3.sqn q ^ 2 + q 1 ^ 2 / SO3.sqn q ^ 2 + q 2 ^ 2 / SO3.sqn q ^ 2 + q 3 ^ 2 / SO3.sqn q ^ 2
      = 1 / SO3.sqn q := by
    have hne : SO3.sqn q ≠ 0 := hpos.ne'
    rw [← add_div, ← add_div, ← add_div]
    rw [show q 0 ^ 2 + q 1 ^ 2 + q 2 ^ 2 + q 3 ^ 2 = SO3.sqn q from rfl]
    field_simp
  rw [e]
  exact one_div_le_one_div_of_le hm0 hm

theorem rowAbs_rotinv_le (q : Vec ℝ 4) (m : ℝ) (hm0 : 0 < m) (hm : m ≤ SO3.sqn q) (t : Vec ℝ 3) (T : ℝ)
    (ht : ∀ l, |t l| ≤ T) (i : Fin 3) : rowAbs (so3MatAbs (qinvAbs q)) t i ≤ (1 + 4 / m) * T := by
  unfold rowAbs
  have := so3MatAbs_row (qinvAbs q) (qinvAbs_nonneg q) (1 / m) (qinvAbs_sq_le q m hm0 hm)
    |t 0| |t 1| |t 2| T (abs_nonneg _) (ht 0) (ht 1) (ht 2) i
  calc _ ≤ _ := this
    _ = _ := by ring

/-- the majorant of the SO3 action: `≤ (1 + 4‖q‖²)·V` when `|v_l| ≤ V` (the same constant as for
    `toRotationMatrix · v`) -/
theorem so3ActAbs_le (g : Vec ℝ 4) (n : ℝ) (hn : SO3.sqn g ≤ n) (v : Vec ℝ 3) (V : ℝ) (hv : ∀ l, |v l| ≤ V)
    (i : Fin 3) : so3ActAbs g v i ≤ (1 + 4 * n) * V := by
  have h0 := hv 0; have h1 := hv 1; have h2 := hv 2
  have hV : 0 ≤ V := (abs_nonneg _).trans h0
  have a0 := abs_nonneg (g 0); have a1 := abs_nonneg (g 1); have a2 := abs_nonneg (g 2); have a3 := abs_nonneg (g 3)
  have b0 := abs_nonneg (v 0); have b1 := abs_nonneg (v 1); have b2 := abs_nonneg (v 2)
  have hn' : |g 0| ^ 2 + |g 1| ^ 2 + |g 2| ^ 2 + |g 3| ^ 2 ≤ n := by simpa [SO3.sqn] using hn
  -- replace every |v_l| by V (all coefficients are non-negative), then 2ab ≤ a² + b²
  have key : ∀ x y z w : ℝ, 0 ≤ x → 0 ≤ y → 0 ≤ z → 0 ≤ w → x ^ 2 + y ^ 2 + z ^ 2 + w ^ 2 ≤ n →
      1 + 2 * w * (y + z) + 2 * (y * (x + y) + z * (x + z)) ≤ 1 + 4 * n := by
    intro x y z w _ _ _ _ h
    nlinarith [sq_nonneg (w - y), sq_nonneg (w - z), sq_nonneg (x - y), sq_nonneg (x - z), sq_nonneg x,
      sq_nonneg y, sq_nonneg z, sq_nonneg w]
  fin_cases i
  · have k := key |g 0| |g 1| |g 2| |g 3| a0 a1 a2 a3 hn'
    have : so3ActAbs g v 0 ≤ (1 + 2 * |g 3| * (|g 1| + |g 2|) + 2 * (|g 1| * (|g 0| + |g 1|) + |g 2| * (|g 0| + |g 2|))) * V := by
      simp only [so3ActAbs, crossAbs, mk3, Vec.of]
      nlinarith [mul_nonneg a1 (sub_nonneg.mpr h2), mul_nonneg a2 (sub_nonneg.mpr h1),
        mul_nonneg (mul_nonneg a3 a1) (sub_nonneg.mpr h2), mul_nonneg (mul_nonneg a3 a2) (sub_nonneg.mpr h1),
        mul_nonneg (mul_nonneg a1 a0) (sub_nonneg.mpr h1), mul_nonneg (mul_nonneg a1 a1) (sub_nonneg.mpr h0),
        mul_nonneg (mul_nonneg a2 a2) (sub_nonneg.mpr h0), mul_nonneg (mul_nonneg a2 a0) (sub_nonneg.mpr h2),
        sub_nonneg.mpr h0]
    exact this.trans (mul_le_mul_of_nonneg_right k hV)
  · have hn'' : |g 1| ^ 2 + |g 2| ^ 2 + |g 0| ^ 2 + |g 3| ^ 2 ≤ n := by linarith
    have k := key |g 1| |g 2| |g 0| |g 3| a1 a2 a0 a3 hn''
    have : so3ActAbs g v 1 ≤ (1 + 2 * |g 3| * (|g 2| + |g 0|) + 2 * (|g 2| * (|g 1| + |g 2|) + |g 0| * (|g 1| + |g 0|))) * V := by
      simp only [so3ActAbs, crossAbs, mk3, Vec.of]
      nlinarith [mul_nonneg a2 (sub_nonneg.mpr h0), mul_nonneg a0 (sub_nonneg.mpr h2),
        mul_nonneg (mul_nonneg a3 a2) (sub_nonneg.mpr h0), mul_nonneg (mul_nonneg a3 a0) (sub_nonneg.mpr h2),
        mul_nonneg (mul_nonneg a2 a1) (sub_nonneg.mpr h2), mul_nonneg (mul_nonneg a2 a2) (sub_nonneg.mpr h1),
        mul_nonneg (mul_nonneg a0 a0) (sub_nonneg.mpr h1), mul_nonneg (mul_nonneg a0 a1) (sub_nonneg.mpr h0),
        sub_nonneg.mpr h1]
    exact this.trans (mul_le_mul_of_nonneg_right k hV)
  · have hn'' : |g 2| ^ 2 + |g 0| ^ 2 + |g 1| ^ 2 + |g 3| ^ 2 ≤ n := by linarith
    have k := key |g 2| |g 0| |g 1| |g 3| a2 a0 a1 a3 hn''
    have : so3ActAbs g v 2 ≤ (1 + 2 * |g 3| * (|g 0| + |g 1|) + 2 * (|g 0| * (|g 2| + |g 0|) + |g 1| * (|g 2| + |g 1|))) * V := by
      simp only [so3ActAbs, crossAbs, mk3, Vec.of]
      nlinarith [mul_nonneg a0 (sub_nonneg.mpr h1), mul_nonneg a1 (sub_nonneg.mpr h0),
        mul_nonneg (mul_nonneg a3 a0) (sub_nonneg.mpr h1), mul_nonneg (mul_nonneg a3 a1) (sub_nonneg.mpr h0),
        mul_nonneg (mul_nonneg a0 a2) (sub_nonneg.mpr h0), mul_nonneg (mul_nonneg a0 a0) (sub_nonneg.mpr h2),
        mul_nonneg (mul_nonneg a1 a1) (sub_nonneg.mpr h2), mul_nonneg (mul_nonneg a1 a2) (sub_nonneg.mpr h1),
        sub_nonneg.mpr h2]
    exact this.trans (mul_le_mul_of_nonneg_right k hV)

theorem so3ActAbs_nonneg (g : Vec ℝ 4) (v : Vec ℝ 3) (i : Fin 3) : 0 ≤ so3ActAbs g v i := by
  fin_cases i <;> simp only [so3ActAbs, crossAbs, mk3, Vec.of] <;> positivity

theorem actAbs2_le (g x : Vec ℝ 2) (i : Fin 2) : actAbs2 g x i ≤ nrm2 g * nrm2 x := by
  unfold nrm2
  fin_cases i
  · have := cs2 (g 1) (x 0) (g 0) (x 1)
    simp only [actAbs2, mk2, Vec.of]
    calc _ ≤ _ := this
      _ = _ := by rw [add_comm (g.get 1 ^ 2)]
  · exact cs2 (g 0) (x 0) (g 1) (x 1)

theorem se2ActAbs_le (g : Vec ℝ 4) (v : Vec ℝ 2) (i : Fin 2) :
    se2ActAbs g v i ≤ nrm2 (SE2.so2 g) * nrm2 v + |g ⟨i.val, by omega⟩| := by
  unfold nrm2
  fin_cases i <;> simp only [se2ActAbs, SE2.so2, mk2, Vec.of]
  · have := cs2 (g 3) (v 0) (g 2) (v 1)
    rw [add_comm (g.get 3 ^ 2)] at this
    simpa using this
  · have := cs2 (g 2) (v 0) (g 3) (v 1)
    simpa using this

end Round
end
