/-
  C06Psum.lean — helper lemmas about `Bundle.psum` (`utils::array_psum`) and prefix-sum segments,
  used by SmoothProps/C06Layout.lean and SmoothProps/C16.lean.
-/
import Mathlib.Data.List.Basic
import Mathlib.Tactic.Ring
import SmoothModel.Mem

namespace Bundle

/-- the fold of `psum` started from any non-empty accumulator -/
theorem psum_foldl (acc : List Nat) (last : Nat) (h : acc.getLast? = some last) (l : List Nat) :
    l.foldl (fun acc x => acc ++ [acc.getLast! + x]) acc = acc ++ (l.scanl (· + ·) last).tail := by
  induction l generalizing acc last with
  | nil => simp
  | cons x xs ih =>
    have hl : acc.getLast! = last := by
      rw [List.getLast!_eq_getLast?_getD, h]; rfl
    simp only [List.foldl_cons, hl]
    rw [ih (acc ++ [last + x]) (last + x) (by simp)]
    simp only [List.scanl_cons, List.tail_cons, List.append_assoc, List.cons_append, List.nil_append]
    congr 1
    cases xs <;> simp [List.scanl_cons]

/-- `array_psum`: `[0, x₀, x₀+x₁, …]` -/
theorem psum_eq_scanl (l : List Nat) : psum l = l.scanl (· + ·) 0 := by
  unfold psum
  rw [psum_foldl [0] 0 rfl l]
  cases l with
  | nil => simp
  | cons x xs => simp [List.scanl_cons]

theorem foldl_add_eq (s : Nat) (l : List Nat) : l.foldl (· + ·) s = s + l.sum := by
  induction l generalizing s with
  | nil => simp
  | cons x xs ih => simp [ih, Nat.add_assoc]

theorem psum_length (l : List Nat) : (psum l).length = l.length + 1 := by
  rw [psum_eq_scanl, List.length_scanl]

theorem psum_getElem? (l : List Nat) (i : Nat) :
    (psum l)[i]? = if i ≤ l.length then some (l.take i).sum else none := by
  rw [psum_eq_scanl, List.getElem?_scanl]
  split <;> simp [foldl_add_eq]

theorem psum_getD (l : List Nat) (i : Nat) (h : i ≤ l.length) : (psum l).getD i 0 = (l.take i).sum := by
  rw [List.getD_eq_getElem?_getD, psum_getElem?, if_pos h]; rfl

theorem psum_last (l : List Nat) : (psum l).getD l.length 0 = l.sum := by
  rw [psum_getD l l.length (Nat.le_refl _), List.take_length]

/-- consecutive segments `(start, size)` laid one after the other -/
def segs : Nat → List Nat → List (Nat × Nat)
  | _, [] => []
  | s, x :: xs => (s, x) :: segs (s + x) xs

theorem segs_getElem? (s : Nat) (l : List Nat) (i : Nat) :
    (segs s l)[i]? = if h : i < l.length then some (s + (l.take i).sum, l[i]) else none := by
  induction l generalizing s i with
  | nil => simp [segs]
  | cons x xs ih =>
    cases i with
    | zero => simp [segs]
    | succ j =>
      simp only [segs, List.getElem?_cons_succ, ih, List.length_cons, Nat.add_lt_add_iff_right,
        List.take_succ_cons, List.sum_cons, List.getElem_cons_succ]
      split <;> simp [Nat.add_assoc]

/-- the table `[(psum[i], size[i])]` of part segments IS the list of consecutive segments -/
theorem psum_segments (l : List Nat) :
    (List.range l.length).map (fun i => ((psum l).getD i 0, l.getD i 0)) = segs 0 l := by
  apply List.ext_getElem?
  intro i
  rw [segs_getElem?]
  by_cases h : i < l.length
  · have h1 := psum_getD l i (Nat.le_of_lt h)
    simp only [List.getElem?_map, List.getElem?_range h, Option.map_some, h, dite_true, h1]
    simp [List.getD_eq_getElem?_getD, h]
  · simp [h]

end Bundle

namespace Mem

/-- `Tiles l s e`: the views of `l` are laid end to end from `s` to `e` -/
inductive Tiles : List (Nat × Nat) → Nat → Nat → Prop
  | nil (n : Nat) : Tiles [] n n
  | cons (o l : Nat) (rest : List (Nat × Nat)) (e : Nat) : Tiles rest (o + l) e → Tiles ((o, l) :: rest) o e

theorem Tiles.le {l : List (Nat × Nat)} {s e : Nat} (h : Tiles l s e) : s ≤ e := by
  induction h with
  | nil => exact Nat.le_refl _
  | cons o l rest e _ ih => omega

/-- every view lies inside `[s, e)` -/
theorem Tiles.inside {l : List (Nat × Nat)} {s e : Nat} (h : Tiles l s e) :
    ∀ v ∈ l, s ≤ v.1 ∧ v.1 + v.2 ≤ e := by
  induction h with
  | nil => intro v hv; cases hv
  | cons o len rest e ht ih =>
    intro v hv
    rcases List.mem_cons.1 hv with rfl | hv
    · exact ⟨Nat.le_refl _, ht.le⟩
    · have := ih v hv; omega

/-- the views are pairwise disjoint (each ends before the later ones start) -/
theorem Tiles.disjoint {l : List (Nat × Nat)} {s e : Nat} (h : Tiles l s e) :
    l.Pairwise (fun a b => a.1 + a.2 ≤ b.1) := by
  induction h with
  | nil => exact List.Pairwise.nil
  | cons o len rest e ht ih =>
    refine List.pairwise_cons.2 ⟨?_, ih⟩
    intro b hb
    exact (ht.inside b hb).1

/-- every word of `[s, e)` belongs to some view -/
theorem Tiles.cover {l : List (Nat × Nat)} {s e : Nat} (h : Tiles l s e) :
    ∀ i, s ≤ i → i < e → ∃ v ∈ l, v.1 ≤ i ∧ i < v.1 + v.2 := by
  induction h with
  | nil => intro i h1 h2; omega
  | cons o len rest e ht ih =>
    intro i h1 h2
    by_cases hi : i < o + len
    · exact ⟨(o, len), List.mem_cons_self, h1, hi⟩
    · obtain ⟨v, hv, hv'⟩ := ih i (by omega) h2
      exact ⟨v, List.mem_cons_of_mem _ hv, hv'⟩

theorem Tiles.append {l₁ l₂ : List (Nat × Nat)} {s m e : Nat} (h₁ : Tiles l₁ s m) (h₂ : Tiles l₂ m e) :
    Tiles (l₁ ++ l₂) s e := by
  induction h₁ with
  | nil => simpa using h₂
  | cons o len rest m _ ih => exact Tiles.cons o len _ e (ih h₂)

theorem tiles_segs (s : Nat) (l : List Nat) : Tiles (Bundle.segs s l) s (s + l.sum) := by
  induction l generalizing s with
  | nil => simpa [Bundle.segs] using Tiles.nil s
  | cons x xs ih =>
    simp only [Bundle.segs, List.sum_cons]
    have := ih (s + x)
    rw [Nat.add_assoc] at this
    exact Tiles.cons s x _ _ this

end Mem
