/-
  C17Angles.lean — SO2 angle representations and constructors over ℝ
  (`atan2 y x = Complex.arg ⟨x, y⟩`): ranges, congruence modulo 2π, the half-turn witness,
  normalising constructors, C1 factorisation.
-/
import SmoothProofs.C01Small
import SmoothProofs.C02Basic
import Mathlib.Analysis.SpecialFunctions.Complex.Arg
import Mathlib.Tactic.Linarith
import Mathlib.Tactic.Positivity

open Lin Scalar

namespace C17P

/-- the complex number `qw + qz·i` of an SO2 / C1 coefficient vector -/
def cplx (g : Vec ℝ 2) : ℂ := ⟨g 1, g 0⟩

theorem angle_eq (g : Vec ℝ 2) : Conv.angle g = Complex.arg (cplx g) := by
  simp [Conv.angle, SO2.log, mk1, cplx, Vec.of]

theorem angle_cw_eq (g : Vec ℝ 2) :
    Conv.angle_cw g = if 0 < Complex.arg (cplx g) then Complex.arg (cplx g) - 2 * Real.pi else Complex.arg (cplx g) := by
  simp only [Conv.angle_cw, C02.scalar_atan2, C02.scalar_pi, Nat.cast_zero, Nat.cast_ofNat]
  rfl

theorem angle_ccw_eq (g : Vec ℝ 2) :
    Conv.angle_ccw g = if Complex.arg (cplx g) < 0 then Complex.arg (cplx g) + 2 * Real.pi else Complex.arg (cplx g) := by
  simp only [Conv.angle_ccw, C02.scalar_atan2, C02.scalar_pi, Nat.cast_zero, Nat.cast_ofNat]
  rfl

/-! ### ranges -/

theorem angle_range (g : Vec ℝ 2) : -Real.pi < Conv.angle g ∧ Conv.angle g ≤ Real.pi := by
  rw [angle_eq]; exact ⟨Complex.neg_pi_lt_arg _, Complex.arg_le_pi _⟩

theorem angle_ccw_range (g : Vec ℝ 2) : 0 ≤ Conv.angle_ccw g ∧ Conv.angle_ccw g ≤ 2 * Real.pi := by
  rw [angle_ccw_eq]
  have hpi := Real.pi_pos
  have hlo := Complex.neg_pi_lt_arg (cplx g)
  have hhi := Complex.arg_le_pi (cplx g)
  split_ifs with h
  · constructor <;> linarith
  · constructor <;> linarith [not_lt.1 h]

/-- `angle_cw ∈ [−2π, 0]` for EVERY element (after fix 38a157c; before it the negative real axis
    `(qz, qw) = (0, qw<0)` returned `+π`) -/
theorem angle_cw_range (g : Vec ℝ 2) : -(2 * Real.pi) ≤ Conv.angle_cw g ∧ Conv.angle_cw g ≤ 0 := by
  rw [angle_cw_eq]
  have hpi := Real.pi_pos
  have hlo := Complex.neg_pi_lt_arg (cplx g)
  have hhi := Complex.arg_le_pi (cplx g)
  split_ifs with h
  · constructor <;> linarith
  · constructor <;> linarith [not_lt.1 h]

/-- the half turn as SO2 coefficients `(qz, qw) = (0, −1)` -/
def halfTurn : Vec ℝ 2 := mk2 0 (-1)

theorem arg_halfTurn : Complex.arg (cplx halfTurn) = Real.pi := by
  have hc : cplx halfTurn = -1 := by
    apply Complex.ext <;> simp [cplx, halfTurn, mk2, Vec.of]
  rw [hc, Complex.arg_neg_one]

/-- at the half turn (the former defect point) `angle_cw = −π` and `angle_ccw = +π` -/
theorem angle_cw_halfTurn : Conv.angle_cw halfTurn = -Real.pi := by
  rw [angle_cw_eq, arg_halfTurn, if_pos Real.pi_pos]; ring

theorem angle_ccw_halfTurn : Conv.angle_ccw halfTurn = Real.pi := by
  rw [angle_ccw_eq, arg_halfTurn, if_neg (not_lt.2 (le_of_lt Real.pi_pos))]

/-! ### congruence modulo 2π -/

theorem angle_cw_congr (g : Vec ℝ 2) :
    Conv.angle_cw g = Conv.angle g ∨ Conv.angle_cw g = Conv.angle g - 2 * Real.pi := by
  rw [angle_cw_eq, angle_eq]
  split_ifs with h
  · exact Or.inr rfl
  · exact Or.inl rfl

theorem angle_ccw_congr (g : Vec ℝ 2) :
    Conv.angle_ccw g = Conv.angle g ∨ Conv.angle_ccw g = Conv.angle g + 2 * Real.pi := by
  rw [angle_ccw_eq, angle_eq]
  split_ifs with h
  · exact Or.inr rfl
  · exact Or.inl rfl

/-! ### the angle is the rotation: `(sin, cos)(angle g) = (qz, qw)` on the unit circle -/

theorem norm_cplx (g : Vec ℝ 2) : ‖cplx g‖ = Real.sqrt (g 0 ^ 2 + g 1 ^ 2) := by
  rw [Complex.norm_eq_sqrt_sq_add_sq]
  congr 1; simp [cplx]; ring

theorem norm_cplx_unit (g : Vec ℝ 2) (h : SO2.Unit g) : ‖cplx g‖ = 1 := by
  rw [norm_cplx, h, Real.sqrt_one]

theorem cplx_ne_zero (g : Vec ℝ 2) (h : SO2.Unit g) : cplx g ≠ 0 := by
  intro hz
  have := norm_cplx_unit g h
  rw [hz, norm_zero] at this
  exact zero_ne_one this

theorem cos_angle (g : Vec ℝ 2) (h : SO2.Unit g) : Real.cos (Conv.angle g) = g 1 := by
  rw [angle_eq, Complex.cos_arg (cplx_ne_zero g h), norm_cplx_unit g h, div_one]; rfl

theorem sin_angle (g : Vec ℝ 2) (h : SO2.Unit g) : Real.sin (Conv.angle g) = g 0 := by
  rw [angle_eq, Complex.sin_arg, norm_cplx_unit g h, div_one]; rfl

/-- `SO2(angle(g)) = g` on the unit circle -/
theorem so2OfAngle_angle (g : Vec ℝ 2) (h : SO2.Unit g) : Conv.so2OfAngle (Conv.angle g) = g := by
  ext i
  fin_cases i
  · simp [Conv.so2OfAngle, mk2, Vec.of, sin_angle g h]
  · simp [Conv.so2OfAngle, mk2, Vec.of, cos_angle g h]

/-- `angle(SO2(a)) = a` for `a ∈ (−π, π]` -/
theorem angle_so2OfAngle (a : ℝ) (h1 : -Real.pi < a) (h2 : a ≤ Real.pi) : Conv.angle (Conv.so2OfAngle a) = a := by
  rw [angle_eq]
  have : cplx (Conv.so2OfAngle a) = Complex.cos a + Complex.sin a * Complex.I := by
    apply Complex.ext
    · simp [cplx, Conv.so2OfAngle, mk2, Vec.of, ← Complex.ofReal_cos, ← Complex.ofReal_sin]
    · simp [cplx, Conv.so2OfAngle, mk2, Vec.of, ← Complex.ofReal_cos, ← Complex.ofReal_sin]
  rw [this]
  exact Complex.arg_cos_add_sin_mul_I ⟨h1, h2⟩

theorem unit_so2OfAngle (a : ℝ) : SO2.Unit (Conv.so2OfAngle a) := by
  simp [SO2.Unit, Conv.so2OfAngle, mk2, Vec.of]

/-! ### normalising constructors -/

theorem so2OfCoeffs_spec (qz qw : ℝ) (h : qz ^ 2 + qw ^ 2 ≠ 0) :
    SO2.Unit (Conv.so2OfCoeffs qz qw) ∧
    ∃ n : ℝ, 0 < n ∧ n * (Conv.so2OfCoeffs qz qw) 0 = qz ∧ n * (Conv.so2OfCoeffs qz qw) 1 = qw := by
  have hpos : 0 < qw * qw + qz * qz := by
    have : 0 ≤ qw * qw + qz * qz := add_nonneg (mul_self_nonneg _) (mul_self_nonneg _)
    rcases lt_or_eq_of_le this with hlt | heq
    · exact hlt
    · exfalso; apply h; nlinarith
  have hn : 0 < Real.sqrt (qw * qw + qz * qz) := Real.sqrt_pos.2 hpos
  have hsq : Real.sqrt (qw * qw + qz * qz) ^ 2 = qw * qw + qz * qz := Real.sq_sqrt (le_of_lt hpos)
  have e0 : (Conv.so2OfCoeffs qz qw) 0 = qz / Real.sqrt (qw * qw + qz * qz) := rfl
  have e1 : (Conv.so2OfCoeffs qz qw) 1 = qw / Real.sqrt (qw * qw + qz * qz) := rfl
  unfold SO2.Unit
  rw [e0, e1]
  generalize Real.sqrt (qw * qw + qz * qz) = n at hn hsq
  have hn0 : n ≠ 0 := ne_of_gt hn
  refine ⟨?_, n, hn, ?_, ?_⟩
  · field_simp
    rw [hsq]; ring
  · field_simp
  · field_simp

/-- the complex constructor is the coefficient constructor with `(qz, qw) = (im, re)` -/
theorem so2OfComplex_eq (re im : ℝ) : Conv.so2OfComplex re im = Conv.so2OfCoeffs im re := by
  simp only [Conv.so2OfComplex, Conv.so2OfCoeffs, add_comm (im * im) (re * re)]

/-- `SO2(qz, qw)` of an element that is already unit is the element -/
theorem so2OfCoeffs_unit (g : Vec ℝ 2) (h : SO2.Unit g) : Conv.so2OfCoeffs (g 0) (g 1) = g := by
  have h1 : g 1 * g 1 + g 0 * g 0 = 1 := by unfold SO2.Unit at h; linarith
  ext i
  fin_cases i <;> simp [Conv.so2OfCoeffs, mk2, Vec.of, h1]

/-! ### coefficient permutations round-trip by `rfl` -/

theorem so2OfComplex_u1 (g : Vec ℝ 2) (h : SO2.Unit g) : Conv.so2OfComplex ((Conv.u1 g) 0) ((Conv.u1 g) 1) = g := by
  rw [so2OfComplex_eq]
  exact so2OfCoeffs_unit g h

theorem c1OfComplex_c1 (g : Vec ℝ 2) : Conv.c1OfComplex ((Conv.c1 g) 0) ((Conv.c1 g) 1) = g := by
  ext i; fin_cases i <;> rfl

theorem c1_c1OfComplex (re im : ℝ) : Conv.c1 (Conv.c1OfComplex re im) = mk2 re im := by
  ext i; fin_cases i <;> rfl

theorem u1_u1 (g : Vec ℝ 2) : Conv.u1 (Conv.u1 g) = g := by
  ext i; fin_cases i <;> rfl

theorem ofWXYZ_quatWXYZ (g : Vec ℝ 4) : Conv.ofWXYZ (Conv.quatWXYZ g) = g := by
  ext i; fin_cases i <;> rfl

theorem quat_id (g : Vec ℝ 4) : Conv.quat g = g := rfl

/-! ### C1 = scaling · SO2 -/

theorem c1_so2_eq (g : Vec ℝ 2) : Conv.c1_so2 g = C1.so2 g := by
  simp only [Conv.c1_so2, Conv.so2OfComplex, C1.so2]

theorem c1_scaling_pos (g : Vec ℝ 2) (h : C1.Valid g) : 0 < C1.scaling g := by
  unfold C1.Valid at h
  have : 0 ≤ g 0 * g 0 + g 1 * g 1 := add_nonneg (mul_self_nonneg _) (mul_self_nonneg _)
  have hpos : 0 < g 0 * g 0 + g 1 * g 1 := by
    rcases lt_or_eq_of_le this with hlt | heq
    · exact hlt
    · exfalso; apply h; nlinarith
  simpa [C1.scaling] using Real.sqrt_pos.2 hpos

theorem c1_factorisation (g : Vec ℝ 2) (h : C1.Valid g) (i j : Fin 2) :
    (C1.matrix g) i j = C1.scaling g * (SO2.matrix (C1.so2 g)) i j := by
  have hs := c1_scaling_pos g h
  have hne : Real.sqrt (g 0 * g 0 + g 1 * g 1) ≠ 0 := by
    simpa [C1.scaling] using ne_of_gt hs
  simp only [C1.scaling, C1.so2, C02.scalar_sqrt]
  generalize Real.sqrt (g 0 * g 0 + g 1 * g 1) = s at hne
  fin_cases i <;> fin_cases j <;>
    simp [C1.matrix, SO2.matrix, mat2, mk2, Mat.of, Vec.of] <;>
    field_simp

theorem c1_so2_unit (g : Vec ℝ 2) (h : C1.Valid g) : SO2.Unit (C1.so2 g) := by
  have := (so2OfCoeffs_spec (g 0) (g 1) h).1
  have e : Conv.so2OfCoeffs (g 0) (g 1) = C1.so2 g := by
    simp only [Conv.so2OfCoeffs, C1.so2, add_comm (g 1 * g 1) (g 0 * g 0)]
  rwa [e] at this

/-- `angle()` of C1 is the SO2 angle of its rotation factor -/
theorem c1_angle_eq (g : Vec ℝ 2) (h : C1.Valid g) : C1.angle g = Conv.angle (C1.so2 g) := by
  have hs := c1_scaling_pos g h
  have hn : 0 < Real.sqrt (g 0 * g 0 + g 1 * g 1) := by simpa [C1.scaling] using hs
  rw [angle_eq]
  simp only [C1.angle, C02.scalar_atan2]
  have : cplx (C1.so2 g) = ((Real.sqrt (g 0 * g 0 + g 1 * g 1))⁻¹ : ℝ) * (⟨g 1, g 0⟩ : ℂ) := by
    apply Complex.ext
    · rw [Complex.re_ofReal_mul]; simp [cplx, C1.so2, mk2, Vec.of, div_eq_inv_mul]
    · rw [Complex.im_ofReal_mul]; simp [cplx, C1.so2, mk2, Vec.of, div_eq_inv_mul]
  rw [this, Complex.arg_real_mul _ (inv_pos.2 hn)]

end C17P
