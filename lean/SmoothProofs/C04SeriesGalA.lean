/-
  C04SeriesGalA.lean — the generic part of the Galilei series characterisation
  `dr_exp a = Σ_k (−1)^k ad(a)^k/(k+1)!`.

  For Galilei `X = ad a` (10×10, blocks `b q s ω`) has a THREE-step chain `ω → b → q`, so the
  minimal-polynomial relation is one level deeper than for SE3: with `P = X² + n`
  (`n = |ω|²`) one has `X²·P³ = 0`, hence with `Y₁ = −X²P/n`, `Y₂ = X²P²/n²`
      X²·X² = −n(Y₁ + X²),   X²·Y₁ = −n(Y₂ + Y₁),   X²·Y₂ = −n·Y₂
  and `X^(2m+2) = (−n)^m (X² + m·Y₁ + m(m−1)/2·Y₂)`.  The series splits into SIX scalar series;
  the two new ones carry the weight `m(m−1)/2` and are again combinations of the cos / sin series.
-/
import SmoothProofs.C04SeriesSE3

open Lin Scalar

namespace C04SeriesGal
open C04Alg C04SO3 C04Series C04SeriesSE3

/-! ### scalar series -/

/-- `Σ_m (−1)^m θ^{2m}/(2m+1)! = sin θ/θ` -/
theorem hasSum_sin_shift0 {θ : ℝ} (hθ : θ ≠ 0) :
    HasSum (fun m : ℕ => (-1 : ℝ) ^ m * (θ ^ 2) ^ m / ((2 * m + 1).factorial : ℝ)) (Real.sin θ / θ) := by
  have h2 := (Real.hasSum_sin θ).mul_left (1 / θ)
  have hf : (fun m : ℕ => (-1 : ℝ) ^ m * (θ ^ 2) ^ m / ((2 * m + 1).factorial : ℝ))
      = (fun i : ℕ => 1 / θ * ((-1) ^ i * θ ^ (2 * i + 1) / ((2 * i + 1).factorial : ℝ))) := by
    funext m
    have hfac : ((2 * m + 1).factorial : ℝ) ≠ 0 := Nat.cast_ne_zero.2 (Nat.factorial_ne_zero _)
    field_simp
    ring
  rw [hf, show Real.sin θ / θ = 1 / θ * Real.sin θ by ring]
  exact h2

theorem fac2 (m : ℕ) : ((2 * m + 2).factorial : ℝ) = (2 * (m : ℝ) + 2) * ((2 * m + 1).factorial : ℝ) := by
  rw [show 2 * m + 2 = (2 * m + 1) + 1 by ring, Nat.factorial_succ]; push_cast; ring

/-- `m(m−1)/2 /(2m+3)! = ⅛/(2m+1)! − ⅞/(2m+2)! + (15/8)/(2m+3)!`, summed -/
theorem hasSum_q3 {θ : ℝ} (hθ : θ ≠ 0) :
    HasSum (fun m : ℕ => ((m : ℝ) * ((m : ℝ) - 1) / 2)
        * ((-1 : ℝ) ^ m * (θ ^ 2) ^ m / ((2 * m + 3).factorial : ℝ)))
      (1 / 8 * (Real.sin θ / θ) - 7 / 8 * ((1 - Real.cos θ) / θ ^ 2)
        + 15 / 8 * ((θ - Real.sin θ) / (θ ^ 2 * θ))) := by
  have h := (((hasSum_sin_shift0 hθ).mul_left (1 / 8)).sub ((hasSum_cos_shift hθ).mul_left (7 / 8))).add
    ((hasSum_sin_shift hθ).mul_left (15 / 8))
  have hf : (fun m : ℕ => ((m : ℝ) * ((m : ℝ) - 1) / 2)
        * ((-1 : ℝ) ^ m * (θ ^ 2) ^ m / ((2 * m + 3).factorial : ℝ)))
      = (fun m : ℕ => 1 / 8 * ((-1 : ℝ) ^ m * (θ ^ 2) ^ m / ((2 * m + 1).factorial : ℝ))
          - 7 / 8 * ((-1 : ℝ) ^ m * (θ ^ 2) ^ m / ((2 * m + 2).factorial : ℝ))
          + 15 / 8 * ((-1 : ℝ) ^ m * (θ ^ 2) ^ m / ((2 * m + 3).factorial : ℝ))) := by
    funext m
    have h1 : ((2 * m + 1).factorial : ℝ) ≠ 0 := Nat.cast_ne_zero.2 (Nat.factorial_ne_zero _)
    have h2 : (2 * (m : ℝ) + 2) ≠ 0 := by positivity
    have h3 : (2 * (m : ℝ) + 3) ≠ 0 := by positivity
    rw [fac3, fac2]
    field_simp
    ring
  rw [hf]
  exact h

/-- `m(m−1)/2 /(2m+4)! = ⅛/(2m+2)! − (9/8)/(2m+3)! + 3/(2m+4)!`, summed -/
theorem hasSum_q4 {θ : ℝ} (hθ : θ ≠ 0) :
    HasSum (fun m : ℕ => ((m : ℝ) * ((m : ℝ) - 1) / 2)
        * ((-1 : ℝ) ^ m * (θ ^ 2) ^ m / ((2 * m + 4).factorial : ℝ)))
      (1 / 8 * ((1 - Real.cos θ) / θ ^ 2) - 9 / 8 * ((θ - Real.sin θ) / (θ ^ 2 * θ))
        + 3 * ((Real.cos θ - 1 + θ ^ 2 / 2) / (θ ^ 2 * θ ^ 2))) := by
  have h := (((hasSum_cos_shift hθ).mul_left (1 / 8)).sub ((hasSum_sin_shift hθ).mul_left (9 / 8))).add
    ((hasSum_cos_shift2 hθ).mul_left 3)
  have hf : (fun m : ℕ => ((m : ℝ) * ((m : ℝ) - 1) / 2)
        * ((-1 : ℝ) ^ m * (θ ^ 2) ^ m / ((2 * m + 4).factorial : ℝ)))
      = (fun m : ℕ => 1 / 8 * ((-1 : ℝ) ^ m * (θ ^ 2) ^ m / ((2 * m + 2).factorial : ℝ))
          - 9 / 8 * ((-1 : ℝ) ^ m * (θ ^ 2) ^ m / ((2 * m + 3).factorial : ℝ))
          + 3 * ((-1 : ℝ) ^ m * (θ ^ 2) ^ m / ((2 * m + 4).factorial : ℝ))) := by
    funext m
    have h2 : ((2 * m + 2).factorial : ℝ) ≠ 0 := Nat.cast_ne_zero.2 (Nat.factorial_ne_zero _)
    have h3 : (2 * (m : ℝ) + 3) ≠ 0 := by positivity
    have h4 : (2 * (m : ℝ) + 4) ≠ 0 := by positivity
    rw [fac4, fac3]
    field_simp
    ring
  rw [hf]
  exact h

/-! ### powers of an element with a three-level relation -/

section powers
variable {d : Nat} (X Y₁ Y₂ : Matrix (Fin d) (Fin d) ℝ) (n : ℝ)

theorem pow_even3 (h1 : X ^ 2 * X ^ 2 = (-n) • (Y₁ + X ^ 2)) (h2 : X ^ 2 * Y₁ = (-n) • (Y₂ + Y₁))
    (h3 : X ^ 2 * Y₂ = (-n) • Y₂) :
    ∀ m : ℕ, X ^ (2 * m + 2) = (-n) ^ m • X ^ 2 + ((m : ℝ) * (-n) ^ m) • Y₁
      + (((m : ℝ) * ((m : ℝ) - 1) / 2) * (-n) ^ m) • Y₂
  | 0 => by simp
  | m + 1 => by
    have ih := pow_even3 h1 h2 h3 m
    calc X ^ (2 * (m + 1) + 2) = X ^ 2 * X ^ (2 * m + 2) := by
          rw [← pow_add]; congr 1; ring
      _ = (-n) ^ m • (X ^ 2 * X ^ 2) + ((m : ℝ) * (-n) ^ m) • (X ^ 2 * Y₁)
            + (((m : ℝ) * ((m : ℝ) - 1) / 2) * (-n) ^ m) • (X ^ 2 * Y₂) := by
          rw [ih, Matrix.mul_add, Matrix.mul_add, Matrix.mul_smul, Matrix.mul_smul, Matrix.mul_smul]
      _ = _ := by
          rw [h1, h2, h3, pow_succ]
          push_cast
          module

theorem pow_odd3 (h1 : X ^ 2 * X ^ 2 = (-n) • (Y₁ + X ^ 2)) (h2 : X ^ 2 * Y₁ = (-n) • (Y₂ + Y₁))
    (h3 : X ^ 2 * Y₂ = (-n) • Y₂) (m : ℕ) :
    X ^ (2 * m + 3) = (-n) ^ m • (X * X ^ 2) + ((m : ℝ) * (-n) ^ m) • (X * Y₁)
      + (((m : ℝ) * ((m : ℝ) - 1) / 2) * (-n) ^ m) • (X * Y₂) := by
  rw [show 2 * m + 3 = 1 + (2 * m + 2) by ring, pow_add, pow_one, pow_even3 X Y₁ Y₂ n h1 h2 h3 m,
    Matrix.mul_add, Matrix.mul_add, Matrix.mul_smul, Matrix.mul_smul, Matrix.mul_smul]

end powers

/-! ### the series -/

section series
variable {d : Nat} (X Y₁ Y₂ : Matrix (Fin d) (Fin d) ℝ) (n : ℝ)

theorem term_even3 (h1 : X ^ 2 * X ^ 2 = (-n) • (Y₁ + X ^ 2)) (h2 : X ^ 2 * Y₁ = (-n) • (Y₂ + Y₁))
    (h3 : X ^ 2 * Y₂ = (-n) • Y₂) (j r : Fin d) (m : ℕ) :
    termD X j r (2 * m + 2)
      = ((-1 : ℝ) ^ m * n ^ m / ((2 * m + 3).factorial : ℝ)) * (X ^ 2) j r
        + ((m : ℝ) * ((-1 : ℝ) ^ m * n ^ m / ((2 * m + 3).factorial : ℝ))) * Y₁ j r
        + (((m : ℝ) * ((m : ℝ) - 1) / 2) * ((-1 : ℝ) ^ m * n ^ m / ((2 * m + 3).factorial : ℝ))) * Y₂ j r := by
  simp only [termD, pow_even3 X Y₁ Y₂ n h1 h2 h3, neg_one_pow_even, Matrix.add_apply, Matrix.smul_apply,
    smul_eq_mul, neg_pow n]
  rw [show 2 * m + 2 + 1 = 2 * m + 3 by ring]
  ring

theorem term_odd3 (h1 : X ^ 2 * X ^ 2 = (-n) • (Y₁ + X ^ 2)) (h2 : X ^ 2 * Y₁ = (-n) • (Y₂ + Y₁))
    (h3 : X ^ 2 * Y₂ = (-n) • Y₂) (j r : Fin d) (m : ℕ) :
    termD X j r (2 * m + 1 + 2)
      = -(((-1 : ℝ) ^ m * n ^ m / ((2 * m + 4).factorial : ℝ)) * (X * X ^ 2) j r)
        - ((m : ℝ) * ((-1 : ℝ) ^ m * n ^ m / ((2 * m + 4).factorial : ℝ))) * (X * Y₁) j r
        - (((m : ℝ) * ((m : ℝ) - 1) / 2) * ((-1 : ℝ) ^ m * n ^ m / ((2 * m + 4).factorial : ℝ)))
            * (X * Y₂) j r := by
  rw [show 2 * m + 1 + 2 = 2 * m + 3 by ring]
  simp only [termD, pow_odd3 X Y₁ Y₂ n h1 h2 h3, neg_one_pow_odd3, Matrix.add_apply, Matrix.smul_apply,
    smul_eq_mul, neg_pow n]
  rw [show 2 * m + 3 + 1 = 2 * m + 4 by ring]
  ring

/-- the six coefficient functions (`n = θ²`) -/
noncomputable def ca3 (θ n : ℝ) : ℝ := (θ - Real.sin θ) / (n * θ)
noncomputable def cb3 (θ n : ℝ) : ℝ := 1 / 2 * ((1 - Real.cos θ) / n) - 3 / 2 * ((θ - Real.sin θ) / (n * θ))
noncomputable def cc3 (θ n : ℝ) : ℝ :=
  1 / 8 * (Real.sin θ / θ) - 7 / 8 * ((1 - Real.cos θ) / n) + 15 / 8 * ((θ - Real.sin θ) / (n * θ))
noncomputable def ca4 (θ n : ℝ) : ℝ := (Real.cos θ - 1 + n / 2) / (n * n)
noncomputable def cb4 (θ n : ℝ) : ℝ :=
  1 / 2 * ((θ - Real.sin θ) / (n * θ)) - 2 * ((Real.cos θ - 1 + n / 2) / (n * n))
noncomputable def cc4 (θ n : ℝ) : ℝ :=
  1 / 8 * ((1 - Real.cos θ) / n) - 9 / 8 * ((θ - Real.sin θ) / (n * θ))
    + 3 * ((Real.cos θ - 1 + n / 2) / (n * n))

theorem hasSum_of_rel3 (h1 : X ^ 2 * X ^ 2 = (-n) • (Y₁ + X ^ 2)) (h2 : X ^ 2 * Y₁ = (-n) • (Y₂ + Y₁))
    (h3 : X ^ 2 * Y₂ = (-n) • Y₂) {θ : ℝ} (hθ : θ ≠ 0) (hsq : θ ^ 2 = n) (j r : Fin d) :
    HasSum (termD X j r)
      ((ca3 θ n * (X ^ 2) j r + cb3 θ n * Y₁ j r + cc3 θ n * Y₂ j r)
        + (-(ca4 θ n * (X * X ^ 2) j r) - cb4 θ n * (X * Y₁) j r - cc4 θ n * (X * Y₂) j r)
        + ((1 : Matrix (Fin d) (Fin d) ℝ) j r + -(1 / 2) * X j r)) := by
  have ha3 := (hasSum_sin_shift hθ).mul_right ((X ^ 2) j r)
  have hb3 := (hasSum_w3 hθ).mul_right (Y₁ j r)
  have hc3 := (hasSum_q3 hθ).mul_right (Y₂ j r)
  have ha4 := ((hasSum_cos_shift2 hθ).mul_right ((X * X ^ 2) j r)).neg
  have hb4 := (hasSum_w4 hθ).mul_right ((X * Y₁) j r)
  have hc4 := (hasSum_q4 hθ).mul_right ((X * Y₂) j r)
  rw [hsq] at ha3 hb3 hc3 ha4 hb4 hc4
  have heven : HasSum (fun m : ℕ => termD X j r (2 * m + 2))
      (ca3 θ n * (X ^ 2) j r + cb3 θ n * Y₁ j r + cc3 θ n * Y₂ j r) := by
    simp only [term_even3 X Y₁ Y₂ n h1 h2 h3]
    exact (ha3.add hb3).add hc3
  have hodd : HasSum (fun m : ℕ => termD X j r (2 * m + 1 + 2))
      (-(ca4 θ n * (X * X ^ 2) j r) - cb4 θ n * (X * Y₁) j r - cc4 θ n * (X * Y₂) j r) := by
    simp only [term_odd3 X Y₁ Y₂ n h1 h2 h3]
    exact (ha4.sub hb4).sub hc4
  have hg := HasSum.even_add_odd (f := fun k => termD X j r (k + 2)) heven hodd
  have hf := (hasSum_nat_add_iff 2).1 hg
  have e0 : ∑ i ∈ Finset.range 2, termD X j r i
      = (1 : Matrix (Fin d) (Fin d) ℝ) j r + -(1 / 2) * X j r := by
    simp [termD, Finset.sum_range_succ]
    ring
  rw [e0] at hf
  exact hf

/-- the three relations from the single fact `X²·P³ = 0` (`P = X² + n`), `n ≠ 0`:
    `Z₁ = X²P`, `Z₂ = X²P²`, `Y₁ = −Z₁/n`, `Y₂ = Z₂/n²` -/
theorem rels_of_cube (hn : n ≠ 0) (Z₁ Z₂ : Matrix (Fin d) (Fin d) ℝ)
    (hZ1 : Z₁ = X ^ 2 * X ^ 2 + n • X ^ 2) (hZ2 : Z₂ = X ^ 2 * Z₁ + n • Z₁)
    (hZ3 : X ^ 2 * Z₂ + n • Z₂ = 0) :
    X ^ 2 * X ^ 2 = (-n) • ((-1 / n) • Z₁ + X ^ 2)
    ∧ X ^ 2 * ((-1 / n) • Z₁) = (-n) • ((1 / n ^ 2) • Z₂ + (-1 / n) • Z₁)
    ∧ X ^ 2 * ((1 / n ^ 2) • Z₂) = (-n) • ((1 / n ^ 2) • Z₂) := by
  have e1 : X ^ 2 * X ^ 2 = Z₁ - n • X ^ 2 := by rw [hZ1]; module
  have e2 : X ^ 2 * Z₁ = Z₂ - n • Z₁ := by rw [hZ2]; module
  have e3 : X ^ 2 * Z₂ = -(n • Z₂) := eq_neg_of_add_eq_zero_left hZ3
  refine ⟨?_, ?_, ?_⟩
  · rw [e1]
    match_scalars <;> field_simp
  · rw [Matrix.mul_smul, e2]
    match_scalars <;> field_simp
  · rw [Matrix.mul_smul, e3]
    match_scalars
    field_simp

end series

end C04SeriesGal
