/-
  C04TaylorExp.lean — truncation bounds for `dr_exp` in the series branch (`0 < θ² ≤ eps2`):
  the code's `I − cos_2·M − sin_3·M²` (SO3, `M = hat(−a)`), `I + cos_2·ad − sin_3·ad²` (SE2) and the
  `calculate_q` block (SE3) differ from the closed forms by the coefficient errors of C02Taylor
  (`cos_2, sin_3, cos_4, sin_5`: ≤ θ⁶·const) times the matrix entries.
-/
import SmoothProofs.C04SO3
import SmoothProofs.C04SE2
import SmoothProofs.C02Taylor

open Lin Scalar

namespace C04TaylorExp
open C04Alg C04SO3

/-- SO3: entrywise distance between the code's `dr_exp a` (series branch) and the closed form
    `I + α(θ²)·â + β(θ²)·â²` -/
theorem so3_dr_exp_series_bound (a : Vec ℝ 3) (h0 : 0 < sqNorm a) (h1 : sqNorm a ≤ Scalar.eps2)
    (i j : Fin 3) :
    |(SO3.dr_exp a) i j - (poly2 (SO3.hat a) (αr (sqNorm a)) (βr (sqNorm a))) i j|
      ≤ sqNorm a ^ 3 * (9 / 322560) * |(SO3.hat a) i j|
        + sqNorm a ^ 3 * (10 / 3265920) * |(mmul (SO3.hat a) (SO3.hat a)) i j| := by
  have hc := C02.trig_cos_2_series (sqNorm a) h0 h1
  have hs := C02.trig_sin_3_series (sqNorm a) h0 h1
  have e : (SO3.dr_exp a) i j - (poly2 (SO3.hat a) (αr (sqNorm a)) (βr (sqNorm a))) i j
      = (Trig.cos_2 (sqNorm a) - (Real.cos (Real.sqrt (sqNorm a)) - 1) / sqNorm a) * (SO3.hat a) i j
        + -(Trig.sin_3 (sqNorm a) - (Real.sin (Real.sqrt (sqNorm a)) - Real.sqrt (sqNorm a))
            / (sqNorm a * Real.sqrt (sqNorm a))) * (mmul (SO3.hat a) (SO3.hat a)) i j := by
    simp only [SO3.dr_exp, SO3.calc_S1, memoM_eq, msmul, sqNorm3_neg, Mat.of_get, poly2, mmul3, hat_neg,
      αr, βr]
    ring
  rw [e]
  refine (abs_add_le _ _).trans (add_le_add ?_ ?_)
  · rw [abs_mul]; exact mul_le_mul_of_nonneg_right hc (abs_nonneg _)
  · rw [abs_mul, abs_neg]; exact mul_le_mul_of_nonneg_right hs (abs_nonneg _)

/-- SE2 (`θ = a_2 ≠ 0`, `θ² ≤ eps2`): the same with `ad a`. -/
theorem se2_dr_exp_series_bound (a : Vec ℝ 3) (h0 : a 2 ≠ 0) (h1 : a 2 * a 2 ≤ Scalar.eps2)
    (i j : Fin 3) :
    |(SE2.dr_exp a) i j - (poly2 (SE2.ad a)
        ((Real.cos (Real.sqrt (a 2 * a 2)) - 1) / (a 2 * a 2))
        (-((Real.sin (Real.sqrt (a 2 * a 2)) - Real.sqrt (a 2 * a 2))
            / (a 2 * a 2 * Real.sqrt (a 2 * a 2))))) i j|
      ≤ (a 2 * a 2) ^ 3 * (9 / 322560) * |(SE2.ad a) i j|
        + (a 2 * a 2) ^ 3 * (10 / 3265920) * |(mmul (SE2.ad a) (SE2.ad a)) i j| := by
  have hpos : 0 < a 2 * a 2 := mul_self_pos.2 h0
  have hc := C02.trig_cos_2_series (a 2 * a 2) hpos h1
  have hs := C02.trig_sin_3_series (a 2 * a 2) hpos h1
  have e : (SE2.dr_exp a) i j - (poly2 (SE2.ad a)
        ((Real.cos (Real.sqrt (a 2 * a 2)) - 1) / (a 2 * a 2))
        (-((Real.sin (Real.sqrt (a 2 * a 2)) - Real.sqrt (a 2 * a 2))
            / (a 2 * a 2 * Real.sqrt (a 2 * a 2))))) i j
      = (Trig.cos_2 (a 2 * a 2) - (Real.cos (Real.sqrt (a 2 * a 2)) - 1) / (a 2 * a 2)) * (SE2.ad a) i j
        + -(Trig.sin_3 (a 2 * a 2) - (Real.sin (Real.sqrt (a 2 * a 2)) - Real.sqrt (a 2 * a 2))
            / (a 2 * a 2 * Real.sqrt (a 2 * a 2))) * (mmul (SE2.ad a) (SE2.ad a)) i j := by
    simp only [SE2.dr_exp, memoM_eq, Lin.mmul_msmul_get, Mat.of_get, poly2]
    ring
  rw [e]
  refine (abs_add_le _ _).trans (add_le_add ?_ ?_)
  · rw [abs_mul]; exact mul_le_mul_of_nonneg_right hc (abs_nonneg _)
  · rw [abs_mul, abs_neg]; exact mul_le_mul_of_nonneg_right hs (abs_nonneg _)

/-- the closed-form `Q(v, w)` (coefficients `sin_3, cos_4, sin_5` in closed form) -/
noncomputable def Qclosed (v w : Vec ℝ 3) : Mat ℝ 3 3 :=
  let n := sqNorm w
  let θ := Real.sqrt n
  let V := SO3.hat v
  let W := SO3.hat w
  let vdw := dot v w
  let WV := mmul W V
  let VW := mmul V W
  let WW := mmul W W
  .of (fun i j =>
    (((1 / 2) * V i j
      + (Real.sin θ - θ) / (n * θ) * ((-(WV i j) - VW i j) + vdw * W i j))
      + (Real.cos θ - 1 + n / 2) / (n * n)
        * (((mmul W WV) i j + (mmul VW W) i j) + vdw * (3 * W i j - WW i j)))
      + (((Real.sin θ - θ + n * θ / 6) / (n * n * θ)) * 3 * vdw) * WW i j)

/-- SE3: the `calculate_q` block (used with `(−v, −ω)` by `dr_exp`), series branch vs closed form -/
theorem calculate_q_series_bound (v w : Vec ℝ 3) (h0 : 0 < sqNorm w) (h1 : sqNorm w ≤ Scalar.eps2)
    (i j : Fin 3) :
    |(SE3.calculate_q v w) i j - (Qclosed v w) i j|
      ≤ sqNorm w ^ 3 * (10 / 3265920)
          * |(-((mmul (SO3.hat w) (SO3.hat v)) i j) - (mmul (SO3.hat v) (SO3.hat w)) i j)
              + dot v w * (SO3.hat w) i j|
        + sqNorm w ^ 3 * (11 / 36288000)
          * |((mmul (SO3.hat w) (mmul (SO3.hat w) (SO3.hat v))) i j
                + (mmul (mmul (SO3.hat v) (SO3.hat w)) (SO3.hat w)) i j)
              + dot v w * (3 * (SO3.hat w) i j - (mmul (SO3.hat w) (SO3.hat w)) i j)|
        + sqNorm w ^ 3 * (12 / 439084800)
          * |3 * dot v w * (mmul (SO3.hat w) (SO3.hat w)) i j| := by
  have h3 := C02.trig_sin_3_series (sqNorm w) h0 h1
  have h4 := C02.trig_cos_4_series (sqNorm w) h0 h1
  have h5 := C02.trig_sin_5_series (sqNorm w) h0 h1
  have e : (SE3.calculate_q v w) i j - (Qclosed v w) i j
      = (Trig.sin_3 (sqNorm w) - (Real.sin (Real.sqrt (sqNorm w)) - Real.sqrt (sqNorm w))
            / (sqNorm w * Real.sqrt (sqNorm w)))
          * ((-((mmul (SO3.hat w) (SO3.hat v)) i j) - (mmul (SO3.hat v) (SO3.hat w)) i j)
              + dot v w * (SO3.hat w) i j)
        + (Trig.cos_4 (sqNorm w) - (Real.cos (Real.sqrt (sqNorm w)) - 1 + sqNorm w / 2)
            / (sqNorm w * sqNorm w))
          * (((mmul (SO3.hat w) (mmul (SO3.hat w) (SO3.hat v))) i j
                + (mmul (mmul (SO3.hat v) (SO3.hat w)) (SO3.hat w)) i j)
              + dot v w * (3 * (SO3.hat w) i j - (mmul (SO3.hat w) (SO3.hat w)) i j))
        + (Trig.sin_5 (sqNorm w) - (Real.sin (Real.sqrt (sqNorm w)) - Real.sqrt (sqNorm w)
              + sqNorm w * Real.sqrt (sqNorm w) / 6) / (sqNorm w * sqNorm w * Real.sqrt (sqNorm w)))
          * (3 * dot v w * (mmul (SO3.hat w) (SO3.hat w)) i j) := by
    simp only [SE3.calculate_q, Qclosed, memoM_eq, Mat.of_get, Nat.cast_ofNat,
      Nat.cast_one]
    ring
  rw [e]
  refine (abs_add_le _ _).trans (add_le_add ((abs_add_le _ _).trans (add_le_add ?_ ?_)) ?_)
  · rw [abs_mul]; exact mul_le_mul_of_nonneg_right h3 (abs_nonneg _)
  · rw [abs_mul]; exact mul_le_mul_of_nonneg_right h4 (abs_nonneg _)
  · rw [abs_mul]; exact mul_le_mul_of_nonneg_right h5 (abs_nonneg _)

/-- in the closed branch the model's `calculate_q` IS `Qclosed` -/
theorem calculate_q_closed (v w : Vec ℝ 3) (h : Scalar.eps2 < sqNorm w) (i j : Fin 3) :
    (SE3.calculate_q v w) i j = (Qclosed v w) i j := by
  simp only [SE3.calculate_q, Qclosed, memoM_eq, Mat.of_get, C02.trig_sin_3_closed _ h,
    C02.trig_cos_4_closed _ h, C02.trig_sin_5_closed _ h, Nat.cast_ofNat, Nat.cast_one]

end C04TaylorExp
