/-
  C19Sparse.lean — algebra of the sparse-matrix model (`SmoothModel/Sparse.lean`): `coeffRef` on a
  present / missing entry, sequences of `coeffRef` (`blockWrite`).
-/
import Mathlib.Data.List.Basic
import SmoothModel.Sparse

namespace Sparse
namespace SpMat
variable {α : Type}

theorem hasKey_iff_mem (k : Key) (l : List (Key × α)) : hasKey k l = true ↔ k ∈ l.map Prod.fst := by
  induction l with
  | nil => simp [hasKey]
  | cons e es ih =>
    simp only [hasKey, Bool.or_eq_true, beq_iff_eq, List.map_cons, List.mem_cons, ih]
    constructor
    · rintro (h | h)
      · exact Or.inl h.symm
      · exact Or.inr h
    · rintro (h | h)
      · exact Or.inl h.symm
      · exact Or.inr h

theorem map_fst_setEntry (k : Key) (v : α) (l : List (Key × α)) :
    (setEntry k v l).map Prod.fst = l.map Prod.fst := by
  induction l with
  | nil => rfl
  | cons e es ih =>
    simp only [setEntry]
    split
    · rename_i h
      have : e.1 = k := by simpa using h
      simp [this]
    · simp [ih]

theorem length_setEntry (k : Key) (v : α) (l : List (Key × α)) : (setEntry k v l).length = l.length := by
  have := congrArg List.length (map_fst_setEntry k v l)
  simpa using this

theorem find?_setEntry_self (k : Key) (v : α) (l : List (Key × α)) (h : hasKey k l = true) :
    find? k (setEntry k v l) = some v := by
  induction l with
  | nil => simp [hasKey] at h
  | cons e es ih =>
    simp only [setEntry]
    by_cases he : (e.1 == k) = true
    · simp [he, find?]
    · simp only [he, Bool.false_eq_true, ↓reduceIte, find?]
      simp only [hasKey, he, Bool.false_or] at h
      exact ih h

theorem find?_setEntry_other (k k' : Key) (v : α) (l : List (Key × α)) (hne : k' ≠ k) :
    find? k' (setEntry k v l) = find? k' l := by
  induction l with
  | nil => rfl
  | cons e es ih =>
    simp only [setEntry]
    by_cases he : (e.1 == k) = true
    · have hek : e.1 = k := by simpa using he
      have h1 : ((k == k') = false) := by simpa using (fun h => hne h.symm)
      have h2 : ((e.1 == k') = false) := by rw [hek]; exact h1
      simp [he, find?, h1, h2]
    · simp only [he, Bool.false_eq_true, ↓reduceIte, find?, ih]

theorem length_insertSorted (k : Key) (v : α) (l : List (Key × α)) :
    (insertSorted k v l).length = l.length + 1 := by
  induction l with
  | nil => rfl
  | cons e es ih =>
    simp only [insertSorted]
    split <;> simp [ih]

theorem mem_map_fst_insertSorted (k k' : Key) (v : α) (l : List (Key × α)) :
    k' ∈ (insertSorted k v l).map Prod.fst ↔ k' = k ∨ k' ∈ l.map Prod.fst := by
  induction l with
  | nil => simp [insertSorted]
  | cons e es ih =>
    simp only [insertSorted]
    split
    · simp
    · simp only [List.map_cons, List.mem_cons, ih]
      constructor
      · rintro (h | h | h)
        · exact Or.inr (Or.inl h)
        · exact Or.inl h
        · exact Or.inr (Or.inr h)
      · rintro (h | h | h)
        · exact Or.inr (Or.inl h)
        · exact Or.inl h
        · exact Or.inr (Or.inr h)

theorem find?_insertSorted_other (k k' : Key) (v : α) (l : List (Key × α)) (hne : k' ≠ k) :
    find? k' (insertSorted k v l) = find? k' l := by
  have h1 : ((k == k') = false) := by simpa using (fun h => hne h.symm)
  induction l with
  | nil => simp [insertSorted, find?, h1]
  | cons e es ih =>
    simp only [insertSorted]
    split
    · simp [find?, h1]
    · simp [find?, ih]

theorem find?_insertSorted_self (k : Key) (v : α) (l : List (Key × α)) (h : hasKey k l = false) :
    find? k (insertSorted k v l) = some v := by
  induction l with
  | nil => simp [insertSorted, find?]
  | cons e es ih =>
    simp only [hasKey, Bool.or_eq_false_iff] at h
    simp only [insertSorted]
    split
    · simp [find?]
    · simp [find?, h.1, ih h.2]

/-! ### `coeffRef` -/

/-- `coeffRef` on an entry of the pattern: the value is overwritten, nothing else changes -/
theorem coeffRef_present (m : SpMat α) (r c : Nat) (v : α) (h : hasKey (r, c) m.entries = true) :
    (m.coeffRef r c v).pattern = m.pattern
    ∧ (m.coeffRef r c v).compressed = m.compressed
    ∧ (m.coeffRef r c v).rows = m.rows ∧ (m.coeffRef r c v).cols = m.cols
    ∧ (m.coeffRef r c v).nonZeros = m.nonZeros
    ∧ (m.coeffRef r c v).get? r c = some v
    ∧ ∀ r' c', (r', c') ≠ (r, c) → (m.coeffRef r c v).get? r' c' = m.get? r' c' := by
  simp only [coeffRef, h, ↓reduceIte, pattern, nonZeros, get?]
  exact ⟨map_fst_setEntry _ _ _, trivial, trivial, trivial, length_setEntry _ _ _, find?_setEntry_self _ _ _ h,
    fun r' c' hne => find?_setEntry_other _ _ _ _ hne⟩

/-- `coeffRef` on a MISSING entry inserts it: one more stored entry, and the matrix is no longer
    compressed (Eigen 3.4 `SparseMatrix::insert` switches to uncompressed mode) -/
theorem coeffRef_missing (m : SpMat α) (r c : Nat) (v : α) (h : hasKey (r, c) m.entries = false) :
    (m.coeffRef r c v).compressed = false
    ∧ (m.coeffRef r c v).nonZeros = m.nonZeros + 1
    ∧ (m.coeffRef r c v).get? r c = some v
    ∧ (∀ r' c', (r', c') ≠ (r, c) → (m.coeffRef r c v).get? r' c' = m.get? r' c')
    ∧ (r, c) ∈ (m.coeffRef r c v).pattern ∧ (r, c) ∉ m.pattern := by
  simp only [coeffRef, h, Bool.false_eq_true, ↓reduceIte, pattern, nonZeros, get?]
  refine ⟨trivial, length_insertSorted _ _ _, find?_insertSorted_self _ _ _ h,
    fun r' c' hne => find?_insertSorted_other _ _ _ _ hne, ?_, ?_⟩
  · exact (mem_map_fst_insertSorted _ _ _ _).2 (Or.inl rfl)
  · intro hm
    have := (hasKey_iff_mem (r, c) m.entries).2 hm
    rw [h] at this
    cases this

/-- compression is never regained and stored entries are never removed by `coeffRef` -/
theorem coeffRef_mono (m : SpMat α) (r c : Nat) (v : α) :
    ((m.coeffRef r c v).compressed = true → m.compressed = true)
    ∧ m.nonZeros ≤ (m.coeffRef r c v).nonZeros := by
  by_cases h : hasKey (r, c) m.entries = true
  · have := coeffRef_present m r c v h
    exact ⟨fun hc => this.2.1 ▸ hc, Nat.le_of_eq this.2.2.2.2.1.symm⟩
  · have h' : hasKey (r, c) m.entries = false := by simpa using h
    have := coeffRef_missing m r c v h'
    exact ⟨fun hc => (by rw [this.1] at hc; cases hc), by omega⟩

/-! ### `blockWrite` -/

theorem blockWrite_nil (m : SpMat α) : m.blockWrite [] = m := rfl

theorem blockWrite_cons (m : SpMat α) (w : Nat × Nat × α) (ws : List (Nat × Nat × α)) :
    m.blockWrite (w :: ws) = (m.coeffRef w.1 w.2.1 w.2.2).blockWrite ws := rfl

theorem blockWrite_append (m : SpMat α) (ws₁ ws₂ : List (Nat × Nat × α)) :
    m.blockWrite (ws₁ ++ ws₂) = (m.blockWrite ws₁).blockWrite ws₂ := by
  simp [blockWrite, List.foldl_append]

/-- **frame of a block write**: if every written position is in the host pattern, the pattern,
    the compression flag, the dimensions and the number of stored entries are unchanged, and every
    stored value at a position that is not written is untouched. -/
theorem blockWrite_frame (m : SpMat α) (ws : List (Nat × Nat × α))
    (h : ∀ w ∈ ws, hasKey (w.1, w.2.1) m.entries = true) :
    (m.blockWrite ws).pattern = m.pattern
    ∧ (m.blockWrite ws).compressed = m.compressed
    ∧ (m.blockWrite ws).rows = m.rows ∧ (m.blockWrite ws).cols = m.cols
    ∧ (m.blockWrite ws).nonZeros = m.nonZeros
    ∧ ∀ r c, (∀ w ∈ ws, (w.1, w.2.1) ≠ (r, c)) → (m.blockWrite ws).get? r c = m.get? r c := by
  induction ws generalizing m with
  | nil => exact ⟨rfl, rfl, rfl, rfl, rfl, fun _ _ _ => rfl⟩
  | cons w ws ih =>
    rw [blockWrite_cons]
    have hw := coeffRef_present m w.1 w.2.1 w.2.2 (h w List.mem_cons_self)
    have hrest : ∀ w' ∈ ws, hasKey (w'.1, w'.2.1) (m.coeffRef w.1 w.2.1 w.2.2).entries = true := by
      intro w' hw'
      rw [hasKey_iff_mem]
      have := (hasKey_iff_mem _ _).1 (h w' (List.mem_cons_of_mem _ hw'))
      have hp := hw.1
      simp only [pattern] at hp
      rw [hp]; exact this
    have := ih (m.coeffRef w.1 w.2.1 w.2.2) hrest
    refine ⟨this.1.trans hw.1, this.2.1.trans hw.2.1, this.2.2.1.trans hw.2.2.1,
      this.2.2.2.1.trans hw.2.2.2.1, this.2.2.2.2.1.trans hw.2.2.2.2.1, ?_⟩
    intro r c hne
    rw [this.2.2.2.2.2 r c (fun w' hw' => hne w' (List.mem_cons_of_mem _ hw'))]
    exact hw.2.2.2.2.2.2 r c (fun e => hne w List.mem_cons_self e.symm)

/-- the values written are the values read back, provided no position is written twice -/
theorem blockWrite_values (m : SpMat α) (ws : List (Nat × Nat × α))
    (h : ∀ w ∈ ws, hasKey (w.1, w.2.1) m.entries = true)
    (hnd : (ws.map (fun w => (w.1, w.2.1))).Nodup) :
    ∀ w ∈ ws, (m.blockWrite ws).get? w.1 w.2.1 = some w.2.2 := by
  induction ws generalizing m with
  | nil => intro w hw; cases hw
  | cons w0 ws ih =>
    intro w hw
    rw [blockWrite_cons]
    have hw0 := coeffRef_present m w0.1 w0.2.1 w0.2.2 (h w0 List.mem_cons_self)
    have hrest : ∀ w' ∈ ws, hasKey (w'.1, w'.2.1) (m.coeffRef w0.1 w0.2.1 w0.2.2).entries = true := by
      intro w' hw'
      rw [hasKey_iff_mem]
      have := (hasKey_iff_mem _ _).1 (h w' (List.mem_cons_of_mem _ hw'))
      have hp := hw0.1
      simp only [pattern] at hp
      rw [hp]; exact this
    simp only [List.map_cons, List.nodup_cons] at hnd
    rcases List.mem_cons.1 hw with rfl | hw'
    · -- the first write is not overwritten by the others
      have hf := blockWrite_frame (m.coeffRef w.1 w.2.1 w.2.2) ws hrest
      rw [hf.2.2.2.2.2 w.1 w.2.1 (by
        intro w' hw' e
        exact hnd.1 (List.mem_map.2 ⟨w', hw', e⟩))]
      exact hw0.2.2.2.2.2.1
    · exact ih _ hrest hnd.2 w hw'

/-- **missing_entry_uncompresses**: if some written position is NOT in the host pattern, the block
    write inserts it: the result is not compressed and has more stored entries than the host. -/
theorem blockWrite_missing (m : SpMat α) (ws : List (Nat × Nat × α))
    (h : ∃ w ∈ ws, hasKey (w.1, w.2.1) m.entries = false) :
    (m.blockWrite ws).compressed = false ∧ m.nonZeros < (m.blockWrite ws).nonZeros := by
  have mono : ∀ (ws : List (Nat × Nat × α)) (m : SpMat α),
      ((m.blockWrite ws).compressed = true → m.compressed = true) ∧ m.nonZeros ≤ (m.blockWrite ws).nonZeros := by
    intro ws
    induction ws with
    | nil => intro m; exact ⟨id, Nat.le_refl _⟩
    | cons w ws ih =>
      intro m
      rw [blockWrite_cons]
      have h1 := ih (m.coeffRef w.1 w.2.1 w.2.2)
      have h2 := coeffRef_mono m w.1 w.2.1 w.2.2
      exact ⟨fun hc => h2.1 (h1.1 hc), Nat.le_trans h2.2 h1.2⟩
  induction ws generalizing m with
  | nil => obtain ⟨w, hw, _⟩ := h; cases hw
  | cons w0 ws ih =>
    rw [blockWrite_cons]
    by_cases h0 : hasKey (w0.1, w0.2.1) m.entries = true
    · -- the first write is fine; the missing one is further down, and still missing afterwards
      obtain ⟨w, hw, hmiss⟩ := h
      have hw0 := coeffRef_present m w0.1 w0.2.1 w0.2.2 h0
      rcases List.mem_cons.1 hw with rfl | hw'
      · rw [h0] at hmiss; cases hmiss
      · have : hasKey (w.1, w.2.1) (m.coeffRef w0.1 w0.2.1 w0.2.2).entries = false := by
          cases hk : hasKey (w.1, w.2.1) (m.coeffRef w0.1 w0.2.1 w0.2.2).entries with
          | false => rfl
          | true =>
            have := (hasKey_iff_mem _ _).1 hk
            have hp := hw0.1
            simp only [pattern] at hp
            rw [hp] at this
            have := (hasKey_iff_mem _ _).2 this
            rw [hmiss] at this; cases this
        have := ih (m.coeffRef w0.1 w0.2.1 w0.2.2) ⟨w, hw', this⟩
        exact ⟨this.1, by rw [← hw0.2.2.2.2.1]; exact this.2⟩
    · have h0' : hasKey (w0.1, w0.2.1) m.entries = false := by simpa using h0
      have hm := coeffRef_missing m w0.1 w0.2.1 w0.2.2 h0'
      have hmono := mono ws (m.coeffRef w0.1 w0.2.1 w0.2.2)
      constructor
      · cases hc : ((m.coeffRef w0.1 w0.2.1 w0.2.2).blockWrite ws).compressed with
        | false => rfl
        | true => have := hmono.1 hc; rw [hm.1] at this; cases this
      · have := hmono.2; omega

end SpMat
end Sparse
