/-
  C02TaylorReal.lean — Taylor polynomials of sin and cos with explicit remainder of ANY order,
  from `Complex.exp_bound` applied to `exp (i x)` (Mathlib's `Real.sin_bound/cos_bound` are the
  orders 5 and 4).  No model import: pure real analysis.
-/
import Mathlib.Analysis.Complex.Trigonometric
import Mathlib.Analysis.SpecialFunctions.Trigonometric.Basic
import Mathlib.Tactic.Ring
import Mathlib.Tactic.NormNum
import Mathlib.Tactic.Linarith

namespace C02
open Finset

/-- partial sums of `exp (i x)` -/
noncomputable def eixSum (n : ℕ) (x : ℝ) : ℂ := ∑ m ∈ range n, ((x : ℂ) * Complex.I) ^ m / (m.factorial : ℂ)

theorem eix_bound (x : ℝ) (hx : |x| ≤ 1) {n : ℕ} (hn : 0 < n) :
    ‖Complex.exp ((x : ℂ) * Complex.I) - eixSum n x‖
      ≤ |x| ^ n * ((n.succ : ℝ) * (n.factorial * n : ℝ)⁻¹) := by
  have hnorm : ‖(x : ℂ) * Complex.I‖ = |x| := by simp
  have := Complex.exp_bound (x := (x : ℂ) * Complex.I) (by rw [hnorm]; exact hx) hn
  rwa [hnorm] at this

theorem cos_taylor_bound (x : ℝ) (hx : |x| ≤ 1) {n : ℕ} (hn : 0 < n) :
    |Real.cos x - (eixSum n x).re| ≤ |x| ^ n * ((n.succ : ℝ) * (n.factorial * n : ℝ)⁻¹) := by
  have h := eix_bound x hx hn
  have h2 := Complex.abs_re_le_norm (Complex.exp ((x : ℂ) * Complex.I) - eixSum n x)
  rw [Complex.sub_re, Complex.exp_ofReal_mul_I_re] at h2
  exact h2.trans h

theorem sin_taylor_bound (x : ℝ) (hx : |x| ≤ 1) {n : ℕ} (hn : 0 < n) :
    |Real.sin x - (eixSum n x).im| ≤ |x| ^ n * ((n.succ : ℝ) * (n.factorial * n : ℝ)⁻¹) := by
  have h := eix_bound x hx hn
  have h2 := Complex.abs_im_le_norm (Complex.exp ((x : ℂ) * Complex.I) - eixSum n x)
  rw [Complex.sub_im, Complex.exp_ofReal_mul_I_im] at h2
  exact h2.trans h

theorem eixSum_succ (n : ℕ) (x : ℝ) :
    eixSum (n+1) x = eixSum n x + ((x : ℂ) * Complex.I) ^ n / (n.factorial : ℂ) := by
  simp [eixSum, sum_range_succ]

theorem xI_pow_re_im (x : ℝ) : ∀ k : ℕ,
    (((x : ℂ) * Complex.I) ^ (4*k) = ((x^(4*k) : ℝ) : ℂ)) ∧
    (((x : ℂ) * Complex.I) ^ (4*k+1) = ((x^(4*k+1) : ℝ) : ℂ) * Complex.I) ∧
    (((x : ℂ) * Complex.I) ^ (4*k+2) = -((x^(4*k+2) : ℝ) : ℂ)) ∧
    (((x : ℂ) * Complex.I) ^ (4*k+3) = -((x^(4*k+3) : ℝ) : ℂ) * Complex.I) := by
  intro k
  have hI4 : Complex.I ^ (4*k) = 1 := by rw [pow_mul, Complex.I_pow_four, one_pow]
  refine ⟨?_, ?_, ?_, ?_⟩
  · rw [mul_pow, hI4]; push_cast; ring
  · rw [mul_pow, pow_succ Complex.I, hI4]; push_cast; ring
  · rw [mul_pow, pow_add Complex.I, hI4, Complex.I_sq]; push_cast; ring
  · rw [mul_pow, pow_add Complex.I, hI4, Complex.I_pow_three]; push_cast; ring


/-- evaluate `eixSum n x` for a numeral `n ≤ 12` -/
macro "eix_eval" x:term : tactic => `(tactic| (
  have h0 := xI_pow_re_im $x 0
  have h1 := xI_pow_re_im $x 1
  have h2 := xI_pow_re_im $x 2
  simp only [Nat.mul_zero, Nat.mul_one, Nat.zero_add, Nat.reduceAdd, Nat.reduceMul] at h0 h1 h2
  simp only [eixSum, sum_range_succ, range_zero, sum_empty, h0.1, h0.2.1, h0.2.2.1, h0.2.2.2,
    h1.1, h1.2.1, h1.2.2.1, h1.2.2.2, h2.1, h2.2.1, h2.2.2.1, h2.2.2.2, Nat.factorial]
  apply Complex.ext <;> simp <;> ring))

theorem ofReal_add_mul_I_re (a b : ℝ) : ((a : ℂ) + (b : ℂ) * Complex.I).re = a := by simp
theorem ofReal_add_mul_I_im (a b : ℝ) : ((a : ℂ) + (b : ℂ) * Complex.I).im = b := by simp

theorem eixSum4_re (x : ℝ) : (eixSum 4 x).re = 1 - x^2/2 := by
  have : eixSum 4 x = ((1 - x^2/2 : ℝ) : ℂ) + ((x - x^3/6 : ℝ) : ℂ) * Complex.I := by eix_eval x
  rw [this, ofReal_add_mul_I_re]
theorem eixSum5_im (x : ℝ) : (eixSum 5 x).im = x - x^3/6 := by
  have : eixSum 5 x = ((1 - x^2/2 + x^4/24 : ℝ) : ℂ) + ((x - x^3/6 : ℝ) : ℂ) * Complex.I := by
    eix_eval x
  rw [this, ofReal_add_mul_I_im]
theorem eixSum6_re (x : ℝ) : (eixSum 6 x).re = 1 - x^2/2 + x^4/24 := by
  have : eixSum 6 x = ((1 - x^2/2 + x^4/24 : ℝ) : ℂ) + ((x - x^3/6 + x^5/120 : ℝ) : ℂ) * Complex.I := by
    eix_eval x
  rw [this, ofReal_add_mul_I_re]
theorem eixSum8_re (x : ℝ) : (eixSum 8 x).re = 1 - x^2/2 + x^4/24 - x^6/720 := by
  have : eixSum 8 x = ((1 - x^2/2 + x^4/24 - x^6/720 : ℝ) : ℂ)
      + ((x - x^3/6 + x^5/120 - x^7/5040 : ℝ) : ℂ) * Complex.I := by eix_eval x
  rw [this, ofReal_add_mul_I_re]
theorem eixSum9_im (x : ℝ) : (eixSum 9 x).im = x - x^3/6 + x^5/120 - x^7/5040 := by
  have : eixSum 9 x = ((1 - x^2/2 + x^4/24 - x^6/720 + x^8/40320 : ℝ) : ℂ)
      + ((x - x^3/6 + x^5/120 - x^7/5040 : ℝ) : ℂ) * Complex.I := by eix_eval x
  rw [this, ofReal_add_mul_I_im]
theorem eixSum10_re (x : ℝ) : (eixSum 10 x).re = 1 - x^2/2 + x^4/24 - x^6/720 + x^8/40320 := by
  have : eixSum 10 x = ((1 - x^2/2 + x^4/24 - x^6/720 + x^8/40320 : ℝ) : ℂ)
      + ((x - x^3/6 + x^5/120 - x^7/5040 + x^9/362880 : ℝ) : ℂ) * Complex.I := by eix_eval x
  rw [this, ofReal_add_mul_I_re]
theorem eixSum11_im (x : ℝ) :
    (eixSum 11 x).im = x - x^3/6 + x^5/120 - x^7/5040 + x^9/362880 := by
  have : eixSum 11 x = ((1 - x^2/2 + x^4/24 - x^6/720 + x^8/40320 - x^10/3628800 : ℝ) : ℂ)
      + ((x - x^3/6 + x^5/120 - x^7/5040 + x^9/362880 : ℝ) : ℂ) * Complex.I := by eix_eval x
  rw [this, ofReal_add_mul_I_im]
theorem eixSum12_re (x : ℝ) :
    (eixSum 12 x).re = 1 - x^2/2 + x^4/24 - x^6/720 + x^8/40320 - x^10/3628800 := by
  have : eixSum 12 x = ((1 - x^2/2 + x^4/24 - x^6/720 + x^8/40320 - x^10/3628800 : ℝ) : ℂ)
      + ((x - x^3/6 + x^5/120 - x^7/5040 + x^9/362880 - x^11/39916800 : ℝ) : ℂ) * Complex.I := by
    eix_eval x
  rw [this, ofReal_add_mul_I_re]

/-! ### the bounds in closed numeric form -/

theorem cos_bound4 (x : ℝ) (hx : |x| ≤ 1) : |Real.cos x - (1 - x^2/2)| ≤ |x|^4 * (5/96) := by
  have := cos_taylor_bound x hx (n := 4) (by norm_num)
  rw [eixSum4_re] at this
  refine this.trans (le_of_eq ?_); norm_num [Nat.factorial]
theorem sin_bound5 (x : ℝ) (hx : |x| ≤ 1) : |Real.sin x - (x - x^3/6)| ≤ |x|^5 * (1/100) := by
  have := sin_taylor_bound x hx (n := 5) (by norm_num)
  rw [eixSum5_im] at this
  refine this.trans (le_of_eq ?_); norm_num [Nat.factorial]
theorem cos_bound6 (x : ℝ) (hx : |x| ≤ 1) :
    |Real.cos x - (1 - x^2/2 + x^4/24)| ≤ |x|^6 * (7/4320) := by
  have := cos_taylor_bound x hx (n := 6) (by norm_num)
  rw [eixSum6_re] at this
  refine this.trans (le_of_eq ?_); norm_num [Nat.factorial]
theorem cos_bound8 (x : ℝ) (hx : |x| ≤ 1) :
    |Real.cos x - (1 - x^2/2 + x^4/24 - x^6/720)| ≤ |x|^8 * (9/322560) := by
  have := cos_taylor_bound x hx (n := 8) (by norm_num)
  rw [eixSum8_re] at this
  refine this.trans (le_of_eq ?_); norm_num [Nat.factorial]
theorem sin_bound9 (x : ℝ) (hx : |x| ≤ 1) :
    |Real.sin x - (x - x^3/6 + x^5/120 - x^7/5040)| ≤ |x|^9 * (10/3265920) := by
  have := sin_taylor_bound x hx (n := 9) (by norm_num)
  rw [eixSum9_im] at this
  refine this.trans (le_of_eq ?_); norm_num [Nat.factorial]
theorem cos_bound10 (x : ℝ) (hx : |x| ≤ 1) :
    |Real.cos x - (1 - x^2/2 + x^4/24 - x^6/720 + x^8/40320)| ≤ |x|^10 * (11/36288000) := by
  have := cos_taylor_bound x hx (n := 10) (by norm_num)
  rw [eixSum10_re] at this
  refine this.trans (le_of_eq ?_); norm_num [Nat.factorial]
theorem sin_bound11 (x : ℝ) (hx : |x| ≤ 1) :
    |Real.sin x - (x - x^3/6 + x^5/120 - x^7/5040 + x^9/362880)| ≤ |x|^11 * (12/439084800) := by
  have := sin_taylor_bound x hx (n := 11) (by norm_num)
  rw [eixSum11_im] at this
  refine this.trans (le_of_eq ?_); norm_num [Nat.factorial]
theorem cos_bound12 (x : ℝ) (hx : |x| ≤ 1) :
    |Real.cos x - (1 - x^2/2 + x^4/24 - x^6/720 + x^8/40320 - x^10/3628800)|
      ≤ |x|^12 * (13/5748019200) := by
  have := cos_taylor_bound x hx (n := 12) (by norm_num)
  rw [eixSum12_re] at this
  refine this.trans (le_of_eq ?_); norm_num [Nat.factorial]

end C02
