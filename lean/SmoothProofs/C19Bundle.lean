/-
  C19Bundle.lean — the values written by `dr_exp_sparse` / `dr_expinv_sparse` for Bundles: the
  block written for `Bundle.prod A B` is the dense `prod` value at the shifted indices, lifted by
  induction to `Bundle.bundle ps` and to every (nested) descriptor.  Generic in the scalar.
-/
import Mathlib.Data.List.Basic
import Mathlib.Data.List.Nodup
import SmoothProofs.C16Mem
import SmoothProofs.C19Writes

open Lin Scalar Mem

namespace Sparse

section
variable {α : Type} [Scalar α]

/-- the dense Jacobian selected by the `Inv` template flag -/
def selJ (inv : Bool) (M : LieModel α) (v : Vec α M.dof) : Mat α M.dof M.dof :=
  if inv then M.dr_expinv v else M.dr_exp v

theorem selJ_prod (inv : Bool) (A B : LieModel α) (v : Vec α (A.dof + B.dof)) :
    selJ inv (Bundle.prod A B) v = Bundle.bdiag (selJ inv A (Bundle.fst v)) (selJ inv B (Bundle.snd v)) := by
  cases inv <;> rfl

theorem getN_eq' {n m : Nat} (M : Mat α n m) (r c : Nat) (hr : r < n) (hc : c < m) :
    getN M r c = M ⟨r, hr⟩ ⟨c, hc⟩ := by
  simp [getN, hr, hc]

/-- diagonal blocks of a block-diagonal arrangement -/
theorem getN_bdiag_tl {n m n' m' : Nat} (A : Mat α n n') (B : Mat α m m') (r c : Nat) (hr : r < n) (hc : c < n') :
    getN (Bundle.bdiag A B) r c = getN A r c := by
  rw [getN_eq' _ _ _ (by omega) (by omega), getN_eq' _ _ _ hr hc]
  simp [Bundle.bdiag, Mat.of, hr, hc]

theorem getN_bdiag_br {n m n' m' : Nat} (A : Mat α n n') (B : Mat α m m') (r c : Nat) (hr : r < m) (hc : c < m') :
    getN (Bundle.bdiag A B) (n + r) (n' + c) = getN B r c := by
  rw [getN_eq' _ _ _ (by omega) (by omega), getN_eq' _ _ _ hr hc]
  simp [Bundle.bdiag, Mat.of]

theorem fst_ofArray (n m : Nat) (a : Array α) (ao : Nat) :
    Bundle.fst (ofArray (n + m) a ao) = ofArray n a ao := by
  apply Vec.ext'; intro i; rfl

theorem snd_ofArray (n m : Nat) (a : Array α) (ao : Nat) :
    Bundle.snd (ofArray (n + m) a ao) = ofArray m a (ao + n) := by
  apply Vec.ext'; intro i
  simp [Bundle.snd, ofArray, Vec.of, Nat.add_assoc]

/-- **the block written for a product is the dense product value at the shifted indices** -/
theorem prod_block_values (inv : Bool) (A B : LieModel α) (a : Array α) (ao : Nat) :
    (∀ r c, r < A.dof → c < A.dof →
      getN (selJ inv (Bundle.prod A B) (ofArray (A.dof + B.dof) a ao)) r c
        = getN (selJ inv A (ofArray A.dof a ao)) r c)
    ∧ (∀ n, n = A.dof → ∀ r c, r < B.dof → c < B.dof →
      getN (selJ inv (Bundle.prod A B) (ofArray (A.dof + B.dof) a ao)) (n + r) (n + c)
        = getN (selJ inv B (ofArray B.dof a (ao + n))) r c) := by
  have e : selJ inv (Bundle.prod A B) (ofArray (A.dof + B.dof) a ao)
      = Bundle.bdiag (selJ inv A (ofArray A.dof a ao)) (selJ inv B (ofArray B.dof a (ao + A.dof))) := by
    rw [selJ_prod, fst_ofArray, snd_ofArray]
  constructor
  · intro r c hr hc
    exact (congrArg (fun M => getN M r c) e).trans (getN_bdiag_tl _ _ _ _ hr hc)
  · intro n hn r c hr hc
    subst hn
    exact (congrArg (fun M => getN M (A.dof + r) (A.dof + c)) e).trans (getN_bdiag_br _ _ _ _ hr hc)

/-- what a write carries: a shifted pattern entry together with the dense model value there -/
def HasValue (n i0 : Nat) (p : Nat → Nat → Bool) (D : Nat → Nat → α) (w : Nat × Nat × α) : Prop :=
  ∃ r c, r < n ∧ c < n ∧ p r c = true ∧ w.1 = i0 + r ∧ w.2.1 = i0 + c ∧ w.2.2 = D r c

mutual
  /-- commutative descriptors: the dense Jacobian has ones on the diagonal -/
  theorem comm_diag (inv : Bool) : (d : GDesc) → isComm d = true → (v : Vec α (GDesc.model (α := α) d).dof) →
      ∀ i, i < dofSize d → getN (selJ inv (GDesc.model d) v) i i = nat 1
    | .so2, _, v, i, hi => by
      cases inv <;> simp [selJ, GDesc.model, SO2.model, getN, ident, Mat.of, dofSize] at hi ⊢ <;> omega
    | .c1, _, v, i, hi => by
      cases inv <;> simp [selJ, GDesc.model, C1.model, getN, ident, Mat.of, dofSize] at hi ⊢ <;> omega
    | .tn n, _, v, i, hi => by
      cases inv <;> simp [selJ, GDesc.model, Tn.model, getN, ident, Mat.of, dofSize] at hi ⊢ <;> omega
    | .so3, h, _, _, _ => by cases h
    | .se2, h, _, _, _ => by cases h
    | .se3, h, _, _, _ => by cases h
    | .gal, h, _, _, _ => by cases h
    | .sek3 _, h, _, _, _ => by cases h
    | .bundle ps, h, v, i, hi => comm_diagL inv ps h v i hi
  theorem comm_diagL (inv : Bool) : (ps : List GDesc) → isCommL ps = true →
      (v : Vec α (Bundle.bundle (GDesc.models (α := α) ps)).dof) →
      ∀ i, i < dofSizeL ps → getN (selJ inv (Bundle.bundle (GDesc.models ps)) v) i i = nat 1
    | [], _, _, i, hi => absurd hi (Nat.not_lt_zero _)
    | p :: ps, h, v, i, hi => by
      have h' : isComm p = true ∧ isCommL ps = true := by simpa [isCommL] using h
      have hd : (GDesc.model (α := α) p).dof = dofSize p := model_dof p
      have hdL : (Bundle.bundle (GDesc.models (α := α) ps)).dof = dofSizeL ps := models_dof ps
      have e : getN (selJ inv (Bundle.bundle (GDesc.models (p :: ps))) v) i i
          = getN (Bundle.bdiag (selJ inv (GDesc.model p) (Bundle.fst v))
              (selJ inv (Bundle.bundle (GDesc.models ps)) (Bundle.snd v))) i i :=
        congrArg (fun M => getN M i i) (selJ_prod inv (GDesc.model p) (Bundle.bundle (GDesc.models ps)) v)
      rw [e]
      by_cases h1 : i < dofSize p
      · rw [getN_bdiag_tl _ _ _ _ (hd ▸ h1) (hd ▸ h1)]
        exact comm_diag inv p h'.1 _ i h1
      · have h2 : i - dofSize p < dofSizeL ps := by simp only [dofSizeL] at hi; omega
        have h3 : i = (GDesc.model (α := α) p).dof + (i - dofSize p) := by rw [hd]; omega
        rw [h3, getN_bdiag_br _ _ _ _ (hdL ▸ h2) (hdL ▸ h2)]
        exact comm_diagL inv ps h'.2 (Bundle.snd v) (i - dofSize p) h2
end

theorem identWrites_hasValue (n i0 : Nat) (p : Nat → Nat → Bool) (D : Nat → Nat → α)
    (hp : ∀ i, i < n → p i i = true) (hD : ∀ i, i < n → D i i = nat 1)
    (w : Nat × Nat × α) (hw : w ∈ identWrites (α := α) n i0) : HasValue n i0 p D w := by
  simp only [identWrites, List.mem_map, List.mem_range] at hw
  obtain ⟨i, hi, rfl⟩ := hw
  exact ⟨i, i, hi, hi, hp i hi, rfl, rfl, (hD i hi).symm⟩

theorem denseWrites_hasValue (d : GDesc) (inv : Bool) (a : Array α) (ao i0 : Nat)
    (w : Nat × Nat × α) (hw : w ∈ denseWrites d inv a ao i0) :
    HasValue (dofSize d) i0 (inD d) (getN (selJ inv (GDesc.model d) (ofArray _ a ao))) w := by
  simp only [denseWrites, List.mem_map] at hw
  obtain ⟨k, hk, rfl⟩ := hw
  have := (mem_gridFilter _ _ _ k.1 k.2).1 (by simpa [dPattern] using hk)
  refine ⟨k.1, k.2, this.1, this.2.1, this.2.2, rfl, rfl, ?_⟩
  simp only [memoM_eq, memoV_eq, selJ]

mutual
  /-- **values written = dense model values**, for every descriptor, nesting, tangent offset and
      block offset: each `coeffRef(i0 + r, i0 + c) = v` of `dr_exp_sparse` / `dr_expinv_sparse` has
      `(r, c)` in the published pattern and `v = dr_exp(a)(r, c)` (resp. `dr_expinv`) of the dense
      model of the WHOLE descriptor -/
  theorem dWrites_hasValue (inv : Bool) : (d : GDesc) → (a : Array α) → (ao i0 : Nat) →
      ∀ w ∈ dWrites inv d a ao i0,
        HasValue (dofSize d) i0 (inD d) (getN (selJ inv (GDesc.model d) (ofArray _ a ao))) w
    | .bundle ps, a, ao, i0 => by
      intro w hw
      simp only [dWrites] at hw
      split at hw
      · rename_i hc
        exact identWrites_hasValue _ _ _ _ (fun i hi => inDL_diag ps i hi)
          (fun i hi => comm_diagL inv ps hc _ i hi) w hw
      · exact dWritesL_hasValue inv ps a ao i0 w hw
    | .so2, a, ao, i0 => fun w hw => identWrites_hasValue 1 i0 _ _ (fun i hi => inD_diag .so2 i hi)
        (fun i hi => comm_diag inv .so2 rfl _ i hi) w hw
    | .c1, a, ao, i0 => fun w hw => identWrites_hasValue 2 i0 _ _ (fun i hi => inD_diag .c1 i hi)
        (fun i hi => comm_diag inv .c1 rfl _ i hi) w hw
    | .tn n, a, ao, i0 => fun w hw => identWrites_hasValue n i0 _ _ (fun i hi => inD_diag (.tn n) i hi)
        (fun i hi => comm_diag inv (.tn n) rfl _ i hi) w hw
    | .so3, a, ao, i0 => fun w hw => denseWrites_hasValue .so3 inv a ao i0 w hw
    | .se2, a, ao, i0 => fun w hw => denseWrites_hasValue .se2 inv a ao i0 w hw
    | .se3, a, ao, i0 => fun w hw => denseWrites_hasValue .se3 inv a ao i0 w hw
    | .gal, a, ao, i0 => fun w hw => denseWrites_hasValue .gal inv a ao i0 w hw
    | .sek3 k, a, ao, i0 => fun w hw => denseWrites_hasValue (.sek3 k) inv a ao i0 w hw
  theorem dWritesL_hasValue (inv : Bool) : (ps : List GDesc) → (a : Array α) → (ao i0 : Nat) →
      ∀ w ∈ dWritesL inv ps a ao i0,
        HasValue (dofSizeL ps) i0 (inDL ps)
          (getN (selJ inv (Bundle.bundle (GDesc.models ps)) (ofArray _ a ao))) w
    | [], _, _, _ => fun w hw => by simp [dWritesL] at hw
    | p :: ps, a, ao, i0 => by
      intro w hw
      have hd : (GDesc.model (α := α) p).dof = dofSize p := model_dof p
      have hdL : (Bundle.bundle (GDesc.models (α := α) ps)).dof = dofSizeL ps := models_dof ps
      have hpv := prod_block_values inv (GDesc.model (α := α) p) (Bundle.bundle (GDesc.models ps)) a ao
      simp only [dWritesL, List.mem_append] at hw
      rcases hw with hw | hw
      · obtain ⟨r, c, hr, hc, hp, e1, e2, e3⟩ := dWrites_hasValue inv p a ao i0 w hw
        refine ⟨r, c, by simp only [dofSizeL]; omega, by simp only [dofSizeL]; omega, ?_, e1, e2, ?_⟩
        · simp [inDL, hr, hc, hp]
        · rw [e3]
          exact (hpv.1 r c (hd ▸ hr) (hd ▸ hc)).symm
      · obtain ⟨r, c, hr, hc, hp, e1, e2, e3⟩ :=
          dWritesL_hasValue inv ps a (ao + dofSize p) (i0 + dofSize p) w hw
        refine ⟨dofSize p + r, dofSize p + c, by simp only [dofSizeL]; omega, by simp only [dofSizeL]; omega, ?_,
          by omega, by omega, ?_⟩
        · have h1 : ¬ (dofSize p + r < dofSize p) := by omega
          simp [inDL, h1, hp]
        · rw [e3]
          exact (hpv.2 (dofSize p) hd.symm r c (hdL ▸ hr) (hdL ▸ hc)).symm
end

/-! ### no position is written twice -/

omit [Scalar α] in
theorem nodup_keys_of_blocks (ws₁ ws₂ : List (Nat × Nat × α)) (lim : Nat)
    (h1 : (ws₁.map (fun w => (w.1, w.2.1))).Nodup) (h2 : (ws₂.map (fun w => (w.1, w.2.1))).Nodup)
    (hlt : ∀ w ∈ ws₁, w.1 < lim) (hge : ∀ w ∈ ws₂, lim ≤ w.1) :
    ((ws₁ ++ ws₂).map (fun w => (w.1, w.2.1))).Nodup := by
  rw [List.map_append, List.nodup_append]
  refine ⟨h1, h2, ?_⟩
  intro x hx y hy e
  simp only [List.mem_map] at hx hy
  obtain ⟨w, hw, rfl⟩ := hx
  obtain ⟨w', hw', rfl⟩ := hy
  have := hlt w hw
  have := hge w' hw'
  have := (Prod.mk.inj e).1
  omega

theorem identWrites_nodup (n i0 : Nat) : ((identWrites (α := α) n i0).map (fun w => (w.1, w.2.1))).Nodup := by
  simp only [identWrites, List.map_map]
  apply List.Nodup.map _ List.nodup_range
  intro x y h
  have := (Prod.mk.inj h).1
  dsimp only [Function.comp] at this
  omega

mutual
  theorem dWrites_nodup (inv : Bool) : (d : GDesc) → (a : Array α) → (ao i0 : Nat) →
      ((dWrites inv d a ao i0).map (fun w => (w.1, w.2.1))).Nodup
    | .bundle ps, a, ao, i0 => by
      simp only [dWrites]
      split
      · exact identWrites_nodup _ _
      · exact dWritesL_nodup inv ps a ao i0
    | .so2, _, _, i0 => identWrites_nodup 1 i0
    | .c1, _, _, i0 => identWrites_nodup 2 i0
    | .tn n, _, _, i0 => identWrites_nodup n i0
    | .so3, a, ao, i0 => denseWrites_nodup .so3 inv a ao i0
    | .se2, a, ao, i0 => denseWrites_nodup .se2 inv a ao i0
    | .se3, a, ao, i0 => denseWrites_nodup .se3 inv a ao i0
    | .gal, a, ao, i0 => denseWrites_nodup .gal inv a ao i0
    | .sek3 k, a, ao, i0 => denseWrites_nodup (.sek3 k) inv a ao i0
  theorem dWritesL_nodup (inv : Bool) : (ps : List GDesc) → (a : Array α) → (ao i0 : Nat) →
      ((dWritesL inv ps a ao i0).map (fun w => (w.1, w.2.1))).Nodup
    | [], _, _, _ => by simp [dWritesL]
    | p :: ps, a, ao, i0 => by
      simp only [dWritesL]
      apply nodup_keys_of_blocks _ _ (i0 + dofSize p) (dWrites_nodup inv p a ao i0)
        (dWritesL_nodup inv ps a (ao + dofSize p) (i0 + dofSize p))
      · intro w hw
        obtain ⟨r, c, hr, _, _, e1, _⟩ := dWrites_inBlock inv p a ao i0 w hw
        omega
      · intro w hw
        obtain ⟨r, c, _, _, _, e1, _⟩ := dWritesL_inBlock inv ps a (ao + dofSize p) (i0 + dofSize p) w hw
        omega
end

theorem denseWrites_covers (d : GDesc) (inv : Bool) (a : Array α) (ao i0 : Nat) (r c : Nat)
    (hr : r < dofSize d) (hc : c < dofSize d) (hp : inD d r c = true) :
    ∃ w ∈ denseWrites d inv a ao i0, w.1 = i0 + r ∧ w.2.1 = i0 + c := by
  have hm : (r, c) ∈ dPattern d := (mem_gridFilter _ _ _ r c).2 ⟨hr, hc, hp⟩
  simp only [denseWrites, List.mem_map]
  exact ⟨_, ⟨(r, c), hm, rfl⟩, rfl, rfl⟩

/-! ### every entry of the published pattern is written -/

mutual
  /-- commutative descriptors publish the diagonal only -/
  theorem comm_pattern_diag : (d : GDesc) → isComm d = true → ∀ r c, r < dofSize d → c < dofSize d →
      inD d r c = true → r = c
    | .so2, _, r, c, _, _, h => by simpa [inD] using h
    | .c1, _, r, c, _, _, h => by simpa [inD] using h
    | .tn _, _, r, c, _, _, h => by simpa [inD] using h
    | .so3, h, _, _, _, _, _ => by cases h
    | .se2, h, _, _, _, _, _ => by cases h
    | .se3, h, _, _, _, _, _ => by cases h
    | .gal, h, _, _, _, _, _ => by cases h
    | .sek3 _, h, _, _, _, _, _ => by cases h
    | .bundle ps, h, r, c, hr, hc, hp => comm_pattern_diagL ps h r c hr hc hp
  theorem comm_pattern_diagL : (ps : List GDesc) → isCommL ps = true → ∀ r c, r < dofSizeL ps → c < dofSizeL ps →
      inDL ps r c = true → r = c
    | [], _, r, _, hr, _, _ => absurd hr (Nat.not_lt_zero _)
    | p :: ps, h, r, c, hr, hc, hp => by
      have h' : isComm p = true ∧ isCommL ps = true := by simpa [isCommL] using h
      simp only [inDL] at hp
      simp only [dofSizeL] at hr hc
      by_cases h1 : r < dofSize p
      · simp only [h1, ↓reduceIte, Bool.and_eq_true, decide_eq_true_eq] at hp
        exact comm_pattern_diag p h'.1 r c h1 hp.1 hp.2
      · simp only [h1, ↓reduceIte, Bool.and_eq_true, decide_eq_true_eq] at hp
        have := comm_pattern_diagL ps h'.2 (r - dofSize p) (c - dofSize p) (by omega) (by omega) hp.2
        omega
end

mutual
  /-- **completeness of the block write**: every entry `(r, c)` of the published pattern is addressed
      (at `(i0 + r, i0 + c)`) by `dr_exp_sparse` / `dr_expinv_sparse` -/
  theorem dWrites_covers (inv : Bool) : (d : GDesc) → (a : Array α) → (ao i0 : Nat) →
      ∀ r c, r < dofSize d → c < dofSize d → inD d r c = true →
        ∃ w ∈ dWrites inv d a ao i0, w.1 = i0 + r ∧ w.2.1 = i0 + c
    | .bundle ps, a, ao, i0 => by
      intro r c hr hc hp
      simp only [dWrites]
      split
      · rename_i hcm
        have : r = c := comm_pattern_diagL ps hcm r c hr hc hp
        subst this
        exact ⟨(i0 + r, i0 + r, nat 1), by simp only [identWrites, List.mem_map, List.mem_range]; exact ⟨r, hr, rfl⟩, rfl, rfl⟩
      · exact dWritesL_covers inv ps a ao i0 r c hr hc hp
    | .so2, _, _, i0 => fun r c hr hc hp => by
      have : r = c := comm_pattern_diag .so2 rfl r c hr hc hp
      subst this
      exact ⟨(i0 + r, i0 + r, nat 1), by simp only [dWrites, identWrites, List.mem_map, List.mem_range]; exact ⟨r, hr, rfl⟩, rfl, rfl⟩
    | .c1, _, _, i0 => fun r c hr hc hp => by
      have : r = c := comm_pattern_diag .c1 rfl r c hr hc hp
      subst this
      exact ⟨(i0 + r, i0 + r, nat 1), by simp only [dWrites, identWrites, List.mem_map, List.mem_range]; exact ⟨r, hr, rfl⟩, rfl, rfl⟩
    | .tn n, _, _, i0 => fun r c hr hc hp => by
      have : r = c := comm_pattern_diag (.tn n) rfl r c hr hc hp
      subst this
      exact ⟨(i0 + r, i0 + r, nat 1), by simp only [dWrites, identWrites, List.mem_map, List.mem_range]; exact ⟨r, hr, rfl⟩, rfl, rfl⟩
    | .so3, a, ao, i0 => fun r c hr hc hp => denseWrites_covers .so3 inv a ao i0 r c hr hc hp
    | .se2, a, ao, i0 => fun r c hr hc hp => denseWrites_covers .se2 inv a ao i0 r c hr hc hp
    | .se3, a, ao, i0 => fun r c hr hc hp => denseWrites_covers .se3 inv a ao i0 r c hr hc hp
    | .gal, a, ao, i0 => fun r c hr hc hp => denseWrites_covers .gal inv a ao i0 r c hr hc hp
    | .sek3 k, a, ao, i0 => fun r c hr hc hp => denseWrites_covers (.sek3 k) inv a ao i0 r c hr hc hp
  theorem dWritesL_covers (inv : Bool) : (ps : List GDesc) → (a : Array α) → (ao i0 : Nat) →
      ∀ r c, r < dofSizeL ps → c < dofSizeL ps → inDL ps r c = true →
        ∃ w ∈ dWritesL inv ps a ao i0, w.1 = i0 + r ∧ w.2.1 = i0 + c
    | [], _, _, _ => fun r _ hr _ _ => absurd hr (Nat.not_lt_zero _)
    | p :: ps, a, ao, i0 => by
      intro r c hr hc hp
      simp only [inDL] at hp
      simp only [dofSizeL] at hr hc
      simp only [dWritesL, List.mem_append]
      by_cases h1 : r < dofSize p
      · simp only [h1, ↓reduceIte, Bool.and_eq_true, decide_eq_true_eq] at hp
        obtain ⟨w, hw, e1, e2⟩ := dWrites_covers inv p a ao i0 r c h1 hp.1 hp.2
        exact ⟨w, Or.inl hw, e1, e2⟩
      · simp only [h1, ↓reduceIte, Bool.and_eq_true, decide_eq_true_eq] at hp
        obtain ⟨w, hw, e1, e2⟩ := dWritesL_covers inv ps a (ao + dofSize p) (i0 + dofSize p)
          (r - dofSize p) (c - dofSize p) (by omega) (by omega) hp.2
        exact ⟨w, Or.inr hw, by omega, by omega⟩
end

end

end Sparse
