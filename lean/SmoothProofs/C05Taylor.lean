/-
  C05Taylor.lean — the small-angle (series) coefficients of `d2r_exp` are within explicit bounds of
  the closed-form coefficients, for `0 < θ ≤ 1/10` (the branch has `θ < 1e-4`):
  `A = (1−cos θ)/θ² ≈ 1/2 − θ²/24`, `B = (θ−sin θ)/θ³ ≈ 1/6 − θ²/120`,
  `dA/θ = sin θ/θ³ + 2cos θ/θ⁴ − 2/θ⁴ ≈ −1/12`, `dB/θ = −cos θ/θ⁴ − 2/θ⁴ + 3 sin θ/θ⁵ ≈ −1/60`.
  Taylor remainders from SmoothProofs/C02TaylorReal.
-/
import SmoothProofs.C04Taylor

open Lin Scalar

namespace C05Taylor
open C04Taylor

theorem quot_bound {u d B : ℝ} (hd : 0 < d) (hu : |u| ≤ B * d) : |u / d| ≤ B := by
  rw [abs_div, abs_of_pos hd, div_le_iff₀ hd]; exact hu

/-- remainders of sin (order 9) and cos (order 8) for `0 < θ ≤ 1/10` -/
theorem remainders (θ : ℝ) (h0 : 0 < θ) (h1 : θ ≤ 1 / 10) :
    ∃ es ec : ℝ, Real.sin θ = (θ - θ ^ 3 / 6 + θ ^ 5 / 120 - θ ^ 7 / 5040) + es ∧
      Real.cos θ = (1 - θ ^ 2 / 2 + θ ^ 4 / 24 - θ ^ 6 / 720) + ec ∧
      |es| ≤ θ ^ 9 * (10 / 3265920) ∧ |ec| ≤ θ ^ 8 * (9 / 322560) := by
  have habs : |θ| ≤ 1 := by rw [abs_of_pos h0]; linarith
  have hs := C02.sin_bound9 θ habs
  have hc := C02.cos_bound8 θ habs
  rw [abs_of_pos h0] at hs hc
  exact ⟨_, _, by ring, by ring, hs, hc⟩

theorem A_taylor (θ : ℝ) (h0 : 0 < θ) (h1 : θ ≤ 1 / 10) :
    |(1 - Real.cos θ) / θ ^ 2 - (1 / 2 - θ ^ 2 / 24)| ≤ θ ^ 4 / 700 := by
  obtain ⟨es, ec, -, hcos, -, hc⟩ := remainders θ h0 h1
  have hid : (1 - Real.cos θ) / θ ^ 2 - (1 / 2 - θ ^ 2 / 24) = (θ ^ 6 / 720 - ec) / θ ^ 2 := by
    rw [hcos]; field_simp; ring
  rw [hid]
  refine quot_bound (by positivity) ?_
  obtain ⟨hc1, hc2⟩ := abs_le.1 hc
  have q8 : θ ^ 8 ≤ θ ^ 6 / 100 := pow_step h0 h1 6
  have p6 : 0 < θ ^ 6 := by positivity
  have e : θ ^ 4 / 700 * θ ^ 2 = θ ^ 6 / 700 := by ring
  rw [e, abs_le]
  constructor <;> linarith

theorem B_taylor (θ : ℝ) (h0 : 0 < θ) (h1 : θ ≤ 1 / 10) :
    |(θ - Real.sin θ) / θ ^ 3 - (1 / 6 - θ ^ 2 / 120)| ≤ θ ^ 4 / 5000 := by
  obtain ⟨es, ec, hsin, -, hs, -⟩ := remainders θ h0 h1
  have hid : (θ - Real.sin θ) / θ ^ 3 - (1 / 6 - θ ^ 2 / 120) = (θ ^ 7 / 5040 - es) / θ ^ 3 := by
    rw [hsin]; field_simp; ring
  rw [hid]
  refine quot_bound (by positivity) ?_
  obtain ⟨hs1, hs2⟩ := abs_le.1 hs
  have q9 : θ ^ 9 ≤ θ ^ 7 / 100 := pow_step h0 h1 7
  have p7 : 0 < θ ^ 7 := by positivity
  have e : θ ^ 4 / 5000 * θ ^ 3 = θ ^ 7 / 5000 := by ring
  rw [e, abs_le]
  constructor <;> linarith

theorem dA_taylor (θ : ℝ) (h0 : 0 < θ) (h1 : θ ≤ 1 / 10) :
    |(Real.sin θ / θ ^ 3 + 2 * Real.cos θ / θ ^ 4 - 2 / θ ^ 4) - (-1 / 12)| ≤ θ ^ 2 / 170 := by
  obtain ⟨es, ec, hsin, hcos, hs, hc⟩ := remainders θ h0 h1
  have hid : (Real.sin θ / θ ^ 3 + 2 * Real.cos θ / θ ^ 4 - 2 / θ ^ 4) - (-1 / 12)
      = (θ ^ 6 / 180 - θ ^ 8 / 5040 + θ * es + 2 * ec) / θ ^ 4 := by
    rw [hsin, hcos]; field_simp; ring
  rw [hid]
  refine quot_bound (by positivity) ?_
  obtain ⟨hs1, hs2⟩ := abs_le.1 hs
  obtain ⟨hc1, hc2⟩ := abs_le.1 hc
  have b1 := mul_le_mul_of_nonneg_left hs2 h0.le
  have b2 := mul_le_mul_of_nonneg_left hs1 h0.le
  have q8 : θ ^ 8 ≤ θ ^ 6 / 100 := pow_step h0 h1 6
  have q10 : θ ^ 10 ≤ θ ^ 8 / 100 := pow_step h0 h1 8
  have p6 : 0 < θ ^ 6 := by positivity
  have p8 : 0 < θ ^ 8 := by positivity
  have e10 : θ * (θ ^ 9 * (10 / 3265920)) = θ ^ 10 * (10 / 3265920) := by ring
  have e : θ ^ 2 / 170 * θ ^ 4 = θ ^ 6 / 170 := by ring
  rw [e, abs_le]
  constructor <;> linarith

theorem dB_taylor (θ : ℝ) (h0 : 0 < θ) (h1 : θ ≤ 1 / 10) :
    |(-Real.cos θ / θ ^ 4 - 2 / θ ^ 4 + 3 * Real.sin θ / θ ^ 5) - (-1 / 60)| ≤ θ ^ 2 / 1000 := by
  obtain ⟨es, ec, hsin, hcos, hs, hc⟩ := remainders θ h0 h1
  have hid : (-Real.cos θ / θ ^ 4 - 2 / θ ^ 4 + 3 * Real.sin θ / θ ^ 5) - (-1 / 60)
      = (θ ^ 7 / 1260 + 3 * es - θ * ec) / θ ^ 5 := by
    rw [hsin, hcos]; field_simp; ring
  rw [hid]
  refine quot_bound (by positivity) ?_
  obtain ⟨hs1, hs2⟩ := abs_le.1 hs
  obtain ⟨hc1, hc2⟩ := abs_le.1 hc
  have b1 := mul_le_mul_of_nonneg_left hc2 h0.le
  have b2 := mul_le_mul_of_nonneg_left hc1 h0.le
  have q9 : θ ^ 9 ≤ θ ^ 7 / 100 := pow_step h0 h1 7
  have p7 : 0 < θ ^ 7 := by positivity
  have e9 : θ * (θ ^ 8 * (9 / 322560)) = θ ^ 9 * (9 / 322560) := by ring
  have e : θ ^ 2 / 1000 * θ ^ 5 = θ ^ 7 / 1000 := by ring
  rw [e, abs_le]
  constructor <;> linarith

end C05Taylor
