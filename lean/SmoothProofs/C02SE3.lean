/-
  C02SE3.lean — SE3: the closed-form branch of `exp` is the matrix exponential of `hat a`
  (4×4), any magnitude of the rotation part.  Rotation block: Rodrigues curve (C02SO3);
  translation column: `p(u) = (u·1 + β_u K + γ_u K²) v` solves `p' = K p + v`; and the code's
  `R · S₁(−ω) · v` equals `(1 + βK + γK²) v = p(1)`.
-/
import SmoothProofs.C02SO3
import SmoothProofs.C02Taylor
import SmoothProofs.C02Exp

open Lin Scalar

namespace C02

/-- 4×4 block matrix `[[M, c],[0, d]]` -/
def blk4 (M : Matrix (Fin 3) (Fin 3) ℝ) (c : Fin 3 → ℝ) (d : ℝ) : Matrix (Fin 4) (Fin 4) ℝ :=
  fun i j =>
    if hi : i.val < 3 then (if hj : j.val < 3 then M ⟨i.val, hi⟩ ⟨j.val, hj⟩ else c ⟨i.val, hi⟩)
    else (if j.val < 3 then 0 else d)

theorem blk4_mul (M M' : Matrix (Fin 3) (Fin 3) ℝ) (c c' : Fin 3 → ℝ) (d d' : ℝ) :
    blk4 M c d * blk4 M' c' d' = blk4 (M * M') (M.mulVec c' + d' • c) (d * d') := by
  ext i j
  rw [Matrix.mul_apply, Fin.sum_univ_castSucc]
  by_cases hi : i.val < 3 <;> by_cases hj : j.val < 3 <;>
    simp [blk4, hi, hj, Matrix.mul_apply, Matrix.mulVec, dotProduct, mul_comm]

theorem blk4_one : blk4 1 0 1 = 1 := by
  ext i j
  fin_cases i <;> fin_cases j <;> simp [blk4]

theorem K3_mulVec_cube (x y z : ℝ) (v : Fin 3 → ℝ) :
    (K3 x y z).mulVec ((K3 x y z).mulVec ((K3 x y z).mulVec v))
      = (-(x*x + y*y + z*z)) • (K3 x y z).mulVec v := by
  rw [Matrix.mulVec_mulVec, Matrix.mulVec_mulVec, Matrix.mul_assoc, K3_cube, Matrix.smul_mulVec]

/-- translation curve -/
noncomputable def pCurve (x y z θ : ℝ) (v : Fin 3 → ℝ) (u : ℝ) : Fin 3 → ℝ :=
  u • v + ((1 - Real.cos (u*θ)) / (θ*θ)) • (K3 x y z).mulVec v
    + ((u*θ - Real.sin (u*θ)) / (θ*θ*θ)) • (K3 x y z).mulVec ((K3 x y z).mulVec v)

theorem pCurve_zero (x y z θ : ℝ) (v : Fin 3 → ℝ) : pCurve x y z θ v 0 = 0 := by
  simp [pCurve]

theorem pCurve_hasDerivAt (x y z θ : ℝ) (v : Fin 3 → ℝ) (hθ : θ ≠ 0)
    (hn : θ * θ = x*x + y*y + z*z) (t : ℝ) (i : Fin 3) :
    HasDerivAt (fun u => pCurve x y z θ v u i)
      (((K3 x y z).mulVec (pCurve x y z θ v t) + (1:ℝ) • v) i) t := by
  set K := K3 x y z with hK
  set w1 := K.mulVec v with hw1
  set w2 := K.mulVec w1 with hw2
  have hl : HasDerivAt (fun u : ℝ => u * θ) θ t := by
    simpa using (hasDerivAt_id t).mul_const θ
  have hKp : K.mulVec (pCurve x y z θ v t) = t • w1 + ((1 - Real.cos (t*θ)) / (θ*θ)) • w2
      + ((t*θ - Real.sin (t*θ)) / (θ*θ*θ)) • ((-(x*x + y*y + z*z)) • w1) := by
    simp only [pCurve, Matrix.mulVec_add, Matrix.mulVec_smul, ← hK, ← hw1, ← hw2]
    rw [hw2, hw1, hK, K3_mulVec_cube]
  rw [hKp]
  have he : (fun u => pCurve x y z θ v u i) = fun u => u * v i
      + (1 - Real.cos (u*θ)) / (θ*θ) * w1 i + (u*θ - Real.sin (u*θ)) / (θ*θ*θ) * w2 i := by
    funext u
    simp only [pCurve, ← hK, ← hw1, ← hw2, Pi.add_apply, Pi.smul_apply, smul_eq_mul]
  rw [he]
  have hd := (((hasDerivAt_id t).mul_const (v i)).add
    (((hl.cos.const_sub 1).div_const (θ*θ)).mul_const (w1 i))).add
    (((hl.sub hl.sin).div_const (θ*θ*θ)).mul_const (w2 i))
  refine hd.congr_deriv ?_
  simp only [Pi.add_apply, Pi.smul_apply, smul_eq_mul]
  rw [← hn]
  field_simp
  ring

/-- the SE3 curve `Φ u = [[R(u), p(u)],[0, 1]]` is `exp (u • [[K, v],[0, 0]])` at `u = 1` -/
theorem se3_curve_eq_exp (x y z θ : ℝ) (v : Fin 3 → ℝ) (hθ : θ ≠ 0)
    (hn : θ * θ = x*x + y*y + z*z) :
    blk4 (rodCurve x y z θ 1) (pCurve x y z θ v 1) 1 = NormedSpace.exp (blk4 (K3 x y z) v 0) := by
  let Φ : ℝ → Matrix (Fin 4) (Fin 4) ℝ := fun u => blk4 (rodCurve x y z θ u) (pCurve x y z θ v u) 1
  have h := Matrix.eq_exp_of_entry_hasDerivAt_one (blk4 (K3 x y z) v 0) Φ
    (by simp only [Φ, rodCurve_zero, pCurve_zero]; exact blk4_one)
    (by
      intro t i j
      simp only [Φ, blk4_mul]
      by_cases hi : i.val < 3
      · by_cases hj : j.val < 3
        · simpa [blk4, hi, hj] using rodCurve_hasDerivAt x y z θ hθ hn t ⟨i.val, hi⟩ ⟨j.val, hj⟩
        · simpa [blk4, hi, hj] using pCurve_hasDerivAt x y z θ v hθ hn t ⟨i.val, hi⟩
      · by_cases hj : j.val < 3
        · simpa [blk4, hi, hj] using hasDerivAt_const t (0:ℝ)
        · simpa [blk4, hi, hj] using hasDerivAt_const t (1:ℝ))
  exact h


/-! ### connection with the model functions -/

theorem toM_mmul3 (A B : Mat ℝ 3 3) : toM (mmul A B) = toM A * toM B := by
  ext i j
  rw [Matrix.mul_apply, Fin.sum_univ_three]
  simp [toM, mmul, vsum]

theorem mulVec3_get (A : Mat ℝ 3 3) (v : Vec ℝ 3) : (mulVec A v).get = (toM A).mulVec v.get := by
  funext i
  simp [toM, mulVec, vsum, Matrix.mulVec, dotProduct, Fin.sum_univ_three]

theorem se3_hat_toM (a : Vec ℝ 6) :
    toM (SE3.hat a) = blk4 (K3 (a 3) (a 4) (a 5)) (SE3.tv a).get 0 := by
  ext i j
  fin_cases i <;> fin_cases j <;>
    simp [toM, SE3.hat, SE3.tw, SE3.tv, SO3.hat, blk4, K3, mat3, mk3]

theorem se3_matrix_mk7 (t : Vec ℝ 3) (q : Vec ℝ 4) :
    toM (SE3.matrix (SE3.mk7 t q)) = blk4 (toM (SO3.matrix q)) t.get 1 := by
  ext i j
  fin_cases i <;> fin_cases j <;>
    simp [toM, SE3.matrix, SE3.so3, SE3.mk7, SO3.matrix, blk4, mat3, mk4]

theorem K3_neg (x y z : ℝ) : K3 (-x) (-y) (-z) = -K3 x y z := by
  ext i j; fin_cases i <;> fin_cases j <;> simp [K3]

/-- `calc_S1 b = 1 − cos_2·K − sin_3·K²` as Mathlib matrices -/
theorem so3_calc_S1_toM (b : Vec ℝ 3) :
    toM (SO3.calc_S1 b) = 1 - Trig.cos_2 (sqNorm b) • K3 (b 0) (b 1) (b 2)
      - Trig.sin_3 (sqNorm b) • (K3 (b 0) (b 1) (b 2) * K3 (b 0) (b 1) (b 2)) := by
  ext i j
  rw [Matrix.sub_apply, Matrix.sub_apply, Matrix.smul_apply, Matrix.smul_apply, Matrix.mul_apply,
    Fin.sum_univ_three]
  simp only [toM, SO3.calc_S1, memoM_eq, Mat.of_get]
  generalize Trig.cos_2 (sqNorm b) = c2
  generalize Trig.sin_3 (sqNorm b) = s3
  fin_cases i <;> fin_cases j <;>
    simp [mmul, msmul, vsum, SO3.hat, ident, mat3, K3] <;> ring


/-- product of two polynomials `1 + fK + gK²` in the same `K` (uses `K³ = −nK`) -/
theorem rodrigues_mul (f g f' g' x y z : ℝ) :
    rodrigues f g x y z * rodrigues f' g' x y z
      = rodrigues (f + f' - (x*x + y*y + z*z) * (f * g' + g * f'))
          (g + g' + f * f' - (x*x + y*y + z*z) * (g * g')) x y z := by
  ext i j
  fin_cases i <;> fin_cases j <;>
    simp [rodrigues, K3, Matrix.mul_apply, Fin.sum_univ_three] <;> ring

theorem rodrigues_mulVec (f g x y z : ℝ) (v : Fin 3 → ℝ) :
    (rodrigues f g x y z).mulVec v
      = v + f • (K3 x y z).mulVec v + g • (K3 x y z).mulVec ((K3 x y z).mulVec v) := by
  simp [rodrigues, Matrix.add_mulVec, Matrix.smul_mulVec, Matrix.mulVec_mulVec]

theorem sqNorm_vneg (b : Vec ℝ 3) : sqNorm (vneg b) = sqNorm b := by
  rw [sqNorm3, sqNorm3]; simp [vneg]

/-- **SE3, closed-form branch**: `matrix (exp a) = exp (hat a)` for every `a` whose rotation part
has `‖ω‖² > eps2` (any magnitude, including above π). -/
theorem se3_exp_is_matrix_exp_closed (a : Vec ℝ 6) (h : Scalar.eps2 < sqNorm (SE3.tw a)) :
    toM (SE3.matrix (SE3.exp a)) = NormedSpace.exp (toM (SE3.hat a)) := by
  have hx : (SE3.tw a) 0 = a 3 := rfl
  have hy : (SE3.tw a) 1 = a 4 := rfl
  have hz : (SE3.tw a) 2 = a 5 := rfl
  have hpos : 0 < sqNorm (SE3.tw a) := lt_trans eps2_pos h
  have hnb : ¬ sqNorm (SE3.tw a) < Scalar.eps2 := not_lt.2 h.le
  set θ := Real.sqrt (sqNorm (SE3.tw a)) with hθ
  have hθpos : 0 < θ := Real.sqrt_pos.2 hpos
  have hθθ : θ * θ = sqNorm (SE3.tw a) := Real.mul_self_sqrt hpos.le
  have hn : θ * θ = a 3 * a 3 + a 4 * a 4 + a 5 * a 5 := by
    rw [hθθ, sqNorm3, hx, hy, hz]
  -- unfold the model `exp`
  have hexp : SE3.exp a = SE3.mk7 (mulVec (mmul (SO3.matrix (SO3.exp (SE3.tw a)))
      (SO3.calc_S1 (vneg (SE3.tw a)))) (SE3.tv a)) (SO3.exp (SE3.tw a)) := by
    simp only [SE3.exp, memoM_eq, memoV_eq, SO3.Ad, SO3.dr_exp]
  -- rotation block
  have hR : toM (SO3.matrix (SO3.exp (SE3.tw a)))
      = rodrigues (Real.sin θ / θ) ((1 - Real.cos θ) / (θ * θ)) (a 3) (a 4) (a 5) := by
    rw [so3_exp_eq_closed _ hnb]
    unfold so3ExpClosed
    simp only []
    rw [so3_matrix_canon, so3_quat_matrix_rodrigues, hx, hy, hz]
  -- S₁(−ω)
  have hJ : toM (SO3.calc_S1 (vneg (SE3.tw a)))
      = rodrigues ((Real.cos θ - 1) / (θ * θ)) (-((Real.sin θ - θ) / (θ * θ * θ))) (a 3) (a 4) (a 5) := by
    rw [so3_calc_S1_toM, sqNorm_vneg, trig_cos_2_closed _ h, trig_sin_3_closed _ h, ← hθ, ← hθθ]
    have e0 : (vneg (SE3.tw a)) 0 = -(a 3) := rfl
    have e1 : (vneg (SE3.tw a)) 1 = -(a 4) := rfl
    have e2 : (vneg (SE3.tw a)) 2 = -(a 5) := rfl
    rw [e0, e1, e2, K3_neg]
    simp only [rodrigues, smul_neg, neg_mul_neg, neg_smul, sub_eq_add_neg, neg_neg]
  rw [hexp, se3_matrix_mk7, se3_hat_toM, mulVec3_get, toM_mmul3, hR, hJ, rodrigues_mul,
    rodrigues_mulVec, ← se3_curve_eq_exp _ _ _ θ _ hθpos.ne' hn]
  have hsc := Real.sin_sq_add_cos_sq θ
  have c1 : Real.sin θ / θ + (Real.cos θ - 1) / (θ * θ)
      - (a 3 * a 3 + a 4 * a 4 + a 5 * a 5) * (Real.sin θ / θ * -((Real.sin θ - θ) / (θ * θ * θ))
        + (1 - Real.cos θ) / (θ * θ) * ((Real.cos θ - 1) / (θ * θ)))
      = (1 - Real.cos (1 * θ)) / (θ * θ) := by
    rw [← hn, one_mul]
    field_simp
    linear_combination hsc
  have c2 : (1 - Real.cos θ) / (θ * θ) + -((Real.sin θ - θ) / (θ * θ * θ))
      + Real.sin θ / θ * ((Real.cos θ - 1) / (θ * θ))
      - (a 3 * a 3 + a 4 * a 4 + a 5 * a 5) * ((1 - Real.cos θ) / (θ * θ)
        * -((Real.sin θ - θ) / (θ * θ * θ)))
      = (1 * θ - Real.sin (1 * θ)) / (θ * θ * θ) := by
    rw [← hn, one_mul]
    field_simp
    ring
  rw [c1, c2]
  congr 1
  · simp [rodCurve]
  · simp [pCurve]


theorem so3_exp_zero (b : Vec ℝ 3) (h0 : b 0 = 0) (h1 : b 1 = 0) (h2 : b 2 = 0) :
    SO3.exp b = mk4 0 0 0 1 := by
  have hs : sqNorm b = 0 := by rw [sqNorm3, h0, h1, h2]; ring
  have hb : (0 : ℝ) < Scalar.eps2 := eps2_pos
  have h10 : ¬ ((1:ℝ) < 0) := by norm_num
  ext i
  fin_cases i <;> simp [SO3.exp, SO3.expAB, SO3.canon, hs, hb, h0, h1, h2, mk4, h10]

/-- SE3 with rotation part exactly 0: series branches are taken and are exact
(`hat a` is nilpotent, `exp (hat a) = 1 + hat a`). -/
theorem se3_exp_is_matrix_exp_zero (a : Vec ℝ 6) (h3 : a 3 = 0) (h4 : a 4 = 0) (h5 : a 5 = 0) :
    toM (SE3.matrix (SE3.exp a)) = NormedSpace.exp (toM (SE3.hat a)) := by
  have hK0 : K3 0 0 0 = 0 := by
    ext i j; fin_cases i <;> fin_cases j <;> simp [K3]
  have hsq : toM (SE3.hat a) * toM (SE3.hat a) = 0 := by
    rw [se3_hat_toM, blk4_mul, h3, h4, h5, hK0]
    ext i j; fin_cases i <;> fin_cases j <;> simp [blk4]
  rw [exp_eq_one_add_of_sq_zero _ hsq, se3_hat_toM, h3, h4, h5, hK0]
  have hx : (SE3.tw a) 0 = 0 := h3
  have hy : (SE3.tw a) 1 = 0 := h4
  have hz : (SE3.tw a) 2 = 0 := h5
  have hq := so3_exp_zero (SE3.tw a) hx hy hz
  have hexp : SE3.exp a = SE3.mk7 (mulVec (mmul (SO3.matrix (mk4 (0:ℝ) 0 0 1))
      (SO3.calc_S1 (vneg (SE3.tw a)))) (SE3.tv a)) (mk4 0 0 0 1) := by
    simp only [SE3.exp, memoM_eq, memoV_eq, SO3.Ad, SO3.dr_exp, hq]
  have hR : toM (SO3.matrix (mk4 (0:ℝ) 0 0 1)) = 1 := by
    ext i j; fin_cases i <;> fin_cases j <;> simp [toM, SO3.matrix, mat3, mk4]
  have hJ : toM (SO3.calc_S1 (vneg (SE3.tw a))) = 1 := by
    rw [so3_calc_S1_toM]
    have e0 : (vneg (SE3.tw a)) 0 = 0 := by show -((SE3.tw a) 0) = 0; rw [hx, neg_zero]
    have e1 : (vneg (SE3.tw a)) 1 = 0 := by show -((SE3.tw a) 1) = 0; rw [hy, neg_zero]
    have e2 : (vneg (SE3.tw a)) 2 = 0 := by show -((SE3.tw a) 2) = 0; rw [hz, neg_zero]
    rw [e0, e1, e2, hK0]; simp
  rw [hexp, se3_matrix_mk7, mulVec3_get, toM_mmul3, hR, hJ]
  ext i j
  fin_cases i <;> fin_cases j <;> simp [blk4]

end C02
