/-
  C04SeriesGalD.lean — Galilei, closed branch: the summed series (C04SeriesGalA) evaluated on the
  blocks of `ad a` (C04SeriesGalC) is the model's `dr_exp a`, block by block:
  `S1(−ω)` (diagonal), `calculate_q(−b,−ω)` (as for SE3), `s·(S1 − S2)(−ω)`, `−S2(−ω)·b`,
  and `s·calculate_r(−b,−ω) + calculate_q(−q,−ω)`.
-/
import SmoothProofs.C04SeriesGalC

open Lin Scalar
set_option linter.unusedSimpArgs false

namespace C04SeriesGal
open C04Alg C04SO3 C04Series C04SeriesSE3 C05dQ

macro "entryR" : tactic => `(tactic|
  (simp only [W2, T2, Nm, Um, Lb, Kb, sI, madd, msmul, mneg, mzero, ident, Mat.of_get, C04Alg.mmul3,
     mulVec_apply, Fin.sum_univ_three, vadd, vsmul, vzero, hat_00, hat_01, hat_02,
     hat_10, hat_11, hat_12, hat_20, hat_21, hat_22, vneg, Vec.of_get, dot3, poly2,
     Fin.isValue, Fin.reduceEq, ↓reduceIte, Fin.zero_eta, Fin.mk_one, Fin.reduceFinMk,
     Scalar.nat_real, Nat.cast_ofNat, Nat.cast_zero, Nat.cast_one] <;>
   field_simp <;> rw [C04Alg.sqNorm3] <;> ring))

/-! ### the `b`-part of the `(q, ω)` block is `calculate_r(−b, −ω)` -/

/-- the `b`-part of the `(q,ω)` block per unit `s`, entry `(i,j)` -/
noncomputable def RP (b w : Vec ℝ 3) (θ s c : ℝ) (i j : Fin 3) : ℝ :=
  -((θ - s) / (sqNorm w * θ) * (SO3.hat b) i j)
    + (1 / 2 * ((1 - c) / sqNorm w) - 3 / 2 * ((θ - s) / (sqNorm w * θ))) / sqNorm w * (Lb b w) i j
    - (1 / 8 * (s / θ) - 7 / 8 * ((1 - c) / sqNorm w) + 15 / 8 * ((θ - s) / (sqNorm w * θ))) / sqNorm w ^ 2
        * (Kb b w) i j
    + (c - 1 + sqNorm w / 2) / (sqNorm w * sqNorm w) * ((T2 b w) i j + (mmul (SO3.hat w) (SO3.hat b)) i j)
    - (1 / 2 * ((θ - s) / (sqNorm w * θ)) - 2 * ((c - 1 + sqNorm w / 2) / (sqNorm w * sqNorm w))) / sqNorm w
        * ((Um b w) i j + (mmul (SO3.hat w) (Lb b w)) i j)
    + (1 / 8 * ((1 - c) / sqNorm w) - 9 / 8 * ((θ - s) / (sqNorm w * θ))
        + 3 * ((c - 1 + sqNorm w / 2) / (sqNorm w * sqNorm w))) / sqNorm w ^ 2
        * (mmul (SO3.hat w) (Kb b w)) i j

/-- the closed forms of the four `Trig` coefficients used by `calculate_r`, abstractly -/
structure TrigClosed (n θ s c : ℝ) : Prop where
  h3 : Trig.sin_3 n = (s - θ) / (n * θ)
  h4 : Trig.cos_4 n = (c - 1 + n / 2) / (n * n)
  h5 : Trig.sin_5 n = (s - θ + n * θ / 6) / (n * n * θ)
  h6 : Trig.cos_6 n = (c - 1 + n / 2 - n * n / 24) / (n * n * n)

section rblock
variable (b w : Vec ℝ 3) (θ s c : ℝ) (hθ : θ ≠ 0) (hn : sqNorm w ≠ 0) (ht : TrigClosed (sqNorm w) θ s c)
include hθ hn ht

set_option maxHeartbeats 2000000 in
theorem r_block_00 : RP b w θ s c 0 0 = (Galilei.calculate_r (vneg b) (vneg w)) 0 0 := by
  simp only [RP, Galilei.calculate_r, memoM_eq, Lin.mmul_msmul_get, sqNorm3_neg, ht.h3, ht.h4, ht.h5, ht.h6]
  entryR
set_option maxHeartbeats 2000000 in
theorem r_block_01 : RP b w θ s c 0 1 = (Galilei.calculate_r (vneg b) (vneg w)) 0 1 := by
  simp only [RP, Galilei.calculate_r, memoM_eq, Lin.mmul_msmul_get, sqNorm3_neg, ht.h3, ht.h4, ht.h5, ht.h6]
  entryR
set_option maxHeartbeats 2000000 in
theorem r_block_02 : RP b w θ s c 0 2 = (Galilei.calculate_r (vneg b) (vneg w)) 0 2 := by
  simp only [RP, Galilei.calculate_r, memoM_eq, Lin.mmul_msmul_get, sqNorm3_neg, ht.h3, ht.h4, ht.h5, ht.h6]
  entryR
set_option maxHeartbeats 2000000 in
theorem r_block_10 : RP b w θ s c 1 0 = (Galilei.calculate_r (vneg b) (vneg w)) 1 0 := by
  simp only [RP, Galilei.calculate_r, memoM_eq, Lin.mmul_msmul_get, sqNorm3_neg, ht.h3, ht.h4, ht.h5, ht.h6]
  entryR
set_option maxHeartbeats 2000000 in
theorem r_block_11 : RP b w θ s c 1 1 = (Galilei.calculate_r (vneg b) (vneg w)) 1 1 := by
  simp only [RP, Galilei.calculate_r, memoM_eq, Lin.mmul_msmul_get, sqNorm3_neg, ht.h3, ht.h4, ht.h5, ht.h6]
  entryR
set_option maxHeartbeats 2000000 in
theorem r_block_12 : RP b w θ s c 1 2 = (Galilei.calculate_r (vneg b) (vneg w)) 1 2 := by
  simp only [RP, Galilei.calculate_r, memoM_eq, Lin.mmul_msmul_get, sqNorm3_neg, ht.h3, ht.h4, ht.h5, ht.h6]
  entryR
set_option maxHeartbeats 2000000 in
theorem r_block_20 : RP b w θ s c 2 0 = (Galilei.calculate_r (vneg b) (vneg w)) 2 0 := by
  simp only [RP, Galilei.calculate_r, memoM_eq, Lin.mmul_msmul_get, sqNorm3_neg, ht.h3, ht.h4, ht.h5, ht.h6]
  entryR
set_option maxHeartbeats 2000000 in
theorem r_block_21 : RP b w θ s c 2 1 = (Galilei.calculate_r (vneg b) (vneg w)) 2 1 := by
  simp only [RP, Galilei.calculate_r, memoM_eq, Lin.mmul_msmul_get, sqNorm3_neg, ht.h3, ht.h4, ht.h5, ht.h6]
  entryR
set_option maxHeartbeats 2000000 in
theorem r_block_22 : RP b w θ s c 2 2 = (Galilei.calculate_r (vneg b) (vneg w)) 2 2 := by
  simp only [RP, Galilei.calculate_r, memoM_eq, Lin.mmul_msmul_get, sqNorm3_neg, ht.h3, ht.h4, ht.h5, ht.h6]
  entryR

/-- **`calculate_r(−b, −ω)` is the `b`-part of the `(q, ω)` block of the summed series** -/
theorem r_block (i j : Fin 3) : RP b w θ s c i j = (Galilei.calculate_r (vneg b) (vneg w)) i j := by
  fin_cases i <;> fin_cases j
  · exact r_block_00 b w θ s c hθ hn ht
  · exact r_block_01 b w θ s c hθ hn ht
  · exact r_block_02 b w θ s c hθ hn ht
  · exact r_block_10 b w θ s c hθ hn ht
  · exact r_block_11 b w θ s c hθ hn ht
  · exact r_block_12 b w θ s c hθ hn ht
  · exact r_block_20 b w θ s c hθ hn ht
  · exact r_block_21 b w θ s c hθ hn ht
  · exact r_block_22 b w θ s c hθ hn ht

end rblock

end C04SeriesGal
