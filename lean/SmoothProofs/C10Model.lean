/-
  C10Model.lean — the model-level specification of the step solver (`SmoothModel/Optim.lean`, over
  `Vec`/`Mat` with left-to-right sums) at `α := ℝ` coincides with the Mathlib formulation used by
  the theorems of C10 (`C10Lin`), so those theorems are statements about the model.
-/
import SmoothProofs.Real
import SmoothProofs.C10Lin
import SmoothModel.Optim
import Mathlib.Algebra.BigOperators.Fin

open Matrix Lin Scalar

namespace C10Model

/-- the model's left-to-right sum is the finite sum -/
theorem vsum_eq_sum : ∀ (n : Nat) (f : Fin n → ℝ), vsum n f = ∑ i, f i
  | 0, f => by simp [vsum]
  | n + 1, f => by
    rw [vsum, vsum_eq_sum n, Fin.sum_univ_castSucc]

/-- the model matrix as a Mathlib matrix -/
def toM {m n : Nat} (J : Mat ℝ m n) : Matrix (Fin m) (Fin n) ℝ := Matrix.of J.get

theorem hessian_eq {m n : Nat} (J : Mat ℝ m n) (d : Vec ℝ n) (lam : ℝ) (i j : Fin n) :
    (Optim.hessian J d lam) i j = C10Lin.H (toM J) d.get lam i j := by
  unfold Optim.hessian C10Lin.H toM
  simp only [Mat.of_get, vsum_eq_sum, Matrix.add_apply, Matrix.mul_apply, Matrix.transpose_apply,
    Matrix.of_apply, Matrix.smul_apply, Matrix.diagonal_apply, smul_eq_mul]
  by_cases h : i = j
  · subst h; simp; ring
  · simp [h]

theorem negJtr_eq {m n : Nat} (J : Mat ℝ m n) (r : Vec ℝ m) (i : Fin n) :
    (Optim.negJtr J r) i = (-((toM J)ᵀ *ᵥ r.get)) i := by
  unfold Optim.negJtr toM
  simp only [Vec.of_get, vsum_eq_sum, Pi.neg_apply, Matrix.mulVec, dotProduct, Matrix.transpose_apply, Matrix.of_apply]
  rw [← Finset.sum_neg_distrib]
  apply Finset.sum_congr rfl
  intro k _
  ring

/-- the model's contract of `ldlt.solve` is the normal equation `H x = −Jᵀ r` -/
theorem isStep_iff {m n : Nat} (J : Mat ℝ m n) (d : Vec ℝ n) (r : Vec ℝ m) (lam : ℝ) (x : Vec ℝ n) :
    Optim.IsStep J d r lam x ↔ C10Lin.NormalEq (toM J) d.get r.get lam x.get := by
  unfold Optim.IsStep C10Lin.NormalEq
  constructor
  · intro h
    funext i
    have := h i
    rw [negJtr_eq] at this
    rw [← this]
    simp only [Lin.mulVec, Vec.of_get, vsum_eq_sum, Matrix.mulVec, dotProduct]
    apply Finset.sum_congr rfl
    intro j _
    rw [hessian_eq]
  · intro h i
    rw [negJtr_eq, ← h]
    simp only [Lin.mulVec, Vec.of_get, vsum_eq_sum, Matrix.mulVec, dotProduct]
    apply Finset.sum_congr rfl
    intro j _
    rw [hessian_eq]

/-- `lambda = 1/Delta` is positive for a positive trust-region size -/
theorem lambdaOf_pos {delta : ℝ} (h : 0 < delta) : 0 < Optim.lambdaOf delta := by
  unfold Optim.lambdaOf
  simp only [Nat.cast_one]
  positivity

/-- the diagonal scaling of `minimize` is strictly positive whatever the Jacobian -/
theorem clampScale_pos (x : ℝ) : 0 < Optim.clampScale x := by
  unfold Optim.clampScale
  simp only [Scalar.nat_real]
  split_ifs with h1 h2
  · positivity
  · positivity
  · have : (0:ℝ) < ((1:ℕ):ℝ) / ((1000000:ℕ):ℝ) := by positivity
    exact lt_of_lt_of_le this (not_lt.1 h1)

theorem scaling_pos {m n : Nat} (J : Mat ℝ m n) (j : Fin n) : 0 < (Optim.scaling J) j := by
  unfold Optim.scaling
  simp only [Vec.of_get]
  exact clampScale_pos _

/-- both branches of `colwise_norm` return `√Σᵢ M[i,j]²` -/
theorem colNormDense_spec {m n : Nat} (M : Mat ℝ m n) (j : Fin n) :
    (Optim.colNormDense M) j = Real.sqrt (∑ i, (M i j) ^ 2) := by
  unfold Optim.colNormDense
  simp only [Vec.of_get, vsum_eq_sum]
  show Real.sqrt _ = _
  congr 1
  apply Finset.sum_congr rfl
  intro i _
  ring

theorem colNormSparse_spec {m n : Nat} (M : Mat ℝ m n) (stored : Fin m → Fin n → Bool)
    (hst : ∀ i j, stored i j = false → M i j = 0) (j : Fin n) :
    (Optim.colNormSparse M stored) j = Real.sqrt (∑ i, (M i j) ^ 2) := by
  unfold Optim.colNormSparse Optim.sq
  simp only [Vec.of_get, vsum_eq_sum, Scalar.nat_real]
  show Real.sqrt _ = _
  congr 1
  apply Finset.sum_congr rfl
  intro i _
  by_cases h : stored i j = true
  · simp [h]; ring
  · have h' : stored i j = false := by simpa using h
    simp [h', hst i j h']

end C10Model
