/-
  SmoothProofs/C18Conc.lean — lemmas about the interleaving model (core Lean only).
  Main results: `Conc.run_agrees_with_solo` (write-free threads: every schedule gives every thread
  the state of its solo run) and `Conc.scratch_counter_schedule` (a shared scratch cell breaks it).
-/
import SmoothModel.Conc

namespace Conc

/-- `sh` differs from `s0` only by once-cells that were uninitialised in `s0` and now hold their
    own initialiser's value -/
def Ext (ini : Cell → Val) (s0 sh : Shared) : Prop :=
  sh.mem = s0.mem ∧ ∀ c, sh.once c = s0.once c ∨ (s0.once c = none ∧ sh.once c = some (ini c))

theorem Ext.refl (ini : Cell → Val) (s0 : Shared) : Ext ini s0 s0 := ⟨rfl, fun _ => Or.inl rfl⟩

theorem writeFree_tail {ini : Cell → Val} {s : Step} {r : List Step} (h : WriteFree ini (s :: r)) :
    WriteFree ini r := fun x hx => h x (List.mem_cons_of_mem _ hx)

theorem writeFree_head {ini : Cell → Val} {s : Step} {r : List Step} (h : WriteFree ini (s :: r)) :
    s.admissible ini := h s (List.mem_cons_self ..)

/-- one step of a write-free thread: the private outcome does not depend on which extension of
    `s0` it runs against, and the shared state stays an extension of `s0` -/
theorem stepThread_agree (ini : Cell → Val) (s0 sh1 sh2 : Shared) (t : TState)
    (h1 : Ext ini s0 sh1) (h2 : Ext ini s0 sh2) (hg : WriteFree ini t.todo) :
    (stepThread sh1 t).2 = (stepThread sh2 t).2 ∧ Ext ini s0 (stepThread sh1 t).1 ∧
      WriteFree ini (stepThread sh1 t).2.todo := by
  obtain ⟨todo, loc⟩ := t
  cases todo with
  | nil => exact ⟨rfl, h1, hg⟩
  | cons s r =>
    have hr : WriteFree ini r := writeFree_tail hg
    have hs : s.admissible ini := writeFree_head hg
    cases s with
    | read c =>
      refine ⟨?_, h1, hr⟩
      simp [stepThread, h1.1, h2.1]
    | write c v => exact absurd hs (by simp [Step.admissible])
    | loc f => exact ⟨rfl, h1, hr⟩
    | initOnce c f =>
      have hf : f () = ini c := hs
      have e1 := h1.2 c
      have e2 := h2.2 c
      -- the value observed is the same in all cases
      have key : ∀ (sh : Shared), (sh.once c = s0.once c ∨ (s0.once c = none ∧ sh.once c = some (ini c))) →
          (stepThread sh ⟨Step.initOnce c f :: r, loc⟩).2 =
            ⟨r, (match s0.once c with | some v => v | none => ini c) :: loc⟩ := by
        intro sh e
        cases hs0 : s0.once c with
        | some v =>
          have : sh.once c = some v := by
            cases e with
            | inl e => rw [e, hs0]
            | inr e => rw [hs0] at e; exact absurd e.1 (by simp)
          simp [stepThread, this]
        | none =>
          cases e with
          | inl e => rw [hs0] at e; simp [stepThread, e, hf]
          | inr e => simp [stepThread, e.2]
      refine ⟨by rw [key sh1 e1, key sh2 e2], ?_, ?_⟩
      · -- shared state after the step
        cases ho : sh1.once c with
        | some v =>
          have : (stepThread sh1 ⟨Step.initOnce c f :: r, loc⟩).1 = sh1 := by simp [stepThread, ho]
          rw [this]; exact h1
        | none =>
          have : (stepThread sh1 ⟨Step.initOnce c f :: r, loc⟩).1 = ⟨sh1.mem, upd sh1.once c (some (f ()))⟩ := by
            simp [stepThread, ho]
          rw [this]
          refine ⟨h1.1, fun d => ?_⟩
          by_cases hd : d = c
          · subst hd
            right
            refine ⟨?_, by simp [upd, hf]⟩
            cases e1 with
            | inl e => rw [← e, ho]
            | inr e => exact e.1
          · simpa [upd, hd] using h1.2 d
      · rw [key sh1 e1]; exact hr

/-- number of occurrences of thread id `i` in a schedule -/
def cnt (i : Nat) : List Nat → Nat
  | [] => 0
  | j :: s => (if j = i then 1 else 0) + cnt i s

/-- invariant of a run of write-free threads started from `s0` -/
structure Inv (ini : Cell → Val) (progs : Nat → List Step) (s0 : Shared) (cfg : Config) (n : Nat → Nat) : Prop where
  ext : Ext ini s0 cfg.sh
  good : ∀ i, WriteFree ini (cfg.th i).todo
  solo : ∀ i, ∃ shi, Ext ini s0 shi ∧ Conc.solo (progs i) s0 (n i) = (shi, cfg.th i)

theorem Inv.step {ini : Cell → Val} {progs : Nat → List Step} {s0 : Shared} {cfg : Config} {n : Nat → Nat}
    (h : Inv ini progs s0 cfg n) (i : Nat) : Inv ini progs s0 (cfg.step i) (upd n i (n i + 1)) := by
  obtain ⟨shi, hshi, hsolo⟩ := h.solo i
  have A := stepThread_agree ini s0 cfg.sh shi (cfg.th i) h.ext hshi (h.good i)
  have B := stepThread_agree ini s0 shi cfg.sh (cfg.th i) hshi h.ext (h.good i)
  refine ⟨A.2.1, fun j => ?_, fun j => ?_⟩
  · by_cases hj : j = i
    · subst hj; simpa [Config.step, upd] using A.2.2
    · simpa [Config.step, upd, hj] using h.good j
  · by_cases hj : j = i
    · subst hj
      refine ⟨(stepThread shi (cfg.th j)).1, B.2.1, ?_⟩
      have : Conc.solo (progs j) s0 (n j + 1) = stepThread shi (cfg.th j) := by
        simp [Conc.solo, hsolo]
      simp only [upd, if_true, this, Config.step]
      rw [← B.1]
    · obtain ⟨shj, hshj, hsj⟩ := h.solo j
      exact ⟨shj, hshj, by simpa [Config.step, upd, hj] using hsj⟩

theorem Inv.runFrom {ini : Cell → Val} {progs : Nat → List Step} {s0 : Shared} (sched : List Nat) :
    ∀ {cfg : Config} {n : Nat → Nat}, Inv ini progs s0 cfg n →
      Inv ini progs s0 (Conc.runFrom sched cfg) (fun j => n j + cnt j sched) := by
  induction sched with
  | nil => intro cfg n h; simpa [Conc.runFrom, cnt] using h
  | cons i s ih =>
    intro cfg n h
    have h2 := ih (h.step i)
    have e : (fun j => upd n i (n i + 1) j + cnt j s) = (fun j => n j + cnt j (i :: s)) := by
      funext j
      by_cases hj : j = i
      · subst hj; simp [upd, cnt]; omega
      · have : ¬ i = j := fun e => hj e.symm
        simp [upd, cnt, hj, this]
    rw [e] at h2
    simpa [Conc.runFrom] using h2

theorem Inv.init (ini : Cell → Val) (threads : List (List Step)) (s0 : Shared)
    (hwf : ∀ p ∈ threads, WriteFree ini p) :
    Inv ini (fun i => threads.getD i []) s0 (Conc.init threads s0) (fun _ => 0) := by
  refine ⟨Ext.refl _ _, fun i => ?_, fun i => ⟨s0, Ext.refl _ _, rfl⟩⟩
  show WriteFree ini (threads.getD i [])
  by_cases hi : i < threads.length
  · have : threads.getD i [] = threads[i] := by simp [List.getD, hi]
    rw [this]; exact hwf _ (List.getElem_mem hi)
  · have : threads.getD i [] = [] := by simp [List.getD, List.getElem?_eq_none (Nat.le_of_not_lt hi)]
    rw [this]; intro s hs; cases hs

/-- Write-free threads: after ANY schedule, thread `i` is exactly where its solo run from the same
    initial shared state is after the same number of its own steps. -/
theorem run_agrees_with_solo (ini : Cell → Val) (threads : List (List Step)) (s0 : Shared)
    (hwf : ∀ p ∈ threads, WriteFree ini p) (sched : List Nat) (i : Nat) :
    (run sched threads s0).th i = (solo (threads.getD i []) s0 (cnt i sched)).2 := by
  have h := (Inv.init ini threads s0 hwf).runFrom sched
  obtain ⟨shi, _, hs⟩ := h.solo i
  simp only [Nat.zero_add] at hs
  show (runFrom sched (init threads s0)).th i = _
  rw [hs]

/-- once a thread has nothing left to do, further steps change nothing -/
theorem solo_done (steps : List Step) (s0 : Shared) (n : Nat) (h : (solo steps s0 n).2.todo = []) (k : Nat) :
    solo steps s0 (n + k) = solo steps s0 n := by
  induction k with
  | zero => rfl
  | succ k ih =>
    show stepThread (solo steps s0 (n + k)).1 (solo steps s0 (n + k)).2 = _
    rw [ih]
    simp [stepThread, h]

theorem stepThread_todo_length (sh : Shared) (t : TState) :
    (stepThread sh t).2.todo.length = t.todo.length - 1 := by
  obtain ⟨todo, loc⟩ := t
  cases todo with
  | nil => rfl
  | cons s r =>
    cases s with
    | read c => rfl
    | write c v => rfl
    | loc f => rfl
    | initOnce c f =>
      cases h : sh.once c <;> simp [stepThread, h]

theorem solo_todo_length (steps : List Step) (s0 : Shared) (n : Nat) :
    (solo steps s0 n).2.todo.length = steps.length - n := by
  induction n with
  | zero => rfl
  | succ n ih =>
    show (stepThread (solo steps s0 n).1 (solo steps s0 n).2).2.todo.length = _
    rw [stepThread_todo_length, ih]; omega

/-- a solo run of at least `length` steps is the complete run -/
theorem solo_complete (steps : List Step) (s0 : Shared) (n : Nat) (hn : steps.length ≤ n) :
    solo steps s0 n = solo steps s0 steps.length := by
  have hd : (solo steps s0 steps.length).2.todo = [] := by
    have := solo_todo_length steps s0 steps.length
    simpa using this
  have := solo_done steps s0 steps.length hd (n - steps.length)
  rwa [Nat.add_sub_cancel' hn] at this

/-- two threads using one shared scratch cell: the schedule W0 W1 R1 R0 gives thread 0 the other
    thread's argument.  General in the cell, the arguments and the initial state. -/
theorem scratch_counter_schedule (c : Cell) (a b : Val) (hab : a ≠ b) (s0 : Shared) :
    result [0, 1, 1, 0] [scratchOp c a, scratchOp c b] s0 0 ≠ soloResult (scratchOp c a) s0 := by
  have h1 : result [0, 1, 1, 0] [scratchOp c a, scratchOp c b] s0 0 = [b] := by
    simp [result, run, runFrom, init, Config.step, stepThread, scratchOp, upd]
  have h2 : soloResult (scratchOp c a) s0 = [a] := by
    simp [soloResult, solo, stepThread, scratchOp, upd]
  rw [h1, h2]
  intro h
  exact hab (List.cons.inj h).1.symm

end Conc
